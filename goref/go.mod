module verifref

go 1.12

require (
	github.com/allegro/bigcache v1.2.0
	github.com/ethereum/go-ethereum v1.8.27
	github.com/go-stack/stack v1.8.0
	github.com/golang/snappy v0.0.0-20180518054509-2e65f85255db
	github.com/hashicorp/golang-lru v0.5.0
	github.com/syndtr/goleveldb v0.0.0-20170725064836-b89cc31ef797
	golang.org/x/crypto v0.0.0-20190426145343-a29dc8fdc734
	golang.org/x/sys v0.0.0-20190602015325-4c4f7f33c9ed
)
