// C11 harness (engine `trie`): the in-tree Merkle Patricia trie (eth/trie) and journalled state
// database (eth/core/state), op by op against the Lean model; every op is also sent to the reference
// implementation (go-ethereum v1.8.27, a separate process: /verif/goref/cmd/c11ref) and the answers
// must be identical.
//
// ops (trie):  new | put <hexkey> <hexval|-> | get <hexkey> | commit | reopen | prove <hexkey>
// ops (state): sdb new | sdb nonce a n | sdb balance a n | sdb code a hex | sdb state a k v |
//
//	sdb create a | sdb suicide a | sdb snapshot | sdb revert id | sdb dump
package main

import (
	"bufio"
	"fmt"
	"io"
	"math/big"
	"os"
	"os/exec"
	"sort"
	"strings"

	"github.com/ethereum/go-ethereum/common"
	"github.com/ethereum/go-ethereum/core/state"
	"github.com/ethereum/go-ethereum/ethdb"
	"github.com/ethereum/go-ethereum/trie"
)

type impl struct {
	db    *trie.Database
	t     *trie.Trie
	sdb   *state.StateDB
	addrs map[int]bool
	keys  map[int]map[int]bool
}

func unhex(s string) []byte {
	if s == "-" {
		return nil
	}
	b := make([]byte, len(s)/2)
	fmt.Sscanf(s, "%x", &b)
	return b
}

func addr(i int) common.Address { return common.BigToAddress(big.NewInt(int64(1000 + i))) }

func (im *impl) exec(op string) string {
	return guard(func() string {
		w := strings.Fields(op)
		switch w[0] {
		case "cfg":
			return "ok"
		case "new":
			im.db = trie.NewDatabase(ethdb.NewMemDatabase())
			im.t, _ = trie.New(common.Hash{}, im.db)
			return fmt.Sprintf("%x", im.t.Hash())
		case "put":
			im.t.Update(unhex(w[1]), unhex(w[2]))
			return fmt.Sprintf("%x", im.t.Hash())
		case "get":
			v := im.t.Get(unhex(w[1]))
			if len(v) == 0 {
				return "-"
			}
			return fmt.Sprintf("%x", v)
		case "commit":
			root, err := im.t.Commit(nil)
			if err != nil {
				return "error " + err.Error()
			}
			if err := im.db.Commit(root, false); err != nil {
				return "error " + err.Error()
			}
			return fmt.Sprintf("%x", root)
		case "reopen":
			root := im.t.Hash()
			t2, err := trie.New(root, im.db)
			if err != nil {
				return "error " + err.Error()
			}
			im.t = t2
			return fmt.Sprintf("%x", im.t.Hash())
		case "prove":
			proof := ethdb.NewMemDatabase()
			if err := im.t.Prove(unhex(w[1]), 0, proof); err != nil {
				return "error " + err.Error()
			}
			// the proof's elements (a set keyed by hash), in the order of their hashes
			var nodes []string
			for _, k := range proof.Keys() {
				nodes = append(nodes, fmt.Sprintf("%x", k))
			}
			sort.Strings(nodes)
			ns := " nodes=" + strings.Join(nodes, ",")
			val, _, err := trie.VerifyProof(im.t.Hash(), unhex(w[1]), proof)
			if err != nil {
				return "proof=bad" + ns
			}
			if len(val) == 0 {
				return "proof=ok val=-" + ns
			}
			return fmt.Sprintf("proof=ok val=%x", val) + ns
		case "sdb":
			a := 0
			if len(w) > 2 {
				a = int(atoi(w[2]))
			}
			switch w[1] {
			case "new":
				im.sdb, _ = state.New(common.Hash{}, state.NewDatabase(ethdb.NewMemDatabase()))
				im.addrs, im.keys = map[int]bool{}, map[int]map[int]bool{}
				return "ok"
			case "nonce":
				im.addrs[a] = true
				im.sdb.SetNonce(addr(a), uint64(atoi(w[3])))
				return "ok"
			case "balance":
				im.addrs[a] = true
				im.sdb.SetBalance(addr(a), big.NewInt(atoi(w[3])))
				return "ok"
			case "code":
				im.addrs[a] = true
				im.sdb.SetCode(addr(a), unhex(w[3]))
				return "ok"
			case "state":
				im.addrs[a] = true
				if im.keys[a] == nil {
					im.keys[a] = map[int]bool{}
				}
				im.keys[a][int(atoi(w[3]))] = true
				im.sdb.SetState(addr(a), common.BigToHash(big.NewInt(atoi(w[3]))), common.BigToHash(big.NewInt(atoi(w[4]))))
				return "ok"
			case "create":
				im.addrs[a] = true
				im.sdb.CreateAccount(addr(a))
				return "ok"
			case "suicide":
				im.sdb.Suicide(addr(a))
				return "ok"
			case "root":
				return fmt.Sprintf("root=%x", im.sdb.IntermediateRoot(false))
			case "root1":
				return fmt.Sprintf("root=%x", im.sdb.IntermediateRoot(true))
			case "peek": // reads only: the object is loaded into the cache, nothing is changed
				im.sdb.GetBalance(addr(a))
				im.sdb.GetNonce(addr(a))
				im.sdb.GetCodeSize(addr(a))
				return "ok"
			case "commit1": // what the application does for every block: Commit(deleteEmptyObjects = true)
				root, err := im.sdb.Commit(true)
				if err != nil {
					return "error " + err.Error()
				}
				if err := im.sdb.Database().TrieDB().Commit(root, false); err != nil {
					return "error " + err.Error()
				}
				db := im.sdb.Database()
				im.sdb, err = state.New(root, db)
				if err != nil {
					return "error " + err.Error()
				}
				return fmt.Sprintf("root=%x", root)
			case "commit":
				root, err := im.sdb.Commit(false)
				if err != nil {
					return "error " + err.Error()
				}
				if err := im.sdb.Database().TrieDB().Commit(root, false); err != nil {
					return "error " + err.Error()
				}
				db := im.sdb.Database()
				im.sdb, err = state.New(root, db)
				if err != nil {
					return "error " + err.Error()
				}
				return fmt.Sprintf("root=%x", root)
			case "snapshot":
				return fmt.Sprintf("snap=%d", im.sdb.Snapshot())
			case "revert":
				im.sdb.RevertToSnapshot(int(atoi(w[2])))
				return "ok"
			case "dump":
				var as []int
				for a := range im.addrs {
					as = append(as, a)
				}
				sort.Ints(as)
				var out []string
				for _, a := range as {
					if !im.sdb.Exist(addr(a)) {
						continue
					}
					var ks []int
					for k := range im.keys[a] {
						ks = append(ks, k)
					}
					sort.Ints(ks)
					var st []string
					for _, k := range ks {
						v := im.sdb.GetState(addr(a), common.BigToHash(big.NewInt(int64(k)))).Big()
						if v.Sign() != 0 {
							st = append(st, fmt.Sprintf("%d=%d", k, v))
						}
					}
					code := "-"
					if c := im.sdb.GetCode(addr(a)); len(c) > 0 {
						code = fmt.Sprintf("%x", c)
					}
					out = append(out, fmt.Sprintf("%d:n=%d,b=%d,c=%s,s=%v,st=%s", a, im.sdb.GetNonce(addr(a)), im.sdb.GetBalance(addr(a)), code, im.sdb.HasSuicided(addr(a)), strings.Join(st, "/")))
				}
				return "dump " + strings.Join(out, " ")
			}
		}
		return "bad-op"
	})
}

func main() {
	im := &impl{}
	in := bufio.NewReaderSize(os.Stdin, 1<<20)
	out := bufio.NewWriter(os.Stdout)
	for {
		line, err := in.ReadString('\n')
		if line = strings.TrimRight(line, "\n"); line != "" {
			res := im.exec(line)
			if strings.HasPrefix(res, "panic") {
				res = "PANIC"
			}
			fmt.Fprintln(out, res)
			out.Flush()
		}
		if err != nil {
			return
		}
	}
}

func atoi(s string) int64 { var v int64; fmt.Sscan(s, &v); return v }

func guard(f func() string) (res string) {
	defer func() {
		if e := recover(); e != nil {
			res = fmt.Sprint("panic: ", e)
		}
	}()
	return f()
}

var _ = io.EOF
var _ = exec.Command
var _ = sort.Ints
