// c10ref: the reference EVM (go-ethereum v1.8.27, Constantinople rules from block 0) as a line
// co-process for the C10 engine. One scenario per input line, one result per output line.
//
//	run block=<n> acct=<addr>:<nonce>:<balance>:<codehex>:<k=v;...>,... msg=call|create from=<addr> to=<addr> value=<n> input=<hex>
//	    -> <ok|revert|fail> ret=<hex> created=<addr|-> root=<hex> logs=<n>:<hash> [err=<text>]
//	pgas addr=<n> input=<hex>      -> required gas of a precompile
//	prun addr=<n> input=<hex>      -> <ok|fail> <hex>
//	dump                           -> the accounts after the last run
package main

import (
	"bufio"
	"fmt"
	"math/big"
	"os"
	"sort"
	"strings"

	"github.com/ethereum/go-ethereum/common"
	"github.com/ethereum/go-ethereum/core/state"
	"github.com/ethereum/go-ethereum/core/types"
	"github.com/ethereum/go-ethereum/core/vm"
	"github.com/ethereum/go-ethereum/crypto"
	"github.com/ethereum/go-ethereum/ethdb"
	"github.com/ethereum/go-ethereum/params"
	"github.com/ethereum/go-ethereum/rlp"
)

var zero = int64(0)

func cfgAll() *params.ChainConfig {
	return &params.ChainConfig{ChainID: big.NewInt(1), HomesteadBlock: big.NewInt(0), EIP150Block: big.NewInt(0),
		EIP155Block: big.NewInt(0), EIP158Block: big.NewInt(0), ByzantiumBlock: big.NewInt(0), ConstantinopleBlock: big.NewInt(0)}
}

func unhex(s string) []byte {
	if s == "" || s == "-" {
		return nil
	}
	b := make([]byte, len(s)/2)
	fmt.Sscanf(s, "%x", &b)
	return b
}

func kvs(w []string) map[string]string {
	m := map[string]string{}
	for _, x := range w {
		if i := strings.Index(x, "="); i > 0 {
			m[x[:i]] = x[i+1:]
		}
	}
	return m
}

func big10(s string) *big.Int {
	v, _ := new(big.Int).SetString(s, 10)
	if v == nil {
		v = new(big.Int)
	}
	return v
}

var last *state.StateDB
var touched []common.Address

func blockHash(n uint64) common.Hash {
	return crypto.Keccak256Hash([]byte(fmt.Sprintf("verif-block-%d", n)))
}

func run(kv map[string]string) string {
	sdb, _ := state.New(common.Hash{}, state.NewDatabase(ethdb.NewMemDatabase()))
	touched = nil
	if kv["acct"] != "" {
		for _, a := range strings.Split(kv["acct"], ",") {
			f := strings.Split(a, ":")
			ad := common.HexToAddress(f[0])
			touched = append(touched, ad)
			sdb.CreateAccount(ad)
			sdb.SetNonce(ad, big10(f[1]).Uint64())
			sdb.SetBalance(ad, big10(f[2]))
			if len(f) > 3 && f[3] != "" {
				sdb.SetCode(ad, unhex(f[3]))
			}
			if len(f) > 4 && f[4] != "" {
				for _, e := range strings.Split(f[4], ";") {
					p := strings.Split(e, "=")
					sdb.SetState(ad, common.BytesToHash(unhex(p[0])), common.BytesToHash(unhex(p[1])))
				}
			}
		}
	}
	root0, _ := sdb.Commit(false)
	sdb, _ = state.New(root0, sdb.Database())
	from := common.HexToAddress(kv["from"])
	n := big10(kv["block"])
	ctx := vm.Context{
		CanTransfer: func(db vm.StateDB, a common.Address, v *big.Int) bool { return db.GetBalance(a).Cmp(v) >= 0 },
		Transfer:    func(db vm.StateDB, s, r common.Address, v *big.Int) { db.SubBalance(s, v); db.AddBalance(r, v) },
		GetHash:     blockHash,
		Origin:      from, Coinbase: common.HexToAddress("0xc01bba5e"), BlockNumber: n, Time: big.NewInt(1600000000),
		Difficulty: big.NewInt(131072), GasLimit: 80000000, GasPrice: big.NewInt(1),
	}
	evm := vm.NewEVM(ctx, sdb, cfgAll(), vm.Config{})
	sdb.Prepare(common.Hash{1}, common.Hash{2}, 0)
	gas := uint64(1) << 62
	value := big10(kv["value"])
	var ret []byte
	var err error
	created := "-"
	if kv["msg"] == "create" {
		var ca common.Address
		ret, ca, _, err = evm.Create(vm.AccountRef(from), unhex(kv["input"]), gas, value)
		created = fmt.Sprintf("%x", ca)
	} else {
		sdb.SetNonce(from, sdb.GetNonce(from)+1)
		ret, _, err = evm.Call(vm.AccountRef(from), common.HexToAddress(kv["to"]), unhex(kv["input"]), gas, value)
	}
	class := "ok"
	if err != nil {
		class = "fail"
		if err.Error() == "evm: execution reverted" {
			class = "revert"
		}
	}
	logs := sdb.GetLogs(common.Hash{1})
	sdb.Finalise(true)
	root := sdb.IntermediateRoot(true)
	last = sdb
	out := fmt.Sprintf("%s ret=%x created=%s root=%x logs=%d:%s", class, ret, created, root, len(logs), logsHash(logs))
	if err != nil {
		out += " err=" + strings.Replace(err.Error(), " ", "_", -1)
	}
	return out
}

type rlpLog struct {
	Address common.Address
	Topics  []common.Hash
	Data    []byte
}

func logsHash(logs []*types.Log) string {
	var ls []rlpLog
	for _, l := range logs {
		ls = append(ls, rlpLog{l.Address, l.Topics, l.Data})
	}
	b, _ := rlp.EncodeToBytes(ls)
	return fmt.Sprintf("%x", crypto.Keccak256(b)[:8])
}

func dump() string {
	if last == nil {
		return "-"
	}
	last.Commit(true)
	d := last.RawDump()
	var keys []string
	for k := range d.Accounts {
		keys = append(keys, k)
	}
	sort.Strings(keys)
	var out []string
	for _, k := range keys {
		a := d.Accounts[k]
		var sk []string
		for s := range a.Storage {
			sk = append(sk, s)
		}
		sort.Strings(sk)
		var st []string
		for _, s := range sk {
			st = append(st, s[len(s)-8:]+"="+a.Storage[s])
		}
		code := a.Code
		if len(code) > 16 {
			code = code[:16] + ".."
		}
		out = append(out, fmt.Sprintf("%s{n=%d b=%s c=%s s=[%s]}", k[len(k)-8:], a.Nonce, a.Balance, code, strings.Join(st, ",")))
	}
	return strings.Join(out, " ")
}

func guard(f func() string) (res string) {
	defer func() {
		if e := recover(); e != nil {
			res = fmt.Sprintf("panic %v", e)
		}
	}()
	return f()
}

func main() {
	in := bufio.NewReaderSize(os.Stdin, 1<<22)
	out := bufio.NewWriter(os.Stdout)
	for {
		line, err := in.ReadString('\n')
		if line == "" && err != nil {
			break
		}
		w := strings.Fields(line)
		res := "bad-op"
		if len(w) > 0 {
			kv := kvs(w)
			switch w[0] {
			case "run":
				res = guard(func() string { return run(kv) })
			case "dump":
				res = guard(dump)
			case "pgas", "prun":
				res = guard(func() string {
					p := vm.PrecompiledContractsByzantium[common.BigToAddress(big10(kv["addr"]))]
					if p == nil {
						return "none"
					}
					if w[0] == "pgas" {
						return fmt.Sprint(p.RequiredGas(unhex(kv["input"])))
					}
					o, err := p.Run(unhex(kv["input"]))
					if err != nil {
						return "fail"
					}
					return fmt.Sprintf("ok %x", o)
				})
			}
		}
		out.WriteString(res + "\n")
		out.Flush()
		if err != nil {
			break
		}
	}
}
