#!/bin/sh
# Offline setup: build the Lean library, all property modules and drivers, and warm the Go build cache.
set -e
cd "$(dirname "$0")"
export GOFLAGS=-mod=mod GOPROXY=off GOSUMDB=off GOTOOLCHAIN=local
mkdir -p build evidence replays
cp /repo/go.sum go/go.sum
(cd lean && lake build)
(cd go && go build -tags verif -o ../build/ ./cmd/... )
(cd goref && go build -o ../build/ ./cmd/... )
echo setup done
