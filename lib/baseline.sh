#!/bin/sh
# run the pinned test suite of /repo (guard `verif` off) and compare with the pinned stable-pass list
# usage: lib/baseline.sh [out.json]
out=${1:-/tmp/baseline.gotest.json}
export GOFLAGS=-mod=mod GOPROXY=off GOSUMDB=off GOTOOLCHAIN=local
(cd /repo && go test -mod=mod -json -vet=off -count=1 -timeout 25m ./... > "$out" 2>/dev/null)
python3 - "$out" <<'PY'
import json,sys
want=set(json.load(open('/root/.vp/BASELINE.json'))['stable_pass'])
res={}
for l in open(sys.argv[1]):
    try: e=json.loads(l)
    except Exception: continue
    if e.get('Test') and e.get('Action') in ('pass','fail','skip'):
        res[e['Package']+'::'+e['Test']]=e['Action']
bad=sorted(t for t in want if res.get(t)!='pass')
print("pinned", len(want), "passing", len(want)-len(bad))
for t in bad: print("NOT PASSING:", t, res.get(t))
PY
