#!/bin/sh
# usage: lib/tryseed.sh <patch.diff> <check id>...   — apply a seeded change to /repo, run checks, undo
P="$1"; shift
git -C /repo apply "$P" || { echo "patch does not apply"; exit 2; }
for id in "$@"; do ./check "$id" 2>&1 | grep -E "^VIOLATION|^\[|KNOWN" | cut -c1-220; done
git -C /repo checkout -- . ; git -C /repo status --short | head -3
