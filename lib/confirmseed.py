#!/usr/bin/env python3
"""Confirm a seeded change in a scratch worktree: demo passes without the patch, patch applies and
builds, demo fails with it, and the repository's existing tests still pass with it.
usage: confirmseed.py <outdir (with patch.diff, demo_test.go, meta.json)> <dest seeded dir> [--full]"""
import sys, os, json, re, subprocess, shutil, tempfile
src, dest = sys.argv[1], sys.argv[2]
full = "--full" in sys.argv
meta = json.load(open(os.path.join(src, "meta.json")))
m = re.search(r"to\s+(\S+\.go)", meta["demo_placement"]) or re.search(r"(\S+\.go)", meta["demo_placement"])
place = m.group(1)
run = re.search(r"-run\s+'?([^'\s]+)'?\s+(\S+)", meta["demo_cmd"])
pat, pkg = run.group(1), run.group(2)
env = dict(os.environ, GOFLAGS="-mod=mod", GOPROXY="off", GOSUMDB="off", GOTOOLCHAIN="local")
wt = tempfile.mkdtemp(prefix="seedconfirm-", dir="/tmp")
os.rmdir(wt)
def sh(cmd, cwd=None, timeout=2400):
    p = subprocess.run(cmd, shell=True, cwd=cwd, env=env, stdout=subprocess.PIPE, stderr=subprocess.STDOUT, timeout=timeout)
    return p.returncode, p.stdout.decode("utf-8", "replace")
res = {"property": meta["property"], "summary": meta["summary"], "needs": meta["needs"], "demo_placement": place,
       "demo_cmd": f"go test -vet=off -count=1 -run '{pat}' {pkg}"}
try:
    rc, o = sh(f"git -C /repo worktree add -q --detach {wt} HEAD")
    assert rc == 0, o
    shutil.copy(os.path.join(src, "demo_test.go"), os.path.join(wt, place))
    rc, o = sh(res["demo_cmd"], cwd=wt)
    res["demo_without_patch"] = "pass" if rc == 0 else "FAIL"
    res["demo_without_patch_tail"] = o[-600:]
    rc, o = sh(f"git apply {os.path.abspath(os.path.join(src, 'patch.diff'))}", cwd=wt)
    res["patch_applies"] = rc == 0
    if rc != 0:
        res["apply_output"] = o[-800:]
    else:
        rc, o = sh("go build ./...", cwd=wt)
        res["builds"] = rc == 0
        rc, o = sh(res["demo_cmd"], cwd=wt)
        res["demo_with_patch"] = "fail" if rc != 0 else "PASS(!)"
        res["demo_with_patch_tail"] = o[-1200:]
        os.remove(os.path.join(wt, place))
        cmd = "go test -vet=off -count=1 ./..." if full else "go test -vet=off -count=1 ./gemmill/... ./chain/..."
        rc, o = sh(cmd + " 2>&1 | grep -v 'no test files' | grep -E '^(FAIL|---|ok|panic)' ", cwd=wt)
        fails = [l for l in o.split("\n") if l.startswith("FAIL\t") or l.startswith("FAIL ") or l.startswith("panic")]
        # known baseline failures / timing flakes, not in the pinned list
        ignore = ("eth/crypto/ecies", "go-flowrate")
        res["existing_tests_cmd"] = cmd
        res["existing_tests_failures"] = [f for f in fails if not any(i in f for i in ignore)]
finally:
    sh(f"git -C /repo worktree remove --force {wt}")
ok = (res.get("demo_without_patch") == "pass" and res.get("patch_applies") and res.get("builds")
      and res.get("demo_with_patch") == "fail" and not res.get("existing_tests_failures"))
res["confirmed"] = bool(ok)
print(json.dumps({k: v for k, v in res.items() if not k.endswith("_tail")}, indent=1))
if ok:
    os.makedirs(dest, exist_ok=True)
    shutil.copy(os.path.join(src, "patch.diff"), os.path.join(dest, "patch.diff"))
    shutil.copy(os.path.join(src, "demo_test.go"), os.path.join(dest, "demo_test.go"))
    res["what_i_ran"] = "lib/confirmseed.py in a scratch worktree of /repo HEAD: demo alone (pass), git apply patch, go build ./..., demo (fail), existing tests of gemmill/... and chain/... (pass; ecies and the flowrate timing tests ignored as in the baseline)"
    json.dump(res, open(os.path.join(dest, "meta.json"), "w"), indent=1)
sys.exit(0 if ok else 1)
