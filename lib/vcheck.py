#!/usr/bin/env python3
"""
Generic check runner for the AnnChain Lean-4 verification machinery.

    ./check <Cxx> [--tier quick|thorough] [--seed N] [--replay file]

For one property (spec in checks/<id>.json) a run does, in this order:

 1. translator: regenerate lean/AnnVerif/Gen/*.lean from /repo's working tree (cmd/extract), when
    the property uses extracted facts;
 2. proofs: `lake build <props module> <drivers>`  (every theorem in Props/<id>.lean is an
    obligation), then the axiom audit (`#print axioms` of every property theorem, must be within
    {propext, Classical.choice, Quot.sound}) and a source grep for sorry/admit/axiom/native_decide;
    thorough tier also re-checks the .olean files with leanchecker;
 3. correspondence: build the Go harness of each engine with `-tags verif` against /repo's working
    tree, let it drive the real code (ops file + implementation answers + Go-side oracle verdicts),
    run the compiled Lean driver on the same ops and diff line by line;
 4. decision:
      * the Go-side oracle (the property evaluated directly on the implementation) found a failing
        input  -> VIOLATION with that input as the replay (KNOWN-FINDING if known_findings.json
        lists that class);
      * the model in its `repaired` configuration differs from the implementation -> try the
        as-found variants; if one matches, the counter-theorem of that variant proves the property
        false for the code as it is now; its witness is re-run on the implementation -> VIOLATION
        with the witness as replay;
      * otherwise a broken proof / fact / correspondence with no failing input found -> VIOLATION
        ... no-failing-input-found (replay names what no longer checks; mismatch is shrunk).
 5. evidence/<id>.json is rewritten.
"""
import sys, os, json, subprocess, time, hashlib, re, shutil, argparse, concurrent.futures

VERIF = os.path.dirname(os.path.dirname(os.path.abspath(__file__)))
LEAN = os.path.join(VERIF, "lean")
GO = os.path.join(VERIF, "go")
BUILD = os.path.join(VERIF, "build")
REPLAYS = os.path.join(VERIF, "replays")
EVID = os.path.join(VERIF, "evidence")
REPO = "/repo"
ALLOWED_AXIOMS = {"propext", "Classical.choice", "Quot.sound"}
GOENV = dict(os.environ, GOFLAGS="-mod=mod", GOPROXY="off", GOSUMDB="off", GOTOOLCHAIN="local",
             GOMAXPROCS=os.environ.get("GOMAXPROCS", "16"))

def log(*a):
    print(*a, flush=True)

def sh(cmd, cwd=None, env=None, timeout=3600, stdin=None):
    t0 = time.time()
    try:
        p = subprocess.run(cmd, cwd=cwd, env=env, shell=isinstance(cmd, str), stdin=stdin,
                           stdout=subprocess.PIPE, stderr=subprocess.STDOUT, timeout=timeout)
        return p.returncode, p.stdout.decode("utf-8", "replace"), time.time() - t0
    except subprocess.TimeoutExpired as e:
        return 124, (e.stdout or b"").decode("utf-8", "replace") + "\n[timeout]", time.time() - t0

# ------------------------------------------------------------------------------------------ spec

def load_spec(pid):
    with open(os.path.join(VERIF, "checks", pid + ".json")) as f:
        return json.load(f)

def load_known():
    p = os.path.join(VERIF, "known_findings.json")
    if not os.path.exists(p):
        return {"findings": [], "fixed": []}
    with open(p) as f:
        return json.load(f)

def known_match(known, pid, cls):
    for k in known.get("findings", []):
        if k.get("property") == pid and k.get("class") == cls:
            return k
    return None

# ------------------------------------------------------------------------------------------ lean

def theorem_names(props_file):
    """property theorems = every `theorem` in Props/<id>.lean (with its namespace)."""
    src = open(props_file).read()
    # strip comments
    src_nc = re.sub(r"/-.*?-/", "", src, flags=re.S)
    src_nc = re.sub(r"--.*", "", src_nc)
    ns = re.search(r"^namespace\s+(\S+)", src_nc, flags=re.M)
    ns = ns.group(1) + "." if ns else ""
    names = re.findall(r"^\s*(?:protected\s+|private\s+)?theorem\s+(\S+)", src_nc, flags=re.M)
    examples = len(re.findall(r"^\s*example\b", src_nc, flags=re.M))
    return [ns + n for n in names], examples

def lean_sources_for(module):
    """transitive AnnVerif.* imports of a module (files)."""
    seen, todo, files = set(), [module], []
    while todo:
        m = todo.pop()
        if m in seen:
            continue
        seen.add(m)
        f = os.path.join(LEAN, m.replace(".", "/") + ".lean")
        if not os.path.exists(f):
            continue
        files.append(f)
        for imp in re.findall(r"^import\s+(\S+)", open(f).read(), flags=re.M):
            if imp.startswith("AnnVerif"):
                todo.append(imp)
    return files

FORBIDDEN = re.compile(r"\b(sorry|admit|native_decide|bv_decide|implemented_by|unsafe)\b|^\s*axiom\s|maxHeartbeats\s+0")

def grep_forbidden(files):
    hits = []
    for f in files:
        src = open(f).read()
        src = re.sub(r"/-.*?-/", lambda m: "\n" * m.group(0).count("\n"), src, flags=re.S)
        for i, line in enumerate(src.split("\n"), 1):
            line = re.sub(r"--.*", "", line)
            if FORBIDDEN.search(line):
                hits.append(f"{os.path.relpath(f, LEAN)}:{i}: {line.strip()}")
    return hits

def lake_build(targets, timeout=3000):
    return sh(["lake", "build"] + targets, cwd=LEAN, timeout=timeout)

def audit(pid, module, theorems, work):
    """#print axioms for every property theorem."""
    path = os.path.join(work, f"Audit_{pid}.lean")
    with open(path, "w") as f:
        for m_ in (module if isinstance(module, list) else [module]):
            f.write(f"import {m_}\n")
        for t in theorems:
            f.write(f"#print axioms {t}\n")
    rc, out, dt = sh(["lake", "env", "lean", path], cwd=LEAN, timeout=1200)
    res, bad = {}, []
    # output: "'name' depends on axioms: [a, b]" or "'name' does not depend on any axioms"
    for m in re.finditer(r"'([^']+)' (does not depend on any axioms|depends on axioms: \[([^\]]*)\])", out, flags=re.S):
        name = m.group(1)
        axs = [] if m.group(3) is None else [a.strip() for a in m.group(3).replace("\n", " ").split(",") if a.strip()]
        res[name] = axs
        extra = [a for a in axs if a not in ALLOWED_AXIOMS]
        if extra:
            bad.append(f"{name}: {extra}")
    missing = [t for t in theorems if t not in res]
    return rc, res, bad, missing, out

# ------------------------------------------------------------------------------------------ go

def go_build(name, work, tags="verif"):
    out = os.path.join(work, name)
    if os.path.exists(out):
        os.remove(out)
    src_sum = os.path.join(REPO, "go.sum")
    dst_sum = os.path.join(GO, "go.sum")
    try:
        if open(src_sum, "rb").read() != (open(dst_sum, "rb").read() if os.path.exists(dst_sum) else b""):
            shutil.copy(src_sum, dst_sum)
    except Exception:
        pass
    rc, o, dt = sh(["go", "build", "-tags", tags, "-o", out, "./cmd/" + name], cwd=GO, env=GOENV, timeout=1800)
    return rc, o, out

def check_source_tie(tie):
    """the text between `// VERIF-COPY-BEGIN <name>` and `// VERIF-COPY-END` in the hook file must
    occur verbatim (modulo whitespace) inside function <func> of the production file."""
    import re as _re
    norm = lambda t: _re.sub(r"\s+", " ", t).strip()
    try:
        hf = tie["hook_file"]
        hook = open(os.path.join(VERIF, hf[len("verif:"):]) if hf.startswith("verif:") else os.path.join(REPO, hf)).read()
        prod = open(os.path.join(REPO, tie["file"])).read()
    except OSError as e:
        return "cannot read: %s" % e
    m = _re.search(r"// VERIF-COPY-BEGIN %s\n(.*?)// VERIF-COPY-END" % _re.escape(tie["name"]), hook, _re.S)
    if not m:
        return "no VERIF-COPY block named %s in %s" % (tie["name"], tie["hook_file"])
    f = _re.search(r"\nfunc \([^)]*\) %s\(.*?\n}\n" % _re.escape(tie["func"]), prod, _re.S)
    if not f:
        return "function %s not found in %s" % (tie["func"], tie["file"])
    if norm(m.group(1)) not in norm(f.group(0)):
        return ("the statements copied into the verification hook are no longer the statements of %s in %s: "
                "the stepping shim does not execute what the production start-up executes" % (tie["func"], tie["file"]))
    return None

HARNESS_ENV = {}   # extra environment for harness runs (e.g. VERIF_REF: path of a reference co-process)

def build_ref(ref, work):
    """build a reference co-process from its own module (e.g. /verif/goref: go-ethereum v1.8.27)"""
    out = os.path.join(work, os.path.basename(ref["pkg"]))
    if os.path.exists(out):
        os.remove(out)
    rc, o, dt = sh(["go", "build", "-o", out, ref["pkg"]], cwd=os.path.join(VERIF, ref["dir"]), env=GOENV, timeout=1800)
    return rc, o, out

def run_harness(binpath, work, tag, seed, tier, replay=None, timeout=1800, extra_args=None, qmul=None):
    ops = os.path.join(work, f"{tag}.ops")
    impl = os.path.join(work, f"{tag}.impl")
    meta = os.path.join(work, f"{tag}.meta")
    for p in (ops, impl, meta):
        if os.path.exists(p):
            os.remove(p)
    cmd = [binpath, "-seed", str(seed), "-tier", tier, "-ops", ops, "-out", impl, "-meta", meta]
    if replay:
        cmd += ["-replay", replay]
    if extra_args:
        cmd += extra_args
    env = dict(GOENV, GOMEMLIMIT="6GiB", **HARNESS_ENV)
    if qmul and not replay:
        env["VERIF_QMUL"] = str(qmul)
    rc, o, dt = sh(cmd, cwd=work, env=env, timeout=timeout)
    return rc, o, ops, impl, meta

def run_driver(driver, ops_path, cfg_line=None, timeout=1800):
    """run the compiled Lean driver; optionally replace the first (`cfg`) line."""
    exe = os.path.join(LEAN, ".lake", "build", "bin", driver)
    data = open(ops_path, "rb").read()
    if cfg_line is not None:
        nl = data.find(b"\n")
        first = data[:nl] if nl >= 0 else data
        if first.startswith(b"cfg"):
            data = cfg_line.encode() + data[nl:]
        else:
            data = cfg_line.encode() + b"\n" + data
    try:
        p = subprocess.run([exe], input=data, stdout=subprocess.PIPE, stderr=subprocess.PIPE, timeout=timeout)
    except subprocess.TimeoutExpired:
        return 124, []
    return p.returncode, p.stdout.decode("utf-8", "replace").split("\n")

def read_lines(p):
    with open(p, "rb") as f:
        return f.read().decode("utf-8", "replace").split("\n")

def diff_lines(ops, impl, model, limit=50):
    """positions where implementation and model answers differ."""
    out = []
    n = max(len(impl), len(model))
    for i in range(n):
        a = impl[i].rstrip() if i < len(impl) else "<missing>"
        b = model[i].rstrip() if i < len(model) else "<missing>"
        if a != b:
            out.append({"line": i + 1, "op": ops[i] if i < len(ops) else "", "impl": a, "model": b})
            if len(out) >= limit:
                break
    return out

def cfg_line_for(flags, asfound=()):
    parts = ["cfg"]
    for fl in flags:
        parts.append(f"{fl['name']}={fl['asFound'] if fl['name'] in asfound else fl['repaired']}")
    return " ".join(parts)

# ------------------------------------------------------------------------------------------ shrink

SEQ_START = {"init", "new", "reset", "chain", "open", "fresh"}

def shrink_mismatch(binpath, driver, work, ops_lines, cfg, first_bad, budget=60, xargs=None):
    """delta-debug an op prefix that still shows a mismatch (ops may be stateful)."""
    lines = [l for l in ops_lines[:first_bad] if l.strip() and not l.startswith("cfg")]
    # harnesses run many independent sequences in one ops file, each opened by an op that rebuilds
    # the object under test: try the last sequence alone first
    starts = [i for i, l in enumerate(lines) if l.split(" ")[0] in SEQ_START]
    def bad(cand):
        p = os.path.join(work, "shrink.ops")
        with open(p, "w") as f:
            f.write(cfg + "\n" + "\n".join(cand) + "\n")
        rc, o, ops, impl, meta = run_harness(binpath, work, "shrink", 0, "quick", replay=p, timeout=120, extra_args=xargs)
        if rc != 0:
            return True  # crashes the harness: keep
        rc2, model = run_driver(driver, ops)
        return bool(diff_lines(read_lines(ops), read_lines(impl), model, limit=1))
    if starts and starts[-1] > 0 and bad(lines[starts[-1]:]):
        lines = lines[starts[-1]:]
    elif not bad(lines):
        return (lines[starts[-1]:] if starts else lines), False
    n, steps = 2, 0
    while len(lines) >= 2 and steps < budget:
        chunk = max(1, len(lines) // n)
        reduced = False
        keep = 1 if lines[0].split(" ")[0] in SEQ_START else 0   # never drop the op that builds the object
        for i in range(keep, len(lines), chunk):
            cand = lines[:i] + lines[i + chunk:]
            steps += 1
            if cand and bad(cand):
                lines, n, reduced = cand, max(n - 1, 2), True
                break
            if steps >= budget:
                break
        if not reduced:
            if chunk == 1:
                break
            n = min(len(lines), n * 2)
    return lines, True

# ------------------------------------------------------------------------------------------ main

class Report:
    def __init__(self, pid):
        self.pid = pid
        self.violations = []     # (replay_path, suffix)
        self.known = []
        self.flags_reported = set()
    def replay_path(self, obj):
        os.makedirs(REPLAYS, exist_ok=True)
        s = json.dumps(obj, sort_keys=True, indent=1)
        h = hashlib.sha1(s.encode()).hexdigest()[:10]
        p = os.path.join(REPLAYS, f"{self.pid}-{h}.json")
        with open(p, "w") as f:
            f.write(s)
        return p
    def violation(self, obj, no_input=False):
        obj = dict(obj, property=self.pid)
        p = self.replay_path(obj)
        self.violations.append((p, " no-failing-input-found" if no_input else ""))
    def known_finding(self, text):
        if text not in self.known:
            self.known.append(text)

def run_engine(spec, eng, tier, seed, work, rep, known, cov):
    """one engine = one Go harness + one Lean driver. Returns nothing; fills rep/cov."""
    name = eng["harness"]
    flags = eng.get("flags", [])
    rc, o, binpath = go_build(eng.get("cmd", name), work)
    xargs = eng.get("args")
    if rc != 0:
        cov["harness_build_failed"].append(name)
        rep.violation({"kind": "harness-does-not-build", "engine": name,
                       "what": "the correspondence harness no longer builds against /repo's working tree; "
                               "the tie between model and code is not established",
                       "output": o[-4000:]}, no_input=True)
        return
    for extra in eng.get("also_build", []):   # helper binaries next to the harness (e.g. the node a crash engine kills)
        rce, oe, _ = go_build(extra, work)
        if rce != 0:
            cov["harness_build_failed"].append(name + ":" + extra)
            rep.violation({"kind": "harness-does-not-build", "engine": name,
                           "what": "helper binary %s no longer builds against /repo's working tree" % extra,
                           "output": oe[-4000:]}, no_input=True)
            return
    HARNESS_ENV.pop("VERIF_REF", None)
    if eng.get("ref"):
        rcr, orr, refpath = build_ref(eng["ref"], work)
        if rcr != 0:
            cov["harness_build_failed"].append(name + ":ref")
            rep.violation({"kind": "harness-does-not-build", "engine": name,
                           "what": "the reference co-process does not build", "output": orr[-3000:]}, no_input=True)
            return
        HARNESS_ENV["VERIF_REF"] = refpath
    # ---- corpus first: the witness of every as-found variant (a past failure, minimised) is run on the
    # implementation on every run, whatever the random streams reach. Answers equal to the recorded as-found
    # answers = the defect is (back) in the code.
    corpus = {}
    for fl in flags:
        wit, want = fl.get("witness", []), fl.get("witness_impl_asFound", [])
        if not wit or not want:
            continue
        wp = os.path.join(work, f"{name}.corpus.{fl['name']}.in")
        with open(wp, "w") as f:
            f.write(cfg_line_for(flags, (fl["name"],)) + "\n" + "\n".join(wit) + "\n")
        rcw, ow, wops, wimpl, wmeta = run_harness(binpath, work, f"{name}.corpus.{fl['name']}", 0, "quick", replay=wp,
                                                  timeout=300, extra_args=xargs)
        got = [l.rstrip() for l in read_lines(wimpl)[1:len(wit) + 1]] if rcw == 0 else None
        corpus[fl["name"]] = "harness-failed" if got is None else ("asFound" if got == want else "repaired")
        if got == want:
            k = known_match(known, spec["id"], fl["class"])
            if k:
                rep.known_finding(f"KNOWN-FINDING: property={spec['id']} {k['what']}")
                cov["known_findings_seen"].append(fl["class"])
            else:
                rep.flags_reported.add((name, fl["name"]))
                rep.violation({"kind": "code-matches-as-found-variant", "engine": name, "flag": fl["name"],
                               "class": fl["class"], "what": fl["what"],
                               "counter_theorems": fl.get("theorems", []),
                               "ops": wit, "implementation_answers": got,
                               "witness_confirmed_on_implementation": True, "found_by": "witness corpus",
                               "replay_cmd": f"./check {spec['id']} --replay <this file>"})
    if corpus:
        cov["extra"].setdefault(name, {})["witness_corpus"] = corpus
    shards = eng.get("shards", {}).get(tier, 1)
    to = eng.get("timeout", {}).get(tier, 1500)
    def one(sh_i):
        tag = f"{name}.{sh_i}"
        s = seed * 1000 + sh_i
        rc, o, ops, impl, meta = run_harness(binpath, work, tag, s, tier, timeout=to, extra_args=xargs, qmul=eng.get("quick_mul"))
        return sh_i, rc, o, ops, impl, meta
    with concurrent.futures.ThreadPoolExecutor(max_workers=min(16, shards)) as ex:
        results = list(ex.map(one, range(shards)))
    for sh_i, rc, o, ops_p, impl_p, meta_p in results:
        if rc != 0 or not os.path.exists(meta_p):
            rep.violation({"kind": "harness-crashed", "engine": name, "shard": sh_i, "rc": rc,
                           "what": "the harness driving the real code died (uncaught panic, deadlock/timeout or OOM); "
                                   "last output attached; ops file kept", "ops_file": ops_p,
                           "output": o[-4000:]}, no_input=True)
            cov["harness_crashed"] += 1
            continue
        meta = json.load(open(meta_p))
        ops = read_lines(ops_p)
        impl = read_lines(impl_p)
        cov["evaluations"] += meta["ops"]
        cov["distinct_nontrivial"] += meta["distinct_nontrivial"]
        for k, v in meta["dist"].items():
            cov["dist"][k] = cov["dist"].get(k, 0) + v
        if len(cov["samples"]) < 8:
            cov["samples"] += meta["samples"][: 8 - len(cov["samples"])]
        for k, v in (meta.get("extra") or {}).items():
            cov["extra"].setdefault(name, {})[k] = v
        # ---- oracle verdicts on the implementation
        seen_cls = set()
        for f in (meta.get("failures") or []):
            cls = f["class"]
            if cls in seen_cls:
                continue
            seen_cls.add(cls)
            k = known_match(known, spec["id"], cls)
            if k:
                rep.known_finding(f"KNOWN-FINDING: property={spec['id']} {k['what']}")
                cov["known_findings_seen"].append(cls)
            else:
                rep.violation({"kind": "property-fails-on-implementation", "engine": name, "class": cls,
                               "detail": f["detail"], "ops": f["ops"], "implementation_answer": f["got"],
                               "expected": f["want"], "seed": seed, "tier": tier,
                               "replay_cmd": f"./check {spec['id']} --replay <this file>"})
        # ---- model vs implementation
        cfg0 = cfg_line_for(flags)
        rcd, model = run_driver(eng["driver"], ops_p, cfg0)
        d = diff_lines(ops, impl, model) if rcd == 0 else [{"line": 0, "op": "", "impl": "", "model": f"driver exit {rcd}"}]
        cov["traces_validated_against_impl"] += 1
        if not d:
            cov["variant_matched"].setdefault(name, "repaired")
            continue
        # try as-found variants (single flags first, then all subsets)
        import itertools
        matched = None
        names = [fl["name"] for fl in flags]
        for r_ in range(1, len(names) + 1):
            for sub in itertools.combinations(names, r_):
                rc2, model2 = run_driver(eng["driver"], ops_p, cfg_line_for(flags, sub))
                if rc2 == 0 and not diff_lines(ops, impl, model2, limit=1):
                    matched = sub
                    break
            if matched:
                break
        if matched:
            cov["variant_matched"][name] = "asFound:" + ",".join(matched)
            for fl in flags:
                if fl["name"] not in matched or (name, fl["name"]) in rep.flags_reported:
                    continue
                rep.flags_reported.add((name, fl["name"]))
                # replay the proven witness on the implementation
                wit = fl.get("witness", [])
                wp = os.path.join(work, f"{name}.witness.ops")
                with open(wp, "w") as f:
                    f.write(cfg_line_for(flags, matched) + "\n" + "\n".join(wit) + "\n")
                rcw, ow, wops, wimpl, wmeta = run_harness(binpath, work, f"{name}.wit", 0, "quick", replay=wp, timeout=300, extra_args=xargs)
                wimpl_l = read_lines(wimpl) if rcw == 0 else []
                confirmed = rcw == 0 and [l.rstrip() for l in wimpl_l[1:len(wit) + 1]] == fl.get("witness_impl_asFound", [])
                k = known_match(known, spec["id"], fl["class"])
                if k and confirmed:
                    rep.known_finding(f"KNOWN-FINDING: property={spec['id']} {k['what']}")
                    cov["known_findings_seen"].append(fl["class"])
                else:
                    rep.violation({"kind": "code-matches-as-found-variant", "engine": name, "flag": fl["name"],
                                   "class": fl["class"], "what": fl["what"],
                                   "counter_theorems": fl.get("theorems", []),
                                   "ops": wit, "implementation_answers": [l.rstrip() for l in wimpl_l[1:len(wit) + 1]],
                                   "witness_confirmed_on_implementation": confirmed,
                                   "first_divergence_from_repaired_model": d[:3]}, no_input=not confirmed)
        else:
            cov["variant_matched"][name] = "none"
            if any(f for f in (meta.get("failures") or []) if not known_match(known, spec["id"], f["class"])):
                continue  # already reported with a failing input
            first = d[0]["line"]
            small, ok = shrink_mismatch(binpath, eng["driver"], work, ops, cfg0, first, xargs=xargs)
            rep.violation({"kind": "correspondence-broken", "engine": name,
                           "what": "model and implementation answer differently and no property failure was found "
                                   "on the implementation; the theorems of Props/%s.lean are no longer tied to this code" % spec["id"],
                           "theorems_no_longer_tied": spec.get("props_module"),
                           "divergences": d[:10], "shrunk_ops": small[-40:], "shrunk": ok,
                           "seed": seed, "tier": tier}, no_input=True)

def main():
    ap = argparse.ArgumentParser()
    ap.add_argument("pid")
    ap.add_argument("--tier", default=os.environ.get("VERIF_TIER", "quick"))
    ap.add_argument("--seed", type=int, default=int(os.environ.get("VERIF_SEED", "1")))
    ap.add_argument("--replay", default=None)
    a = ap.parse_args()
    pid, tier, seed = a.pid, a.tier, a.seed
    if tier not in ("quick", "thorough"):
        tier = "quick"
    t0 = time.time()
    spec = load_spec(pid)
    known = load_known()
    work = os.path.join(BUILD, pid)
    os.makedirs(work, exist_ok=True)
    os.makedirs(EVID, exist_ok=True)
    rep = Report(pid)

    if a.replay:
        return replay(spec, a.replay, work)

    cov = {"evaluations": 0, "distinct_nontrivial": 0, "dist": {}, "samples": [], "extra": {},
           "traces_validated_against_impl": 0, "variant_matched": {}, "known_findings_seen": [],
           "harness_build_failed": [], "harness_crashed": 0}

    # ---- 1. translator: regenerate lean/AnnVerif/Gen/Facts.lean (constants, decision expressions, if-trees of
    # the production code) from /repo's working tree; the tie theorems over it are obligations of step 2
    ties = spec.get("ties") or {}
    facts = ties.get("sites")
    fact_report = None
    if ties:
        rc, o, binpath = go_build("extract", work)
        if rc == 0:
            rc, o, dt = sh([binpath, "-repo", REPO, "-out", os.path.join(LEAN, "AnnVerif", "Gen"), "-only", ",".join(facts or [])],
                           cwd=work, env=GOENV, timeout=600)
        fact_report = o[-3000:]
        cov["extra"]["translator"] = {"sites": facts, "output": [l for l in o.split("\n") if l.strip()][-6:]}
        if rc != 0:
            rep.violation({"kind": "translator-failed", "what": "cmd/extract could not regenerate the facts "
                           "this property's tie theorems are stated over (construct not recognised or source moved)",
                           "facts": facts, "output": o[-4000:]}, no_input=True)

    # ---- 1b. source ties: guarded copies of production statements used by the stepping shim
    for tie in spec.get("source_ties", []):
        problem = check_source_tie(tie)
        cov["extra"].setdefault("source_ties", []).append({"tie": tie["name"], "ok": problem is None})
        if problem:
            rep.violation({"kind": "source-tie-broken", "tie": tie, "what": problem}, no_input=True)

    for tie in spec.get("source_contains", []):
        try:
            txt = re.sub(r"\s+", " ", open(os.path.join(REPO, tie["file"])).read())
            ok = re.sub(r"\s+", " ", tie["text"]) in txt
        except OSError:
            ok = False
        cov["extra"].setdefault("source_ties", []).append({"tie": tie["file"] + ": " + tie["text"][:60], "ok": ok})
        if not ok:
            rep.violation({"kind": "source-tie-broken", "tie": tie,
                           "what": "%s no longer contains `%s`: %s" % (tie["file"], tie["text"], tie.get("why", ""))}, no_input=True)

    # ---- 1c. site inventories: regenerated from the source on every run and compared with the committed
    # expectation (which statement is which site of the model, or why it is none)
    for inv in spec.get("site_inventory", []):
        found, problems = [], []
        for f in inv["files"]:
            fn = None
            try:
                src = open(os.path.join(REPO, f)).read().split("\n")
            except OSError:
                problems.append("cannot read " + f); continue
            for l in src:
                m = re.match(r"func (?:\([^)]*\) )?(\w+)", l)
                if m:
                    fn = m.group(1)
                if re.search(inv["pattern"], l) and not l.strip().startswith("//"):
                    msg = re.search(r'"([^"]*)"', l)
                    found.append((f, fn, (msg.group(1) if msg else "")[:60]))
        want = [(e["file"], e["func"], e["text"]) for e in inv["expected"]]
        for x in sorted(set(found)):
            if found.count(x) > want.count(x):
                problems.append("new site in %s, func %s: %r" % x)
        for x in sorted(set(want)):
            if want.count(x) > found.count(x):
                problems.append("site gone from %s, func %s: %r" % x)
        try:
            mtxt = open(os.path.join(VERIF, inv["model_file"])).read()
        except OSError:
            mtxt = ""
        for e in inv["expected"]:
            if e.get("model") and (inv["model_pattern"] % e["model"]) not in mtxt:
                problems.append("the model has no site %r (for %s %s)" % (e["model"], e["file"], e["func"]))
            if not e.get("model") and not e.get("why"):
                problems.append("no disposition for %s %s %r" % (e["file"], e["func"], e["text"]))
        cov["extra"].setdefault("source_ties", []).append({"tie": inv["name"], "ok": not problems, "sites": len(found),
                                                           "modelled": sum(1 for e in inv["expected"] if e.get("model"))})
        if problems:
            rep.violation({"kind": "source-tie-broken", "tie": inv["name"], "what": inv["what"], "problems": problems}, no_input=True)

    # ---- 2. proofs
    module = spec["props_module"]
    drivers = sorted({e["driver"] for e in spec.get("engines", [])})
    props_file = os.path.join(LEAN, module.replace(".", "/") + ".lean")
    theorems, n_examples = theorem_names(props_file)
    tie_modules = ties.get("modules", [])
    tie_theorems = []
    for tm in tie_modules:
        tt, _ = theorem_names(os.path.join(LEAN, tm.replace(".", "/") + ".lean"))
        tie_theorems += tt
    rc, out, dt_build = lake_build([module] + tie_modules + drivers)
    proofs_ok = rc == 0
    discharged = 0
    axioms = {}
    audit_problems = []
    if not proofs_ok:
        errs = [l for l in out.split("\n") if "error" in l][:20]
        rep.violation({"kind": "proof-obligation-broken", "what": "`lake build %s` fails: a theorem no longer "
                       "checks against the facts regenerated from the code" % module,
                       "errors": errs, "fact_report": fact_report}, no_input=True)
    else:
        theorems = theorems + tie_theorems
        rc, axioms, bad, missing, aout = audit(pid, [module] + tie_modules, theorems, work)
        files = lean_sources_for(module)
        for tm in tie_modules:
            files += [f for f in lean_sources_for(tm) if f not in files]
        hits = grep_forbidden(files)
        if bad or missing or hits or rc != 0:
            audit_problems = bad + ["missing:" + m for m in missing] + hits
            rep.violation({"kind": "audit-failed", "what": "axiom audit / forbidden-construct grep failed",
                           "problems": audit_problems, "output": aout[-2000:]}, no_input=True)
        else:
            discharged = len(theorems)
        if tier == "thorough" and proofs_ok:
            rc, o, dt = sh(["lake", "env", "leanchecker", module], cwd=LEAN, timeout=3000)
            cov["leanchecker"] = "ok" if rc == 0 else "FAILED: " + o[-500:]
            if rc != 0:
                rep.violation({"kind": "leanchecker-failed", "output": o[-2000:]}, no_input=True)

    # ---- 3/4. correspondence + decision
    if proofs_ok or True:
        for eng in spec.get("engines", []):
            if not proofs_ok and not os.path.exists(os.path.join(LEAN, ".lake", "build", "bin", eng["driver"])):
                continue
            run_engine(spec, eng, tier, seed, work, rep, known, cov)

    # ---- 5. evidence
    wall = time.time() - t0
    level = spec.get("level", "proof")
    coverage = {
        "obligations": len(theorems), "discharged": discharged,
        "checker_cmd": f"cd lean && lake build {module} && lake env lean <generated #print axioms file>" +
                       (" && lake env leanchecker " + module if tier == "thorough" else ""),
        "trusted_base": spec.get("trusted_base", []),
        "theorems": theorems, "axioms_used": sorted({a for v in axioms.values() for a in v}),
        "non_vacuity_examples": n_examples,
        "evaluations": cov["evaluations"], "distinct_nontrivial": cov["distinct_nontrivial"],
        "rule": spec.get("rule", ""), "samples": cov["samples"] or ["(no correspondence samples: proofs only)"],
        "traces_validated_against_impl": cov["traces_validated_against_impl"],
        "input_distribution": dict(sorted(cov["dist"].items(), key=lambda kv: -kv[1])[:60]),
        "variant_matched": cov["variant_matched"], "known_findings_seen": sorted(set(cov["known_findings_seen"])),
        "engines": [e["harness"] for e in spec.get("engines", [])], "engine_extra": cov["extra"],
        "facts_regenerated": facts or [], "tie_modules": tie_modules, "tie_theorems": tie_theorems,
        "lake_build_s": round(dt_build, 1),
        "not_modelled": spec.get("not_modelled", []),
        "explanation": spec.get("explanation", ""),
    }
    if "leanchecker" in cov:
        coverage["leanchecker"] = cov["leanchecker"]
    ev = {"property_id": pid, "tier": tier, "seed": seed, "level": level, "coverage": coverage,
          "assumptions": spec.get("assumptions", []), "wall_s": round(wall, 2),
          "violations": len(rep.violations)}
    with open(os.path.join(EVID, pid + ".json"), "w") as f:
        json.dump(ev, f, indent=1)

    for k in rep.known:
        log(k)
    for p, suffix in rep.violations:
        log(f"VIOLATION property={pid} replay={p}{suffix}")
    log(f"[{pid}] tier={tier} seed={seed} theorems={discharged}/{len(theorems)} ops={cov['evaluations']} "
        f"variant={cov['variant_matched']} violations={len(rep.violations)} wall={wall:.1f}s")
    return 1 if rep.violations else 0

def replay(spec, path, work):
    """re-run a replay file's ops on the implementation and on the model, print both."""
    obj = json.load(open(path))
    ops = obj.get("ops") or obj.get("shrunk_ops") or []
    eng = next((e for e in spec["engines"] if e["harness"] == obj.get("engine")), spec["engines"][0])
    rc, o, binpath = go_build(eng.get("cmd", eng["harness"]), work)
    if rc != 0:
        log(o); return 2
    for extra in eng.get("also_build", []):
        go_build(extra, work)
    HARNESS_ENV.pop("VERIF_REF", None)
    if eng.get("ref"):
        rcr, orr, refpath = build_ref(eng["ref"], work)
        if rcr == 0:
            HARNESS_ENV["VERIF_REF"] = refpath
    lake_build([eng["driver"]])
    p = os.path.join(work, "replay.in")
    cfg = cfg_line_for(eng.get("flags", []))
    with open(p, "w") as f:
        f.write(cfg + "\n" + "\n".join(ops) + "\n")
    rc, o, opsf, impl, meta = run_harness(binpath, work, "replay", 0, "quick", replay=p, extra_args=eng.get("args"))
    rcd, model = run_driver(eng["driver"], opsf)
    il, ol = read_lines(impl), read_lines(opsf)
    bad = False
    for i, op in enumerate(ol):
        if not op.strip():
            continue
        m = model[i] if i < len(model) else "<missing>"
        mark = "" if il[i].rstrip() == m.rstrip() else "   <-- differs"
        bad = bad or bool(mark)
        log(f"{op}\n    impl : {il[i]}\n    model: {m}{mark}")
    exp = obj.get("expected")
    if exp is not None:
        log(f"expected by the property: {exp}; implementation answered: {obj.get('implementation_answer')}")
    return 1 if bad or obj.get("kind") == "property-fails-on-implementation" else 0

if __name__ == "__main__":
    sys.exit(main())
