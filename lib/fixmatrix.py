#!/usr/bin/env python3
"""For every `fix:` commit of /repo: take the fix out of the working tree again (reverse patch), run the
check(s) of the property it was recorded under at the quick tier, put the fix back; record who reports it.
usage: fixmatrix.py [commit ...]   -> appends to seeded/FIXMATRIX.jsonl   (nothing else may run meanwhile)"""
import sys, subprocess, json, re, time
known = json.load(open("/verif/known_findings.json"))
prop = {}
for line in known["fixed"]:
    m = re.match(r"fixed: property=(C\d+) ([0-9a-f]+) ", line)
    if m:
        prop.setdefault(m.group(2)[:7], []).append(m.group(1))
extra = {"c263905": ["C04", "C07", "C12"], "bb379d9": ["C04", "C12"], "48a9640": ["C07", "C04"], "7c013f4": ["C12"],
         "b6f4e8f": ["C09"], "de7128c": ["C09"], "19a7b58": ["C05"], "9972ffa": ["C05"], "6e9d62f": ["C02"]}
log = subprocess.run(["git", "-C", "/repo", "log", "--format=%h %s"], capture_output=True, text=True).stdout.split("\n")
fixes = [l.split(" ", 1) for l in log if " fix:" in l]
want = set(a[:7] for a in sys.argv[1:])
out = open("/verif/seeded/FIXMATRIX.jsonl", "a")
for h, subj in fixes:
    h7 = h[:7]
    if want and h7 not in want:
        continue
    checks = prop.get(h7, []) + [c for c in extra.get(h7, []) if c not in prop.get(h7, [])]
    if not checks:
        print(h7, "no recorded property:", subj); continue
    if subprocess.run(["git", "-C", "/repo", "status", "--porcelain"], capture_output=True, text=True).stdout.strip():
        print("the working tree of /repo is not clean: stop"); break
    # a later fix that touches the same lines has to come out first
    together = {"7362e91": ["b301da1"]}.get(h7, []) + [h]
    r = None
    for hh in together:
        diff = subprocess.run(["git", "-C", "/repo", "show", "--format=", hh], capture_output=True, text=True).stdout
        r = subprocess.run(["git", "-C", "/repo", "apply", "-R", "-"], input=diff, capture_output=True, text=True)
        if r.returncode != 0:
            break
    if r.returncode != 0:
        rec = {"fix": h7, "subject": subj, "reverted": False, "why": r.stderr[:200]}
        print(json.dumps(rec)); out.write(json.dumps(rec) + "\n"); out.flush()
        subprocess.run(["git", "-C", "/repo", "reset", "-q", "--hard", "HEAD"]); continue
    try:
        b = subprocess.run("cd /repo && GOFLAGS=-mod=mod GOPROXY=off GOSUMDB=off GOTOOLCHAIN=local go build ./... 2>&1 | grep -v sqlite | grep -c error",
                           shell=True, capture_output=True, text=True)
        for c in checks:
            t = time.time()
            p = subprocess.run(["/verif/check", c, "--tier", "quick"], capture_output=True, text=True, cwd="/verif")
            v = [l for l in p.stdout.split("\n") if l.startswith("VIOLATION")]
            nf = sum(1 for l in v if l.endswith("no-failing-input-found"))
            rec = {"fix": h7, "subject": subj[:90], "reverted": True, "check": c, "caught": p.returncode != 0 and bool(v),
                   "violations": len(v), "with_failing_input": len(v) - nf, "wall_s": round(time.time() - t, 1)}
            print(json.dumps(rec)); out.write(json.dumps(rec) + "\n"); out.flush()
    finally:
        subprocess.run(["git", "-C", "/repo", "reset", "-q", "--hard", "HEAD"])
        subprocess.run(["git", "-C", "/repo", "clean", "-fdq"])
