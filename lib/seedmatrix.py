#!/usr/bin/env python3
"""Apply each seeded change to /repo, run the given checks (quick tier), undo; record who catches what.
usage: seedmatrix.py <seed>:<check>[,<check>...] ...   -> appends to seeded/MATRIX.jsonl"""
import sys, subprocess, json, os, time
out = open("/verif/seeded/MATRIX.jsonl", "a")
for spec in sys.argv[1:]:
    seed, checks = spec.split(":")
    patch = f"/verif/seeded/{seed}/patch.diff"
    r = subprocess.run(["git", "-C", "/repo", "apply", patch], capture_output=True, text=True)
    if r.returncode != 0:
        print(seed, "PATCH DOES NOT APPLY", r.stderr[:200]); continue
    try:
        for c in checks.split(","):
            t = time.time()
            p = subprocess.run(["/verif/check", c, "--tier", "quick"], capture_output=True, text=True, cwd="/verif")
            v = [l for l in p.stdout.split("\n") if l.startswith("VIOLATION")]
            nf = sum(1 for l in v if l.endswith("no-failing-input-found"))
            rec = {"seed": seed, "check": c, "caught": p.returncode != 0 and bool(v), "violations": len(v),
                   "with_failing_input": len(v) - nf, "wall_s": round(time.time() - t, 1)}
            print(json.dumps(rec)); out.write(json.dumps(rec) + "\n"); out.flush()
    finally:
        subprocess.run(["git", "-C", "/repo", "reset", "-q", "--hard", "HEAD"])
        subprocess.run(["git", "-C", "/repo", "clean", "-fdq"])
