#!/bin/sh
# sweep the unchanged tree: ./lib/sweep.sh <tier> <seed> [<seed> ...]   -> one line per check and seed
tier=$1; shift
for sd in "$@"; do
  for c in C01 C02 C03 C04 C05 C06 C07 C08 C09 C10 C11 C12 C13 C14 C15 C16 C17 C18 C19 C20; do
    /verif/check $c --tier $tier --seed $sd 2>&1 | grep "^\[C\|^VIOL"
  done
done
