#!/usr/bin/env python3
"""Regenerate MANIFEST.json from checks/*.json (+ lib/manifest_static.json) and validate it."""
import json, glob, os, sys
V = os.path.dirname(os.path.dirname(os.path.abspath(__file__)))
static = json.load(open(os.path.join(V, "lib", "manifest_static.json")))
props = [json.loads(l)["id"] for l in open(os.path.join(V, "properties.jsonl"))]
checks, claimed = [], set()
for p in sorted(glob.glob(os.path.join(V, "checks", "C*.json"))):
    s = json.load(open(p))
    if s.get("disabled"):
        continue
    pid = s["id"]
    claimed.add(pid)
    checks.append({
        "property_id": pid,
        "quick_cmd": f"./check {pid} --tier quick",
        "thorough_cmd": f"./check {pid} --tier thorough",
        "evidence_file": f"/verif/evidence/{pid}.json",
        "replay_cmd_template": f"./check {pid} --replay {{path}}",
        "engine": ",".join(e["harness"] for e in s.get("engines", [])) or "lean-proofs",
        "level_claimed": {"category": s.get("level", "proof"), "text": s["level_text"], "design_ref": s.get("design_ref", "DESIGN.md §5 " + pid)},
        "level_note": s["level_note"],
        "technique": s.get("technique", "Lean 4 theorems over a hand-written model + differential correspondence with the Go implementation"),
    })
na = [x for x in static["not_applicable"] if x["property_id"] not in claimed]
for pid in props:
    if pid not in claimed and pid not in {x["property_id"] for x in na}:
        na.append({"property_id": pid, "reason": "not yet covered by a check in this round (model/proofs not built); see DESIGN.md §9"})
m = {"version": 1, "setup_cmd": static["setup_cmd"], "hooks": static["hooks"], "engines": static.get("engines", []),
     "checks": checks, "notes": static["notes"], "not_applicable": na}
json.dump(m, open(os.path.join(V, "MANIFEST.json"), "w"), indent=1)
try:
    import jsonschema
    jsonschema.validate(m, json.load(open("/root/.vp/MANIFEST.schema.json")))
    print("MANIFEST.json valid;", len(checks), "checks;", len(na), "not_applicable")
except ImportError:
    print("jsonschema not importable here; wrote MANIFEST.json (", len(checks), "checks )")
