// Package nodeimpl: executes the node-engine op lines on a real ConsensusState (via nodekit) and
// renders the canonical digest. Shared by the c04 (one node), c01 (network) and c07 (WAL) harnesses.
package nodeimpl

import (
	"encoding/json"
	"fmt"
	"io/ioutil"
	"os"
	"path/filepath"
	"strconv"
	"strings"

	"github.com/dappledger/AnnChain/gemmill/consensus/pbft"
	"github.com/dappledger/AnnChain/gemmill/types"

	"verifharness/nodekit"
	"verifharness/vh"
)

type Blk struct {
	Name  string
	Block *types.Block
	Parts *types.PartSet
	ID    types.BlockID
	Valid bool
}

// Registry of named blocks (shared by all nodes of a network)
type Registry struct {
	Blocks  map[string]*Blk
	ByHash  map[string]string
	ByParts map[string]string
}

func NewRegistry() *Registry {
	return &Registry{map[string]*Blk{}, map[string]string{}, map[string]string{}}
}

type Impl struct {
	*Registry
	OwnPrefix string
	ReplayErr string
	Powers    []int64 // when set, `init` is not needed
	C         *nodekit.Chain
	own       int
	nSched    int
	lastH     int64
	ownParts  map[string][]*types.Part
	curOwn    string
	curHdr    types.PartSetHeader
}

func Kvs(w []string) map[string]string {
	m := map[string]string{}
	for _, x := range w {
		if i := strings.Index(x, "="); i > 0 {
			m[x[:i]] = x[i+1:]
		}
	}
	return m
}
func Atoi(s string) int64 { v, _ := strconv.ParseInt(s, 10, 64); return v }

func (im *Impl) NameOfHash(h []byte) string {
	if len(h) == 0 {
		return "-"
	}
	if n, ok := im.ByHash[string(h)]; ok {
		return n
	}
	return "?"
}
func (im *Impl) NameOfParts(h types.PartSetHeader) string {
	if len(h.Hash) == 0 {
		return "-"
	}
	if n, ok := im.ByParts[string(h.Hash)]; ok {
		return n
	}
	return "?"
}

func (im *Impl) Register(name string, b *types.Block, ps *types.PartSet, valid bool) {
	e := &Blk{name, b, ps, types.BlockID{Hash: b.Hash(), PartsHeader: ps.Header()}, valid}
	im.Blocks[name] = e
	im.ByHash[string(b.Hash())] = name
	im.ByParts[string(ps.Header().Hash)] = name
}

func (im *Impl) Bid(name string) types.BlockID {
	if name == "-" {
		return types.BlockID{}
	}
	return im.Blocks[name].ID
}

func stepName(s pbft.RoundStepType) string {
	return strings.TrimPrefix(s.String(), "RoundStep")
}

var stepByName = map[string]pbft.RoundStepType{
	"NewHeight": pbft.RoundStepNewHeight, "NewRound": pbft.RoundStepNewRound, "Propose": pbft.RoundStepPropose,
	"Prevote": pbft.RoundStepPrevote, "PrevoteWait": pbft.RoundStepPrevoteWait, "Precommit": pbft.RoundStepPrecommit,
	"PrecommitWait": pbft.RoundStepPrecommitWait, "Commit": pbft.RoundStepCommit,
}

// tearWAL truncates the WAL file in the middle of the last input record (msgInfo / timeoutInfo)
// of the current height. Returns false when there is no such record after the last height marker.
func (im *Impl) tearWAL() bool { return im.tear(true) }

// CanTear: there is an input record of the current height to tear.
func (im *Impl) CanTear() bool { return im.tear(false) }

func (im *Impl) tear(doIt bool) bool {
	if doIt {
		im.C.CS.VerifStopWAL()
	}
	path := filepath.Join(im.C.Dir, "wal", "wal")
	data, err := ioutil.ReadFile(path)
	if err != nil {
		return false
	}
	lines := strings.SplitAfter(string(data), "\n")
	off, last, lastOff := 0, -1, 0
	marker := -1
	for i, l := range lines {
		if strings.HasPrefix(l, "#HEIGHT:") {
			marker = i
		}
		// an intact input record (a fragment left by an earlier tear is not one)
		if (strings.Contains(l, "\"msg\":[2,") || strings.Contains(l, "\"msg\":[3,")) && json.Valid([]byte(strings.TrimSpace(l))) {
			last, lastOff = i, off
		}
		off += len(l)
	}
	if last < 0 || last < marker {
		return false
	}
	if !doIt {
		return true
	}
	cut := lastOff + len(lines[last])/2
	return ioutil.WriteFile(path, data[:cut], 0600) == nil
}

// Own: how many self-created blocks have been named.
func (im *Impl) Own() int { return im.own }

// ResetAfterRestart: the chain object was rebuilt (new ticker, new ConsensusState)
func (im *Impl) ResetAfterRestart() {
	im.nSched = 0 // lastH stays: a replay that commits the height shows up as COMMIT in the digest
}

func (im *Impl) Digest() string {
	rs := im.C.CS.GetRoundState()
	lb, prop, pb, pp := "-", "-", "-", "-"
	if rs.LockedBlock != nil {
		lb = im.NameOfHash(rs.LockedBlock.Hash())
	}
	if rs.Proposal != nil {
		prop = im.NameOfParts(rs.Proposal.BlockPartsHeader)
	}
	if rs.ProposalBlock != nil {
		pb = im.NameOfHash(rs.ProposalBlock.Hash())
	}
	if rs.ProposalBlockParts != nil {
		pp = im.NameOfParts(rs.ProposalBlockParts.Header())
	}
	var em []string
	sched := im.C.Ticker.Scheduled[im.nSched:]
	im.nSched = len(im.C.Ticker.Scheduled)
	committed := ""
	if rs.Height > im.lastH {
		meta := im.C.Store.LoadBlockMeta(im.lastH)
		committed = fmt.Sprintf("COMMIT(%d,%s)", im.lastH, im.NameOfHash(meta.Hash))
		im.lastH = rs.Height
	}
	for _, t := range sched {
		if committed != "" && t.Step == pbft.RoundStepNewHeight && t.Height == rs.Height {
			em = append(em, committed)
			committed = ""
		}
		em = append(em, fmt.Sprintf("T(%d,%d,%s)", t.Height, t.Round, stepName(t.Step)))
	}
	if committed != "" {
		em = append(em, committed)
	}
	return fmt.Sprintf("h=%d r=%d s=%s lr=%d lb=%s prop=%s pb=%s pp=%s cr=%d q=%d | %s",
		rs.Height, rs.Round, stepName(rs.Step), rs.LockedRound, lb, prop, pb, pp, rs.CommitRound,
		im.C.CS.VerifInternalQueueLen(), strings.Join(em, " "))
}

// Votes summarises the HeightVoteSet of the current height: for every round that holds a vote,
// who voted for what (by validator index) and the +2/3 majority.
func (im *Impl) Votes() string {
	rs := im.C.CS.GetRoundState()
	var out []string
	one := func(vs *types.VoteSet) string {
		if vs == nil {
			return ""
		}
		var xs []string
		any := false
		for i := 0; i < vs.Size(); i++ {
			v := vs.GetByIndex(i)
			if v == nil {
				xs = append(xs, "_")
			} else {
				any = true
				xs = append(xs, im.NameOfHash(v.BlockID.Hash))
			}
		}
		if !any {
			return ""
		}
		m := "none"
		if bid, ok := vs.TwoThirdsMajority(); ok {
			m = im.NameOfHash(bid.Hash)
		}
		return strings.Join(xs, ",") + "/" + m
	}
	for r := int64(0); r <= rs.Round+12; r++ {
		pv, pc := one(rs.Votes.Prevotes(r)), one(rs.Votes.Precommits(r))
		if pv != "" || pc != "" {
			out = append(out, fmt.Sprintf("r%d:pv=%s;pc=%s", r, pv, pc))
		}
	}
	return fmt.Sprintf("h=%d votes %s", rs.Height, strings.Join(out, " "))
}

func (im *Impl) Exec(line string) string {
	res := vh.Guard(func() string {
		w := strings.Fields(line)
		kv := Kvs(w)
		switch w[0] {
		case "cfg":
			return "ok"
		case "init":
			if im.C != nil {
				im.C.Close()
			}
			var powers []int64
			for _, p := range strings.Split(kv["powers"], ",") {
				powers = append(powers, Atoi(p))
			}
			im.C = nodekit.NewChain(powers, int(Atoi(kv["me"])), kv["skip"] == "1")
			if im.Registry == nil {
				im.Registry = NewRegistry()
			}
			if im.OwnPrefix == "" {
				im.OwnPrefix = "o"
			}
			im.own, im.nSched, im.lastH = 0, 0, 1
			im.ownParts = map[string][]*types.Part{}
			return im.Digest()
		case "mkblock":
			b, ps := im.C.MakeBlock(w[1], int(Atoi(kv["proposer"])), kv["valid"] != "0")
			im.Register(w[1], b, ps, kv["valid"] != "0")
			return "ok"
		case "proposal":
			e := im.Blocks[w[1]]
			p := im.C.SignProposal(Atoi(kv["h"]), Atoi(kv["r"]), e.Parts.Header(), Atoi(kv["pol"]), im.Bid(kv["polblock"]), int(Atoi(kv["signer"])), kv["bad"] == "1")
			if kv["presave"] == "1" {
				im.C.CS.VerifSaveOnly(&pbft.ProposalMessage{Proposal: p}, "peer")
				return "ok"
			}
			im.C.CS.VerifHandleMsg(&pbft.ProposalMessage{Proposal: p}, "peer")
			return im.Digest()
		case "parts":
			e := im.Blocks[w[1]]
			for i := 0; i < e.Parts.Total(); i++ {
				m := &pbft.BlockPartMessage{Height: Atoi(kv["h"]), Round: Atoi(kv["r"]), Part: e.Parts.GetPart(i)}
				if kv["presave"] == "1" {
					im.C.CS.VerifSaveOnly(m, "peer")
				} else {
					im.C.CS.VerifHandleMsg(m, "peer")
				}
			}
			if kv["presave"] == "1" {
				return "ok"
			}
			return im.Digest()
		case "vote":
			idx := int(Atoi(kv["idx"]))
			signer := idx
			if s, ok := kv["signer"]; ok {
				signer = int(Atoi(s))
			}
			if signer < 0 {
				signer = 0
			}
			v := im.C.SignVote(idx, Unhex(kv["addr"]), Atoi(kv["h"]), Atoi(kv["r"]), byte(Atoi(kv["t"])), im.Bid(kv["block"]), signer, kv["tamper"] == "1")
			if kv["presave"] == "1" {
				im.C.CS.VerifSaveOnly(&pbft.VoteMessage{Vote: v}, kv["peer"])
				return "ok"
			}
			im.C.CS.VerifHandleMsg(&pbft.VoteMessage{Vote: v}, kv["peer"])
			return im.Digest()
		case "maj23":
			// a VoteSetMaj23 message as the reactor's Receive handles it: for the node's height only,
			// straight to the height vote set (not through the consensus queue, not logged)
			rs := im.C.CS.GetRoundState()
			if Atoi(kv["h"]) == rs.Height {
				rs.Votes.SetPeerMaj23(Atoi(kv["r"]), byte(Atoi(kv["t"])), kv["peer"], im.Bid(kv["block"]))
			}
			return im.Digest()
		case "timeout":
			im.C.CS.VerifHandleTimeout(Atoi(w[1]), Atoi(w[2]), stepByName[w[3]])
			return im.Digest()
		case "restart":
			if kv["torn"] == "1" {
				if !im.tearWAL() {
					return "not-torn"
				}
			}
			// blocks the node created but had not yet taken from its internal queue die with the process;
			// they were never seen here, but they count: block names follow the order of creation
			for {
				m, ok := im.C.CS.VerifNextInternal()
				if !ok {
					break
				}
				if pm, isP := m.(*pbft.ProposalMessage); isP && im.NameOfParts(pm.Proposal.BlockPartsHeader) == "?" {
					im.own++
				}
			}
			im.C.Restart()
			if err := im.C.CS.VerifStartPreamble(); err != nil { // what OnStart does first
				im.ReplayErr = err.Error()
			}
			if err := im.C.CS.VerifCatchupReplay(); err != nil {
				im.ReplayErr = err.Error()
				if os.Getenv("VERIF_DEBUG") != "" {
					fmt.Fprintln(os.Stderr, "catchupReplay:", err)
				}
			}
			im.C.CS.VerifScheduleRound0()
			im.ResetAfterRestart()
			return im.Digest()
		case "drain":
			var seen []string
			for k := 0; k < 200; k++ {
				m, ok := im.C.CS.VerifNextInternal()
				if !ok {
					break
				}
				switch x := m.(type) {
				case *pbft.ProposalMessage:
					p := x.Proposal
					nm := im.NameOfParts(p.BlockPartsHeader)
					if nm == "?" { // a block the node created itself
						nm = fmt.Sprintf("%s%d", im.OwnPrefix, im.own)
						im.own++
						im.ByParts[string(p.BlockPartsHeader.Hash)] = nm
						im.curOwn, im.curHdr = nm, p.BlockPartsHeader
						im.ownParts[nm] = nil
					}
					seen = append(seen, fmt.Sprintf("P(%d,%s,%d,%s)", p.Round, nm, p.POLRound, im.NameOfHash(p.POLBlockID.Hash)))
					im.C.CS.VerifHandleMsg(m, "")
				case *pbft.BlockPartMessage:
					// all parts of one block are one model message
					nm := ""
					for n, e := range im.Blocks {
						if e.Parts.Total() > x.Part.Index && string(e.Parts.GetPart(x.Part.Index).Hash()) == string(x.Part.Hash()) {
							nm = n
						}
					}
					if nm == "" { // own block: learn its hash from the parts
						nm = im.curOwn
						im.ownParts[nm] = append(im.ownParts[nm], x.Part)
						if len(im.ownParts[nm]) == im.curHdr.Total {
							if b := nodekit.BlockFromParts(im.ownParts[nm], im.curHdr); b != nil {
								ps := types.NewPartSetFromHeader(im.curHdr)
								for _, pp := range im.ownParts[nm] {
									ps.AddPart(pp, false)
								}
								im.Register(nm, b, ps, true)
							}
						}
					}
					im.C.CS.VerifHandleMsg(m, "")
					if x.Part.Index == 0 {
						seen = append(seen, fmt.Sprintf("B(%s)", nm))
					}
				case *pbft.VoteMessage:
					v := x.Vote
					seen = append(seen, fmt.Sprintf("V(%d,%d,%d,%s)", v.Type, v.Height, v.Round, im.NameOfHash(v.BlockID.Hash)))
					im.C.CS.VerifHandleMsg(m, "")
				}
			}
			return strings.Join(seen, " ") + " || " + im.Digest()
		case "rotate":
			// the group's ticker rotates only a head that outgrew its limit: never an empty one
			if fi, err := os.Stat(filepath.Join(im.C.Dir, "wal", "wal")); err != nil || fi.Size() == 0 {
				return "ok"
			}
			im.C.CS.VerifRotateWAL()
			return "ok"
		case "votes":
			return im.Votes()
		case "digest":
			return im.Digest()
		case "proposer":
			rs := im.C.CS.GetRoundState()
			return fmt.Sprintf("proposer=%x", rs.Validators.Proposer().Address)
		}
		return "bad-op"
	})
	if strings.HasPrefix(res, "panic") {
		return "PANIC"
	}
	return res
}

func Unhex(s string) []byte {
	b := make([]byte, len(s)/2)
	for i := range b {
		v, _ := strconv.ParseUint(s[2*i:2*i+2], 16, 8)
		b[i] = byte(v)
	}
	return b
}
