// Package vh: shared plumbing of the correspondence harnesses.
//
// A harness drives the REAL AnnChain code, writes one operation per line to the ops file and the
// implementation's canonical answer to the out file (same line number), and records what the
// Go-side oracle (the property evaluated directly on the implementation) found. The Lean driver
// reads the ops file and must print the same answers.
package vh

import (
	"bufio"
	"encoding/hex"
	"encoding/json"
	"flag"
	"fmt"
	"os"
	"runtime/debug"
	"sort"
	"strconv"
	"strings"
)

// ---------------------------------------------------------------- PRNG (splitmix64; one state)

type Rng struct{ s uint64 }

func NewRng(seed uint64) *Rng { return &Rng{s: seed*0x9E3779B97F4A7C15 + 0x1234567} }

// NewStream: the generator stream of a run. NewRng(n) and NewRng(n+1) are the same sequence one
// step apart (the state advances by the constant the seed is multiplied with), so neighbouring
// seeds - the shards of one check - would explore almost the same inputs; the seed is scrambled first.
func NewStream(seed uint64) *Rng {
	z := seed + 0xD6E8FEB86659FD93
	z = (z ^ (z >> 32)) * 0xD6E8FEB86659FD93
	z = (z ^ (z >> 32)) * 0xD6E8FEB86659FD93
	z ^= z >> 32
	return &Rng{s: z}
}

func (r *Rng) U64() uint64 {
	r.s += 0x9E3779B97F4A7C15
	z := r.s
	z = (z ^ (z >> 30)) * 0xBF58476D1CE4E5B9
	z = (z ^ (z >> 27)) * 0x94D049BB133111EB
	return z ^ (z >> 31)
}
func (r *Rng) Intn(n int) int {
	if n <= 0 {
		return 0
	}
	return int(r.U64() % uint64(n))
}
func (r *Rng) Bool() bool         { return r.U64()&1 == 1 }
func (r *Rng) Chance(p int) bool  { return r.Intn(100) < p }
func (r *Rng) Range(a, b int) int { return a + r.Intn(b-a+1) }
func (r *Rng) Bytes(n int) []byte {
	b := make([]byte, n)
	for i := range b {
		b[i] = byte(r.U64())
	}
	return b
}
func (r *Rng) Perm(n int) []int {
	p := make([]int, n)
	for i := range p {
		p[i] = i
	}
	for i := n - 1; i > 0; i-- {
		j := r.Intn(i + 1)
		p[i], p[j] = p[j], p[i]
	}
	return p
}

// ---------------------------------------------------------------- hex ("-" = empty)

func Hex(b []byte) string {
	if len(b) == 0 {
		return "-"
	}
	return hex.EncodeToString(b)
}
func HexList(bs [][]byte) string {
	s := make([]string, len(bs))
	for i, b := range bs {
		s[i] = Hex(b)
	}
	return strings.Join(s, " ")
}
func B01(b bool) string {
	if b {
		return "1"
	}
	return "0"
}

// ---------------------------------------------------------------- run bookkeeping

type Failure struct {
	Class  string   `json:"class"`  // narrow class of property failure (matched by known findings)
	Detail string   `json:"detail"` // human text
	Ops    []string `json:"ops"`    // op lines that reproduce it (self-contained)
	Got    string   `json:"got"`
	Want   string   `json:"want"`
}

type Run struct {
	Seed     uint64
	Tier     string
	R        *Rng
	ops, out *bufio.Writer
	fo, fu   *os.File
	metaPath string
	NOps     int
	Dist     map[string]int // input-distribution histogram
	distinct map[string]struct{}
	Samples  []string
	Failures []Failure
	Extra    map[string]interface{}
	Replay   string
	Mode     string
}

// Parse the common flags: -seed -tier -ops -out -meta [-replay file]
func Start() *Run {
	seed := flag.Uint64("seed", 1, "")
	tier := flag.String("tier", "quick", "")
	ops := flag.String("ops", "ops.txt", "")
	out := flag.String("out", "impl.txt", "")
	meta := flag.String("meta", "meta.json", "")
	replay := flag.String("replay", "", "ops file to re-execute on the implementation instead of generating")
	mode := flag.String("mode", "", "engine-specific generator mode")
	flag.Parse()
	fo, err := os.Create(*ops)
	if err != nil {
		panic(err)
	}
	fu, err := os.Create(*out)
	if err != nil {
		panic(err)
	}
	return &Run{Seed: *seed, Tier: *tier, R: NewStream(*seed), fo: fo, fu: fu,
		ops: bufio.NewWriterSize(fo, 1<<20), out: bufio.NewWriterSize(fu, 1<<20), metaPath: *meta,
		Dist: map[string]int{}, distinct: map[string]struct{}{}, Extra: map[string]interface{}{},
		Replay: *replay, Mode: *mode}
}

func (r *Run) Thorough() bool { return r.Tier == "thorough" }

// Scale: n for quick, m for thorough.
func (r *Run) Scale(quick, thorough int) int {
	if r.Thorough() {
		return thorough
	}
	// VERIF_QMUL (set per engine by the check's spec, `quick_mul`): engines whose quick run takes a few seconds
	// explore a multiple of their basic quick budget; the random stream is the same, so a longer run is an
	// extension of the shorter one
	if m, err := strconv.Atoi(os.Getenv("VERIF_QMUL")); err == nil && m > 1 {
		if quick*m < thorough {
			return quick * m
		}
		if quick < thorough {
			return thorough
		}
	}
	return quick
}

// Op records one operation and the implementation's answer.
func (r *Run) Op(op, result string) {
	op = strings.TrimRight(op, " ")
	r.ops.WriteString(op)
	r.ops.WriteByte('\n')
	r.out.WriteString(result)
	r.out.WriteByte('\n')
	r.NOps++
	if len(r.Samples) < 12 && r.NOps%37 == 1 {
		r.Samples = append(r.Samples, op+"  =>  "+result)
	}
}

// Count adds to the input distribution; Distinct marks a distinct non-trivial case.
func (r *Run) Count(k string)    { r.Dist[k]++ }
func (r *Run) Distinct(k string) { r.distinct[k] = struct{}{} }

func (r *Run) Fail(f Failure) {
	n := 0
	for _, g := range r.Failures {
		if g.Class == f.Class {
			n++
		}
	}
	if n < 3 && len(r.Failures) < 300 { // a few per class; classes are what the check reports
		for i := range f.Ops {
			f.Ops[i] = strings.TrimRight(f.Ops[i], " ")
		}
		r.Failures = append(r.Failures, f)
	}
}

// Guard runs f and maps a panic to the string "panic".
func Guard(f func() string) (res string) {
	defer func() {
		if e := recover(); e != nil {
			res = "panic"
			if os.Getenv("VERIF_DEBUG") != "" {
				fmt.Fprintf(os.Stderr, "vh.Guard recovered: %v\n%s\n", e, debug.Stack())
			}
		}
	}()
	return f()
}

func (r *Run) Finish() {
	r.ops.Flush()
	r.out.Flush()
	r.fo.Close()
	r.fu.Close()
	keys := make([]string, 0, len(r.Dist))
	for k := range r.Dist {
		keys = append(keys, k)
	}
	sort.Strings(keys)
	m := map[string]interface{}{
		"seed": r.Seed, "tier": r.Tier, "ops": r.NOps, "dist": r.Dist,
		"distinct_nontrivial": len(r.distinct), "samples": r.Samples,
		"failures": r.Failures, "extra": r.Extra,
	}
	b, _ := json.MarshalIndent(m, "", " ")
	if err := os.WriteFile(r.metaPath, b, 0644); err != nil {
		panic(err)
	}
	fmt.Printf("harness: ops=%d distinct=%d failures=%d\n", r.NOps, len(r.distinct), len(r.Failures))
}

// ReadLines reads a replay file.
func ReadLines(p string) []string {
	b, err := os.ReadFile(p)
	if err != nil {
		panic(err)
	}
	var out []string
	for _, l := range strings.Split(string(b), "\n") {
		if strings.TrimSpace(l) != "" {
			out = append(out, l)
		}
	}
	return out
}
