// c06node: one real node (core.NewNode: real Angine, real pbft consensus with its own timers, real
// EVM application, LevelDB stores, WAL, signer file) in one process, for the crash engine of C06.
//
//	c06node -dir D -init                      create the runtime (genesis, config, validator key)
//	c06node -dir D -run -upto H -plan P       start the node, feed the planned transactions, stop when
//	                                          height H is committed and every planned transaction is in
//	           [-crash height=h,j=n | -crash start,j=n]
//	                                          die (os.Exit(137), nothing flushed, nothing deferred)
//	                                          immediately BEFORE the n-th durable write counted from the
//	                                          first write of SaveBlock(h) / from process start
//	           [-labels F]                    write the sequence of durable writes (labels) on clean exit
//	c06node -dir D -inspect                   print what is durable: store, state, application
//	c06node -dir D -reexec                    re-execute the stored chain on a fresh application
//
// Built with -tags verif: the durable-write failpoints of gemmill/utils/failpoint call the hook.
package main

import (
	"bytes"
	"crypto/ecdsa"
	"encoding/hex"
	"encoding/json"
	"flag"
	"fmt"
	"io/ioutil"
	"math/big"
	"os"
	"path/filepath"
	"strconv"
	"strings"
	"sync"
	"time"

	"github.com/spf13/viper"
	"go.uber.org/zap"

	"github.com/dappledger/AnnChain/chain/app/evm"
	"github.com/dappledger/AnnChain/chain/core"
	rtypes "github.com/dappledger/AnnChain/chain/types"
	"github.com/dappledger/AnnChain/eth/accounts/abi"
	"github.com/dappledger/AnnChain/eth/common"
	ecore "github.com/dappledger/AnnChain/eth/core"
	etypes "github.com/dappledger/AnnChain/eth/core/types"
	"github.com/dappledger/AnnChain/eth/core/vm"
	"github.com/dappledger/AnnChain/eth/crypto"
	"github.com/dappledger/AnnChain/eth/rlp"
	"github.com/dappledger/AnnChain/gemmill"
	bc "github.com/dappledger/AnnChain/gemmill/blockchain"
	"github.com/dappledger/AnnChain/gemmill/config"
	gcrypto "github.com/dappledger/AnnChain/gemmill/go-crypto"
	dbm "github.com/dappledger/AnnChain/gemmill/modules/go-db"
	log "github.com/dappledger/AnnChain/gemmill/modules/go-log"
	sm "github.com/dappledger/AnnChain/gemmill/state"
	gtypes "github.com/dappledger/AnnChain/gemmill/types"
	"github.com/dappledger/AnnChain/gemmill/utils/failpoint"
)

const nKeys = 3

var signer = etypes.HomesteadSigner{}

type world struct {
	keys  []*ecdsa.PrivateKey
	addrs []common.Address
}

func newWorld() *world {
	w := &world{}
	for i := 0; i < nKeys; i++ {
		k, err := crypto.ToECDSA(crypto.Keccak256([]byte(fmt.Sprintf("verif-c06-key-%d", i))))
		if err != nil {
			panic(err)
		}
		w.keys = append(w.keys, k)
		w.addrs = append(w.addrs, crypto.PubkeyToAddress(k.PublicKey))
	}
	return w
}

func unhex(s string) []byte { b, _ := hex.DecodeString(s); return b }

// counter contract: every call increments storage slot 0
var counterInit = unhex("600a600c600039600a6000f3" + "60005460010160005500")

func (w *world) sign(from int, tx *etypes.Transaction) []byte {
	sig, err := crypto.Sign(signer.Hash(tx).Bytes(), w.keys[from])
	if err != nil {
		panic(err)
	}
	stx, err := tx.WithSignature(signer, sig)
	if err != nil {
		panic(err)
	}
	b, err := rlp.EncodeToBytes(stx)
	if err != nil {
		panic(err)
	}
	return b
}

// planned transaction: "create from nonce" | "call from nonce creator creatorNonce" | "transfer from nonce to"
// | "kv from nonce key val" | "power from nonce newPower"
func (w *world) tx(spec string, dir string) []byte {
	f := strings.Fields(spec)
	from, _ := strconv.Atoi(f[1])
	n, _ := strconv.ParseUint(f[2], 10, 64)
	gas := uint64(3000000)
	zero := big.NewInt(0)
	switch f[0] {
	case "create":
		return w.sign(from, etypes.NewContractCreation(n, zero, gas, zero, counterInit))
	case "call":
		c, _ := strconv.Atoi(f[3])
		cn, _ := strconv.ParseUint(f[4], 10, 64)
		return w.sign(from, etypes.NewTransaction(n, crypto.CreateAddress(w.addrs[c], cn), zero, gas, zero, nil))
	case "transfer":
		to, _ := strconv.Atoi(f[3])
		return w.sign(from, etypes.NewTransaction(n, w.addrs[to], zero, gas, zero, nil))
	case "kv":
		payload, _ := rlp.EncodeToBytes(&rtypes.KV{Key: []byte(f[3]), Value: []byte(f[4])})
		data := append(append([]byte{}, rtypes.KVTxType...), payload...)
		return w.sign(from, etypes.NewTransaction(n, common.Address{}, zero, gas, zero, data))
	case "power": // the validator (the only certificate authority) changes its own voting power
		pw, _ := strconv.ParseInt(f[3], 10, 64)
		pv, err := gtypes.LoadPrivValidator(filepath.Join(dir, "priv_validator.json"))
		if err != nil {
			panic(err)
		}
		attr := &gtypes.ValidatorAttr{PubKey: gcrypto.GetNodePubkeyBytes(pv.PubKey), Cmd: gtypes.ValidatorCmdUpdateNode, Power: pw, Nonce: n, Addr: w.addrs[from].Bytes()}
		vdata, _ := json.Marshal(attr)
		cmd := &gtypes.AdminOPCmd{CmdType: gtypes.AdminOpChangeValidator, Time: time.Unix(1600000000, 0), Msg: vdata}
		cmd.SInfos = append(cmd.SInfos, gtypes.SigInfo{PubKey: gcrypto.GetNodePubkeyBytes(pv.PubKey), Signature: gcrypto.GetNodeSigBytes(pv.PrivKey.Sign(vdata))})
		bz, _ := json.Marshal(cmd)
		abiJSON, err := abi.JSON(strings.NewReader(ecore.AdminABI))
		if err != nil {
			panic(err)
		}
		calldata, err := abiJSON.Pack(ecore.AdminMethod, gtypes.TagAdminOPTx(bz))
		if err != nil {
			panic(err)
		}
		return w.sign(from, etypes.NewTransaction(n, ecore.AdminTo, zero, gas, zero, calldata))
	}
	panic("bad tx spec " + spec)
}

// ---------------------------------------------------------------- failpoints

type fp struct {
	mtx       sync.Mutex
	labels    []string
	armed     bool
	count     int
	crashH    int64 // arm at the first write of SaveBlock(crashH); 0: armed from the start
	crashJ    int   // 0: never
	crashOut  string
	mayEnd    bool
	labelsOut string
	since     []string // labels of the writes done since the counter was armed
}

func label(layer, name string, key []byte) string {
	k := string(key)
	switch layer {
	case "godb":
		// block store: H:h P:h:i C:h SC:h blockStore ; state: stateKey stateIntermediateKey ; app: lastblock ...
		for _, c := range k {
			if c < 32 || c > 126 {
				k = fmt.Sprintf("x%x", key)
				break
			}
		}
		if len(k) > 40 {
			k = k[:40]
		}
		return "godb." + name + ":" + k
	case "ethdb":
		return "ethdb." + name
	case "autofile":
		return "wal"
	case "fileatomic":
		return "file." + filepath.Base(name) + "." + k
	}
	return layer + "." + name
}

func (f *fp) hook(layer, name string, key []byte) {
	f.mtx.Lock()
	defer f.mtx.Unlock()
	l := label(layer, name, key)
	if f.mayEnd && strings.HasPrefix(l, "godb.set:H:") {
		// the planned chain is complete and the next block is about to be saved: the run ends here, at a
		// block boundary, the way every run of this node ends - by the process going away
		if f.labelsOut != "" {
			ioutil.WriteFile(f.labelsOut, []byte(strings.Join(f.labels, "\n")+"\n"), 0644)
		}
		os.Exit(0)
	}
	if !f.armed && f.crashJ > 0 && f.crashH > 0 && l == fmt.Sprintf("godb.set:H:%d", f.crashH) {
		f.armed = true
	}
	if f.armed && f.crashJ > 0 {
		f.count++
		if f.count == f.crashJ {
			// the process dies here: no deferred function, no flush, no close
			// (what this process wrote since the crash counter was armed, then the write it dies before)
			if f.crashOut != "" {
				ioutil.WriteFile(f.crashOut, []byte(strings.Join(append(append([]string{}, f.since...), l), "\n")+"\n"), 0644)
			}
			os.Exit(137)
		}
		f.since = append(f.since, l)
	}
	f.labels = append(f.labels, l)
}

// ---------------------------------------------------------------- node

func readConf(dir string) *viper.Viper {
	conf, err := config.ReadConfig(dir)
	if err != nil {
		fatal("read config: %v", err)
	}
	return conf
}

func fatal(f string, a ...interface{}) {
	fmt.Fprintf(os.Stderr, "c06node: "+f+"\n", a...)
	os.Exit(2)
}

func runNode(dir string, upto int64, planFile string, crash string, labelsOut, crashOut string, port int, recoverOnly bool, serve int, fastSync bool, seeds string, commitMs int) {
	w := newWorld()
	var plan [][]string // plan[i] = transactions meant for height i+1
	if planFile != "" {
		bz, err := ioutil.ReadFile(planFile)
		if err != nil {
			fatal("plan: %v", err)
		}
		for _, line := range strings.Split(strings.TrimSpace(string(bz)), "\n") {
			var batch []string
			for _, t := range strings.Split(line, ";") {
				if t = strings.TrimSpace(t); t != "" && t != "-" {
					batch = append(batch, t)
				}
			}
			plan = append(plan, batch)
		}
	}
	f := &fp{crashOut: crashOut, labelsOut: labelsOut}
	if crash != "" {
		for _, kv := range strings.Split(crash, ",") {
			switch {
			case kv == "start":
				f.armed = true
			case strings.HasPrefix(kv, "height="):
				f.crashH, _ = strconv.ParseInt(kv[7:], 10, 64)
			case strings.HasPrefix(kv, "j="):
				f.crashJ, _ = strconv.Atoi(kv[2:])
			}
		}
	}
	failpoint.Hook = f.hook

	conf := readConf(dir)
	conf.Set("p2p_laddr", fmt.Sprintf("tcp://127.0.0.1:%d", port))
	conf.Set("rpc_laddr", "")
	conf.Set("skip_upnp", true)
	conf.Set("log_path", filepath.Join(dir, "node.log"))
	conf.Set("audit_log_path", filepath.Join(dir, "audit.log"))
	conf.Set("timeout_propose", 400)
	conf.Set("timeout_prevote", 200)
	conf.Set("timeout_precommit", 200)
	conf.Set("timeout_commit", commitMs)
	conf.Set("pex_reactor", false)
	conf.Set("fast_sync", false)
	if serve > 0 { // a node that anybody may connect to (engine c08net): no certificate checks, peer exchange on
		conf.Set("auth_by_ca", false)
		conf.Set("non_validator_node_auth", false)
		conf.Set("pex_reactor", true)
		conf.Set("addrbook_file", filepath.Join(dir, "addrbook.json"))
		conf.Set("addrbook_strict", false)
	}
	if fastSync { // a node that catches up from its peers (engine realsync of C13)
		conf.Set("fast_sync", true)
	}
	if seeds != "" {
		conf.Set("seeds", seeds)
	}
	node, err := core.NewNode(conf, "", "evm")
	if err != nil {
		fatal("new node: %v", err)
	}
	if err := node.Start(); err != nil {
		fatal("start: %v", err)
	}
	if serve > 0 {
		// run for `serve` seconds, publishing the height; then the process goes away
		end := time.Now().Add(time.Duration(serve) * time.Second)
		fedS := 0
		for time.Now().Before(end) {
			// the planned transactions, batch k once height k-1 is committed
			for fedS < len(plan) && int64(fedS) <= node.Angine.Height() {
				for _, t := range plan[fedS] {
					node.Angine.BroadcastTx(w.tx(t, dir))
				}
				fedS++
			}
			ioutil.WriteFile(filepath.Join(dir, "height.tmp"), []byte(fmt.Sprint(node.Angine.Height())), 0644)
			os.Rename(filepath.Join(dir, "height.tmp"), filepath.Join(dir, "height.txt"))
			time.Sleep(25 * time.Millisecond)
		}
		os.Exit(0)
	}
	if recoverOnly {
		// start-up reconciliation is over (NewNode -> ConnectApp -> RecoverFromCrash, Start): stop at the
		// next block boundary without offering anything
		f.mtx.Lock()
		f.mayEnd = true
		f.mtx.Unlock()
		time.Sleep(20 * time.Second)
		fatal("no block after recovery")
	}
	// feeder: batch k is offered once height k-1 is committed; offering again what is already in is harmless
	want := map[int]uint64{}
	for _, batch := range plan {
		for _, t := range batch {
			fs := strings.Fields(t)
			from, _ := strconv.Atoi(fs[1])
			want[from]++
		}
	}
	app := node.Application.(*evm.EVMApp)
	nonce := func(k int) uint64 {
		res := app.Query(append([]byte{rtypes.QueryType_Nonce}, w.addrs[k].Bytes()...))
		var n uint64
		rlp.DecodeBytes(res.Data, &n)
		return n
	}
	// ... and once everything of the batches before it has taken effect: transactions of different
	// accounts have no order inside a block (the pool reaps its accounts in map order), so a call
	// offered while the creation it depends on is still pending could run first - in the reference run
	// as well as after a crash - and the two runs would end in different states for no fault of the node
	applied := func(upTo int) bool {
		for _, batch := range plan[:upTo] {
			for _, t := range batch {
				fs := strings.Fields(t)
				from, _ := strconv.Atoi(fs[1])
				n, _ := strconv.ParseUint(fs[2], 10, 64)
				if nonce(from) <= n {
					return false
				}
			}
		}
		return true
	}
	deadline := time.Now().Add(60 * time.Second)
	fed := 0
	for time.Now().Before(deadline) {
		h := node.Angine.Height()
		for fed < len(plan) && int64(fed) <= h && applied(fed) {
			for _, t := range plan[fed] {
				node.Angine.BroadcastTx(w.tx(t, dir))
			}
			fed++
		}
		done := h >= upto && fed == len(plan) && node.Angine.GetNumUnconfirmedTxs() == 0
		for k, n := range want {
			if nonce(k) < n {
				done = false
			}
		}
		if done {
			f.mtx.Lock()
			f.mayEnd = true
			f.mtx.Unlock()
		}
		// a transaction that was offered before a crash may have been lost with the mempool
		if fed == len(plan) && node.Angine.GetNumUnconfirmedTxs() == 0 && !done {
			for _, batch := range plan { // the earliest batch with something missing, nothing later (see above)
				missing := false
				for _, t := range batch {
					fs := strings.Fields(t)
					from, _ := strconv.Atoi(fs[1])
					n, _ := strconv.ParseUint(fs[2], 10, 64)
					if n >= nonce(from) {
						node.Angine.BroadcastTx(w.tx(t, dir))
						missing = true
					}
				}
				if missing {
					break
				}
			}
		}
		time.Sleep(15 * time.Millisecond)
	}
	fatal("did not reach height %d with every planned transaction in (at %d)", upto, node.Angine.Height())
}

// ---------------------------------------------------------------- inspect / reexec

type blockInfo struct {
	Height     int64  `json:"h"`
	Hash       string `json:"hash"`
	AppHash    string `json:"app"`
	Receipts   string `json:"rec"`
	NumTxs     int    `json:"ntx"`
	SeenCommit bool   `json:"seen"`
	Parts      bool   `json:"parts"`
}

type report struct {
	StoreHeight int64       `json:"store_height"`
	Blocks      []blockInfo `json:"blocks"`
	StateHeight int64       `json:"state_height"`
	StateApp    string      `json:"state_app"`
	StateRec    string      `json:"state_rec"`
	StateLastID string      `json:"state_last_id"`
	StateVals   string      `json:"state_vals"`
	HasInterm   bool        `json:"has_intermediate"`
	AppHeight   int64       `json:"app_height"`
	AppHash     string      `json:"app_hash"`
	AppOpens    bool        `json:"app_opens"`
	AppErr      string      `json:"app_err"`
	Nonces      []uint64    `json:"nonces"`
	Err         string      `json:"err"`
}

func openDBs(dir string) (store *bc.BlockStore, stateDB dbm.DB, closeAll func()) {
	conf := readConf(dir)
	dbDir := conf.GetString("db_dir")
	backend := conf.GetString("db_backend")
	bdb := dbm.NewDB("blockstore", backend, dbDir)
	adb := dbm.NewDB("blockstore_archive", backend, dbDir)
	sdb := dbm.NewDB("state", backend, dbDir)
	return bc.NewBlockStore(bdb, adb), sdb, func() { bdb.Close(); adb.Close(); sdb.Close() }
}

func inspect(dir string) report {
	var r report
	defer func() {
		if e := recover(); e != nil {
			r.Err = fmt.Sprint(e)
		}
	}()
	store, sdb, closeAll := openDBs(dir)
	r.StoreHeight = store.Height()
	for h := int64(1); h <= r.StoreHeight; h++ {
		bi := blockInfo{Height: h}
		func() {
			defer func() {
				if e := recover(); e != nil {
					bi.Hash = "unreadable:" + fmt.Sprint(e)
				}
			}()
			b := store.LoadBlock(h)
			if b == nil {
				bi.Hash = "missing"
				return
			}
			bi.Parts = true
			bi.Hash = fmt.Sprintf("%X", b.Hash())
			bi.AppHash = fmt.Sprintf("%X", b.AppHash)
			bi.Receipts = fmt.Sprintf("%X", b.ReceiptsHash)
			bi.NumTxs = len(b.Data.Txs)
			bi.SeenCommit = store.LoadSeenCommit(h) != nil
		}()
		r.Blocks = append(r.Blocks, bi)
	}
	if st := sm.LoadState(sdb); st != nil {
		r.StateHeight = st.LastBlockHeight
		r.StateApp = fmt.Sprintf("%X", st.AppHash)
		r.StateRec = fmt.Sprintf("%X", st.ReceiptsHash)
		r.StateLastID = fmt.Sprintf("%X", st.LastBlockID.Hash)
		var vs []string
		for _, v := range st.Validators.Validators {
			vs = append(vs, fmt.Sprintf("%X:%d", v.Address, v.VotingPower))
		}
		r.StateVals = strings.Join(vs, ",")
	}
	r.HasInterm = len(sdb.Get([]byte("stateIntermediateKey"))) > 0
	closeAll()
	// the application as a restarting node opens it
	conf := readConf(dir)
	func() {
		defer func() {
			if e := recover(); e != nil {
				r.AppErr = fmt.Sprint(e)
			}
		}()
		app, err := evm.NewEVMApp(conf)
		if err != nil {
			r.AppErr = err.Error()
			return
		}
		if err := app.Start(); err != nil {
			r.AppErr = err.Error()
			app.Stop()
			return
		}
		r.AppOpens = true
		info := app.Info()
		r.AppHeight = int64(info.LastBlockHeight)
		r.AppHash = fmt.Sprintf("%X", info.LastBlockAppHash)
		w := newWorld()
		for k := 0; k < nKeys; k++ {
			res := app.Query(append([]byte{rtypes.QueryType_Nonce}, w.addrs[k].Bytes()...))
			var n uint64
			rlp.DecodeBytes(res.Data, &n)
			r.Nonces = append(r.Nonces, n)
		}
		app.Stop()
	}()
	return r
}

type reexecReport struct {
	Heights  int64    `json:"heights"`
	Mismatch []string `json:"mismatch"`
	FinalApp string   `json:"final_app"`
	Err      string   `json:"err"`
}

// reexec: the stored chain on a fresh application must reproduce every hash the chain records
func reexec(dir string) reexecReport {
	var r reexecReport
	defer func() {
		if e := recover(); e != nil {
			r.Err = fmt.Sprint(e)
		}
	}()
	store, sdb, closeAll := openDBs(dir)
	defer closeAll()
	st := sm.LoadState(sdb)
	tmp, err := ioutil.TempDir("", "verif-c06-reexec-")
	if err != nil {
		panic(err)
	}
	defer os.RemoveAll(tmp)
	conf := readConf(dir)
	conf.Set("db_dir", tmp)
	app, err := evm.NewEVMApp(conf)
	if err != nil {
		panic(err)
	}
	if err := app.Start(); err != nil {
		panic(err)
	}
	defer app.Stop()
	// governance transactions are judged by the consensus layer (validator set, signatures), not by the
	// application state: re-execution takes the recorded chain's transactions as the node accepted them
	vm.DefaultAdminContract.SetCallback(func(*vm.AdminDBApp, []byte) error { return nil })
	r.Heights = store.Height()
	var lastApp, lastRec []byte
	for h := int64(1); h <= store.Height(); h++ {
		b := store.LoadBlock(h)
		if b == nil {
			r.Mismatch = append(r.Mismatch, fmt.Sprintf("block %d missing", h))
			break
		}
		if h > 1 {
			if !bytes.Equal(b.AppHash, lastApp) {
				r.Mismatch = append(r.Mismatch, fmt.Sprintf("block %d records app hash %X, re-execution of 1..%d gives %X", h, b.AppHash, h-1, lastApp))
			}
			if !bytes.Equal(b.ReceiptsHash, lastRec) {
				r.Mismatch = append(r.Mismatch, fmt.Sprintf("block %d records receipts hash %X, re-execution gives %X", h, b.ReceiptsHash, lastRec))
			}
		}
		if _, err := app.OnExecute(h, 0, b); err != nil {
			r.Mismatch = append(r.Mismatch, fmt.Sprintf("execute %d: %v", h, err))
		}
		res, err := app.OnCommit(h, 0, b)
		if err != nil {
			r.Mismatch = append(r.Mismatch, fmt.Sprintf("commit %d: %v", h, err))
			break
		}
		cr := res.(gtypes.CommitResult)
		lastApp, lastRec = cr.AppHash, cr.ReceiptsHash
	}
	r.FinalApp = fmt.Sprintf("%X", lastApp)
	if st != nil && st.LastBlockHeight == store.Height() {
		if !bytes.Equal(st.AppHash, lastApp) {
			r.Mismatch = append(r.Mismatch, fmt.Sprintf("state records app hash %X after %d, re-execution gives %X", st.AppHash, st.LastBlockHeight, lastApp))
		}
		if !bytes.Equal(st.ReceiptsHash, lastRec) {
			r.Mismatch = append(r.Mismatch, fmt.Sprintf("state records receipts hash %X after %d, re-execution gives %X", st.ReceiptsHash, st.LastBlockHeight, lastRec))
		}
	}
	return r
}

func main() {
	dir := flag.String("dir", "", "runtime dir")
	doInit := flag.Bool("init", false, "")
	doRun := flag.Bool("run", false, "")
	doInspect := flag.Bool("inspect", false, "")
	doReexec := flag.Bool("reexec", false, "")
	upto := flag.Int64("upto", 3, "")
	plan := flag.String("plan", "", "")
	crash := flag.String("crash", "", "")
	labels := flag.String("labels", "", "")
	crashOut := flag.String("crashout", "", "")
	port := flag.Int("port", 46656, "")
	recoverOnly := flag.Bool("recoveronly", false, "")
	serve := flag.Int("serve", 0, "")
	fastSync := flag.Bool("fastsync", false, "")
	commitMs := flag.Int("commit", 120, "timeout_commit in ms")
	seeds := flag.String("seeds", "", "")
	flag.Parse()
	log.SetLog(zap.NewNop())
	log.SetAuditLog(zap.NewNop())
	switch {
	case *doInit:
		conf := core.DefaultConf()
		conf.Set("app_name", "evm")
		conf.Set("log_dir", *dir)
		gemmill.Initialize(&gemmill.Tunes{Runtime: *dir, Conf: conf}, "c06-chain")
	case *doRun:
		runNode(*dir, *upto, *plan, *crash, *labels, *crashOut, *port, *recoverOnly, *serve, *fastSync, *seeds, *commitMs)
	case *doInspect:
		gcrypto.NodeInit(gcrypto.CryptoType)
		b, _ := json.Marshal(inspect(*dir))
		fmt.Println(string(b))
	case *doReexec:
		gcrypto.NodeInit(gcrypto.CryptoType)
		b, _ := json.Marshal(reexec(*dir))
		fmt.Println(string(b))
	}
}
