// C18 harness: go-wire primitives, RLP (in-tree), struct-level binary/JSON round trips of the
// consensus types, robust decoding of mutated bytes, sign-bytes distinctness.
package main

import (
	"bytes"
	"encoding/hex"
	"fmt"
	"math"
	"reflect"
	"strconv"
	"strings"
	"time"

	"github.com/dappledger/AnnChain/eth/rlp"
	"github.com/dappledger/AnnChain/gemmill/consensus/pbft"
	crypto "github.com/dappledger/AnnChain/gemmill/go-crypto"
	wire "github.com/dappledger/AnnChain/gemmill/go-wire"
	sm "github.com/dappledger/AnnChain/gemmill/state"
	"github.com/dappledger/AnnChain/gemmill/types"

	"verifharness/vh"
)

func unhex(s string) []byte {
	if s == "-" {
		return []byte{}
	}
	b, err := hex.DecodeString(s)
	if err != nil {
		panic("bad hex " + s)
	}
	return b
}

// ---------------------------------------------------------------- RLP item syntax
func parseItems(toks []string) ([]interface{}, []string) {
	var out []interface{}
	for len(toks) > 0 {
		switch toks[0] {
		case ")":
			return out, toks
		case "(":
			inner, rest := parseItems(toks[1:])
			if inner == nil {
				inner = []interface{}{}
			}
			out = append(out, inner)
			toks = rest[1:]
		default:
			out = append(out, unhex(toks[0]))
			toks = toks[1:]
		}
	}
	return out, toks
}

func showItem(v interface{}) string {
	switch x := v.(type) {
	case []byte:
		return vh.Hex(x)
	case []interface{}:
		var sb strings.Builder
		sb.WriteString("( ")
		for _, e := range x {
			sb.WriteString(showItem(e))
			sb.WriteString(" ")
		}
		sb.WriteString(")")
		return sb.String()
	}
	return fmt.Sprintf("?%T", v)
}

func rlpErr(err error) string {
	switch {
	case err == rlp.ErrCanonSize:
		return "err-canon"
	case err == rlp.ErrElemTooLarge:
		return "err-elem"
	case err == rlp.ErrMoreThanOneValue:
		return "err-trailing"
	case err == rlp.ErrValueTooLarge || strings.Contains(err.Error(), "EOF"):
		return "err-eof"
	}
	return "err?" + err.Error()
}

func wireErr(err error) string {
	switch {
	case err == wire.ErrBinaryReadOverflow:
		return "err-readoverflow"
	case err == wire.ErrBinaryReadInvalidLength:
		return "err-len"
	case strings.Contains(err.Error(), "Varint overflow"):
		return "err-overflow"
	case strings.Contains(err.Error(), "negative zero"):
		return "err-negzero"
	case strings.Contains(err.Error(), "EOF"):
		return "err-eof"
	case strings.Contains(err.Error(), "sub-millisecond"):
		return "err-subms"
	}
	return "err?" + err.Error()
}

func exec(line string) string {
	return vh.Guard(func() string {
		w := strings.Fields(line)
		switch w[0] {
		case "cfg", "go":
			return "ok"
		case "sbvote": // canonical sign-bytes of a vote (chain id "c18")
			h, _ := strconv.ParseInt(w[1], 10, 64)
			rd, _ := strconv.ParseInt(w[2], 10, 64)
			t, _ := strconv.Atoi(w[3])
			tot, _ := strconv.Atoi(w[5])
			dec := func(x string) []byte {
				if x == "-" {
					return nil
				}
				return unhex(x)
			}
			v := &types.Vote{Height: h, Round: rd, Type: byte(t), BlockID: types.BlockID{Hash: dec(w[4]), PartsHeader: types.PartSetHeader{Total: tot, Hash: dec(w[6])}},
				ValidatorAddress: []byte("not signed"), ValidatorIndex: 7}
			return string(types.SignBytes("c18", v))
		case "wvarint":
			i, _ := strconv.ParseInt(w[1], 10, 64)
			buf, n, err := new(bytes.Buffer), new(int), new(error)
			wire.WriteVarint(int(i), buf, n, err)
			return vh.Hex(buf.Bytes())
		case "rvarint":
			b := unhex(w[1])
			n, err := new(int), new(error)
			v := wire.ReadVarint(bytes.NewReader(b), n, err)
			if *err != nil {
				return wireErr(*err)
			}
			return fmt.Sprintf("ok %d %d", v, *n)
		case "rbytes":
			lmt, _ := strconv.Atoi(w[1])
			n0, _ := strconv.Atoi(w[2])
			b := unhex(w[3])
			n, err := new(int), new(error)
			*n = n0
			v := wire.ReadByteSlice(bytes.NewReader(b), lmt, n, err)
			if *err != nil {
				return wireErr(*err)
			}
			return fmt.Sprintf("ok %s %d", vh.Hex(v), *n-n0)
		case "wtime":
			t, _ := strconv.ParseInt(w[1], 10, 64)
			buf, n, err := new(bytes.Buffer), new(int), new(error)
			wire.WriteTime(time.Unix(0, t), buf, n, err)
			return vh.Hex(buf.Bytes())
		case "rtime":
			b := unhex(w[1])
			n, err := new(int), new(error)
			t := wire.ReadTime(bytes.NewReader(b), n, err)
			if *err != nil {
				return wireErr(*err)
			}
			return fmt.Sprintf("ok %d", t.UnixNano())
		case "rlpenc":
			items, _ := parseItems(w[1:])
			b, err := rlp.EncodeToBytes(items[0])
			if err != nil {
				return "err"
			}
			return vh.Hex(b)
		case "rlpdec":
			var v interface{}
			if err := rlp.DecodeBytes(unhex(w[1]), &v); err != nil {
				return rlpErr(err)
			}
			return "ok " + showItem(v)
		}
		return "bad-op"
	})
}

// ---------------------------------------------------------------- reflection filler for struct-level round trips
var (
	sigT  = reflect.TypeOf((*crypto.Signature)(nil)).Elem()
	pubT  = reflect.TypeOf((*crypto.PubKey)(nil)).Elem()
	privT = reflect.TypeOf((*crypto.PrivKey)(nil)).Elem()
	timeT = reflect.TypeOf(time.Time{})
)

var jsonSafe bool // integers within +-2^53 (encoding/json reads numbers as float64)

// fillZone: the Location generated time values carry (nil = what time.Unix gives). The codecs must
// not depend on it: an instant has ONE encoding (C18 determinism), whatever zone the value is in.
var fillZone *time.Location

func fill(R *vh.Rng, rv reflect.Value, depth int) {
	rt := rv.Type()
	switch {
	case rt == timeT:
		ms := []int64{0, 1, 1500000000000, -1, 9223372036854, -9223372036854, int64(R.Intn(1 << 40))}[R.Intn(7)] // UnixNano range
		t := time.Unix(0, ms*1000000)
		if fillZone != nil {
			t = t.In(fillZone)
		}
		rv.Set(reflect.ValueOf(t))
		return
	case rt == sigT:
		if R.Chance(85) {
			var s crypto.SignatureEd25519
			copy(s[:], R.Bytes(64))
			rv.Set(reflect.ValueOf(s))
		}
		return
	case rt == pubT:
		if R.Chance(85) {
			var p crypto.PubKeyEd25519
			copy(p[:], R.Bytes(32))
			rv.Set(reflect.ValueOf(p))
		}
		return
	case rt == privT:
		return
	}
	switch rt.Kind() {
	case reflect.Int, reflect.Int64:
		vals := []int64{0, 1, -1, 127, 128, 255, 256, 65535, 65536, 1 << 31, -(1 << 31), math.MaxInt64, math.MinInt64, int64(R.Intn(1000)), -int64(R.Intn(1000))}
		if jsonSafe {
			vals = []int64{0, 1, -1, 127, 128, 255, 256, 65535, 65536, 1 << 31, -(1 << 31), 1<<53 - 1, -(1<<53 - 1), int64(R.Intn(1000)), -int64(R.Intn(1000))}
		}
		rv.SetInt(vals[R.Intn(len(vals))])
	case reflect.Int8:
		rv.SetInt(int64(int8(R.U64())))
	case reflect.Int16:
		rv.SetInt(int64(int16(R.U64())))
	case reflect.Int32:
		rv.SetInt(int64(int32(R.U64())))
	case reflect.Uint8:
		rv.SetUint(uint64(uint8(R.U64())))
	case reflect.Uint16:
		rv.SetUint(uint64(uint16(R.U64())))
	case reflect.Uint32:
		rv.SetUint(uint64(uint32(R.U64())))
	case reflect.Uint, reflect.Uint64:
		vals := []uint64{0, 1, 255, 256, 1 << 40, math.MaxInt64, uint64(R.Intn(100000))}
		if jsonSafe {
			vals[5] = 1<<53 - 1
		}
		rv.SetUint(vals[R.Intn(len(vals))])
	case reflect.Bool:
		rv.SetBool(R.Bool())
	case reflect.String:
		rv.SetString([]string{"", "a", "chain-1", "quote\"back\\slash", "unicode-é中", "ctl\x01\n\t", hex.EncodeToString(R.Bytes(R.Intn(6)))}[R.Intn(7)]) // valid UTF-8 only
	case reflect.Slice:
		if rt.Elem().Kind() == reflect.Uint8 {
			n := []int{0, 1, 20, 32, 255, 256, R.Intn(70)}[R.Intn(7)]
			if n == 0 && R.Bool() {
				return // nil
			}
			rv.SetBytes(R.Bytes(n))
			return
		}
		n := []int{0, 0, 1, 2, 3, R.Intn(6)}[R.Intn(6)]
		if depth <= 2 && R.Chance(8) {
			n = []int{1023, 1024, 1025, 2048}[R.Intn(4)] // the reader works in chunks of 1024 elements
		}
		if depth > 3 {
			n = R.Intn(2)
		}
		s := reflect.MakeSlice(rt, n, n)
		for i := 0; i < n; i++ {
			fill(R, s.Index(i), depth+1)
		}
		rv.Set(s)
	case reflect.Array:
		for i := 0; i < rt.Len(); i++ {
			fill(R, rv.Index(i), depth+1)
		}
	case reflect.Ptr:
		if R.Chance(15) || depth > 5 {
			return // nil pointer
		}
		p := reflect.New(rt.Elem())
		fill(R, p.Elem(), depth+1)
		rv.Set(p)
	case reflect.Struct:
		for i := 0; i < rt.NumField(); i++ {
			if rt.Field(i).PkgPath != "" { // unexported
				continue
			}
			fill(R, rv.Field(i), depth+1)
		}
	case reflect.Interface:
		// unknown interface: leave nil
	}
}

type kind struct {
	name string
	mk   func() interface{} // pointer to a fresh zero value
}

func kinds() []kind {
	return []kind{
		{"Vote", func() interface{} { return &types.Vote{} }},
		{"Proposal", func() interface{} { return &types.Proposal{} }},
		{"Commit", func() interface{} { return &types.Commit{} }},
		{"BlockID", func() interface{} { return &types.BlockID{} }},
		{"PartSetHeader", func() interface{} { return &types.PartSetHeader{} }},
		{"Part", func() interface{} { return &types.Part{} }},
		{"Header", func() interface{} { return &types.Header{} }},
		{"Data", func() interface{} { return &types.Data{} }},
		{"Block", func() interface{} { return &types.Block{} }},
		{"Validator", func() interface{} { return &types.Validator{} }},
		{"ValidatorSet", func() interface{} { return &types.ValidatorSet{} }},
		{"State", func() interface{} { return &sm.State{} }},
		{"TimedWALMessage", func() interface{} { return &pbft.TimedWALMessage{} }},
	}
}

func binRoundTrip(k kind, x interface{}) (string, []byte) {
	res := vh.Guard(func() string {
		b1 := wire.BinaryBytes(x)
		y := k.mk()
		n, err := new(int), new(error)
		wire.ReadBinary(y, bytes.NewReader(b1), len(b1)+1, n, err)
		if *err != nil {
			return "decode-error:" + (*err).Error()
		}
		if *n != len(b1) {
			return fmt.Sprintf("consumed %d of %d", *n, len(b1))
		}
		b2 := wire.BinaryBytes(y)
		if !bytes.Equal(b1, b2) {
			return "re-encoding differs"
		}
		if !bytes.Equal(b1, wire.BinaryBytes(x)) {
			return "encoding not deterministic"
		}
		return "ok"
	})
	var b []byte
	vh.Guard(func() string { b = wire.BinaryBytes(x); return "" })
	return res, b
}

func jsonRoundTrip(k kind, x interface{}) string {
	return vh.Guard(func() string {
		j1 := wire.JSONBytes(x)
		y := k.mk()
		var err error
		wire.ReadJSON(y, j1, &err)
		if err != nil {
			return "decode-error:" + err.Error()
		}
		j2 := wire.JSONBytes(y)
		if !bytes.Equal(j1, j2) {
			return "re-encoding differs"
		}
		return "ok"
	})
}

func main() {
	r := vh.Start()
	defer r.Finish()
	do := func(op string) string {
		res := exec(op)
		r.Op(op, res)
		return res
	}
	if r.Replay != "" {
		for _, l := range vh.ReadLines(r.Replay) {
			do(l)
		}
		return
	}
	do("cfg timeErr=1")
	R := r.R
	fail := func(cls, detail string, ops []string, got, want string) {
		r.Fail(vh.Failure{Class: cls, Detail: detail, Ops: ops, Got: got, Want: want})
	}
	// ------------------------------------------------------------ varint
	ints := []int64{0, 1, -1, 127, 128, 255, 256, -255, -256, 65535, 65536, 1<<24 - 1, 1 << 24, 1 << 32, 1<<40 - 1, 1 << 48, 1 << 56, math.MaxInt64, math.MinInt64, math.MinInt64 + 1}
	for i := 0; i < r.Scale(200, 4000); i++ {
		ints = append(ints, int64(R.U64())>>uint(R.Intn(64)))
	}
	for _, i := range ints {
		enc := do(fmt.Sprintf("wvarint %d", i))
		dec := do("rvarint " + enc)
		r.Count("varint.roundtrip")
		if want := fmt.Sprintf("ok %d %d", i, len(unhex(enc))); dec != want {
			fail("varint-roundtrip", "ReadVarint(WriteVarint(i)) != i", []string{fmt.Sprintf("wvarint %d", i), "rvarint " + enc}, dec, want)
		}
		// with trailing bytes and truncations
		do("rvarint " + enc + "ff")
		if len(enc) > 2 {
			do("rvarint " + enc[:len(enc)-2])
		}
	}
	for i := 0; i < r.Scale(800, 20000); i++ { // arbitrary bytes
		n := R.Intn(11)
		b := R.Bytes(n)
		if n > 0 && R.Chance(60) {
			b[0] = []byte{0, 1, 2, 7, 8, 9, 0xF0, 0xF1, 0xF8, 0xF9, 0xFF, 0x10, 0xE1}[R.Intn(13)]
		}
		res := do("rvarint " + vh.Hex(b))
		r.Count("varint.arbitrary." + strings.Fields(res)[0])
		if res == "panic" {
			fail("varint-decode-panics", "ReadVarint panics on arbitrary bytes", []string{"rvarint " + vh.Hex(b)}, res, "ok|err")
		}
		r.Distinct("rvarint " + strings.Fields(res)[0] + fmt.Sprint(n))
	}
	// ------------------------------------------------------------ byte slices with limits
	for i := 0; i < r.Scale(800, 20000); i++ {
		payload := R.Bytes(R.Intn(12))
		ln := len(payload)
		switch R.Intn(6) {
		case 0:
			ln += R.Intn(5) // claims more than there is
		case 1:
			ln = -R.Intn(5)
		case 2:
			ln = 1 << uint(R.Range(20, 62)) // absurd length
		}
		buf, n, err := new(bytes.Buffer), new(int), new(error)
		wire.WriteVarint(ln, buf, n, err)
		inp := append(buf.Bytes(), payload...)
		lmt := []int{0, 1, len(inp), len(inp) - 1, len(inp) + 1, 1 << 20}[R.Intn(6)]
		if lmt < 0 {
			lmt = 0
		}
		if lmt == 0 && ln > 1<<16 {
			lmt = 1 << 20 // lmt 0 means "no limit": an absurd length then allocates by contract
		}
		n0 := []int{0, 0, 3, 100}[R.Intn(4)]
		res := do(fmt.Sprintf("rbytes %d %d %s", lmt, n0, vh.Hex(inp)))
		r.Count("rbytes." + strings.Fields(res)[0])
		r.Distinct(fmt.Sprintf("rbytes %s lmt=%d n0=%d", strings.Fields(res)[0], lmt, n0))
		if res == "panic" {
			fail("byteslice-decode-panics", "ReadByteSlice panics", []string{fmt.Sprintf("rbytes %d %d %s", lmt, n0, vh.Hex(inp))}, res, "ok|err")
		}
	}
	// ------------------------------------------------------------ time
	for i := 0; i < r.Scale(300, 5000); i++ {
		t := int64(R.U64()) >> uint(R.Intn(40))
		if R.Bool() {
			t = (t / 1000000) * 1000000
		}
		enc := do(fmt.Sprintf("wtime %d", t))
		dec := do("rtime " + enc)
		if want := fmt.Sprintf("ok %d", (t/1000000)*1000000); dec != want {
			fail("time-roundtrip", "ReadTime(WriteTime(t)) is not t truncated to the millisecond", []string{fmt.Sprintf("wtime %d", t), "rtime " + enc}, dec, want)
		}
		raw := R.Bytes(8)
		if R.Bool() {
			raw[0] = 0
			raw[1] = 0
		}
		res := do("rtime " + vh.Hex(raw))
		r.Count("rtime." + strings.Fields(res)[0])
		if res == "panic" {
			fail("readtime-panics-on-sub-millisecond-value", "wire.ReadTime panics while decoding untrusted bytes whose value is not a whole number of milliseconds", []string{"rtime " + vh.Hex(raw)}, res, "an error")
		}
	}
	// ------------------------------------------------------------ RLP
	var genItem func(d int) string
	genItem = func(d int) string {
		if d > 3 || R.Chance(55) {
			n := []int{0, 1, 1, 2, 55, 56, 57, 255, 256, R.Intn(70)}[R.Intn(10)]
			b := R.Bytes(n)
			if n == 1 && R.Bool() {
				b[0] = byte(R.Intn(0x80)) // single byte below 0x80 is its own encoding
			}
			return vh.Hex(b)
		}
		k := []int{0, 1, 2, 3, 8}[R.Intn(5)]
		s := "("
		for i := 0; i < k; i++ {
			s += " " + genItem(d+1)
		}
		return s + " )"
	}
	for i := 0; i < r.Scale(500, 15000); i++ {
		it := genItem(0)
		enc := do("rlpenc " + it)
		dec := do("rlpdec " + enc)
		r.Count("rlp.roundtrip")
		norm := strings.Join(strings.Fields(it), " ")
		if dec != "ok "+norm {
			fail("rlp-roundtrip", "rlp decode(encode(x)) != x", []string{"rlpenc " + it, "rlpdec " + enc}, dec, "ok "+norm)
		}
		r.Distinct("rlp len=" + fmt.Sprint(len(enc)/2/8))
		// mutations: every canonical-form violation and truncation must be an error, never a panic
		b := unhex(enc)
		for m := 0; m < 3 && len(b) > 0; m++ {
			c := append([]byte{}, b...)
			switch R.Intn(5) {
			case 0:
				c = c[:R.Intn(len(c))]
			case 1:
				c[R.Intn(len(c))] ^= byte(1 << uint(R.Intn(8)))
			case 2:
				c = append(c, byte(R.U64()))
			case 3:
				c[0] = []byte{0x81, 0xb8, 0xb9, 0xf8, 0xf9, 0xc1, 0xbf, 0xff}[R.Intn(8)]
			default:
				c = append([]byte{0xb8, byte(len(c))}, c...) // long form for a short string
			}
			res := do("rlpdec " + vh.Hex(c))
			r.Count("rlp.mut." + strings.Fields(res)[0])
			if res == "panic" {
				fail("rlp-decode-panics", "rlp.DecodeBytes panics", []string{"rlpdec " + vh.Hex(c)}, res, "ok|err")
			}
			if strings.HasPrefix(res, "ok") { // canonical: an accepted input re-encodes to itself
				re := do("rlpenc " + strings.TrimPrefix(res, "ok "))
				if re != vh.Hex(c) {
					fail("rlp-accepts-non-canonical-input", "rlp decodes an input that is not the encoding of the decoded value", []string{"rlpdec " + vh.Hex(c)}, re, vh.Hex(c))
				}
			}
		}
	}
	// ------------------------------------------------------------ sign-bytes of votes against the model's text (theorem: injective)
	for i := 0; i < r.Scale(300, 3000); i++ {
		hx := func() string {
			n := []int{0, 0, 1, 2, 20, 32, R.Intn(40)}[R.Intn(7)]
			if n == 0 {
				return "-"
			}
			return vh.Hex(R.Bytes(n))
		}
		num := func() int64 {
			return []int64{0, 1, -1, 9, 10, 99, 100, 1 << 31, -(1 << 31), 1<<62 + 12345, -(1 << 62), int64(R.Intn(1000)), int64(R.Intn(1 << 30))}[R.Intn(13)]
		}
		op := fmt.Sprintf("sbvote %d %d %d %s %d %s", num(), num(), []int{0, 1, 2, 2, 255, R.Intn(256)}[R.Intn(6)], hx(), num(), hx())
		res := do(op)
		r.Count("sbvote")
		r.Distinct("sbvote " + fmt.Sprint(len(res)/8))
	}
	// ------------------------------------------------------------ struct-level codecs (Go-side oracle only)
	ks := kinds()
	var signHeld [][]byte // sign-bytes results held across later calls (aliasing shows up here)
	var signHeldCopy [][]byte
	boundary := []int{1023, 1024, 1025, 2048, 3072}
	for i := 0; i < r.Scale(400, 6000); i++ {
		k := ks[R.Intn(len(ks))]
		x := k.mk()
		jsonSafe = R.Chance(70)
		saved := *R
		fill(R, reflect.ValueOf(x).Elem(), 0)
		{ // the same value with every time in another zone: both encodings must be byte-identical
			twin := k.mk()
			Rz := saved
			fillZone = time.FixedZone("z", []int{8 * 3600, -5 * 3600, 5*3600 + 1800, 14 * 3600, -12 * 3600, 1}[i%6])
			fill(&Rz, reflect.ValueOf(twin).Elem(), 0)
			fillZone = nil
			zr := vh.Guard(func() string {
				if !bytes.Equal(wire.BinaryBytes(x), wire.BinaryBytes(twin)) {
					return "binary encoding differs"
				}
				if k.name != "State" && !bytes.Equal(wire.JSONBytes(x), wire.JSONBytes(twin)) {
					return "JSON encoding differs: " + string(wire.JSONBytes(twin))
				}
				return "ok"
			})
			r.Count("struct.zone-twin")
			if zr != "ok" && zr != "panic" {
				fail("encoding-depends-on-the-time-zone-of-a-time-value", "the same instant in another time.Location encodes differently ("+k.name+"): "+zr,
					[]string{"go json " + k.name + " " + string(wire.JSONBytes(x))}, zr, "ok")
			}
		}
		if i < 2*len(boundary) { // always: slices whose length sits on the reader's chunk size
			n := boundary[i%len(boundary)]
			if i < len(boundary) {
				d := &types.Data{}
				for j := 0; j < n; j++ {
					d.Txs = append(d.Txs, types.Tx(R.Bytes(R.Intn(3))))
				}
				k, x = ks[7], d
			} else {
				c := &types.Commit{BlockID: types.BlockID{Hash: []byte{1}}}
				c.Precommits = make([]*types.Vote, n)
				c.Precommits[n-1] = &types.Vote{Height: 1, Type: 2}
				k, x = ks[2], c
			}
		}
		res, b1 := binRoundTrip(k, x)
		do("go bin " + k.name + " " + strconv.Itoa(len(b1)))
		r.Count("struct.bin." + k.name)
		if res != "ok" {
			cls := "binary-roundtrip-" + k.name
			if res == "panic" {
				cls = "binary-codec-panics-" + k.name
			}
			fail(cls, "binary wire round trip of a "+k.name+" value fails: "+res, []string{"go bin " + k.name + " " + vh.Hex(b1)}, res, "ok")
		}
		r.Distinct("bin " + k.name + " " + fmt.Sprint(len(b1)/16))
		if k.name != "State" { // State has unexported plumbing JSON cannot rebuild
			if jr := jsonRoundTrip(k, x); jr != "ok" {
				cls := "json-roundtrip-" + k.name
				if !jsonSafe && jr == "re-encoding differs" {
					cls = "json-wire-loses-integers-beyond-2^53"
				}
				if jr == "panic" {
					cls = "json-codec-panics-" + k.name
				}
				fail(cls, "JSON wire round trip of a "+k.name+" value fails: "+jr, []string{"go json " + k.name + " " + string(wire.JSONBytes(x))}, jr, "ok")
			}
		}
		// mutated bytes: never a panic, whatever the limit
		for m := 0; m < 4 && len(b1) > 0; m++ {
			c := append([]byte{}, b1...)
			switch R.Intn(5) {
			case 0:
				c = c[:R.Intn(len(c))]
			case 1:
				c[R.Intn(len(c))] ^= byte(1 << uint(R.Intn(8)))
			case 2:
				p := R.Intn(len(c))
				c = append(append(append([]byte{}, c[:p]...), 0x08, 0x7f, 0xff, 0xff, 0xff, 0xff, 0xff, 0xff, 0xff), c[p:]...) // absurd length prefix
			case 3:
				c[R.Intn(len(c))] = 0xF1
			default:
				c = R.Bytes(R.Intn(40))
			}
			lmt := []int{len(c), 2 * len(c), 1 << 16}[R.Intn(3)]
			if lmt == 0 {
				lmt = 1
			}
			out := vh.Guard(func() string {
				y := k.mk()
				n, err := new(int), new(error)
				wire.ReadBinary(y, bytes.NewReader(c), lmt, n, err)
				if *err != nil {
					return "err"
				}
				return "ok"
			})
			r.Count("struct.mut." + out)
			if out == "panic" {
				fail("binary-decode-panics-"+k.name, "decoding mutated bytes as "+k.name+" panics", []string{"go dec " + k.name + " " + strconv.Itoa(lmt) + " " + vh.Hex(c)}, out, "ok|err")
			}
		}
		// sign bytes: pairs differing in exactly one signed field must differ
		if k.name == "Vote" || k.name == "Proposal" {
			chain := []string{"c", "chain-1", "chain-2", "a\"b"}[R.Intn(4)]
			base := types.SignBytes(chain, x.(types.Signable))
			signHeld = append(signHeld, base)
			signHeldCopy = append(signHeldCopy, append([]byte{}, base...))
			y := k.mk()
			reflect.ValueOf(y).Elem().Set(reflect.ValueOf(x).Elem())
			field := ""
			chain2 := chain
			switch v := y.(type) {
			case *types.Vote:
				switch R.Intn(6) {
				case 0:
					v.Height++
					field = "height"
				case 1:
					v.Round++
					field = "round"
				case 2:
					v.Type ^= 3
					field = "type"
				case 3:
					v.BlockID.Hash = append(append([]byte{}, v.BlockID.Hash...), 1)
					field = "block hash"
				case 4:
					v.BlockID.PartsHeader.Total++
					field = "parts total"
				default:
					chain2 = chain + "x"
					field = "chain id"
				}
			case *types.Proposal:
				switch R.Intn(6) {
				case 0:
					v.Height++
					field = "height"
				case 1:
					v.Round++
					field = "round"
				case 2:
					v.POLRound++
					field = "pol round"
				case 3:
					v.BlockPartsHeader.Hash = append(append([]byte{}, v.BlockPartsHeader.Hash...), 1)
					field = "parts hash"
				case 4:
					v.POLBlockID.Hash = append(append([]byte{}, v.POLBlockID.Hash...), 1)
					field = "pol block hash"
				default:
					chain2 = chain + "x"
					field = "chain id"
				}
			}
			other := types.SignBytes(chain2, y.(types.Signable))
			do("go signbytes " + k.name + " " + strings.Replace(field, " ", "-", -1))
			r.Count("signbytes." + k.name + "." + strings.Replace(field, " ", "-", -1))
			if bytes.Equal(signHeldCopy[len(signHeldCopy)-1], other) {
				fail("sign-bytes-collision", "two "+k.name+"s that differ in "+field+" have the same sign-bytes", []string{"go signbytes " + string(other)}, string(other), "different bytes")
			}
		}
	}
	for i := range signHeld {
		if !bytes.Equal(signHeld[i], signHeldCopy[i]) {
			fail("sign-bytes-changed-after-being-returned", "bytes returned by SignBytes changed when SignBytes was called again (aliasing)", []string{"go signbytes-held " + strconv.Itoa(i)}, string(signHeld[i]), string(signHeldCopy[i]))
			break
		}
	}
}
