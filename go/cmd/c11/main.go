// C11 harness (engine `trie`): the in-tree Merkle Patricia trie (eth/trie) and journalled state
// database (eth/core/state), op by op against the Lean model; every op is also sent to the reference
// implementation (go-ethereum v1.8.27, a separate process: /verif/goref/cmd/c11ref) and the answers
// must be identical.
//
// ops (trie):  new | put <hexkey> <hexval|-> | get <hexkey> | commit | reopen | prove <hexkey>
// ops (state): sdb new | sdb nonce a n | sdb balance a n | sdb code a hex | sdb state a k v |
//
//	sdb create a | sdb suicide a | sdb snapshot | sdb revert id | sdb dump
package main

import (
	"bufio"
	"fmt"
	"io"
	"math/big"
	"os"
	"os/exec"
	"sort"
	"strings"

	"github.com/dappledger/AnnChain/eth/common"
	"github.com/dappledger/AnnChain/eth/core/state"
	"github.com/dappledger/AnnChain/eth/ethdb"
	"github.com/dappledger/AnnChain/eth/trie"

	"verifharness/nodeimpl"
	"verifharness/vh"
)

type impl struct {
	db    *trie.Database
	t     *trie.Trie
	sdb   *state.StateDB
	addrs map[int]bool
	keys  map[int]map[int]bool
}

func unhex(s string) []byte {
	if s == "-" {
		return nil
	}
	b := make([]byte, len(s)/2)
	fmt.Sscanf(s, "%x", &b)
	return b
}

func addr(i int) common.Address { return common.BigToAddress(big.NewInt(int64(1000 + i))) }

func (im *impl) exec(op string) string {
	return vh.Guard(func() string {
		w := strings.Fields(op)
		switch w[0] {
		case "cfg":
			return "ok"
		case "new":
			im.db = trie.NewDatabase(ethdb.NewMemDatabase())
			im.t, _ = trie.New(common.Hash{}, im.db)
			return fmt.Sprintf("%x", im.t.Hash())
		case "put":
			im.t.Update(unhex(w[1]), unhex(w[2]))
			return fmt.Sprintf("%x", im.t.Hash())
		case "get":
			v := im.t.Get(unhex(w[1]))
			if len(v) == 0 {
				return "-"
			}
			return fmt.Sprintf("%x", v)
		case "commit":
			root, err := im.t.Commit(nil)
			if err != nil {
				return "error " + err.Error()
			}
			if err := im.db.Commit(root, false); err != nil {
				return "error " + err.Error()
			}
			return fmt.Sprintf("%x", root)
		case "reopen":
			root := im.t.Hash()
			t2, err := trie.New(root, im.db)
			if err != nil {
				return "error " + err.Error()
			}
			im.t = t2
			return fmt.Sprintf("%x", im.t.Hash())
		case "prove":
			proof := ethdb.NewMemDatabase()
			if err := im.t.Prove(unhex(w[1]), 0, proof); err != nil {
				return "error " + err.Error()
			}
			// the proof's elements (a set keyed by hash), in the order of their hashes
			var nodes []string
			for _, k := range proof.Keys() {
				nodes = append(nodes, fmt.Sprintf("%x", k))
			}
			sort.Strings(nodes)
			ns := " nodes=" + strings.Join(nodes, ",")
			val, _, err := trie.VerifyProof(im.t.Hash(), unhex(w[1]), proof)
			if err != nil {
				return "proof=bad" + ns
			}
			if len(val) == 0 {
				return "proof=ok val=-" + ns
			}
			return fmt.Sprintf("proof=ok val=%x", val) + ns
		case "sdb":
			a := 0
			if len(w) > 2 {
				a = int(nodeimpl.Atoi(w[2]))
			}
			switch w[1] {
			case "new":
				im.sdb, _ = state.New(common.Hash{}, state.NewDatabase(ethdb.NewMemDatabase()))
				im.addrs, im.keys = map[int]bool{}, map[int]map[int]bool{}
				return "ok"
			case "nonce":
				im.addrs[a] = true
				im.sdb.SetNonce(addr(a), uint64(nodeimpl.Atoi(w[3])))
				return "ok"
			case "balance":
				im.addrs[a] = true
				im.sdb.SetBalance(addr(a), big.NewInt(nodeimpl.Atoi(w[3])))
				return "ok"
			case "code":
				im.addrs[a] = true
				im.sdb.SetCode(addr(a), unhex(w[3]))
				return "ok"
			case "state":
				im.addrs[a] = true
				if im.keys[a] == nil {
					im.keys[a] = map[int]bool{}
				}
				im.keys[a][int(nodeimpl.Atoi(w[3]))] = true
				im.sdb.SetState(addr(a), common.BigToHash(big.NewInt(nodeimpl.Atoi(w[3]))), common.BigToHash(big.NewInt(nodeimpl.Atoi(w[4]))))
				return "ok"
			case "create":
				im.addrs[a] = true
				im.sdb.CreateAccount(addr(a))
				return "ok"
			case "suicide":
				im.sdb.Suicide(addr(a))
				return "ok"
			case "root":
				return fmt.Sprintf("root=%x", im.sdb.IntermediateRoot(false))
			case "root1":
				return fmt.Sprintf("root=%x", im.sdb.IntermediateRoot(true))
			case "peek": // reads only: the object is loaded into the cache, nothing is changed
				im.sdb.GetBalance(addr(a))
				im.sdb.GetNonce(addr(a))
				im.sdb.GetCodeSize(addr(a))
				return "ok"
			case "commit1": // what the application does for every block: Commit(deleteEmptyObjects = true)
				root, err := im.sdb.Commit(true)
				if err != nil {
					return "error " + err.Error()
				}
				if err := im.sdb.Database().TrieDB().Commit(root, false); err != nil {
					return "error " + err.Error()
				}
				db := im.sdb.Database()
				im.sdb, err = state.New(root, db)
				if err != nil {
					return "error " + err.Error()
				}
				return fmt.Sprintf("root=%x", root)
			case "commit":
				root, err := im.sdb.Commit(false)
				if err != nil {
					return "error " + err.Error()
				}
				if err := im.sdb.Database().TrieDB().Commit(root, false); err != nil {
					return "error " + err.Error()
				}
				db := im.sdb.Database()
				im.sdb, err = state.New(root, db)
				if err != nil {
					return "error " + err.Error()
				}
				return fmt.Sprintf("root=%x", root)
			case "snapshot":
				return fmt.Sprintf("snap=%d", im.sdb.Snapshot())
			case "revert":
				im.sdb.RevertToSnapshot(int(nodeimpl.Atoi(w[2])))
				return "ok"
			case "dump":
				var as []int
				for a := range im.addrs {
					as = append(as, a)
				}
				sort.Ints(as)
				var out []string
				for _, a := range as {
					if !im.sdb.Exist(addr(a)) {
						continue
					}
					var ks []int
					for k := range im.keys[a] {
						ks = append(ks, k)
					}
					sort.Ints(ks)
					var st []string
					for _, k := range ks {
						v := im.sdb.GetState(addr(a), common.BigToHash(big.NewInt(int64(k)))).Big()
						if v.Sign() != 0 {
							st = append(st, fmt.Sprintf("%d=%d", k, v))
						}
					}
					code := "-"
					if c := im.sdb.GetCode(addr(a)); len(c) > 0 {
						code = fmt.Sprintf("%x", c)
					}
					out = append(out, fmt.Sprintf("%d:n=%d,b=%d,c=%s,s=%v,st=%s", a, im.sdb.GetNonce(addr(a)), im.sdb.GetBalance(addr(a)), code, im.sdb.HasSuicided(addr(a)), strings.Join(st, "/")))
				}
				return "dump " + strings.Join(out, " ")
			}
		}
		return "bad-op"
	})
}

func main() {
	r := vh.Start()
	defer r.Finish()
	im := &impl{}
	// the reference implementation, as a co-process
	var refIn io.WriteCloser
	var refOut *bufio.Reader
	if p := os.Getenv("VERIF_REF"); p != "" {
		cmd := exec.Command(p)
		refIn, _ = cmd.StdinPipe()
		so, _ := cmd.StdoutPipe()
		refOut = bufio.NewReaderSize(so, 1<<20)
		if err := cmd.Start(); err != nil {
			refIn = nil
		}
		defer func() { refIn.Close(); cmd.Wait() }()
	}
	var history []string
	do := func(op string) string {
		res := im.exec(op)
		if strings.HasPrefix(res, "panic") {
			res = "PANIC"
		}
		shown := res
		if strings.HasPrefix(res, "root=") {
			shown = "ok" // the state root is opaque to the Lean model: compared with the reference only
		}
		r.Op(op, shown)
		history = append(history, op)
		if refIn != nil && !strings.HasPrefix(op, "cfg") {
			fmt.Fprintln(refIn, op)
			line, _ := refOut.ReadString('\n')
			if strings.TrimRight(line, "\n") != res {
				r.Fail(vh.Failure{Class: "differs-from-reference-implementation", Detail: "the in-tree trie / state database answers differently from go-ethereum v1.8.27 on the same operations", Ops: append([]string{}, history[1:]...), Got: res, Want: strings.TrimRight(line, "\n")})
			}
			r.Count("ref-compared")
		}
		return res
	}
	if r.Replay != "" {
		for _, l := range vh.ReadLines(r.Replay) {
			do(l)
		}
		return
	}
	do("cfg")
	R := r.R
	fail := func(cls, detail, got, want string) {
		r.Fail(vh.Failure{Class: cls, Detail: detail, Ops: append([]string{}, history[1:]...), Got: got, Want: want})
	}
	seqs := r.Scale(40, 500)
	for s := 0; s < seqs; s++ {
		history = history[:1]
		// ---- the trie: keys with shared prefixes of every length, values of every size
		do("new")
		content := map[string]string{}
		var pool []string
		base := R.Bytes(R.Range(1, 4))
		for i := 0; i < R.Range(2, 10); i++ {
			k := append([]byte{}, base[:R.Intn(len(base)+1)]...)
			k = append(k, R.Bytes(R.Intn(4))...)
			if R.Chance(25) {
				k = append(base, byte(i)) // siblings under one parent
			}
			if R.Chance(10) {
				k = R.Bytes(32) // a hashed key
			}
			if len(k) == 0 {
				k = []byte{byte(i)}
			}
			pool = append(pool, fmt.Sprintf("%x", k))
		}
		val := func() string {
			n := []int{1, 2, 5, 31, 32, 33, 40, 100}[R.Intn(8)]
			return fmt.Sprintf("%x", R.Bytes(n))
		}
		var ops []string
		steps := R.Range(5, 40)
		for k := 0; k < steps; k++ {
			key := pool[R.Intn(len(pool))]
			switch c := R.Intn(100); {
			case c < 50:
				v := val()
				ops = append(ops, "put "+key+" "+v)
				do("put " + key + " " + v)
				content[key] = v
			case c < 70:
				ops = append(ops, "put "+key+" -")
				do("put " + key + " -")
				delete(content, key)
			case c < 85:
				got := do("get " + key)
				want, ok := content[key]
				if !ok {
					want = "-"
				}
				if got != want {
					fail("trie-returns-wrong-value", "get returns another value than the last one stored for the key", got, want)
				}
			case c < 90:
				do("commit")
			case c < 95:
				do("commit")
				do("reopen")
			default:
				got := do("prove " + key)
				if i := strings.Index(got, " nodes="); i >= 0 { // the node set is compared three ways; the oracle judges the verdict
					got = got[:i]
				}
				want, ok := content[key]
				if !ok {
					want = "-"
				}
				if len(content) == 0 && got == "proof=bad" {
					// go-ethereum's VerifyProof cannot verify absence in the EMPTY trie (no node to start
					// from); the reference behaves the same
					r.Fail(vh.Failure{Class: "proof-of-absence-in-the-empty-trie-does-not-verify", Detail: "Prove on an empty trie yields no nodes and VerifyProof reports a missing root node instead of absence", Ops: append([]string{}, history[1:]...), Got: got, Want: "proof=ok val=-"})
				} else if got != "proof=ok val="+want {
					fail("merkle-proof-does-not-verify", "the proof produced for a key does not verify against the root or yields another value", got, "proof=ok val="+want)
				}
			}
		}
		// history independence: the same content inserted in another order gives the same root
		root := do("commit")
		do("new")
		var keys []string
		for k := range content {
			keys = append(keys, k)
		}
		sort.Strings(keys)
		for _, i := range R.Perm(len(keys)) {
			do("put " + keys[i] + " " + content[keys[i]])
		}
		root2 := do("commit")
		if root != root2 {
			fail("root-depends-on-history", "two histories ending in the same content give different roots", root2, root)
		}
		do("reopen")
		for _, k := range keys {
			if got := do("get " + k); got != content[k] {
				fail("reopened-trie-loses-content", "after commit and reopen at the root a key reads differently", got, content[k])
			}
		}
		r.Distinct(fmt.Sprintf("trie keys=%d", len(keys)))
		// ---- the journalled state database: nested snapshots and reverts
		do("sdb new")
		type snap struct {
			id   string
			dump string
		}
		var snaps []snap
		steps = R.Range(10, 50)
		// one world uses one deletion mode throughout, like a node does: Finalise/Commit(false) (plain go-ethereum
		// tests) or Finalise/Commit(true) (what the application does for every transaction and block). Mixing them
		// is not what any caller does (a Commit(false) after a Finalise(true) writes an object back that the
		// Finalise had deleted - the same in the reference).
		del := R.Chance(50)
		rootOp, commitOp := "sdb root", "sdb commit"
		if del {
			rootOp, commitOp = "sdb root1", "sdb commit1"
		}
		if R.Chance(35) {
			// directed: a slot is written and flushed, cleared and flushed, and written back to the value it had
			// (the object's cache of committed slots must follow each flush); the account is kept non-empty
			a, k, v := R.Intn(4), R.Intn(3), R.Range(1, 2)
			do(fmt.Sprintf("sdb nonce %d 1", a))
			do(fmt.Sprintf("sdb state %d %d %d", a, k, v))
			do(rootOp)
			do(fmt.Sprintf("sdb state %d %d 0", a, k))
			do(rootOp)
			do("sdb dump")
			do(fmt.Sprintf("sdb state %d %d %d", a, k, v))
			do("sdb dump")
			do(commitOp)
			do("sdb dump")
		}
		for k := 0; k < steps; k++ {
			a := R.Intn(4)
			switch c := R.Intn(100); {
			case c < 15:
				do(fmt.Sprintf("sdb nonce %d %d", a, R.Intn(5)))
			case c < 30:
				do(fmt.Sprintf("sdb balance %d %d", a, R.Intn(1000)))
			case c < 40:
				do(fmt.Sprintf("sdb code %d %x", a, R.Bytes(R.Range(1, 6))))
			case c < 60:
				do(fmt.Sprintf("sdb state %d %d %d", a, R.Intn(3), R.Intn(3)))
			case c < 67:
				do(fmt.Sprintf("sdb create %d", a))
			case c < 73:
				do(fmt.Sprintf("sdb suicide %d", a))
			case c < 80:
				d := do("sdb dump")
				id := do("sdb snapshot")
				snaps = append(snaps, snap{strings.TrimPrefix(id, "snap="), d})
			case c < 84:
				do(rootOp) // IntermediateRoot finalises: the journal and every snapshot are gone
				snaps = nil
			case c < 87: // commit, reopen at the root: the content must be what it was
				before := do("sdb dump")
				do(commitOp)
				snaps = nil
				if after := do("sdb dump"); !del && after != stripSuicided(before) {
					fail("account-recreated-without-further-change-is-not-committed", "after Commit and reopening the state at the returned root the accounts differ from what the live state showed (CreateAccount over an existing account journals a resetObjectChange, which marks nothing dirty: without a later change the new object is never written)", after, stripSuicided(before))
				}
			case c < 91: // reads, then the application's per-block commit: what was only read must survive it
				for q := R.Range(0, 3); q > 0; q-- {
					do(fmt.Sprintf("sdb peek %d", R.Intn(4)))
				}
				do(commitOp)
				snaps = nil
				do("sdb dump")
			default:
				if len(snaps) > 0 {
					i := R.Intn(len(snaps))
					do("sdb revert " + snaps[i].id)
					if d := do("sdb dump"); d != snaps[i].dump {
						fail("revert-does-not-restore-the-snapshot", "after RevertToSnapshot the accounts differ from what they were when the snapshot was taken", d, snaps[i].dump)
					}
					snaps = snaps[:i]
				}
			}
		}
		do("sdb dump")
		do(rootOp)
		r.Distinct(fmt.Sprintf("sdb steps=%d del=%v", steps/10, del))
	}
}

// Commit deletes the accounts that were suicided
func stripSuicided(dump string) string {
	var out []string
	for _, f := range strings.Fields(dump) {
		if !strings.Contains(f, ",s=true,") {
			out = append(out, f)
		}
	}
	return strings.Join(out, " ")
}
