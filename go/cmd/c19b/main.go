// C19 harness, engine `fifo`: the real FIFO mempool (gemmill/mempool/mempool.go).
//
// ops:  new
//       recv <id>            answers: ok|dup, then the list
//       reap <max|-1>
//       update <id,id,...>   (a committed block with these transactions)
//       flush
//       burst <workers> <id,id,...>   the ids submitted concurrently by <workers> goroutines, each
//                                     goroutine submitting all of them (quiet: judged by oracles)
package main

import (
	"fmt"
	"strings"
	"sync"

	"github.com/spf13/viper"

	"github.com/dappledger/AnnChain/gemmill/mempool"
	gtypes "github.com/dappledger/AnnChain/gemmill/types"

	"verifharness/nodeimpl"
	"verifharness/vh"
)

func txOf(id int64) gtypes.Tx { return gtypes.Tx(fmt.Sprintf("fifo-transaction-%d", id)) }

func main() {
	r := vh.Start()
	defer r.Finish()
	var mem *mempool.Mempool
	var history []string
	ids := func(s string) []int64 {
		var out []int64
		for _, x := range strings.Split(s, ",") {
			if x != "" {
				out = append(out, nodeimpl.Atoi(x))
			}
		}
		return out
	}
	list := func() string {
		var xs []string
		for _, t := range mem.Reap(-1) {
			xs = append(xs, strings.TrimPrefix(string(t), "fifo-transaction-"))
		}
		return "txs=" + strings.Join(xs, ",")
	}
	exec := func(op string) string {
		res := vh.Guard(func() string {
			w := strings.Fields(op)
			switch w[0] {
			case "cfg":
				return "ok"
			case "new":
				conf := viper.New()
				conf.Set("block_size", 1000)
				mem = mempool.NewMempool(conf)
				return "ok " + list()
			case "recv":
				if err := mem.ReceiveTx(txOf(nodeimpl.Atoi(w[1]))); err != nil {
					return "dup " + list()
				}
				return "ok " + list()
			case "reap":
				var xs []string
				for _, t := range mem.Reap(int(nodeimpl.Atoi(w[1]))) {
					xs = append(xs, strings.TrimPrefix(string(t), "fifo-transaction-"))
				}
				return "reap=" + strings.Join(xs, ",")
			case "update":
				var txs []gtypes.Tx
				if len(w) > 1 {
					for _, i := range ids(w[1]) {
						txs = append(txs, txOf(i))
					}
				}
				mem.Update(1, txs)
				return "ok " + list()
			case "flush":
				mem.Flush()
				return "ok " + list()
			case "burst":
				var wg sync.WaitGroup
				for g := 0; g < int(nodeimpl.Atoi(w[1])); g++ {
					wg.Add(1)
					go func() {
						defer wg.Done()
						for _, i := range ids(w[2]) {
							mem.ReceiveTx(txOf(i))
						}
					}()
				}
				wg.Wait()
				return "ok " + list()
			}
			return "bad-op"
		})
		if strings.HasPrefix(res, "panic") {
			res = "PANIC"
		}
		return res
	}
	quiet := false
	do := func(op string) string {
		res := exec(op)
		if quiet {
			r.Op("quiet", "ok")
		} else {
			r.Op(op, res)
		}
		history = append(history, op)
		return res
	}
	if r.Replay != "" {
		for _, l := range vh.ReadLines(r.Replay) {
			do(l)
		}
		return
	}
	do("cfg")
	R := r.R
	seqs := r.Scale(60, 600)
	for s := 0; s < seqs; s++ {
		history = history[:1]
		quiet = false
		do("new")
		fail := func(cls, detail, got, want string) {
			r.Fail(vh.Failure{Class: cls, Detail: detail, Ops: append([]string{}, history[1:]...), Got: got, Want: want})
		}
		committed := map[int64]bool{}
		next := int64(1)
		flushed := false
		judge := func(out string) {
			i := strings.Index(out, "txs=")
			if i < 0 {
				return
			}
			seen := map[int64]bool{}
			for _, x := range ids(out[i+4:]) {
				if seen[x] {
					fail("transaction-offered-twice", fmt.Sprintf("the mempool holds transaction %d twice", x), out, "")
				}
				seen[x] = true
				if committed[x] && !flushed {
					fail("committed-transaction-offered-again", fmt.Sprintf("transaction %d was contained in a committed block and is in the mempool again", x), out, "")
				}
			}
		}
		steps := R.Range(8, 40)
		for k := 0; k < steps; k++ {
			switch c := R.Intn(100); {
			case c < 45:
				id := next
				if next > 1 && R.Chance(35) {
					id = int64(R.Range(1, int(next)-1)) // seen before: held, committed or gossiped back
				} else {
					next++
				}
				judge(do(fmt.Sprintf("recv %d", id)))
				r.Count("recv")
			case c < 60:
				do(fmt.Sprintf("reap %d", []int{-1, 0, 1, 3, 100}[R.Intn(5)]))
			case c < 85: // a block: some of what the mempool offers, and some the node never saw
				var blk []string
				out := do("reap -1")
				for _, x := range ids(strings.TrimPrefix(out, "reap=")) {
					if R.Chance(60) {
						blk = append(blk, fmt.Sprint(x))
						committed[x] = true
					}
				}
				if R.Chance(30) {
					blk = append(blk, fmt.Sprint(next))
					committed[next] = true
					next++
				}
				judge(do("update " + strings.Join(blk, ",")))
				r.Count("update")
			case c < 88:
				do("flush")
				flushed = true // a flush forgets everything, also what was committed (operator action)
			default: // concurrent submitters of overlapping transactions
				quiet = true
				var b []string
				for j := 0; j < R.Range(2, 6); j++ {
					b = append(b, fmt.Sprint(next))
					next++
				}
				out := do(fmt.Sprintf("burst %d %s", R.Range(2, 8), strings.Join(b, ",")))
				judge(out)
				quiet = false
				r.Count("burst")
				// bring the model back in step: it has not seen the burst
				history = history[:1]
				do("new")
				committed = map[int64]bool{}
				flushed = false
			}
		}
		r.Distinct(fmt.Sprintf("steps=%d", steps/5))
	}
}
