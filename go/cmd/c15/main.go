// C15 harness: real types.VoteSet / ValidatorSet.VerifyCommit with real Ed25519 keys.
package main

import (
	"bytes"
	"fmt"
	"sort"
	"strconv"
	"strings"

	"encoding/hex"

	crypto "github.com/dappledger/AnnChain/gemmill/go-crypto"
	"github.com/dappledger/AnnChain/gemmill/types"

	"verifharness/vh"
)

const chainID = "verif-chain"

type impl struct {
	vals   *types.ValidatorSet
	keys   []crypto.PrivKey // sorted like vals
	vs     *types.VoteSet
	h, r   int64
	t      byte
	sigIDs map[string]int
}

func unhex(s string) []byte {
	if s == "-" {
		return []byte{}
	}
	b, err := hex.DecodeString(s)
	if err != nil {
		panic("bad hex " + s)
	}
	return b
}

func atoi(s string) int64 { v, _ := strconv.ParseInt(s, 10, 64); return v }

func bidStr(b types.BlockID) string {
	return fmt.Sprintf("%s/%d/%s", vh.Hex(b.Hash), b.PartsHeader.Total, vh.Hex(b.PartsHeader.Hash))
}

func (im *impl) digest() string {
	m := "-"
	if b, ok := im.vs.TwoThirdsMajority(); ok {
		m = bidStr(b)
	}
	ba := im.vs.BitArray()
	var sb strings.Builder
	sum := int64(0)
	for i := 0; i < im.vals.Size(); i++ {
		if ba.GetIndex(i) {
			sb.WriteByte('1')
			_, v := im.vals.GetByIndex(i)
			sum += v.VotingPower
		} else {
			sb.WriteByte('0')
		}
	}
	// NOTE: `sum` is not exported; HasTwoThirdsAny/HasAll expose it. The bit-derived sum is what
	// "each validator's power counts once" means; HasAll compares the internal sum with the total.
	return fmt.Sprintf("maj=%s sum=%d any=%s all=%s bits=%s", m, sum, vh.B01(im.vs.HasTwoThirdsAny()), vh.B01(im.vs.HasAll()), sb.String())
}

// sign: spec "k.salt": validator k's key signs the vote; salt != 0 flips a byte of the signature.
func (im *impl) mkVote(idx int, addr []byte, h, r int64, t byte, bid types.BlockID, spec string) (*types.Vote, int, bool) {
	v := &types.Vote{ValidatorAddress: addr, ValidatorIndex: idx, Height: h, Round: r, Type: t, BlockID: bid}
	parts := strings.Split(spec, ".")
	k, _ := strconv.Atoi(parts[0])
	salt, _ := strconv.Atoi(parts[1])
	signed := v
	if salt == 1000 { // a signature lifted from the same validator's vote for the block id `hash,1,bb`: same header hash, other parts
		c := *v
		c.BlockID.PartsHeader = types.PartSetHeader{Total: 1, Hash: []byte{0xbb}}
		signed, salt = &c, 0
	}
	sig := im.keys[k%len(im.keys)].Sign(types.SignBytes(chainID, signed)).(crypto.SignatureEd25519)
	if salt != 0 {
		sig[salt%len(sig)] ^= 0x40
	}
	v.Signature = sig
	key := string(sig[:])
	id, ok := im.sigIDs[key]
	if !ok {
		id = len(im.sigIDs) + 1
		im.sigIDs[key] = id
	}
	sigok := false
	if idx >= 0 && idx < im.vals.Size() {
		_, val := im.vals.GetByIndex(idx)
		sigok = val.PubKey.VerifyBytes(types.SignBytes(chainID, v), v.Signature)
	}
	return v, id, sigok
}

func classify(err error) string {
	if err == nil {
		return "ok"
	}
	s := err.Error()
	switch {
	case strings.Contains(s, "wrong set size"):
		return "size"
	case strings.Contains(s, "wrong height"):
		return "height"
	case strings.Contains(s, "wrong round"):
		return "pround"
	case strings.Contains(s, "not precommit"):
		return "ptype"
	case strings.Contains(s, "invalid signature"):
		return "sig"
	case strings.Contains(s, "insufficient voting power"):
		return "power"
	}
	return "err?"
}

// exec runs one op; returns the line the model must see and the implementation's answer.
func (im *impl) exec(line string) (string, string) {
	w := strings.Fields(line)
	model := line
	res := vh.Guard(func() string {
		switch w[0] {
		case "cfg":
			return "ok"
		case "new":
			// new h r t addr:power ...   (addresses must be those of generated keys: replay regenerates keys deterministically)
			im.h, im.r, im.t = atoi(w[1]), atoi(w[2]), byte(atoi(w[3]))
			im.vs = types.NewVoteSet(chainID, im.h, im.r, im.t, im.vals)
			im.sigIDs = map[string]int{}
			return "ok"
		case "vote":
			bid := types.BlockID{Hash: unhex(w[6]), PartsHeader: types.PartSetHeader{Total: int(atoi(w[7])), Hash: unhex(w[8])}}
			if w[6] == "-" {
				bid.Hash = nil
			}
			if w[8] == "-" {
				bid.PartsHeader.Hash = nil
			}
			v, id, sigok := im.mkVote(int(atoi(w[1])), unhex(w[2]), atoi(w[3]), atoi(w[4]), byte(atoi(w[5])), bid, w[9])
			model = strings.Join(w[:10], " ") + fmt.Sprintf(" %d %s", id, vh.B01(sigok))
			added, err := im.vs.AddVote(v)
			out := ""
			switch {
			case err == nil && added:
				out = "added"
			case err == nil:
				out = "dup"
			case err == types.ErrVoteInvalidValidatorIndex:
				out = "errIndex"
			case err == types.ErrVoteInvalidValidatorAddress:
				out = "errAddr"
			case err == types.ErrVoteInvalidSignature:
				out = "errSig"
			default:
				if _, ok := err.(*types.ErrVoteConflictingVotes); ok {
					out = "conflict" + vh.B01(added)
				} else if strings.Contains(err.Error(), types.ErrVoteUnexpectedStep.Error()) {
					out = "errStep"
				} else {
					out = "err?"
				}
			}
			return out + " " + im.digest()
		case "peer":
			bid := types.BlockID{Hash: unhex(w[2]), PartsHeader: types.PartSetHeader{Total: int(atoi(w[3])), Hash: unhex(w[4])}}
			im.vs.SetPeerMaj23(w[1], bid)
			return "ok " + im.digest()
		case "commit":
			if _, ok := im.vs.TwoThirdsMajority(); !ok {
				return "nomaj"
			}
			c := im.vs.MakeCommit()
			return classify(im.vals.VerifyCommit(chainID, c.BlockID, im.h, c))
		case "verifyc":
			bid := types.BlockID{Hash: unhex(w[1]), PartsHeader: types.PartSetHeader{Total: int(atoi(w[2])), Hash: unhex(w[3])}}
			h := atoi(w[4])
			c := &types.Commit{BlockID: bid}
			var slots []string
			for pos, sl := range w[5:] {
				if sl == "-" {
					c.Precommits = append(c.Precommits, nil)
					slots = append(slots, "-")
					continue
				}
				f := strings.Split(sl, ",")
				vb := types.BlockID{Hash: unhex(f[5]), PartsHeader: types.PartSetHeader{Total: int(atoi(f[6])), Hash: unhex(f[7])}}
				v, id, _ := im.mkVote(int(atoi(f[0])), unhex(f[1]), atoi(f[2]), atoi(f[3]), byte(atoi(f[4])), vb, f[8])
				// VerifyCommit checks the signature under the validator at POSITION pos
				ok := false
				if pos < im.vals.Size() {
					_, val := im.vals.GetByIndex(pos)
					ok = val.PubKey.VerifyBytes(types.SignBytes(chainID, v), v.Signature)
				}
				c.Precommits = append(c.Precommits, v)
				slots = append(slots, strings.Join(f[:9], ",")+fmt.Sprintf(",%d,%s", id, vh.B01(ok)))
			}
			model = strings.Join(w[:5], " ") + " " + strings.Join(slots, " ")
			return classify(im.vals.VerifyCommit(chainID, bid, h, c))
		}
		return "bad-op"
	})
	if strings.HasPrefix(res, "panic") {
		res = "panic"
	}
	return strings.TrimRight(model, " "), res
}

// deterministic keys: validator set is a function of (n, powers) only, so replays rebuild it
func (im *impl) setup(powers []int64) string {
	type kv struct {
		k crypto.PrivKey
		v *types.Validator
	}
	var l []kv
	for i, p := range powers {
		var seed [32]byte
		copy(seed[:], fmt.Sprintf("verif-validator-%d", i))
		k := crypto.GenPrivKeyEd25519FromSecret(seed[:])
		l = append(l, kv{k, types.NewValidator(k.PubKey(), p, false)})
	}
	sort.Slice(l, func(i, j int) bool { return bytes.Compare(l[i].v.Address, l[j].v.Address) < 0 })
	vals := make([]*types.Validator, len(l))
	im.keys = nil
	var sb strings.Builder
	for i, e := range l {
		vals[i] = e.v
		im.keys = append(im.keys, e.k)
		fmt.Fprintf(&sb, " %s:%d", vh.Hex(e.v.Address), e.v.VotingPower)
	}
	im.vals = buildSet(vals)
	return sb.String()
}

// buildSet: the validator set with exactly this content. Every other set (by the sum of the powers)
// is built the way the chain builds the set in force after a block with validator changes
// (AdminOp.updateValidators): from an earlier set, by Add and Update - with no read in between.
// A set is a function of its content (C16), so vote accounting must not see the difference.
func buildSet(vals []*types.Validator) *types.ValidatorSet {
	var sum int64
	for _, v := range vals {
		sum += v.VotingPower
	}
	if len(vals) < 2 || sum%2 == 0 {
		return types.NewValidatorSet(vals)
	}
	last := len(vals) - 1
	var earlier []*types.Validator
	for _, v := range vals[:last] {
		earlier = append(earlier, v.Copy())
	}
	earlier[0].VotingPower += 3
	set := types.NewValidatorSet(earlier)
	if !set.Add(vals[last].Copy()) || !set.Update(vals[0].Copy()) {
		panic("buildSet: Add/Update refused")
	}
	return set
}

func main() {
	r := vh.Start()
	defer r.Finish()
	im := &impl{}
	do := func(op string) string {
		m, res := im.exec(op)
		r.Op(m, res)
		return res
	}
	if r.Replay != "" {
		for _, l := range vh.ReadLines(r.Replay) {
			w := strings.Fields(l)
			if w[0] == "new" {
				var ps []int64
				for _, x := range w[4:] {
					ps = append(ps, atoi(strings.Split(x, ":")[1]))
				}
				// powers are listed in address order; setup() sorts by address of key i, so recover the key order
				im.setupSorted(ps)
			}
			do(l)
		}
		return
	}
	do("cfg keyLenPrefixed=1 idxCheck=1 nilCommit=1")
	directed(r, im, do)
	streams := r.Scale(300, 2500)
	for s := 0; s < streams; s++ {
		genStream(r, im, do)
	}
	directedNil(r, im, do) // after the random streams (their stream stays what it was)
}

// directed: the streams every run contains, whatever the seed. An equivocating validator whose vote
// for the majority block is admitted only through a peer's +2/3 claim, with its power needed for the
// quorum and the quorum crossed by somebody else's vote: the commit assembled from the reported
// majority must still verify (every vote of the block, not only the crossing one, has to be copied
// over the first-seen votes).
func directed(r *vh.Run, im *impl, do func(string) string) {
	for _, n := range []int{4, 5, 7} {
		for _, late := range []bool{false, true} {
			powers := make([]int64, n)
			for i := range powers {
				powers[i] = 1
			}
			vs := im.setup(powers)
			addr := func(i int) string { a, _ := im.vals.GetByIndex(i); return vh.Hex(a) }
			newOp := fmt.Sprintf("new 5 0 2%s", vs)
			ops := []string{newOp}
			need := n*2/3 + 1 // votes needed for more than 2/3
			// validator 0 first votes X, a peer claims +2/3 for B, validator 0's vote for B comes in
			ops = append(ops, fmt.Sprintf("vote 0 %s 5 0 2 cc 2 dd 0.0", addr(0)))
			if late { // some votes for B before the claim
				ops = append(ops, fmt.Sprintf("vote 1 %s 5 0 2 aa 1 bb 1.0", addr(1)))
			}
			ops = append(ops, "peer p0 aa 1 bb", fmt.Sprintf("vote 0 %s 5 0 2 aa 1 bb 0.0", addr(0)))
			for i := 1; i < need; i++ { // the others: the last of them crosses the quorum
				if late && i == 1 {
					continue
				}
				ops = append(ops, fmt.Sprintf("vote %d %s 5 0 2 aa 1 bb %d.0", i, addr(i), i))
			}
			ops = append(ops, "commit")
			res := ""
			for _, op := range ops {
				res = do(op)
			}
			r.Count("directed.commit." + res)
			r.Distinct(fmt.Sprintf("directed n=%d late=%v", n, late))
			if res != "ok" {
				r.Fail(vh.Failure{Class: "commit-from-majority-fails-verification", Detail: "an equivocator's vote for the majority block was admitted through a peer's +2/3 claim and is needed for the quorum: MakeCommit of the reported majority does not pass VerifyCommit", Ops: ops, Got: res, Want: "ok"})
			}
		}
	}
}

// directedNil: precommits for nil justify no block. A round that failed left +2/3 genuine precommits
// for nil behind; a peer offers them as the commit of a block whose id has NO header hash (a header
// without validators hash does not hash) but a part-set header of its own choosing. They are votes for
// nil, not for that block.
func directedNil(r *vh.Run, im *impl, do func(string) string) {
	for _, n := range []int{1, 4, 7} {
		powers := make([]int64, n)
		for i := range powers {
			powers[i] = 1 + int64(i%2)
		}
		vs := im.setup(powers)
		addr := func(i int) string { a, _ := im.vals.GetByIndex(i); return vh.Hex(a) }
		newOp := fmt.Sprintf("new 5 0 2%s", vs)
		do(newOp)
		var slots []string
		for i := 0; i < n; i++ {
			slots = append(slots, fmt.Sprintf("%d,%s,5,0,2,-,0,-,%d.0", i, addr(i), i))
		}
		for _, bid := range []string{"- 1 bb", "- 3 cafe"} {
			op := fmt.Sprintf("verifyc %s 5 %s", bid, strings.Join(slots, " "))
			res := do(op)
			r.Count("directed.nil-precommits-for-a-hashless-block-id." + res)
			if res == "ok" {
				r.Fail(vh.Failure{Class: "precommits-for-nil-justify-a-block", Detail: "VerifyCommit accepts genuine precommits for nil as the commit of a block id without header hash but with a part-set header: votes for nil justify no block", Ops: []string{newOp, op}, Got: res, Want: "an error"})
			}
		}
	}
}

// setupSorted: powers given in ADDRESS order (as printed in a `new` line).
func (im *impl) setupSorted(ps []int64) {
	n := len(ps)
	tmp := make([]int64, n)
	im.setup(tmp) // find the address order of keys 0..n-1
	// im.keys[i] is the key at address position i; recover which generated index it was
	idxOf := map[string]int{}
	for i := 0; i < n; i++ {
		var seed [32]byte
		copy(seed[:], fmt.Sprintf("verif-validator-%d", i))
		k := crypto.GenPrivKeyEd25519FromSecret(seed[:])
		idxOf[string(k.PubKey().Address())] = i
	}
	orig := make([]int64, n)
	for pos, k := range im.keys {
		orig[idxOf[string(k.PubKey().Address())]] = ps[pos]
	}
	im.setup(orig)
}

type ledger struct {
	// valid votes seen per validator position: block-id string -> true
	valid      map[int]map[string]bool
	firstMaj   string
	equivocate bool
}

func genStream(r *vh.Run, im *impl, do func(string) string) {
	R := r.R
	n := R.Range(1, 9)
	powers := make([]int64, n)
	mode := R.Intn(6)
	for i := range powers {
		switch mode {
		case 0:
			powers[i] = 1
		case 1:
			powers[i] = int64(R.Range(1, 10))
		case 2:
			powers[i] = int64(R.Range(1, 3))
		case 3: // one big validator
			powers[i] = 1
			if i == 0 {
				powers[i] = int64(2*n + R.Range(-2, 2))
				if powers[i] < 1 {
					powers[i] = 1
				}
			}
		case 4: // near the overflow boundary: total*2 must fit int64
			powers[i] = (1 << 61) / int64(n)
		default:
			powers[i] = int64(R.Range(1, 1000))
		}
	}
	vs := im.setup(powers)
	h, rd := int64(R.Range(1, 5)), int64(R.Range(0, 3))
	t := byte(R.Range(1, 2))
	do(fmt.Sprintf("new %d %d %d%s", h, rd, t, vs))
	r.Count(fmt.Sprintf("valset.n=%d", n))
	r.Count(fmt.Sprintf("valset.powermode=%d", mode))
	total := int64(0)
	for i := 0; i < n; i++ {
		_, v := im.vals.GetByIndex(i)
		total += v.VotingPower
	}
	// candidate block ids, incl. nil, a pair whose as-found keys collide, and same-hash/different-parts
	bids := []string{"- 0 -", "aa 1 bb", "cc 2 dd", "- 1 00", "0101 1 -", "aa 1 bc", "aa 2 bb"}
	nb := R.Range(1, len(bids))
	led := &ledger{valid: map[int]map[string]bool{}}
	addr := func(i int) string {
		if i >= 0 && i < n {
			a, _ := im.vals.GetByIndex(i)
			return vh.Hex(a)
		}
		return "0102"
	}
	nops := R.Range(n, 4*n+6)
	prevMaj := ""
	var history []string
	for k := 0; k < nops; k++ {
		i := R.Intn(n)
		b := bids[R.Intn(nb)]
		if R.Chance(55) && len(led.valid[i]) > 0 { // mostly consistent voters
			for x := range led.valid[i] {
				b = x
				break
			}
		}
		kind := "valid"
		vi, va, vhh, vr, vt, spec := i, addr(i), h, rd, t, fmt.Sprintf("%d.0", i)
		switch c := R.Intn(100); {
		case c < 62:
		case c < 68:
			kind, spec = "badsig-tamper", fmt.Sprintf("%d.%d", i, R.Range(1, 60))
		case c < 73:
			kind, spec = "badsig-otherkey", fmt.Sprintf("%d.0", (i+1)%n)
			if n == 1 {
				kind = "valid"
			}
		case c < 77:
			kind, va = "wrongaddr", addr((i+1)%n)
			if n == 1 {
				va = "0102"
			}
		case c < 80:
			kind, va = "emptyaddr", "-"
		case c < 84:
			kind = "idx-out"
			vi = []int{-1, n, n + 1, 1 << 40, -(1 << 40)}[R.Intn(5)]
		case c < 88:
			kind, vhh = "wrongheight", h+int64(R.Range(1, 2))
		case c < 92:
			kind, vr = "wronground", rd+1
		case c < 95:
			kind, vt = "wrongtype", 3-t
		default:
			kind = "peerclaim"
		}
		r.Count("op." + kind)
		if kind == "peerclaim" {
			op := fmt.Sprintf("peer p%d %s", R.Intn(4), b)
			history = append(history, op)
			do(op)
			continue
		}
		op := fmt.Sprintf("vote %d %s %d %d %d %s %s", vi, va, vhh, vr, vt, b, spec)
		history = append(history, op)
		res := do(op)
		out := strings.Fields(res)[0]
		// ---------------------------------------------------------------- oracle (the property)
		fail := func(cls, detail, want string) {
			ops := append([]string{fmt.Sprintf("new %d %d %d%s", h, rd, t, vs)}, history...)
			r.Fail(vh.Failure{Class: cls, Detail: detail, Ops: ops, Got: res, Want: want})
		}
		if out == "panic" {
			fail("addvote-panics-on-"+kind, "VoteSet.AddVote panics on a "+kind+" vote", "an error")
			// the real VoteSet may be left locked after a panic inside AddVote: start a fresh one
			return
		}
		if kind == "valid" {
			if led.valid[i] == nil {
				led.valid[i] = map[string]bool{}
			}
			if len(led.valid[i]) > 0 && !led.valid[i][b] {
				led.equivocate = true
				if !strings.HasPrefix(out, "conflict") {
					fail("conflicting-vote-not-reported", "a validly signed vote conflicting with an earlier one is not reported as conflicting", "conflict*")
				}
			}
			led.valid[i][b] = true
		} else if out == "added" || strings.HasPrefix(out, "conflict") {
			fail("invalid-vote-counted-"+kind, "a vote that is "+kind+" was accepted/counted", "an error")
		}
		// recount distinct valid signers per block id
		power := map[string]int64{}
		for pos, m := range led.valid {
			_, v := im.vals.GetByIndex(pos)
			for x := range m {
				power[x] += v.VotingPower
			}
		}
		maj := ""
		for _, f := range strings.Fields(res) {
			if strings.HasPrefix(f, "maj=") {
				maj = strings.TrimPrefix(f, "maj=")
			}
		}
		if maj != "-" && maj != "" {
			mb := strings.Replace(maj, "/", " ", -1)
			if power[mb]*3 <= total*2 {
				fail("majority-reported-without-two-thirds-for-that-block", fmt.Sprintf("a 2/3 majority is reported for %s but distinct valid signers of exactly that block hold %d of %d", maj, power[mb], total), "maj=-")
			}
		}
		if prevMaj != "" && prevMaj != "-" && maj != prevMaj {
			fail("reported-majority-changed", "a reported majority changed or disappeared", "maj="+prevMaj)
		}
		if maj == "-" && !led.equivocate {
			for x, p := range power {
				if p*3 > total*2 {
					fail("majority-not-reported", fmt.Sprintf("distinct valid signers of %s hold %d of %d (> 2/3), nobody equivocated, yet no majority is reported", x, p, total), "maj="+x)
				}
			}
		}
		prevMaj = maj
		r.Distinct(fmt.Sprintf("n=%d mode=%d kind=%s out=%s maj=%v", n, mode, kind, out, maj != "-"))
	}
	// directed: once a block has its majority, a validator that voted for something else equivocates with a
	// validly signed vote for the majority block, and that vote is delivered again (gossip does that)
	if prevMaj != "" && prevMaj != "-" {
		mb := strings.Replace(prevMaj, "/", " ", -1)
		for i := 0; i < n; i++ {
			if len(led.valid[i]) == 0 || led.valid[i][mb] {
				continue
			}
			op := fmt.Sprintf("vote %d %s %d %d %d %s %d.0", i, addr(i), h, rd, t, mb, i)
			for rep := 0; rep < 2; rep++ {
				history = append(history, op)
				res := do(op)
				r.Count("op.equivocate-for-majority")
				if strings.Fields(res)[0] == "panic" {
					ops := append([]string{fmt.Sprintf("new %d %d %d%s", h, rd, t, vs)}, history...)
					r.Fail(vh.Failure{Class: "addvote-panics-on-redelivered-vote", Detail: "VoteSet.AddVote panics when a validly signed conflicting vote for the block that has the majority is delivered a second time", Ops: ops, Got: res, Want: "a duplicate"})
					return
				}
			}
			led.valid[i][mb] = true
			break
		}
	}
	if t == 2 {
		res := do("commit")
		if res != "nomaj" && res != "ok" {
			ops := append([]string{fmt.Sprintf("new %d %d %d%s", h, rd, t, vs)}, history...)
			r.Fail(vh.Failure{Class: "commit-from-majority-fails-verification", Detail: "MakeCommit of a reported majority does not pass VerifyCommit", Ops: append(ops, "commit"), Got: res, Want: "ok"})
		}
		r.Count("commit." + res)
	}
	// explicit commits: single-field tamperings
	if R.Chance(40) {
		genVerifyCommit(r, im, do, h, rd, n, total, fmt.Sprintf("new %d %d %d%s", h, rd, t, vs))
	}
}

func genVerifyCommit(r *vh.Run, im *impl, do func(string) string, h, rd int64, n int, total int64, newOp string) {
	R := r.R
	b := "aa 1 bb"
	bc := "aa,1,bb"
	slots := make([]string, n)
	signed := int64(0)
	addr := func(i int) string { a, _ := im.vals.GetByIndex(i); return vh.Hex(a) }
	for i := 0; i < n; i++ {
		if R.Chance(80) {
			slots[i] = fmt.Sprintf("%d,%s,%d,%d,2,%s,%d.0", i, addr(i), h, rd, bc, i)
			_, v := im.vals.GetByIndex(i)
			signed += v.VotingPower
		} else {
			slots[i] = "-"
		}
	}
	base := fmt.Sprintf("verifyc %s %d %s", b, h, strings.Join(slots, " "))
	res := do(base)
	want := "power"
	if signed*3 > total*2 {
		want = "ok"
	}
	if signed == 0 {
		want = "height" // all-nil commit: Height() is 0
	}
	if !strings.Contains(want, res) {
		r.Fail(vh.Failure{Class: "verifycommit-wrong-verdict", Detail: "VerifyCommit verdict differs from the recount", Ops: []string{newOp, base}, Got: res, Want: want})
	}
	if res == "panic" {
		r.Fail(vh.Failure{Class: "verifycommit-panics-on-all-nil-commit", Detail: "VerifyCommit panics (nil FirstPrecommit) on a commit whose precommits are all nil", Ops: []string{newOp, base}, Got: res, Want: "an error"})
	}
	r.Count("verifyc.base." + res)
	// tamper one slot
	i := R.Intn(n)
	if slots[i] == "-" {
		return
	}
	muts := map[string]string{
		"height":   fmt.Sprintf("%d,%s,%d,%d,2,%s,%d.0", i, addr(i), h+1, rd, bc, i),
		"round":    fmt.Sprintf("%d,%s,%d,%d,2,%s,%d.0", i, addr(i), h, rd+1, bc, i),
		"type":     fmt.Sprintf("%d,%s,%d,%d,1,%s,%d.0", i, addr(i), h, rd, bc, i),
		"sig":      fmt.Sprintf("%d,%s,%d,%d,2,%s,%d.7", i, addr(i), h, rd, bc, i),
		"otherkey": fmt.Sprintf("%d,%s,%d,%d,2,%s,%d.0", i, addr(i), h, rd, bc, (i+1)%n),
		"otherbid": fmt.Sprintf("%d,%s,%d,%d,2,%s,%d.0", i, addr(i), h, rd, "cc,2,dd", i),
		"nilbid":   fmt.Sprintf("%d,%s,%d,%d,2,%s,%d.0", i, addr(i), h, rd, "-,0,-", i),
		// the vote names another part set of the same header hash and carries the signature of the genuine vote
		"relabel": fmt.Sprintf("%d,%s,%d,%d,2,%s,%d.1000", i, addr(i), h, rd, "aa,2,cc", i),
		// two fields at once: a precommit that does not count for the block AND does not verify
		"nilbid-badsig":   fmt.Sprintf("%d,%s,%d,%d,2,%s,%d.7", i, addr(i), h, rd, "-,0,-", i),
		"otherbid-badsig": fmt.Sprintf("%d,%s,%d,%d,2,%s,%d.9", i, addr(i), h, rd, "cc,2,dd", i),
	}
	names := []string{"height", "round", "type", "sig", "otherkey", "otherbid", "nilbid", "relabel", "relabel", "nilbid-badsig", "otherbid-badsig"}
	nm := names[R.Intn(len(names))]
	first := 0
	for first < n && slots[first] == "-" {
		first++
	}
	if (nm == "round" && i == first) || (nm == "otherkey" && n == 1) {
		nm = "sig" // the first precommit defines the commit's round; one validator has no other key
	}
	s2 := append([]string{}, slots...)
	s2[i] = muts[nm]
	op := fmt.Sprintf("verifyc %s %d %s", b, h, strings.Join(s2, " "))
	res2 := do(op)
	r.Count("verifyc.mut." + nm + "." + res2)
	if strings.HasSuffix(nm, "-badsig") && res2 == "ok" {
		r.Fail(vh.Failure{Class: "verifycommit-accepts-unverifiable-precommit", Detail: "VerifyCommit accepts a commit that carries a precommit (for nil / for another block) whose signature does not verify under the key of its slot: the stored commit is not verifiable slot by slot", Ops: []string{newOp, op}, Got: res2, Want: "an error"})
	}
	_, v := im.vals.GetByIndex(i)
	rest := signed - v.VotingPower
	if res2 == "ok" && rest*3 <= total*2 {
		r.Fail(vh.Failure{Class: "verifycommit-accepts-tampered-" + nm, Detail: "VerifyCommit accepts a commit that reaches 2/3 only by counting a tampered precommit", Ops: []string{newOp, op}, Got: res2, Want: "an error"})
	}
	// every slot behind the first genuine precommit relabelled (same header hash, other parts, lifted signatures):
	// the commit then proves the first validator's vote only
	if first < n {
		s3 := append([]string{}, slots...)
		for j := first + 1; j < n; j++ {
			if slots[j] != "-" {
				s3[j] = fmt.Sprintf("%d,%s,%d,%d,2,%s,%d.1000", j, addr(j), h, rd, "aa,2,cc", j)
			}
		}
		op3 := fmt.Sprintf("verifyc %s %d %s", b, h, strings.Join(s3, " "))
		res3 := do(op3)
		r.Count("verifyc.relabel-all." + res3)
		_, v0 := im.vals.GetByIndex(first)
		if res3 == "ok" && v0.VotingPower*3 <= total*2 {
			r.Fail(vh.Failure{Class: "verifycommit-accepts-relabelled-precommits", Detail: "VerifyCommit accepts a commit in which all precommits but one name another part set than the one they were signed for", Ops: []string{newOp, op3}, Got: res3, Want: "an error"})
		}
	}
	// extra: wrong size, wrong commit height
	if R.Chance(30) {
		do(fmt.Sprintf("verifyc %s %d %s -", b, h, strings.Join(slots, " ")))
		do(fmt.Sprintf("verifyc %s %d %s", b, h+1, strings.Join(slots, " ")))
	}
}
