// C06 correspondence harness: crash-atomic commit.
//
// The node under test is the real one (go/cmd/c06node: core.NewNode - real Angine, pbft consensus on
// its own timers, EVM application, LevelDB stores, WAL, signer file) in its own process. A reference
// run commits a planned chain (contract creation and transfers, contract calls and a key-value
// transaction, empty blocks, a validator-power change through the governance contract) and records
// every durable write it issues. Then, for crash points chosen over that sequence, a fresh copy of
// the runtime is run until the process dies (os.Exit, nothing flushed) immediately before the j-th
// write counted from the first write of SaveBlock(h); what is durable is inspected; the node is
// restarted (optionally dying again during its recovery) until it has reconciled itself, inspected
// again, and then run to the end of the plan. Checked on the real thing: restart needs no operator,
// store / state / application agree on one height and on its hashes, blocks readable before are
// unchanged, every planned transaction took effect exactly once (final nonces and state root equal
// the reference run's), re-execution of the stored chain on a fresh application reproduces every
// recorded hash. The Lean model (Model/Crash.lean) replays the recorded write sequence and predicts,
// for every crash point, what is durable and whether start-up reconciliation succeeds.
package main

import (
	"encoding/json"
	"fmt"
	"io/ioutil"
	"net"
	"os"
	"os/exec"
	"path/filepath"
	"strings"
	"time"

	"verifharness/nodeimpl"
	"verifharness/vh"
)

type blockInfo struct {
	Height     int64  `json:"h"`
	Hash       string `json:"hash"`
	AppHash    string `json:"app"`
	Receipts   string `json:"rec"`
	NumTxs     int    `json:"ntx"`
	SeenCommit bool   `json:"seen"`
	Parts      bool   `json:"parts"`
}

type report struct {
	StoreHeight int64       `json:"store_height"`
	Blocks      []blockInfo `json:"blocks"`
	StateHeight int64       `json:"state_height"`
	StateApp    string      `json:"state_app"`
	StateRec    string      `json:"state_rec"`
	StateLastID string      `json:"state_last_id"`
	StateVals   string      `json:"state_vals"`
	HasInterm   bool        `json:"has_intermediate"`
	AppHeight   int64       `json:"app_height"`
	AppHash     string      `json:"app_hash"`
	AppOpens    bool        `json:"app_opens"`
	AppErr      string      `json:"app_err"`
	Nonces      []uint64    `json:"nonces"`
	Err         string      `json:"err"`
}

type reexecReport struct {
	Heights  int64    `json:"heights"`
	Mismatch []string `json:"mismatch"`
	FinalApp string   `json:"final_app"`
	Err      string   `json:"err"`
}

type env struct {
	r     *vh.Run
	node  string // path of the c06node binary
	root  string
	base  string
	plan  string
	upto  int64
	ref   report
	win   map[int64][]string // durable writes from the first write of SaveBlock(h) to the one before SaveBlock(h+1)
	lines []string
}

func freePort() int {
	l, err := net.Listen("tcp", "127.0.0.1:0")
	if err != nil {
		return 46656
	}
	defer l.Close()
	return l.Addr().(*net.TCPAddr).Port
}

// child runs c06node; returns exit code and the tail of its stderr
func (e *env) child(timeout time.Duration, args ...string) (int, string) {
	args = append(args, "-port", fmt.Sprint(freePort()))
	cmd := exec.Command(e.node, args...)
	var errb strings.Builder
	cmd.Stderr = &errb
	done := make(chan error, 1)
	if err := cmd.Start(); err != nil {
		return -1, err.Error()
	}
	go func() { done <- cmd.Wait() }()
	select {
	case err := <-done:
		code := 0
		if err != nil {
			code = -1
			if ee, ok := err.(*exec.ExitError); ok {
				code = ee.ExitCode()
			}
		}
		s := errb.String()
		if i := strings.Index(s, "panic:"); i >= 0 {
			s = s[i:]
		}
		if len(s) > 400 {
			s = s[:400]
		}
		return code, strings.Split(strings.TrimSpace(s), "\n")[0]
	case <-time.After(timeout):
		cmd.Process.Kill()
		<-done
		return -2, "timeout"
	}
}

func (e *env) out(args ...string) []byte {
	cmd := exec.Command(e.node, args...)
	b, _ := cmd.Output()
	return b
}

func (e *env) inspect(dir string) report {
	var r report
	if err := json.Unmarshal(e.out("-dir", dir, "-inspect"), &r); err != nil {
		r.Err = "inspect: " + err.Error()
	}
	return r
}

func (e *env) reexec(dir string) reexecReport {
	var r reexecReport
	if err := json.Unmarshal(e.out("-dir", dir, "-reexec"), &r); err != nil {
		r.Err = "reexec: " + err.Error()
	}
	return r
}

func copyDir(src, dst string) {
	os.RemoveAll(dst)
	if out, err := exec.Command("cp", "-r", src, dst).CombinedOutput(); err != nil {
		panic(fmt.Sprintf("cp: %v %s", err, out))
	}
}

func (e *env) emit(model, tail, res string) {
	line := model + " | " + tail
	e.r.Op(line, res)
	e.lines = append(e.lines, line)
}

func triple(r report) string {
	return fmt.Sprintf("%d,%d,%d", r.StoreHeight, r.StateHeight, r.AppHeight)
}

// plans: one line per height, transactions separated by ';'
var plans = map[string]string{
	"mixed": "create 0 0; transfer 1 0 2\ncall 0 1 0 0; call 1 1 0 0; kv 2 0 alpha one\n-\npower 2 1 150\n-\n",
	"evm":   "create 0 0\ncall 1 0 0 0; call 2 0 0 0; call 0 1 0 0\ntransfer 1 1 2; transfer 2 1 0\n",
	"kv":    "kv 0 0 k1 v1; kv 1 0 k2 v2\nkv 0 1 k1 v3\n-\n",
	"power": "power 0 0 7\n-\npower 0 1 300; transfer 1 0 2\n-\n",
	"empty": "-\n-\n",
}

func (e *env) setup(kv map[string]string) string {
	name := kv["plan"]
	body, ok := plans[name]
	if !ok {
		return "bad-plan"
	}
	e.base = filepath.Join(e.root, "base")
	os.RemoveAll(e.base)
	if code, msg := e.child(30*time.Second, "-dir", e.base, "-init"); code != 0 {
		return "init-failed: " + msg
	}
	e.plan = filepath.Join(e.root, "plan.txt")
	ioutil.WriteFile(e.plan, []byte(body), 0644)
	e.upto = int64(strings.Count(body, "\n")) + 1
	ref := filepath.Join(e.root, "ref")
	copyDir(e.base, ref)
	labels := filepath.Join(e.root, "labels.txt")
	os.Remove(labels)
	if code, msg := e.child(90*time.Second, "-dir", ref, "-run", "-upto", fmt.Sprint(e.upto), "-plan", e.plan, "-labels", labels); code != 0 {
		return fmt.Sprintf("reference-run-failed rc=%d %s", code, msg)
	}
	e.ref = e.inspect(ref)
	bz, _ := ioutil.ReadFile(labels)
	e.win = map[int64][]string{}
	var cur int64
	for _, l := range strings.Split(strings.TrimSpace(string(bz)), "\n") {
		if strings.HasPrefix(l, "godb.set:H:") {
			cur = nodeimpl.Atoi(l[len("godb.set:H:"):])
		}
		if cur > 0 {
			e.win[cur] = append(e.win[cur], l)
		}
	}
	rx := e.reexec(ref)
	if len(rx.Mismatch) > 0 || rx.Err != "" {
		e.r.Fail(vh.Failure{Class: "uncrashed-chain-does-not-re-execute", Detail: fmt.Sprintf("%v %s", rx.Mismatch, rx.Err),
			Ops: append([]string{}, e.lines...), Got: "mismatch", Want: "re-execution reproduces every recorded hash"})
	}
	os.RemoveAll(ref)
	return "ok"
}

// one crash point: die before the j-th write of the commit of height h; j2 > 0: die again before the
// j2-th write of the restarted process
func (e *env) crashPoint(h int64, j, j2 int) {
	w := e.win[h]
	if j < 1 || j > len(w)+1 || len(w) == 0 {
		return
	}
	tail := fmt.Sprintf("crash h=%d j=%d j2=%d", h, j, j2)
	d := filepath.Join(e.root, "d")
	copyDir(e.base, d)
	defer os.RemoveAll(d)
	lab := "end-of-window"
	if j <= len(w) {
		lab = w[j-1]
	}
	e.r.Count("crash-before:" + strings.Split(lab, ":")[0] + ":" + keyClass(lab))
	crashOut := filepath.Join(e.root, "crashout.txt")
	os.Remove(crashOut)
	code, msg := e.child(90*time.Second, "-dir", d, "-run", "-upto", fmt.Sprint(e.upto), "-plan", e.plan, "-crash", fmt.Sprintf("height=%d,j=%d", h, j), "-crashout", crashOut)
	if code != 137 {
		// the write sequence of this run was shorter than the reference's (timing of rounds): not a crash
		e.r.Count("crash-point-not-reached")
		_ = msg
		return
	}
	// The transactions need not land in the same blocks as in the reference run (the feeder and the
	// proposer race), so this commit's write sequence may differ from the recorded one - one application
	// batch more or less. The model is told what THIS process had written when it died.
	prefix := ""
	if bz, err := ioutil.ReadFile(crashOut); err == nil {
		done := strings.Split(strings.TrimSpace(string(bz)), "\n")
		done = done[:len(done)-1] // the last line is the write it died before
		same := len(done) == j-1
		var cs []string
		for i, l := range done {
			c := strings.Split(l, ":")[0] + ":" + keyClass(l)
			cs = append(cs, c)
			if same && (i >= len(w) || strings.Split(w[i], ":")[0]+":"+keyClass(w[i]) != c) {
				same = false
			}
		}
		if !same {
			prefix = " prefix=" + strings.Join(cs, ",")
			if len(cs) == 0 {
				prefix = " prefix=-"
			}
			e.r.Count("write-sequence-differs-from-reference")
		}
	}
	pre := e.inspect(d)
	at := fmt.Sprintf(":store=h%+d,state=h%+d,app=h%+d", pre.StoreHeight-h, pre.StateHeight-h, pre.AppHeight-h)
	fail := func(class, detail string) {
		if !strings.HasPrefix(class, "node-cannot-restart") {
			class += at
		}
		e.r.Fail(vh.Failure{Class: class, Detail: detail, Ops: append(append([]string{}, e.lines...), tail+" | "+tail), Got: "fail", Want: "ok"})
	}
	restart := "ok"
	seen := ""
	if j2 > 0 {
		c2, _ := e.child(60*time.Second, "-dir", d, "-run", "-recoveronly", "-crash", fmt.Sprintf("start,j=%d", j2))
		if c2 == 137 {
			e.r.Count("second-crash-during-recovery")
			p2 := e.inspect(d)
			// the recovering node may have been re-committing height h, or already the next one
			hh := h
			if p2.StoreHeight > h {
				hh = p2.StoreHeight
			}
			seen = fmt.Sprintf(" seen=%d,%d,%d", p2.StoreHeight-hh, p2.StateHeight-hh, p2.AppHeight-hh)
		}
	}
	code, msg = e.child(60*time.Second, "-dir", d, "-run", "-recoveronly")
	var mid report
	if code != 0 {
		restart = "fail"
	} else {
		mid = e.inspect(d)
	}
	// relative to h: what was durable, and where the node stands once it has reconciled itself
	rel := func(r report) string {
		return fmt.Sprintf("%d,%d,%d", r.StoreHeight-h, r.StateHeight-h, r.AppHeight-h)
	}
	ans := fmt.Sprintf("pre=%s restart=%s", rel(pre), restart)
	e.r.Distinct(fmt.Sprintf("%s/%s/%d", keyClass(lab), rel(pre), j2))
	e.emit(fmt.Sprintf("crash h=%d j=%d j2=%d%s%s", h, j, j2, seen, prefix), tail, ans)
	if restart == "fail" {
		fail(fmt.Sprintf("node-cannot-restart:store=h%+d,state=h%+d,app=h%+d", pre.StoreHeight-h, pre.StateHeight-h, pre.AppHeight-h),
			fmt.Sprintf("the process died before write %d (%s) of the commit of height %d; durable then: store %d, state %d, application %d (opens: %v %s); restart: %s",
				j, lab, h, pre.StoreHeight, pre.StateHeight, pre.AppHeight, pre.AppOpens, pre.AppErr, msg))
		return
	}
	where := fmt.Sprintf("crash before write %d (%s) of the commit of height %d [durable: store %d state %d app %d]", j, lab, h, pre.StoreHeight, pre.StateHeight, pre.AppHeight)
	if !(mid.StoreHeight == mid.StateHeight && mid.StateHeight == mid.AppHeight) || mid.StateApp != mid.AppHash {
		fail("after-restart-store-state-application-disagree", fmt.Sprintf("%s: after restart store %d state %d (app hash %s) application %d (%s)", where, mid.StoreHeight, mid.StateHeight, mid.StateApp, mid.AppHeight, mid.AppHash))
	}
	// blocks readable before the restart are still there, unchanged
	for _, b := range pre.Blocks {
		if !b.Parts {
			continue
		}
		var now *blockInfo
		for i := range mid.Blocks {
			if mid.Blocks[i].Height == b.Height {
				now = &mid.Blocks[i]
			}
		}
		if now == nil || now.Hash != b.Hash {
			got := "missing"
			if now != nil {
				got = now.Hash
			}
			fail("block-readable-before-the-crash-changed", fmt.Sprintf("%s: block %d was %s, after restart %s", where, b.Height, b.Hash, got))
		}
	}
	for _, b := range mid.Blocks {
		if !b.Parts || !b.SeenCommit {
			fail("stored-block-not-servable", fmt.Sprintf("%s: after restart block %d: parts %v seen-commit %v", where, b.Height, b.Parts, b.SeenCommit))
		}
	}
	// ... and the node goes on to the end of the plan
	code, msg = e.child(90*time.Second, "-dir", d, "-run", "-upto", fmt.Sprint(e.upto), "-plan", e.plan)
	if code != 0 {
		fail("node-does-not-go-on-after-recovery", fmt.Sprintf("%s: after a successful restart the node does not commit the rest of the plan: rc=%d %s", where, code, msg))
		return
	}
	post := e.inspect(d)
	if !(post.StoreHeight == post.StateHeight && post.StateHeight == post.AppHeight) || post.StateApp != post.AppHash {
		fail("after-restart-store-state-application-disagree", fmt.Sprintf("%s: at the end store %d state %d (%s) application %d (%s)", where, post.StoreHeight, post.StateHeight, post.StateApp, post.AppHeight, post.AppHash))
	}
	if fmt.Sprint(post.Nonces) != fmt.Sprint(e.ref.Nonces) || post.AppHash != e.ref.AppHash {
		fail("transactions-not-applied-exactly-once", fmt.Sprintf("%s: final nonces %v state root %s; the run that never crashed: %v %s", where, post.Nonces, post.AppHash, e.ref.Nonces, e.ref.AppHash))
	}
	if post.StateVals != e.ref.StateVals {
		fail("validator-set-differs-after-recovery", fmt.Sprintf("%s: validators %s, uncrashed %s", where, post.StateVals, e.ref.StateVals))
	}
	rx := e.reexec(d)
	if len(rx.Mismatch) > 0 || rx.Err != "" {
		fail("recovered-chain-does-not-re-execute", fmt.Sprintf("%s: %v %s", where, rx.Mismatch, rx.Err))
	}
	e.r.Count("recovered")
}

func keyClass(l string) string {
	f := strings.SplitN(l, ":", 3)
	if len(f) < 2 {
		return l
	}
	k := f[1]
	if len(f) == 3 && (k == "H" || k == "P" || k == "C" || k == "SC") {
		return k
	}
	if len(k) > 24 {
		k = k[:24]
	}
	return k
}

func main() {
	r := vh.Start()
	defer r.Finish()
	root, err := ioutil.TempDir("", "verif-c06-")
	if err != nil {
		panic(err)
	}
	defer os.RemoveAll(root)
	node := os.Getenv("VERIF_C06NODE")
	if node == "" {
		self, _ := os.Executable()
		node = filepath.Join(filepath.Dir(self), "c06node")
	}
	e := &env{r: r, node: node, root: root}
	e.emit("cfg", "cfg", "ok")
	doSetup := func(tail string) bool {
		kv := nodeimpl.Kvs(strings.Fields(tail))
		e.lines = e.lines[:1]
		res := e.setup(kv)
		if res != "ok" {
			r.Count("setup-failed")
			r.Fail(vh.Failure{Class: "reference-run-failed", Detail: res, Ops: []string{tail}, Got: res, Want: "ok"})
			return false
		}
		var ws []string
		for h := int64(1); h <= e.upto; h++ {
			var cs []string
			for _, l := range e.win[h] {
				cs = append(cs, strings.Split(l, ":")[0]+":"+keyClass(l))
			}
			ws = append(ws, fmt.Sprintf("%d=%s", h, strings.Join(cs, ",")))
		}
		// the model answers whether the recorded order keeps the ordering facts of theorem K2 at every crash point
		e.emit("plan "+strings.Join(ws, " "), tail, "ok ordered=1")
		r.Count("plan-" + kv["plan"])
		return true
	}
	if r.Replay != "" {
		for _, l := range vh.ReadLines(r.Replay) {
			tail := l
			if k := strings.LastIndex(l, "|"); k >= 0 {
				tail = strings.TrimSpace(l[k+1:])
			}
			w := strings.Fields(tail)
			if len(w) == 0 {
				continue
			}
			kv := nodeimpl.Kvs(w)
			switch w[0] {
			case "plan":
				doSetup(tail)
			case "crash":
				if e.base != "" {
					e.crashPoint(nodeimpl.Atoi(kv["h"]), int(nodeimpl.Atoi(kv["j"])), int(nodeimpl.Atoi(kv["j2"])))
				}
			}
		}
		return
	}
	R := r.R
	names := []string{"mixed", "evm", "kv", "power", "empty"}
	nPlans := r.Scale(1, 3)
	for q := 0; q < nPlans; q++ {
		name := names[(int(r.Seed)+q)%len(names)]
		if !doSetup("plan plan=" + name) {
			continue
		}
		// the commit proper: the writes up to and including the one that saves the state; the writes
		// after it belong to the consensus of the next height (WAL, signer file)
		budget := r.Scale(14, 40)
		type pt struct {
			h     int64
			j, j2 int
		}
		var pts []pt
		for h := int64(1); h <= e.upto; h++ {
			n := len(e.win[h])
			for j := 1; j <= n+1; j++ {
				pts = append(pts, pt{h, j, 0})
			}
		}
		// every point of the commit proper first (shuffled over heights), then the rest, then repeats
		core := func(p pt) bool {
			w := e.win[p.h]
			for i, l := range w {
				if strings.Contains(l, "stateKey") {
					return p.j <= i+2
				}
			}
			return false
		}
		order := R.Perm(len(pts))
		var chosen []pt
		for _, i := range order {
			if core(pts[i]) {
				chosen = append(chosen, pts[i])
			}
		}
		for _, i := range order {
			if !core(pts[i]) {
				chosen = append(chosen, pts[i])
			}
		}
		if !r.Thorough() {
			// quick: EVERY crash point of the commit proper of one height (a reordering inside a commit
			// is then met at each of its crash points), the rest of the budget outside it
			hs := int64(R.Range(2, int(e.upto)))
			if R.Chance(20) {
				hs = 1
			}
			var c2 []pt
			for _, p := range pts {
				if core(p) && p.h == hs {
					c2 = append(c2, p)
				}
			}
			for _, p := range chosen {
				if !core(p) && len(c2) < budget+4 {
					c2 = append(c2, p)
				}
			}
			chosen = c2
		} else if len(chosen) > budget {
			chosen = chosen[:budget]
		}
		for i, p := range chosen {
			j2 := 0
			if i%4 == 3 {
				j2 = R.Range(1, 12) // die again while recovering
			}
			e.crashPoint(p.h, p.j, j2)
		}
	}
}
