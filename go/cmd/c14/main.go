// C14 harness: real plugin.AdminOp (CheckMajor23, ProcessAdminOP, EndBlock/updateValidators).
package main

import (
	"encoding/hex"
	"encoding/json"
	"fmt"
	"strconv"
	"strings"

	"github.com/spf13/viper"

	crypto "github.com/dappledger/AnnChain/gemmill/go-crypto"
	"github.com/dappledger/AnnChain/gemmill/p2p"
	"github.com/dappledger/AnnChain/gemmill/plugin"
	"github.com/dappledger/AnnChain/gemmill/refuse_list"
	"github.com/dappledger/AnnChain/gemmill/types"

	"verifharness/vh"
)

const poolSize = 12

var keys []crypto.PrivKeyEd25519
var idxByAddr = map[string]int{}

func pub(k int) []byte  { return crypto.GetNodePubkeyBytes(keys[k].PubKey()) }
func addr(k int) []byte { return keys[k].PubKey().Address() }

type app struct {
	from  []byte
	nonce uint64
}

func (a *app) GetNonce() uint64 { return a.nonce }
func (a *app) From() []byte     { return a.from }

type impl struct {
	op  *plugin.AdminOp
	cur *types.ValidatorSet
}

func unhex(s string) []byte {
	if s == "-" {
		return []byte{}
	}
	b, err := hex.DecodeString(s)
	if err != nil {
		panic("bad hex " + s)
	}
	return b
}
func atoi(s string) int64 { v, _ := strconv.ParseInt(s, 10, 64); return v }

func dump(vs *types.ValidatorSet) string {
	var s []string
	for _, v := range vs.Validators {
		s = append(s, fmt.Sprintf("%s:%d:%d", vh.Hex(v.Address), v.VotingPower, v.Accum))
	}
	return strings.Join(s, ",")
}

// entry spec "k.var": var 0 valid signature over msg; 1 signature over another message;
// 2 signature by another key; 3 pubkey with a trailing extra byte (33 bytes: truncated to the key);
// 4 pubkey cut to 31 bytes (another key); 5 signature cut to 63 bytes; 6 empty signature
func mkEntry(spec string, msg []byte) (types.SigInfo, string) {
	spec = strings.Split(spec, "/")[0]
	f := strings.Split(spec, ".")
	k, _ := strconv.Atoi(f[0])
	v, _ := strconv.Atoi(f[1])
	pk := pub(k)
	sig := crypto.GetNodeSigBytes(keys[k].Sign(msg))
	switch v {
	case 1:
		sig = crypto.GetNodeSigBytes(keys[k].Sign(append([]byte("x"), msg...)))
	case 2:
		sig = crypto.GetNodeSigBytes(keys[(k+1)%poolSize].Sign(msg))
	case 3:
		pk = append(append([]byte{}, pk...), 0x07)
	case 4:
		pk = pk[:31]
	case 5:
		sig = sig[:63]
	case 6:
		sig = nil
	}
	si := types.SigInfo{PubKey: pk, Signature: sig}
	p := crypto.SetNodePubkey(pk)
	ok := p.VerifyBytes(msg, crypto.SetNodeSignature(sig))
	return si, fmt.Sprintf("%s/%s:%s", spec, vh.Hex(p.Address()), vh.B01(ok))
}

func classify(err error) string {
	if err == nil {
		return "ok"
	}
	s := err.Error()
	switch {
	case strings.Contains(s, "need more than 2/3"):
		return "err-major"
	case s == "unsupported admin operation":
		return "err-type"
	case strings.HasPrefix(s, "parse validator err"):
		return "err-parse"
	case strings.Contains(s, "verify nonce err"):
		return "err-from"
	case strings.Contains(s, "admin nonce error"):
		return "err-nonce"
	case strings.Contains(s, "self verify failed"):
		return "err-self"
	case strings.Contains(s, "not add into chain"):
		return "err-notadded"
	case strings.HasPrefix(s, "unsupported admin operation:"):
		return "err-cmd"
	}
	return "err?" + s
}

func tgtIndex(w string) int {
	if strings.HasPrefix(w, "t") {
		k, _ := strconv.Atoi(w[1:])
		return k
	}
	return idxByAddr[string(unhex(w))]
}

func (im *impl) exec(line string) (string, string) {
	w := strings.Fields(line)
	model := line
	res := vh.Guard(func() string {
		switch w[0] {
		case "cfg":
			return "ok"
		case "vals":
			var vals []*types.Validator
			for _, x := range w[1:] {
				f := strings.Split(x, ":")
				k := idxByAddr[string(unhex(f[0]))]
				vals = append(vals, types.NewValidator(keys[k].PubKey(), atoi(f[1]), true))
			}
			im.cur = types.NewValidatorSet(vals)
			im.op = &plugin.AdminOp{}
			sw := p2p.NewSwitch(viper.New())
			im.op.Init(&plugin.InitParams{RefuseList: refuse_list.NewRefuseList("memdb", ""), Validators: &im.cur, Switch: sw})
			return "ok"
		case "major":
			msg := []byte("the-request")
			cmd := &types.AdminOPCmd{Msg: msg}
			var toks []string
			for _, e := range w[1:] {
				si, tok := mkEntry(e, msg)
				cmd.SInfos = append(cmd.SInfos, si)
				toks = append(toks, tok)
			}
			model = strings.TrimRight("major "+strings.Join(toks, " "), " ")
			return vh.B01(im.op.CheckMajor23(cmd))
		case "exec":
			// exec from appnonce cmdtypeok parseok attraddr attrnonce cmd tgt power selfok entries...
			k := tgtIndex(w[8])
			attr := &types.ValidatorAttr{PubKey: pub(k), Power: atoi(w[9]), Addr: unhex(w[5]), Nonce: uint64(atoi(w[6]))}
			switch w[7] {
			case "add":
				attr.Cmd = types.ValidatorCmdAddPeer
			case "update":
				attr.Cmd = types.ValidatorCmdUpdateNode
			case "remove":
				attr.Cmd = types.ValidatorCmdRemoveNode
			default:
				attr.Cmd = "bogus_cmd"
			}
			cmd := &types.AdminOPCmd{CmdType: types.AdminOpChangeValidator}
			if w[3] != "1" {
				cmd.CmdType = "somethingElse"
			}
			cmd.LoadMsg(attr)
			if w[4] != "1" {
				cmd.Msg = []byte("{not json")
			}
			if w[10] == "1" {
				cmd.SelfSign = crypto.GetNodeSigBytes(keys[k].Sign(cmd.Msg))
			} else {
				cmd.SelfSign = crypto.GetNodeSigBytes(keys[(k+1)%poolSize].Sign(cmd.Msg))
			}
			var toks []string
			for _, e := range w[11:] {
				si, tok := mkEntry(e, cmd.Msg)
				cmd.SInfos = append(cmd.SInfos, si)
				toks = append(toks, tok)
			}
			w2 := append([]string{}, w[:11]...)
			w2[8] = vh.Hex(addr(k))
			model = strings.TrimRight(strings.Join(w2, " ")+" "+strings.Join(toks, " "), " ")
			bz, _ := json.Marshal(cmd)
			before := len(im.op.ChangedValidators)
			err := im.op.ExecTX(&app{from: unhex(w[1]), nonce: uint64(atoi(w[2]))}, types.TagAdminOPTx(bz))
			r := classify(err)
			if r == "ok" {
				r = "ok changed=" + vh.B01(len(im.op.ChangedValidators) > before)
			}
			return fmt.Sprintf("%s queued=%d", r, len(im.op.ChangedValidators))
		case "endblock":
			valSet := im.cur.Copy()
			next := valSet.Copy()
			if _, err := im.op.EndBlock(&plugin.EndBlockParams{NextValidatorSet: next}); err != nil {
				return "err"
			}
			next.IncrementAccum(1)
			im.cur = next
			return "ok " + dump(next)
		}
		return "bad-op"
	})
	return model, res
}

func main() {
	r := vh.Start()
	defer r.Finish()
	for i := 0; i < poolSize; i++ {
		var seed [32]byte
		copy(seed[:], fmt.Sprintf("verif-c14-node-%d", i))
		k := crypto.GenPrivKeyEd25519FromSecret(seed[:])
		keys = append(keys, k)
		idxByAddr[string(k.PubKey().Address())] = i
	}
	im := &impl{}
	var history []string
	do := func(op string) string {
		m, res := im.exec(op)
		r.Op(m, res)
		history = append(history, m)
		return res
	}
	if r.Replay != "" {
		for _, l := range vh.ReadLines(r.Replay) {
			do(l)
		}
		return
	}
	do("cfg dedupSigners=1")
	R := r.R
	fail := func(cls, detail, got, want string) {
		ops := append([]string{}, history[1:]...)
		if len(ops) > 40 {
			ops = append(ops[:1], ops[len(ops)-39:]...)
		}
		r.Fail(vh.Failure{Class: cls, Detail: detail, Ops: ops, Got: got, Want: want})
	}
	seqs := r.Scale(300, 3000)
	admin := "3031323334353637383961626364656667686970" // a 20-byte account
	for s := 0; s < seqs; s++ {
		history = history[:1]
		n := R.Range(1, 7)
		power := map[int]int64{} // key index -> power (members)
		var vs []string
		mode := R.Intn(4)
		for i := 0; i < n; i++ {
			p := int64(1)
			switch mode {
			case 1:
				p = int64(R.Range(1, 10))
			case 2:
				p = []int64{0, 1, 5}[R.Intn(3)] // zero-power validators exist
			case 3:
				p = int64(10)
			}
			power[i] = p
			vs = append(vs, fmt.Sprintf("%s:%d", vh.Hex(addr(i)), p))
		}
		do("vals " + strings.Join(vs, " "))
		r.Count(fmt.Sprintf("valset.n=%d.mode=%d", n, mode))
		acct := uint64(R.Intn(3)) // account nonce of the admin account
		blocks := R.Range(1, 3)
		for b := 0; b < blocks; b++ {
			total := int64(0)
			for _, p := range power {
				total += p
			}
			type acc struct{ line string }
			accepted := map[string]bool{}
			queued := 0
			pending := map[int]int64{} // expected membership after this block
			for k, p := range power {
				pending[k] = p
			}
			var removed []int
			txs := R.Range(1, 4)
			for t := 0; t < txs; t++ {
				// signature entries
				var ents []string
				good := map[int]bool{}
				ne := R.Range(0, n+3)
				for e := 0; e < ne; e++ {
					k := R.Intn(n + 2) // sometimes a foreign key
					v := 0
					if R.Chance(30) {
						v = R.Range(1, 6)
					}
					if R.Chance(25) && len(ents) > 0 { // duplicate an earlier entry
						ents = append(ents, ents[R.Intn(len(ents))])
						r.Count("entry.duplicate")
						continue
					}
					ents = append(ents, fmt.Sprintf("%d.%d", k, v))
					r.Count(fmt.Sprintf("entry.var%d", v))
				}
				if R.Chance(50) { // make a genuine super-majority likely
					for k := 0; k < n; k++ {
						ents = append(ents, fmt.Sprintf("%d.0", k))
					}
					for i := len(ents) - 1; i > 0; i-- {
						j := R.Intn(i + 1)
						ents[i], ents[j] = ents[j], ents[i]
					}
				}
				// recount distinct valid signers from a model line (tokens k.var/addr:ok)
				recount := func(toks []string) int64 {
					seen := map[int]bool{}
					sum := int64(0)
					for _, tok := range toks {
						f := strings.Split(strings.Split(tok, "/")[1], ":")
						k, known := idxByAddr[string(unhex(f[0]))]
						if known && f[1] == "1" && !seen[k] {
							if p, member := power[k]; member && p > 0 {
								seen[k] = true
								sum += p
							}
						}
					}
					return sum
				}
				_ = good
				// stand-alone CheckMajor23 on the same entries (its own message)
				mres := do("major " + strings.Join(ents, " "))
				msum := recount(strings.Fields(history[len(history)-1])[1:])
				if mwant := vh.B01(msum*3 > total*2); mres != mwant {
					cls := "checkmajor23-wrong"
					if mres == "1" {
						cls = "request-accepted-without-two-thirds-of-distinct-validators"
					}
					fail(cls, fmt.Sprintf("CheckMajor23 = %s but distinct current validators with a valid signature over the message hold %d of %d", mres, msum, total), mres, mwant)
				}
				// the request
				cmdk := []string{"add", "update", "remove", "bogus"}[R.Intn(4)]
				if R.Chance(10) {
					cmdk = "bogus"
				}
				tgt := R.Intn(n + 3)
				pw := int64(R.Range(0, 9))
				cto, po, self := "1", "1", "1"
				attrNonce := acct
				from := admin
				switch c := R.Intn(100); {
				case c < 6:
					cto = "0"
				case c < 12:
					po = "0"
				case c < 18:
					self = "0"
				case c < 26:
					attrNonce = acct + uint64(R.Range(1, 3))
				case c < 32:
					if acct > 0 {
						attrNonce = acct - 1
					}
				case c < 37:
					from = "ffffffffffffffffffffffffffffffffffffffff"
				}
				// the tx bumps the account nonce before the precompile runs
				line := fmt.Sprintf("exec %s %d %s %s %s %d %s t%d %d %s %s", from, acct+1, cto, po, admin, attrNonce, cmdk, tgt, pw, self, strings.Join(ents, " "))
				res := do(line)
				acct++
				isOK := strings.HasPrefix(res, "ok")
				sum := recount(strings.Fields(history[len(history)-1])[11:])
				want := vh.B01(sum*3 > total*2)
				r.Count("exec." + strings.Fields(res)[0])
				r.Distinct(fmt.Sprintf("n=%d mode=%d cmd=%s res=%s maj=%s", n, mode, cmdk, strings.Fields(res)[0], mres))
				if isOK && want != "1" {
					fail("request-accepted-without-two-thirds-of-distinct-validators", fmt.Sprintf("an admin request was accepted although distinct valid signers hold %d of %d", sum, total), res, "err-major")
				}
				if isOK && (attrNonce+1 != acct || from != admin) {
					fail("request-accepted-with-wrong-nonce-or-sender", "an admin request was accepted with a nonce other than the account's or from another sender", res, "err-nonce/err-from")
				}
				if isOK {
					key := strings.Join(strings.Fields(history[len(history)-1])[5:], " ")
					if accepted[key] {
						fail("request-accepted-twice", "the same signed admin request was accepted twice", res, "err-nonce")
					}
					accepted[key] = true
					if strings.Contains(res, "changed=1") {
						queued++
						switch cmdk {
						case "add", "update":
							pending[tgt] = pw
						case "remove":
							delete(pending, tgt)
							removed = append(removed, tgt)
						}
					}
				}
				// replay the very same request right away (account nonce has moved on)
				if isOK && R.Chance(50) {
					rep := strings.Replace(line, fmt.Sprintf("exec %s %d ", from, acct), fmt.Sprintf("exec %s %d ", from, acct+1), 1)
					res2 := do(rep)
					acct++
					if strings.HasPrefix(res2, "ok") {
						fail("request-accepted-twice", "a replayed admin request (same signed message, next account nonce) was accepted again", res2, "err-nonce")
					}
				}
			}
			eb := do("endblock")
			if strings.HasPrefix(eb, "ok") {
				// membership and powers must be exactly the accepted changes applied in order
				got := map[string]int64{}
				for _, x := range strings.Split(strings.TrimPrefix(eb, "ok "), ",") {
					if x == "" {
						continue
					}
					f := strings.Split(x, ":")
					got[f[0]] = atoi(f[1])
				}
				okm := len(got) == len(pending)
				for k, p := range pending {
					if got[vh.Hex(addr(k))] != p {
						if _, has := got[vh.Hex(addr(k))]; !has || true {
							okm = okm && got[vh.Hex(addr(k))] == p
						}
					}
				}
				if !okm {
					fail("next-validator-set-differs-from-accepted-changes", "the next validator set is not the current set with exactly the accepted changes applied", eb, fmt.Sprint(pending))
				}
				power = pending
				n2 := 0
				for range power {
					n2++
				}
				if n2 == 0 {
					break
				}
			} else {
				break
			}
		}
	}
	// Directed, after the random worlds (their stream stays what it was): one block carries two
	// different accepted requests for the same node, so the order in which the block's changes are
	// applied is visible in the next validator set.  Several fresh worlds: an order that depends on
	// Go's map iteration differs from run to run.
	for d := 0; d < r.Scale(12, 60); d++ {
		history = history[:1]
		n := 4 + d%3
		var vs []string
		for i := 0; i < n; i++ {
			vs = append(vs, fmt.Sprintf("%s:%d", vh.Hex(addr(i)), 10))
		}
		do("vals " + strings.Join(vs, " "))
		var ents []string
		for k := 0; k < n; k++ {
			ents = append(ents, fmt.Sprintf("%d.0", k))
		}
		want := map[int]int64{}
		for i := 0; i < n; i++ {
			want[i] = 10
		}
		type rq struct {
			cmd string
			tgt int
			pw  int64
		}
		var reqs []rq
		switch d % 4 {
		case 0:
			reqs = []rq{{"update", 0, 5}, {"update", 0, 7}}
		case 1:
			reqs = []rq{{"update", 1, 7}, {"update", 1, 5}, {"update", 1, 3}}
		case 2:
			reqs = []rq{{"update", 2, 2}, {"remove", 3, 0}, {"update", 2, 9}, {"update", 1, 8}, {"update", 1, 6}}
		case 3:
			reqs = []rq{{"update", 0, 1}, {"update", 1, 2}, {"update", 0, 3}, {"update", 1, 4}, {"update", 0, 5}}
		}
		acct := uint64(0)
		allOK := true
		for _, q := range reqs {
			line := fmt.Sprintf("exec %s %d 1 1 %s %d %s t%d %d 1 %s", admin, acct+1, admin, acct, q.cmd, q.tgt, q.pw, strings.Join(ents, " "))
			res := do(line)
			acct++
			if !strings.HasPrefix(res, "ok") || !strings.Contains(res, "changed=1") {
				allOK = false
				break
			}
			if q.cmd == "remove" {
				delete(want, q.tgt)
			} else {
				want[q.tgt] = q.pw
			}
		}
		r.Count(fmt.Sprintf("directed.same-node-twice.case%d.accepted=%v", d%4, allOK))
		if !allOK {
			continue
		}
		eb := do("endblock")
		if !strings.HasPrefix(eb, "ok") {
			continue
		}
		got := map[string]int64{}
		for _, x := range strings.Split(strings.TrimPrefix(eb, "ok "), ",") {
			if x != "" {
				f := strings.Split(x, ":")
				got[f[0]] = atoi(f[1])
			}
		}
		okm := len(got) == len(want)
		for k, p := range want {
			if v, has := got[vh.Hex(addr(k))]; !has || v != p {
				okm = false
			}
		}
		if !okm {
			fail("next-validator-set-differs-from-accepted-changes", "two accepted requests for the same node in one block: the next validator set is not the accepted changes applied in the order they were accepted", eb, fmt.Sprint(want))
		}
	}
}
