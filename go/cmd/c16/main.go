// C16 harness: real types.ValidatorSet (IncrementAccum, Proposer, Copy, Add/Update/Remove, wire reload).
package main

import (
	"bytes"
	"encoding/hex"
	"fmt"
	"sort"
	"strconv"
	"strings"

	crypto "github.com/dappledger/AnnChain/gemmill/go-crypto"
	wire "github.com/dappledger/AnnChain/gemmill/go-wire"
	dbm "github.com/dappledger/AnnChain/gemmill/modules/go-db"
	sm "github.com/dappledger/AnnChain/gemmill/state"
	"github.com/dappledger/AnnChain/gemmill/types"

	"verifharness/vh"
)

const poolSize = 14

var pool []crypto.PubKey // deterministic keys
var byAddr = map[string]crypto.PubKey{}

func initPool() {
	for i := 0; i < poolSize; i++ {
		var seed [32]byte
		copy(seed[:], fmt.Sprintf("verif-c16-validator-%d", i))
		k := crypto.GenPrivKeyEd25519FromSecret(seed[:])
		pool = append(pool, k.PubKey())
		byAddr[string(k.PubKey().Address())] = k.PubKey()
	}
}

func unhex(s string) []byte {
	if s == "-" {
		return []byte{}
	}
	b, err := hex.DecodeString(s)
	if err != nil {
		panic("bad hex " + s)
	}
	return b
}
func atoi(s string) int64 { v, _ := strconv.ParseInt(s, 10, 64); return v }

func parseVal(w string) *types.Validator {
	f := strings.Split(w, ":")
	a := unhex(f[0])
	v := &types.Validator{Address: a, PubKey: byAddr[string(a)], VotingPower: atoi(f[1])}
	if len(f) > 2 {
		v.Accum = atoi(f[2])
	}
	return v
}

func dump(vs *types.ValidatorSet) string {
	var s []string
	for _, v := range vs.Validators {
		s = append(s, fmt.Sprintf("%s:%d:%d", vh.Hex(v.Address), v.VotingPower, v.Accum))
	}
	return strings.Join(s, ",")
}

type impl struct {
	regs map[string]*types.ValidatorSet
}

func (im *impl) exec(line string) string {
	return vh.Guard(func() string {
		w := strings.Fields(line)
		switch w[0] {
		case "cfg":
			return "ok"
		case "new":
			var vals []*types.Validator
			for _, x := range w[2:] {
				vals = append(vals, parseVal(x))
			}
			if vals == nil {
				vals = []*types.Validator{}
			}
			im.regs[w[1]] = types.NewValidatorSet(vals)
			return dump(im.regs[w[1]])
		case "incr":
			im.regs[w[1]].IncrementAccum(atoi(w[2]))
			return dump(im.regs[w[1]])
		case "copy":
			im.regs[w[2]] = im.regs[w[1]].Copy()
			return "ok"
		case "dump":
			return dump(im.regs[w[1]])
		case "proposer":
			p := im.regs[w[1]].Proposer()
			if p == nil {
				return "nil"
			}
			return vh.Hex(p.Address)
		case "total":
			return fmt.Sprint(im.regs[w[1]].TotalVotingPower())
		case "reload": // the persistence path of a restart: State.Save, LoadState
			db := dbm.NewMemDB()
			st := sm.MakeGenesisState(db, &types.GenesisDoc{ChainID: "c16", Validators: []types.GenesisValidator{{PubKey: crypto.GenPrivKeyEd25519FromSecret([]byte("c16")).PubKey(), Amount: 1}}})
			st.Validators = im.regs[w[1]]
			st.LastValidators = im.regs[w[1]].Copy()
			st.Save()
			vs := sm.LoadState(db).Validators
			im.regs[w[1]] = vs
			return dump(vs)
		case "wirereload": // the bare wire round trip of the set (RPC results)
			bz := wire.BinaryBytes(im.regs[w[1]])
			var n int
			var err error
			vs := wire.ReadBinary(&types.ValidatorSet{}, bytes.NewReader(bz), 0, &n, &err).(*types.ValidatorSet)
			if err != nil {
				return "err " + err.Error()
			}
			im.regs[w[1]] = vs
			return dump(vs)
		case "add":
			ok := im.regs[w[1]].Add(parseVal(w[2]))
			return vh.B01(ok) + " " + dump(im.regs[w[1]])
		case "update":
			ok := im.regs[w[1]].Update(parseVal(w[2]))
			return vh.B01(ok) + " " + dump(im.regs[w[1]])
		case "remove":
			_, ok := im.regs[w[1]].Remove(unhex(w[2]))
			return vh.B01(ok) + " " + dump(im.regs[w[1]])
		}
		return "bad-op"
	})
}

func main() {
	r := vh.Start()
	defer r.Finish()
	initPool()
	im := &impl{regs: map[string]*types.ValidatorSet{}}
	var history []string
	do := func(op string) string {
		res := im.exec(op)
		r.Op(op, res)
		history = append(history, op)
		return strings.TrimRight(res, " ")
	}
	if r.Replay != "" {
		for _, l := range vh.ReadLines(r.Replay) {
			do(l)
		}
		return
	}
	do("cfg iterated=1")
	R := r.R
	fail := func(cls, detail, got, want string) {
		ops := append([]string{}, history[1:]...)
		if len(ops) > 60 {
			ops = ops[len(ops)-60:]
		}
		r.Fail(vh.Failure{Class: cls, Detail: detail, Ops: ops, Got: got, Want: want})
	}
	seqs := r.Scale(250, 2500)
	for s := 0; s < seqs; s++ {
		history = history[:1]
		im.regs = map[string]*types.ValidatorSet{}
		n := R.Range(1, 7)
		mode := R.Intn(5)
		perm := R.Perm(poolSize)
		var vals []string
		total := int64(0)
		member := map[int]int64{}
		for i := 0; i < n; i++ {
			var p int64
			switch mode {
			case 0:
				p = 1
			case 1:
				p = int64(R.Range(1, 4))
			case 2:
				p = int64(R.Range(1, 30))
			case 3:
				p = []int64{1, 3}[i%2]
			default:
				p = int64(1 + i)
			}
			total += p
			member[perm[i]] = p
			vals = append(vals, fmt.Sprintf("%s:%d", vh.Hex(pool[perm[i]].Address()), p))
		}
		r.Count(fmt.Sprintf("valset.n=%d", n))
		r.Count(fmt.Sprintf("powermode=%d", mode))
		newOp := "new a " + strings.Join(vals, " ")
		do(newOp)
		do("new b " + strings.Join(vals, " ")) // shadow replica: applies single increments only
		kind := R.Intn(5)
		switch kind {
		case 0: // ---------------------------------------------- fairness window from genesis
			if total <= 80 {
				cnt := map[string]int64{}
				skip := R.Intn(int(total) + 1) // the window may start anywhere
				for i := 0; i < skip; i++ {
					do("incr a 1")
				}
				for i := int64(0); i < total; i++ {
					do("incr a 1")
					cnt[do("proposer a")]++
				}
				for idx, p := range member {
					a := vh.Hex(pool[idx].Address())
					if cnt[a] != p {
						fail("selection-not-proportional", fmt.Sprintf("in a window of %d consecutive selections validator %s (power %d) was selected %d times", total, a, p, cnt[a]), fmt.Sprint(cnt[a]), fmt.Sprint(p))
						break
					}
				}
				r.Distinct(fmt.Sprintf("fair n=%d mode=%d total=%d skip=%d", n, mode, total, skip))
			}
		case 1: // ---------------------------------------------- batched vs single increments; reload
			steps := R.Range(1, 6)
			for i := 0; i < steps; i++ {
				k := R.Range(1, 5)
				ra := do(fmt.Sprintf("incr a %d", k))
				rb := ""
				for j := 0; j < k; j++ {
					rb = do("incr b 1")
				}
				pa, pb := do("proposer a"), do("proposer b")
				if ra != rb || pa != pb {
					fail("batched-increment-differs-from-single-increments", fmt.Sprintf("IncrementAccum(%d) and %d x IncrementAccum(1) give different accums/proposer: a replica that skipped rounds disagrees with one that went through each", k, k), ra+" prop="+pa, rb+" prop="+pb)
					break
				}
				r.Distinct(fmt.Sprintf("batch n=%d mode=%d k=%d", n, mode, k))
				if R.Chance(40) {
					before := do("proposer a")
					do("reload a")
					after := do("proposer a")
					if before != after {
						fail("proposer-changes-after-persistence-reload", "the proposer of a validator set differs after the chain state was saved and loaded again (a restart): the cached proposer is not persisted and Proposer() recomputes it from the already-decremented accums", after, before)
					}
					do("reload b")
					do("proposer b")
					if R.Chance(30) { // the bare set round trip drops the caches (both replicas, to stay in step)
						do("wirereload a")
						do("proposer a")
						do("wirereload b")
						do("proposer b")
					}
				}
			}
		case 2: // ---------------------------------------------- a power change, then a skip of MORE rounds than the new total
			// (accums carry the history of the old distribution: the rotation is not periodic in the new total)
			for i := R.Range(0, 7); i > 0; i-- {
				do("incr a 1")
				do("incr b 1")
			}
			changed := false
			for idx, pw := range member {
				if pw > 1 || n > 1 {
					addr := vh.Hex(pool[idx].Address())
					var op string
					switch {
					case pw > 1 && R.Chance(70):
						op = fmt.Sprintf("update %%s %s:1:0", addr) // a heavy validator becomes light
						total += 1 - pw
					case n > 1:
						op = fmt.Sprintf("remove %%s %s", addr)
						total -= pw
					default:
						continue
					}
					do(fmt.Sprintf(op, "a"))
					do(fmt.Sprintf(op, "b"))
					changed = true
					break
				}
			}
			if changed && total > 0 && total <= 40 {
				for rep := 0; rep < 2; rep++ {
					k := int(total) + R.Range(1, 2*int(total)+3)
					ra := do(fmt.Sprintf("incr a %d", k))
					rb := ""
					for j := 0; j < k; j++ {
						rb = do("incr b 1")
					}
					pa, pb := do("proposer a"), do("proposer b")
					r.Count("skip-beyond-total-after-change")
					if ra != rb || pa != pb {
						fail("batched-increment-differs-from-single-increments", fmt.Sprintf("after a power change IncrementAccum(%d) (total power %d) and %d x IncrementAccum(1) give different accums/proposer", k, total, k), ra+" prop="+pa, rb+" prop="+pb)
						break
					}
				}
			}
		default: // ---------------------------------------------- membership changes, copies, totals
			steps := R.Range(2, 10)
			for i := 0; i < steps; i++ {
				do("copy a c")
				snap := do("dump c")
				idx := R.Intn(poolSize)
				addr := vh.Hex(pool[idx].Address())
				p := int64(R.Range(1, 9))
				var op string
				switch R.Intn(5) {
				case 0:
					op = fmt.Sprintf("add a %s:%d:%d", addr, p, R.Range(-5, 5))
				case 1:
					op = fmt.Sprintf("update a %s:%d:%d", addr, p, R.Range(-5, 5))
				case 2:
					op = fmt.Sprintf("remove a %s", addr)
				case 3:
					if R.Bool() {
						do("total a") // fill the cache before the change
					}
					op = fmt.Sprintf("update a %s:%d:0", addr, p)
				default:
					op = fmt.Sprintf("incr a %d", R.Range(1, 3))
				}
				r.Count("member." + strings.Fields(op)[0])
				res := do(op)
				if res == "panic" {
					if len(im.regs["a"].Validators) == 0 {
						break // IncrementAccum on an empty set: nil Peek (not reachable: a chain always has a validator)
					}
					fail("validator-set-op-panics", "a validator-set operation panics", res, "a result")
					break
				}
				// oracle: sorted, duplicate-free, total = sum, copy untouched
				vs := im.regs["a"]
				sum := int64(0)
				sorted := sort.SliceIsSorted(vs.Validators, func(x, y int) bool {
					return bytes.Compare(vs.Validators[x].Address, vs.Validators[y].Address) < 0
				})
				for k := range vs.Validators {
					sum += vs.Validators[k].VotingPower
					if k > 0 && bytes.Equal(vs.Validators[k].Address, vs.Validators[k-1].Address) {
						sorted = false
					}
				}
				if !sorted {
					fail("validator-set-not-sorted-or-duplicate", "after add/update/remove the set is not strictly sorted by address", dump(vs), "sorted")
				}
				// NOTE: TotalVotingPower() fills the cache, so asking after every step would hide a stale
				// cache that needs two changes in a row; ask only sometimes, and always at the end.
				if len(vs.Validators) > 0 && (i == steps-1 || R.Chance(25)) {
					if t := do("total a"); t != fmt.Sprint(sum) {
						fail("total-voting-power-stale", "TotalVotingPower() differs from the sum of the validators' powers (stale cache)", t, fmt.Sprint(sum))
					}
				}
				if now := do("dump c"); now != snap {
					fail("copy-not-independent", "a copy handed out earlier changed when the original was modified", now, snap)
				}
				// hash is a function of content: rebuild from the dump and compare
				if len(vs.Validators) > 0 {
					var vv []*types.Validator
					for _, x := range strings.Split(dump(vs), ",") {
						vv = append(vv, parseVal(x))
					}
					fresh := &types.ValidatorSet{Validators: vv}
					if !bytes.Equal(fresh.Hash(), vs.Hash()) {
						fail("hash-not-function-of-content", "two validator sets with identical content hash differently", "", "")
					}
				}
				r.Distinct(fmt.Sprintf("member n=%d op=%s res=%s", len(vs.Validators), strings.Fields(op)[0], strings.Fields(res + " x")[0]))
				if len(vs.Validators) == 0 {
					break
				}
			}
		}
	}
	// Directed, after the random sequences (their stream stays what it was): what a restarted replica
	// hands out. The set comes back from the state database (`reload`), and every reader gets a COPY
	// of it (State.Copy / GetState): the copy, and the copy of the copy, must name the proposer the
	// replica that kept running names - before and after further rounds.
	for d := 0; d < r.Scale(24, 120); d++ {
		history = history[:1]
		im.regs = map[string]*types.ValidatorSet{}
		n := 2 + d%5
		perm := R.Perm(poolSize)
		var vals []string
		for i := 0; i < n; i++ {
			p := int64(1)
			switch d % 3 {
			case 1:
				p = int64(1 + i)
			case 2:
				p = int64(R.Range(1, 9))
			}
			vals = append(vals, fmt.Sprintf("%s:%d", vh.Hex(pool[perm[i]].Address()), p))
		}
		do("new a " + strings.Join(vals, " "))
		do("new b " + strings.Join(vals, " ")) // the replica that keeps running
		k := R.Range(1, 2*n+1)
		do(fmt.Sprintf("incr a %d", k))
		do(fmt.Sprintf("incr b %d", k))
		do("proposer a")
		want := do("proposer b")
		do("reload a")
		do("copy a c")
		do("copy c e")
		pc, pe, pa := do("proposer c"), do("proposer e"), do("proposer a")
		r.Count("directed.copy-of-reloaded-set")
		if pc != want || pe != want || pa != want {
			fail("copy-of-reloaded-set-names-another-proposer", "a copy (State.Copy, GetState) of a validator set that was read back from the state database names another proposer than the replica that kept running", "copy="+pc+" copy-of-copy="+pe+" reloaded="+pa, want)
			continue
		}
		do("incr c 1")
		do("incr b 1")
		if pc2, pb2 := do("proposer c"), do("proposer b"); pc2 != pb2 {
			fail("copy-of-reloaded-set-names-another-proposer", "after one more round the copy of a reloaded validator set names another proposer than the replica that kept running", pc2, pb2)
		}
	}
}
