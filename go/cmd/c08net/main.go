// C08 engine `hostilepeer`: a hostile peer against the REAL running node.
//
// The victim is the real node (go/cmd/c06node -serve: core.NewNode, one validator, consensus on its
// own timers, every reactor and every gossip goroutine running) in its own process. The harness is a
// peer: a real p2p.Switch that dials the node over loopback TCP, completes the real handshake and
// owns a reactor on every channel (consensus state / data / vote / vote-set-bits, block sync,
// mempool, peer exchange). It listens to what the node gossips (height, round, the proposal's parts
// header) and sends, on every channel: random bytes, empty and one-byte messages, truncated and
// over-long encodings, and every registered message type with hostile field values - heights and
// rounds around the node's own and at the integer limits, steps and vote types out of range, nil
// pointers, bit arrays whose length disagrees with their words, indices out of range, signatures of
// nobody, huge claimed sizes.
//
// Decided on the real thing: the node process stays alive (a panic outside a connection's recover
// kills it), and it keeps committing blocks during and after the attack (not wedged). Disconnecting
// the hostile peer is allowed: the harness dials again.
package main

import (
	"encoding/hex"
	"fmt"
	"io/ioutil"
	"math"
	"net"
	"os"
	"os/exec"
	"path/filepath"
	"reflect"
	"strconv"
	"strings"
	"sync"
	"time"

	"github.com/spf13/viper"
	"go.uber.org/zap"

	bc "github.com/dappledger/AnnChain/gemmill/blockchain"
	"github.com/dappledger/AnnChain/gemmill/consensus/pbft"
	crypto "github.com/dappledger/AnnChain/gemmill/go-crypto"
	wire "github.com/dappledger/AnnChain/gemmill/go-wire"
	gcmn "github.com/dappledger/AnnChain/gemmill/modules/go-common"
	log "github.com/dappledger/AnnChain/gemmill/modules/go-log"
	"github.com/dappledger/AnnChain/gemmill/p2p"
	"github.com/dappledger/AnnChain/gemmill/types"

	"verifharness/vh"
)

var channels = []byte{pbft.StateChannel, pbft.DataChannel, pbft.VoteChannel, pbft.VoteSetBitsChannel, bc.BlockchainChannel, 0x30, p2p.PexChannel}

// spy: the harness's reactor on every channel; it records what the node tells its peers
type spy struct {
	p2p.BaseReactor
	mtx   sync.Mutex
	h, r  int64
	hdr   types.PartSetHeader
	hdrOK bool
	nRecv int
	gone  chan struct{}
}

func (s *spy) GetChannels() []*p2p.ChannelDescriptor {
	var ds []*p2p.ChannelDescriptor
	for _, c := range channels {
		ds = append(ds, &p2p.ChannelDescriptor{ID: c, Priority: 5, SendQueueCapacity: 1000, RecvBufferCapacity: 1 << 20, RecvMessageCapacity: 1 << 22})
	}
	return ds
}
func (s *spy) AddPeer(*p2p.Peer) {}
func (s *spy) RemovePeer(*p2p.Peer, interface{}) {
	select {
	case s.gone <- struct{}{}:
	default:
	}
}
func (s *spy) Receive(ch byte, _ *p2p.Peer, bz []byte) {
	defer func() { recover() }()
	s.mtx.Lock()
	defer s.mtx.Unlock()
	s.nRecv++
	if ch < pbft.StateChannel || ch > pbft.VoteSetBitsChannel || len(bz) == 0 {
		return
	}
	_, msg, err := pbft.DecodeMessage(bz)
	if err != nil {
		return
	}
	switch m := msg.(type) {
	case *pbft.NewRoundStepMessage:
		s.h, s.r = m.Height, m.Round
	case *pbft.ProposalMessage:
		if m.Proposal != nil {
			s.hdr, s.hdrOK = m.Proposal.BlockPartsHeader, true
		}
	case *pbft.CommitStepMessage:
		s.hdr, s.hdrOK = m.BlockPartsHeader, true
	}
}

// rawMsg: a value whose wire encoding is exactly b (a byte array has no length prefix)
func rawMsg(b []byte) interface{} {
	t := reflect.ArrayOf(len(b), reflect.TypeOf(byte(0)))
	v := reflect.New(t).Elem()
	reflect.Copy(v, reflect.ValueOf(b))
	return v.Interface()
}

type env struct {
	r      *vh.Run
	node   string
	root   string
	dir    string
	child  *exec.Cmd
	errBuf *strings.Builder
	port   int
	sw     *p2p.Switch
	spy    *spy
	peer   *p2p.Peer
	sent   []string // the last messages sent (channel and hex): the replay
	dead   chan struct{}
}

func freePort() int {
	l, err := net.Listen("tcp", "127.0.0.1:0")
	if err != nil {
		return 46656
	}
	defer l.Close()
	return l.Addr().(*net.TCPAddr).Port
}

func (e *env) height() int64 {
	b, err := ioutil.ReadFile(filepath.Join(e.dir, "height.txt"))
	if err != nil {
		return -1
	}
	v, _ := strconv.ParseInt(strings.TrimSpace(string(b)), 10, 64)
	return v
}

func (e *env) alive() bool {
	select {
	case <-e.dead:
		return false
	default:
		return true
	}
}

func (e *env) startNode(seconds int) bool {
	e.dir = filepath.Join(e.root, "rt")
	os.RemoveAll(e.dir)
	if out, err := exec.Command(e.node, "-dir", e.dir, "-init").CombinedOutput(); err != nil {
		e.r.Count("init-failed")
		_ = out
		return false
	}
	e.port = freePort()
	e.child = exec.Command(e.node, "-dir", e.dir, "-run", "-serve", fmt.Sprint(seconds), "-port", fmt.Sprint(e.port))
	e.errBuf = &strings.Builder{}
	e.child.Stderr = e.errBuf
	if err := e.child.Start(); err != nil {
		return false
	}
	e.dead = make(chan struct{})
	go func(c *exec.Cmd, d chan struct{}) { c.Wait(); close(d) }(e.child, e.dead)
	for i := 0; i < 400 && e.alive(); i++ {
		if e.height() >= 2 {
			return true
		}
		time.Sleep(25 * time.Millisecond)
	}
	return false
}

func (e *env) stopNode() {
	if e.sw != nil {
		e.sw.Stop()
		e.sw = nil
	}
	if e.child != nil && e.alive() {
		e.child.Process.Kill()
		<-e.dead
	}
}

func (e *env) connect() bool {
	if e.sw == nil {
		conf := viper.New()
		conf.Set("auth_enc", true)
		conf.Set("skip_upnp", true)
		e.sw = p2p.NewSwitch(conf)
		e.spy = &spy{gone: make(chan struct{}, 1)}
		e.spy.BaseReactor = *p2p.NewBaseReactor("spy", e.spy)
		e.sw.AddReactor("SPY", e.spy)
		var seed [32]byte
		copy(seed[:], fmt.Sprintf("verif-hostile-peer-%d", e.r.Seed))
		key := crypto.GenPrivKeyEd25519FromSecret(seed[:])
		e.sw.SetNodePrivKey(key)
		e.sw.SetNodeInfo(&p2p.NodeInfo{PubKey: key.PubKey(), Moniker: "hostile", Network: "c06-chain", Version: "0.9.0", ListenAddr: "127.0.0.1:1"})
		e.sw.SetNodePrivKey(key)
		e.sw.SetExchangeData(&p2p.ExchangeData{})
		e.sw.SetDealExchangeDataFunc(func(*p2p.ExchangeData) error { return nil })
		e.sw.Start()
	}
	addr, err := p2p.NewNetAddressString(fmt.Sprintf("127.0.0.1:%d", e.port))
	if err != nil {
		return false
	}
	for try := 0; try < 20 && e.alive(); try++ {
		if p, err := e.sw.DialPeerWithAddress(addr); err == nil && p != nil {
			e.peer = p
			select {
			case <-e.spy.gone:
			default:
			}
			e.r.Count("connected")
			return true
		}
		time.Sleep(100 * time.Millisecond)
	}
	return false
}

func (e *env) send(ch byte, b []byte) {
	if e.peer == nil || !e.peer.IsRunning() {
		e.r.Count("disconnected-by-node")
		if !e.connect() {
			return
		}
	}
	e.sent = append(e.sent, fmt.Sprintf("send ch=%02x msg=%x", ch, b))
	if len(e.sent) > 400 {
		e.sent = e.sent[len(e.sent)-400:]
	}
	e.peer.TrySend(ch, rawMsg(b))
}

func enc(m interface{}) []byte {
	defer func() { recover() }()
	return wire.BinaryBytes(m)
}

// ---------------------------------------------------------------- generators

func (e *env) i64(R *vh.Rng, around int64) int64 {
	switch R.Intn(12) {
	case 0:
		return 0
	case 1:
		return -1
	case 2:
		return math.MaxInt64
	case 3:
		return math.MinInt64
	case 4:
		return 1 << 62
	case 5:
		return around + 1
	case 6:
		return around - 1
	case 7:
		return int64(R.Intn(1 << 30))
	default:
		return around
	}
}

func (e *env) bits(R *vh.Rng) *gcmn.BitArray {
	switch R.Intn(9) {
	case 0:
		return nil
	case 1:
		return gcmn.NewBitArray(1)
	case 2:
		return gcmn.NewBitArray(R.Range(1, 200))
	case 3: // more bits claimed than words carried
		return &gcmn.BitArray{Bits: R.Range(1, 500), Elems: nil}
	case 4:
		return &gcmn.BitArray{Bits: R.Range(65, 100000), Elems: []uint64{^uint64(0)}}
	case 5: // fewer bits than words
		return &gcmn.BitArray{Bits: 1, Elems: make([]uint64, R.Range(2, 50))}
	case 6:
		return &gcmn.BitArray{Bits: -R.Range(1, 1000), Elems: []uint64{1}}
	case 7:
		return &gcmn.BitArray{Bits: math.MaxInt32, Elems: []uint64{1, 2, 3}}
	default:
		b := gcmn.NewBitArray(R.Range(1, 8))
		for i := 0; i < b.Size(); i++ {
			b.SetIndex(i, R.Bool())
		}
		return b
	}
}

func (e *env) blockID(R *vh.Rng) types.BlockID {
	e.spy.mtx.Lock()
	hdr := e.spy.hdr
	e.spy.mtx.Unlock()
	switch R.Intn(5) {
	case 0:
		return types.BlockID{}
	case 1:
		return types.BlockID{Hash: R.Bytes(20), PartsHeader: hdr}
	case 2:
		return types.BlockID{Hash: R.Bytes(R.Intn(70)), PartsHeader: types.PartSetHeader{Total: int(e.i64(R, 1)), Hash: R.Bytes(R.Intn(40))}}
	default:
		return types.BlockID{Hash: R.Bytes(20), PartsHeader: types.PartSetHeader{Total: 1, Hash: R.Bytes(20)}}
	}
}

func (e *env) vote(R *vh.Rng, h, r int64) *types.Vote {
	if R.Chance(8) {
		return nil
	}
	v := &types.Vote{ValidatorAddress: R.Bytes([]int{0, 20, 20, 20, 33}[R.Intn(5)]), ValidatorIndex: int(e.i64(R, 0)), Height: e.i64(R, h), Round: e.i64(R, r),
		Type: []byte{0, 1, 2, 3, 255}[R.Intn(5)], BlockID: e.blockID(R)}
	if R.Chance(70) {
		var sig crypto.SignatureEd25519
		copy(sig[:], R.Bytes(64))
		v.Signature = sig
	}
	return v
}

// one hostile message: channel and bytes
func (e *env) gen(R *vh.Rng) (byte, []byte) {
	e.spy.mtx.Lock()
	h, r, hdr, hdrOK := e.spy.h, e.spy.r, e.spy.hdr, e.spy.hdrOK
	e.spy.mtx.Unlock()
	if h == 0 {
		h = e.height() + 1
	}
	ch := channels[R.Intn(len(channels))]
	c := R.Intn(100)
	switch {
	case c < 8: // bytes
		return ch, R.Bytes([]int{0, 1, 2, 5, 40, 300, 5000}[R.Intn(7)])
	case c < 12: // a known type byte followed by garbage
		return ch, append([]byte{[]byte{0x01, 0x02, 0x11, 0x12, 0x13, 0x14, 0x15, 0x16, 0x17, 0x10, 0x20, 0x21, 0x03}[R.Intn(13)]}, R.Bytes(R.Intn(60))...)
	case c < 16: // absurd length prefixes
		return ch, append([]byte{[]byte{0x11, 0x13, 0x14, 0x17, 0x03}[R.Intn(5)], 0x08, 0x7f, 0xff, 0xff, 0xff, 0xff, 0xff, 0xff, 0xff}, R.Bytes(R.Intn(20))...)
	}
	if c < 30 { // the other reactors: block sync, mempool, peer exchange
		be := func(v int64) []byte {
			b := make([]byte, 8)
			for i := 0; i < 8; i++ {
				b[7-i] = byte(uint64(v) >> (8 * uint(i)))
			}
			return b
		}
		switch R.Intn(8) {
		case 0: // block request
			return bc.BlockchainChannel, append([]byte{0x10}, be(e.i64(R, h-1))...)
		case 1: // status request / response
			return bc.BlockchainChannel, append([]byte{[]byte{0x20, 0x21}[R.Intn(2)]}, be(e.i64(R, h))...)
		case 2: // block response: no block, or garbage where the block should be
			if R.Bool() {
				return bc.BlockchainChannel, bc.VerifBlockResponseBytes(nil)
			}
			return bc.BlockchainChannel, append([]byte{0x11, 0x01}, R.Bytes(R.Intn(300))...)
		case 3: // a block response with holes
			b := &types.Block{Header: &types.Header{ChainID: "c06-chain", Height: e.i64(R, h)}}
			if R.Bool() {
				b.Data = &types.Data{}
			}
			if R.Bool() {
				b.LastCommit = &types.Commit{}
			}
			return bc.BlockchainChannel, bc.VerifBlockResponseBytes(b)
		case 4, 5: // mempool transaction: bytes of every kind
			tx := R.Bytes([]int{0, 1, 30, 200, 3000}[R.Intn(5)])
			return 0x30, append([]byte{0x01}, enc(tx)...)
		case 6: // peer exchange: request
			return p2p.PexChannel, []byte{0x01}
		default: // peer exchange: addresses
			n := R.Intn(6)
			b := []byte{0x02}
			b = append(b, enc(n)...)
			for i := 0; i < n; i++ {
				if R.Chance(10) {
					b = append(b, 0x00) // a nil address
					continue
				}
				b = append(b, 0x01)
				ip := R.Bytes([]int{0, 4, 16, 40}[R.Intn(4)])
				if R.Chance(40) {
					ip = []byte{127, 0, 0, 1}
				}
				b = append(b, enc(ip)...)                           // IP
				b = append(b, byte(R.Intn(256)), byte(R.Intn(256))) // port
			}
			return p2p.PexChannel, b
		}
	}
	var m pbft.ConsensusMessage
	switch R.Intn(12) {
	case 0, 1: // we are where the node is (its gossip routines then look at what we claim to have)
		m = &pbft.NewRoundStepMessage{Height: h, Round: r, Step: pbft.RoundStepType([]int{1, 2, 3, 4, 5, 6, 7, 8, 0, 200}[R.Intn(10)]), SecondsSinceStartTime: int(e.i64(R, 0)), LastCommitRound: e.i64(R, 0)}
		ch = pbft.StateChannel
	case 2:
		m = &pbft.NewRoundStepMessage{Height: e.i64(R, h), Round: e.i64(R, r), Step: pbft.RoundStepType(R.Intn(256)), SecondsSinceStartTime: int(e.i64(R, 0)), LastCommitRound: e.i64(R, -1)}
		ch = pbft.StateChannel
	case 3, 4: // the parts we claim to have of the node's own proposal
		cm := &pbft.CommitStepMessage{Height: h, BlockPartsHeader: hdr, BlockParts: e.bits(R)}
		if !hdrOK || R.Chance(20) {
			cm.BlockPartsHeader = types.PartSetHeader{Total: int(e.i64(R, 1)), Hash: R.Bytes(20)}
		}
		if R.Chance(15) {
			cm.Height = e.i64(R, h)
		}
		m, ch = cm, pbft.StateChannel
	case 5:
		m, ch = &pbft.HasVoteMessage{Height: e.i64(R, h), Round: e.i64(R, r), Type: []byte{0, 1, 2, 3, 255}[R.Intn(5)], Index: int(e.i64(R, 0))}, pbft.StateChannel
	case 6:
		m, ch = &pbft.VoteSetMaj23Message{Height: e.i64(R, h), Round: e.i64(R, r), Type: []byte{0, 1, 2, 3}[R.Intn(4)], BlockID: e.blockID(R)}, pbft.StateChannel
	case 7:
		m, ch = &pbft.VoteSetBitsMessage{Height: e.i64(R, h), Round: e.i64(R, r), Type: []byte{0, 1, 2, 3}[R.Intn(4)], BlockID: e.blockID(R), Votes: e.bits(R)}, pbft.VoteSetBitsChannel
	case 8:
		var p *types.Proposal
		if !R.Chance(10) {
			p = &types.Proposal{Height: e.i64(R, h), Round: e.i64(R, r), BlockPartsHeader: types.PartSetHeader{Total: int(e.i64(R, 1)), Hash: R.Bytes(20)}, POLRound: e.i64(R, -1), POLBlockID: e.blockID(R)}
			if R.Chance(60) {
				var sig crypto.SignatureEd25519
				copy(sig[:], R.Bytes(64))
				p.Signature = sig
			}
		}
		m, ch = &pbft.ProposalMessage{Proposal: p}, pbft.DataChannel
	case 9:
		m, ch = &pbft.ProposalPOLMessage{Height: e.i64(R, h), ProposalPOLRound: e.i64(R, r), ProposalPOL: e.bits(R)}, pbft.DataChannel
	case 10:
		var part *types.Part
		if !R.Chance(10) {
			part = &types.Part{Index: int(e.i64(R, 0)), Bytes: R.Bytes(R.Intn(200))}
		}
		m, ch = &pbft.BlockPartMessage{Height: e.i64(R, h), Round: e.i64(R, r), Part: part}, pbft.DataChannel
	default:
		m, ch = &pbft.VoteMessage{Vote: e.vote(R, h, r)}, pbft.VoteChannel
	}
	b := enc(struct{ pbft.ConsensusMessage }{m})
	if R.Chance(10) && len(b) > 2 { // truncated
		b = b[:R.Range(1, len(b)-1)]
	}
	if R.Chance(8) { // on another channel
		ch = channels[R.Intn(len(channels))]
	}
	return ch, b
}

func unhex(s string) []byte { b, _ := hex.DecodeString(s); return b }

// attack: msgs messages (generated, or replayed), then the verdict
func (e *env) attack(n int, replayed [][2]string) {
	R := e.r.R
	tail := "hostile"
	if !e.startNode(90) {
		e.r.Count("node-did-not-start")
		e.stopNode()
		return
	}
	defer e.stopNode()
	if !e.connect() {
		e.r.Count("could-not-connect")
		return
	}
	time.Sleep(300 * time.Millisecond) // hear where the node is
	h0 := e.height()
	e.sent = nil
	total := n
	if replayed != nil {
		total = len(replayed)
	}
	for i := 0; i < total && e.alive(); i++ {
		var ch byte
		var b []byte
		if replayed != nil {
			c, _ := strconv.ParseUint(replayed[i][0], 16, 8)
			ch, b = byte(c), unhex(replayed[i][1])
		} else {
			ch, b = e.gen(R)
		}
		e.r.Count(fmt.Sprintf("sent-ch-%02x", ch))
		if replayed == nil && i%3 == 0 {
			// a quiet episode: say where the node is (so that its gossip routines serve us), make ONE claim
			// about what we have, and give those routines time to look at it before the next message
			e.spy.mtx.Lock()
			h, r := e.spy.h, e.spy.r
			e.spy.mtx.Unlock()
			step := pbft.RoundStepType([]int{3, 4, 6}[R.Intn(3)])
			e.send(pbft.StateChannel, enc(struct{ pbft.ConsensusMessage }{&pbft.NewRoundStepMessage{Height: h, Round: r, Step: step, LastCommitRound: 0}}))
			e.send(ch, b)
			time.Sleep(130 * time.Millisecond)
			continue
		}
		e.send(ch, b)
		if i%25 == 24 {
			time.Sleep(60 * time.Millisecond) // let the node's gossip routines look at what we claimed
		}
	}
	time.Sleep(500 * time.Millisecond)
	h1 := e.height()
	// ... and afterwards: the node goes on
	progressed := false
	for i := 0; i < 120 && e.alive(); i++ {
		if e.height() >= h1+2 {
			progressed = true
			break
		}
		time.Sleep(50 * time.Millisecond)
	}
	ans := "alive progress=1"
	switch {
	case !e.alive():
		ans = "died"
		msg := e.errBuf.String()
		if i := strings.Index(msg, "panic:"); i >= 0 {
			msg = msg[i:]
		}
		if len(msg) > 1500 {
			msg = msg[:1500]
		}
		e.r.Fail(vh.Failure{Class: "node-process-killed-by-peer-input", Detail: "the node process died while a connected peer was sending it messages: " + strings.Replace(msg, "\n", " | ", -1),
			Ops: append([]string{"cfg", tail}, e.sent...), Got: "died", Want: "alive"})
	case !progressed:
		ans = "alive progress=0"
		e.r.Fail(vh.Failure{Class: "node-wedged-by-peer-input", Detail: fmt.Sprintf("after the hostile traffic the node stays at height %d (it was at %d before, %d after the traffic)", e.height(), h0, h1),
			Ops: append([]string{"cfg", tail}, e.sent...), Got: ans, Want: "alive progress=1"})
	}
	e.r.Distinct(fmt.Sprintf("%s/%d", ans, total/100))
	e.r.Op(fmt.Sprintf("hostile n=%d | %s", total, tail), ans)
}

func main() {
	r := vh.Start()
	defer r.Finish()
	log.SetLog(zap.NewNop())
	log.SetAuditLog(zap.NewNop())
	root, err := ioutil.TempDir("", "verif-c08net-")
	if err != nil {
		panic(err)
	}
	defer os.RemoveAll(root)
	node := os.Getenv("VERIF_C06NODE")
	if node == "" {
		self, _ := os.Executable()
		node = filepath.Join(filepath.Dir(self), "c06node")
	}
	e := &env{r: r, node: node, root: root}
	r.Op("cfg", "ok")
	if r.Replay != "" {
		var msgs [][2]string
		for _, l := range vh.ReadLines(r.Replay) {
			w := strings.Fields(l)
			if len(w) == 3 && w[0] == "send" {
				msgs = append(msgs, [2]string{strings.TrimPrefix(w[1], "ch="), strings.TrimPrefix(w[2], "msg=")})
			}
		}
		if len(msgs) > 0 {
			e.attack(0, msgs)
		}
		return
	}
	bitArrays(r)
	for q := r.Scale(2, 6); q > 0; q-- {
		e.attack(r.Scale(600, 1500), nil)
	}
}

// bitArrays: the operations the gossip routines apply to a peer's bit arrays, on arrays of every shape
// the decoder can produce - does the real code panic where the model (Model/BitArr.lean) says it does
func bitArrays(r *vh.Run) {
	R := r.R
	mkLast := func(bits, n int) *gcmn.BitArray { // only the last word has bits: PickRandom always gets to it
		a := &gcmn.BitArray{Bits: bits, Elems: make([]uint64, n)}
		if n > 0 {
			a.Elems[n-1] = ^uint64(0)
		}
		return a
	}
	mk := func(bits, n int) *gcmn.BitArray { // every word all ones: no `&&` of the loops is cut short
		a := &gcmn.BitArray{Bits: bits, Elems: make([]uint64, n)}
		for i := range a.Elems {
			a.Elems[i] = ^uint64(0)
		}
		return a
	}
	shape := func() (int, int) {
		switch R.Intn(8) {
		case 0:
			b := R.Range(1, 400)
			return b, (b + 63) / 64 // well formed
		case 1:
			return R.Range(1, 400), R.Intn(8)
		case 2:
			return -R.Range(1, 400), R.Intn(4)
		case 3:
			return 0, R.Intn(3)
		case 4:
			return R.Range(1, 64) * 64, R.Intn(8)
		case 5:
			return R.Range(1, 100000), 1
		case 6:
			return 1, R.Range(0, 6)
		default:
			b := R.Range(1, 130)
			return b, (b+63)/64 + R.Range(-1, 1)
		}
	}
	for q := r.Scale(3000, 30000); q > 0; q-- {
		ab, an := shape()
		if an < 0 {
			an = 0
		}
		var op, line string
		var f func()
		switch R.Intn(4) {
		case 0:
			i := R.Intn(500)
			op, line = "get", fmt.Sprintf("bitarr op=get a=%d:%d i=%d", ab, an, i)
			f = func() { mk(ab, an).GetIndex(i) }
		case 1:
			op, line = "pick", fmt.Sprintf("bitarr op=pick a=%d:%d", ab, an)
			f = func() { mkLast(ab, an).PickRandom() }
		case 2:
			ob, on := shape()
			if on < 0 {
				on = 0
			}
			op, line = "and", fmt.Sprintf("bitarr op=and a=%d:%d o=%d:%d", ab, an, ob, on)
			f = func() { mk(ab, an).And(mk(ob, on)) }
		default:
			ob, on := shape()
			if on < 0 {
				on = 0
			}
			op, line = "sub", fmt.Sprintf("bitarr op=sub a=%d:%d o=%d:%d", ab, an, ob, on)
			f = func() { mk(ab, an).Sub(mk(ob, on)) }
		}
		res := vh.Guard(func() string { f(); return "ok" })
		r.Count("bitarr-" + op + "-" + res)
		r.Op(line, res)
	}
}
