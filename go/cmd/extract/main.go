// extract: the translator half of the tie between /repo and the Lean models.
//
// It parses production files of /repo's working tree with go/ast and regenerates
// lean/AnnVerif/Gen/Facts.lean: the *decision logic* of the code as Lean definitions -
//
//   - named constants (enum values, limits)                          -> `def c_<name> : Int`
//   - boolean / integer decision expressions (guards, thresholds)    -> `def e_<site> (vars ...) : Bool|Int`
//   - if-trees (a run of nested ifs ending in return/continue/panic) -> `def t_<site> (vars ...) : String`
//
// Every variable of an expression is a parameter (selector chains are flattened: cs.Round -> cs_Round,
// calls without arguments too: valSet.TotalVotingPower() -> valSet_TotalVotingPower); `x != nil`
// becomes the Boolean parameter x_notNil. Integer division is Go's (truncating): Int.tdiv.
// The hand-written theorems of lean/AnnVerif/Ties/*.lean state that each generated definition equals
// the corresponding definition of the model FOR ALL values of the parameters; they are re-checked by
// `lake build` on every run, so a change of the code's decision logic breaks a proof obligation.
//
// The translator is deliberately tiny: a site it cannot find or a construct it does not know is an
// error (exit 1, listed), never a guess.
package main

import (
	"flag"
	"fmt"
	"go/ast"
	"go/parser"
	"go/printer"
	"go/token"
	"os"
	"path/filepath"
	"regexp"
	"sort"
	"strings"
)

type site struct {
	name  string // Lean name suffix
	file  string // path below the repo root
	fn    string // enclosing function (method) name
	kind  string // "if": condition of the if matching `match`; "assign": rhs of the assignment to `match`; "return": result of the (last) return matching `match`; "tree": if-tree of the function body / of the comm clause matching `match`
	match string // regexp on the source text of the condition / lhs / returned expression / comm clause
	stop  string // tree: a statement whose text matches is the leaf "reach:<stop>"
	props string // which properties' ties use it (documentation)
}

// operands that are compared for (in)equality only and are not integers (strings, byte slices): `a != b`
// becomes the Boolean parameter ne_a_b / `a == b` eq_a_b. Per site, by flattened name.
var opaque = map[string]*regexp.Regexp{
	"validateBasic":         regexp.MustCompile(`ChainID|chainID`),
	"privval_save":          regexp.MustCompile(`filePath`),
	"opCreate_returnsData":  regexp.MustCompile(`suberr`),
	"opCreate2_returnsData": regexp.MustCompile(`suberr`),
}
var curOpaque *regexp.Regexp

var sites = []site{
	// ---- vote accounting thresholds (C15, C01, C02, C13, C14)
	{"voteSet_quorum", "gemmill/types/vote_set.go", "addVerifiedVote", "assign", `^quorum$`, "", "C15 C01"},
	{"voteSet_crossed", "gemmill/types/vote_set.go", "addVerifiedVote", "if", `origSum\W+quorum`, "", "C15 C01"},
	{"voteSet_copy_cond", "gemmill/types/vote_set.go", "addVerifiedVote", "if", `^vote\W+nil`, "", "C02 C15"},
	{"makePartSet", "gemmill/types/block.go", "MakePartSet", "return", `NewPartSetFromData`, "", "C17"},
	{"opCreate_returnsData", "eth/core/vm/instructions.go", "opCreate", "if", `^suberr\W+(errExecutionReverted|nil)$`, "", "C10 C09"},
	{"opCreate2_returnsData", "eth/core/vm/instructions.go", "opCreate2", "tree", "", "", "C10 C09"},
	{"privval_save", "gemmill/types/priv_validator.go", "save", "tree", "", `WriteFileAtomic`, "C03"},
	{"blockID_equals_shape", "gemmill/types/block.go", "Equals", "tree", "", "", "C13 C15 C02"},
	{"blockID_equals", "gemmill/types/block.go", "Equals", "return", `bytes\.Equal\(blockID\.Hash`, "", "C13 C15 C02"},
	{"partSetHeader_equals", "gemmill/types/part_set.go", "Equals", "return", `psh\.Total`, "", "C13 C15 C02 C17"},
	{"valset_update_total", "gemmill/types/validator_set.go", "Update", "assign", `^valSet\.totalVotingPower$`, "", "C15 C16 C14"},
	{"voteSet_twoThirdsAny", "gemmill/types/vote_set.go", "HasTwoThirdsAny", "return", `TotalVotingPower`, "", "C15 C04"},
	{"voteSet_hasAll", "gemmill/types/vote_set.go", "HasAll", "return", `TotalVotingPower`, "", "C15 C04"},
	{"verifyCommit_enough", "gemmill/types/validator_set.go", "VerifyCommit", "if", `talliedVotingPower\W+valSet`, "", "C02 C13 C15"},
	{"checkMajor23", "gemmill/plugin/admin_op.go", "CheckMajor23", "return", `TotalVotingPower`, "", "C14"},
	{"voteSet_addVote", "gemmill/types/vote_set.go", "addVote", "tree", "", `addVerifiedVote\(`, "C15 C08"},
	{"admin_from", "gemmill/plugin/admin_op.go", "ProcessAdminOP", "if", `app\.From\(\)`, "", "C14"},
	{"admin_nonce", "gemmill/plugin/admin_op.go", "ProcessAdminOP", "if", `vAttr\.Nonce`, "", "C14"},
	{"admin_samePower", "gemmill/plugin/admin_op.go", "ProcessAdminOP", "if", `val\.VotingPower\W+vAttr\.Power`, "", "C14"},
	// ---- block validation (C02, C13), proposer comparison (C16)
	{"validateBasic", "gemmill/types/block.go", "ValidateBasic", "tree", "", "", "C02 C13"},
	{"validateCommit", "gemmill/types/block.go", "ValidateCommit", "tree", "", "", "C02 C13"},
	{"compareAccum", "gemmill/types/validator.go", "CompareAccum", "tree", "", "", "C16"},
	// ---- transaction admission (C09)
	{"preCheck", "eth/core/state_transition.go", "preCheck", "tree", "", "", "C09"},
	{"executeKVTx", "chain/app/evm/evm.go", "executeKVTx", "tree", "", `state\.SetNonce`, "C09 C05"},
	// ---- transaction pool admission (C19), peer admission (C20), received bit arrays (C08)
	{"checkAndAdd", "chain/app/evm/tx_pool.go", "CheckAndAdd", "tree", "", `^tp\.all\[tx\.Hash\(\)\] = rawTx$`, "C19"},
	{"admit_exempt", "gemmill/angine.go", "authByCA", "if", `valset\.HasAddress`, "", "C20"},
	{"bitarray_wf", "gemmill/consensus/pbft/reactor.go", "wellFormedBitArray", "return", `bA`, "", "C08"},
	// ---- transport framing (C20)
	{"packet_isLast", "gemmill/p2p/connection.go", "nextMsgPacket", "if", `len\(ch\.sending\)\W+maxMsgPacketPayloadSize`, "", "C20"},
	{"packet_take", "gemmill/p2p/connection.go", "nextMsgPacket", "slicehi", `^ch\.sending\[:`, "", "C20"},
	{"packet_tooLong", "gemmill/p2p/connection.go", "recvMsgPacket", "if", `RecvMessageCapacity`, "", "C20"},
	{"packet_eof", "gemmill/p2p/connection.go", "recvMsgPacket", "if", `packet\.EOF`, "", "C20"},
	{"frame_split", "gemmill/p2p/secret_connection.go", "Write", "if", `dataMaxSize\W+len\(data\)`, "", "C20"},
	// ---- round state machine guards (C04, C08, C12, C07)
	{"handleTimeout_stale", "gemmill/consensus/pbft/state.go", "handleTimeout", "if", `ti\.Height\W+rs\.Height`, "", "C04 C08 C12"},
	{"enterNewRound_guard", "gemmill/consensus/pbft/state.go", "enterNewRound", "if", `cs\.Height\W+height`, "", "C04"},
	{"enterPropose_guard", "gemmill/consensus/pbft/state.go", "enterPropose", "if", `cs\.Height\W+height`, "", "C04"},
	{"enterPrevote_guard", "gemmill/consensus/pbft/state.go", "enterPrevote", "if", `cs\.Height\W+height`, "", "C04"},
	{"doPrevote_lock", "gemmill/consensus/pbft/state.go", "defaultDoPrevote", "tree", "", `^cs\.signAddVote\(types\.VoteTypePrevote, cs\.LockedBlock\.Hash\(\)`, "C04"},
	{"doPrevote_block", "gemmill/consensus/pbft/state.go", "defaultDoPrevote", "tree", "", `^cs\.signAddVote\(types\.VoteTypePrevote, cs\.ProposalBlock\.Hash\(\)`, "C04"},
	{"enterPrevoteWait_guard", "gemmill/consensus/pbft/state.go", "enterPrevoteWait", "if", `cs\.Height\W+height`, "", "C04"},
	{"enterPrecommit_guard", "gemmill/consensus/pbft/state.go", "enterPrecommit", "if", `cs\.Height\W+height`, "", "C04"},
	{"enterPrecommitWait_guard", "gemmill/consensus/pbft/state.go", "enterPrecommitWait", "if", `cs\.Height\W+height`, "", "C04"},
	{"enterCommit_guard", "gemmill/consensus/pbft/state.go", "enterCommit", "if", `cs\.Height\W+height`, "", "C04"},
	{"finalizeCommit_guard", "gemmill/consensus/pbft/state.go", "finalizeCommit", "if", `cs\.Height\W+height`, "", "C04"},
	{"setProposal_wrongHR", "gemmill/consensus/pbft/state.go", "defaultSetProposal", "if", `proposal\.Height\W+cs\.Height`, "", "C04 C08"},
	{"setProposal_inCommit", "gemmill/consensus/pbft/state.go", "defaultSetProposal", "if", `^RoundStepCommit\W+cs\.Step`, "", "C04 C08"},
	{"setProposal_badPOL", "gemmill/consensus/pbft/state.go", "defaultSetProposal", "if", `^proposal\.POLRound\W+1`, "", "C04 C08"},
	{"addVote_unlock", "gemmill/consensus/pbft/state.go", "addVote", "if", `cs\.LockedRound\W+vote\.Round`, "", "C04 C01"},
	{"addVote_lastHeight", "gemmill/consensus/pbft/state.go", "addVote", "if", `vote\.Height\+1 == cs\.Height`, "", "C04 C08"},
	{"addVote_straggler", "gemmill/consensus/pbft/state.go", "addVote", "if", `cs\.Step == RoundStepNewHeight && vote\.Type`, "", "C04 C08"},
	{"addVote_prevoteAny", "gemmill/consensus/pbft/state.go", "addVote", "if", `cs\.Round <= vote\.Round && prevotes\.HasTwoThirdsAny`, "", "C04"},
	{"addVote_precommitAny", "gemmill/consensus/pbft/state.go", "addVote", "if", `cs\.Round <= vote\.Round && precommits\.HasTwoThirdsAny`, "", "C04"},
	{"addVote_polComplete", "gemmill/consensus/pbft/state.go", "addVote", "if", `cs\.Proposal != nil && 0 <= cs\.Proposal\.POLRound`, "", "C04"},
	{"enterPrecommit_polRound", "gemmill/consensus/pbft/state.go", "enterPrecommit", "if", `^polRound\W+round$`, "", "C04"},
	// ---- signer (C03), ticker (C12)
	{"signBytesHRS", "gemmill/types/priv_validator.go", "signBytesHRS", "tree", "", `privVal\.Sign\(`, "C03"},
	{"ticker_filter", "gemmill/consensus/pbft/ticker.go", "timeoutRoutine", "tree", `newti := <-t\.tickChan`, `t\.stopTimer\(\)`, "C12"},
	// ---- Merkle / part set (C17)
	{"addPart", "gemmill/types/part_set.go", "AddPart", "tree", "", `^ps\.parts\[part\.Index\] = part$`, "C17 C08"},
	{"proof_badIndex", "gemmill/modules/go-merkle/simple_tree.go", "computeHashFromAunts", "if", `index\W+0\W`, "", "C17"},
	{"proof_numLeft", "gemmill/modules/go-merkle/simple_tree.go", "computeHashFromAunts", "assign", `^numLeft$`, "", "C17"},
	{"proof_goLeft", "gemmill/modules/go-merkle/simple_tree.go", "computeHashFromAunts", "if", `^index < numLeft$`, "", "C17"},
	{"tree_shape", "gemmill/modules/go-merkle/simple_tree.go", "SimpleHashFromHashes", "tree", "", "", "C17"},
	{"tree_split", "gemmill/modules/go-merkle/simple_tree.go", "SimpleHashFromHashes", "slicehi", `^hashes\[:`, "", "C17"},
	{"proof_shape", "gemmill/modules/go-merkle/simple_tree.go", "computeHashFromAunts", "tree", "", "", "C17"},
}

type constSite struct{ file, re string }

// constants: every `name = literal` / `name = T(literal)` of these files whose name matches
var consts = []constSite{
	{"gemmill/consensus/pbft/state.go", `^RoundStep`},
	{"gemmill/types/vote.go", `^VoteType`},
	{"gemmill/types/priv_validator.go", `^step`},
	{"gemmill/p2p/secret_connection.go", `^(dataLenSize|dataMaxSize|totalFrameSize)$`},
	{"gemmill/p2p/connection.go", `^(maxMsgPacketPayloadSize|maxMsgPacketOverheadSize|packetType)`},
	{"gemmill/go-wire/wire.go", `^ReadSliceChunkSize$`},
}

var fset = token.NewFileSet()
var files = map[string]*ast.File{}
var constVals = map[string]string{} // known constants: name -> Lean literal

func src(n ast.Node) string {
	var sb strings.Builder
	printer.Fprint(&sb, fset, n)
	return strings.Join(strings.Fields(sb.String()), " ")
}

func parse(repo, rel string) (*ast.File, error) {
	if f, ok := files[rel]; ok {
		return f, nil
	}
	f, err := parser.ParseFile(fset, filepath.Join(repo, rel), nil, 0)
	if err != nil {
		return nil, err
	}
	files[rel] = f
	return f, nil
}

func findFunc(f *ast.File, name string) *ast.FuncDecl {
	for _, d := range f.Decls {
		if fd, ok := d.(*ast.FuncDecl); ok && fd.Name.Name == name && fd.Body != nil {
			return fd
		}
	}
	return nil
}

// ------------------------------------------------------------------ expressions

type env struct {
	vars map[string]string // flattened name -> "Int" | "Bool"
	errs []string
}

// names bound by `if x, ok := f(...); ok {`: the identifier stands for a result of that call
var subst = map[string]string{}

func flat(e ast.Expr) (string, bool) {
	switch x := e.(type) {
	case *ast.Ident:
		if r, ok := subst[x.Name]; ok {
			return r, true
		}
		return x.Name, true
	case *ast.SelectorExpr:
		if p, ok := flat(x.X); ok {
			return p + "_" + x.Sel.Name, true
		}
	case *ast.ParenExpr:
		return flat(x.X)
	case *ast.StarExpr:
		return flat(x.X)
	case *ast.BasicLit:
		if x.Kind == token.STRING {
			return regexp.MustCompile(`[^A-Za-z0-9]+`).ReplaceAllString(strings.Trim(x.Value, "\"`"), "_"), true
		}
	case *ast.IndexExpr:
		a, ok1 := flat(x.X)
		b, ok2 := flat(x.Index)
		if ok1 && ok2 {
			return a + "_at_" + b, true
		}
	case *ast.CallExpr:
		// conversions int64(x), int(x), len(x) and argument-less getters
		if id, ok := x.Fun.(*ast.Ident); ok && len(x.Args) == 1 {
			switch id.Name {
			case "int64", "int", "int8", "int32", "uint64", "uint":
				return flat(x.Args[0])
			case "len":
				if p, ok := flat(x.Args[0]); ok {
					return "len_" + p, true
				}
			}
		}
		if p, ok := flat(x.Fun); ok {
			parts := []string{p}
			for _, a := range x.Args {
				q, ok := flat(a)
				if !ok {
					return "", false
				}
				parts = append(parts, q)
			}
			return strings.Join(parts, "_"), true
		}
	}
	return "", false
}

func (v *env) use(name, typ string) string {
	if _, ok := constVals[name]; ok {
		return "c_" + name
	}
	if i := strings.Index(name, "_"); i > 0 { // package-qualified constant: types.VoteTypePrecommit
		if _, ok := constVals[name[i+1:]]; ok {
			return "c_" + name[i+1:]
		}
	}
	if old, ok := v.vars[name]; ok && old != typ {
		v.errs = append(v.errs, fmt.Sprintf("variable %s used as %s and as %s", name, old, typ))
	}
	v.vars[name] = typ
	return name
}

func isNil(e ast.Expr) bool {
	id, ok := e.(*ast.Ident)
	return ok && id.Name == "nil"
}

// intExpr / boolExpr: Lean text of a Go expression in the given type
func (v *env) intExpr(e ast.Expr) string {
	switch x := e.(type) {
	case *ast.ParenExpr:
		return v.intExpr(x.X)
	case *ast.BasicLit:
		if x.Kind == token.INT {
			return "(" + litInt(x.Value) + " : Int)"
		}
	case *ast.UnaryExpr:
		if x.Op == token.SUB {
			return "(-" + v.intExpr(x.X) + ")"
		}
	case *ast.BinaryExpr:
		a, b := v.intExpr(x.X), v.intExpr(x.Y)
		switch x.Op {
		case token.ADD:
			return "(" + a + " + " + b + ")"
		case token.SUB:
			return "(" + a + " - " + b + ")"
		case token.MUL:
			return "(" + a + " * " + b + ")"
		case token.QUO:
			return "(Int.tdiv " + a + " " + b + ")"
		case token.REM:
			return "(Int.tmod " + a + " " + b + ")"
		}
	}
	if c, ok := e.(*ast.CallExpr); ok && len(c.Args) == 1 {
		switch src(c.Fun) { // conversions
		case "byte", "int", "int8", "int32", "int64", "uint", "uint64":
			return v.intExpr(c.Args[0])
		}
	}
	if c, ok := e.(*ast.CallExpr); ok && len(c.Args) == 2 {
		switch src(c.Fun) {
		case "gcmn.MinInt", "MinInt":
			return "(min " + v.intExpr(c.Args[0]) + " " + v.intExpr(c.Args[1]) + ")"
		case "gcmn.MaxInt", "MaxInt":
			return "(max " + v.intExpr(c.Args[0]) + " " + v.intExpr(c.Args[1]) + ")"
		}
	}
	if n, ok := flat(e); ok {
		return v.use(n, "Int")
	}
	v.errs = append(v.errs, "cannot translate integer expression: "+src(e))
	return "0"
}

func litInt(s string) string {
	var n int64
	if _, err := fmt.Sscanf(s, "%v", &n); err == nil {
		return fmt.Sprintf("%d", n)
	}
	return s
}

func (v *env) boolExpr(e ast.Expr) string {
	switch x := e.(type) {
	case *ast.ParenExpr:
		return v.boolExpr(x.X)
	case *ast.UnaryExpr:
		if x.Op == token.NOT {
			return "(!" + v.boolExpr(x.X) + ")"
		}
	case *ast.BinaryExpr:
		switch x.Op {
		case token.LAND:
			return "(" + v.boolExpr(x.X) + " && " + v.boolExpr(x.Y) + ")"
		case token.LOR:
			return "(" + v.boolExpr(x.X) + " || " + v.boolExpr(x.Y) + ")"
		case token.EQL, token.NEQ:
			if isNil(x.Y) || isNil(x.X) {
				o := x.X
				if isNil(x.X) {
					o = x.Y
				}
				n, ok := flat(o)
				if !ok {
					break
				}
				nn := v.use(n+"_notNil", "Bool")
				if x.Op == token.NEQ {
					return nn
				}
				return "(!" + nn + ")"
			}
			if fa, ok1 := flat(x.X); ok1 && curOpaque != nil && curOpaque.MatchString(fa) {
				if fb, ok2 := flat(x.Y); ok2 {
					nn := v.use("eq_"+fa+"_"+fb, "Bool")
					if x.Op == token.EQL {
						return nn
					}
					return "(!" + nn + ")"
				}
			}
			a, b := v.intExpr(x.X), v.intExpr(x.Y)
			if x.Op == token.EQL {
				return "(" + a + " == " + b + ")"
			}
			return "(" + a + " != " + b + ")"
		case token.LSS:
			return "(decide (" + v.intExpr(x.X) + " < " + v.intExpr(x.Y) + "))"
		case token.LEQ:
			return "(decide (" + v.intExpr(x.X) + " ≤ " + v.intExpr(x.Y) + "))"
		case token.GTR:
			return "(decide (" + v.intExpr(x.X) + " > " + v.intExpr(x.Y) + "))"
		case token.GEQ:
			return "(decide (" + v.intExpr(x.X) + " ≥ " + v.intExpr(x.Y) + "))"
		}
	}
	if n, ok := flat(e); ok {
		return v.use(n, "Bool")
	}
	v.errs = append(v.errs, "cannot translate boolean expression: "+src(e))
	return "false"
}

func isBoolExpr(e ast.Expr) bool {
	switch x := e.(type) {
	case *ast.ParenExpr:
		return isBoolExpr(x.X)
	case *ast.UnaryExpr:
		return x.Op == token.NOT
	case *ast.BinaryExpr:
		switch x.Op {
		case token.LAND, token.LOR, token.EQL, token.NEQ, token.LSS, token.LEQ, token.GTR, token.GEQ:
			return true
		}
	}
	return false
}

// ------------------------------------------------------------------ trees

// tree of a statement list: the first terminating statement decides; other statements are skipped
func (v *env) tree(stmts []ast.Stmt, stop *regexp.Regexp, ind string) string {
	saved := map[string]string{} // bindings made on this path stay on this path
	for k, x := range subst {
		saved[k] = x
	}
	defer func() { subst = saved }()
	for i, s := range stmts {
		if stop != nil && stop.MatchString(src(s)) {
			return "\"reach\""
		}
		switch x := s.(type) {
		case *ast.AssignStmt:
			// `a, err := f(...)`: from here on the names stand for results of that call
			if x.Tok == token.DEFINE && len(x.Rhs) == 1 {
				if call, ok := flat(x.Rhs[0]); ok {
					if _, isCall := x.Rhs[0].(*ast.CallExpr); isCall {
						for _, l := range x.Lhs {
							if id, isId := l.(*ast.Ident); isId && id.Name != "_" {
								subst[id.Name] = call + "_" + id.Name
							}
						}
					}
				}
			}
		case *ast.ReturnStmt:
			parts := []string{}
			for _, r := range x.Results {
				parts = append(parts, src(r))
			}
			return leaf("return " + strings.Join(parts, ", "))
		case *ast.BranchStmt:
			return leaf(x.Tok.String())
		case *ast.ExprStmt:
			t := src(x)
			if strings.Contains(t, "Panic") || strings.HasPrefix(t, "panic(") {
				return leaf("panic")
			}
		case *ast.BlockStmt:
			return v.tree(append(append([]ast.Stmt{}, x.List...), stmts[i+1:]...), stop, ind)
		case *ast.SwitchStmt:
			// switch tag { case a, b: ...; default: ... } = a chain of ifs on tag == a || tag == b
			if x.Init != nil || x.Tag == nil {
				v.errs = append(v.errs, "switch without tag / with init inside a tree")
				return "\"?\""
			}
			rest := stmts[i+1:]
			var def []ast.Stmt
			type arm struct {
				cond string
				body []ast.Stmt
			}
			arms := []arm{}
			for _, c := range x.Body.List {
				cc := c.(*ast.CaseClause)
				if cc.List == nil {
					def = cc.Body
					continue
				}
				conds := []string{}
				for _, e := range cc.List {
					conds = append(conds, "("+v.intExpr(x.Tag)+" == "+v.intExpr(e)+")")
				}
				arms = append(arms, arm{strings.Join(conds, " || "), cc.Body})
			}
			res := v.tree(append(append([]ast.Stmt{}, def...), rest...), stop, ind+"  ")
			for k := len(arms) - 1; k >= 0; k-- {
				t := v.tree(append(append([]ast.Stmt{}, arms[k].body...), rest...), stop, ind+"  ")
				res = "(if " + arms[k].cond + " then\n" + ind + "  " + t + "\n" + ind + "else\n" + ind + "  " + res + ")"
			}
			return res
		case *ast.IfStmt:
			if x.Init != nil {
				as, ok := x.Init.(*ast.AssignStmt)
				okForm := ok && len(as.Rhs) == 1
				if okForm {
					if call, isCall := flat(as.Rhs[0]); isCall {
						for _, l := range as.Lhs {
							if id, isId := l.(*ast.Ident); isId && id.Name != "_" {
								subst[id.Name] = call + "_" + id.Name
							}
						}
					} else {
						okForm = false
					}
				}
				if !okForm {
					v.errs = append(v.errs, "if with an init statement that is not `x, ok := f(...)`: "+src(x.Cond))
				}
			}
			rest := stmts[i+1:]
			thenT := v.tree(append(append([]ast.Stmt{}, x.Body.List...), rest...), stop, ind+"  ")
			var elseT string
			if x.Else != nil {
				elseT = v.tree(append([]ast.Stmt{x.Else}, rest...), stop, ind+"  ")
			} else {
				elseT = v.tree(rest, stop, ind+"  ")
			}
			if thenT == elseT { // the if decides nothing (e.g. a log statement)
				return thenT
			}
			c := v.boolExpr(x.Cond)
			return "(if " + c + " then\n" + ind + "  " + thenT + "\n" + ind + "else\n" + ind + "  " + elseT + ")"
		}
	}
	return "\"end\""
}

func leaf(s string) string {
	s = strings.ReplaceAll(s, `\`, `\\`)
	s = strings.ReplaceAll(s, `"`, `'`)
	return `"` + s + `"`
}

// ------------------------------------------------------------------ sites

func locate(fd *ast.FuncDecl, st site) (ast.Node, string) {
	re := regexp.MustCompile(st.match)
	var found ast.Node
	count := 0
	ast.Inspect(fd.Body, func(n ast.Node) bool {
		switch x := n.(type) {
		case *ast.IfStmt:
			if st.kind == "if" && re.MatchString(src(x.Cond)) {
				if found == nil {
					found = x.Cond
				}
				count++
			}
		case *ast.AssignStmt:
			if st.kind == "assign" && len(x.Lhs) == 1 && len(x.Rhs) == 1 && re.MatchString(src(x.Lhs[0])) {
				if found == nil {
					found = x.Rhs[0]
				}
				count++
			}
		case *ast.SliceExpr:
			if st.kind == "slicehi" && x.High != nil && re.MatchString(src(x)) {
				if found == nil {
					found = x.High
				}
				count++
			}
		case *ast.ReturnStmt:
			if st.kind == "return" && len(x.Results) == 1 && re.MatchString(src(x.Results[0])) {
				found = x.Results[0] // the last one
				count = 1
			}
		case *ast.CommClause:
			if st.kind == "tree" && st.match != "" && x.Comm != nil && re.MatchString(src(x.Comm)) {
				found = x
				count++
			}
		}
		return true
	})
	if st.kind == "tree" && st.match == "" {
		return fd.Body, ""
	}
	if found == nil {
		return nil, "no " + st.kind + " matching /" + st.match + "/ in func " + st.fn
	}
	if count > 1 {
		return nil, fmt.Sprintf("%d %s sites match /%s/ in func %s", count, st.kind, st.match, st.fn)
	}
	return found, ""
}

// jumpTable: every `operation{execute: opX, ..., validateStack: makeStackFunc(p, q) | makeDupStackFunc(n) |
// makeSwapStackFunc(n), ...}` literal of jump_table.go, keyed by the opcode it is assigned to
// (`instructionSet[OP] = operation{...}` and `OP: {...}` inside the frontier table), later tables overriding
// earlier ones in the order frontier, homestead, byzantium, constantinople.
func jumpTable(repo string) string {
	f, err := parse(repo, "eth/core/vm/jump_table.go")
	if err != nil {
		return ""
	}
	type ent struct {
		exec        string
		pops, pushs int
	}
	tab := map[string]ent{}
	order := []string{}
	read := func(op string, lit *ast.CompositeLit) {
		e := ent{pops: -1}
		for _, el := range lit.Elts {
			kv, ok := el.(*ast.KeyValueExpr)
			if !ok {
				continue
			}
			switch src(kv.Key) {
			case "execute":
				e.exec = src(kv.Value)
			case "validateStack":
				if c, ok := kv.Value.(*ast.CallExpr); ok {
					arg := func(i int) int {
						var n int
						fmt.Sscanf(src(c.Args[i]), "%v", &n)
						return n
					}
					switch src(c.Fun) {
					case "makeStackFunc":
						e.pops, e.pushs = arg(0), arg(1)
					case "makeDupStackFunc":
						e.pops, e.pushs = arg(0), arg(0)+1
					case "makeSwapStackFunc":
						e.pops, e.pushs = arg(0), arg(0) // makeSwapStackFunc(n+1) for SWAPn
					}
				}
			}
		}
		if e.exec != "" && e.pops >= 0 {
			if _, seen := tab[op]; !seen {
				order = append(order, op)
			}
			tab[op] = e
		}
	}
	for _, fn := range []string{"newFrontierInstructionSet", "newHomesteadInstructionSet", "newByzantiumInstructionSet", "newConstantinopleInstructionSet"} {
		fd := findFunc(f, fn)
		if fd == nil {
			continue
		}
		ast.Inspect(fd.Body, func(n ast.Node) bool {
			switch x := n.(type) {
			case *ast.AssignStmt:
				if len(x.Lhs) == 1 && len(x.Rhs) == 1 {
					if ix, ok := x.Lhs[0].(*ast.IndexExpr); ok {
						if lit, ok := x.Rhs[0].(*ast.CompositeLit); ok {
							read(src(ix.Index), lit)
						}
					}
				}
			case *ast.KeyValueExpr:
				if lit, ok := x.Value.(*ast.CompositeLit); ok {
					if id, ok := x.Key.(*ast.Ident); ok && strings.ToUpper(id.Name) == id.Name {
						read(id.Name, lit)
					}
				}
			}
			return true
		})
	}
	if len(order) == 0 {
		return ""
	}
	var sb strings.Builder
	sb.WriteString("/-- eth/core/vm/jump_table.go: opcode, execute function, stack items needed, stack items left in their place\n" +
		"    (the Constantinople table: later instruction sets override earlier ones) -/\n" +
		"def jumpTable : List (String × String × Nat × Nat) := [\n")
	for i, op := range order {
		e := tab[op]
		sep := ","
		if i == len(order)-1 {
			sep = ""
		}
		fmt.Fprintf(&sb, "  (%q, %q, %d, %d)%s\n", op, e.exec, e.pops, e.pushs, sep)
	}
	sb.WriteString("]\n\n")
	return sb.String()
}

func main() {
	repo := flag.String("repo", "/repo", "repository root")
	out := flag.String("out", "", "output directory (lean/AnnVerif/Gen)")
	only := flag.String("only", "", "comma separated site names that MUST be found (default: all)")
	flag.Parse()
	must := map[string]bool{}
	for _, s := range strings.Split(*only, ",") {
		if s != "" {
			must[s] = true
		}
	}
	var sb strings.Builder
	sb.WriteString("/-\n  GENERATED by /verif/go/cmd/extract from /repo's working tree - do not edit.\n" +
		"  Constants, decision expressions and if-trees of the production code as Lean definitions.\n" +
		"  The theorems of AnnVerif/Ties/*.lean tie them to the models for all parameter values.\n-/\n" +
		"namespace AnnVerif.Gen\n\n")
	problems := []string{}
	fatal := false

	// constants
	for _, cs := range consts {
		f, err := parse(*repo, cs.file)
		if err != nil {
			problems = append(problems, "const "+cs.file+": "+err.Error())
			fatal = true
			continue
		}
		re := regexp.MustCompile(cs.re)
		n := 0
		for _, d := range f.Decls {
			gd, ok := d.(*ast.GenDecl)
			if !ok || gd.Tok != token.CONST {
				continue
			}
			for _, sp := range gd.Specs {
				vs := sp.(*ast.ValueSpec)
				for i, id := range vs.Names {
					if !re.MatchString(id.Name) || i >= len(vs.Values) {
						continue
					}
					val := vs.Values[i]
					if ce, ok := val.(*ast.CallExpr); ok && len(ce.Args) == 1 { // T(0x01)
						val = ce.Args[0]
					}
					v := &env{vars: map[string]string{}}
					txt := v.intExpr(val)
					if len(v.errs) > 0 || len(v.vars) > 0 {
						problems = append(problems, "const "+id.Name+": not a literal: "+src(val))
						fatal = true
						continue
					}
					constVals[id.Name] = txt
					fmt.Fprintf(&sb, "/-- %s: `%s = %s` -/\ndef c_%s : Int := %s\n\n", cs.file, id.Name, src(vs.Values[i]), id.Name, txt)
					n++
				}
			}
		}
		if n == 0 {
			problems = append(problems, "no constant matching /"+cs.re+"/ in "+cs.file)
			fatal = true
		}
	}

	// sites
	for _, st := range sites {
		required := len(must) == 0 || must[st.name]
		fail := func(msg string) {
			problems = append(problems, st.name+": "+msg)
			fmt.Fprintf(&sb, "-- MISSING %s: %s\n\n", st.name, msg)
			if required {
				fatal = true
			}
		}
		f, err := parse(*repo, st.file)
		if err != nil {
			fail(err.Error())
			continue
		}
		fd := findFunc(f, st.fn)
		if fd == nil {
			fail("func " + st.fn + " not found in " + st.file)
			continue
		}
		node, msg := locate(fd, st)
		if node == nil {
			fail(msg)
			continue
		}
		v := &env{vars: map[string]string{}}
		subst = map[string]string{}
		curOpaque = opaque[st.name]
		var body, typ, prefix, orig string
		switch st.kind {
		case "tree":
			var stmts []ast.Stmt
			if cc, ok := node.(*ast.CommClause); ok {
				stmts = cc.Body
			} else {
				stmts = node.(*ast.BlockStmt).List
			}
			var stop *regexp.Regexp
			if st.stop != "" {
				stop = regexp.MustCompile(st.stop)
			}
			body, typ, prefix = v.tree(stmts, stop, "  "), "String", "t_"
			orig = "if-tree of " + st.fn
		default:
			e := node.(ast.Expr)
			orig = src(e)
			if isBoolExpr(e) {
				body, typ = v.boolExpr(e), "Bool"
			} else {
				body, typ = v.intExpr(e), "Int"
			}
			prefix = "e_"
		}
		if len(v.errs) > 0 {
			fail(strings.Join(v.errs, "; "))
			continue
		}
		names := []string{}
		for n := range v.vars {
			names = append(names, n)
		}
		sort.Strings(names)
		params := ""
		for _, n := range names {
			params += fmt.Sprintf(" (%s : %s)", n, v.vars[n])
		}
		fmt.Fprintf(&sb, "/-- %s, func %s (%s): `%s` -/\ndef %s%s%s : %s :=\n  %s\n\n", st.file, st.fn, st.props,
			strings.ReplaceAll(orig, "-/", "- /"), prefix, st.name, params, typ, body)
	}
	// the EVM jump table: opcode -> (execute function, stack items it needs, stack items it leaves for them)
	if jt := jumpTable(*repo); jt != "" {
		sb.WriteString(jt)
	} else {
		problems = append(problems, "jump table: no operation literals found in eth/core/vm/jump_table.go")
		if len(must) == 0 || must["jumpTable"] {
			fatal = true
		}
	}
	sb.WriteString("end AnnVerif.Gen\n")

	if *out != "" {
		os.MkdirAll(*out, 0755)
		p := filepath.Join(*out, "Facts.lean")
		old, _ := os.ReadFile(p)
		if string(old) != sb.String() {
			tmp := p + fmt.Sprintf(".tmp%d", os.Getpid())
			if err := os.WriteFile(tmp, []byte(sb.String()), 0644); err != nil {
				fmt.Println("write:", err)
				os.Exit(2)
			}
			os.Rename(tmp, p)
			fmt.Println("facts changed:", p)
		} else {
			fmt.Println("facts unchanged:", p)
		}
	} else {
		fmt.Print(sb.String())
	}
	for _, p := range problems {
		fmt.Println("PROBLEM:", p)
	}
	if fatal {
		os.Exit(1)
	}
}
