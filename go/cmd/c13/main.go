// C13 correspondence harness: fast sync.
//
// A source chain is grown by a real pbft.ConsensusState following consensus live (validator powers
// change on the way). A second node catches up with the REAL BlockchainReactor and BlockPool: the
// pool's requesters run as in production, the harness plays the peers through the reactor's real
// Receive / RemovePeer (wire-encoded block and status responses), and the SYNC_LOOP of poolRoutine
// is run one iteration at a time through the `verif` hook VerifTrySync. Verifier and executer are
// wired to the syncing node's state with the statements gemmill/angine.go uses (compared textually
// with angine.go on every run).
//
// Every step is written as a line for the Lean model (Model/Sync.lean), which re-executes it; the
// model's answers are compared with the implementation's. Independently of the model the harness
// checks that no block other than the source chain's is ever stored or executed, and that the node
// ends in the state of the live node and commits the next block through consensus.
package main

import (
	"bytes"
	"crypto/sha256"
	"encoding/json"
	"fmt"
	"io/ioutil"
	"net"
	"os"
	"os/exec"
	"path/filepath"
	"sort"
	"strings"
	"sync/atomic"
	"time"

	"github.com/spf13/viper"
	"go.uber.org/zap"

	"github.com/dappledger/AnnChain/gemmill/archive"

	bc "github.com/dappledger/AnnChain/gemmill/blockchain"
	crypto "github.com/dappledger/AnnChain/gemmill/go-crypto"
	wire "github.com/dappledger/AnnChain/gemmill/go-wire"
	log "github.com/dappledger/AnnChain/gemmill/modules/go-log"
	"github.com/dappledger/AnnChain/gemmill/p2p"
	sm "github.com/dappledger/AnnChain/gemmill/state"
	"github.com/dappledger/AnnChain/gemmill/types"

	"verifharness/nodeimpl"
	"verifharness/nodekit"
	"verifharness/vh"
)

const partSize = 65536

func hexs(b []byte) string { return fmt.Sprintf("%x", b) }
func bidStr(b types.BlockID) string {
	return fmt.Sprintf("%x,%d,%x", b.Hash, b.PartsHeader.Total, b.PartsHeader.Hash)
}
func valsStr(vs *types.ValidatorSet) string {
	var xs []string
	for _, v := range vs.Validators {
		xs = append(xs, fmt.Sprintf("%x:%d", v.Address, v.VotingPower))
	}
	return strings.Join(xs, ",")
}

func classifyVerify(err error) string {
	if err == nil {
		return "ok"
	}
	s := err.Error()
	switch {
	case strings.Contains(s, "wrong set size"):
		return "size"
	case strings.Contains(s, "Invalid commit -- wrong height"):
		return "height"
	case strings.Contains(s, "Invalid commit -- wrong round"):
		return "pround"
	case strings.Contains(s, "not precommit"):
		return "ptype"
	case strings.Contains(s, "invalid signature"):
		return "sig"
	case strings.Contains(s, "wrong validator"):
		return "slot"
	case strings.Contains(s, "insufficient voting power"):
		return "power"
	}
	return "other:" + s
}

type snap struct {
	lastID          types.BlockID
	app, rec, vhash []byte
	vals, lastVals  string
}

// recorder stands where angine's bcReactor variable stands; it wraps the closures to observe them.
type recorder struct {
	bcR      *bc.BlockchainReactor
	during   func()
	verified bool
	verr     error
	executed *types.Block
	exerr    error
	onExec   func(*types.Block)
	skipExec func() bool
}

func (r *recorder) SetBlockVerifier(v func(types.BlockID, int64, *types.Commit) error) {
	r.bcR.SetBlockVerifier(func(b types.BlockID, h int64, lc *types.Commit) error {
		if r.during != nil {
			f := r.during
			r.during = nil
			f()
		}
		r.verified = true
		r.verr = v(b, h, lc)
		return r.verr
	})
}

func (r *recorder) SetBlockExecuter(x func(*types.Block, *types.PartSet, *types.Commit) error) {
	r.bcR.SetBlockExecuter(func(b *types.Block, p *types.PartSet, c *types.Commit) error {
		r.executed = b
		if r.onExec != nil {
			r.onExec(b)
		}
		if r.skipExec != nil && r.skipExec() {
			// a block nobody committed was handed to the executer on the reactor's own goroutine: the
			// violation is recorded; executing it would only kill the process (PanicQ) with the evidence
			return nil
		}
		r.exerr = x(b, p, c)
		return r.exerr
	})
}

type scen struct {
	r           *vh.Run
	src, dst    *nodeimpl.Impl
	powers      []int64 // genesis
	cur         []int64
	me          int
	H           int64
	blocks      map[int64]*types.Block
	seen        map[int64]*types.Commit
	snaps       map[int64]snap
	pw          map[int64][]int64
	genVals     string
	genVH       []byte
	bcR         *bc.BlockchainReactor
	pool        *bc.BlockPool
	rec         *recorder
	peers       map[string]*p2p.Peer
	peerH       map[string]int64
	stateM      *sm.State
	lines       []string // the scenario so far (for failures)
	dead        bool
	stop        chan struct{}
	applied     int64
	live        bool
	switched    chan struct{}
	inDuring    int32
	forged      int
	finishQuiet bool
}

func field(d, k string) string {
	for _, f := range strings.Fields(d) {
		if strings.HasPrefix(f, k+"=") {
			return f[len(k)+1:]
		}
	}
	return ""
}

// advance1 commits one height on the live node (as go/cmd/c02)
func (x *scen) advance1(R *vh.Rng) bool {
	im := x.src
	n := len(x.cur)
	d := im.Digest()
	h := nodeimpl.Atoi(field(d, "h"))
	if field(d, "s") == "NewHeight" {
		d = im.Exec(fmt.Sprintf("timeout %d 0 NewHeight", h))
	}
	rs := im.C.CS.GetRoundState()
	paddr := rs.Validators.Proposer().Address
	p := 0
	for i := 0; i < n; i++ {
		if bytes.Equal(im.C.Addr(i), paddr) {
			p = i
		}
	}
	if p != x.me {
		nm := fmt.Sprintf("s%d", h)
		im.Exec(fmt.Sprintf("mkblock %s proposer=%d valid=1", nm, p))
		im.Exec(fmt.Sprintf("proposal %s h=%d r=0 pol=-1 polblock=- signer=%d bad=0", nm, h, p))
		im.Exec(fmt.Sprintf("parts %s h=%d r=0", nm, h))
	}
	d = im.Exec("drain")
	for k := 0; k < 4 && nodeimpl.Atoi(field(im.Digest(), "h")) == h && nodeimpl.Atoi(field(im.Digest(), "q")) > 0; k++ {
		d = im.Exec("drain")
	}
	if nodeimpl.Atoi(field(im.Digest(), "h")) == h+1 {
		return true
	}
	parts := strings.Split(d, "||")
	blk := field(parts[len(parts)-1], "pb")
	if blk == "-" || blk == "" {
		return false
	}
	for i := 0; i < n; i++ {
		if i != x.me {
			im.Exec(fmt.Sprintf("vote t=1 h=%d r=0 idx=%d addr=%x block=%s ok=1 peer=p%d", h, i, im.C.Addr(i), blk, i))
		}
	}
	im.Exec("drain")
	order := R.Perm(n)
	var tot, nilPower int64
	for _, pw := range x.cur {
		tot += pw
	}
	for _, i := range order {
		if i == x.me {
			continue
		}
		b := blk
		if R.Chance(20) && (tot-nilPower-x.cur[i])*3 > tot*2 {
			b = "-"
			nilPower += x.cur[i]
		}
		im.Exec(fmt.Sprintf("vote t=2 h=%d r=0 idx=%d addr=%x block=%s ok=1 peer=p%d", h, i, im.C.Addr(i), b, i))
		im.Exec("drain")
		if nodeimpl.Atoi(field(im.Digest(), "h")) > h {
			break
		}
	}
	for k := 0; k < 3 && nodeimpl.Atoi(field(im.Digest(), "h")) == h; k++ {
		im.Exec("drain")
	}
	return nodeimpl.Atoi(field(im.Digest(), "h")) == h+1
}

func takeSnap(s *sm.State) snap {
	return snap{s.LastBlockID, append([]byte{}, s.AppHash...), append([]byte{}, s.ReceiptsHash...), s.Validators.Hash(),
		valsStr(s.Validators), valsStr(s.LastValidators)}
}

func powersStr(p []int64) string {
	var xs []string
	for _, v := range p {
		xs = append(xs, fmt.Sprint(v))
	}
	return strings.Join(xs, ",")
}

// setup grows the source chain and builds the syncing node; returns the model's `chain` line
func (x *scen) setup(kv map[string]string) string {
	x.close()
	x.powers = nil
	for _, p := range strings.Split(kv["powers"], ",") {
		x.powers = append(x.powers, nodeimpl.Atoi(p))
	}
	x.cur = append([]int64{}, x.powers...)
	x.me = int(nodeimpl.Atoi(kv["me"]))
	x.H = nodeimpl.Atoi(kv["heights"])
	R := vh.NewRng(uint64(nodeimpl.Atoi(kv["seed"])))
	x.src = &nodeimpl.Impl{}
	x.src.Exec(fmt.Sprintf("init n=%d me=%d powers=%s skip=0", len(x.powers), x.me, powersStr(x.powers)))
	changes := map[int64]nodekit.PowerChange{}
	var chs []string
	for h := int64(1); h <= x.H; h++ {
		if R.Chance(45) {
			c := nodekit.PowerChange{Idx: R.Intn(len(x.powers)), Power: int64(R.Range(1, 9))}
			changes[h] = c
			chs = append(chs, fmt.Sprintf("%d:%d:%d", h, c.Idx, c.Power))
		}
	}
	x.src.C.Changes = changes
	g := x.src.C.CS.VerifState()
	x.genVals, x.genVH = valsStr(g.Validators), g.Validators.Hash()
	x.blocks, x.seen, x.snaps, x.pw = map[int64]*types.Block{}, map[int64]*types.Commit{}, map[int64]snap{}, map[int64][]int64{}
	x.pw[1] = append([]int64{}, x.cur...)
	x.snaps[0] = takeSnap(g)
	for h := int64(1); h <= x.H; h++ {
		if !x.advance1(R) {
			return "setup-failed"
		}
		next := append([]int64{}, x.cur...)
		if ch, has := changes[h]; has {
			next[ch.Idx] = ch.Power
		}
		x.cur = next
		x.pw[h+1] = next
		x.blocks[h] = x.src.C.Store.LoadBlock(h)
		x.seen[h] = x.src.C.Store.LoadSeenCommit(h)
		x.snaps[h] = takeSnap(x.src.C.CS.VerifState())
	}
	// the syncing node: same genesis, same application, follows only
	x.dst = &nodeimpl.Impl{Registry: x.src.Registry, OwnPrefix: "d"}
	x.dst.Exec(fmt.Sprintf("init n=%d me=-1 powers=%s skip=0", len(x.powers), powersStr(x.powers)))
	x.dst.C.Changes = changes
	x.wire()
	x.peers, x.peerH = map[string]*p2p.Peer{}, map[string]int64{}
	for _, ph := range strings.Split(kv["peers"], ",") {
		f := strings.Split(ph, ":")
		x.status(f[0], nodeimpl.Atoi(f[1]))
	}
	x.live = kv["live"] == "1"
	if x.live {
		// the reactor's own goroutine: poolRoutine with its tickers, as in production
		x.bcR.SetSwitch(p2p.NewSwitch(viper.New()))
		evsw := types.NewEventSwitch()
		evsw.Start()
		x.switched = make(chan struct{}, 1)
		types.AddListenerForEvent(evsw, "verif", types.EventStringSwitchToConsensus(), func(types.TMEventData) {
			select {
			case x.switched <- struct{}{}:
			default:
			}
		})
		x.bcR.SetEventSwitch(evsw)
		x.bcR.Start()
		x.settle()
		return "chain live=1"
	}
	x.pool.Start()
	x.stop = make(chan struct{})
	if kv["nodrain"] == "1" { // the reactor is busy in its SYNC_LOOP: nobody reads the request channel
		return "chain nodrain=1"
	}
	go func(stop chan struct{}, req <-chan bc.BlockRequest, to <-chan string) { // the reactor's side of the channels
		for {
			select {
			case <-req:
			case <-to:
			case <-stop:
				return
			}
		}
	}(x.stop, x.bcR.VerifRequests(), x.bcR.VerifTimeouts())
	x.settle()
	var vhs, srcs []string
	for h := int64(1); h <= x.H+1; h++ {
		vhs = append(vhs, fmt.Sprintf("%d:%x", h, x.snaps[h-1].vhash))
	}
	for h := int64(1); h <= x.H; h++ {
		srcs = append(srcs, fmt.Sprintf("%d:%s", h, bidStr(x.snaps[h].lastID)))
	}
	return fmt.Sprintf("chain chain=%s H=%d vals=%s changes=%s vhs=%s src=%s", nodekit.ChainID, x.H, x.genVals,
		strings.Join(chs, ";"), strings.Join(vhs, ";"), strings.Join(srcs, ";"))
}

// wire installs verifier and executer the way gemmill/angine.go assembleStateMachine does
func (x *scen) wire() {
	conf := viper.New()
	conf.Set("block_part_size", partSize)
	stateM := x.dst.C.CS.VerifState()
	blockStore := x.dst.C.Store
	txPool := nodekit.NewPool()
	evsw := x.dst.C.EventSwitch()
	ang := struct{ eventSwitch *types.EventSwitch }{&evsw}
	x.bcR = bc.NewBlockchainReactor(conf, stateM.LastBlockHeight, blockStore, true, &archive.Archive{})
	x.pool = x.bcR.VerifPool()
	bcReactor := &recorder{bcR: x.bcR}
	x.rec = bcReactor
	x.stateM = stateM
	liveForged := false
	bcReactor.skipExec = func() bool { return liveForged }
	bcReactor.onExec = func(b *types.Block) {
		// independent of the model: only the source chain's block may be stored and executed
		real := x.blocks[b.Height]
		if real == nil || !bytes.Equal(real.Hash(), b.Hash()) || !bytes.Equal(wire.BinaryBytes(real), wire.BinaryBytes(b)) {
			x.forged++
			if x.live {
				liveForged = true
			}
			x.r.Fail(vh.Failure{Class: "fast-sync-applied-a-block-that-is-not-the-committed-one",
				Detail: fmt.Sprintf("height %d: stored and executed block %X, the chain committed %X", b.Height, b.Hash(), x.snaps[b.Height].lastID.Hash),
				Ops:    append(append([]string{}, x.lines...), "complete | complete"), Got: "applied", Want: "not applied"})
		}
	}
	// VERIF-COPY-BEGIN verifier
	bcReactor.SetBlockVerifier(func(bID types.BlockID, h int64, lc *types.Commit) error {
		return stateM.Validators.VerifyCommit(stateM.ChainID, bID, h, lc)
	})
	// VERIF-COPY-END
	// VERIF-COPY-BEGIN executer
	bcReactor.SetBlockExecuter(func(blk *types.Block, pst *types.PartSet, c *types.Commit) error {
		blockStore.SaveBlock(blk, pst, c)
		if err := stateM.ApplyBlock(*ang.eventSwitch, blk, pst.Header(), txPool, -1); err != nil {
			log.Error("bc,ApplyBlock err", zap.Int64("height", blk.Height), zap.Error(err))
			return err
		}
		stateM.Save()
		// VERIF-COPY-END
		return nil
	})
}

func (x *scen) close() {
	if x.stop != nil {
		close(x.stop)
		x.stop = nil
	}
	if x.live && x.bcR != nil {
		x.bcR.Stop()
	}
	if x.pool != nil {
		x.pool.Stop()
		x.pool = nil
	}
	x.live = false
	if x.src != nil && x.src.C != nil {
		x.src.C.Close()
	}
	if x.dst != nil && x.dst.C != nil {
		x.dst.C.Close()
	}
	x.src, x.dst = nil, nil
}

// status: the peer reports its height (real Receive of a status response)
func (x *scen) status(id string, h int64) {
	if x.peers[id] == nil {
		x.peers[id] = &p2p.Peer{Key: id, NodeInfo: &p2p.NodeInfo{RemoteAddr: id}}
	}
	x.peerH[id] = h
	x.bcR.Receive(bc.BlockchainChannel, x.peers[id], bc.VerifStatusResponseBytes(h))
}

func (x *scen) hasPeerFor(h int64) bool {
	for _, id := range x.pool.VerifPeers() {
		if x.peerH[id] >= h {
			return true
		}
	}
	return false
}

// settle waits until every request up to H that can be assigned is assigned to a peer the pool
// still knows (removed peers' requesters reset asynchronously)
func (x *scen) settle() {
	deadline := time.Now().Add(3 * time.Second)
	for time.Now().Before(deadline) {
		known := map[string]bool{}
		for _, id := range x.pool.VerifPeers() {
			known[id] = true
		}
		ok := true
		for h := x.pool.VerifHeight(); h <= x.H; h++ {
			id, _ := x.pool.VerifHolder(h)
			if id == "" {
				if x.hasPeerFor(h) {
					ok = false
				}
			} else if !known[id] {
				ok = false
			}
		}
		if ok {
			return
		}
		time.Sleep(200 * time.Microsecond)
	}
	x.r.Count("settle-timeout")
}

func clone(b *types.Block) *types.Block {
	bz := wire.BinaryBytes(b)
	var n int
	var err error
	c := wire.ReadBinary(&types.Block{}, bytes.NewReader(bz), types.MaxBlockSize, &n, &err).(*types.Block)
	if err != nil {
		panic(err)
	}
	return c
}

func (x *scen) key(i int) crypto.PrivKeyEd25519 { return x.src.C.Keys[i] }

func (x *scen) sign(idx int, h, r int64, t byte, id types.BlockID, signer int) *types.Vote {
	return x.src.C.SignVote(idx, x.src.C.Addr(idx), h, r, t, id, signer, false)
}

func idOf(b *types.Block) types.BlockID {
	return types.BlockID{Hash: b.Hash(), PartsHeader: b.MakePartSet(partSize).Header()}
}

// insufficient: a largest set of positions whose power is NOT more than 2/3 of the total in force at h
func (x *scen) insufficient(h int64, R *vh.Rng) []int {
	pw := x.pw[h]
	var tot, got int64
	for _, p := range pw {
		tot += p
	}
	var set []int
	for _, i := range R.Perm(len(pw)) {
		if (got+pw[i])*3 <= tot*2 {
			got += pw[i]
			set = append(set, i)
		}
	}
	sort.Ints(set)
	return set
}

// forge: a block for height h on the real parent, internally consistent, that nobody committed
func (x *scen) forge(h int64) *types.Block {
	real := x.blocks[h]
	b := &types.Block{
		Header: &types.Header{ChainID: real.ChainID, Height: h, Time: real.Time, NumTxs: 1, LastBlockID: real.LastBlockID,
			ValidatorsHash: real.ValidatorsHash, AppHash: real.AppHash, ReceiptsHash: real.ReceiptsHash, ProposerAddress: real.ProposerAddress},
		LastCommit: clone(real).LastCommit,
		Data:       &types.Data{Txs: []types.Tx{types.Tx("mint 1000000 to mallory")}},
	}
	b.FillHeader()
	return b
}

// extraOf: block h with Header.Extra changed - the header hash does not cover it, the part set does
func (x *scen) extraOf(h int64) *types.Block {
	b := clone(x.blocks[h])
	b.Header.Extra = []byte("another part set, the same header hash")
	return b
}

// minorityCommit: precommits for `id` at height h by a set that is not more than 2/3
func (x *scen) minorityCommit(h int64, id types.BlockID, R *vh.Rng) *types.Commit {
	n := len(x.powers)
	pre := make([]*types.Vote, n)
	for _, i := range x.insufficient(h, R) {
		pre[i] = x.sign(i, h, 0, types.VoteTypePrecommit, id, i)
	}
	return &types.Commit{BlockID: id, Precommits: pre}
}

// variant: the block a peer serves for requested height rh
func (x *scen) variant(rh int64, kind string, R *vh.Rng) *types.Block {
	if x.blocks[rh] == nil {
		return nil
	}
	b := clone(x.blocks[rh])
	n := len(x.powers)
	nonNil := func() []int {
		var js []int
		for j, v := range b.LastCommit.Precommits {
			if v != nil {
				js = append(js, j)
			}
		}
		return js
	}
	rehash := func() {
		if R.Chance(50) {
			b.Header.LastCommitHash = b.LastCommit.Hash()
		}
	}
	switch kind {
	case "honest":
	case "txs":
		b.Data.Txs = []types.Tx{types.Tx("mint 1000000 to mallory")}
	case "txs-rehash":
		b.Data.Txs = []types.Tx{types.Tx("mint 1000000 to mallory")}
		b.Header.DataHash = b.Data.Hash()
	case "time":
		b.Header.Time = b.Header.Time.Add(time.Second)
	case "apphash":
		b.Header.AppHash = []byte("evil")
	case "valhash":
		b.Header.ValidatorsHash = []byte("evil")
	case "proposer":
		b.Header.ProposerAddress = x.src.C.Addr((R.Intn(n)))
	case "lastblockid":
		if len(b.Header.LastBlockID.Hash) == 0 {
			b.Header.LastBlockID.Hash = []byte{0x66}
		} else {
			b.Header.LastBlockID.Hash = append([]byte{0x66}, b.Header.LastBlockID.Hash[1:]...)
		}
	case "height+":
		if x.blocks[rh+1] != nil {
			b = clone(x.blocks[rh+1])
		}
	case "height-":
		if x.blocks[rh-1] != nil {
			b = clone(x.blocks[rh-1])
		}
	case "forge":
		b = x.forge(rh)
	case "forge-child": // a child of the forged block rh-1 carrying a minority's precommits for it
		if rh >= 2 {
			f := x.forge(rh - 1)
			b.Header.LastBlockID = idOf(f)
			b.LastCommit = x.minorityCommit(rh-1, idOf(f), R)
			b.Header.LastCommitHash = b.LastCommit.Hash()
		}
	case "lc-minority": // the real block's commit cut down to a minority
		if rh >= 2 {
			keep := map[int]bool{}
			for _, i := range x.insufficient(rh-1, R) {
				keep[i] = true
			}
			for j := range b.LastCommit.Precommits {
				if !keep[j] {
					b.LastCommit.Precommits[j] = nil
				}
			}
			rehash()
		}
	case "lc-nil":
		b.LastCommit = nil
	case "lc-allnil":
		for j := range b.LastCommit.Precommits {
			b.LastCommit.Precommits[j] = nil
		}
		rehash()
	case "lc-idx":
		if js := nonNil(); len(js) > 0 {
			j := js[R.Intn(len(js))]
			b.LastCommit.Precommits[j].ValidatorIndex = (j + 1 + R.Intn(n)) % (n + 1)
			rehash()
		}
	case "lc-addr":
		if js := nonNil(); len(js) > 0 {
			j := js[R.Intn(len(js))]
			if R.Chance(50) {
				b.LastCommit.Precommits[j].ValidatorAddress = x.src.C.Addr((j + 1) % n)
			} else {
				b.LastCommit.Precommits[j].ValidatorAddress = []byte("stranger")
			}
			rehash()
		}
	case "lc-badsig":
		if js := nonNil(); len(js) > 0 {
			j := js[R.Intn(len(js))]
			sig := b.LastCommit.Precommits[j].Signature.(crypto.SignatureEd25519)
			sig[9] ^= 0x10
			b.LastCommit.Precommits[j].Signature = sig
			rehash()
		}
	case "lc-swap":
		if js := nonNil(); len(js) > 1 {
			p := b.LastCommit.Precommits
			p[js[0]], p[js[1]] = p[js[1]], p[js[0]]
			rehash()
		}
	case "lc-round": // one validator's precommit replaced by a validly signed one of another round
		if js := nonNil(); len(js) > 0 && rh >= 2 {
			j := js[R.Intn(len(js))]
			v := b.LastCommit.Precommits[j]
			b.LastCommit.Precommits[j] = x.sign(j, v.Height, v.Round+1, v.Type, v.BlockID, j)
			rehash()
		}
	case "lc-other": // one validator's precommit replaced by a validly signed one for another block
		if js := nonNil(); len(js) > 0 && rh >= 2 {
			j := js[R.Intn(len(js))]
			v := b.LastCommit.Precommits[j]
			b.LastCommit.Precommits[j] = x.sign(j, v.Height, v.Round, v.Type, idOf(x.forge(rh-1)), j)
			rehash()
		}
	case "lc-extra":
		b.LastCommit.Precommits = append(b.LastCommit.Precommits, nil)
		rehash()
	case "lc-nil-badsig", "lc-other-badsig": // a precommit that does not count (nil / another block) and does not verify
		if js := nonNil(); len(js) > 0 && rh >= 2 {
			j := js[R.Intn(len(js))]
			v := b.LastCommit.Precommits[j]
			id := types.BlockID{}
			if kind == "lc-other-badsig" {
				id = idOf(x.forge(rh - 1))
			}
			nv := x.sign(j, v.Height, v.Round, v.Type, id, j)
			sig := nv.Signature.(crypto.SignatureEd25519)
			sig[11] ^= 0x20
			nv.Signature = sig
			b.LastCommit.Precommits[j] = nv
			rehash()
		}
	case "hashless": // a forged block whose header does not hash (no validators hash): its id has no hash, only parts
		b = x.forge(rh)
		b.Header.ValidatorsHash = nil
	case "lc-hashless": // child of the hashless forgery of rh-1, "justified" by genuine precommits FOR NIL of a failed round
		if rh >= 2 && x.blocks[rh-1] != nil {
			f := x.forge(rh - 1)
			f.Header.ValidatorsHash = nil
			id := idOf(f)
			b.Header.LastBlockID = id
			c := &types.Commit{BlockID: id}
			for j := range x.pw[rh-1] {
				c.Precommits = append(c.Precommits, x.sign(j, rh-1, 0, types.VoteTypePrecommit, types.BlockID{}, j))
			}
			b.LastCommit = c
			b.Header.LastCommitHash = c.Hash()
		}
	case "extra": // same header hash (Header.Extra is not hashed), another part set
		b = x.extraOf(rh)
	case "lc-relabel": // child of the "extra" variant of rh-1: the first precommit genuine, the others name the
		// other part set of the same header hash and keep the signatures they were given for the genuine one
		if rh >= 2 && x.blocks[rh-1] != nil {
			id := idOf(x.extraOf(rh - 1))
			b.Header.LastBlockID = id
			b.LastCommit.BlockID = id
			first := true
			for j, v := range b.LastCommit.Precommits {
				if v == nil {
					continue
				}
				if first {
					first = false
					continue
				}
				c := *v
				c.BlockID = id
				b.LastCommit.Precommits[j] = &c
			}
			b.Header.LastCommitHash = b.LastCommit.Hash()
		}
	case "nil-data":
		b.Data = nil
	case "nil-header":
		b.Header = nil
	}
	return b
}

// render a served block for the model
func (x *scen) render(b *types.Block) string {
	n := len(x.powers)
	var slots []string
	cbid := types.BlockID{}
	lcd := []byte{}
	if b.LastCommit != nil {
		cbid = b.LastCommit.BlockID
		lcd = (&types.Commit{BlockID: b.LastCommit.BlockID, Precommits: b.LastCommit.Precommits}).Hash()
		for pos, v := range b.LastCommit.Precommits {
			if v == nil {
				slots = append(slots, "-")
				continue
			}
			sb := types.SignBytes(nodekit.ChainID, v)
			okSlot, okIdx := false, false
			if pos < n {
				okSlot = x.key(pos).PubKey().VerifyBytes(sb, v.Signature)
			}
			if v.ValidatorIndex >= 0 && v.ValidatorIndex < n {
				okIdx = x.key(v.ValidatorIndex).PubKey().VerifyBytes(sb, v.Signature)
			}
			var sid uint64
			if sig, ok := v.Signature.(crypto.SignatureEd25519); ok {
				d := sha256.Sum256(sig[:])
				for _, c := range d[:7] {
					sid = sid<<8 | uint64(c)
				}
			}
			slots = append(slots, fmt.Sprintf("%d,%x,%d,%d,%d,%s,%d,%s,%s", v.ValidatorIndex, v.ValidatorAddress, v.Height, v.Round, v.Type,
				bidStr(v.BlockID), sid, vh.B01(okSlot), vh.B01(okIdx)))
		}
	}
	dd := []byte{}
	ntx := 0
	if b.Data != nil {
		dd = (&types.Data{Txs: b.Data.Txs, ExTxs: b.Data.ExTxs}).Hash()
		ntx = len(b.Data.Txs) + len(b.Data.ExTxs)
	}
	return fmt.Sprintf("bchain=%s h=%d numtxs=%d ntx=%d lbid=%s dh=%x dd=%x app=%x rec=%x lch=%x lcd=%x vh=%x prop=%x cbid=%s slots %s",
		b.ChainID, b.Height, b.NumTxs, ntx, bidStr(b.LastBlockID), b.DataHash, dd, b.AppHash, b.ReceiptsHash, b.LastCommitHash, lcd,
		b.ValidatorsHash, b.ProposerAddress, bidStr(cbid), strings.Join(slots, " "))
}

func (x *scen) emit(model, tail, res string) {
	if x.finishQuiet && !strings.HasPrefix(model, "live") {
		return
	}
	if x.live && !strings.HasPrefix(model, "live") && !strings.HasPrefix(model, "chain") {
		return // live scenarios run on the reactor's own goroutine: not a step-by-step trace
	}
	line := model + " | " + tail
	x.r.Op(line, res)
	x.lines = append(x.lines, line)
}

// serve: the peer the request for rh is assigned to answers with a variant of the block
func (x *scen) serve(rh int64, kind string, seed uint64, from string) {
	R := vh.NewRng(seed)
	tail := fmt.Sprintf("serve rh=%d kind=%s seed=%d from=%s", rh, kind, seed, from)
	peerID, _ := x.pool.VerifHolder(rh)
	if from == "other" { // unsolicited: a peer that was not asked
		for _, id := range x.pool.VerifPeers() {
			if id != peerID {
				peerID = id
				break
			}
		}
	}
	b := x.variant(rh, kind, R)
	if peerID == "" || b == nil || x.peers[peerID] == nil {
		return
	}
	bz := bc.VerifBlockResponseBytes(b)
	dec := bc.VerifDecodeBlockResponse(bz)
	if dec == nil || dec.Header == nil {
		// Receive panics on the missing header; the connection recovers and drops the peer
		res := vh.Guard(func() string { x.bcR.Receive(bc.BlockchainChannel, x.peers[peerID], bz); return "no-panic" })
		x.r.Count("serve-headerless-" + res)
		if res == "panic" {
			x.remove(peerID)
		}
		return
	}
	assigned, before := x.pool.VerifHolder(dec.Height)
	res := vh.Guard(func() string { x.bcR.Receive(bc.BlockchainChannel, x.peers[peerID], bz); return "ok" })
	if res == "panic" {
		// the connection's recover drops the peer (p2p/connection.go _recover): allowed, the node goes on.
		// Known cause: a response in flight from a peer RemovePeer has just deleted (AddBlock finds the
		// requester still assigned to it, pool.peers[peerID] is nil). Stepped scenarios wait for the
		// requesters to reset, so there it would be a divergence from the model.
		x.r.Count("receive-panic-recovered")
		x.emit("receive-panic", tail, "panic")
		if !x.live {
			x.dead = true
			return
		}
		for _, id := range x.pool.VerifPeers() {
			if id == peerID {
				x.remove(peerID)
			}
		}
		return
	}
	_, after := x.pool.VerifHolder(dec.Height)
	ans := "ignored"
	if !before && after {
		ans = "ok"
	}
	x.r.Count("serve-" + kind)
	x.r.Count("serve-" + ans)
	x.emit(fmt.Sprintf("serve peer=%s assigned=%s id=%s hc=%s hd=%s %s", peerID, dashIfEmpty(assigned), bidStr(idOf(dec)),
		vh.B01(dec.LastCommit != nil), vh.B01(dec.Data != nil), x.render(dec)), tail, ans)
}

func dashIfEmpty(s string) string {
	if s == "" {
		return "-"
	}
	return s
}

// remove: the switch reports the peer gone (real RemovePeer)
func (x *scen) remove(id string) {
	if x.peers[id] == nil {
		return
	}
	x.bcR.RemovePeer(x.peers[id], "gone")
	x.settle()
	x.r.Count("remove")
	x.emit("remove peer="+id, "remove peer="+id, "ok")
}

type duringOp struct {
	what string // remove-first | remove-second | replace-first
	kind string
	seed uint64
}

// sync: one iteration of the SYNC_LOOP; `during` happens between PeekTwoBlocks and the verdict
func (x *scen) sync(during []duringOp) string {
	ph := x.pool.VerifHeight()
	x.emit("peek", "peek", fmt.Sprintf("h=%d", ph))
	x.rec.verified, x.rec.verr, x.rec.executed, x.rec.exerr = false, nil, nil, nil
	if len(during) > 0 {
		x.rec.during = func() {
			for _, d := range during {
				switch d.what {
				case "remove-first":
					if id, have := x.pool.VerifHolder(ph); have {
						x.remove(id)
					}
				case "remove-second":
					if id, have := x.pool.VerifHolder(ph + 1); have {
						x.remove(id)
					}
				case "serve-first":
					x.serve(ph, d.kind, d.seed, "holder")
				case "serve-second":
					x.serve(ph+1, d.kind, d.seed, "holder")
				}
			}
		}
	}
	peersBefore := x.pool.VerifPeers()
	res := vh.Guard(func() string { x.bcR.VerifTrySync(); return "returned" })
	x.rec.during = nil
	out := ""
	switch {
	case res == "panic" && x.rec.executed != nil:
		out = "execfail"
	case res == "panic":
		out = "panic"
	case !x.rec.verified:
		out = "wait"
	case x.rec.verr != nil:
		out = "redo:" + classifyVerify(x.rec.verr)
	case x.rec.executed != nil:
		b := x.rec.executed
		x.applied = b.Height
		real := x.blocks[b.Height]
		isSrc := real != nil && bytes.Equal(real.Hash(), b.Hash()) && bytes.Equal(wire.BinaryBytes(real), wire.BinaryBytes(b))
		out = fmt.Sprintf("applied:%d:%s", b.Height, map[bool]string{true: "src", false: "other"}[isSrc])
	default:
		out = "returned-without-effect"
	}
	if out == "panic" || out == "execfail" {
		x.dead = true
	}
	x.r.Count("sync-" + strings.SplitN(out, ":", 3)[0])
	x.r.Distinct(fmt.Sprintf("%s/%d", strings.SplitN(out, ":", 3)[0], len(during)))
	x.emit("complete", "complete", out)
	// a failed verification removed a peer: its requesters reset asynchronously
	if !x.dead {
		_ = peersBefore
		x.settle()
	}
	return out
}

// finish: the node leaves fast sync (what SwitchToConsensus / the next start do with the store)
func (x *scen) finish() {
	if x.dead {
		return
	}
	x.pool.Stop()
	res := x.dst.Exec("restart")
	ans := "ok"
	if strings.HasPrefix(strings.ToLower(res), "panic") {
		ans = "panic"
	}
	s := x.dst.C.CS.VerifState()
	if ans == "ok" {
		h := s.LastBlockHeight
		want := x.snaps[h]
		got := takeSnap(s)
		same := got.lastID.Equals(want.lastID) && bytes.Equal(got.app, want.app) && bytes.Equal(got.rec, want.rec) &&
			bytes.Equal(got.vhash, want.vhash) && got.vals == want.vals && got.lastVals == want.lastVals && x.dst.C.Store.Height() == h
		for k := int64(1); k <= h && same; k++ {
			a, b := x.dst.C.Store.LoadBlock(k), x.blocks[k]
			same = a != nil && bytes.Equal(wire.BinaryBytes(a), wire.BinaryBytes(b))
		}
		ans = fmt.Sprintf("ok h=%d same=%s", h, vh.B01(same))
		if !same {
			x.r.Fail(vh.Failure{Class: "state-after-fast-sync-differs-from-the-live-node",
				Detail: fmt.Sprintf("at height %d: synced {id %s app %x vals %s last %s} live {id %s app %x vals %s last %s}", h,
					bidStr(got.lastID), got.app, got.vals, got.lastVals, bidStr(want.lastID), want.app, want.vals, want.lastVals),
				Ops: append(append([]string{}, x.lines...), "finish | finish"), Got: ans, Want: "same=1"})
		}
	}
	x.r.Count("finish-" + strings.Fields(ans)[0])
	x.emit("finish", "finish", ans)
	if !strings.HasPrefix(ans, "ok") {
		x.dead = true
	}
}

// goOn: the caught-up node commits the next block of the source chain through consensus
func (x *scen) goOn() {
	if x.dead {
		return
	}
	im := x.dst
	s := im.C.CS.VerifState()
	h := s.LastBlockHeight + 1
	blk := x.blocks[h]
	if blk == nil {
		return
	}
	res := vh.Guard(func() string {
		im.Exec(fmt.Sprintf("timeout %d 0 NewHeight", h))
		name := fmt.Sprintf("src%d", h)
		im.Register(name, blk, blk.MakePartSet(partSize), true)
		p := 0
		for i := range x.powers {
			if bytes.Equal(im.C.Addr(i), blk.ProposerAddress) {
				p = i
			}
		}
		im.Exec(fmt.Sprintf("proposal %s h=%d r=0 pol=-1 polblock=- signer=%d bad=0", name, h, p))
		im.Exec(fmt.Sprintf("parts %s h=%d r=0", name, h))
		im.Exec("drain")
		for i, v := range x.seen[h].Precommits {
			if v == nil || len(v.BlockID.Hash) == 0 {
				continue
			}
			im.Exec(fmt.Sprintf("vote t=2 h=%d r=%d idx=%d addr=%x block=%s ok=1 peer=p%d", h, v.Round, i, im.C.Addr(i), name, i))
			im.Exec("drain")
		}
		for k := 0; k < 3; k++ {
			im.Exec("drain")
		}
		return "ok"
	})
	s = im.C.CS.VerifState()
	got := takeSnap(s)
	want := x.snaps[h]
	same := s.LastBlockHeight == h && got.lastID.Equals(want.lastID) && bytes.Equal(got.app, want.app) && bytes.Equal(got.vhash, want.vhash) && got.vals == want.vals
	ans := fmt.Sprintf("%s h=%d same=%s", res, s.LastBlockHeight, vh.B01(same))
	x.r.Count("continue-" + vh.B01(same))
	if !same {
		x.r.Fail(vh.Failure{Class: "node-does-not-go-on-after-fast-sync",
			Detail: fmt.Sprintf("after catching up to %d the node was given block %d and its commit through consensus: %s (state height %d)", h-1, h, res, s.LastBlockHeight),
			Ops:    append(append([]string{}, x.lines...), "continue | continue"), Got: ans, Want: fmt.Sprintf("ok h=%d same=1", h)})
	}
	x.emit(fmt.Sprintf("continue h=%d", h), "continue", ans)
}

var kinds = []string{"txs", "txs-rehash", "time", "apphash", "valhash", "proposer", "lastblockid", "height+", "height-", "forge", "forge-child",
	"lc-minority", "lc-nil", "lc-allnil", "lc-idx", "lc-addr", "lc-badsig", "lc-swap", "lc-round", "lc-other", "lc-extra", "nil-data", "nil-header", "extra", "lc-relabel", "lc-nil-badsig", "lc-other-badsig"}

func main() {
	r := vh.Start()
	defer r.Finish()
	log.SetAuditLog(zap.NewNop())
	x := &scen{r: r}
	defer x.close()
	if r.Replay != "" {
		replay(x, vh.ReadLines(r.Replay))
		return
	}
	R := r.R
	x.emit("cfg", "cfg", "ok")
	if r.Mode == "realsync" {
		for q := 0; q < r.Scale(1, 3); q++ {
			realSync(r, q)
		}
		return
	}
	if r.Mode == "handoff" {
		for q := 0; q < r.Scale(2, 8); q++ {
			x.lines = x.lines[:0]
			n := R.Range(1, 5)
			var ps []string
			for i := 0; i < n; i++ {
				ps = append(ps, fmt.Sprint(R.Range(1, 5)))
			}
			runHandoff(x, fmt.Sprintf("chain n=%d me=0 powers=%s heights=2 seed=%d peers=p0:%d,p1:%d,p2:%d nodrain=1", n, strings.Join(ps, ","), R.Intn(1<<30),
				R.Range(300, 900), R.Range(300, 900), R.Range(300, 900)))
		}
		return
	}
	scenarios := r.Scale(14, 120)
	// (two more scenarios than random ones: the last two begin with a directed lie, see below)
	for q := 0; q < scenarios+2; q++ {
		x.lines = x.lines[:0]
		x.dead = false
		n := R.Range(4, 7)
		if R.Chance(15) {
			n = R.Range(1, 3)
		}
		var ps []string
		for i := 0; i < n; i++ {
			p := 1
			if R.Chance(60) {
				p = R.Range(1, 9)
			}
			ps = append(ps, fmt.Sprint(p))
		}
		H := int64(R.Range(3, 7))
		npeers := R.Range(2, 4)
		var peers []string
		for i := 0; i < npeers; i++ {
			ph := H
			switch {
			case R.Chance(15):
				ph = H + int64(R.Range(1, 60)) // claims more than there is
			case R.Chance(15) && i > 0:
				ph = H - int64(R.Range(1, 2))
			}
			peers = append(peers, fmt.Sprintf("p%d:%d", i, ph))
		}
		if !strings.Contains(strings.Join(peers, ","), fmt.Sprintf(":%d", H)) {
			peers[0] = fmt.Sprintf("p0:%d", H)
		}
		tail := fmt.Sprintf("chain n=%d me=%d powers=%s heights=%d seed=%d peers=%s", n, R.Intn(n), strings.Join(ps, ","), H, R.Intn(1<<30), strings.Join(peers, ","))
		if !doChain(x, tail) {
			continue
		}
		honestOnly := R.Chance(15)
		steps := R.Range(4, 30)
		if q >= scenarios && !x.dead && x.pool.VerifHeight()+1 <= x.H {
			// directed, after the random scenarios: precommits for nil justify no block. A forged block whose
			// header has no hash, and a child that offers a failed round's genuine nil precommits as its commit
			ph := x.pool.VerifHeight()
			x.serve(ph, "hashless", uint64(R.Intn(1<<30)), "holder")
			x.serve(ph+1, "lc-hashless", uint64(R.Intn(1<<30)), "holder")
			x.sync(nil)
			r.Count("directed.hashless-pair")
		}
		for k := 0; k < steps && !x.dead && x.pool.VerifHeight() < x.H; k++ {
			ph := x.pool.VerifHeight()
			switch c := R.Intn(100); {
			case c < 6 && !honestOnly && ph+1 <= x.H:
				// a coordinated lie: block ph with another part set under the same header hash, and a child whose
				// commit relabels the genuine precommits to it
				x.serve(ph, "extra", uint64(R.Intn(1<<30)), "holder")
				x.serve(ph+1, "lc-relabel", uint64(R.Intn(1<<30)), "holder")
				x.sync(nil)
			case c < 55:
				rh := ph + int64(R.Intn(3))
				if rh > x.H {
					rh = x.H
				}
				kind := "honest"
				if !honestOnly && R.Chance(55) {
					kind = kinds[R.Intn(len(kinds))]
				}
				from := "holder"
				if R.Chance(8) {
					from = "other"
				}
				x.serve(rh, kind, uint64(R.Intn(1<<30)), from)
			case c < 85:
				var during []duringOp
				if R.Chance(35) {
					for m := R.Range(1, 2); m > 0; m-- {
						d := duringOp{what: []string{"remove-first", "remove-second", "serve-first", "serve-second"}[R.Intn(4)], kind: "honest", seed: uint64(R.Intn(1 << 30))}
						if R.Chance(60) {
							d.kind = kinds[R.Intn(len(kinds))]
						}
						during = append(during, d)
					}
				}
				x.sync(during)
			case c < 93:
				if ids := x.pool.VerifPeers(); len(ids) > 0 {
					x.remove(ids[R.Intn(len(ids))])
				}
			default:
				id := fmt.Sprintf("p%d", R.Intn(npeers))
				x.status(id, x.H)
				x.settle()
			}
		}
		// completion: honest peers serve what is missing until the node has caught up; the last
		// second block may still be served by a liar (the tampered commit ends up as seen-commit)
		lastLie := ""
		if !honestOnly && R.Chance(40) {
			lastLie = []string{"lc-idx", "lc-addr", "lc-minority", "lc-nil", "lc-swap", "lc-other", "lc-round"}[R.Intn(7)]
		}
		for round := 0; round < 40 && !x.dead && x.pool.VerifHeight() < x.H; round++ {
			if len(x.pool.VerifPeers()) < 2 {
				for i := 0; i < npeers; i++ {
					x.status(fmt.Sprintf("p%d", i), x.H)
				}
				x.settle()
			}
			ph := x.pool.VerifHeight()
			for _, h := range []int64{ph, ph + 1} {
				if _, have := x.pool.VerifHolder(h); !have && h <= x.H {
					kind := "honest"
					if h == x.H && lastLie != "" {
						kind, lastLie = lastLie, ""
					}
					x.serve(h, kind, uint64(R.Intn(1<<30)), "holder")
				}
			}
			x.sync(nil)
		}
		x.finish()
		x.goOn()
	}
	for q := 0; q < r.Scale(3, 24); q++ {
		x.lines = x.lines[:0]
		x.dead = false
		n := R.Range(4, 7)
		var ps []string
		for i := 0; i < n; i++ {
			ps = append(ps, fmt.Sprint(R.Range(1, 9)))
		}
		H := int64(R.Range(4, 12))
		tail := fmt.Sprintf("chain n=%d me=%d powers=%s heights=%d seed=%d peers=p0:%d,p1:%d,p2:%d live=1 lseed=%d", n, R.Intn(n), strings.Join(ps, ","), H,
			R.Intn(1<<30), H, H, H+int64(R.Intn(3)), R.Intn(1<<30))
		runLive(x, tail)
	}
}

// runLive: the real poolRoutine goroutine syncs; peers answer, lie, vanish and are replaced while the
// loop is between PeekTwoBlocks and PopRequest; at the end the reactor itself decides to switch to
// consensus. No step-by-step model trace (the schedule is the runtime's): the oracles are that only
// committed blocks are executed and that the node ends in the live node's state and goes on.
func runLive(x *scen, tail string) {
	if !doChain(x, tail) {
		return
	}
	kv := nodeimpl.Kvs(strings.Fields(tail))
	R := vh.NewRng(uint64(nodeimpl.Atoi(kv["lseed"])))
	x.forged = 0
	deadline := time.Now().Add(20 * time.Second)
	caught := false
	arm := func() {
		if x.rec.during != nil || !R.Chance(50) {
			return
		}
		plan := R.Intn(4)
		x.rec.during = func() {
			atomic.StoreInt32(&x.inDuring, 1)
			defer atomic.StoreInt32(&x.inDuring, 0)
			ph := x.pool.VerifHeight()
			switch plan {
			case 0: // the peer that served the block being verified goes; a liar answers the new request
				if id, have := x.pool.VerifHolder(ph); have {
					x.remove(id)
					if len(x.pool.VerifPeers()) == 0 {
						x.status("p9", x.H)
						x.settle()
					}
					x.serve(ph, "forge", uint64(R.Intn(1<<30)), "holder")
				}
			case 1:
				if id, have := x.pool.VerifHolder(ph); have {
					x.remove(id)
				}
			case 2:
				if id, have := x.pool.VerifHolder(ph + 1); have {
					x.remove(id)
					x.serve(ph+1, "forge-child", uint64(R.Intn(1<<30)), "holder")
				}
			case 3:
				x.serve(ph, "forge", uint64(R.Intn(1<<30)), "other")
			}
		}
	}
	for time.Now().Before(deadline) {
		select {
		case <-x.switched:
			caught = true
		default:
		}
		if caught || x.forged > 0 {
			break
		}
		if atomic.LoadInt32(&x.inDuring) == 0 {
			if len(x.pool.VerifPeers()) < 2 {
				for i := 0; i < 3; i++ {
					x.status(fmt.Sprintf("p%d", i), x.H)
				}
			}
			ph := x.pool.VerifHeight()
			for h := ph; h <= x.H && h < ph+3; h++ {
				if id, have := x.pool.VerifHolder(h); id != "" && !have {
					kind := "honest"
					if R.Chance(25) {
						kind = kinds[R.Intn(len(kinds))]
					}
					arm()
					x.serve(h, kind, uint64(R.Intn(1<<30)), "holder")
				}
			}
		}
		time.Sleep(500 * time.Microsecond)
	}
	x.r.Count("live-caught-up-" + vh.B01(caught))
	x.r.Distinct(fmt.Sprintf("live/%d/%d", x.H, len(x.powers)))
	x.rec.during = nil
	s := x.stateM
	res := fmt.Sprintf("caught=%s forged=%d", vh.B01(caught), x.forged)
	if !caught && x.forged == 0 {
		x.r.Fail(vh.Failure{Class: "fast-sync-does-not-finish", Detail: fmt.Sprintf("with honest peers serving every height the reactor did not switch to consensus within 20s (pool height %d of %d)", x.pool.VerifHeight(), x.H),
			Ops: append([]string{}, x.lines...), Got: res, Want: "caught=1"})
	}
	_ = s
	x.emit("live-sync", "live-sync", res)
	x.bcR.Stop()
	time.Sleep(2 * time.Millisecond)
	x.live = false // finish/continue are recorded
	if caught {
		x.liveEnd()
	}
}

func (x *scen) liveEnd() {
	r0 := len(x.r.Failures)
	x.finishQuiet = true
	x.finish()
	x.goOn()
	x.finishQuiet = false
	ans := "ok"
	if x.dead && len(x.r.Failures) == r0 {
		x.r.Fail(vh.Failure{Class: "node-cannot-leave-fast-sync", Detail: "after the reactor switched to consensus the node panics rebuilding its last commit from the block store",
			Ops: append([]string{}, x.lines...), Got: "panic", Want: "ok"})
	}
	if len(x.r.Failures) > r0 || x.dead {
		ans = "failed"
	}
	x.emit("live-end", "live-end", ans)
}

// runHandoff: the request channel is full because the reactor is busy executing blocks (it drains the
// channel only between SYNC_LOOP rounds), so requesters that already chose their peer are still
// blocked sending their request. A peer answers such a request before it was sent - an honest peer
// never does, a hostile one only has to guess a height. The response must be taken or dropped; the
// receiving goroutine must come back, and the sync loop must still be able to look at the pool.
func runHandoff(x *scen, tail string) {
	kv := nodeimpl.Kvs(strings.Fields(tail))
	line := x.setup(kv)
	if line == "setup-failed" {
		return
	}
	x.emit(line, tail, "ok")
	req := x.bcR.VerifRequests()
	deadline := time.Now().Add(5 * time.Second)
	for len(req) < cap(req) && time.Now().Before(deadline) {
		time.Sleep(time.Millisecond)
	}
	time.Sleep(20 * time.Millisecond)
	// requesters that have their peer; the requests of all but cap(req) of them are not yet in the channel
	res := "none"
	var h int64
	var peerID string
	tried := 0
	if len(req) == cap(req) {
		done := make(chan string, 4)
		for k := int64(1); k < 299 && !strings.Contains(res, "blocked"); k++ {
			id, have := x.pool.VerifHolder(k)
			if id == "" || have {
				continue
			}
			h, peerID = k, id
			tried++
			b := x.forge(1)
			b.Header.Height = k
			bz := bc.VerifBlockResponseBytes(b)
			go func() {
				done <- vh.Guard(func() string { x.bcR.Receive(bc.BlockchainChannel, x.peers[id], bz); return "returned" })
			}()
			select {
			case res = <-done:
			case <-time.After(1500 * time.Millisecond):
				res = "blocked"
			}
		}
		// the sync loop's next look at the pool
		go func() { done <- vh.Guard(func() string { x.bcR.VerifTrySync(); return "returned" }) }()
		select {
		case r2 := <-done:
			res += " sync=" + r2
		case <-time.After(1500 * time.Millisecond):
			res += " sync=blocked"
		}
	}
	x.r.Extra["handoff_responses_tried"] = tried
	x.r.Count("handoff-" + strings.Fields(res)[0])
	x.r.Distinct("handoff/" + res)
	if strings.Contains(res, "blocked") {
		x.r.Fail(vh.Failure{Class: "fast-sync-wedged-by-a-block-response-that-precedes-its-request",
			Detail: fmt.Sprintf("request channel full (%d), requester of height %d assigned to %s still sending its request; a block response for that height from that peer: Receive %s; afterwards the pool lock is never released",
				cap(req), h, peerID, res),
			Ops: append([]string{}, x.lines...), Got: res, Want: "returned sync=returned"})
		// the goroutines are stuck for good: leave this reactor behind
		x.pool, x.bcR, x.stop = nil, nil, nil
	}
	x.emit(fmt.Sprintf("handoff pending=%d", len(req)), "handoff", res)
}

func doChain(x *scen, tail string) bool {
	kv := nodeimpl.Kvs(strings.Fields(tail))
	line := x.setup(kv)
	if line == "setup-failed" {
		x.r.Count("setup-failed")
		return false
	}
	x.r.Count("chain")
	x.emit(line, tail, "ok")
	return true
}

// replay re-executes the implementation side of a recorded scenario (the text after `|`)
func replay(x *scen, lines []string) {
	i := 0
	for i < len(lines) {
		l := lines[i]
		i++
		tail := l
		if k := strings.LastIndex(l, "|"); k >= 0 {
			tail = strings.TrimSpace(l[k+1:])
		}
		w := strings.Fields(tail)
		if len(w) == 0 {
			continue
		}
		kv := nodeimpl.Kvs(w)
		if w[0] != "cfg" && w[0] != "chain" && (x.pool == nil || x.dead) {
			continue
		}
		switch w[0] {
		case "cfg":
			x.emit("cfg", "cfg", "ok")
		case "chain":
			x.lines = x.lines[:0]
			x.dead = false
			if kv["nodrain"] == "1" {
				runHandoff(x, tail)
			} else if kv["live"] == "1" {
				runLive(x, tail)
			} else {
				doChain(x, tail)
			}
		case "serve":
			x.serve(nodeimpl.Atoi(kv["rh"]), kv["kind"], uint64(nodeimpl.Atoi(kv["seed"])), kv["from"])
		case "remove":
			x.remove(kv["peer"])
		case "peek":
			// what happened between peek and complete happened inside the verifier
			var during []duringOp
			for i < len(lines) {
				t := lines[i]
				if k := strings.LastIndex(t, "|"); k >= 0 {
					t = strings.TrimSpace(t[k+1:])
				}
				tw := strings.Fields(t)
				if len(tw) == 0 || tw[0] == "complete" {
					break
				}
				tkv := nodeimpl.Kvs(tw)
				ph := x.pool.VerifHeight()
				switch tw[0] {
				case "remove":
					if id, _ := x.pool.VerifHolder(ph); id == tkv["peer"] {
						during = append(during, duringOp{what: "remove-first"})
					} else {
						during = append(during, duringOp{what: "remove-second"})
					}
				case "serve":
					what := "serve-first"
					if nodeimpl.Atoi(tkv["rh"]) != ph {
						what = "serve-second"
					}
					during = append(during, duringOp{what: what, kind: tkv["kind"], seed: uint64(nodeimpl.Atoi(tkv["seed"]))})
				}
				i++
			}
			if i < len(lines) {
				i++ // the complete line
			}
			x.sync(during)
		case "finish":
			x.finish()
		case "continue":
			x.goOn()
		}
	}
	_ = os.Stderr
}

// ---------------------------------------------------------------- two real nodes

type nodeReport struct {
	StoreHeight int64 `json:"store_height"`
	Blocks      []struct {
		Height  int64  `json:"h"`
		Hash    string `json:"hash"`
		AppHash string `json:"app"`
	} `json:"blocks"`
	StateHeight int64    `json:"state_height"`
	StateApp    string   `json:"state_app"`
	StateVals   string   `json:"state_vals"`
	AppHeight   int64    `json:"app_height"`
	AppHash     string   `json:"app_hash"`
	Nonces      []uint64 `json:"nonces"`
	Err         string   `json:"err"`
}

func freePort() int {
	l, err := net.Listen("tcp", "127.0.0.1:0")
	if err != nil {
		return 46656
	}
	defer l.Close()
	return l.Addr().(*net.TCPAddr).Port
}

// realSync: two REAL nodes (go/cmd/c06node: core.NewNode with the real Angine wiring of verifier and
// executer, the real reactors, TCP on loopback). A is the chain's validator and commits a planned
// chain (contract creation and calls, a key-value transaction, two changes of its own voting power),
// then goes on with empty blocks. B has the same genesis, is no validator, starts later with
// fast_sync on and A as its seed. B must catch up with A, switch to consensus by itself and keep up;
// its block store, validator set and application must then be A's.
func realSync(r *vh.Run, q int) {
	root, err := ioutil.TempDir("", "verif-c13-real-")
	if err != nil {
		panic(err)
	}
	defer os.RemoveAll(root)
	self, _ := os.Executable()
	node := filepath.Join(filepath.Dir(self), "c06node")
	if p := os.Getenv("VERIF_C06NODE"); p != "" {
		node = p
	}
	a, b := filepath.Join(root, "A"), filepath.Join(root, "B")
	run := func(args ...string) *exec.Cmd {
		c := exec.Command(node, args...)
		c.Start()
		return c
	}
	height := func(dir string) int64 {
		bz, err := ioutil.ReadFile(filepath.Join(dir, "height.txt"))
		if err != nil {
			return -1
		}
		return nodeimpl.Atoi(strings.TrimSpace(string(bz)))
	}
	exec.Command(node, "-dir", a, "-init").Run()
	exec.Command(node, "-dir", b, "-init").Run()
	g, _ := ioutil.ReadFile(filepath.Join(a, "genesis.json"))
	ioutil.WriteFile(filepath.Join(b, "genesis.json"), g, 0644)
	R := r.R
	plan := fmt.Sprintf("create 0 0; transfer 1 0 2\ncall 0 1 0 0; kv 2 0 alpha one\npower 2 1 %d\n-\ncall 1 1 0 0\npower 0 2 %d\n-\n", R.Range(2, 400), R.Range(1, 50))
	planFile := filepath.Join(root, "plan.txt")
	ioutil.WriteFile(planFile, []byte(plan), 0644)
	pa, pb := freePort(), freePort()
	ca := run("-dir", a, "-run", "-serve", "45", "-port", fmt.Sprint(pa), "-plan", planFile, "-commit", "350")
	defer func() { ca.Process.Kill(); ca.Wait() }()
	lead := int64(R.Range(9, 25))
	for i := 0; i < 600 && height(a) < lead; i++ {
		time.Sleep(50 * time.Millisecond)
	}
	cb := run("-dir", b, "-run", "-serve", "30", "-port", fmt.Sprint(pb), "-fastsync", "-seeds", fmt.Sprintf("127.0.0.1:%d", pa), "-commit", "350")
	defer func() { cb.Process.Kill(); cb.Wait() }()
	caught := false
	var ha, hb int64
	for i := 0; i < 500; i++ { // 25 s
		ha, hb = height(a), height(b)
		if hb >= lead+3 { // everything that existed when it started, and blocks decided since
			_ = ha
			caught = true
			break
		}
		time.Sleep(50 * time.Millisecond)
	}
	// B keeps up for a while after switching to consensus
	keeps := false
	if caught { // (the validator decides alone and may be faster than its follower: progress is what is asked)
		hb0 := hb
		time.Sleep(2500 * time.Millisecond)
		ha, hb = height(a), height(b)
		keeps = hb >= hb0+2
	}
	ca.Process.Kill()
	cb.Process.Kill()
	ca.Wait()
	cb.Wait()
	inspect := func(dir string) nodeReport {
		var rep nodeReport
		out, _ := exec.Command(node, "-dir", dir, "-inspect").Output()
		if err := json.Unmarshal(out, &rep); err != nil {
			rep.Err = err.Error()
		}
		return rep
	}
	ra, rb := inspect(a), inspect(b)
	same := rb.Err == "" && ra.Err == "" && rb.StoreHeight >= lead
	detail := ""
	for i, blk := range rb.Blocks {
		if i >= len(ra.Blocks) || ra.Blocks[i].Hash != blk.Hash {
			same = false
			detail = fmt.Sprintf("block %d: synced node has %s", blk.Height, blk.Hash)
			break
		}
	}
	if same && rb.StateVals != ra.StateVals {
		same, detail = false, fmt.Sprintf("validator set: synced node %s, validator %s", rb.StateVals, ra.StateVals)
	}
	if same && rb.StateHeight < int64(len(ra.Blocks)) && ra.Blocks[rb.StateHeight].AppHash != rb.StateApp {
		same, detail = false, fmt.Sprintf("application hash after %d: synced node %s, the chain records %s", rb.StateHeight, rb.StateApp, ra.Blocks[rb.StateHeight].AppHash)
	}
	if same && fmt.Sprint(rb.Nonces) != fmt.Sprint(ra.Nonces) {
		same, detail = false, fmt.Sprintf("account nonces: synced node %v, validator %v", rb.Nonces, ra.Nonces)
	}
	ans := fmt.Sprintf("caught=%s keeps=%s same=%s", vh.B01(caught), vh.B01(keeps), vh.B01(same))
	r.Count("realsync-" + ans)
	r.Distinct(fmt.Sprintf("realsync/%d", lead))
	if !caught || !keeps || !same {
		r.Fail(vh.Failure{Class: "real-node-does-not-catch-up-by-fast-sync", Detail: fmt.Sprintf("validator at height %d, syncing node at %d (started when the validator was at %d; store %d state %d app %d); %s %s", ha, hb, lead, rb.StoreHeight, rb.StateHeight, rb.AppHeight, detail, rb.Err),
			Ops: []string{"realsync lead=" + fmt.Sprint(lead)}, Got: ans, Want: "caught=1 keeps=1 same=1"})
	}
	r.Op(fmt.Sprintf("realsync lead=%d | realsync", lead), ans)
}
