// C12 harness, engine `ticker`: the production timeoutTicker (consensus/pbft/ticker.go, its real
// goroutine and time.Timer) driven through the verif shim. A request has either a duration that
// elapses at once ("short": the harness waits for what comes out of the tock channel) or a very
// long one ("long": it stays pending until a later request replaces it).
//
// ops:  new | sched <height> <round> <step> short|long      answers: fired=h/r/s | none
package main

import (
	"fmt"
	"strings"
	"time"

	"github.com/dappledger/AnnChain/gemmill/consensus/pbft"

	"verifharness/nodeimpl"
	"verifharness/vh"
)

func main() {
	r := vh.Start()
	defer r.Finish()
	var tk *pbft.VerifRealTicker
	var history []string
	exec := func(op string) string {
		return vh.Guard(func() string {
			w := strings.Fields(op)
			switch w[0] {
			case "cfg":
				return "ok"
			case "new":
				if tk != nil {
					tk.Stop()
				}
				tk = pbft.VerifNewRealTicker()
				return "ok"
			case "sched":
				d := time.Hour
				if w[4] == "short" {
					d = 0
				}
				tk.Schedule(d, nodeimpl.Atoi(w[1]), nodeimpl.Atoi(w[2]), pbft.RoundStepType(nodeimpl.Atoi(w[3])))
				// whatever fires does so within microseconds; allow for a loaded machine.
				// NewTimeoutTicker arms its timer with 0 and stops it at once; under the timer semantics this
				// module is built with (go.mod < 1.23) a fire that was already under way can still arrive, and
				// the routine relays it as the zero timeoutInfo. handleTimeout drops it (height 0 is never the
				// node's height), so it is counted here and not compared.
				var outs []string
				wait := 40 * time.Millisecond
				for {
					t, ok := tk.Fired(wait)
					if !ok {
						break
					}
					if t.Height == 0 && t.Round == 0 && t.Step == 0 {
						r.Count("spurious-zero-timeout")
						continue
					}
					wait = 5 * time.Millisecond
					outs = append(outs, fmt.Sprintf("fired=%d/%d/%d", t.Height, t.Round, t.Step))
					if len(outs) == 2 {
						break
					}
				}
				if len(outs) > 0 {
					return strings.Join(outs, " ")
				}
				return "none"
			}
			return "bad-op"
		})
	}
	do := func(op string) string {
		res := exec(op)
		r.Op(op, res)
		history = append(history, op)
		return res
	}
	if r.Replay != "" {
		for _, l := range vh.ReadLines(r.Replay) {
			do(l)
		}
		return
	}
	do("cfg")
	R := r.R
	seqs := r.Scale(25, 250)
	for s := 0; s < seqs; s++ {
		history = history[:1]
		do("new")
		// the requests of a plausible run (heights ending in various rounds, steps in order) mixed
		// with stale, repeated and out-of-order ones
		h, rd, st := int64(1), int64(0), 1
		var armed [3]int64 // what the harness knows is pending (height, round, step), for the oracle
		hasArmed := false
		n := R.Range(6, 22)
		for k := 0; k < n; k++ {
			switch c := R.Intn(100); {
			case c < 30: // next step of the same round
				if st < 7 {
					st += R.Range(1, 2)
					if st > 7 {
						st = 7
					}
				}
			case c < 50: // next round
				rd += int64(R.Range(1, 3))
				st = R.Range(2, 3)
			case c < 70: // the height is decided: NewHeight timeout of the next one
				h++
				rd, st = 0, 1
			case c < 85: // a stale request
				if R.Chance(50) && rd > 0 {
					rd -= 1
				} else if st > 1 {
					st -= 1
				}
			default: // the same again
			}
			dur := "long"
			if R.Chance(45) {
				dur = "short"
			}
			res := do(fmt.Sprintf("sched %d %d %d %s", h, rd, st, dur))
			r.Count("req." + dur + "." + strings.Split(res, "=")[0])
			r.Distinct(fmt.Sprintf("h%d r%d s%d %s %s", h%3, rd%3, st, dur, strings.Split(res, "=")[0]))
			// oracle (independent of the model): a request LATER than everything requested before
			// with an elapsed duration must fire, and exactly itself
			later := !hasArmed || h > armed[0] || (h == armed[0] && (rd > armed[1] || (rd == armed[1] && int64(st) > armed[2])))
			if later {
				armed, hasArmed = [3]int64{h, rd, int64(st)}, true
				if dur == "short" && res != fmt.Sprintf("fired=%d/%d/%d", h, rd, st) {
					r.Fail(vh.Failure{Class: "scheduled-timeout-never-fires", Detail: fmt.Sprintf("the timeout (%d,%d,%d) is later than every timeout requested before, its duration has elapsed, and it does not fire: the node waits in that step forever", h, rd, st), Ops: append([]string{}, history[1:]...), Got: res, Want: fmt.Sprintf("fired=%d/%d/%d", h, rd, st)})
				}
			} else if res != "none" {
				r.Fail(vh.Failure{Class: "stale-timeout-request-fires", Detail: "a request that is not later than the pending one fired", Ops: append([]string{}, history[1:]...), Got: res, Want: "none"})
			}
		}
	}
	if tk != nil {
		tk.Stop()
	}
}
