// C10 correspondence harness: the in-tree EVM against reference go-ethereum v1.8.27 (a co-process,
// /verif/goref/cmd/c10ref, Constantinople rules from block 0), and its word arithmetic against the
// Lean model.
//
// A scenario is a pre-state (an externally owned account and three contracts A, B, C whose code is
// generated; A may call B and C, B may call C, every contract may call the precompiles, a
// non-existent account and create contracts), a message (call of A with generated call data, or a
// contract creation) and a block context. Generated programs use every opcode of the Constantinople
// table with boundary operands, forward jumps and bounded loops, memory growth, nested CALL /
// CALLCODE / DELEGATECALL / STATICCALL / CREATE / CREATE2, logs, self-destructs, reverts, invalid
// opcodes and stack errors. Gas is never observed (the GAS opcode only feeds the gas argument of
// calls; both sides get far more gas than any generated program uses): metering against a fixed
// budget instead of caller-supplied gas is the documented deviation, as is the governance
// precompile at 0xfe, which programs do not address.
//
// Each scenario runs three times: reference; in-tree EVM with every fork active from block 0 (the
// interpreter, instruction, gas-table, precompile and state code as such); in-tree EVM configured as
// chain/app/evm configures it (params.MainnetChainConfig at the chain's own small heights). Compared:
// success / revert / failure class, return data, created address, state root after Finalise (covers
// nonces, balances, code, storage, self-destructs) and logs.
package main

import (
	"bufio"
	"fmt"
	"io"
	"math/big"
	"os"
	"os/exec"
	"sort"
	"strings"
	"time"

	"github.com/dappledger/AnnChain/eth/common"
	"github.com/dappledger/AnnChain/eth/core/state"
	"github.com/dappledger/AnnChain/eth/core/types"
	"github.com/dappledger/AnnChain/eth/core/vm"
	"github.com/dappledger/AnnChain/eth/crypto"
	"github.com/dappledger/AnnChain/eth/ethdb"
	"github.com/dappledger/AnnChain/eth/params"
	"github.com/dappledger/AnnChain/eth/rlp"

	"verifharness/vh"
)

func cfgAll() *params.ChainConfig {
	return &params.ChainConfig{ChainID: big.NewInt(1), HomesteadBlock: big.NewInt(0), EIP150Block: big.NewInt(0),
		EIP155Block: big.NewInt(0), EIP158Block: big.NewInt(0), ByzantiumBlock: big.NewInt(0), ConstantinopleBlock: big.NewInt(0)}
}

func unhex(s string) []byte {
	if s == "" || s == "-" {
		return nil
	}
	b := make([]byte, len(s)/2)
	fmt.Sscanf(s, "%x", &b)
	return b
}

func kvs(w []string) map[string]string {
	m := map[string]string{}
	for _, x := range w {
		if i := strings.Index(x, "="); i > 0 {
			m[x[:i]] = x[i+1:]
		}
	}
	return m
}

func big10(s string) *big.Int {
	v, _ := new(big.Int).SetString(s, 10)
	if v == nil {
		v = new(big.Int)
	}
	return v
}

func blockHash(n uint64) common.Hash {
	return crypto.Keccak256Hash([]byte(fmt.Sprintf("verif-block-%d", n)))
}

type rlpLog struct {
	Address common.Address
	Topics  []common.Hash
	Data    []byte
}

func logsHash(logs []*types.Log) string {
	var ls []rlpLog
	for _, l := range logs {
		ls = append(ls, rlpLog{l.Address, l.Topics, l.Data})
	}
	b, _ := rlp.EncodeToBytes(ls)
	return fmt.Sprintf("%x", crypto.Keccak256(b)[:8])
}

var last *state.StateDB

// watch notes what the known findings are identified by
type watch struct{ nestedCreate bool }

func (w *watch) CaptureStart(common.Address, common.Address, bool, []byte, uint64, *big.Int) error {
	return nil
}
func (w *watch) CaptureState(env *vm.EVM, pc uint64, op vm.OpCode, gas, cost uint64, m *vm.Memory, st *vm.Stack, c *vm.Contract, depth int, err error) error {
	if (op == vm.CREATE || op == vm.CREATE2) && depth >= 2 {
		w.nestedCreate = true // a contract reached through a message call creates a contract
	}
	return nil
}
func (w *watch) CaptureFault(*vm.EVM, uint64, vm.OpCode, uint64, uint64, *vm.Memory, *vm.Stack, *vm.Contract, int, error) error {
	return nil
}
func (w *watch) CaptureEnd([]byte, uint64, time.Duration, error) error { return nil }

var lastWatch *watch

// run a scenario on the in-tree EVM; deployed=true: configured as chain/app/evm does
func run(kv map[string]string, deployed bool) string {
	sdb, _ := state.New(common.Hash{}, state.NewDatabase(ethdb.NewMemDatabase()))
	if kv["acct"] != "" {
		for _, a := range strings.Split(kv["acct"], ",") {
			f := strings.Split(a, ":")
			ad := common.HexToAddress(f[0])
			sdb.CreateAccount(ad)
			sdb.SetNonce(ad, big10(f[1]).Uint64())
			sdb.SetBalance(ad, big10(f[2]))
			if len(f) > 3 && f[3] != "" {
				sdb.SetCode(ad, unhex(f[3]))
			}
			if len(f) > 4 && f[4] != "" {
				for _, e := range strings.Split(f[4], ";") {
					p := strings.Split(e, "=")
					sdb.SetState(ad, common.BytesToHash(unhex(p[0])), common.BytesToHash(unhex(p[1])))
				}
			}
		}
	}
	root0, _ := sdb.Commit(false)
	sdb, _ = state.New(root0, sdb.Database())
	from := common.HexToAddress(kv["from"])
	n := big10(kv["block"])
	ctx := vm.Context{
		CanTransfer: func(db vm.StateDB, a common.Address, v *big.Int) bool { return db.GetBalance(a).Cmp(v) >= 0 },
		Transfer:    func(db vm.StateDB, s, r common.Address, v *big.Int) { db.SubBalance(s, v); db.AddBalance(r, v) },
		GetHash:     blockHash,
		Origin:      from, Coinbase: common.HexToAddress("0xc01bba5e"), BlockNumber: n, Time: big.NewInt(1600000000),
		Difficulty: big.NewInt(131072), GasLimit: 80000000, GasPrice: big.NewInt(1),
	}
	conf := cfgAll()
	if deployed {
		conf = params.MainnetChainConfig // chain/app/evm/evm.go: chainConfig: params.MainnetChainConfig
	}
	lastWatch = &watch{}
	evm := vm.NewEVM(ctx, sdb, conf, vm.Config{EVMGasLimit: 100000000, Debug: true, Tracer: lastWatch}) // chain/app/evm: EVMGasLimit
	sdb.Prepare(common.Hash{1}, common.Hash{2}, 0)
	gas := uint64(1) << 62 // far more than any generated program uses, also after several failed calls (each burns 63/64 in the reference)
	value := big10(kv["value"])
	var ret []byte
	var err error
	created := "-"
	if kv["msg"] == "create" {
		var ca common.Address
		ret, ca, _, err = evm.Create(vm.AccountRef(from), unhex(kv["input"]), gas, value)
		created = fmt.Sprintf("%x", ca)
	} else {
		sdb.SetNonce(from, sdb.GetNonce(from)+1)
		ret, _, err = evm.Call(vm.AccountRef(from), common.HexToAddress(kv["to"]), unhex(kv["input"]), gas, value)
	}
	class := "ok"
	if err != nil {
		class = "fail"
		if err.Error() == "evm: execution reverted" {
			class = "revert"
		}
	}
	logs := sdb.GetLogs(common.Hash{1})
	sdb.Finalise(true) // eth/core/state_processor.go ApplyTransaction: statedb.Finalise(true)
	root := sdb.IntermediateRoot(true)
	last = sdb
	out := fmt.Sprintf("%s ret=%x created=%s root=%x logs=%d:%s", class, ret, created, root, len(logs), logsHash(logs))
	if err != nil {
		out += " err=" + strings.Replace(err.Error(), " ", "_", -1)
	}
	return out
}

func dump() string {
	if last == nil {
		return "-"
	}
	last.Commit(true)
	d := last.RawDump()
	var keys []string
	for k := range d.Accounts {
		keys = append(keys, k)
	}
	sort.Strings(keys)
	var out []string
	for _, k := range keys {
		a := d.Accounts[k]
		var sk []string
		for s := range a.Storage {
			sk = append(sk, s)
		}
		sort.Strings(sk)
		var st []string
		for _, s := range sk {
			st = append(st, s[len(s)-8:]+"="+a.Storage[s])
		}
		code := a.Code
		if len(code) > 16 {
			code = code[:16] + ".."
		}
		out = append(out, fmt.Sprintf("%s{n=%d b=%s c=%s s=[%s]}", k[len(k)-8:], a.Nonce, a.Balance, code, strings.Join(st, ",")))
	}
	return strings.Join(out, " ")
}

func guard(f func() string) (res string) {
	defer func() {
		if e := recover(); e != nil {
			res = fmt.Sprintf("panic %v", e)
		}
	}()
	return f()
}

// strip the error text: the two code bases word some errors differently; the class is what counts
func core(res string) string {
	if i := strings.Index(res, " err="); i >= 0 {
		return res[:i]
	}
	return res
}

func aspect(a, b string) string {
	fa, fb := strings.Fields(core(a)), strings.Fields(core(b))
	names := []string{"class", "return-data", "created-address", "state", "logs"}
	for i := range names {
		if i >= len(fa) || i >= len(fb) {
			return "shape"
		}
		if fa[i] != fb[i] {
			return names[i]
		}
	}
	return "none"
}

// ---------------------------------------------------------------- assembler and generator

const (
	STOP, ADD, MUL, SUB, DIV, SDIV, MOD, SMOD, ADDMOD, MULMOD, EXP, SIGNEXTEND = 0x00, 0x01, 0x02, 0x03, 0x04, 0x05, 0x06, 0x07, 0x08, 0x09, 0x0a, 0x0b
	LT, GT, SLT, SGT, EQ, ISZERO, AND, OR, XOR, NOT, BYTE, SHL, SHR, SAR       = 0x10, 0x11, 0x12, 0x13, 0x14, 0x15, 0x16, 0x17, 0x18, 0x19, 0x1a, 0x1b, 0x1c, 0x1d
	SHA3                                                                       = 0x20
	ADDRESS, BALANCE, ORIGIN, CALLER, CALLVALUE, CALLDATALOAD, CALLDATASIZE    = 0x30, 0x31, 0x32, 0x33, 0x34, 0x35, 0x36
	CALLDATACOPY, CODESIZE, CODECOPY, GASPRICE, EXTCODESIZE, EXTCODECOPY       = 0x37, 0x38, 0x39, 0x3a, 0x3b, 0x3c
	RETURNDATASIZE, RETURNDATACOPY, EXTCODEHASH                                = 0x3d, 0x3e, 0x3f
	BLOCKHASH, COINBASE, TIMESTAMP, NUMBER, DIFFICULTY, GASLIMIT               = 0x40, 0x41, 0x42, 0x43, 0x44, 0x45
	POP, MLOAD, MSTORE, MSTORE8, SLOAD, SSTORE, JUMP, JUMPI, PC, MSIZE, GAS    = 0x50, 0x51, 0x52, 0x53, 0x54, 0x55, 0x56, 0x57, 0x58, 0x59, 0x5a
	JUMPDEST                                                                   = 0x5b
	PUSH1, DUP1, SWAP1, LOG0                                                   = 0x60, 0x80, 0x90, 0xa0
	CREATE, CALL, CALLCODE, RETURN, DELEGATECALL, CREATE2, STATICCALL, REVERT  = 0xf0, 0xf1, 0xf2, 0xf3, 0xf4, 0xf5, 0xfa, 0xfd
	INVALID, SELFDESTRUCT                                                      = 0xfe, 0xff
)

var two256 = new(big.Int).Lsh(big.NewInt(1), 256)

type asm struct {
	b     []byte
	calls int // message calls and creations so far: a failed one burns 63/64 of the remaining gas in the reference only
	depth int
	R     *vh.Rng
	sym   []string // symbolic form for the Lean arithmetic model (straight-line programs only)
}

func (a *asm) op(o byte) { a.b = append(a.b, o) }

func (a *asm) push(v *big.Int) {
	bs := new(big.Int).Mod(v, two256).Bytes()
	if len(bs) == 0 {
		bs = []byte{0}
	}
	a.b = append(a.b, byte(PUSH1+len(bs)-1))
	a.b = append(a.b, bs...)
	a.depth++
	a.sym = append(a.sym, fmt.Sprintf("p:%x", bs))
}

func (a *asm) pushInt(n int64) { a.push(big.NewInt(n)) }

var addrEOA = common.HexToAddress("0xaa")
var addrA, addrB, addrC = common.HexToAddress("0xc1"), common.HexToAddress("0xc2"), common.HexToAddress("0xc3")

// boundary and ordinary 256-bit values
func (a *asm) value() *big.Int {
	R := a.R
	one := big.NewInt(1)
	switch R.Intn(16) {
	case 0:
		return big.NewInt(0)
	case 1:
		return big.NewInt(1)
	case 2:
		return new(big.Int).Sub(two256, one)
	case 3:
		return new(big.Int).Lsh(one, 255)
	case 4:
		return new(big.Int).Sub(new(big.Int).Lsh(one, 255), one)
	case 5:
		return new(big.Int).Sub(two256, big.NewInt(int64(R.Range(1, 300))))
	case 6:
		return new(big.Int).Lsh(one, uint(R.Intn(257)))
	case 7:
		return new(big.Int).Sub(new(big.Int).Lsh(one, uint(R.Range(1, 256))), one)
	case 8, 9:
		return big.NewInt(int64(R.Intn(300)))
	case 10:
		return big.NewInt(int64(R.Range(0, 33)))
	case 11:
		return new(big.Int).SetBytes(R.Bytes(R.Range(1, 32)))
	case 12:
		return new(big.Int).Lsh(big.NewInt(int64(R.Intn(1<<16))), uint(8*R.Intn(31)))
	default:
		return new(big.Int).SetBytes(R.Bytes(32))
	}
}

func (a *asm) ensure(n int) {
	for a.depth < n {
		a.push(a.value())
	}
}

func (a *asm) small(max int) { a.pushInt(int64(a.R.Intn(max + 1))) }

// who a contract at `level` may call: contracts further down, precompiles, an account that does not
// exist, the externally owned account
func (a *asm) target(level int) common.Address {
	R := a.R
	var c []common.Address
	if level < 1 {
		c = append(c, addrB, addrB)
	}
	if level < 2 {
		c = append(c, addrC, addrC)
	}
	for i := 1; i <= 8; i++ {
		if i != 5 { // modexp prices by the length words it finds in memory: with the gas both sides get, garbage lengths are affordable and take minutes (its pricing and results are compared separately)
			c = append(c, common.BigToAddress(big.NewInt(int64(i))))
		}
	}
	c = append(c, common.HexToAddress("0xdead"), addrEOA, common.BigToAddress(big.NewInt(9)))
	return c[R.Intn(len(c))]
}

var arith2 = []byte{ADD, MUL, SUB, DIV, SDIV, MOD, SMOD, EXP, SIGNEXTEND, LT, GT, SLT, SGT, EQ, AND, OR, XOR, BYTE, SHL, SHR, SAR}
var names = map[byte]string{ADD: "ADD", MUL: "MUL", SUB: "SUB", DIV: "DIV", SDIV: "SDIV", MOD: "MOD", SMOD: "SMOD", ADDMOD: "ADDMOD",
	MULMOD: "MULMOD", EXP: "EXP", SIGNEXTEND: "SIGNEXTEND", LT: "LT", GT: "GT", SLT: "SLT", SGT: "SGT", EQ: "EQ", ISZERO: "ISZERO", AND: "AND",
	OR: "OR", XOR: "XOR", NOT: "NOT", BYTE: "BYTE", SHL: "SHL", SHR: "SHR", SAR: "SAR", POP: "POP"}

func (a *asm) arith() {
	R := a.R
	switch c := R.Intn(10); {
	case c < 7:
		o := arith2[R.Intn(len(arith2))]
		a.ensure(2)
		if o == EXP && R.Chance(70) { // keep most exponents small
			a.op(POP)
			a.depth--
			a.sym = append(a.sym, "POP")
			a.push(a.value())
			a.small(40)
			a.op(SWAP1)
			a.sym = append(a.sym, "SWAP1")
		}
		if (o == SHL || o == SHR || o == SAR || o == BYTE || o == SIGNEXTEND) && R.Chance(70) {
			a.small(270) // shift / index: around the 256 and 32 boundaries
		}
		a.op(o)
		a.depth--
		a.sym = append(a.sym, names[o])
	case c < 8:
		a.ensure(3)
		o := []byte{ADDMOD, MULMOD}[R.Intn(2)]
		a.op(o)
		a.depth -= 2
		a.sym = append(a.sym, names[o])
	default:
		a.ensure(1)
		o := []byte{ISZERO, NOT}[R.Intn(2)]
		a.op(o)
		a.sym = append(a.sym, names[o])
	}
}

func (a *asm) dupswap() {
	R := a.R
	if a.depth == 0 {
		a.push(a.value())
	}
	if R.Bool() {
		n := R.Range(1, min(a.depth, 16))
		a.op(byte(DUP1 + n - 1))
		a.depth++
		a.sym = append(a.sym, fmt.Sprintf("DUP%d", n))
	} else if a.depth >= 2 {
		n := R.Range(1, min(a.depth-1, 16))
		a.op(byte(SWAP1 + n - 1))
		a.sym = append(a.sym, fmt.Sprintf("SWAP%d", n))
	}
}

func min(a, b int) int {
	if a < b {
		return a
	}
	return b
}

// one statement of a contract body
func (a *asm) stmt(level int, inLoop bool) {
	R := a.R
	c := R.Intn(100)
	if c >= 73 && c < 88 {
		if inLoop || a.calls >= 4 {
			c = R.Intn(70)
		} else {
			a.calls++
		}
	}
	switch {
	case c < 30:
		a.arith()
	case c < 38:
		a.dupswap()
	case c < 42:
		a.push(a.value())
	case c < 50: // environment, no argument
		o := []byte{ADDRESS, ORIGIN, CALLER, CALLVALUE, CALLDATASIZE, CODESIZE, GASPRICE, RETURNDATASIZE, COINBASE, TIMESTAMP, NUMBER, DIFFICULTY, GASLIMIT, MSIZE, PC}[R.Intn(15)]
		a.op(o)
		a.depth++
	case c < 57: // one argument
		o := []byte{BALANCE, EXTCODESIZE, EXTCODEHASH, BLOCKHASH, CALLDATALOAD, MLOAD, SLOAD}[R.Intn(7)]
		switch o {
		case BALANCE, EXTCODESIZE, EXTCODEHASH:
			if R.Chance(80) {
				a.push(new(big.Int).SetBytes([]common.Address{addrA, addrB, addrC, addrEOA, common.HexToAddress("0xdead"), common.BigToAddress(big.NewInt(2))}[R.Intn(6)].Bytes()))
			} else {
				a.ensure(1)
			}
		case BLOCKHASH:
			a.pushInt(int64(R.Range(0, 300)))
		case CALLDATALOAD, MLOAD:
			if R.Chance(85) {
				a.small(96)
			} else if o == CALLDATALOAD {
				a.push(a.value())
			} else {
				a.small(4000)
			}
		case SLOAD:
			a.small(4)
		}
		a.op(o)
	case c < 63: // stores
		switch R.Intn(3) {
		case 0:
			a.ensure(1)
			a.small(128)
			a.op(MSTORE)
			a.depth -= 2
		case 1:
			a.ensure(1)
			a.small(128)
			a.op(MSTORE8)
			a.depth -= 2
		default:
			a.ensure(1)
			a.small(4)
			a.op(SSTORE)
			a.depth -= 2
		}
	case c < 67: // copies
		switch R.Intn(4) {
		case 0, 1:
			a.small(64)
			if R.Chance(10) {
				a.push(a.value())
			} else {
				a.small(64)
			}
			a.small(128)
			a.op([]byte{CALLDATACOPY, CODECOPY}[R.Intn(2)])
			a.depth -= 3
		case 2:
			a.small(8)
			if extended && R.Chance(25) { // offsets at the edge of the machine word: offset + length must not wrap
				a.push([]*big.Int{
					new(big.Int).SetUint64(^uint64(0)), new(big.Int).SetUint64(^uint64(0) - uint64(R.Intn(8))),
					new(big.Int).Lsh(big.NewInt(1), 64), new(big.Int).Lsh(big.NewInt(1), 63), new(big.Int).Sub(two256, big.NewInt(1)),
					new(big.Int).SetUint64(1 << 32)}[R.Intn(6)])
			} else {
				a.small(8)
			}
			a.small(128)
			a.op(RETURNDATACOPY)
			a.depth -= 3
		default:
			a.small(64)
			a.small(64)
			a.small(128)
			a.push(new(big.Int).SetBytes([]common.Address{addrA, addrB, addrC, common.HexToAddress("0xdead")}[R.Intn(4)].Bytes()))
			a.op(EXTCODECOPY)
			a.depth -= 4
		}
	case c < 70: // hash
		a.small(64)
		a.small(64)
		a.op(SHA3)
		a.depth--
	case c < 73: // log
		n := R.Intn(5)
		a.ensure(n)
		a.small(40)
		a.small(64)
		a.op(byte(LOG0 + n))
		a.depth -= 2 + n
	case c < 84: // message calls
		kind := []byte{CALL, CALL, CALLCODE, DELEGATECALL, STATICCALL}[R.Intn(5)]
		a.small(64) // out size
		a.small(64) // out offset
		a.small(64) // in size
		a.small(64) // in offset
		if kind == CALL || kind == CALLCODE {
			if R.Chance(70) {
				a.pushInt(0)
			} else {
				a.pushInt(int64(R.Range(1, 5)))
			}
		}
		a.push(new(big.Int).SetBytes(a.target(level).Bytes()))
		a.op(GAS)
		a.depth++
		a.op(kind)
		if kind == CALL || kind == CALLCODE {
			a.depth -= 6
		} else {
			a.depth -= 5
		}
	case c < 88: // contract creation from memory
		inits := [][]byte{
			unhex("600a600c600039600a6000f360005460010160005500"), // returns a 10-byte runtime
			unhex("60006000fd"),                     // reverts
			unhex("00"),                             // empty code
			unhex("6001600055602a60005260206000f3"), // writes storage, returns 32 bytes
			unhex("fe"),                             // invalid
			unhex("32ff"),                           // selfdestruct to origin in the initcode
		}
		if extended {
			// creations that are refused AFTER the init code has returned: code over the size limit, code
			// whose deposit cannot be paid - what the init code returned is not the creator's return data
			inits = append(inits,
				unhex("6160016000f3"), // returns 24577 bytes: one more than the limit
				unhex("6160006000f3"), // returns exactly 24576 bytes: allowed, if the deposit can be paid
				unhex("6110006000f3"), // returns 4096 bytes
			)
		}
		in := inits[R.Intn(len(inits))]
		word := make([]byte, 32)
		copy(word, in)
		a.push(new(big.Int).SetBytes(word))
		a.pushInt(0)
		a.op(MSTORE)
		a.depth -= 2
		if R.Bool() {
			a.pushInt(int64(len(in)))
			a.pushInt(0)
			a.pushInt(int64(R.Intn(2)))
			a.op(CREATE)
			a.depth -= 2
		} else {
			a.small(3) // salt
			a.pushInt(int64(len(in)))
			a.pushInt(0)
			a.pushInt(0)
			a.op(CREATE2)
			a.depth -= 3
		}
		if extended && R.Chance(60) { // what does the creator see as return data now?
			a.op(RETURNDATASIZE)
			a.depth++
		}
	case c < 91 && !inLoop: // skip a few statements
		a.ensure(1)
		at := len(a.b)
		a.b = append(a.b, byte(PUSH1+1), 0, 0, JUMPI)
		a.depth--
		d0 := a.depth
		for k := R.Range(1, 3); k > 0; k-- {
			a.stmt(level, true)
		}
		for a.depth > d0 {
			a.op(POP)
			a.depth--
		}
		a.ensure(d0)
		a.b[at+1], a.b[at+2] = byte(len(a.b)>>8), byte(len(a.b))
		a.op(JUMPDEST)
	case c < 94 && !inLoop: // a bounded loop; the counter lives in memory above everything the body touches
		a.pushInt(int64(R.Range(1, 4)))
		a.pushInt(0x200)
		a.op(MSTORE)
		a.depth -= 2
		top := len(a.b)
		a.op(JUMPDEST)
		d0 := a.depth
		for k := R.Range(1, 3); k > 0; k-- {
			a.stmt(level, true)
		}
		for a.depth > d0 {
			a.op(POP)
			a.depth--
		}
		a.ensure(d0)
		a.pushInt(1)
		a.pushInt(0x200)
		a.op(MLOAD)
		a.op(SUB)
		a.depth--
		a.op(DUP1)
		a.depth++
		a.pushInt(0x200)
		a.op(MSTORE)
		a.depth -= 2
		a.b = append(a.b, byte(PUSH1+1), byte(top>>8), byte(top), JUMPI)
		a.depth--
	case c < 96: // an error on purpose
		switch R.Intn(4) {
		case 0:
			a.op([]byte{0x0c, 0x1e, 0x21, 0x46, 0x5c, 0xa5, 0xef, 0xf6}[R.Intn(8)]) // undefined opcodes
		case 1:
			a.push(new(big.Int).Add(big.NewInt(0x10000), a.value())) // beyond the code: never a JUMPDEST (a jump back into a finished loop would run it 2^256 times)
			a.op(JUMP)
			a.depth--
		case 2:
			for a.depth > 0 {
				a.op(POP)
				a.depth--
			}
			a.op(ADD) // stack underflow
		default:
			a.op(INVALID)
		}
	default:
		if extended && !inLoop && a.calls < 4 && R.Chance(50) {
			// touch an account that is empty (a precompile, an address nobody has used), then ask for its code
			// hash in the same transaction: an account that exists but is empty hashes to 0 (EIP-1052)
			a.calls++
			x := []common.Address{common.BigToAddress(big.NewInt(2)), common.HexToAddress("0xdead"), common.HexToAddress("0xbeef01"), common.BigToAddress(big.NewInt(4))}[R.Intn(4)]
			kind := []byte{CALL, STATICCALL}[R.Intn(2)]
			for k := 0; k < 4; k++ {
				a.pushInt(0)
			}
			if kind == CALL {
				a.pushInt(0)
			}
			a.push(new(big.Int).SetBytes(x.Bytes()))
			a.op(GAS)
			a.depth++
			a.op(kind)
			if kind == CALL {
				a.depth -= 6
			} else {
				a.depth -= 5
			}
			a.push(new(big.Int).SetBytes(x.Bytes()))
			a.op(EXTCODEHASH)
		} else if a.depth > 0 {
			a.op(POP)
			a.depth--
		}
	}
	if a.depth < 0 {
		a.depth = 0
	}
	if a.depth > 900 {
		for a.depth > 10 {
			a.op(POP)
			a.depth--
		}
	}
}

func (a *asm) finish() {
	R := a.R
	switch R.Intn(10) {
	case 0, 1:
		a.op(STOP)
	case 2, 3, 4, 5:
		a.small(64)
		a.small(64)
		a.op(RETURN)
	case 6, 7:
		a.small(64)
		a.small(32)
		a.op(REVERT)
	case 8:
		a.push(new(big.Int).SetBytes([]common.Address{addrEOA, addrA, addrB, addrC, common.HexToAddress("0xdead")}[R.Intn(5)].Bytes()))
		a.op(SELFDESTRUCT)
	default: // run off the end of the code
	}
}

// extended: statement kinds added after the first seeds were collected are generated only in a phase of
// their own that runs LAST, so that the random streams of the earlier phases (and what they are known to
// find) stay exactly what they were
var extended bool

func program(R *vh.Rng, level, n int) []byte {
	a := &asm{R: R}
	for i := 0; i < n; i++ {
		a.stmt(level, false)
	}
	a.finish()
	return a.b
}

// a straight-line arithmetic program: its result is returned as one word
func arithProgram(R *vh.Rng) ([]byte, string) {
	a := &asm{R: R}
	for k := R.Range(1, 14); k > 0; k-- {
		if R.Chance(75) {
			a.arith()
		} else {
			a.dupswap()
		}
	}
	a.ensure(1)
	sym := strings.Join(a.sym, ",")
	a.pushInt(0)
	a.op(MSTORE)
	a.pushInt(32)
	a.pushInt(0)
	a.op(RETURN)
	return a.b, sym
}

func main() {
	r := vh.Start()
	defer r.Finish()
	var refIn io.WriteCloser
	var refOut *bufio.Reader
	if p := os.Getenv("VERIF_REF"); p != "" {
		cmd := exec.Command(p)
		refIn, _ = cmd.StdinPipe()
		so, _ := cmd.StdoutPipe()
		refOut = bufio.NewReaderSize(so, 1<<22)
		if err := cmd.Start(); err != nil {
			refIn = nil
		}
		defer func() { refIn.Close(); cmd.Wait() }()
	}
	ref := func(line string) string {
		if refIn == nil {
			return "no-reference"
		}
		if p := os.Getenv("VERIF_LASTLINE"); p != "" {
			os.WriteFile(p, []byte(line+"\n"), 0644)
		}
		fmt.Fprintln(refIn, line)
		l, err := refOut.ReadString('\n')
		if err != nil {
			// the reference died on this scenario (e.g. out of memory): nothing to compare with any more
			refIn = nil
			r.Count("reference-died")
			return "no-reference"
		}
		return strings.TrimRight(l, "\n")
	}
	if r.Replay != "" {
		for _, l := range vh.ReadLines(r.Replay) {
			tail := l
			if k := strings.LastIndex(l, "|"); k >= 0 {
				tail = strings.TrimSpace(l[k+1:])
			}
			w := strings.Fields(tail)
			if len(w) == 0 {
				continue
			}
			switch w[0] {
			case "cfg":
				r.Op("cfg", "ok")
			case "run":
				head := strings.TrimSpace(strings.Split(l, "|")[0])
				if strings.HasPrefix(head, "arith") {
					scenarioArith(r, ref, tail, head)
				} else {
					scenarioPlain(r, ref, tail)
				}
			case "pgas", "prun":
				precompile(r, ref, tail)
			}
		}
		return
	}
	r.Op("cfg", "ok")
	R := r.R
	t0 := time.Now()
	phase := func(n string) {
		if os.Getenv("VERIF_DEBUG") != "" {
			fmt.Fprintln(os.Stderr, "phase", n, time.Since(t0))
		}
		t0 = time.Now()
	}
	nArith, nProg, nPre := r.Scale(4000, 40000), r.Scale(2500, 30000), r.Scale(1000, 12000)
	if r.Mode == "precompile" { // only the precompile stream (used by C09: a transaction to a precompile must be priced and executed as the reference does)
		nArith, nProg, nPre = 0, 0, r.Scale(4000, 40000)
	}
	// 1. word arithmetic: three ways (Lean model, in-tree, reference)
	for q := nArith; q > 0; q-- {
		code, sym := arithProgram(R)
		line := fmt.Sprintf("run block=7 acct=0xaa:0:1000000::,0xc1:1:0:%x: msg=call from=0xaa to=0xc1 value=0 input=", code)
		scenarioArith(r, ref, line, "arith "+sym)
	}
	phase("arith")
	// 2. whole programs: contracts calling each other
	oneProgram := func() {
		ca := program(R, 0, R.Range(3, 40))
		cb := program(R, 1, R.Range(2, 25))
		cc := program(R, 2, R.Range(1, 20))
		st := func() string {
			var s []string
			for k := R.Intn(3); k > 0; k-- {
				s = append(s, fmt.Sprintf("%064x=%064x", R.Intn(4), R.Range(1, 1000)))
			}
			return strings.Join(s, ";")
		}
		input := R.Bytes(R.Intn(70))
		line := fmt.Sprintf("run block=%d acct=0xaa:%d:1000000::,0xc1:1:%d:%x:%s,0xc2:1:%d:%x:%s,0xc3:1:0:%x:%s msg=call from=0xaa to=0xc1 value=%d input=%x",
			R.Range(1, 300), R.Intn(3), R.Intn(20), ca, st(), R.Intn(20), cb, st(), cc, st(), R.Intn(3)*R.Intn(5), input)
		if R.Chance(12) { // a contract creation whose init code is a generated program
			line = fmt.Sprintf("run block=%d acct=0xaa:%d:1000000::,0xc2:1:%d:%x:%s,0xc3:1:0:%x:%s msg=create from=0xaa to=- value=%d input=%x",
				R.Range(1, 300), R.Intn(3), R.Intn(20), cb, st(), cc, st(), R.Intn(3), program(R, 0, R.Range(2, 25)))
		}
		scenarioPlain(r, ref, line)
	}
	for q := nProg; q > 0; q-- {
		oneProgram()
	}
	phase("programs")
	// 3. precompiles: required gas and output on adversarial inputs
	for q := nPre; q > 0; q-- {
		addr := R.Range(1, 8)
		var in []byte
		switch {
		case addr == 5: // modexp: length words at the boundaries
			word := func() []byte {
				v := []*big.Int{big.NewInt(0), big.NewInt(1), big.NewInt(32), big.NewInt(64), big.NewInt(int64(R.Intn(200))),
					new(big.Int).Lsh(big.NewInt(1), uint(R.Range(8, 255))), new(big.Int).Sub(two256, big.NewInt(1)),
					new(big.Int).SetUint64(1 << 32), new(big.Int).SetUint64(^uint64(0)), new(big.Int).Lsh(big.NewInt(1), 64)}[R.Intn(10)]
				return common.LeftPadBytes(v.Bytes(), 32)
			}
			in = append(append(append(word(), word()...), word()...), R.Bytes(R.Intn(100))...)
			if R.Chance(10) {
				in = in[:R.Intn(len(in))]
			}
		default:
			in = R.Bytes(R.Intn(260))
			if R.Chance(30) {
				in = make([]byte, R.Intn(260))
			}
		}
		precompile(r, ref, fmt.Sprintf("pgas addr=%d input=%x", addr, in))
		if addr != 5 || len(in) < 200 {
			// (modexp with absurd lengths is only priced, not run: the reference would allocate them)
			lens := true
			if addr == 5 {
				head := common.RightPadBytes(in, 96)
				for k := 0; k < 3; k++ {
					if new(big.Int).SetBytes(head[32*k:32*k+32]).Cmp(big.NewInt(256)) > 0 {
						lens = false
					}
				}
			}
			if lens {
				precompile(r, ref, fmt.Sprintf("prun addr=%d input=%x", addr, in))
			}
		}
	}
	phase("precompiles")
	// 4. whole programs again, with the statement kinds that were added later (see `extended`)
	if nProg > 0 {
		extended = true
		for q := nProg / 2; q > 0; q-- {
			oneProgram()
		}
		extended = false
	}
}

// (end of main: the last phase is reported by the caller's defer)

func inTreePrecompile(w []string) string {
	kv := kvs(w)
	p := vm.PrecompiledContractsByzantium[common.BigToAddress(big10(kv["addr"]))]
	if p == nil {
		return "none"
	}
	if w[0] == "pgas" {
		return fmt.Sprint(p.RequiredGas(unhex(kv["input"])))
	}
	o, err := p.Run(unhex(kv["input"]))
	if err != nil {
		return "fail"
	}
	return fmt.Sprintf("ok %x", o)
}

func precompile(r *vh.Run, ref func(string) string, line string) {
	w := strings.Fields(line)
	got := guard(func() string { return inTreePrecompile(w) })
	want := ref(line)
	r.Count(w[0] + "-" + kvs(w)["addr"])
	ans := "same"
	if want != "no-reference" && got != want {
		ans = "differs"
		what := "output"
		if w[0] == "pgas" {
			what = "required-gas"
		}
		r.Fail(vh.Failure{Class: "precompile-differs-from-reference:" + what, Detail: fmt.Sprintf("precompile %s: in-tree %s, go-ethereum v1.8.27 %s", kvs(w)["addr"], got, want),
			Ops: []string{line}, Got: got, Want: want})
	}
	r.Op("precompile | "+line, ans)
}

func compare(r *vh.Run, ref func(string) string, line string) (all string, ans string) {
	kv := kvs(strings.Fields(line))
	want := ref(line)
	all = guard(func() string { return run(kv, false) })
	nestedAll := lastWatch != nil && lastWatch.nestedCreate
	dumpAll := ""
	if core(all) != core(want) {
		dumpAll = dump()
	}
	dep := guard(func() string { return run(kv, true) })
	r.Count("class-" + strings.Fields(want + " x")[0])
	ans = "same"
	if want != "no-reference" {
		switch {
		case core(all) != core(want) && nestedAll:
			r.Count("nested-create-differs-" + aspect(all, want))
			r.Fail(vh.Failure{Class: "contract-reached-through-a-call-cannot-deploy-code",
				Detail: fmt.Sprintf("a contract that was itself called executes CREATE/CREATE2: in-tree {%s}, go-ethereum v1.8.27 {%s}; in-tree state: %s; reference state: %s", all, want, dumpAll, ref("dump")),
				Ops:    []string{line}, Got: all, Want: want})
		case core(all) != core(want):
			ans = "differs"
			r.Fail(vh.Failure{Class: "in-tree-evm-differs-from-reference:" + aspect(all, want),
				Detail: fmt.Sprintf("with every fork active from block 0 the in-tree EVM gives {%s}, go-ethereum v1.8.27 gives {%s}; in-tree state: %s; reference state: %s", all, want, dumpAll, ref("dump")),
				Ops:    []string{line}, Got: all, Want: want})
		case core(dep) != core(want):
			r.Count("deployed-differs-" + aspect(dep, want))
			r.Fail(vh.Failure{Class: "as-deployed-chain-rules-are-not-constantinople",
				Detail: fmt.Sprintf("configured as chain/app/evm configures it (params.MainnetChainConfig at the chain's own heights) the in-tree EVM gives {%s}; with every fork active, and go-ethereum v1.8.27 under Constantinople rules, {%s} (differs in: %s)", dep, want, aspect(dep, want)),
				Ops:    []string{line}, Got: dep, Want: want})
		}
	}
	return all, ans
}

func scenarioPlain(r *vh.Run, ref func(string) string, line string) {
	all, ans := compare(r, ref, line)
	r.Distinct(strings.Fields(all + " x")[0] + "/" + fmt.Sprint(len(line)/300))
	r.Op("scenario | "+line, ans)
}

// the Lean model answers with the word the program leaves on top of the stack
func scenarioArith(r *vh.Run, ref func(string) string, line, head string) {
	all, _ := compare(r, ref, line)
	f := strings.Fields(all)
	ans := "error"
	if len(f) > 1 && f[0] == "ok" {
		ans = strings.TrimPrefix(f[1], "ret=")
	}
	r.Distinct("arith/" + fmt.Sprint(len(head)/40))
	r.Op(head+" | "+line, ans)
}
