// C20 harness.
//
// engine `secretconn` (default): two real SecretConnections (real key exchange, real NaCl frames)
// joined by a wire the harness owns. After the handshake the harness steps them: A writes, a man in
// the middle may flip a bit in / drop / duplicate / swap / truncate the sealed frames on the wire,
// B reads with buffers of any size.
//   ops:  new
//         write <n>            A writes n bytes (the next n bytes of a fixed pseudo-random stream)
//         read <k>             B reads into a buffer of k bytes
//         mitm flip|drop|dup|swap|trunc <i>   on the i-th sealed frame still on the wire
//   answers: write -> frames=<count>     read -> data n=<n> <hex of buf[:k] that was written> | error | eof
//
// engine `mconn` (-mode mconn): two real MConnections over a real SecretConnection pair (net.Pipe);
// messages of many sizes on several channels sent concurrently; per-channel order and content are
// checked by the harness (the model side is the identity per channel).
package main

import (
	"bytes"
	"encoding/hex"
	"fmt"
	"io"
	"net"
	"strings"
	"sync"
	"time"

	"github.com/spf13/viper"

	"github.com/dappledger/AnnChain/gemmill"
	crypto "github.com/dappledger/AnnChain/gemmill/go-crypto"
	"github.com/dappledger/AnnChain/gemmill/p2p"
	"github.com/dappledger/AnnChain/gemmill/refuse_list"
	"github.com/dappledger/AnnChain/gemmill/types"

	"verifharness/nodeimpl"
	"verifharness/vh"
)

// one direction of the wire: a queue of chunks exactly as they were written
type lane struct {
	mu     sync.Mutex
	cond   *sync.Cond
	chunks [][]byte
	block  bool // handshake: reads wait for data; stepping: an empty lane is EOF
	closed bool
}

func newLane() *lane { l := &lane{block: true}; l.cond = sync.NewCond(&l.mu); return l }

type end struct{ in, out *lane }

func (e *end) Write(p []byte) (int, error) {
	e.out.mu.Lock()
	e.out.chunks = append(e.out.chunks, append([]byte{}, p...))
	e.out.cond.Broadcast()
	e.out.mu.Unlock()
	return len(p), nil
}

func (e *end) Read(p []byte) (int, error) {
	l := e.in
	l.mu.Lock()
	defer l.mu.Unlock()
	for len(l.chunks) == 0 {
		if !l.block || l.closed {
			return 0, io.EOF
		}
		l.cond.Wait()
	}
	n := copy(p, l.chunks[0])
	if n == len(l.chunks[0]) {
		l.chunks = l.chunks[1:]
	} else {
		l.chunks[0] = l.chunks[0][n:]
	}
	return n, nil
}

func (e *end) Close() error { return nil }

func stream(off, n int) []byte { // a fixed pseudo-random byte stream
	out := make([]byte, n)
	for i := range out {
		x := uint32(off+i) * 2654435761
		out[i] = byte(x >> 13)
	}
	return out
}

func secretconn(r *vh.Run) {
	var a, b *p2p.SecretConnection
	var ab *lane // frames from A to B
	var off int  // how much of the stream A has written
	var history []string
	exec := func(op string) string {
		res := vh.Guard(func() string {
			w := strings.Fields(op)
			switch w[0] {
			case "cfg":
				return "ok"
			case "new":
				ab = newLane()
				ba := newLane()
				ea, eb := &end{in: ba, out: ab}, &end{in: ab, out: ba}
				ka := crypto.GenPrivKeyEd25519FromSecret([]byte("verif-c20-a"))
				kb := crypto.GenPrivKeyEd25519FromSecret([]byte("verif-c20-b"))
				var wg sync.WaitGroup
				var ea1, eb1 error
				wg.Add(2)
				go func() { defer wg.Done(); a, ea1 = p2p.MakeSecretConnection(ea, ka) }()
				go func() { defer wg.Done(); b, eb1 = p2p.MakeSecretConnection(eb, kb) }()
				wg.Wait()
				if ea1 != nil || eb1 != nil {
					return fmt.Sprint("handshake-failed ", ea1, eb1)
				}
				if !a.RemotePubKey().Equals(kb.PubKey()) || !b.RemotePubKey().Equals(ka.PubKey()) {
					return "wrong-identity"
				}
				ab.mu.Lock()
				ab.block, ba.block = false, false
				ab.mu.Unlock()
				off = 0
				return "ok"
			case "write":
				n := int(nodeimpl.Atoi(w[1]))
				before := len(ab.chunks)
				m, err := a.Write(stream(off, n))
				off += m
				if err != nil || m != n {
					return fmt.Sprintf("write-error n=%d err=%v", m, err)
				}
				return fmt.Sprintf("frames=%d", len(ab.chunks)-before)
			case "read":
				k := int(nodeimpl.Atoi(w[1]))
				buf := make([]byte, k)
				for i := range buf {
					buf[i] = 0xEE
				}
				n, err := b.Read(buf)
				if err == io.EOF || err == io.ErrUnexpectedEOF {
					return "eof"
				}
				if err != nil {
					return "error"
				}
				// what was copied into the caller's buffer (whatever n says)
				wrote := k
				for wrote > 0 && buf[wrote-1] == 0xEE {
					wrote--
				}
				if wrote < n { // the data itself may end in the sentinel value
					wrote = n
				}
				return fmt.Sprintf("data n=%d %s", n, hex.EncodeToString(buf[:wrote]))
			case "mitm":
				i := int(nodeimpl.Atoi(w[2]))
				if i >= len(ab.chunks) {
					return "no-such-frame"
				}
				switch w[1] {
				case "flip":
					f := append([]byte{}, ab.chunks[i]...)
					f[(i*131+7)%len(f)] ^= 1 << uint(i%8)
					ab.chunks[i] = f
				case "drop":
					ab.chunks = append(ab.chunks[:i:i], ab.chunks[i+1:]...)
				case "dup":
					c := append([]byte{}, ab.chunks[i]...)
					ab.chunks = append(ab.chunks[:i+1:i+1], append([][]byte{c}, ab.chunks[i+1:]...)...)
				case "swap":
					if i+1 >= len(ab.chunks) {
						return "no-such-frame"
					}
					ab.chunks[i], ab.chunks[i+1] = ab.chunks[i+1], ab.chunks[i]
				case "trunc":
					ab.chunks[i] = ab.chunks[i][:len(ab.chunks[i])/2]
					ab.chunks = ab.chunks[:i+1]
				case "replay": // frame i is put in the place of frame j
					j := int(nodeimpl.Atoi(w[3]))
					if j >= len(ab.chunks) {
						return "no-such-frame"
					}
					ab.chunks[j] = append([]byte{}, ab.chunks[i]...)
				}
				return "ok"
			}
			return "bad-op"
		})
		if strings.HasPrefix(res, "panic") {
			res = "PANIC"
		}
		return res
	}
	do := func(op string) string {
		res := exec(op)
		r.Op(op, res)
		history = append(history, op)
		return res
	}
	if r.Replay != "" {
		for _, l := range vh.ReadLines(r.Replay) {
			do(l)
		}
		return
	}
	do("cfg")
	R := r.R
	// a man in the middle that REFLECTS: whatever the node writes (its ephemeral key, its sealed
	// authentication frame) comes back to it. The two directions of a connection must be separated: the
	// node must not accept its own ciphertext, let alone authenticate "the peer" as itself.
	for c := 0; c < r.Scale(3, 12); c++ {
		loop := newLane()
		e := &end{in: loop, out: loop}
		k := crypto.GenPrivKeyEd25519FromSecret([]byte(fmt.Sprintf("verif-c20-reflect-%d", c)))
		type hs struct {
			sc  *p2p.SecretConnection
			err error
		}
		done := make(chan hs, 1)
		go func() {
			sc, err := p2p.MakeSecretConnection(e, k)
			done <- hs{sc, err}
		}()
		select {
		case x := <-done:
			r.Count("reflect.handshake")
			if x.err == nil && x.sc != nil {
				r.Fail(vh.Failure{Class: "node-authenticates-its-own-reflection", Detail: "a connection whose other end only echoes the node's own bytes completes the authenticated handshake (remote key = " + fmt.Sprintf("%X", x.sc.RemotePubKey().Bytes()) + "): the two directions are not separated",
					Ops: []string{"go reflect"}, Got: "handshake ok", Want: "an error"})
			}
		case <-time.After(3 * time.Second):
			loop.mu.Lock()
			loop.closed = true
			loop.cond.Broadcast()
			loop.mu.Unlock()
			r.Count("reflect.blocked")
		}
	}
	seqs := r.Scale(80, 800)
	for s := 0; s < seqs; s++ {
		history = history[:1]
		if do("new") != "ok" {
			r.Fail(vh.Failure{Class: "handshake-fails", Detail: "two honest ends do not complete the handshake or authenticate the wrong key", Ops: append([]string{}, history[1:]...)})
			continue
		}
		fail := func(cls, detail, got, want string) {
			r.Fail(vh.Failure{Class: cls, Detail: detail, Ops: append([]string{}, history[1:]...), Got: got, Want: want})
		}
		if s < 6 {
			// directed: a recorded frame replayed 128 / 256 frames later (where a nonce counter that
			// loses its carry comes round again); whatever the distance, the replay must fail
			dist := []int{128, 256, 128, 127, 129, 64}[s]
			k := R.Intn(3)
			for f := 0; f < dist+k+2; f++ {
				do("write 1024")
			}
			do(fmt.Sprintf("mitm replay %d %d", k, dist+k))
			good := 0
			detected := false
			for f := 0; f < dist+k+2; f++ {
				res := do("read 1024")
				if res == "error" {
					detected = true
					break
				}
				if strings.HasPrefix(res, "data") {
					good++
				}
			}
			r.Count("directed-replay")
			if !detected || good != dist+k {
				fail("replayed-frame-accepted", fmt.Sprintf("frame %d, recorded and put in the place of frame %d, was accepted by the receiver (reads before an error: %d)", k, dist+k, good), fmt.Sprint(good), fmt.Sprint(dist+k))
			}
			continue
		}
		written, received := 0, 0 // bytes A wrote / bytes B's caller obtained (as reported by n)
		onWire := 0               // frames on the wire
		tampered := false
		steps := R.Range(6, 30)
		sizes := []int{1, 2, 7, 100, 1023, 1024, 1025, 2048, 2049, 3000, 5000}
		for k := 0; k < steps; k++ {
			switch c := R.Intn(100); {
			case c < 40 && !tampered:
				n := sizes[R.Intn(len(sizes))]
				if R.Chance(30) {
					n = R.Range(1, 4000)
				}
				res := do(fmt.Sprintf("write %d", n))
				if strings.HasPrefix(res, "frames=") {
					written += n
					onWire += int(nodeimpl.Atoi(res[7:]))
				}
			case c < 48 && onWire > 0 && !tampered:
				kind := []string{"flip", "drop", "dup", "swap", "trunc"}[R.Intn(5)]
				if strings.HasPrefix(do(fmt.Sprintf("mitm %s %d", kind, R.Intn(onWire))), "ok") {
					tampered = true
					r.Count("mitm." + kind)
				}
			default:
				kb := []int{1, 2, 5, 100, 512, 1023, 1024, 1025, 2000, 4096}[R.Intn(10)]
				res := do(fmt.Sprintf("read %d", kb))
				r.Count("read." + strings.Fields(res)[0])
				if strings.HasPrefix(res, "data") {
					f := strings.Fields(res)
					n := int(nodeimpl.Atoi(strings.TrimPrefix(f[1], "n=")))
					got := []byte{}
					if len(f) > 2 {
						got, _ = hex.DecodeString(f[2])
					}
					// the caller only looks at buf[:n]
					if n > len(got) {
						n = len(got)
					}
					want := stream(received, n)
					if !bytes.Equal(got[:n], want) && !tampered {
						fail("stream-corrupted", fmt.Sprintf("the receiver's caller obtains other bytes than the sender wrote at offset %d", received), hex.EncodeToString(got[:n]), hex.EncodeToString(want))
					}
					if len(got) != n && !tampered {
						fail("bytes-copied-but-not-reported", fmt.Sprintf("Read copied %d bytes into the caller's buffer and reported %d: the caller never sees them (offset %d)", len(got), n, received), res, "")
						received += len(got) // keep the oracle in step with what was consumed
					} else {
						received += n
					}
					if tampered && received > written {
						fail("tampered-stream-delivers-more-than-was-written", "after tampering the receiver obtained more bytes than were sent", "", "")
					}
				}
				if res == "error" && !tampered {
					fail("intact-stream-fails", "a read fails although nobody touched the wire", res, "")
				}
			}
		}
		// drain: everything written must arrive, in order, when nobody tampered
		if !tampered {
			for guard := 0; received < written && guard < 200; guard++ {
				res := do("read 1500")
				if !strings.HasPrefix(res, "data") {
					fail("stream-truncated", fmt.Sprintf("only %d of %d bytes arrive", received, written), res, "")
					break
				}
				f := strings.Fields(res)
				n := int(nodeimpl.Atoi(strings.TrimPrefix(f[1], "n=")))
				got := []byte{}
				if len(f) > 2 {
					got, _ = hex.DecodeString(f[2])
				}
				if n > len(got) {
					n = len(got)
				}
				if !bytes.Equal(got[:n], stream(received, n)) {
					fail("stream-corrupted", fmt.Sprintf("the receiver's caller obtains other bytes than the sender wrote at offset %d", received), "", "")
					break
				}
				if len(got) != n {
					fail("bytes-copied-but-not-reported", fmt.Sprintf("Read copied %d bytes into the caller's buffer and reported %d", len(got), n), res, "")
					received += len(got)
				} else {
					received += n
				}
			}
		} else {
			// after tampering: reads deliver at most the untouched prefix, then fail
			sawError := false
			for guard := 0; guard < 50; guard++ {
				res := do("read 1500")
				if res == "error" || res == "eof" {
					sawError = true
					break
				}
			}
			if !sawError {
				fail("tampering-not-detected", "a modified / reordered / replayed / truncated frame did not end the stream with an error", "", "error")
			}
		}
		r.Distinct(fmt.Sprintf("tampered=%v written=%d", tampered, written/1000))
	}
}

// ---------------------------------------------------------------------------------------------

func mconn(r *vh.Run) {
	type got struct {
		ch  byte
		msg []byte
	}
	R := r.R
	r.Op("cfg", "ok")
	seqs := r.Scale(6, 60)
	for s := 0; s < seqs; s++ {
		c1, c2 := net.Pipe()
		ka := crypto.GenPrivKeyEd25519FromSecret([]byte("verif-c20-ma"))
		kb := crypto.GenPrivKeyEd25519FromSecret([]byte("verif-c20-mb"))
		var sa, sb *p2p.SecretConnection
		var wg sync.WaitGroup
		wg.Add(2)
		go func() { defer wg.Done(); sa, _ = p2p.MakeSecretConnection(c1, ka) }()
		go func() { defer wg.Done(); sb, _ = p2p.MakeSecretConnection(c2, kb) }()
		wg.Wait()
		if sa == nil || sb == nil {
			r.Fail(vh.Failure{Class: "handshake-fails", Detail: "handshake over net.Pipe failed"})
			continue
		}
		descs := []*p2p.ChannelDescriptor{{ID: 0x20, Priority: 5, SendQueueCapacity: 100}, {ID: 0x21, Priority: 10, SendQueueCapacity: 100}, {ID: 0x30, Priority: 1, SendQueueCapacity: 100}}
		var mu sync.Mutex
		var recvd []got
		errs := 0
		onRecv := func(ch byte, msg []byte) {
			mu.Lock()
			recvd = append(recvd, got{ch, append([]byte{}, msg...)})
			mu.Unlock()
		}
		onErr := func(e interface{}) { mu.Lock(); errs++; mu.Unlock() }
		ma := p2p.NewMConnection(p2pConf(), sa, descs, func(byte, []byte) {}, onErr)
		mb := p2p.NewMConnection(p2pConf(), sb, descs, onRecv, onErr)
		ma.Start()
		mb.Start()
		// messages of many sizes on three channels, sent from three goroutines
		sent := map[byte][][]byte{}
		var smu sync.Mutex
		var swg sync.WaitGroup
		total := 0
		for _, d := range descs {
			n := R.Range(3, 12)
			var msgs [][]byte
			for i := 0; i < n; i++ {
				sz := []int{1, 10, 1021, 1023, 1024, 1025, 2045, 2048, 3000, 3069, 10000, 40000}[R.Intn(12)] // 1021/2045/3069: wire length exactly k*1024
				m := stream(int(d.ID)*100000+i*7919, sz)
				m[0] = byte(i) // sequence number inside the channel
				msgs = append(msgs, m)
			}
			total += n
			smu.Lock()
			sent[d.ID] = msgs
			smu.Unlock()
			swg.Add(1)
			go func(ch byte, msgs [][]byte) {
				defer swg.Done()
				for _, m := range msgs {
					if !ma.Send(ch, []byte(m)) {
						mu.Lock()
						errs++
						mu.Unlock()
					}
				}
			}(d.ID, msgs)
		}
		swg.Wait()
		deadline := time.Now().Add(20 * time.Second)
		for time.Now().Before(deadline) {
			mu.Lock()
			n := len(recvd)
			mu.Unlock()
			if n >= total {
				break
			}
			time.Sleep(5 * time.Millisecond)
		}
		ma.Stop()
		mb.Stop()
		mu.Lock()
		perCh := map[byte][][]byte{}
		for _, g := range recvd {
			perCh[g.ch] = append(perCh[g.ch], g.msg)
		}
		mu.Unlock()
		ok := errs == 0
		for ch, msgs := range sent {
			if len(perCh[ch]) != len(msgs) {
				ok = false
				r.Fail(vh.Failure{Class: "message-lost-or-duplicated", Detail: fmt.Sprintf("channel %x: %d messages accepted for sending, %d arrived", ch, len(msgs), len(perCh[ch]))})
				continue
			}
			for i := range msgs {
				if !bytes.Equal(unwrap(perCh[ch][i]), msgs[i]) {
					ok = false
					r.Fail(vh.Failure{Class: "message-corrupted-or-out-of-order", Detail: fmt.Sprintf("channel %x message %d (%d bytes) arrives modified or out of order", ch, i, len(msgs[i]))})
					break
				}
			}
		}
		r.Op(fmt.Sprintf("mconn seq=%d msgs=%d", s, total), "ok")
		r.Count(fmt.Sprintf("mconn.ok=%v", ok))
		r.Distinct(fmt.Sprintf("mconn msgs=%d", total))
	}
}

// MConnection.Send wire-encodes its argument: a []byte travels as a length-prefixed byte slice
func p2pConf() *viper.Viper {
	c := viper.New()
	c.Set("send_rate", 51200000)
	c.Set("recv_rate", 51200000)
	return c
}

func unwrap(b []byte) []byte {
	// go-wire byte slice: varint length prefix, then the bytes
	if len(b) == 0 {
		return b
	}
	n := int(b[0])
	if n == 0 {
		return b[1:]
	}
	if n > 8 || len(b) < 1+n {
		return b
	}
	return b[1+n:]
}

// ---------------------------------------------------------------------------------------------
// engine `admit` (-mode admit): two real Switches joined by net.Pipe. The admitting node has the
// real refuse-list filter and the real certificate-authority check installed (as angine does); the
// connecting peer may announce another identity than the key it holds, present a certificate by a
// current authority, by a removed one, by a non-authority, a forged one or none.
//   ops:  node self=<k> refuse=<k,..> authca=0|1 nvauth=0|1 startvals=<k:ca,..> nowvals=<k:ca,..>
//         peer conn=<k> announced=<k> cert=<k>|none|garbage      (model line gets signedby=<k,..>)
const nAdmitKeys = 8

func admitKeys() []crypto.PrivKeyEd25519 {
	var ks []crypto.PrivKeyEd25519
	for i := 0; i < nAdmitKeys; i++ {
		ks = append(ks, crypto.GenPrivKeyEd25519FromSecret([]byte(fmt.Sprintf("verif-c20-admit-%d", i))))
	}
	return ks
}

func admit(r *vh.Run) {
	keys := admitKeys()
	var nodeKV map[string]string
	var history []string
	mkVals := func(s string) *types.ValidatorSet {
		var vs []*types.Validator
		for _, e := range strings.Split(s, ",") {
			if e == "" {
				continue
			}
			f := strings.Split(e, ":")
			k := keys[int(nodeimpl.Atoi(f[0]))%nAdmitKeys]
			vs = append(vs, &types.Validator{Address: k.PubKey().Address(), PubKey: k.PubKey(), VotingPower: 1, IsCA: f[1] == "1"})
		}
		return types.NewValidatorSet(vs)
	}
	exec := func(op string) (string, string) {
		model := op
		res := vh.Guard(func() string {
			w := strings.Fields(op)
			kv := nodeimpl.Kvs(w)
			switch w[0] {
			case "cfg":
				return "ok"
			case "node":
				nodeKV = kv
				return "ok"
			case "peer":
				conn := int(nodeimpl.Atoi(kv["conn"])) % nAdmitKeys
				ann := int(nodeimpl.Atoi(kv["announced"])) % nAdmitKeys
				self := int(nodeimpl.Atoi(nodeKV["self"])) % nAdmitKeys
				// the certificate: a signature over the announced public key
				msg := keys[ann].PubKey().(crypto.PubKeyEd25519)
				cert := ""
				switch kv["cert"] {
				case "none":
				case "garbage":
					cert = "zz-not-hex"
				case "forged":
					cert = strings.Repeat("ab", 64)
				default:
					sig := keys[int(nodeimpl.Atoi(kv["cert"]))%nAdmitKeys].Sign(msg[:]).(crypto.SignatureEd25519)
					cert = fmt.Sprintf("%X", sig[:])
				}
				var by []string
				if sigBytes, err := hex.DecodeString(cert); err == nil && len(sigBytes) > 0 {
					var s64 [64]byte
					copy(s64[:], sigBytes)
					for i, k := range keys {
						if k.PubKey().VerifyBytes(msg[:], crypto.SignatureEd25519(s64)) {
							by = append(by, fmt.Sprint(i))
						}
					}
				}
				model = fmt.Sprintf("peer conn=%d announced=%d signedby=%s", conn, ann, strings.Join(by, ","))
				// the admitting node
				conf := p2pConf()
				conf.Set("auth_by_ca", nodeKV["authca"] == "1")
				conf.Set("non_validator_node_auth", nodeKV["nvauth"] == "1")
				p2p.PanicOnAddPeerErr = false
				s1 := p2p.NewSwitch(conf)
				s1.SetNodeInfo(&p2p.NodeInfo{PubKey: keys[self].PubKey().(crypto.PubKeyEd25519), Moniker: "node", Network: "t", Version: "1"})
				s1.SetNodePrivKey(keys[self])
				rl := refuse_list.NewRefuseList("memdb", "")
				for _, e := range strings.Split(nodeKV["refuse"], ",") {
					if e != "" {
						pk := keys[int(nodeimpl.Atoi(e))%nAdmitKeys].PubKey().(crypto.PubKeyEd25519)
						rl.AddRefuseKey(pk.Bytes()) // as plugin/admin_op.go does
					}
				}
				s1.SetRefuseListFilter(gemmill.VerifRefuseListFilter(rl))
				cur := mkVals(nodeKV["startvals"])
				pp := &cur
				if nodeKV["authca"] == "1" {
					s1.SetAuthByCA(gemmill.VerifAuthByCA(conf, pp)) // installed when the node starts
				}
				*pp = mkVals(nodeKV["nowvals"]) // blocks later, the state holds another validator set
				// the connecting peer
				s2 := p2p.NewSwitch(p2pConf())
				s2.SetNodePrivKey(keys[conn])
				// (SetNodePrivKey overwrites the key of an already installed node info: announce afterwards)
				s2.SetNodeInfo(&p2p.NodeInfo{PubKey: keys[ann].PubKey().(crypto.PubKeyEd25519), Moniker: "peer", Network: "t", Version: "1", SigndPubKey: cert})
				c1, c2 := net.Pipe()
				var e1 error
				done := make(chan struct{}, 2)
				go func() { _, e1 = s1.AddPeerWithConnection(c1, false); c1.Close(); done <- struct{}{} }()
				go func() { s2.AddPeerWithConnection(c2, true); c2.Close(); done <- struct{}{} }()
				<-done
				<-done
				switch {
				case e1 == nil:
					return "admitted"
				case strings.Contains(e1.Error(), "in refuselist"):
					return "onRefuseList"
				case strings.Contains(e1.Error(), "REJECT!") || strings.Contains(e1.Error(), "encoding/hex"):
					return "noAuthority"
				case strings.Contains(e1.Error(), "unmatching pubkey"):
					return "identityMismatch"
				case strings.Contains(e1.Error(), "from self"):
					return "isSelf"
				}
				return "other:" + e1.Error()
			}
			return "bad-op"
		})
		if strings.HasPrefix(res, "panic") {
			res = "PANIC"
		}
		return model, res
	}
	do := func(op string) string {
		m, res := exec(op)
		r.Op(m, res)
		history = append(history, m)
		return res
	}
	if r.Replay != "" {
		for _, l := range vh.ReadLines(r.Replay) {
			do(l)
		}
		return
	}
	do("cfg")
	R := r.R
	seqs := r.Scale(40, 400)
	valList := func() string {
		var xs []string
		for _, i := range R.Perm(nAdmitKeys)[:R.Range(1, 5)] {
			xs = append(xs, fmt.Sprintf("%d:%s", i, vh.B01(R.Chance(45))))
		}
		return strings.Join(xs, ",")
	}
	for s := 0; s < seqs; s++ {
		history = history[:1]
		self := R.Intn(nAdmitKeys)
		var refuse []string
		for i := 0; i < nAdmitKeys; i++ {
			if R.Chance(15) {
				refuse = append(refuse, fmt.Sprint(i))
			}
		}
		start := valList()
		now := start
		if R.Chance(60) {
			now = valList()
		}
		do(fmt.Sprintf("node self=%d refuse=%s authca=%s nvauth=%s startvals=%s nowvals=%s", self, strings.Join(refuse, ","), vh.B01(R.Chance(75)), vh.B01(R.Chance(50)), start, now))
		nowCA := map[int]bool{}
		nowVal := map[int]bool{}
		for _, e := range strings.Split(now, ",") {
			var k, ca int
			fmt.Sscanf(e, "%d:%d", &k, &ca)
			nowVal[k] = true
			if ca == 1 {
				nowCA[k] = true
			}
		}
		for p := 0; p < R.Range(2, 6); p++ {
			conn := R.Intn(nAdmitKeys)
			ann := conn
			if R.Chance(20) {
				ann = R.Intn(nAdmitKeys)
			}
			if R.Chance(8) {
				conn, ann = self, self
			}
			cert := []string{"none", "garbage", "forged"}[R.Intn(3)]
			if R.Chance(70) {
				cert = fmt.Sprint(R.Intn(nAdmitKeys))
			}
			res := do(fmt.Sprintf("peer conn=%d announced=%d cert=%s", conn, ann, cert))
			r.Count("verdict." + strings.Split(res, ":")[0])
			r.Distinct(fmt.Sprintf("%s cert=%v", res, len(cert) < 3))
			// oracle, independent of the model: what the property says about an admitted peer
			if res == "admitted" {
				bad := ""
				for _, e := range refuse {
					if e == fmt.Sprint(conn) {
						bad = "its key is on the refuse list"
					}
				}
				if ann != conn {
					bad = "it announced another identity than the key that signed the handshake challenge"
				}
				if nodeKV["authca"] == "1" {
					exempt := nowVal[ann] && nodeKV["nvauth"] != "1"
					signed := false
					if c := int(nodeimpl.Atoi(cert)); len(cert) < 3 && nowCA[c] {
						signed = true
					}
					if !exempt && !signed {
						bad = "authority admission applies and it has no certificate signed by a current authority"
					}
				}
				if bad != "" {
					r.Fail(vh.Failure{Class: "peer-admitted-against-the-rules", Detail: "a peer was admitted although " + bad, Ops: append([]string{}, history[1:]...), Got: res, Want: "refused"})
				}
			}
		}
	}
}

func main() {
	r := vh.Start()
	defer r.Finish()
	if r.Mode == "mconn" {
		mconn(r)
		return
	}
	if r.Mode == "admit" {
		admit(r)
		return
	}
	secretconn(r)
}
