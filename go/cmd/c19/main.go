// C19 harness (engine `txpool`): the real transaction pool of the application
// (chain/app/evm/tx_pool.go, tx_sort.go) inside a real EVMApp; blocks built from what the pool
// offers are really executed and committed, so the account nonces the pool reads are the real ones.
//
// ops:  new limit=<block_size>            (pending and waiting limits are 10 x block_size)
//       submit id=<k> from=<a> nonce=<n> v=<variant> kind=kv|bad
//       admin id=<k>
//       reap
//       commit ids=<k,k,...>              (a block with these pooled transactions, in this order)
//       snap
//       flush
// Every answer is followed by the canonical snapshot of the pool:
//       P=<a>:<n>/<id>,.. W=<a>:<n>/<id>,.. all=<ids sorted> ext=<ids>
package main

import (
	"crypto/ecdsa"
	"fmt"
	"io/ioutil"
	"math/big"
	"os"
	"sort"
	"strings"
	"time"

	"github.com/spf13/viper"

	"github.com/dappledger/AnnChain/chain/app/evm"
	rtypes "github.com/dappledger/AnnChain/chain/types"
	"github.com/dappledger/AnnChain/eth/common"
	etypes "github.com/dappledger/AnnChain/eth/core/types"
	"github.com/dappledger/AnnChain/eth/crypto"
	"github.com/dappledger/AnnChain/eth/rlp"
	gtypes "github.com/dappledger/AnnChain/gemmill/types"

	"verifharness/nodeimpl"
	"verifharness/vh"
)

const nKeys = 5

var signer = etypes.HomesteadSigner{}

type world struct {
	keys   []*ecdsa.PrivateKey
	addrs  []common.Address
	dir    string
	app    *evm.EVMApp
	height int64
	raw    map[int][]byte      // id -> tx bytes
	idOf   map[common.Hash]int // eth tx hash -> id
	admins map[string]int      // admin tx bytes -> id
}

func newWorld() *world {
	w := &world{}
	for i := 0; i < nKeys; i++ {
		k, _ := crypto.ToECDSA(crypto.Keccak256([]byte(fmt.Sprintf("verif-c19-key-%d", i))))
		w.keys = append(w.keys, k)
	}
	// the model iterates accounts in ascending id: ids follow the address order
	sort.Slice(w.keys, func(i, j int) bool {
		a, b := crypto.PubkeyToAddress(w.keys[i].PublicKey), crypto.PubkeyToAddress(w.keys[j].PublicKey)
		return strings.Compare(string(a[:]), string(b[:])) < 0
	})
	for _, k := range w.keys {
		w.addrs = append(w.addrs, crypto.PubkeyToAddress(k.PublicKey))
	}
	return w
}

func (w *world) close() {
	if w.app != nil {
		func() { defer func() { recover() }(); w.app.Stop() }()
		w.app = nil
	}
	if w.dir != "" {
		os.RemoveAll(w.dir)
		w.dir = ""
	}
}

func (w *world) reset(blockSize int) error {
	w.close()
	dir, err := ioutil.TempDir("", "verif-c19-")
	if err != nil {
		return err
	}
	w.dir, w.height = dir, 0
	w.raw, w.idOf, w.admins = map[int][]byte{}, map[common.Hash]int{}, map[string]int{}
	conf := viper.New()
	conf.Set("db_dir", dir)
	conf.Set("block_size", blockSize)
	app, err := evm.NewEVMApp(conf)
	if err != nil {
		return err
	}
	if err := app.Start(); err != nil {
		return err
	}
	w.app = app
	return nil
}

func (w *world) acct(a common.Address) int {
	for i, x := range w.addrs {
		if x == a {
			return i
		}
	}
	return -1
}

// a pooled transaction: a key-value transaction (valid whenever its nonce is the current one) or,
// kind=bad, a call with gas 0 (accepted by the pool, invalid when executed: it never advances the nonce)
func (w *world) build(kv map[string]string) ([]byte, *etypes.Transaction) {
	from := int(nodeimpl.Atoi(kv["from"])) % nKeys
	nonce := uint64(nodeimpl.Atoi(kv["nonce"]))
	var tx *etypes.Transaction
	if kv["kind"] == "bad" {
		tx = etypes.NewTransaction(nonce, w.addrs[0], big.NewInt(0), 0, big.NewInt(0), []byte("v"+kv["v"]))
	} else {
		payload, _ := rlp.EncodeToBytes(&rtypes.KV{Key: []byte("k" + kv["v"]), Value: []byte("v")})
		tx = etypes.NewTransaction(nonce, common.Address{}, big.NewInt(0), 0, big.NewInt(0), append(append([]byte{}, rtypes.KVTxType...), payload...))
	}
	sig, err := crypto.Sign(signer.Hash(tx).Bytes(), w.keys[from])
	if err != nil {
		panic(err)
	}
	stx, _ := tx.WithSignature(signer, sig)
	b, _ := rlp.EncodeToBytes(stx)
	return b, stx
}

func (w *world) snapshot() string {
	pend, wait, all, ext, _ := w.app.VerifPoolSnapshot()
	f := func(l []evm.VerifPoolTx) string {
		var xs []string
		for _, t := range l {
			xs = append(xs, fmt.Sprintf("%d:%d/%d", w.acct(common.Address(t.From)), t.Nonce, w.idOf[common.Hash(t.Hash)]))
		}
		return strings.Join(xs, ",")
	}
	var ids []int
	for _, h := range all {
		ids = append(ids, w.idOf[common.Hash(h)])
	}
	sort.Ints(ids)
	var as, es []string
	for _, i := range ids {
		as = append(as, fmt.Sprint(i))
	}
	for _, e := range ext {
		es = append(es, fmt.Sprint(w.admins[string(e)]))
	}
	return fmt.Sprintf("P=%s W=%s all=%s ext=%s", f(pend), f(wait), strings.Join(as, ","), strings.Join(es, ","))
}

func (w *world) nonces() string {
	var ns []string
	for i, a := range w.addrs {
		q := w.app.Query(append([]byte{rtypes.QueryType_Nonce}, a.Bytes()...))
		var n uint64
		rlp.DecodeBytes(q.Data, &n)
		ns = append(ns, fmt.Sprintf("%d:%d", i, n))
	}
	return strings.Join(ns, ",")
}

func classify(err error) string {
	if err == nil {
		return "ok"
	}
	s := err.Error()
	switch {
	case strings.Contains(s, "already exist in cache") && strings.Contains(s, "nonce"):
		return "nonceTaken"
	case strings.Contains(s, "already exist"):
		return "exist"
	case strings.Contains(s, "different with getNonce"):
		return "stale"
	case strings.Contains(s, "queue is full"):
		return "full"
	}
	return "err:" + s
}

func main() {
	r := vh.Start()
	defer r.Finish()
	w := newWorld()
	defer w.close()
	var history []string
	exec := func(op string) (string, string) {
		model := op
		res := vh.Guard(func() string {
			f := strings.Fields(op)
			kv := nodeimpl.Kvs(f)
			pool := func() gtypes.TxPool { return w.app.GetTxPool() }
			switch f[0] {
			case "cfg":
				return "ok"
			case "new":
				if err := w.reset(int(nodeimpl.Atoi(kv["limit"]))); err != nil {
					return "error " + err.Error()
				}
				return "ok " + w.snapshot()
			case "submit":
				id := int(nodeimpl.Atoi(kv["id"]))
				raw, stx := w.build(kv)
				w.raw[id] = raw
				w.idOf[stx.Hash()] = id
				return classify(pool().ReceiveTx(raw)) + " " + w.snapshot()
			case "admin":
				id := int(nodeimpl.Atoi(kv["id"]))
				raw := gtypes.TagAdminOPTx([]byte(fmt.Sprintf("admin-request-%d", id)))
				w.raw[id] = raw
				w.admins[string(raw)] = id
				return classify(pool().ReceiveTx(raw)) + " " + w.snapshot()
			case "reap":
				txs := pool().Reap(-1)
				// canonical: admin ids in order, then the pooled transactions sorted by (account, nonce)
				var adm, rest []string
				type ent struct{ a, n, id int }
				var es []ent
				for _, t := range txs {
					if id, ok := w.admins[string(t)]; ok {
						adm = append(adm, fmt.Sprint(id))
						continue
					}
					tx := &etypes.Transaction{}
					if err := rlp.DecodeBytes(t, tx); err != nil {
						rest = append(rest, "undecodable")
						continue
					}
					from, _ := etypes.Sender(signer, tx)
					es = append(es, ent{w.acct(from), int(tx.Nonce()), w.idOf[tx.Hash()]})
				}
				sort.Slice(es, func(i, j int) bool { return es[i].a < es[j].a || (es[i].a == es[j].a && es[i].n < es[j].n) })
				for _, e := range es {
					rest = append(rest, fmt.Sprintf("%d:%d/%d", e.a, e.n, e.id))
				}
				return fmt.Sprintf("reap ext=%s txs=%s", strings.Join(adm, ","), strings.Join(rest, ","))
			case "commit":
				var txs []gtypes.Tx
				for _, s := range strings.Split(kv["ids"], ",") {
					if s != "" {
						txs = append(txs, gtypes.Tx(w.raw[int(nodeimpl.Atoi(s))]))
					}
				}
				w.height++
				b := &gtypes.Block{
					Header:     &gtypes.Header{ChainID: "c19", Height: w.height, Time: time.Unix(1600000000+w.height, 0), ValidatorsHash: []byte("vals")},
					Data:       &gtypes.Data{},
					LastCommit: &gtypes.Commit{},
				}
				for _, t := range txs {
					if gtypes.IsAdminOP(t) {
						b.Data.ExTxs = append(b.Data.ExTxs, t)
					} else {
						b.Data.Txs = append(b.Data.Txs, t)
					}
				}
				// the order of state/execution.go: execute, tell the pool, commit
				if _, err := w.app.OnExecute(w.height, 0, b); err != nil {
					return "error " + err.Error()
				}
				pool().Update(w.height, append(append(gtypes.Txs{}, b.Data.Txs...), b.Data.ExTxs...))
				if _, err := w.app.OnCommit(w.height, 0, b); err != nil {
					return "error " + err.Error()
				}
				model = op + " nonces=" + w.nonces()
				return "ok " + w.snapshot()
			case "snap":
				return "ok " + w.snapshot()
			case "flush":
				pool().Flush()
				return "ok " + w.snapshot()
			}
			return "bad-op"
		})
		if strings.HasPrefix(res, "panic") {
			res = "PANIC"
		}
		return model, res
	}
	// quiet runs: several accounts under binding limits. Which account Go's map iteration serves
	// first is random there, so these runs are not compared with the model (both sides answer "ok");
	// only the invariant oracles judge them.
	quiet := false
	do := func(op string) string {
		m, res := exec(op)
		if quiet {
			r.Op("quiet", "ok")
		} else {
			r.Op(m, res)
		}
		history = append(history, m)
		return res
	}
	if r.Replay != "" {
		for _, l := range vh.ReadLines(r.Replay) {
			if i := strings.Index(l, " nonces="); i > 0 && strings.HasPrefix(l, "commit") {
				l = l[:i]
			}
			do(l)
		}
		return
	}
	do("cfg")
	R := r.R
	seqs := r.Scale(30, 400)
	for s := 0; s < seqs; s++ {
		history = history[:1]
		quiet = false
		limit := 100 // limits 1000: nothing binds, every run is compared with the model
		if R.Chance(35) {
			limit = 1 // limits 10: ONE account at a time, so the map order cannot matter
		}
		if !strings.HasPrefix(do(fmt.Sprintf("new limit=%d", limit)), "ok") {
			continue
		}
		fail := func(cls, detail, got, want string) {
			r.Fail(vh.Failure{Class: cls, Detail: detail, Ops: append([]string{}, history[1:]...), Got: got, Want: want})
		}
		nextID := 1
		nonce := make([]int, nKeys)      // the application's nonce per account (from the commit answers)
		committed := map[int]bool{}      // ids a committed block contained
		type sub struct {
			a, n, id int
			op      string
		}
		live := map[int]sub{}            // ids the pool accepted and that are neither committed nor stale
		accounts := nKeys
		quiet = false
		if limit == 1 {
			accounts = 1
			if R.Chance(40) {
				accounts = R.Range(2, nKeys)
				quiet = true
				r.Count("quiet-run")
			}
		}
		lastSnap := ""
		if limit == 100 && R.Chance(12) {
			// directed (quiet): the queues exactly at their limits over several accounts, then ONE
			// post-commit promotion pass that serves all of them
			quiet = false
			do("new limit=2") // limits 20
			quiet = true
			r.Count("directed-full-promotion-pass")
			id := 1
			do("submit id=25 from=4 nonce=0 v=25 kind=kv") // becomes pending and stays: not in the block
			for a := 0; a < 4; a++ {
				for n := 0; n <= 5; n++ {
					do(fmt.Sprintf("submit id=%d from=%d nonce=%d v=%d kind=kv", id, a, n, id))
					id++
				}
			}
			do("commit ids=1,7,13,19")
			out := do("snap")
			var P, W string
			for _, fld := range strings.Fields(out) {
				if strings.HasPrefix(fld, "P=") {
					P = fld[2:]
				} else if strings.HasPrefix(fld, "W=") {
					W = fld[2:]
				}
			}
			np, nw := 0, 0
			if P != "" {
				np = len(strings.Split(P, ","))
			}
			if W != "" {
				nw = len(strings.Split(W, ","))
			}
			if np > 20 || nw > 20 {
				fail("pool-exceeds-its-size-bounds", fmt.Sprintf("after one post-commit promotion pass over four accounts: pending=%d waiting=%d with limits 20", np, nw), out, "")
			}
			if np+nw != 21 {
				fail("accepted-transaction-dropped-below-capacity", fmt.Sprintf("21 transactions were queued, 4 committed and 20 remain executable or waiting; the pool holds %d", np+nw), out, "")
			}
			quiet = false
			continue
		}
		steps := R.Range(10, 45)
		if limit == 1 {
			steps = R.Range(40, 90)
		}
		dead := false
		for k := 0; k < steps && !dead; k++ {
			switch c := R.Intn(100); {
			case c < 55: // a submission: mostly the next nonces, sometimes gaps, repeats, stale values
				a := R.Intn(accounts)
				n := nonce[a] + R.Intn(4)
				switch q := R.Intn(100); {
				case limit == 1 && q < 55: // small limits: fill the waiting queue with gapped nonces
					n = nonce[a] + R.Range(2, 30)
				case q < 15:
					n = nonce[a] + R.Range(4, 14)
				case q < 25 && nonce[a] > 0:
					n = R.Intn(nonce[a])
				}
				kind := "kv"
				if R.Chance(8) {
					kind = "bad"
				}
				if len(live) > 0 && R.Chance(10) { // an exact duplicate of something submitted before
					for id, sb := range live {
						held := strings.Contains(lastSnap, fmt.Sprintf("/%d,", id)) || strings.Contains(lastSnap, fmt.Sprintf("/%d ", id))
						res := do(sb.op)
						if held && strings.HasPrefix(res, "ok") {
							fail("exact-duplicate-accepted", "a transaction the pool holds was accepted again", res, "exist")
						}
						break
					}
					continue
				}
				id := nextID
				nextID++
				sop := fmt.Sprintf("submit id=%d from=%d nonce=%d v=%d kind=%s", id, a, n, id, kind)
				res := do(sop)
				r.Count("submit." + strings.Fields(res)[0])
				if strings.HasPrefix(res, "full") {
					// "never drops an executable transaction while below its capacity": a refusal for lack of
					// room is only right when a queue is at its limit (a refusal changes nothing: the snapshot
					// taken now is the pool the transaction was refused by)
					np, nw := 0, 0
					for _, fld := range strings.Fields(do("snap")) {
						if strings.HasPrefix(fld, "P=") && len(fld) > 2 {
							np = len(strings.Split(fld[2:], ","))
						}
						if strings.HasPrefix(fld, "W=") && len(fld) > 2 {
							nw = len(strings.Split(fld[2:], ","))
						}
					}
					if np < limit*10 && nw < limit*10 {
						fail("transaction-refused-as-full-while-below-capacity", fmt.Sprintf("the pool refused a transaction with 'queue is full' while it held pending=%d waiting=%d with limits %d", np, nw, limit*10), res, "ok")
					}
				}
				if res == "PANIC" {
					fail("pool-panics", "a submission panics the pool", res, "")
					dead = true
				}
				if strings.HasPrefix(res, "ok") {
					live[id] = sub{a, n, id, sop}
				}
			case c < 60:
				aid := 1000 + R.Intn(6)
				do(fmt.Sprintf("admin id=%d", aid))
				delete(committed, aid) // submitted again: it may be offered again
			case c < 88: // a block: a subset of what the pool offers (mostly a prefix per account, sometimes with holes: any proposer)
				res := do("reap")
				if !strings.HasPrefix(res, "reap") {
					dead = true
					break
				}
				var ids []string
				seen := map[string]bool{}
				perAcct := map[int]int{}
				for _, fld := range strings.Fields(res)[1:] {
					kvp := strings.SplitN(fld, "=", 2)
					for _, e := range strings.Split(kvp[1], ",") {
						if e == "" {
							continue
						}
						if kvp[0] == "ext" {
							if committed[int(nodeimpl.Atoi(e))] {
								fail("committed-admin-request-offered-again", fmt.Sprintf("admin request %s was contained in a committed block, was not submitted again, and is offered for inclusion again", e), e, "")
							}
							if R.Chance(70) {
								ids = append(ids, e)
							}
							continue
						}
						var a, n, id int
						fmt.Sscanf(e, "%d:%d/%d", &a, &n, &id)
						key := fmt.Sprintf("%d:%d", a, n)
						if seen[key] {
							fail("two-transactions-offered-for-one-account-and-nonce", "the pool offers two transactions with the same account and nonce", e, "")
						}
						seen[key] = true
						if committed[id] {
							fail("committed-transaction-offered-again", fmt.Sprintf("transaction %d was contained in a committed block and is offered for inclusion again", id), e, "")
						}
						want := nonce[a] + perAcct[a]
						if n != want {
							fail("offered-nonces-not-consecutive", fmt.Sprintf("account %d: the pool offers nonce %d where %d is next (application nonce %d)", a, n, want, nonce[a]), e, fmt.Sprint(want))
						}
						perAcct[a]++
						if perAcct[a] <= 1 || R.Chance(70) { // a proposer may take any subset
							ids = append(ids, fmt.Sprint(id))
						}
					}
				}
				res = do("commit ids=" + strings.Join(ids, ","))
				if !strings.HasPrefix(res, "ok") {
					dead = true
					break
				}
				for _, s := range ids {
					committed[int(nodeimpl.Atoi(s))] = true
					delete(live, int(nodeimpl.Atoi(s)))
				}
				// learn the application nonces from the model line of the commit
				last := history[len(history)-1]
				for _, e := range strings.Split(nodeimpl.Kvs(strings.Fields(last))["nonces"], ",") {
					var a, n int
					fmt.Sscanf(e, "%d:%d", &a, &n)
					nonce[a] = n
				}
				for id, sb := range live {
					if sb.n < nonce[sb.a] {
						delete(live, id) // overtaken by the state: the pool may forget it
					}
				}
				r.Count("commit")
			case c < 91:
				do("flush")
				live = map[int]sub{}
			default:
				do("snap")
			}
			if dead {
				break
			}
			// ---- invariants on the snapshot (independent of the model)
			snap := history[len(history)-1]
			_ = snap
			out := do("snap")
			lastSnap = out + " "
			var P, W, A string
			for _, fld := range strings.Fields(out) {
				switch {
				case strings.HasPrefix(fld, "P="):
					P = fld[2:]
				case strings.HasPrefix(fld, "W="):
					W = fld[2:]
				case strings.HasPrefix(fld, "all="):
					A = fld[4:]
				}
			}
			count := func(s string) int {
				if s == "" {
					return 0
				}
				return len(strings.Split(s, ","))
			}
			lim := limit * 10
			if count(P) > lim || count(W) > lim {
				fail("pool-exceeds-its-size-bounds", fmt.Sprintf("pending=%d waiting=%d with limits %d", count(P), count(W), lim), out, "")
			}
			if count(A) != count(P)+count(W) {
				fail("lookup-cache-differs-from-the-queues", fmt.Sprintf("the lookup cache holds %d hashes, the pending and waiting queues %d transactions: the cache leaks (it grows without bound and refuses those transactions forever) or loses entries", count(A), count(P)+count(W)), out, "")
			}
			inPool := map[int]bool{}
			for _, lst := range []string{P, W} {
				for _, e := range strings.Split(lst, ",") {
					if e == "" {
						continue
					}
					var a, n, id int
					fmt.Sscanf(e, "%d:%d/%d", &a, &n, &id)
					inPool[id] = true
				}
			}
			if limit > 1 { // far below capacity: nothing the pool accepted may vanish
				for id, sb := range live {
					if !inPool[id] {
						// displaced by another transaction of the same account and nonce?
						fail("accepted-transaction-dropped-below-capacity", fmt.Sprintf("transaction %d (account %d, nonce %d) was accepted, is neither committed nor overtaken, and is no longer in the pool", id, sb.a, sb.n), out, "")
						delete(live, id)
					}
				}
			}
			r.Distinct(fmt.Sprintf("lim=%d p=%d w=%d", limit, count(P), count(W)))
		}
	}
}
