// C01 harness ("net" engine): several real ConsensusStates (honest validators) under an adversarial,
// seeded scheduler with Byzantine validators (< 1/3 of the power) that sign anything, message
// reordering / duplication / loss, arbitrary timeouts, and crash+restart of honest nodes.
// Every honest node is compared step by step with its Lean model; the Go side checks agreement
// and chain linkage.
package main

import (
	"fmt"
	"strings"

	"verifharness/nodeimpl"
	"verifharness/nodekit"
	"verifharness/vh"
)

type pend struct {
	op   string // op to run at the receiving node (without "node <i> ")
	from int
	seen map[int]bool
}

func main() {
	r := vh.Start()
	defer r.Finish()
	var nodes []*nodeimpl.Impl
	closeAll := func() {
		for _, n := range nodes {
			if n != nil && n.C != nil {
				n.C.Close()
			}
		}
	}
	defer closeAll()
	if r.Replay != "" {
		// replays are interpreted by the same code path as generation (see `run` below)
	}
	atoi := nodeimpl.Atoi
	exec := func(line string) string {
		w := strings.Fields(line)
		switch w[0] {
		case "cfg":
			return "ok"
		case "net":
			closeAll()
			kv := nodeimpl.Kvs(w)
			n := int(atoi(kv["n"]))
			byz := map[int]bool{}
			for _, b := range strings.Split(kv["byz"], ",") {
				if b != "" {
					byz[int(atoi(b))] = true
				}
			}
			reg := nodeimpl.NewRegistry()
			nodes = make([]*nodeimpl.Impl, n)
			for i := 0; i < n; i++ {
				if byz[i] {
					continue
				}
				im := &nodeimpl.Impl{Registry: reg, OwnPrefix: fmt.Sprintf("n%do", i)}
				im.Exec(fmt.Sprintf("init n=%d me=%d powers=%s skip=%s", n, i, kv["powers"], kv["skip"]))
				nodes[i] = im
			}
			return "ok"
		case "node":
			i := int(atoi(w[1]))
			return nodes[i].Exec(strings.Join(w[2:], " "))
		case "mk":
			kv := nodeimpl.Kvs(w)
			by := nodes[int(atoi(kv["by"]))]
			return by.Exec(fmt.Sprintf("mkblock %s proposer=%s valid=%s", w[1], kv["proposer"], kv["valid"]))
		case "own":
			return "ok"
		case "go":
			if w[1] == "restart" {
				i := int(atoi(w[2]))
				nodes[i].C.Restart()
				nodes[i].C.CS.VerifCatchupReplay()
				nodes[i].C.CS.VerifScheduleRound0()
				nodes[i].ResetAfterRestart()
				return "ok"
			}
			if w[1] == "node" {
				i := int(atoi(w[2]))
				nodes[i].Exec(strings.Join(w[3:], " "))
				return "ok"
			}
			return "ok"
		}
		return "bad-op"
	}
	var history []string
	do := func(op string) string {
		res := exec(op)
		r.Op(op, res)
		history = append(history, op)
		return res
	}
	if r.Replay != "" {
		for _, l := range vh.ReadLines(r.Replay) {
			do(l)
		}
		return
	}
	do("cfg")
	R := r.R
	scheds := r.Scale(12, 300)
	// after the random schedules (their stream stays what it was): directed schedules, see below
	const nDirected = 3
	for s := 0; s < scheds+nDirected; s++ {
		directed := s >= scheds
		history = history[:1]
		n := R.Range(4, 7)
		if directed {
			n = 4
		}
		powers := make([]int64, n)
		total := int64(0)
		for i := range powers {
			powers[i] = []int64{1, 1, 1, 2, 3}[R.Intn(5)]
			if directed {
				powers[i] = 1
			}
			total += powers[i]
		}
		// Byzantine set with < 1/3 of the power
		byz := map[int]bool{}
		var bp int64
		for _, i := range R.Perm(n) {
			if R.Chance(50) && (bp+powers[i])*3 < total {
				byz[i] = true
				bp += powers[i]
			}
		}
		if directed { // one validator that votes a little and then falls silent
			byz = map[int]bool{(s - scheds) % 4: true}
		}
		var ps, as, bs []string
		tmp := nodekit.NewChain(powers, 0, false)
		for i := range powers {
			ps = append(ps, fmt.Sprint(powers[i]))
			as = append(as, fmt.Sprintf("%x", tmp.Addr(i)))
			if byz[i] {
				bs = append(bs, fmt.Sprint(i))
			}
		}
		addr := func(i int) string { return as[i] }
		tmp.Close()
		skip := R.Chance(50)
		if directed {
			skip = false
		}
		do(fmt.Sprintf("net n=%d powers=%s addrs=%s skip=%s byz=%s", n, strings.Join(ps, ","), strings.Join(as, ","), vh.B01(skip), strings.Join(bs, ",")))
		r.Count(fmt.Sprintf("net.n=%d.byz=%d", n, len(byz)))
		var honest []int
		for i := 0; i < n; i++ {
			if !byz[i] {
				honest = append(honest, i)
			}
		}
		fail := func(cls, detail, got, want string) {
			r.Fail(vh.Failure{Class: cls, Detail: detail, Ops: append([]string{}, history[1:]...), Got: got, Want: want})
		}
		restarted := map[int]bool{}
		withCrashes := R.Chance(35)
		nRestarts := 0
		height := map[int]int64{}
		timeouts := map[int][]string{} // scheduled timeouts per node: "h r Step"
		commits := map[int64]map[int]string{}
		var pool []pend
		nblk := 0
		dead := map[int]bool{}
		for _, i := range honest {
			height[i] = 1
		}
		// run one op at node i, harvest its digest
		harvest := func(i int, out string) {
			if out == "PANIC" {
				dead[i] = true
				return
			}
			for _, f := range strings.Fields(out) {
				if strings.HasPrefix(f, "h=") {
					height[i] = atoi(f[2:])
				}
				if strings.HasPrefix(f, "T(") {
					x := strings.Split(strings.TrimSuffix(strings.TrimPrefix(f, "T("), ")"), ",")
					timeouts[i] = append(timeouts[i], x[0]+" "+x[1]+" "+x[2])
				}
				if strings.HasPrefix(f, "COMMIT(") {
					x := strings.Split(strings.TrimSuffix(strings.TrimPrefix(f, "COMMIT("), ")"), ",")
					h := atoi(x[0])
					if commits[h] == nil {
						commits[h] = map[int]string{}
					}
					commits[h][i] = x[1]
					for j, b := range commits[h] {
						if b != x[1] {
							fail("agreement-violated", fmt.Sprintf("honest validators %d and %d committed different blocks at height %d", j, i, h), x[1], b)
						}
					}
					// linkage: the committed block names the previous committed block as predecessor
					meta := nodes[i].C.Store.LoadBlockMeta(h)
					if h > 1 {
						prev := nodes[i].C.Store.LoadBlockMeta(h - 1)
						if string(meta.Header.LastBlockID.Hash) != string(prev.Hash) {
							fail("chain-not-linear", fmt.Sprintf("node %d: block %d does not name block %d as predecessor", i, h, h-1), "", "")
						}
					}
				}
			}
		}
		run := func(i int, op string) string {
			if dead[i] {
				return ""
			}
			pre := "node"
			if restarted[i] {
				pre = "go node"
			}
			out := do(fmt.Sprintf("%s %d %s", pre, i, op))
			if restarted[i] {
				// the model no longer follows this node; read the digest directly
				out = nodes[i].Digest()
				out2 := out
				_ = out2
			}
			harvest(i, out)
			return out
		}
		drain := func(i int) {
			if dead[i] {
				return
			}
			var out string
			if restarted[i] {
				out = nodes[i].Exec("drain")
				r.Op(fmt.Sprintf("go node %d drain", i), "ok")
				history = append(history, fmt.Sprintf("go node %d drain", i))
			} else {
				out = do(fmt.Sprintf("node %d drain", i))
			}
			harvest(i, out)
			if !strings.Contains(out, "||") {
				return
			}
			for _, tok := range strings.Fields(strings.Split(out, "||")[0]) {
				body := strings.TrimSuffix(tok[2:], ")")
				f := strings.Split(body, ",")
				switch tok[0] {
				case 'P':
					// own proposal: announce the block to the other models, then it travels
					if strings.HasPrefix(f[1], fmt.Sprintf("n%do", i)) {
						do(fmt.Sprintf("own %s h=%d except=%d", f[1], height[i], i))
					}
					pool = append(pool, pend{fmt.Sprintf("proposal %s h=%d r=%s pol=%s polblock=%s signer=%d bad=0", f[1], height[i], f[0], f[2], f[3], i), i, map[int]bool{}})
				case 'B':
					pool = append(pool, pend{fmt.Sprintf("parts %s h=%d r=0", f[0], height[i]), i, map[int]bool{}})
				case 'V':
					pool = append(pool, pend{fmt.Sprintf("vote t=%s h=%s r=%s idx=%d addr=%s block=%s ok=1 peer=p%d", f[0], f[1], f[2], i, addr(i), f[3], i), i, map[int]bool{}})
				}
			}
		}
		for _, i := range honest {
			// kick off: the NewHeight timeout of height 1
			timeouts[i] = append(timeouts[i], "1 0 NewHeight")
		}
		steps := R.Range(500, 2000)
		if directed {
			steps = 0
			// Two honest validators end up locked on DIFFERENT blocks, by delays alone: A locks X in round
			// 0 (the others miss the polka), B locks Y in round 1 (A and C miss that polka; the fourth
			// validator D votes for Y in round 1 and is never heard of again), and the prevote that
			// completes round 1's polka reaches A only in round 2. A polka for another block in a round
			// after the lock releases the lock - also when it completes late; then the fair suffix
			// terminates. If A kept its lock, A would prevote X and B would prevote Y for ever.
			var D int
			for x := range byz {
				D = x
			}
			idxOf := func(a []byte) int {
				for i := range as {
					if as[i] == fmt.Sprintf("%x", a) {
						return i
					}
				}
				return -1
			}
			deliver := func(j int, match func(op string, from int) bool) {
				for q := 0; q < len(pool); q++ {
					if !pool[q].seen[j] && pool[q].from != j && match(pool[q].op, pool[q].from) {
						pool[q].seen[j] = true
						run(j, pool[q].op)
						drain(j)
					}
				}
			}
			isVote := func(t int, rd int, from int) func(string, int) bool {
				return func(op string, f int) bool {
					return f == from && strings.HasPrefix(op, fmt.Sprintf("vote t=%d h=1 r=%d ", t, rd))
				}
			}
			blockMsgs := func(name string) func(string, int) bool {
				return func(op string, f int) bool {
					return strings.HasPrefix(op, "proposal "+name+" ") || strings.HasPrefix(op, "parts "+name+" ")
				}
			}
			dvote := func(t int, rd int, blk string, to ...int) {
				op := fmt.Sprintf("vote t=%d h=1 r=%d idx=%d addr=%s block=%s ok=1 peer=pb%d", t, rd, D, addr(D), blk, D)
				seen := map[int]bool{}
				for _, j := range to {
					seen[j] = true
					run(j, op)
					drain(j)
				}
				pool = append(pool, pend{op, D, seen})
			}
			fire := func(j int, t string) {
				run(j, "timeout "+t)
				drain(j)
			}
			// the block proposed in round rd: the honest proposer's own, or one D makes
			propose := func(rd int, P int, name string) string {
				if P != D {
					for q := range pool {
						if pool[q].from == P && strings.HasPrefix(pool[q].op, "proposal ") && strings.Contains(pool[q].op, fmt.Sprintf(" r=%d ", rd)) {
							return strings.Fields(pool[q].op)[1]
						}
					}
					return ""
				}
				do(fmt.Sprintf("mk %s h=1 valid=1 proposer=%d by=%d", name, D, honest[0]))
				pool = append(pool, pend{fmt.Sprintf("proposal %s h=1 r=%d pol=-1 polblock=- signer=%d bad=0", name, rd, D), D, map[int]bool{}})
				pool = append(pool, pend{fmt.Sprintf("parts %s h=1 r=%d", name, rd), D, map[int]bool{}})
				return name
			}
			for _, j := range honest {
				fire(j, "1 0 NewHeight")
			}
			vals := nodes[honest[0]].C.CS.GetRoundState().Validators.Copy()
			P0 := idxOf(vals.Proposer().Address)
			vals.IncrementAccum(1)
			P1 := idxOf(vals.Proposer().Address)
			var A, B, C int
			A = -1
			for _, j := range honest {
				if j != P1 && A < 0 {
					A = j
				}
			}
			B = P1
			if P1 == D {
				for _, j := range honest {
					if j != A {
						B = j
						break
					}
				}
			}
			for _, j := range honest {
				if j != A && j != B {
					C = j
				}
			}
			X := propose(0, P0, "dX")
			ok := X != ""
			if ok {
				for _, j := range honest {
					deliver(j, blockMsgs(X)) // everybody prevotes X
				}
				deliver(A, isVote(1, 0, B))
				deliver(A, isVote(1, 0, C)) // A: polka, precommits and locks X
				deliver(B, isVote(1, 0, A))
				deliver(C, isVote(1, 0, A))
				dvote(1, 0, "-", B, C) // B and C: +2/3 of anything, no polka
				fire(B, "1 0 PrevoteWait")
				fire(C, "1 0 PrevoteWait") // they precommit nil
				for _, j := range honest {
					for _, k := range honest {
						deliver(j, isVote(2, 0, k))
					}
					fire(j, "1 0 PrecommitWait") // round 1
				}
				if P1 != D {
					fire(P1, "1 1 Propose") // (a proposer that waits for its own timeout has proposed by now)
				}
				Y := propose(1, P1, "dY")
				ok = Y != "" && Y != X
				if ok {
					for _, j := range honest {
						deliver(j, blockMsgs(Y))
						fire(j, "1 1 Propose") // A prevotes its lock, B and C the proposal
					}
					deliver(B, isVote(1, 1, C))
					dvote(1, 1, Y, B) // B: polka for Y, precommits and locks Y; nobody else hears D
					deliver(C, isVote(1, 1, B))
					deliver(C, isVote(1, 1, A))
					deliver(A, isVote(1, 1, B))
					deliver(A, isVote(1, 1, C))
					fire(A, "1 1 PrevoteWait")
					fire(C, "1 1 PrevoteWait") // no polka seen: they precommit nil
					for _, j := range honest {
						for _, k := range honest {
							deliver(j, isVote(2, 1, k))
						}
						fire(j, "1 1 PrecommitWait") // round 2
					}
					// the delayed prevote of D reaches A: round 1's polka for Y is complete in A's view
					deliver(A, isVote(1, 1, D))
					lb := func(j int) string {
						for _, f := range strings.Fields(nodes[j].Digest()) {
							if strings.HasPrefix(f, "lb=") {
								return f[3:]
							}
						}
						return "?"
					}
					r.Count(fmt.Sprintf("directed.two-locks.A-lock-after-late-polka=%v.B-locked-Y=%v", lb(A) != "-", lb(B) == Y))
				}
			}
			if !ok {
				r.Count("directed.two-locks.setup-incomplete")
			}
		}
		for st := 0; st < steps; st++ {
			c := R.Intn(100)
			i := honest[R.Intn(len(honest))]
			undelivered := false
			for q := range pool {
				if !pool[q].seen[i] && pool[q].from != i {
					undelivered = true
					break
				}
			}
			if undelivered && c >= 62 && R.Chance(75) {
				c = R.Intn(62) // a node with mail mostly reads its mail
			}
			anyMail := false
			for q := range pool {
				for _, j := range honest {
					if !dead[j] && !pool[q].seen[j] && pool[q].from != j {
						anyMail = true
					}
				}
			}
			if !undelivered && c < 62 {
				c = 62 + R.Intn(12) // nothing to read: the clock runs
			}
			if anyMail && c >= 62 && c < 74 && R.Chance(85) {
				continue // timeouts are slow compared with message delivery (most of the time)
			}
			if !anyMail && len(pool) > 0 && R.Chance(40) { // gossip retransmits something to somebody
				q := len(pool) - 1 - R.Intn(min(len(pool), 40))
				delete(pool[q].seen, honest[R.Intn(len(honest))])
				continue
			}
			switch {
			case c < 62 && len(pool) > 0: // deliver a message: mostly the oldest one somebody has not seen yet
				k := -1
				if R.Chance(80) {
					for q := range pool {
						if !pool[q].seen[i] && pool[q].from != i {
							k = q
							break
						}
					}
				}
				if k < 0 {
					k = R.Intn(len(pool)) // possibly a duplicate delivery
				}
				m := pool[k]
				if m.from != i {
					pool[k].seen[i] = true
					run(i, m.op)
					drain(i)
				}
				if R.Chance(4) { // lost on the way to somebody else (gossip may retransmit it later)
					pool[k].seen[honest[R.Intn(len(honest))]] = true
				}
				r.Count("act.deliver")
			case c < 74: // fire a scheduled timeout (mostly the latest)
				ts := timeouts[i]
				if len(ts) > 0 {
					t := ts[len(ts)-1]
					if R.Chance(20) {
						t = ts[R.Intn(len(ts))]
					}
					run(i, "timeout "+t)
					drain(i)
				}
				r.Count("act.timeout")
			case c < 88 && len(byz) > 0: // Byzantine validator signs anything, possibly different things to different nodes
				var b int
				for x := range byz {
					b = x
				}
				blk := "-"
				if nblk > 0 && R.Chance(70) {
					blk = fmt.Sprintf("b%d", R.Intn(nblk))
				}
				if R.Chance(30) {
					// a Byzantine proposal with a block of its own
					name := fmt.Sprintf("b%d", nblk)
					nblk++
					do(fmt.Sprintf("mk %s h=%d valid=%s proposer=%d by=%d", name, height[i], vh.B01(!R.Chance(20)), b, i))
					rd := atoi(strings.Fields(strings.Split(nodes[i].Digest(), " r=")[1])[0])
					// what an honest node has accepted it relays (gossip): the messages also go to the pool
					pop := fmt.Sprintf("proposal %s h=%d r=%d pol=-1 polblock=- signer=%d bad=0", name, height[i], rd, b)
					pap := fmt.Sprintf("parts %s h=%d r=%d", name, height[i], rd)
					sp, sa := map[int]bool{}, map[int]bool{}
					for _, j := range honest {
						if R.Chance(60) && height[j] == height[i] {
							run(j, pop)
							sp[j] = true
							if R.Chance(80) {
								run(j, pap)
								sa[j] = true
							}
							drain(j)
						}
					}
					if len(sp) > 0 {
						pool = append(pool, pend{pop, b, sp})
					}
					if len(sa) > 0 {
						pool = append(pool, pend{pap, b, sa})
					}
				} else {
					rd := R.Intn(3)
					vop := fmt.Sprintf("vote t=%d h=%d r=%d idx=%d addr=%s block=%s ok=1 peer=pb%d", R.Range(1, 2), height[i], rd, b, addr(b), blk, b)
					run(i, vop)
					drain(i)
					pool = append(pool, pend{vop, b, map[int]bool{i: true}}) // node i relays what it accepted
				}
				r.Count("act.byzantine")
			case c < 92: // crash + restart of an honest node (WAL replay); afterwards only the Go oracles judge that node
				if withCrashes && nRestarts < 3 && R.Chance(10) {
					nRestarts++
					if !dead[i] {
						// kill + WAL replay; the Lean model of the node replays its log too
						timeouts[i] = nil
						run(i, "restart torn=0")
						drain(i)
					}
					r.Count("act.restart")
				}
			default:
				drain(i)
			}
			r.Distinct(fmt.Sprintf("n=%d byz=%d h=%d", n, len(byz), height[i]))
		}
		// ---- C12: the fair suffix. The Byzantine validators fall silent; every message sent so far
		// and from now on is delivered to every live honest node, every scheduled timeout fires.
		// Every honest node must get past the highest height anybody was in when the suffix began.
		if r.Mode == "live" {
			target := int64(0)
			for _, j := range honest {
				if dead[j] {
					fail("honest-node-panicked", fmt.Sprintf("honest node %d panicked although the Byzantine validators hold less than 1/3", j), "PANIC", "")
				}
				if height[j] > target {
					target = height[j]
				}
			}
			msgH := func(op string) int64 { return atoi(nodeimpl.Kvs(strings.Fields(op))["h"]) }
			done := func() bool {
				for _, j := range honest {
					if !dead[j] && height[j] <= target {
						return false
					}
				}
				return true
			}
			sent := map[[2]int]bool{}
			rounds := 0
			claimed := map[[2]int64]bool{}
			for ; rounds < 120 && !done(); rounds++ {
				// catch-up of a node that is a height behind somebody: the reactor of the node ahead claims the
				// commit it has for that height (queryMaj23Routine: VoteSetMaj23 with LoadCommit(h)) and sends the
				// precommits of that commit (gossipVotesRoutine). The claim matters when the commit holds a vote of
				// an equivocating validator: the node behind may have seen another vote of that validator first and
				// counts the conflicting one only for a block somebody claims +2/3 for.
				for _, j := range honest {
					if dead[j] || claimed[[2]int64{int64(j), height[j]}] {
						continue
					}
					for _, k := range honest {
						if dead[k] || height[k] <= height[j] {
							continue
						}
						c := nodes[k].C.CS.LoadCommit(height[j])
						if c == nil || len(c.Precommits) == 0 {
							continue
						}
						claimed[[2]int64{int64(j), height[j]}] = true
						hj, name := height[j], nodes[k].NameOfHash(c.BlockID.Hash)
						run(j, fmt.Sprintf("maj23 t=2 h=%d r=%d block=%s peer=p%d", hj, c.Round(), name, k))
						for _, pc := range c.Precommits {
							if pc == nil || dead[j] || height[j] != hj {
								continue
							}
							run(j, fmt.Sprintf("vote t=2 h=%d r=%d idx=%d addr=%s block=%s ok=1 peer=p%d", hj, pc.Round, pc.ValidatorIndex, addr(int(pc.ValidatorIndex)), nodes[k].NameOfHash(pc.BlockID.Hash), k))
							drain(j)
						}
						r.Count("live.catchup-claim")
						break
					}
				}
				for q := 0; q < len(pool); q++ { // the pool grows while we deliver
					for _, j := range honest {
						// block parts are offered again every round: the reactor's data gossip keeps sending a peer
						// the parts it lacks (a node that enters Commit for a block it has not got asks for them
						// with a CommitStep message), so one delivery at a moment the node expected another block's
						// parts is not the last one
						again := strings.HasPrefix(pool[q].op, "parts ")
						// (also to the node that made the block: it drops its own proposal block at a round change and,
						// when the others commit it, has to fetch the parts from them like anybody else)
						if dead[j] || (pool[q].from == j && !again) || (sent[[2]int{q, j}] && !again) || msgH(pool[q].op) != height[j] {
							continue
						}
						sent[[2]int{q, j}] = true
						run(j, pool[q].op)
						drain(j)
					}
				}
				if done() {
					break
				}
				for _, j := range honest {
					ts := timeouts[j]
					timeouts[j] = nil
					for _, t := range ts {
						if atoi(strings.Fields(t)[0]) == height[j] {
							run(j, "timeout "+t)
							drain(j)
						}
					}
				}
			}
			r.Count(fmt.Sprintf("live.rounds=%d", rounds/10*10))
			for _, j := range honest {
				if dead[j] {
					fail("honest-node-panicked", fmt.Sprintf("honest node %d panicked during the fair suffix", j), "PANIC", "")
				} else if height[j] <= target {
					fail("height-does-not-terminate", fmt.Sprintf("with the honest validators (> 2/3) connected and every message and timeout delivered for %d rounds of delivery, honest node %d is still at height %d (target: past %d): %s", rounds, j, height[j], target, nodes[j].Digest()), fmt.Sprint(height[j]), fmt.Sprint(target+1))
				}
			}
		}
		maxh := int64(0)
		for h := range commits {
			if h > maxh {
				maxh = h
			}
		}
		r.Count(fmt.Sprintf("heights-committed=%d", maxh))
	}
}

func min(a, b int) int {
	if a < b {
		return a
	}
	return b
}
