// C02 harness (engine `blockval`): the real pbft.ConsensusState.ValidateBlock (through
// state.ValidateBlock) on blocks a Byzantine proposer can construct.
//
// A real chain is grown by driving the real node through 0..3 committed heights (real keys, real
// commits in the block store); the candidate block for the next height is built from the real
// state and the stored seen-commit, then mutated: every header field, the data, and the
// LastCommit (missing / duplicated / foreign-height / foreign-round / wrongly signed / nil-block /
// wrong-type / other-block precommits, wrong sizes, zero BlockID), with and without recomputing
// the hashes a Byzantine proposer would recompute. The verdict class of the real code is compared
// with the Lean model; a transparent Go-side recount decides "accepted => every conjunct of the
// property", and "the honest block is accepted".
//
// ops:  state <model fields> | n=.. me=.. powers=.. heights=.. seed=..
//
//	validate <model fields> slots ... | mut=<m1>;<m2>..
package main

import (
	"bytes"
	"fmt"
	"os"
	"strings"

	crypto "github.com/dappledger/AnnChain/gemmill/go-crypto"
	"github.com/dappledger/AnnChain/gemmill/types"

	"verifharness/nodeimpl"
	"verifharness/nodekit"
	"verifharness/vh"
)

type impl struct {
	im     *nodeimpl.Impl
	powers []int64           // powers in force at the node's current height
	pw     map[int64][]int64 // powers in force at each height (the harness's own bookkeeping)
	me     int
	equiv  bool // this chain's heights are committed with an equivocating validator (see advance1)
}

func hexs(b []byte) string { return fmt.Sprintf("%x", b) }
func bidStr(b types.BlockID) string {
	return fmt.Sprintf("%x,%d,%x", b.Hash, b.PartsHeader.Total, b.PartsHeader.Hash)
}
func valsStr(vs *types.ValidatorSet) string {
	var xs []string
	for _, v := range vs.Validators {
		xs = append(xs, fmt.Sprintf("%x:%d", v.Address, v.VotingPower))
	}
	return strings.Join(xs, ",")
}

func classify(err error) string {
	if err == nil {
		return "ok"
	}
	s := err.Error()
	switch {
	case strings.Contains(s, "Header.ChainID"):
		return "chainID"
	case strings.Contains(s, "Header.Height"):
		return "height"
	case strings.Contains(s, "Header.NumTxs"):
		return "numTxs"
	case strings.Contains(s, "Header.LastBlockID"):
		return "lastBlockID"
	case strings.Contains(s, "Header.DataHash"):
		return "dataHash"
	case strings.Contains(s, "Header.AppHash"):
		return "appHash"
	case strings.Contains(s, "Header.ReceiptsHash"):
		return "receiptsHash"
	case strings.Contains(s, "Header.LastCommitHash"):
		return "lastCommitHash"
	case strings.Contains(s, "Header.ValidatorsHash"):
		return "valHash"
	case strings.Contains(s, "Commit cannot be for nil block"):
		return "commitNilBlock"
	case strings.Contains(s, "No precommits in commit"):
		return "commitEmpty"
	case strings.Contains(s, "Invalid commit vote. Expected precommit"):
		return "commitType"
	case strings.Contains(s, "Invalid commit precommit height"):
		return "commitHeight"
	case strings.Contains(s, "Invalid commit precommit round"):
		return "commitRound"
	case strings.Contains(s, "is not a validator"):
		return "proposer"
	case strings.Contains(s, "should have no LastCommit precommits"):
		return "firstBlockCommit"
	case strings.Contains(s, "Invalid block commit size"):
		return "commitSize"
	case strings.Contains(s, "wrong set size"):
		return "verify.size"
	case strings.Contains(s, "Invalid commit -- wrong height"):
		// VerifyCommit reports commit height and precommit height with the same words
		return "verify.height"
	case strings.Contains(s, "Invalid commit -- wrong round"):
		return "verify.pround"
	case strings.Contains(s, "not precommit"):
		return "verify.ptype"
	case strings.Contains(s, "invalid signature"):
		return "verify.sig"
	case strings.Contains(s, "wrong validator for slot"):
		return "verify.slot"
	case strings.Contains(s, "insufficient voting power"):
		return "verify.power"
	}
	return "other:" + s
}

// advance commits one height on the real node; part (0..100) of the other validators precommit
func (x *impl) advance(R *vh.Rng) bool {
	ok := x.advance1(R)
	if ok {
		h := x.im.C.CS.GetRoundState().Height
		next := append([]int64{}, x.powers...)
		if ch, has := x.im.C.Changes[h-1]; has {
			next[ch.Idx] = ch.Power
		}
		x.powers = next
		x.pw[h] = next
	}
	return ok
}

func (x *impl) advance1(R *vh.Rng) bool {
	im := x.im
	n := len(x.powers)
	field := func(d, k string) string {
		for _, f := range strings.Fields(d) {
			if strings.HasPrefix(f, k+"=") {
				return f[len(k)+1:]
			}
		}
		return ""
	}
	d := im.Digest()
	h := nodeimpl.Atoi(field(d, "h"))
	if field(d, "s") == "NewHeight" {
		d = im.Exec(fmt.Sprintf("timeout %d 0 NewHeight", h))
	}
	rs := im.C.CS.GetRoundState()
	paddr := rs.Validators.Proposer().Address
	p := 0
	for i := 0; i < n; i++ {
		if bytes.Equal(im.C.Addr(i), paddr) {
			p = i
		}
	}
	if p != x.me {
		nm := fmt.Sprintf("s%d", h)
		im.Exec(fmt.Sprintf("mkblock %s proposer=%d valid=1", nm, p))
		im.Exec(fmt.Sprintf("proposal %s h=%d r=0 pol=-1 polblock=- signer=%d bad=0", nm, h, p))
		im.Exec(fmt.Sprintf("parts %s h=%d r=0", nm, h))
	}
	d = im.Exec("drain")
	for k := 0; k < 4 && nodeimpl.Atoi(field(im.Digest(), "h")) == h && nodeimpl.Atoi(field(im.Digest(), "q")) > 0; k++ {
		d = im.Exec("drain")
	}
	if nodeimpl.Atoi(field(im.Digest(), "h")) == h+1 {
		return true // a validator holding more than 2/3 alone commits its own block
	}
	blk := field(strings.Split(d, "||")[len(strings.Split(d, "||"))-1], "pb")
	if blk == "-" || blk == "" {
		if os.Getenv("VERIF_DEBUG") != "" {
			fmt.Fprintln(os.Stderr, "advance: no block at", h, "proposer", p, "me", x.me, "digest", im.Digest(), "d", d)
		}
		return false
	}
	// everybody else prevotes; a random subset (always > 2/3 together with the node) precommits,
	// the others precommit nil or stay silent
	for i := 0; i < n; i++ {
		if i != x.me {
			im.Exec(fmt.Sprintf("vote t=1 h=%d r=0 idx=%d addr=%x block=%s ok=1 peer=p%d", h, i, im.C.Addr(i), blk, i))
		}
	}
	im.Exec("drain")
	order := R.Perm(n)
	var tot, nilPower int64
	for _, pw := range x.powers {
		tot += pw
	}
	voted := map[int]bool{}
	if x.equiv && n >= 4 {
		// A Byzantine validator e (the heaviest of the others) precommits nil first; a peer claims +2/3
		// for the block; e's precommit for the block arrives (admitted because of the claim); then just
		// enough of the others precommit the block for the quorum to depend on e. The block is rightly
		// committed - and the commit the node stores and hands to the next proposer must verify.
		e := -1
		for i := 0; i < n; i++ {
			if i != x.me && (e < 0 || x.powers[i] > x.powers[e]) {
				e = i
			}
		}
		im.Exec(fmt.Sprintf("vote t=2 h=%d r=0 idx=%d addr=%x block=- ok=1 peer=p%d", h, e, im.C.Addr(e), e))
		im.Exec("drain")
		im.Exec(fmt.Sprintf("maj23 t=2 h=%d r=0 block=%s peer=p%d", h, blk, (e+1)%n))
		im.Exec(fmt.Sprintf("vote t=2 h=%d r=0 idx=%d addr=%x block=%s ok=1 peer=p%d", h, e, im.C.Addr(e), blk, e))
		im.Exec("drain")
		voted[e] = true
		acc := x.powers[x.me] + x.powers[e]
		for _, i := range order {
			if i == x.me || i == e || acc*3 > tot*2 || nodeimpl.Atoi(field(im.Digest(), "h")) > h {
				continue
			}
			im.Exec(fmt.Sprintf("vote t=2 h=%d r=0 idx=%d addr=%x block=%s ok=1 peer=p%d", h, i, im.C.Addr(i), blk, i))
			im.Exec("drain")
			voted[i] = true
			acc += x.powers[i]
		}
	}
	for _, i := range order {
		if i == x.me || voted[i] || nodeimpl.Atoi(field(im.Digest(), "h")) > h {
			continue
		}
		b := blk
		// a nil precommit (it ends up in the seen commit when it arrives before the 2/3), as long as
		// the others still hold more than 2/3
		if R.Chance(20) && (tot-nilPower-x.powers[i])*3 > tot*2 {
			b = "-"
			nilPower += x.powers[i]
		}
		im.Exec(fmt.Sprintf("vote t=2 h=%d r=0 idx=%d addr=%x block=%s ok=1 peer=p%d", h, i, im.C.Addr(i), b, i))
		im.Exec("drain")
		if nodeimpl.Atoi(field(im.Digest(), "h")) > h {
			break
		}
	}
	for k := 0; k < 3 && nodeimpl.Atoi(field(im.Digest(), "h")) == h; k++ {
		im.Exec("drain")
	}
	if nodeimpl.Atoi(field(im.Digest(), "h")) != h+1 && os.Getenv("VERIF_DEBUG") != "" {
		fmt.Fprintln(os.Stderr, "advance failed at", h, "proposer", p, "me", x.me, "blk", blk, "digest", im.Digest())
	}
	return nodeimpl.Atoi(field(im.Digest(), "h")) == h+1
}

func (x *impl) setup(kv map[string]string) string {
	x.powers = nil
	for _, p := range strings.Split(kv["powers"], ",") {
		x.powers = append(x.powers, nodeimpl.Atoi(p))
	}
	x.me = int(nodeimpl.Atoi(kv["me"]))
	if x.im != nil && x.im.C != nil {
		x.im.C.Close()
	}
	x.im = &nodeimpl.Impl{}
	var ps []string
	for _, p := range x.powers {
		ps = append(ps, fmt.Sprint(p))
	}
	x.im.Exec(fmt.Sprintf("init n=%d me=%d powers=%s skip=0", len(x.powers), x.me, strings.Join(ps, ",")))
	R := vh.NewRng(uint64(nodeimpl.Atoi(kv["seed"])))
	x.equiv = nodeimpl.Atoi(kv["seed"])%2 == 0
	x.pw = map[int64][]int64{1: append([]int64{}, x.powers...)}
	x.im.C.Changes = map[int64]nodekit.PowerChange{}
	for h := int64(1); h <= nodeimpl.Atoi(kv["heights"]); h++ {
		if R.Chance(45) { // the application changes a validator's power at the end of block h
			x.im.C.Changes[h] = nodekit.PowerChange{Idx: R.Intn(len(x.powers)), Power: int64(R.Range(1, 6))}
		}
	}
	for i := int64(0); i < nodeimpl.Atoi(kv["heights"]); i++ {
		if !x.advance(R) {
			return "setup-failed"
		}
	}
	s := x.im.C.CS.VerifState()
	return fmt.Sprintf("state chain=%s lbh=%d lbid=%s app=%x rec=%x vh=%x vals=%s lastvals=%s",
		s.ChainID, s.LastBlockHeight, bidStr(s.LastBlockID), s.AppHash, s.ReceiptsHash, s.Validators.Hash(),
		valsStr(s.Validators), valsStr(s.LastValidators))
}

// checkSets: the validator sets of the real state are those the harness knows were in force
func (x *impl) checkSets() string {
	s := x.im.C.CS.VerifState()
	same := func(vs *types.ValidatorSet, pw []int64) bool {
		if vs.Size() != len(pw) {
			return false
		}
		for i, v := range vs.Validators {
			if v.VotingPower != pw[i] {
				return false
			}
		}
		return true
	}
	if s.LastBlockHeight >= 1 && !same(s.LastValidators, x.pw[s.LastBlockHeight]) {
		return fmt.Sprintf("LastValidators (the set the last commit is verified against) has powers %s but block %d was decided by a set with powers %v", valsStr(s.LastValidators), s.LastBlockHeight, x.pw[s.LastBlockHeight])
	}
	if !same(s.Validators, x.pw[s.LastBlockHeight+1]) {
		return fmt.Sprintf("Validators has powers %s but the set in force at height %d has powers %v", valsStr(s.Validators), s.LastBlockHeight+1, x.pw[s.LastBlockHeight+1])
	}
	return ""
}

func copyVote(v *types.Vote) *types.Vote {
	if v == nil {
		return nil
	}
	c := *v
	return &c
}

// candidate builds the honest block for the next height and applies the mutations
func (x *impl) candidate(muts []string) *types.Block {
	c := x.im.C
	s := c.CS.VerifState()
	base, _ := c.MakeBlock("cand", (x.me+1)%len(x.powers), true)
	pre := make([]*types.Vote, len(base.LastCommit.Precommits))
	for i, v := range base.LastCommit.Precommits {
		pre[i] = copyVote(v)
	}
	cbid := base.LastCommit.BlockID
	hdr := *base.Header
	data := &types.Data{Txs: append([]types.Tx{}, base.Data.Txs...)}
	flip := func(b []byte) []byte {
		o := append([]byte{}, b...)
		if len(o) == 0 {
			return []byte{1}
		}
		o[0] ^= 0x55
		return o
	}
	sign := func(pos int, key int, h, r int64, t byte, id types.BlockID, tamper bool) *types.Vote {
		return c.SignVote(pos, c.Addr(pos%len(x.powers)), h, r, t, id, key, tamper)
	}
	other := types.BlockID{Hash: []byte("another-block-hash--"), PartsHeader: types.PartSetHeader{Total: 1, Hash: []byte("another-parts-hash--")}}
	slot := func(a string) int {
		i := int(nodeimpl.Atoi(a))
		if len(pre) == 0 {
			return -1
		}
		return ((i % len(pre)) + len(pre)) % len(pre)
	}
	hc, rc := s.LastBlockHeight, int64(0)
	for _, v := range pre {
		if v != nil {
			rc = v.Round
			break
		}
	}
	for _, m := range muts {
		f := strings.Split(m, ":")
		arg := ""
		if len(f) > 1 {
			arg = f[1]
		}
		switch f[0] {
		case "none", "":
		case "chainid":
			hdr.ChainID += "x"
		case "height+":
			hdr.Height++
		case "height-":
			hdr.Height--
		case "numtxs":
			hdr.NumTxs++
		case "lbid-hash":
			hdr.LastBlockID.Hash = flip(hdr.LastBlockID.Hash)
		case "lbid-total":
			hdr.LastBlockID.PartsHeader.Total++
		case "lbid-phash":
			hdr.LastBlockID.PartsHeader.Hash = flip(hdr.LastBlockID.PartsHeader.Hash)
		case "datahash":
			hdr.DataHash = flip(hdr.DataHash)
		case "data": // another payload; NumTxs adjusted, DataHash not
			data.Txs = append(data.Txs, types.Tx("extra"))
			hdr.NumTxs++
		case "data-rehash": // another payload, consistently
			data.Txs = append(data.Txs, types.Tx("extra"))
			hdr.NumTxs++
			hdr.DataHash = (&types.Data{Txs: data.Txs}).Hash()
		case "apphash":
			hdr.AppHash = flip(hdr.AppHash)
		case "receiptshash":
			hdr.ReceiptsHash = flip(hdr.ReceiptsHash)
		case "lchash":
			hdr.LastCommitHash = flip(hdr.LastCommitHash)
		case "valhash":
			hdr.ValidatorsHash = flip(hdr.ValidatorsHash)
		case "valhash-lastvals":
			hdr.ValidatorsHash = []byte("some-other-validator-set")
		case "proposer-stranger":
			hdr.ProposerAddress = flip(hdr.ProposerAddress)
		case "proposer-other":
			hdr.ProposerAddress = c.Addr((x.me + 2) % len(x.powers))
		// ---- LastCommit
		case "drop":
			if i := slot(arg); i >= 0 {
				pre[i] = nil
			}
		case "dropmany": // keep validators only up to 2/3 of the power (not more)
			var tot, acc int64
			for _, p := range x.powers {
				tot += p
			}
			for i := range pre {
				if pre[i] == nil || i >= len(x.powers) {
					continue
				}
				if (acc+x.powers[i])*3 > tot*2 {
					pre[i] = nil
				} else {
					acc += x.powers[i]
				}
			}
		case "allnil":
			for i := range pre {
				pre[i] = nil
			}
		case "dup": // the precommit of slot i also in slot i+1
			if i := slot(arg); i >= 0 && pre[i] != nil {
				pre[(i+1)%len(pre)] = copyVote(pre[i])
			}
		case "foreignheight": // genuinely signed by that validator, for another height
			if i := slot(arg); i >= 0 {
				pre[i] = sign(i, i, hc+1, rc, types.VoteTypePrecommit, s.LastBlockID, false)
			}
		case "foreignround":
			if i := slot(arg); i >= 0 {
				pre[i] = sign(i, i, hc, rc+1, types.VoteTypePrecommit, s.LastBlockID, false)
			}
		case "allround": // a complete commit of another round, genuinely signed: valid
			for i := range pre {
				pre[i] = sign(i, i, hc, rc+2, types.VoteTypePrecommit, s.LastBlockID, false)
			}
		case "badsig":
			if i := slot(arg); i >= 0 {
				pre[i] = sign(i, i, hc, rc, types.VoteTypePrecommit, s.LastBlockID, true)
			}
		case "wrongkey": // signed by the neighbour
			if i := slot(arg); i >= 0 {
				pre[i] = sign(i, (i+1)%len(pre), hc, rc, types.VoteTypePrecommit, s.LastBlockID, false)
			}
		case "nilblock":
			if i := slot(arg); i >= 0 {
				pre[i] = sign(i, i, hc, rc, types.VoteTypePrecommit, types.BlockID{}, false)
			}
		case "nilblock-badsig": // a precommit that does not count for the block AND does not verify
			if i := slot(arg); i >= 0 {
				pre[i] = sign(i, i, hc, rc, types.VoteTypePrecommit, types.BlockID{}, true)
			}
		case "otherblock-badsig":
			if i := slot(arg); i >= 0 {
				pre[i] = sign(i, i, hc, rc, types.VoteTypePrecommit, other, true)
			}
		case "type":
			if i := slot(arg); i >= 0 {
				pre[i] = sign(i, i, hc, rc, types.VoteTypePrevote, s.LastBlockID, false)
			}
		case "otherblock":
			if i := slot(arg); i >= 0 {
				pre[i] = sign(i, i, hc, rc, types.VoteTypePrecommit, other, false)
			}
		case "allother": // everybody genuinely precommitted ANOTHER block
			for i := range pre {
				pre[i] = sign(i, i, hc, rc, types.VoteTypePrecommit, other, false)
			}
		case "fill": // every validator's genuine precommit
			for i := range pre {
				pre[i] = sign(i, i, hc, rc, types.VoteTypePrecommit, s.LastBlockID, false)
			}
		case "extranil":
			pre = append(pre, nil)
		case "extravote":
			pre = append(pre, sign(len(pre), 0, hc, rc, types.VoteTypePrecommit, s.LastBlockID, false))
		case "fewer":
			if len(pre) > 0 {
				pre = pre[:len(pre)-1]
			}
		case "noslots":
			pre = nil
		case "cbid-zero":
			cbid = types.BlockID{}
		case "cbid-other":
			cbid = other
		case "swap":
			if i := slot(arg); i >= 0 {
				j := (i + 1) % len(pre)
				pre[i], pre[j] = pre[j], pre[i]
			}
		case "slotidx": // a genuine precommit whose index field names another validator (the sign bytes do not cover it)
			if i := slot(arg); i >= 0 && pre[i] != nil {
				pre[i] = copyVote(pre[i])
				pre[i].ValidatorIndex = (i + 1) % (len(pre) + 1)
			}
		case "slotaddr": // ... or whose address field does
			if i := slot(arg); i >= 0 && pre[i] != nil {
				pre[i] = copyVote(pre[i])
				pre[i].ValidatorAddress = []byte("somebody-else")
			}
		case "h1vote": // a precommit in the commit of the first block
			pre = append(pre, sign(0, 0, 0, 0, types.VoteTypePrecommit, other, false))
		case "rehash": // what a Byzantine proposer recomputes
			hdr.LastCommitHash = (&types.Commit{BlockID: cbid, Precommits: pre}).Hash()
		}
	}
	return &types.Block{Header: &hdr, Data: data, LastCommit: &types.Commit{BlockID: cbid, Precommits: pre}}
}

func (x *impl) render(b *types.Block) string {
	s := x.im.C.CS.VerifState()
	var slots []string
	for pos, v := range b.LastCommit.Precommits {
		if v == nil {
			slots = append(slots, "-")
			continue
		}
		ok := false
		if pos < s.LastValidators.Size() {
			_, val := s.LastValidators.GetByIndex(pos)
			ok = val.PubKey.VerifyBytes(types.SignBytes(s.ChainID, v), v.Signature)
		}
		slots = append(slots, fmt.Sprintf("%d,%x,%d,%d,%d,%s,x,0,%s", v.ValidatorIndex, v.ValidatorAddress, v.Height, v.Round, v.Type, bidStr(v.BlockID), vh.B01(ok)))
	}
	data := &types.Data{Txs: b.Data.Txs, ExTxs: b.Data.ExTxs}
	commit := &types.Commit{BlockID: b.LastCommit.BlockID, Precommits: b.LastCommit.Precommits}
	return fmt.Sprintf("validate chain=%s h=%d numtxs=%d ntx=%d lbid=%s dh=%x dd=%x app=%x rec=%x lch=%x lcd=%x vh=%x prop=%x cbid=%s slots %s",
		b.ChainID, b.Height, b.NumTxs, len(b.Data.Txs)+len(b.Data.ExTxs), bidStr(b.LastBlockID), b.DataHash, data.Hash(),
		b.AppHash, b.ReceiptsHash, b.LastCommitHash, commit.Hash(), b.ValidatorsHash, b.ProposerAddress, bidStr(b.LastCommit.BlockID),
		strings.Join(slots, " "))
}

// recount: the conjuncts of the property, evaluated without the validation code
func (x *impl) recount(b *types.Block) (string, bool) {
	s := x.im.C.CS.VerifState()
	switch {
	case b.ChainID != s.ChainID:
		return "chain id", false
	case b.Height != s.LastBlockHeight+1:
		return "height does not extend the committed chain", false
	case !bytes.Equal(b.LastBlockID.Hash, s.LastBlockID.Hash) || b.LastBlockID.PartsHeader.Total != s.LastBlockID.PartsHeader.Total || !bytes.Equal(b.LastBlockID.PartsHeader.Hash, s.LastBlockID.PartsHeader.Hash):
		return "previous-block id", false
	case !bytes.Equal(b.AppHash, s.AppHash):
		return "application hash of the prior state", false
	case !bytes.Equal(b.ReceiptsHash, s.ReceiptsHash):
		return "receipts hash of the prior state", false
	case !bytes.Equal(b.DataHash, (&types.Data{Txs: b.Data.Txs, ExTxs: b.Data.ExTxs}).Hash()):
		return "data hash is not the hash of the data", false
	case !bytes.Equal(b.LastCommitHash, (&types.Commit{BlockID: b.LastCommit.BlockID, Precommits: b.LastCommit.Precommits}).Hash()):
		return "last-commit hash is not the hash of the last commit", false
	case !bytes.Equal(b.ValidatorsHash, s.Validators.Hash()):
		return "validator-set hash is not the hash of the validator set", false
	}
	if b.Height == 1 {
		return "", true
	}
	// > 2/3 of LastValidators, one round, for LastBlockID, each signature under its own key
	var tot, acc int64
	truePw := x.pw[s.LastBlockHeight] // the set in force when the previous block was decided
	for _, p := range truePw {
		tot += p
	}
	round, have := int64(0), false
	for pos, v := range b.LastCommit.Precommits {
		if v == nil || pos >= s.LastValidators.Size() || pos >= len(truePw) {
			continue
		}
		_, val := s.LastValidators.GetByIndex(pos)
		pk, ok := val.PubKey.(crypto.PubKeyEd25519)
		if !ok {
			continue
		}
		if !pk.VerifyBytes(types.SignBytes(s.ChainID, v), v.Signature) {
			// "carries a verifiable commit": what is stored as the commit of the previous block must verify slot by
			// slot, also the precommits for nil or for another block that do not count towards the 2/3
			return fmt.Sprintf("the precommit in slot %d of the last commit does not verify under the key of its slot", pos), false
		}
		if v.Type != types.VoteTypePrecommit || v.Height != s.LastBlockHeight || !bytes.Equal(v.BlockID.Hash, s.LastBlockID.Hash) ||
			v.BlockID.PartsHeader.Total != s.LastBlockID.PartsHeader.Total || !bytes.Equal(v.BlockID.PartsHeader.Hash, s.LastBlockID.PartsHeader.Hash) {
			continue
		}
		if !have {
			round, have = v.Round, true
		}
		if v.Round != round {
			continue
		}
		acc += truePw[pos]
	}
	if acc*3 <= tot*2 {
		return fmt.Sprintf("last commit carries only %d of %d voting power for the previous block in one round", acc, tot), false
	}
	return "", true
}

func main() {
	r := vh.Start()
	defer r.Finish()
	x := &impl{}
	var history []string
	// exec returns (line for the model, answer)
	exec := func(op string) (string, string) {
		model := op
		res := vh.Guard(func() string {
			parts := strings.SplitN(op, "|", 2)
			tail := parts[len(parts)-1]
			kv := nodeimpl.Kvs(strings.Fields(tail))
			w := strings.Fields(op)
			switch w[0] {
			case "cfg":
				return "ok"
			case "state":
				line := x.setup(kv)
				if line == "setup-failed" {
					return line
				}
				model = line + " | " + strings.TrimSpace(tail)
				return "ok"
			case "validate":
				b := x.candidate(strings.Split(kv["mut"], ";"))
				model = x.render(b) + " | " + strings.TrimSpace(tail)
				return classify(x.im.C.CS.VerifState().ValidateBlock(b))
			}
			return "bad-op"
		})
		if strings.HasPrefix(res, "panic") {
			res = "panic"
		}
		return model, res
	}
	do := func(op string) string {
		m, res := exec(op)
		r.Op(m, res)
		history = append(history, m)
		return res
	}
	if r.Replay != "" {
		for _, l := range vh.ReadLines(r.Replay) {
			do(l)
		}
		return
	}
	do("cfg")
	R := r.R
	header := []string{"chainid", "height+", "height-", "numtxs", "lbid-hash", "lbid-total", "lbid-phash", "datahash", "data", "data-rehash",
		"apphash", "receiptshash", "lchash", "valhash", "valhash-lastvals", "proposer-stranger", "proposer-other"}
	commitM := []string{"drop", "dropmany", "allnil", "dup", "foreignheight", "foreignround", "allround", "badsig", "wrongkey", "nilblock", "nilblock-badsig", "otherblock-badsig", "type",
		"otherblock", "allother", "fill", "extranil", "extravote", "fewer", "noslots", "cbid-zero", "cbid-other", "swap", "slotidx", "slotaddr", "h1vote"}
	seqs := r.Scale(14, 160)
	for q := 0; q < seqs; q++ {
		n := R.Range(1, 7)
		if R.Chance(70) {
			n = R.Range(4, 7)
		}
		var ps []string
		for i := 0; i < n; i++ {
			p := 1
			if R.Chance(50) {
				p = R.Range(1, 5)
			}
			ps = append(ps, fmt.Sprint(p))
		}
		heights := R.Intn(4)
		start := len(history)
		if do(fmt.Sprintf("state | n=%d me=%d powers=%s heights=%d seed=%d", n, R.Intn(n), strings.Join(ps, ","), heights, R.Intn(1000000))) != "ok" {
			r.Count("setup-failed")
			continue
		}
		r.Count(fmt.Sprintf("chain.n=%d.heights=%d.changes=%d", n, heights, len(x.im.C.Changes)))
		stateLine := history[start]
		if what := x.checkSets(); what != "" {
			r.Fail(vh.Failure{Class: "state-validator-sets-are-not-those-in-force", Detail: what, Ops: []string{stateLine}, Got: what, Want: "the sets in force"})
		}
		fail := func(cls, detail, got, want string, op string) {
			r.Fail(vh.Failure{Class: cls, Detail: detail, Ops: []string{stateLine, op}, Got: got, Want: want})
		}
		check := func(muts string) {
			res := do("validate | mut=" + muts)
			op := history[len(history)-1]
			r.Count("verdict." + res)
			r.Distinct(fmt.Sprintf("h=%d mut=%s res=%s", heights+1, strings.Join(stripArgs(muts), ";"), res))
			if res == "panic" {
				fail("validateblock-panics", "ValidateBlock panics on a block a Byzantine proposer can send", res, "an error", op)
				return
			}
			b := x.candidate(strings.Split(muts, ";"))
			what, holds := x.recount(b)
			if res == "ok" && !holds {
				fail("accepted-block-violates-"+strings.ReplaceAll(strings.Split(what, " only")[0], " ", "-"), "ValidateBlock accepts a block for which the property's conjunct does not hold: "+what, res, "an error", op)
			}
			if muts == "none" && res != "ok" {
				fail("honest-block-rejected", "the block an honest proposer builds from the real state and the stored seen-commit is rejected", res, "ok", op)
			}
		}
		check("none")
		trials := r.Scale(40, 120)
		for t := 0; t < trials; t++ {
			var ms []string
			k := 1
			if R.Chance(35) {
				k = R.Range(2, 3)
			}
			rehash := false
			for i := 0; i < k; i++ {
				if R.Chance(45) {
					ms = append(ms, header[R.Intn(len(header))])
				} else {
					m := commitM[R.Intn(len(commitM))]
					ms = append(ms, fmt.Sprintf("%s:%d", m, R.Intn(8)))
					rehash = true
				}
			}
			if rehash && R.Chance(85) {
				ms = append(ms, "rehash")
			}
			check(strings.Join(ms, ";"))
		}
	}
}

func stripArgs(m string) []string {
	var o []string
	for _, x := range strings.Split(m, ";") {
		o = append(o, strings.Split(x, ":")[0])
	}
	return o
}

var _ = nodekit.ChainID
