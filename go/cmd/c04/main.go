// C04 harness ("node" engine): the real pbft.ConsensusState of one validator, stepped synchronously
// through the verif shim, against Model/Node.lean.
package main

import (
	"fmt"
	"sort"
	"strings"

	"verifharness/nodeimpl"
	"verifharness/nodekit"
	"verifharness/vh"
)

func main() {
	r := vh.Start()
	defer r.Finish()
	im := &nodeimpl.Impl{}
	defer func() {
		if im.C != nil {
			im.C.Close()
		}
	}()
	var history []string
	do := func(op string) string {
		res := im.Exec(op)
		r.Op(op, res)
		history = append(history, op)
		return res
	}
	if r.Replay != "" {
		for _, l := range vh.ReadLines(r.Replay) {
			do(l)
		}
		return
	}
	do("cfg")
	R := r.R
	seqs := r.Scale(60, 1200)
	// after the random sequences (their stream stays what it was): directed sequences, see below
	const nDirected = 8
	for s := 0; s < seqs+nDirected; s++ {
		q := s
		directed := s >= seqs
		history = history[:1]
		n := R.Range(4, 7)
		if directed {
			n = 4
		}
		powers := make([]int64, n)
		pm := R.Intn(3)
		for i := range powers {
			switch pm {
			case 0:
				powers[i] = 1
			case 1:
				powers[i] = int64(R.Range(1, 3))
			default:
				powers[i] = int64(1 + i%2*2)
			}
		}
		me := R.Intn(n)
		if directed {
			me = s % 4
			for i := range powers {
				powers[i] = 1
			}
		}
		var ps, as []string
		total := int64(0)
		for _, p := range powers {
			ps = append(ps, fmt.Sprint(p))
			total += p
		}
		// addresses are known only after the chain exists; build once to learn them
		tmp := nodekit.NewChain(powers, me, false)
		for i := range powers {
			as = append(as, fmt.Sprintf("%x", tmp.Addr(i)))
		}
		tmp.Close()
		skip := R.Chance(30)
		if directed {
			skip = false
		}
		res := do(fmt.Sprintf("init n=%d me=%d powers=%s skip=%s addrs=%s", n, me, strings.Join(ps, ","), vh.B01(skip), strings.Join(as, ",")))
		r.Count(fmt.Sprintf("n=%d.powers=%d", n, pm))
		ledgerOff := false // after a torn restart the node has legitimately forgotten an input the ledger still has
		fail := func(cls, detail, got, want string) {
			if ledgerOff {
				return
			}
			r.Fail(vh.Failure{Class: cls, Detail: detail, Ops: append([]string{}, history[1:]...), Got: got, Want: want})
		}
		// ---- the monitor's ledger: what the node has RECEIVED (valid votes), per round and type
		type rk struct {
			r int64
			t int
		}
		// It holds every valid vote SENT to the node: an upper bound of what the node may count (it
		// drops a peer's third catch-up round and the second of two conflicting votes), so a verdict
		// "fewer than +2/3 even among everything sent" never blames a node that counted correctly.
		recv := map[rk]map[int][]string{} // validator -> block names
		record := func(k rk, v int, b string) {
			if recv[k] == nil {
				recv[k] = map[int][]string{}
			}
			for _, x := range recv[k][v] {
				if x == b {
					return
				}
			}
			recv[k][v] = append(recv[k][v], b)
		}
		power := func(k rk, b string) int64 {
			var p int64
			for v, xs := range recv[k] {
				for _, x := range xs {
					if x == b {
						p += powers[v]
					}
				}
			}
			return p
		}
		polkaFor := func(round int64) (string, bool) {
			cnt := map[string]int64{}
			for v, xs := range recv[rk{round, 1}] {
				for _, x := range xs {
					cnt[x] += powers[v]
				}
			}
			for b, p := range cnt {
				if p*3 > total*2 {
					return b, true
				}
			}
			return "", false
		}
		lastPrecommitRound, lastPrecommitBlock := int64(-1), ""
		ledgerH := int64(1)
		nblk := 0
		state := func() (int64, int64, string) {
			f := strings.Fields(res)
			var h, rd int64
			st := ""
			for _, x := range f {
				if strings.HasPrefix(x, "h=") {
					h = nodeimpl.Atoi(x[2:])
				} else if strings.HasPrefix(x, "r=") {
					rd = nodeimpl.Atoi(x[2:])
				} else if strings.HasPrefix(x, "s=") {
					st = x[2:]
				}
			}
			return h, rd, st
		}
		observe := func(out string) {
			committed := strings.Contains(out, "COMMIT(")
			var carry [][4]string
			// own messages processed by a drain: "V(t,r,block)" tokens before "||"
			if strings.Contains(out, "||") {
				for _, tok := range strings.Fields(strings.Split(out, "||")[0]) {
					if !strings.HasPrefix(tok, "V(") {
						continue
					}
					f := strings.Split(strings.TrimSuffix(strings.TrimPrefix(tok, "V("), ")"), ",")
					t, vh_, rd, b := int(nodeimpl.Atoi(f[0])), nodeimpl.Atoi(f[1]), nodeimpl.Atoi(f[2]), f[3]
					if committed {
						// a drain that crosses a height boundary: tokens of two heights, judge nothing - but the
						// node's own votes of the NEW height (with skip_timeout_commit it enters the next round in
						// the same drain) belong into the new ledger
						carry = append(carry, [4]string{f[0], f[1], f[2], f[3]})
						continue
					}
					if vh_ != ledgerH {
						continue // a stale own vote of an earlier height still in the queue
					}
					k := rk{rd, t}
					if prev := recv[k][me]; len(prev) > 0 && prev[0] != b {
						fail("validator-equivocates", "the validator emitted two different votes of one type in one round", tok, prev[0])
					}
					record(k, me, b)
					if t == 2 && b != "-" {
						if power(rk{rd, 1}, b)*3 <= total*2 {
							fail("precommit-without-polka", fmt.Sprintf("the validator precommitted %s in round %d without having received +2/3 prevotes for it in that round", b, rd), tok, "precommit nil")
						}
						lastPrecommitRound, lastPrecommitBlock = rd, b
					}
					if t == 1 && lastPrecommitRound >= 0 && rd > lastPrecommitRound && b != lastPrecommitBlock {
						unlocked := false
						for q := lastPrecommitRound + 1; q <= rd; q++ {
							// any block but the locked one with +2/3 among the votes sent (an equivocating
							// validator can complete two polkas in one round)
							cnt := map[string]int64{}
							for v, xs := range recv[rk{q, 1}] {
								for _, x := range xs {
									cnt[x] += powers[v]
								}
							}
							for pb, pw := range cnt {
								if pb != lastPrecommitBlock && pw*3 > total*2 {
									unlocked = true
								}
							}
						}
						if !unlocked {
							fail("prevote-abandons-lock-without-later-polka", fmt.Sprintf("after precommitting %s in round %d the validator prevoted %s in round %d although it received no +2/3 prevotes for something else in a later round", lastPrecommitBlock, lastPrecommitRound, b, rd), tok, lastPrecommitBlock)
						}
					}
				}
			}
			if committed {
				i := strings.Index(out, "COMMIT(")
				f := strings.Split(strings.TrimSuffix(strings.Fields(out[i+7:])[0], ")"), ",")
				b := f[1]
				okc := false
				for k := range recv {
					if k.t == 2 && power(k, b)*3 > total*2 {
						okc = true
					}
				}
				if !okc && !strings.Contains(out, "||") {
					fail("commit-without-two-thirds-precommits", "the validator committed block "+b+" without +2/3 precommits for it in one round", out, "no commit")
				}
				if e, ok := im.Blocks[b]; ok && !e.Valid {
					fail("invalid-block-committed", "the validator committed an invalid block", out, "no commit")
				}
				recv = map[rk]map[int][]string{}
				lastPrecommitRound, lastPrecommitBlock = -1, ""
				ledgerH = nodeimpl.Atoi(f[0]) + 1
				for _, c := range carry {
					if nodeimpl.Atoi(c[1]) != ledgerH {
						continue
					}
					k := rk{nodeimpl.Atoi(c[2]), int(nodeimpl.Atoi(c[0]))}
					record(k, me, c[3])
					if k.t == 2 && c[3] != "-" {
						lastPrecommitRound, lastPrecommitBlock = k.r, c[3]
					}
				}
			}
		}
		dead := false
		step := func(op string) {
			if dead {
				return // after a panic the real object is in an undefined state: end of this sequence
			}
			res = do(op)
			if res == "PANIC" {
				dead = true
				return
			}
			observe(res)
		}
		peerVote := func(v int, t int, rd int64, b string, h int64) {
			// a valid vote by validator v (recorded in the ledger when for the node's height)
			op := fmt.Sprintf("vote t=%d h=%d r=%d idx=%d addr=%x block=%s ok=1 peer=p%d", t, h, rd, v, im.C.Addr(v), b, v)
			ch, _, _ := state()
			if h == ch {
				record(rk{rd, t}, v, b)
			}
			step(op)
		}
		known := func() string {
			if nblk == 0 || R.Chance(15) {
				return "-"
			}
			return fmt.Sprintf("b%d", R.Intn(nblk))
		}
		proposerIdx := func() int {
			a := im.C.CS.GetRoundState().Validators.Proposer().Address
			for i := range powers {
				if string(im.C.Addr(i)) == string(a) {
					return i
				}
			}
			return 0
		}
		// ---- C08: one hostile peer message; `reject` = it fails validation, so the node's state
		// (round state, votes, scheduled timeouts, queue) must be EXACTLY as before and it must not panic
		// validators that may vote in absurd rounds: together below 1/3 of the power (with 2/3 of the
		// power in one absurd round the node would rightly try to go there)
		var byz []int
		{
			var acc int64
			for _, i := range R.Perm(n) {
				if i != me && (acc+powers[i])*3 < total {
					byz = append(byz, i)
					acc += powers[i]
				}
			}
		}
		hostile := func(h, rd int64, st string) {
			v := R.Intn(n)
			b := known()
			t := R.Range(1, 2)
			addr := fmt.Sprintf("%x", im.C.Addr(v))
			op, reject, kind := "", true, ""
			big := []int64{1 << 31, 1 << 40, 1<<62 + 5, -1, -(1 << 40)}
			switch k := R.Intn(22); k {
			case 0:
				kind, op = "vote-tampered-sig", fmt.Sprintf("vote t=%d h=%d r=%d idx=%d addr=%s block=%s ok=0 peer=hx tamper=1", t, h, rd, v, addr, b)
			case 1:
				kind, op = "vote-other-key", fmt.Sprintf("vote t=%d h=%d r=%d idx=%d addr=%s block=%s ok=0 peer=hx signer=%d", t, h, rd, v, addr, b, (v+1)%n)
				reject = n > 1
				if n == 1 {
					op = strings.Replace(op, "ok=0", "ok=1", 1)
				}
			case 2:
				kind, op = "vote-index-out-of-range", fmt.Sprintf("vote t=%d h=%d r=%d idx=%d addr=%s block=%s ok=0 peer=hx", t, h, rd, []int{-1, n, n + 1, 1 << 30, -(1 << 30)}[R.Intn(5)], addr, b)
			case 3:
				kind, op = "vote-address-of-another-validator", fmt.Sprintf("vote t=%d h=%d r=%d idx=%d addr=%x block=%s ok=0 peer=hx", t, h, rd, v, im.C.Addr((v+1)%n), b)
				reject = n > 1
				if n == 1 {
					op = strings.Replace(op, "ok=0", "ok=1", 1)
				}
			case 4:
				kind, op = "vote-empty-address", fmt.Sprintf("vote t=%d h=%d r=%d idx=%d addr= block=%s ok=0 peer=hx", t, h, rd, v, b)
			case 5:
				kind, op = "vote-future-height", fmt.Sprintf("vote t=%d h=%d r=%d idx=%d addr=%s block=%s ok=1 peer=hx", t, h+int64(R.Range(1, 3)), rd, v, addr, b)
			case 6:
				kind, op = "vote-absurd-height", fmt.Sprintf("vote t=%d h=%d r=%d idx=%d addr=%s block=%s ok=1 peer=hx", t, big[R.Intn(len(big))], rd, v, addr, b)
			case 7: // the previous height: only a precommit while waiting in NewHeight is a straggler
				pt := R.Range(1, 2)
				kind, op = "vote-previous-height", fmt.Sprintf("vote t=%d h=%d r=%d idx=%d addr=%s block=%s ok=1 peer=hx", pt, h-1, R.Intn(2), v, addr, b)
				reject = !(st == "NewHeight" && pt == 2) || h == 1
			case 8:
				kind, op = "vote-height-zero", fmt.Sprintf("vote t=2 h=0 r=0 idx=%d addr=%s block=%s ok=1 peer=hx", v, addr, b)
			case 9:
				kind, op = "vote-invalid-type", fmt.Sprintf("vote t=%d h=%d r=%d idx=%d addr=%s block=%s ok=1 peer=hx", []int{0, 3, 4, 255}[R.Intn(4)], h, rd, v, addr, b)
			case 10:
				if len(byz) == 0 {
					return
				}
				v = byz[R.Intn(len(byz))]
				addr = fmt.Sprintf("%x", im.C.Addr(v))
				kind, op = "vote-negative-round", fmt.Sprintf("vote t=%d h=%d r=%d idx=%d addr=%s block=%s ok=1 peer=hx", t, h, -int64(R.Range(1, 5)), v, addr, b)
				reject = false // the round number is not validated by itself (a catch-up round is opened)
			case 11:
				if len(byz) == 0 {
					return
				}
				v = byz[R.Intn(len(byz))]
				addr = fmt.Sprintf("%x", im.C.Addr(v))
				kind, op = "vote-absurd-round", fmt.Sprintf("vote t=%d h=%d r=%d idx=%d addr=%s block=%s ok=1 peer=hy%d", t, h, big[R.Intn(3)], v, addr, b, R.Intn(3))
				reject = false
			case 12:
				kind, op = "proposal-wrong-height", fmt.Sprintf("proposal %s h=%d r=%d pol=-1 polblock=- signer=%d bad=0", "HB", h+int64([]int{-1, 1, 7}[R.Intn(3)]), rd, proposerIdx())
			case 13:
				kind, op = "proposal-wrong-round", fmt.Sprintf("proposal %s h=%d r=%d pol=-1 polblock=- signer=%d bad=0", "HB", h, rd+int64([]int{-1, 1, 1 << 33}[R.Intn(3)]), proposerIdx())
			case 14:
				kind, op = "proposal-bad-pol-round", fmt.Sprintf("proposal %s h=%d r=%d pol=%d polblock=- signer=%d bad=0", "HB", h, rd, []int64{rd, rd + 1, -2, -(1 << 40), 1 << 40}[R.Intn(5)], proposerIdx())
			case 15:
				kind, op = "proposal-bad-signature", fmt.Sprintf("proposal %s h=%d r=%d pol=-1 polblock=- signer=%d bad=1", "HB", h, rd, proposerIdx())
			case 16:
				kind, op = "proposal-not-from-proposer", fmt.Sprintf("proposal %s h=%d r=%d pol=-1 polblock=- signer=%d bad=0", "HB", h, rd, (proposerIdx()+1)%n)
				reject = n > 1
			case 17:
				kind, op = "parts-wrong-height", fmt.Sprintf("parts %s h=%d r=%d", "HB", h+int64([]int{-1, 1, 1 << 40}[R.Intn(3)]), rd)
			case 18:
				kind, op = "parts-of-a-block-nobody-proposed", fmt.Sprintf("parts %s h=%d r=%d", "HB", h, rd)
				reject = !strings.Contains(do("digest"), " pp=HB")
			case 19:
				kind, op = "timeout-stale", fmt.Sprintf("timeout %d %d %s", h-1, rd, st)
			case 20:
				kind, op = "timeout-earlier-round", fmt.Sprintf("timeout %d %d %s", h, rd-1, "PrecommitWait")
			default:
				kind, op = "timeout-foreign-height", fmt.Sprintf("timeout %d %d %s", h+1, 0, "NewHeight")
			}
			if strings.Contains(op, " HB ") { // a fresh valid block of the current proposer, used by hostile proposals/parts
				if _, ok := im.Blocks["HB"]; !ok || R.Chance(50) {
					step(fmt.Sprintf("mkblock HB proposer=%d valid=1", proposerIdx()))
				}
			}
			if dead {
				return
			}
			before := do("digest")
			bv := do("votes")
			step(op)
			r.Count("hostile." + kind)
			if res == "PANIC" {
				fail("peer-message-panics-the-node", "a single peer message ("+kind+") panics the consensus routine", "PANIC", "the message is dropped")
				return
			}
			if !reject {
				return
			}
			av := do("votes")
			strip := func(x string) string { // the digest without what the previous op emitted
				if i := strings.Index(x, " | "); i >= 0 {
					return x[:i]
				}
				return x
			}
			emitted := ""
			if i := strings.Index(res, " | "); i >= 0 {
				emitted = strings.TrimSpace(res[i+3:])
			}
			if strip(before) != strip(res) || bv != av || emitted != "" {
				fail("rejected-message-changes-state", "a peer message that fails validation ("+kind+") changed the consensus state", strip(res)+" "+av+" emitted="+emitted, strip(before)+" "+bv)
			}
		}
		actions := R.Range(15, 70)
		if directed {
			// The validator locks a block in round 0, finds no polka in round 1 and moves on; the prevote
			// that completes round 1's polka FOR THE LOCKED BLOCK arrives late; round 2's proposer offers
			// ANOTHER block with that round as its proof-of-lock round. The proposal is complete (a polka
			// exists in round 1) but the polka is not for the proposed block: the validator still prevotes
			// its lock. The ledger and the model judge every step.
			actions = 0
			var o []int
			for v := 0; v < n; v++ {
				if v != me {
					o = append(o, v)
				}
			}
			field := func(name string) string {
				for _, x := range strings.Fields(res) {
					if strings.HasPrefix(x, name+"=") {
						return x[len(name)+1:]
					}
				}
				return "-"
			}
			h, _, _ := state()
			step(fmt.Sprintf("timeout %d 0 NewHeight", h))
			step("drain")
			blk := field("pb")
			if blk == "-" {
				blk = "D0"
				pi := proposerIdx()
				step(fmt.Sprintf("mkblock D0 proposer=%d valid=1", pi))
				step(fmt.Sprintf("proposal D0 h=%d r=0 pol=-1 polblock=- signer=%d bad=0", h, pi))
				// (the round a block part is tagged with is the SENDER's round: any value is accepted for
				// the node's height; in WAL mode the parts arrive tagged with another round)
				pr := 0
				if r.Mode == "wal" {
					pr = 1 + me%2
				}
				step(fmt.Sprintf("parts D0 h=%d r=%d", h, pr))
				step("drain")
			}
			peerVote(o[0], 1, 0, blk, h)
			peerVote(o[1], 1, 0, blk, h)
			step("drain") // polka: precommit and lock
			if r.Mode == "wal" && !dead {
				// C07: killed right after the lock was taken; the replay restores lock, block, votes and step
				cut := func(x string) string { return strings.Split(strings.Split(x, " q=")[0], " | ")[0] }
				b0, v0 := do("digest"), do("votes")
				step("restart torn=0")
				if !dead {
					b1, v1 := do("digest"), do("votes")
					r.Count("directed.kill-after-lock")
					if cut(b0) != cut(b1) || v0 != v1 {
						fail("replayed-state-differs-from-pre-crash-state", "kill right after the validator locked a block (its parts had arrived tagged with another round), restart, WAL replay: the round state or the votes differ from the state before the kill", cut(b1)+" "+v1, cut(b0)+" "+v0)
					}
				}
			}
			peerVote(o[0], 2, 0, "-", h)
			peerVote(o[1], 2, 0, "-", h)
			step("drain")
			step(fmt.Sprintf("timeout %d 0 PrecommitWait", h))
			step("drain") // round 1
			step(fmt.Sprintf("timeout %d 1 Propose", h))
			step("drain") // prevotes the lock
			variant := (s - seqs) / 4
			if variant == 1 {
				// second shape: round 1's votes go to ANOTHER block; the prevote that completes that polka
				// arrives after the validator has left round 1. A polka for something else in a round after
				// the lock releases the lock - also when it completes late.
				step(fmt.Sprintf("mkblock D1 proposer=%d valid=1", proposerIdx()))
				step("drain") // (the generator reads the node's height from the last digest)
				peerVote(o[0], 1, 1, "D1", h)
				peerVote(o[1], 1, 1, "D1", h)
			} else {
				peerVote(o[0], 1, 1, blk, h)
				peerVote(o[1], 1, 1, "-", h)
			}
			step("drain")
			step(fmt.Sprintf("timeout %d 1 PrevoteWait", h))
			step("drain") // no polka: precommit nil
			peerVote(o[0], 2, 1, "-", h)
			peerVote(o[1], 2, 1, "-", h)
			step("drain")
			step(fmt.Sprintf("timeout %d 1 PrecommitWait", h))
			step("drain")                // round 2
			if variant == 1 {
				peerVote(o[2], 1, 1, "D1", h) // late: completes round 1's polka for the other block
				step("drain")
				step(fmt.Sprintf("timeout %d 2 Propose", h))
				step("drain")
				r.Count("directed.late-polka-for-another-block-releases-the-lock.lb=" + field("lb"))
				continue
			}
			peerVote(o[2], 1, 1, blk, h) // late: completes round 1's polka for the locked block
			step("drain")
			_, rd2, _ := state()
			if pi := proposerIdx(); !dead && rd2 == 2 && pi != me && field("lb") == blk {
				step(fmt.Sprintf("mkblock D1 proposer=%d valid=1", pi))
				step(fmt.Sprintf("proposal D1 h=%d r=2 pol=1 polblock=%s signer=%d bad=0", h, blk, pi))
				step(fmt.Sprintf("parts D1 h=%d r=2", h))
				step("drain")
				step(fmt.Sprintf("timeout %d 2 Propose", h))
				step("drain")
				r.Count("directed.late-polka-for-the-lock-then-proposal-with-pol.ran")
			} else {
				r.Count("directed.late-polka-for-the-lock-then-proposal-with-pol.skipped")
			}
		}
		for a := 0; a < actions; a++ {
			if dead {
				// deliberate PanicConsensus/PanicSanity (e.g. +2/3 prevotes for an invalid block needs
				// >= 2/3 Byzantine power); an UNEXPECTED panic shows up as a model/implementation diff
				r.Count("seq.ended-by-panic")
				break
			}
			h, rd, st := state()
			if h > 3 {
				break
			}
			if r.Mode == "hostile" && R.Chance(45) {
				hostile(h, rd, st)
				continue
			}
			c := R.Intn(100)
			switch {
			case c < 18: // the timeout the node is waiting for (or a stale / future one)
				tr, ts := rd, st
				switch st {
				case "Prevote", "Precommit", "NewRound", "Commit":
					ts = []string{"Propose", "PrevoteWait", "PrecommitWait", "NewHeight"}[R.Intn(4)]
				}
				if R.Chance(15) {
					tr += int64(R.Range(-1, 1))
				}
				step(fmt.Sprintf("timeout %d %d %s", h, tr, ts))
				r.Count("act.timeout")
			case c < 40: // a proposal for the current round
				name := fmt.Sprintf("b%d", nblk)
				reuse := nblk > 0 && R.Chance(35)
				pi := proposerIdx()
				if reuse {
					name = fmt.Sprintf("b%d", R.Intn(nblk))
				} else {
					valid := !R.Chance(12)
					step(fmt.Sprintf("mkblock %s proposer=%d valid=%s", name, pi, vh.B01(valid)))
					nblk++
				}
				signer, bad := pi, "0"
				if R.Chance(10) {
					signer = (pi + 1) % n
				}
				if R.Chance(6) {
					bad = "1"
				}
				pol, polb := int64(-1), "-"
				if rd > 0 && R.Chance(40) {
					pol = int64(R.Range(0, int(rd)-1+R.Intn(2)))
					if b, ok := polkaFor(pol); ok {
						polb = b
					}
				}
				pr := rd
				if R.Chance(10) {
					pr = rd + int64(R.Range(-1, 1))
				}
				step(fmt.Sprintf("proposal %s h=%d r=%d pol=%d polblock=%s signer=%d bad=%s", name, h, pr, pol, polb, signer, bad))
				if !R.Chance(15) {
					step(fmt.Sprintf("parts %s h=%d r=%d", name, h, pr))
				}
				r.Count("act.proposal")
			case c < 48: // parts of some known block
				if nblk > 0 {
					step(fmt.Sprintf("parts b%d h=%d r=%d", R.Intn(nblk), h, rd))
				}
				r.Count("act.parts")
			case c < 52 && func() bool { rs := im.C.CS.GetRoundState(); return rs.LockedBlock != nil && rs.LockedRound > 0 }():
				// directed: the node holds a lock taken in round lr > 0; a DELAYED polka of an EARLIER
				// round for another block arrives (it must not release the newer lock)
				rs := im.C.CS.GetRoundState()
				lr := rs.LockedRound
				locked := im.NameOfHash(rs.LockedBlock.Hash())
				er := int64(R.Intn(int(lr)))
				other := "-"
				for k := 0; k < nblk; k++ {
					if nm := fmt.Sprintf("b%d", k); nm != locked && R.Chance(60) {
						other = nm
					}
				}
				for _, v := range R.Perm(n) {
					if v == me {
						continue
					}
					if _, voted := recv[rk{er, 1}][v]; voted {
						continue
					}
					peerVote(v, 1, er, other, h)
				}
				step("drain")
				r.Count("act.stale-polka-while-locked")
			case c < 82: // a group of validators votes the same way (this is what forms polkas and commits)
				t := R.Range(1, 2)
				vr := rd
				if R.Chance(25) {
					vr = rd + int64(R.Range(-1, 2))
				}
				if vr < 0 {
					vr = 0
				}
				b := known()
				if lb := im.C.CS.GetRoundState().LockedBlock; lb != nil && R.Chance(30) {
					b = im.NameOfHash(lb.Hash())
				}
				if pbk := im.C.CS.GetRoundState().ProposalBlock; pbk != nil && R.Chance(50) {
					b = im.NameOfHash(pbk.Hash())
				}
				order := R.Perm(n)
				k := R.Range(1, n)
				for _, v := range order[:k] {
					if v == me {
						continue
					}
					peerVote(v, t, vr, b, h)
					if R.Chance(25) {
						step("drain")
					}
				}
				r.Count("act.votes")
			case c < 90: // malformed / forged / stale votes
				v := R.Intn(n)
				kind := R.Intn(6)
				b := known()
				op := ""
				switch kind {
				case 0:
					op = fmt.Sprintf("vote t=%d h=%d r=%d idx=%d addr=%x block=%s ok=0 peer=px tamper=1", R.Range(1, 2), h, rd, v, im.C.Addr(v), b)
				case 1:
					op = fmt.Sprintf("vote t=%d h=%d r=%d idx=%d addr=%x block=%s ok=0 peer=px signer=%d", R.Range(1, 2), h, rd, v, im.C.Addr(v), b, (v+1)%n)
				case 2:
					op = fmt.Sprintf("vote t=%d h=%d r=%d idx=%d addr=%x block=%s ok=0 peer=px", R.Range(1, 2), h, rd, []int{-1, n, 1 << 30}[R.Intn(3)], im.C.Addr(v), b)
				case 3:
					op = fmt.Sprintf("vote t=%d h=%d r=%d idx=%d addr=%x block=%s ok=1 peer=px", R.Range(1, 2), h+int64(R.Range(1, 2)), rd, v, im.C.Addr(v), b)
				case 4:
					op = fmt.Sprintf("vote t=3 h=%d r=%d idx=%d addr=%x block=%s ok=1 peer=px", h, rd, v, im.C.Addr(v), b)
				default:
					// a VALID vote for a round far ahead: the node keeps it (a catch-up round), so it goes
					// through the ledger like any other received vote; nobody else holds the node's own key
					if v == me {
						v = (v + 1) % n
					}
					peerVote(v, R.Range(1, 2), rd+int64(R.Range(3, 9)), b, h)
				}
				if op != "" {
					step(op)
				}
				r.Count(fmt.Sprintf("act.badvote%d", kind))
			case c < 96 && r.Mode == "wal": // kill + restart from the WAL (C07)
				if R.Chance(25) { // the group's ticker rotates the head file (size limit reached)
					do("rotate") // answers "ok": keep `res` (the digest the generator reads the state from)
					r.Count("act.rotate")
					break
				}
				if R.Chance(20) { // directed: killed between the WAL write of the precommit that completes
					// +2/3 and its handling: the replay itself commits the height; then a second kill
					pbk := im.C.CS.GetRoundState().ProposalBlock
					if pbk == nil || dead {
						break
					}
					b := im.NameOfHash(pbk.Hash())
					if e, ok := im.Blocks[b]; !ok || !e.Valid {
						break
					}
					for _, v := range R.Perm(n) {
						if v == me || dead {
							continue
						}
						if _, voted := recv[rk{rd, 2}][v]; voted {
							continue
						}
						if (power(rk{rd, 2}, b)+powers[v])*3 > total*2 {
							op := fmt.Sprintf("vote t=2 h=%d r=%d idx=%d addr=%x block=%s ok=1 peer=p%d presave=1", h, rd, v, im.C.Addr(v), b, v)
							record(rk{rd, 2}, v, b)
							do(op)
							step("restart torn=0")
							r.Count("act.restart-commit-in-replay")
							step("drain")
							h2, _, _ := state()
							if h2 == h+1 && !dead {
								step(fmt.Sprintf("timeout %d 0 NewHeight", h2))
								step("drain")
								b0, v0 := do("digest"), do("votes")
								step("restart torn=0")
								b1, v1 := do("digest"), do("votes")
								cut := func(x string) string { return strings.Split(strings.Split(x, " q=")[0], " | ")[0] }
								if cut(b0) != cut(b1) || v0 != v1 {
									fail("replayed-state-differs-from-pre-crash-state", "the replay of a kill finished the height; after a second kill in the next height the round state or the votes differ from the state before that kill", cut(b1)+" "+v1, cut(b0)+" "+v0)
								}
							}
							break
						}
						peerVote(v, 2, rd, b, h)
					}
					break
				}
				switch k := R.Intn(10); {
				case k < 5:
					// R1: a kill after a fully processed input; the replay must restore the round state and the votes
					core := func(x string) string {
						x = strings.Split(x, " | ")[0]
						if i := strings.Index(x, "h="); i >= 0 {
							x = x[i:]
						}
						if i := strings.Index(x, " q="); i >= 0 {
							x = x[:i]
						}
						return x
					}
					if dead {
						break
					}
					b0, v0, p0 := core(res), do("votes"), do("proposer")
					step("restart torn=0")
					r.Count("act.restart")
					if dead {
						break
					}
					b1 := core(res)
					v1, p1 := do("votes"), do("proposer")
					if b0 != b1 || v0 != v1 {
						if p0 != p1 {
							if !ledgerOff {
								r.Count("finding.reloaded-proposer-differs")
							}
							fail("restart-recomputes-another-proposer-and-replay-diverges", "after a kill at height > 1 the restarted node names another proposer for the same round ("+p0+" before, "+p1+" after): the replay rejects the proposal it had accepted and the round state differs", b1+" "+v1, b0+" "+v0)
							ledgerOff = true
						} else if stepOnly(b0, b1) && v0 == v1 {
							// everything restored but the step, and the replayed node stands at NewHeight: the node had
							// left NewHeight inside the handling of the previous height's last precommit (with
							// skip_timeout_commit and every precommit in, addVote enters the new height's round 0
							// directly) - an input logged BEFORE the height marker the replay starts from
							r.Count("finding.step-after-skipped-commit-timeout")
							fail("step-reached-by-skipping-the-commit-timeout-is-not-restored", "kill, restart, WAL replay: votes, proposal and lock are restored, the step is not - the node entered round 0 of this height while handling the previous height's last precommit (skip_timeout_commit), which is logged before the height marker; the replayed node waits at NewHeight for the commit timeout and then takes the same steps again", b1+" "+v1, b0+" "+v0)
						} else {
							fail("replayed-state-differs-from-pre-crash-state", "kill after a processed input, restart, WAL replay: the round state or the votes differ from the state before the kill", b1+" "+v1, b0+" "+v0)
						}
					}
				case k < 8:
					if im.CanTear() {
						step("restart torn=1")
						ledgerOff = true
						r.Count("act.restart-torn")
					}
				default: // killed after the WAL write of an input, before it was handled
					if nblk > 0 {
						v := R.Intn(n)
						if v != me {
							b := known()
							op := fmt.Sprintf("vote t=%d h=%d r=%d idx=%d addr=%x block=%s ok=1 peer=p%d presave=1", R.Range(1, 2), h, rd, v, im.C.Addr(v), b, v)
							k2 := rk{rd, int(nodeimpl.Atoi(strings.Split(strings.Split(op, "t=")[1], " ")[0]))}
							record(k2, v, b)
							res2 := do(op)
							_ = res2
							step("restart torn=0")
							r.Count("act.restart-presaved")
						}
					}
				}
			default:
				step("drain")
				r.Count("act.drain")
			}
			if R.Chance(70) {
				step("drain")
			}
			_, _, st2 := state()
			r.Distinct(fmt.Sprintf("n=%d st=%s lr=%v", n, st2, strings.Contains(res, "lb=-")))
		}
		// ---- C08/C12: not wedged. After the hostile prefix the other validators (holding > 2/3)
		// behave honestly: they precommit one fresh valid block in a round nobody has used, and
		// serve its parts. The node must commit the height.
		if r.Mode == "hostile" && !dead && (total-powers[me])*3 > total*2 {
			h, rd, st := state()
			fin := fmt.Sprintf("F%d", q)
			if st == "Commit" { // it already saw +2/3 precommits for a block and waits for its parts
				d := do("digest")
				for _, f := range strings.Fields(d) {
					if strings.HasPrefix(f, "pp=") {
						fin = f[3:]
					}
				}
				if _, ok := im.Blocks[fin]; !ok {
					fin = ""
				}
			} else {
				step(fmt.Sprintf("mkblock %s proposer=%d valid=1", fin, proposerIdx()))
				r2 := rd + 20
				for v := 0; v < n && !dead; v++ {
					if v != me {
						record(rk{r2, 2}, v, fin)
						step(fmt.Sprintf("vote t=2 h=%d r=%d idx=%d addr=%x block=%s ok=1 peer=f%d_%d", h, r2, v, im.C.Addr(v), fin, q, v))
					}
				}
			}
			if fin != "" && !dead {
				h1, r1, _ := state()
				if h1 == h {
					step(fmt.Sprintf("parts %s h=%d r=%d", fin, h, r1))
					step("drain")
				}
				h2, _, _ := state()
				r.Count("finish.attempted")
				if !dead && h2 != h+1 {
					ledgerOff = false
					fail("node-wedged-after-hostile-input", fmt.Sprintf("the other validators (> 2/3) precommitted block %s and served its parts, but the node did not commit height %d", fin, h), res, fmt.Sprintf("COMMIT(%d,%s)", h, fin))
				}
			}
		}
		_ = sort.Ints
	}
}

// stepOnly: two digests that differ in the step only, the second one standing at NewHeight
func stepOnly(a, b string) bool {
	fa, fb := strings.Fields(a), strings.Fields(b)
	if len(fa) != len(fb) {
		return false
	}
	diff := 0
	for i := range fa {
		if fa[i] != fb[i] {
			diff++
			if !strings.HasPrefix(fa[i], "s=") || fb[i] != "s=NewHeight" {
				return false
			}
		}
	}
	return diff == 1
}
