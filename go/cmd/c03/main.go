// C03 harness: real types.PrivValidator on a real file; write failures injected through the
// file system (a directory in the way of `<file>.new`), crashes = drop the object and reload.
package main

import (
	"fmt"
	"io/ioutil"
	"os"
	"path/filepath"
	"strconv"
	"strings"
	"runtime"
	"sync"
	"time"

	"encoding/hex"

	crypto "github.com/dappledger/AnnChain/gemmill/go-crypto"
	"github.com/dappledger/AnnChain/gemmill/types"

	"verifharness/vh"
)

const chainID = "verif-chain"

type impl struct {
	dir  string
	file string
	pv   *types.PrivValidator
}

func atoi(s string) int64 { v, _ := strconv.ParseInt(s, 10, 64); return v }
func unhex(s string) []byte {
	if s == "-" {
		return []byte{}
	}
	b, _ := hex.DecodeString(s)
	return b
}

func (im *impl) fresh() {
	if im.dir != "" {
		os.RemoveAll(im.dir)
	}
	d, err := ioutil.TempDir("", "verif-c03-")
	if err != nil {
		panic(err)
	}
	im.dir, im.file = d, filepath.Join(d, "priv_validator.json")
	var seed [32]byte
	copy(seed[:], "verif-c03-signer")
	pv, err := types.GenPrivValidator(crypto.CryptoTypeZhongAn, crypto.GenPrivKeyEd25519FromSecret(seed[:]))
	if err != nil {
		panic(err)
	}
	pv.SetFile(im.file)
	if err := pv.Save(); err != nil {
		panic(err)
	}
	im.pv = pv
}

func (im *impl) reload() {
	pv, err := types.LoadPrivValidator(im.file)
	if err != nil {
		panic(fmt.Sprintf("reload: %v", err))
	}
	im.pv = pv
}

// slowSigner: a signing backend that takes its time (an HSM, a remote signer)
type slowSigner struct{ inner types.Signer }

func (s slowSigner) Sign(msg []byte) crypto.Signature {
	runtime.Gosched()
	time.Sleep(300 * time.Microsecond)
	return s.inner.Sign(msg)
}

func wm(pv *types.PrivValidator) string {
	return fmt.Sprintf("%d/%d/%d", pv.LastHeight, pv.LastRound, pv.LastStep)
}

func (im *impl) state() string {
	disk, err := types.LoadPrivValidator(im.file)
	if err != nil {
		return "mem=" + wm(im.pv) + " disk=unreadable"
	}
	return "mem=" + wm(im.pv) + " disk=" + wm(disk)
}

// doSign returns (signature or nil, verified)
func (im *impl) doSign(h, r int64, s int, b []byte) (crypto.Signature, bool, error) {
	switch s {
	case 1:
		p := &types.Proposal{Height: h, Round: r, BlockPartsHeader: types.PartSetHeader{Total: 1, Hash: b}, POLRound: -1}
		if err := im.pv.SignProposal(chainID, p); err != nil {
			return nil, false, err
		}
		return p.Signature, im.pv.PubKey.VerifyBytes(types.SignBytes(chainID, p), p.Signature), nil
	default:
		v := &types.Vote{ValidatorAddress: im.pv.Address, ValidatorIndex: 0, Height: h, Round: r, Type: byte(s - 1),
			BlockID: types.BlockID{Hash: b, PartsHeader: types.PartSetHeader{Total: 1, Hash: []byte{1}}}}
		if err := im.pv.SignVote(chainID, v); err != nil {
			return nil, false, err
		}
		return v.Signature, im.pv.PubKey.VerifyBytes(types.SignBytes(chainID, v), v.Signature), nil
	}
}

func (im *impl) exec(line string) string {
	return vh.Guard(func() string {
		w := strings.Fields(line)
		switch w[0] {
		case "cfg":
			return "ok"
		case "new":
			im.fresh()
			return "ok " + im.state()
		case "restart":
			im.reload()
			return "ok " + im.state()
		case "sign":
			h, r, s, b, wr := atoi(w[1]), atoi(w[2]), int(atoi(w[3])), unhex(w[4]), w[5]
			block := im.file + ".new"
			os.Remove(im.file + ".bak")
			if wr == "fail" || wr == "crashBefore" {
				os.Mkdir(block, 0700) // ioutil.WriteFile(file+".new") now fails: is a directory
			}
			sig, ok, err := im.doSign(h, r, s, b)
			os.Remove(block)
			_, statErr := os.Stat(im.file + ".bak")
			attempted := statErr == nil // WriteFileAtomic copies to .bak first: the request reached its durable write
			if attempted && (wr == "crashBefore" || wr == "crashAfter") {
				// the process dies at that write: whatever was computed is never released
				im.reload()
				return "died " + im.state()
			}
			if err != nil {
				return "error " + im.state()
			}
			if sig == nil || !ok {
				return "released-invalid-signature " + im.state()
			}
			return "released " + im.state()
		}
		return "bad-op"
	})
}

func main() {
	r := vh.Start()
	defer r.Finish()
	im := &impl{}
	defer func() {
		if im.dir != "" {
			os.RemoveAll(im.dir)
		}
	}()
	var history []string
	do := func(op string) string {
		res := im.exec(op)
		r.Op(op, res)
		history = append(history, op)
		return res
	}
	if r.Replay != "" {
		for _, l := range vh.ReadLines(r.Replay) {
			do(l)
		}
		return
	}
	do("cfg checkSaveErr=1")
	R := r.R
	seqs := r.Scale(150, 2500)
	for s := 0; s < seqs; s++ {
		history = history[:1]
		do("new")
		type key struct{ h, r, s int64 }
		released := map[key]string{}
		var top key
		have := false
		fail := func(cls, detail, got, want string) {
			r.Fail(vh.Failure{Class: cls, Detail: detail, Ops: append([]string{}, history[1:]...), Got: got, Want: want})
		}
		n := R.Range(3, 14)
		h, rd, st := int64(R.Range(1, 3)), int64(0), int64(1)
		for i := 0; i < n; i++ {
			// mostly move forward; sometimes repeat or regress
			switch c := R.Intn(100); {
			case c < 35:
				st++
				if st > 3 {
					st, rd = 1, rd+1
				}
			case c < 45:
				h, rd, st = h+1, 0, int64(R.Range(1, 3))
			case c < 55:
				rd, st = rd+1, int64(R.Range(1, 3))
			case c < 80: // same h/r/s again
			case c < 90:
				if rd > 0 {
					rd--
				} else if st > 1 {
					st--
				}
			default:
				if h > 1 {
					h--
				}
			}
			b := []string{"aa", "bb"}[R.Intn(2)]
			if R.Chance(60) {
				b = "aa"
			}
			wr := "ok"
			switch c := R.Intn(100); {
			case c < 15:
				wr = "fail"
			case c < 25:
				wr = "crashBefore"
			case c < 33:
				wr = "crashAfter"
			}
			if R.Chance(12) {
				do("restart")
			}
			op := fmt.Sprintf("sign %d %d %d %s %s", h, rd, st, b, wr)
			res := do(op)
			out := strings.Fields(res)[0]
			r.Count("write." + wr)
			r.Count("out." + out)
			r.Distinct(fmt.Sprintf("%s.%s.rel=%d", wr, out, len(released)))
			if out == "released-invalid-signature" {
				fail("released-signature-invalid", "a released signature does not verify", res, "released")
			}
			if out != "released" {
				continue
			}
			k := key{h, rd, st}
			if prev, ok := released[k]; ok && prev != b {
				fail("equivocation-two-signatures-same-height-round-step", fmt.Sprintf("two different signed messages were released for height/round/step %d/%d/%d", h, rd, st), b, prev)
			}
			if have && (k.h < top.h || (k.h == top.h && (k.r < top.r || (k.r == top.r && k.s < top.s)))) {
				fail("signed-below-an-earlier-signature", fmt.Sprintf("a signature was released for %d/%d/%d after one for %d/%d/%d", h, rd, st, top.h, top.r, top.s), "released", "error")
			}
			if !strings.Contains(res, fmt.Sprintf("disk=%d/%d/%d", h, rd, st)) {
				fail("signature-released-before-record-durable", "a signature left the signer while the file does not record its height/round/step", res, fmt.Sprintf("disk=%d/%d/%d", h, rd, st))
			}
			released[k] = b
			if !have || !(k.h < top.h || (k.h == top.h && (k.r < top.r || (k.r == top.r && k.s < top.s)))) {
				top, have = k, true
			}
		}
	}

	// ------------------------------------------------------------ concurrent requests (Go-side oracle only)
	// The signer is shared by goroutines (consensus routine, RPC, reactors); check + sign + durable write
	// must be one step under its mutex. A slow signing backend (what SetSigner is for) widens any window.
	for c := 0; c < r.Scale(30, 300); c++ {
		im.fresh()
		im.pv.SetSigner(slowSigner{im.pv.Signer})
		h := int64(R.Range(1, 5))
		rd := int64(R.Range(0, 3))
		type res struct {
			sig crypto.Signature
			err error
			sb  []byte
		}
		mk := func(round int64, blk byte) *types.Vote {
			return &types.Vote{ValidatorAddress: im.pv.Address, ValidatorIndex: 0, Height: h, Round: round, Type: 2,
				BlockID: types.BlockID{Hash: []byte{blk}, PartsHeader: types.PartSetHeader{Total: 1, Hash: []byte{1}}}}
		}
		sameHRS := c%2 == 0
		v1, v2 := mk(rd, 0xA1), mk(rd, 0xB2)
		if !sameHRS {
			v2 = mk(rd+1, 0xB2) // the later round may overtake the earlier one: the watermark must not go back
		}
		out := make([]res, 2)
		start := make(chan struct{})
		var wg sync.WaitGroup
		for i, v := range []*types.Vote{v1, v2} {
			wg.Add(1)
			go func(i int, v *types.Vote) {
				defer wg.Done()
				<-start
				err := im.pv.SignVote(chainID, v)
				out[i] = res{v.Signature, err, types.SignBytes(chainID, v)}
			}(i, v)
		}
		close(start)
		wg.Wait()
		r.Count("concurrent." + map[bool]string{true: "same-hrs", false: "two-rounds"}[sameHRS])
		ops := []string{fmt.Sprintf("go concurrent h=%d r=%d same=%v", h, rd, sameHRS)}
		if sameHRS && out[0].err == nil && out[1].err == nil {
			r.Fail(vh.Failure{Class: "equivocation-under-concurrent-requests", Detail: fmt.Sprintf("two concurrent requests for height/round/step %d/%d/precommit with different blocks both obtained a signature", h, rd), Ops: ops, Got: "two signatures", Want: "one signature, one error"})
		}
		if !sameHRS && out[1].err == nil {
			disk, err := types.LoadPrivValidator(im.file)
			if im.pv.LastRound != rd+1 || err != nil || disk.LastRound != rd+1 {
				r.Fail(vh.Failure{Class: "watermark-goes-back-under-concurrent-requests", Detail: fmt.Sprintf("a precommit for round %d was released, yet the signer's record (memory %s) stands at an earlier round afterwards", rd+1, wm(im.pv)), Ops: ops, Got: wm(im.pv), Want: fmt.Sprintf("%d/%d/3", h, rd+1)})
			}
		}
	}
}
