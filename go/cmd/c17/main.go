// C17 harness: real go-merkle simple tree + types.PartSet under a transparent DoHash.
package main

import (
	"bytes"
	"fmt"
	"io/ioutil"
	"strconv"
	"strings"
	"sync"
	"sync/atomic"
	"time"

	"encoding/hex"

	hash "github.com/dappledger/AnnChain/gemmill/go-hash"
	"github.com/dappledger/AnnChain/gemmill/go-wire"
	merkle "github.com/dappledger/AnnChain/gemmill/modules/go-merkle"
	"github.com/dappledger/AnnChain/gemmill/types"

	"verifharness/vh"
)

type leaf []byte

func (l leaf) Hash() []byte { return []byte(l) }

type impl struct {
	sender *types.PartSet
	recv   *types.PartSet
}

func unhex(s string) []byte {
	if s == "-" {
		return []byte{}
	}
	b, err := hex.DecodeString(s)
	if err != nil {
		panic("bad hex " + s)
	}
	return b
}
func unhexList(ws []string) [][]byte {
	out := make([][]byte, len(ws))
	for i, w := range ws {
		out[i] = unhex(w)
	}
	return out
}

func bits(ps *types.PartSet) string {
	ba := ps.BitArray()
	var sb strings.Builder
	for i := 0; i < ps.Total(); i++ {
		if ba.GetIndex(i) {
			sb.WriteByte('1')
		} else {
			sb.WriteByte('0')
		}
	}
	return sb.String()
}

// exec runs one op line on the implementation and returns the canonical answer.
func (im *impl) exec(line string) string {
	return vh.Guard(func() string {
		w := strings.Fields(line)
		switch w[0] {
		case "cfg":
			return "ok"
		case "root":
			hs := unhexList(w[1:])
			r := merkle.SimpleHashFromHashes(hs)
			if r == nil {
				return "nil"
			}
			return "ok " + vh.Hex(r)
		case "proof":
			i, _ := strconv.Atoi(w[1])
			hs := unhexList(w[2:])
			items := make([]merkle.Hashable, len(hs))
			for k, h := range hs {
				items[k] = leaf(h)
			}
			_, proofs := merkle.SimpleProofsFromHashables(items)
			return strings.TrimRight("ok "+vh.HexList(proofs[i].Aunts), " ")
		case "verify":
			idx, _ := strconv.Atoi(w[1])
			total, _ := strconv.Atoi(w[2])
			sp := &merkle.SimpleProof{Aunts: unhexList(w[5:])}
			return "ok " + vh.B01(sp.Verify(idx, total, unhex(w[3]), unhex(w[4])))
		case "psdata":
			sz, _ := strconv.Atoi(w[1])
			im.sender = types.NewPartSetFromData(unhex(w[2]), sz)
			return fmt.Sprintf("total=%d hash=%s", im.sender.Total(), vh.Hex(im.sender.Hash()))
		case "part":
			i, _ := strconv.Atoi(w[1])
			if i >= im.sender.Total() {
				return "none"
			}
			p := im.sender.GetPart(i)
			return strings.TrimRight(fmt.Sprintf("ok %d %s %s", p.Index, vh.Hex(p.Bytes), vh.HexList(p.Proof.Aunts)), " ")
		case "pshdr":
			t, _ := strconv.Atoi(w[1])
			im.recv = types.NewPartSetFromHeader(types.PartSetHeader{Total: t, Hash: unhex(w[2])})
			return "ok"
		case "add":
			idx, _ := strconv.Atoi(w[2])
			p := &types.Part{Index: idx, Bytes: unhex(w[3]), Proof: merkle.SimpleProof{Aunts: unhexList(w[4:])}}
			added, err := im.recv.AddPart(p, w[1] == "1")
			res := ""
			switch {
			case added:
				res = "added"
			case err == nil:
				res = "dup"
			case err == types.ErrPartSetUnexpectedIndex:
				res = "errIndex"
			case err == types.ErrPartSetInvalidProof:
				res = "errProof"
			default:
				res = "err?"
			}
			return fmt.Sprintf("%s count=%d bits=%s", res, im.recv.Count(), bits(im.recv))
		case "read":
			if !im.recv.IsComplete() {
				return "incomplete"
			}
			if im.recv.Total() == 0 {
				return "ok -"
			}
			b, err := ioutil.ReadAll(im.recv.GetReader())
			if err != nil {
				return "err"
			}
			return "ok " + vh.Hex(b)
		}
		return "bad-op"
	})
}

// path = the left/right decisions computeHashFromAunts takes for (index,total)
func path(i, n int) string {
	var sb strings.Builder
	for n > 1 {
		k := (n + 1) / 2
		if i < k {
			sb.WriteByte('L')
			n = k
		} else {
			sb.WriteByte('R')
			i, n = i-k, n-k
		}
	}
	return sb.String()
}

func main() {
	r := vh.Start()
	defer r.Finish()
	// transparent hash: H(b) = 'h' ++ b  (the Lean driver uses the same)
	hash.DoHash = func(b []byte) []byte { return append([]byte{0x68}, b...) }
	im := &impl{}
	do := func(op string) string {
		res := im.exec(op)
		r.Op(op, res)
		return res
	}
	if r.Replay != "" {
		for _, l := range vh.ReadLines(r.Replay) {
			do(l)
		}
		return
	}
	do("cfg checkNeg=1")

	// ------------------------------------------------------------ Merkle trees, every item count
	maxItems := r.Scale(40, 70)
	rounds := r.Scale(2, 12)
	for round := 0; round < rounds; round++ {
		for n := 1; n <= maxItems; n++ {
			hs := make([][]byte, n)
			unique := r.R.Chance(75) // distinct leaves: then (with the injective hash) any acceptance of a mutated total/index is a real failure
			for i := range hs {
				hs[i] = append([]byte{0x68}, r.R.Bytes(r.R.Range(0, 3))...)
				if unique {
					hs[i] = append(hs[i], 0xff, byte(i))
				}
			}
			hl := vh.HexList(hs)
			rootRes := do("root " + hl)
			root := strings.TrimPrefix(rootRes, "ok ")
			r.Count(fmt.Sprintf("tree.items=%d", n))
			idxs := []int{0, n - 1, r.R.Intn(n)}
			if r.Thorough() {
				idxs = r.R.Perm(n)
			}
			for _, i := range idxs {
				pr := do(fmt.Sprintf("proof %d %s", i, hl))
				aunts := strings.Fields(strings.TrimPrefix(pr, "ok"))
				as := strings.Join(aunts, " ")
				r.Distinct(fmt.Sprintf("proof n=%d i=%d", n, i))
				// oracle: generated proof verifies
				v := fmt.Sprintf("verify %d %d %s %s %s", i, n, vh.Hex(hs[i]), root, as)
				if got := do(v); got != "ok 1" {
					r.Fail(vh.Failure{Class: "generated-proof-rejected", Detail: "a generated inclusion proof does not verify", Ops: []string{v}, Got: got, Want: "ok 1"})
				}
				// single-field mutations: must NOT verify (transparent hash is injective, so any acceptance is a real failure)
				type mut struct{ name, op string }
				var muts []mut
				for _, j := range []int{-1, -2, i + 1, i - 1, n, n + 1, 1 << 40, -(1 << 40)} {
					if j != i {
						muts = append(muts, mut{"index", fmt.Sprintf("verify %d %d %s %s %s", j, n, vh.Hex(hs[i]), root, as)})
					}
				}
				for _, t := range []int{n + 1, n - 1, 2 * n, n + 2} {
					if t != n && t >= 0 {
						muts = append(muts, mut{"total", fmt.Sprintf("verify %d %d %s %s %s", i, t, vh.Hex(hs[i]), root, as)})
					}
				}
				lm := append([]byte{}, hs[i]...)
				lm[r.R.Intn(len(lm))] ^= byte(1 + r.R.Intn(255))
				muts = append(muts, mut{"leaf", fmt.Sprintf("verify %d %d %s %s %s", i, n, vh.Hex(lm), root, as)})
				if len(aunts) > 0 {
					k := r.R.Intn(len(aunts))
					am := unhex(aunts[k])
					am[r.R.Intn(len(am))] ^= byte(1 + r.R.Intn(255))
					a2 := append([]string{}, aunts...)
					a2[k] = vh.Hex(am)
					muts = append(muts, mut{"aunt", fmt.Sprintf("verify %d %d %s %s %s", i, n, vh.Hex(hs[i]), root, strings.Join(a2, " "))})
					muts = append(muts, mut{"missing-aunt", strings.TrimRight(fmt.Sprintf("verify %d %d %s %s %s", i, n, vh.Hex(hs[i]), root, strings.Join(aunts[:len(aunts)-1], " ")), " ")})
					muts = append(muts, mut{"missing-first-aunt", strings.TrimRight(fmt.Sprintf("verify %d %d %s %s %s", i, n, vh.Hex(hs[i]), root, strings.Join(aunts[1:], " ")), " ")})
				}
				muts = append(muts, mut{"extra-aunt", fmt.Sprintf("verify %d %d %s %s %s %s", i, n, vh.Hex(hs[i]), root, as, vh.Hex(r.R.Bytes(3)))})
				for _, m := range muts {
					got := do(m.op)
					r.Count("mut." + m.name)
					if got != "ok 0" {
						// a mutated index that points at an identical leaf with identical path is not a violation
						cls := "mutated-" + m.name + "-accepted"
						if got == "panic" {
							cls = "verify-panics-on-" + m.name
						}
						if m.name == "total" && got == "ok 1" {
							w := strings.Fields(m.op)
							t, _ := strconv.Atoi(w[2])
							if !unique && path(i, n) != path(i, t) {
								continue // equal siblings can make two paths coincide; only the model comparison judges this case
							}
							if path(i, n) == path(i, t) {
								// inherent to the tree format: (i,n) and (i,t) walk the same left/right path
								cls = "proof-verifies-for-other-total-with-identical-path"
							}
						}
						if m.name == "index" && got == "ok 1" {
							w := strings.Fields(m.op)
							j, _ := strconv.Atoi(w[1])
							if j >= 0 && j < n && bytes.Equal(hs[j], hs[i]) {
								continue
							}
							if j < 0 {
								cls = "negative-index-accepted"
							}
						}
						r.Fail(vh.Failure{Class: cls, Detail: "a proof verifies after a single-field mutation (" + m.name + ")", Ops: []string{m.op}, Got: got, Want: "ok 0"})
					}
				}
			}
		}
	}

	// ------------------------------------------------------------ part sets
	sizes := []int{1, 2, 3, 4, 7, 8, 16}
	lens := []int{0, 1, 2, 3, 4, 5, 7, 8, 9, 15, 16, 17, 31, 32, 33, 63, 64, 65}
	reps := r.Scale(1, 6)
	for rep := 0; rep < reps; rep++ {
		for _, sz := range sizes {
			for _, ln := range lens {
				data := r.R.Bytes(ln)
				hd := do(fmt.Sprintf("psdata %d %s", sz, vh.Hex(data)))
				var total int
				var hh string
				fmt.Sscanf(hd, "total=%d hash=%s", &total, &hh)
				r.Count(fmt.Sprintf("ps.total=%d", total))
				r.Distinct(fmt.Sprintf("ps sz=%d len=%d", sz, ln))
				if total == 0 {
					continue // nil root: nothing to receive
				}
				parts := make([][]string, total) // idx, bytes, aunts...
				for i := 0; i < total; i++ {
					parts[i] = strings.Fields(strings.TrimPrefix(do(fmt.Sprintf("part %d", i)), "ok "))
				}
				do(fmt.Sprintf("pshdr %d %s", total, hh))
				order := r.R.Perm(total)
				addOp := func(idx string, bytes string, aunts []string) string {
					return strings.TrimRight(fmt.Sprintf("add 1 %s %s %s", idx, bytes, strings.Join(aunts, " ")), " ")
				}
				expectReject := func(op, name string) {
					before := bits(im.recv)
					got := do(op)
					r.Count("forge." + name)
					w := strings.Fields(got)[0]
					if w == "panic" {
						cls := "addpart-panics-on-" + name
						r.Fail(vh.Failure{Class: cls, Detail: "AddPart panics on a forged part", Ops: []string{fmt.Sprintf("pshdr %d %s", total, hh), op}, Got: got, Want: "errIndex|errProof"})
					} else if w == "added" {
						r.Fail(vh.Failure{Class: "forged-part-accepted-" + name, Detail: "AddPart accepts a non-genuine part", Ops: []string{fmt.Sprintf("pshdr %d %s", total, hh), op}, Got: got, Want: "errIndex|errProof"})
					} else if bits(im.recv) != before {
						r.Fail(vh.Failure{Class: "rejected-part-corrupts-set", Detail: "a rejected part changed the set", Ops: []string{op}, Got: bits(im.recv), Want: before})
					}
				}
				for _, i := range order {
					p := parts[i]
					// forged variants first (slot still empty): wrong bytes, wrong index, wrong aunt
					bm := unhex(p[1])
					bm = append(bm, 0x01)
					expectReject(addOp(p[0], vh.Hex(bm), p[2:]), "bytes")
					for _, j := range []int{-1, total, total + 1, 1 << 40, -(1 << 40)} {
						expectReject(addOp(strconv.Itoa(j), p[1], p[2:]), "index")
					}
					if total > 1 {
						j := (i + 1) % total
						if parts[j][1] != p[1] {
							expectReject(addOp(strconv.Itoa(j), p[1], p[2:]), "index-in-range")
						}
					}
					if len(p) > 2 {
						a2 := append([]string{}, p[2:]...)
						am := unhex(a2[0])
						am[0] ^= 0x55
						a2[0] = vh.Hex(am)
						expectReject(addOp(p[0], p[1], a2), "aunt")
						expectReject(addOp(p[0], p[1], p[3:]), "missing-aunt")
					}
					expectReject(addOp(p[0], p[1], append(append([]string{}, p[2:]...), "00")), "extra-aunt")
					// the genuine part
					got := do(addOp(p[0], p[1], p[2:]))
					if !strings.HasPrefix(got, "added") {
						r.Fail(vh.Failure{Class: "genuine-part-rejected", Detail: "the genuine part is not accepted", Ops: []string{addOp(p[0], p[1], p[2:])}, Got: got, Want: "added"})
					}
					// duplicate
					if r.R.Chance(50) {
						got := do(addOp(p[0], p[1], p[2:]))
						if !strings.HasPrefix(got, "dup") {
							r.Fail(vh.Failure{Class: "duplicate-part-not-ignored", Detail: "a duplicate part is not ignored", Ops: []string{addOp(p[0], p[1], p[2:])}, Got: got, Want: "dup"})
						}
					}
				}
				got := do("read")
				if got != "ok "+vh.Hex(data) {
					r.Fail(vh.Failure{Class: "reassembly-differs", Detail: "reassembled bytes differ from the original", Ops: []string{fmt.Sprintf("psdata %d %s", sz, vh.Hex(data))}, Got: got, Want: "ok " + vh.Hex(data)})
				}
			}
		}
	}

	// ------------------------------------------------------------ concurrent deliveries (Go-side oracle only)
	// Several peers send the same genuine part at once (the reactor's Receive runs per connection): exactly
	// one delivery is "added", the others are duplicates, and the set completes with every slot filled.
	for c := 0; c < r.Scale(4, 24); c++ {
		data := r.R.Bytes(3 << 20) // 3 MiB in two parts: verifying a part takes long enough to overlap
		ps := types.NewPartSetFromData(data, 2<<20)
		rcv := types.NewPartSetFromHeader(ps.Header())
		const senders = 6
		var added int32
		var wg sync.WaitGroup
		start := make(chan struct{})
		for g := 0; g < senders; g++ {
			wg.Add(1)
			go func() {
				defer wg.Done()
				orig := ps.GetPart(0)
				cp := &types.Part{Index: orig.Index, Bytes: append([]byte{}, orig.Bytes...), Proof: orig.Proof}
				<-start
				if ok, _ := rcv.AddPart(cp, true); ok {
					atomic.AddInt32(&added, 1)
				}
			}()
		}
		close(start)
		wg.Wait()
		r.Count("concurrent-same-part")
		if added != 1 || rcv.Count() != 1 {
			r.Fail(vh.Failure{Class: "concurrent-deliveries-of-one-part-counted-more-than-once", Detail: fmt.Sprintf("%d concurrent deliveries of the same genuine part: %d reported as added, Count() = %d of %d", senders, added, rcv.Count(), rcv.Total()),
				Ops: []string{"go concurrent-same-part"}, Got: fmt.Sprintf("added=%d count=%d", added, rcv.Count()), Want: "added=1 count=1"})
			continue
		}
		if ok, _ := rcv.AddPart(ps.GetPart(1), true); !ok || !rcv.IsComplete() {
			r.Fail(vh.Failure{Class: "part-set-does-not-complete", Detail: "after every part was delivered the set is not complete", Ops: []string{"go concurrent-same-part"}, Got: fmt.Sprint(rcv.Count()), Want: "complete"})
		}
	}
	// ------------------------------------------------------------ part sets of successive blocks (Go-side oracle only)
	// A node makes a part set for every block it proposes, stores, serves or replays, and keeps earlier
	// ones in use (the proposal being gossiped, the block store's parts). Making the next block's part
	// set must not disturb an earlier one: every earlier set still verifies against its own header and
	// reassembles to its own block.
	for c := 0; c < r.Scale(3, 12); c++ {
		type made struct {
			blk *types.Block
			ps  *types.PartSet
		}
		var sets []made
		n := 6 + c%4
		for k := 0; k < n; k++ {
			b := &types.Block{
				Header:     &types.Header{ChainID: "c17", Height: int64(k + 1), Time: time.Unix(1600000000+int64(k), 0), ValidatorsHash: []byte("vals")},
				Data:       &types.Data{},
				LastCommit: &types.Commit{},
			}
			// later blocks are not larger than earlier ones (a buffer that is reused fits them)
			for t := 0; t < 3; t++ {
				b.Data.Txs = append(b.Data.Txs, types.Tx(r.R.Bytes(4000-300*k)))
			}
			sets = append(sets, made{b, b.MakePartSet(1024)})
		}
		r.Count("successive-part-sets")
		for k := len(sets) - 1; k >= 0; k-- {
			m := sets[k]
			want := wire.BinaryBytes(m.blk)
			rcv := types.NewPartSetFromHeader(m.ps.Header())
			bad := ""
			for i := 0; i < m.ps.Total(); i++ {
				if ok, err := rcv.AddPart(m.ps.GetPart(i), true); !ok || err != nil {
					bad = fmt.Sprintf("part %d of the part set of block %d is refused by a receiver that holds the set's header: %v", i, k+1, err)
					break
				}
			}
			if bad == "" {
				got, _ := ioutil.ReadAll(rcv.GetReader())
				if !bytes.Equal(got, want) {
					bad = fmt.Sprintf("the parts of block %d reassemble to other bytes than the block", k+1)
				}
			}
			if bad != "" {
				r.Fail(vh.Failure{Class: "earlier-part-set-disturbed-by-a-later-one", Detail: bad + fmt.Sprintf(" (after %d more part sets were made)", len(sets)-1-k),
					Ops: []string{fmt.Sprintf("go successive-part-sets n=%d", n)}, Got: bad, Want: "every part set stays what it was"})
				break
			}
		}
	}
}
