// C05/C09 harness (engine `evmapp`): the real chain/app/evm.EVMApp (real EVM, real state trie, real
// LevelDB under a scratch directory) driven block by block through OnExecute / OnCommit.
//
// Four replicas execute the same chain:
//
//	B  the one on the line protocol: it is stopped and started again at random block boundaries;
//	A  runs continuously;                          (C05: lifetimes do not matter)
//	C  verifies signatures with ONE worker;        (C05: worker count does not matter)
//	D  executes every block WITHOUT the transactions B reported invalid
//	                                               (C09: an invalid tx leaves no trace)
//
// The verdicts, nonces and the receipts hash of B are compared with the Lean model (Model/App.lean),
// which gets the receipt bytes of applied transactions as oracle input; the application hash is
// opaque to the model and compared between the replicas here.
//
// ops:  new
//
//	tx kind=call|create|kv|garbage|empty|badsig from= nonce= to= value= gas= price= data= key= val= rlpok=
//	exec       (executes the pending transactions as the next block)
//	restart
package main

import (
	"bytes"
	"crypto/ecdsa"
	"encoding/hex"
	"fmt"
	"io/ioutil"
	"math/big"
	"os"
	"sort"
	"strings"
	"time"

	"github.com/spf13/viper"

	"github.com/dappledger/AnnChain/chain/app/evm"
	rtypes "github.com/dappledger/AnnChain/chain/types"
	"github.com/dappledger/AnnChain/eth/common"
	etypes "github.com/dappledger/AnnChain/eth/core/types"
	"github.com/dappledger/AnnChain/eth/crypto"
	"github.com/dappledger/AnnChain/eth/rlp"
	hash "github.com/dappledger/AnnChain/gemmill/go-hash"
	gtypes "github.com/dappledger/AnnChain/gemmill/types"

	"verifharness/nodeimpl"
	"verifharness/vh"
)

const nKeys = 4

var signer = etypes.HomesteadSigner{}

func unhex(s string) []byte { b, _ := hex.DecodeString(s); return b }

type replica struct {
	name    string
	dir     string
	app     *evm.EVMApp
	workers int
	dead    bool
}

func (r *replica) open() error {
	conf := viper.New()
	conf.Set("db_dir", r.dir)
	conf.Set("block_size", 1000)
	app, err := evm.NewEVMApp(conf)
	if err != nil {
		return err
	}
	if err := app.Start(); err != nil {
		return err
	}
	r.app = app
	return nil
}

func (r *replica) close() {
	if r.app != nil {
		func() {
			defer func() { recover() }()
			r.app.Stop()
		}()
		r.app = nil
	}
}

type blockRes struct {
	verdicts []string // per tx: V / I
	appHash  []byte
	rHash    []byte
	panicked string
	unechoed int        // transactions reported without their bytes (see verdictCands)
	cands    [][]string // every reading of the verdicts that fits the execute result
}

type world struct {
	keys   []*ecdsa.PrivateKey
	addrs  []common.Address
	reps   []*replica // B, A, C, D
	height int64
	root   string
}

func newWorld() *world {
	w := &world{}
	for i := 0; i < nKeys; i++ {
		k, err := crypto.ToECDSA(crypto.Keccak256([]byte(fmt.Sprintf("verif-c05-key-%d", i))))
		if err != nil {
			panic(err)
		}
		w.keys = append(w.keys, k)
		w.addrs = append(w.addrs, crypto.PubkeyToAddress(k.PublicKey))
	}
	return w
}

func (w *world) reset() error {
	w.closeAll()
	root, err := ioutil.TempDir("", "verif-c05-")
	if err != nil {
		return err
	}
	w.root, w.height = root, 0
	w.reps = nil
	for _, n := range []string{"B", "A", "C", "D"} {
		r := &replica{name: n, dir: root + "/" + n, workers: 8}
		if n == "C" {
			r.workers = 1
		}
		os.MkdirAll(r.dir, 0700)
		if err := r.open(); err != nil {
			return err
		}
		w.reps = append(w.reps, r)
	}
	return nil
}

func (w *world) closeAll() {
	for _, r := range w.reps {
		r.close()
	}
	if w.root != "" {
		os.RemoveAll(w.root)
		w.root = ""
	}
}

// `to=` : k<i> one of the keys, p<n> precompile / small address n, c<i>:<nonce> the contract created
// by key i at that nonce, admin the governance precompile
func (w *world) toAddr(s string) common.Address {
	switch {
	case strings.HasPrefix(s, "k"):
		return w.addrs[int(nodeimpl.Atoi(s[1:]))%nKeys]
	case strings.HasPrefix(s, "p"):
		return common.BigToAddress(big.NewInt(nodeimpl.Atoi(s[1:])))
	case strings.HasPrefix(s, "c"):
		f := strings.Split(s[1:], ":")
		return crypto.CreateAddress(w.addrs[int(nodeimpl.Atoi(f[0]))%nKeys], uint64(nodeimpl.Atoi(f[1])))
	case s == "admin":
		return common.BytesToAddress([]byte{254}) // the governance precompile (vm.AdminOP)
	}
	return common.Address{}
}

// the transaction bytes of a `tx` op (deterministic: replays rebuild them)
func (w *world) txBytes(kv map[string]string) ([]byte, *etypes.Transaction) {
	switch kv["kind"] {
	case "empty":
		return []byte{}, nil
	case "garbage":
		return unhex(kv["data"]), nil
	}
	from := int(nodeimpl.Atoi(kv["from"])) % nKeys
	nonce := uint64(nodeimpl.Atoi(kv["nonce"]))
	value := big.NewInt(nodeimpl.Atoi(kv["value"]))
	gas := uint64(nodeimpl.Atoi(kv["gas"]))
	price := big.NewInt(nodeimpl.Atoi(kv["price"]))
	data := unhex(kv["data"])
	var tx *etypes.Transaction
	switch kv["kind"] {
	case "create":
		tx = etypes.NewContractCreation(nonce, value, gas, price, data)
	case "kv":
		var payload []byte
		if kv["rlpok"] == "0" {
			payload = []byte{0xc5, 0x01} // a list header that promises more than there is
		} else {
			payload, _ = rlp.EncodeToBytes(&rtypes.KV{Key: unhex(kv["key"]), Value: unhex(kv["val"])})
		}
		data = append(append([]byte{}, rtypes.KVTxType...), payload...)
		tx = etypes.NewTransaction(nonce, common.Address{}, value, gas, price, data)
	default: // call, badsig
		tx = etypes.NewTransaction(nonce, w.toAddr(kv["to"]), value, gas, price, data)
	}
	sig, err := crypto.Sign(signer.Hash(tx).Bytes(), w.keys[from])
	if err != nil {
		panic(err)
	}
	if kv["kind"] == "badsig" { // the malleated twin: s' = N - s, v flipped (rejected since Homestead)
		n := crypto.S256().Params().N
		s := new(big.Int).Sub(n, new(big.Int).SetBytes(sig[32:64]))
		sb := s.Bytes()
		for i := 32; i < 64; i++ {
			sig[i] = 0
		}
		copy(sig[64-len(sb):64], sb)
		sig[64] ^= 1
	}
	stx, err := tx.WithSignature(signer, sig)
	if err != nil {
		panic(err)
	}
	b, err := rlp.EncodeToBytes(stx)
	if err != nil {
		panic(err)
	}
	return b, stx
}

// the blocks of one world form a chain: block h names the hash of block h-1, as on a real chain (the
// application derives the EVM header's ParentHash - what BLOCKHASH walks - from it)
var chainHashes = map[int64][]byte{}

func mkBlock(h int64, txs [][]byte) *gtypes.Block {
	b := &gtypes.Block{
		Header:     &gtypes.Header{ChainID: "c05", Height: h, Time: time.Unix(1600000000+h, 0), ValidatorsHash: []byte("vals")},
		Data:       &gtypes.Data{},
		LastCommit: &gtypes.Commit{},
	}
	if ph, ok := chainHashes[h-1]; ok {
		b.Header.LastBlockID = gtypes.BlockID{Hash: ph}
	}
	for _, tx := range txs {
		b.Data.Txs = append(b.Data.Txs, gtypes.Tx(tx))
	}
	chainHashes[h] = append([]byte{}, b.Hash()...)
	return b
}

// run one block on one replica
func (r *replica) run(h int64, txs [][]byte) (res blockRes) {
	if r.dead {
		res.panicked = "dead"
		return
	}
	evm.VerifSetValidateRoutines(r.workers)
	defer func() {
		if e := recover(); e != nil {
			res.panicked = fmt.Sprint(e)
			r.dead = true
		}
	}()
	b := mkBlock(h, txs)
	er, err := r.app.OnExecute(h, 0, b)
	if err != nil {
		res.panicked = "OnExecute: " + err.Error()
		return
	}
	cr, err := r.app.OnCommit(h, 0, b)
	if err != nil {
		res.panicked = "OnCommit: " + err.Error()
		return
	}
	x := er.(gtypes.ExecuteResult)
	res.cands, res.unechoed = verdictCands(txs, x)
	if len(res.cands) > 0 {
		res.verdicts = res.cands[0]
	} else {
		for range txs {
			res.verdicts = append(res.verdicts, "?")
		}
	}
	c := cr.(gtypes.CommitResult)
	res.appHash, res.rHash = c.AppHash, c.ReceiptsHash
	return
}

// verdictCands reads the per-transaction verdicts off an execute result: both lists keep block
// order, so the verdicts are the interleavings of the two lists that reproduce the block.
// The verifier publishes a queue entry's status before it stores the entry's original bytes
// (verifycpuparallel.go txQueue), so on some schedules the executor reports a transaction with no
// bytes; such an entry matches any transaction (which list it is in is still the verdict; C05
// speaks of hashes, receipts and query results, not of the bytes echoed in the execute result).
// With two such entries in one block more than one interleaving can fit: all are returned and the
// caller settles on the one the replicas have in common.
func verdictCands(txs [][]byte, x gtypes.ExecuteResult) (cands [][]string, unechoed int) {
	for _, v := range x.ValidTxs {
		if len(v) == 0 {
			unechoed++
		}
	}
	for _, v := range x.InvalidTxs {
		if len(v.Bytes) == 0 {
			unechoed++
		}
	}
	for _, tx := range txs { // empty transactions are echoed as empty bytes
		if len(tx) == 0 {
			unechoed--
		}
	}
	if len(x.ValidTxs)+len(x.InvalidTxs) != len(txs) {
		return nil, unechoed
	}
	var cur []string
	var rec func(t, vi, ii int)
	rec = func(t, vi, ii int) {
		if t == len(txs) {
			cands = append(cands, append([]string{}, cur...))
			return
		}
		fits := func(b []byte) bool { return bytes.Equal(b, txs[t]) || len(b) == 0 }
		if vi < len(x.ValidTxs) && fits(x.ValidTxs[vi]) {
			cur = append(cur, "V")
			rec(t+1, vi+1, ii)
			cur = cur[:len(cur)-1]
		}
		if ii < len(x.InvalidTxs) && fits(x.InvalidTxs[ii].Bytes) {
			cur = append(cur, "I")
			rec(t+1, vi, ii+1)
			cur = cur[:len(cur)-1]
		}
	}
	rec(0, 0, 0)
	return cands, unechoed
}

// settle picks, for replicas that executed the same block, the verdict reading they have in common.
func settle(rs []*blockRes) {
	amb := false
	for _, r := range rs {
		amb = amb || len(r.cands) > 1
	}
	if !amb {
		return
	}
	for _, c := range rs[0].cands {
		all := true
		for _, r := range rs[1:] {
			has := r.panicked != ""
			for _, d := range r.cands {
				has = has || strings.Join(d, "") == strings.Join(c, "")
			}
			all = all && has
		}
		if all {
			for _, r := range rs {
				if r.panicked == "" {
					r.verdicts = c
				}
			}
			return
		}
	}
}

func (r *replica) nonce(a common.Address) uint64 {
	q := r.app.Query(append([]byte{rtypes.QueryType_Nonce}, a.Bytes()...))
	var n uint64
	rlp.DecodeBytes(q.Data, &n)
	return n
}

func main() {
	r := vh.Start()
	defer r.Finish()
	// a transparent hash for the simple Merkle tree: the model computes the receipts hash itself
	hash.DoHash = func(b []byte) []byte { return append([]byte{0x68}, b...) }
	w := newWorld()
	defer w.closeAll()
	var history []string
	var pending []string         // tx op lines of the block under construction
	var lastInvalid map[int]bool // set by exec: indices B reported invalid (for the generator's oracle)
	var lastRes []blockRes

	exec := func(op string) (string, string) {
		model := op
		res := vh.Guard(func() string {
			f := strings.Fields(op)
			kv := nodeimpl.Kvs(f)
			switch f[0] {
			case "cfg":
				return "ok"
			case "new":
				pending = nil
				chainHashes = map[int64][]byte{}
				if err := w.reset(); err != nil {
					return "error " + err.Error()
				}
				return "ok"
			case "tx":
				pending = append(pending, op)
				raw, _ := w.txBytes(kv)
				z, nz := 0, 0
				if kv["kind"] != "empty" && kv["kind"] != "garbage" {
					_, stx := w.txBytes(kv)
					for _, c := range stx.Data() {
						if c == 0 {
							z++
						} else {
							nz++
						}
					}
				}
				_ = raw
				model = fmt.Sprintf("%s zeros=%d nonzeros=%d", op, z, nz)
				if kv["to"] == "admin" { // would the precompile's slicing, as found, run out of range?
					in := unhex(kv["data"])
					bad := len(in) < 52
					if !bad {
						off := new(big.Int).SetBytes(in[:32]).Uint64() + 32 // low 64 bits, wrapping
						if int(off) > len(in) {
							off = uint64(len(in))
						}
						bad = off < 52 || off > uint64(len(in))
					}
					model += " adminbad=" + vh.B01(bad)
				}
				return "ok"
			case "restart":
				b := w.reps[0]
				b.close()
				if err := b.open(); err != nil {
					return "error " + err.Error()
				}
				return "ok"
			case "exec":
				var txs [][]byte
				var stxs []*etypes.Transaction
				for _, p := range pending {
					raw, stx := w.txBytes(nodeimpl.Kvs(strings.Fields(p)))
					txs = append(txs, raw)
					stxs = append(stxs, stx)
				}
				pending = nil
				w.height++
				lastRes = nil
				rs := make([]blockRes, len(w.reps))
				var same []*blockRes
				for k, rep := range w.reps {
					if rep.name == "A" && !rep.dead {
						// A heard of the block's transactions before the block (gossip, RPC): they went
						// through its pool's admission. What a node's pool has seen is local history.
						for _, raw := range txs {
							func() {
								defer func() { recover() }()
								rep.app.GetTxPool().ReceiveTx(gtypes.Tx(raw))
							}()
						}
					}
					if rep.name != "D" {
						rs[k] = rep.run(w.height, txs)
						same = append(same, &rs[k])
					}
				}
				settle(same)
				for _, rep := range w.reps {
					if rep.name == "A" && !rep.dead {
						var ts []gtypes.Tx
						for _, raw := range txs {
							ts = append(ts, gtypes.Tx(raw))
						}
						func() {
							defer func() { recover() }()
							rep.app.GetTxPool().Update(w.height, ts)
						}()
					}
				}
				rb := rs[0]
				lastInvalid = map[int]bool{}
				var kept [][]byte
				for i, v := range rb.verdicts {
					if v == "V" {
						kept = append(kept, txs[i])
					} else {
						lastInvalid[i] = true
					}
				}
				for k, rep := range w.reps {
					if rep.name == "D" {
						rs[k] = rep.run(w.height, kept)
					}
				}
				lastRes = rs
				if rb.panicked != "" {
					return "PANIC"
				}
				// oracle data for the model: the stored receipt of every applied non-kv transaction
				var recs []string
				for i, v := range rb.verdicts {
					if v != "V" || stxs[i] == nil || strings.HasPrefix(string(stxs[i].Data()), string(rtypes.KVTxType)) {
						continue
					}
					q := w.reps[0].app.Query(append([]byte{rtypes.QueryType_Receipt}, stxs[i].Hash().Bytes()...))
					recs = append(recs, hex.EncodeToString(q.Data))
				}
				model = "exec receipts=" + strings.Join(recs, ",")
				var ns []string
				for i, a := range w.addrs {
					ns = append(ns, fmt.Sprintf("%d:%d", i, w.reps[0].nonce(a)))
				}
				return fmt.Sprintf("verdicts=%s nonces=%s rhash=%x", strings.Join(rb.verdicts, ""), strings.Join(ns, ","), rb.rHash)
			}
			return "bad-op"
		})
		if strings.HasPrefix(res, "panic") {
			res = "PANIC"
		}
		return model, res
	}
	do := func(op string) string {
		m, res := exec(op)
		r.Op(m, res)
		history = append(history, m)
		return res
	}
	if r.Replay != "" {
		for _, l := range vh.ReadLines(r.Replay) {
			if i := strings.Index(l, " zeros="); i > 0 && strings.HasPrefix(l, "tx ") {
				l = l[:i]
			}
			if strings.HasPrefix(l, "exec") {
				l = "exec"
			}
			do(l)
		}
		return
	}
	do("cfg")
	R := r.R
	codes := map[string]string{
		"store":  "600a600c600039600a6000f3" + "60003560005500", // deploys: SSTORE(0, calldata[0])
		"logger": "6005600c60003960056000f3" + "60006000a0",     // deploys: LOG0(0,0) on every call
		// deploys: SSTORE(0..2, BLOCKHASH(NUMBER-2 / -1 / -3)), SSTORE(3, NUMBER), SSTORE(4, TIMESTAMP), SSTORE(5, COINBASE):
		// whatever of the block context the EVM exposes must be a function of the chain (C05), also on a
		// replica that was restarted since the blocks it looks back at
		"env": "6025600c60003960256000f3" + "6002430340600055" + "6001430340600155" + "6003430340600255" + "43600355" + "42600455" + "41600555" + "00",
		// mortal: empty call data -> SELFDESTRUCT(caller); otherwise returns 42
		//   CALLDATASIZE PUSH1 06 JUMPI CALLER SELFDESTRUCT JUMPDEST PUSH1 2a PUSH1 00 MSTORE PUSH1 20 PUSH1 00 RETURN
		"mortal": "6011600c60003960116000f3" + "36600657" + "33ff" + "5b" + "602a600052" + "60206000f3",
		// proxy: CALL(gas, address in call data word 0, no value, no data), then INVALID: a frame that touches the
		// address and fails - it must leave no trace but the sender's nonce
		"proxy": "6010600c60003960106000f3" + "600060006000600060006000355af1" + "fe",
		// init code that reads return data at an offset at the edge of the machine word (offset + length wraps):
		// the frame must fail, the executor must not panic
		"rdcwrap": "600167ffffffffffffffff60003e00",
		// init code that calls the RIPEMD-160 precompile (address 3) and then fails: the touch of address 3 is
		// journalled in a special way (a mainnet consensus quirk); the failed frame must leave nothing behind
		// and the executor must not panic
		"ripemdfail": "6000600060006000600060035af1fe",
		"revert":     "60006000fd",
		"invalid":    "fe",
		"empty":      "",
	}
	seqs := r.Scale(24, 240)
	var boundaryHash []byte
	for s := 0; s < seqs+1; s++ { // (one more world than random ones: the last is directed, see below)
		history = history[:1]
		if do("new") != "ok" {
			continue
		}
		nonces := make([]uint64, nKeys) // what the generator believes (from B's answers)
		created := []string{}           // c<i>:<nonce> of contracts created so far
		applied := map[string]int{}     // "<from>/<nonce>" -> how often a signed tx with it was applied
		fail := func(cls, detail, got, want string) {
			r.Fail(vh.Failure{Class: cls, Detail: detail, Ops: append([]string{}, history[1:]...), Got: got, Want: want})
		}
		blocks := R.Range(3, 9)
		dead := false
		// the first world of every run is directed: contracts whose receipts / state depend on what the process
		// remembers (event numbering, the block context) are created, used, the replica is restarted, and they
		// are used again - whatever the random stream of this run reaches
		var script [][]string
		if s == 0 {
			script = [][]string{
				{"create 0 logger", "create 1 env"},
				{"call 0 c0:0", "call 1 c1:0"},
				{"kv 2"},
				{"call 0 c0:0", "call 1 c1:0", "call 0 c0:0"},
				{"call 1 c1:0", "call 0 c0:0"},
			}
			blocks = len(script)
		}
		// worlds 1 and 2: the same transactions, cut into blocks differently. A contract is destroyed and, later,
		// a failing frame touches its address - in the same block (world 1) or in the next (world 2). None of the
		// contracts reads the block context, so the final application hash must be the same (C09: a failed
		// transaction changes nothing; C05: the state is a function of the transactions).
		if s == seqs { // after the random worlds: failing frames that touched a precompile, then ordinary traffic
			script = [][]string{{"create 0 ripemdfail"}, {"kv 1"}, {"create 1 ripemdfail", "kv 2", "create 0 ripemdfail"}, {"kv 0"}}
			blocks = len(script)
		}
		if s == 1 || s == 2 {
			txs := []string{"create 0 mortal", "create 1 proxy", "calld 0 c0:0 01", "call 0 c0:0", "pcall 1 c1:0 c0:0", "calld 2 c0:0 01", "pcall 1 c1:0 c0:0", "create 2 rdcwrap"}
			cut := map[int][]int{1: {2, 3, 5, 7, 8}, 2: {2, 3, 4, 5, 6, 7, 8}}[s]
			prev := 0
			for _, c := range cut {
				script = append(script, txs[prev:c])
				prev = c
			}
			blocks = len(script)
		}
		for b := 0; b < blocks && !dead; b++ {
			ntx := R.Intn(7)
			if R.Chance(15) {
				ntx = 0
			}
			if script != nil {
				ntx = len(script[b])
			}
			tmp := append([]uint64{}, nonces...) // expected nonces while the block is put together
			var specs []map[string]string
			for t := 0; t < ntx; t++ {
				from := R.Intn(nKeys)
				nonce := tmp[from]
				bump := true
				switch c := R.Intn(100); {
				case c < 8:
					nonce += uint64(R.Range(1, 3)) // too high
					bump = false
				case c < 16 && nonce > 0:
					nonce -= uint64(R.Range(1, int(nonce))) // replayed / too low
					bump = false
				}
				op := ""
				c100 := R.Intn(100)
				if script != nil {
					f := strings.Fields(script[b][t])
					from = int(nodeimpl.Atoi(f[1]))
					nonce, bump = tmp[from], true
					switch f[0] {
					case "create":
						op = fmt.Sprintf("tx kind=create from=%d nonce=%d value=0 gas=200000 price=0 data=%s", from, nonce, codes[f[2]])
						created = append(created, fmt.Sprintf("c%d:%d", from, nonce))
					case "call":
						op = fmt.Sprintf("tx kind=call from=%d nonce=%d to=%s value=0 gas=100000 price=0 data=", from, nonce, f[2])
					case "calld":
						op = fmt.Sprintf("tx kind=call from=%d nonce=%d to=%s value=0 gas=100000 price=0 data=%s", from, nonce, f[2], f[3])
					case "pcall": // call the proxy with the address of f[3] as call data word 0
						g := strings.Split(strings.TrimPrefix(f[3], "c"), ":")
						target := crypto.CreateAddress(w.addrs[int(nodeimpl.Atoi(g[0]))%nKeys], uint64(nodeimpl.Atoi(g[1])))
						op = fmt.Sprintf("tx kind=call from=%d nonce=%d to=%s value=0 gas=300000 price=0 data=%s%x", from, nonce, f[2], strings.Repeat("00", 12), target.Bytes())
					default:
						op = fmt.Sprintf("tx kind=kv from=%d nonce=%d value=0 gas=0 price=0 key=01 val=02 rlpok=1", from, nonce)
					}
					c100 = 1000
				}
				switch c := c100; {
				case c == 1000:
				case c < 22: // plain call to a key / precompile / created contract
					to := fmt.Sprintf("k%d", R.Intn(nKeys))
					if R.Chance(30) {
						to = fmt.Sprintf("p%d", R.Range(1, 9))
					}
					if len(created) > 0 && R.Chance(50) {
						to = created[R.Intn(len(created))]
					}
					data := ""
					if R.Chance(60) {
						data = hex.EncodeToString(R.Bytes(R.Range(1, 40)))
					}
					gas := 100000
					if R.Chance(12) {
						gas = R.Range(0, 21500) // around the intrinsic gas
						bump = bump && false
					}
					value := 0
					if R.Chance(10) {
						value = R.Range(1, 5) // nobody has funds
						bump = false
					}
					op = fmt.Sprintf("tx kind=call from=%d nonce=%d to=%s value=%d gas=%d price=0 data=%s", from, nonce, to, value, gas, data)
					if gas < 100000 {
						bump = false // decided by the model, not by the generator: resynchronised after exec
					}
				case c < 36: // contract creation
					nm := []string{"store", "logger", "logger", "revert", "invalid", "empty", "env", "env"}[R.Intn(8)]
					op = fmt.Sprintf("tx kind=create from=%d nonce=%d value=0 gas=%d price=0 data=%s", from, nonce, []int{200000, 200000, 60000, 30000}[R.Intn(4)], codes[nm])
					if bump {
						created = append(created, fmt.Sprintf("c%d:%d", from, nonce))
					}
				case c < 62: // key-value transaction
					rlpok := "1"
					if R.Chance(10) {
						rlpok = "0"
						bump = false
					}
					op = fmt.Sprintf("tx kind=kv from=%d nonce=%d value=0 gas=0 price=0 key=%x val=%x rlpok=%s", from, nonce, R.Bytes(R.Range(1, 6)), R.Bytes(R.Range(0, 12)), rlpok)
				case c < 70:
					op = fmt.Sprintf("tx kind=badsig from=%d nonce=%d to=k0 value=0 gas=100000 price=0 data=", from, nonce)
					bump = false
				case c < 80: // bytes that are not a transaction
					g := R.Bytes(R.Range(1, 60))
					if R.Chance(30) {
						g = []byte{0xf8, 0xff} // a list header promising 255 bytes
					}
					op = fmt.Sprintf("tx kind=garbage data=%x", g)
					bump = false
				case c < 84:
					op = "tx kind=empty"
					bump = false
				case c < 92: // the governance precompile with short / arbitrary input
					op = fmt.Sprintf("tx kind=call from=%d nonce=%d to=admin value=0 gas=300000 price=0 data=%x", from, nonce, R.Bytes(R.Intn(80)))
				default: // an exact duplicate of an earlier transaction of this block
					if len(specs) > 0 {
						op = history[len(history)-1-R.Intn(len(specs))]
						if i := strings.Index(op, " zeros="); i > 0 {
							op = op[:i]
						}
						bump = false
					} else {
						op = fmt.Sprintf("tx kind=kv from=%d nonce=%d value=0 gas=0 price=0 key=01 val=02 rlpok=1", from, nonce)
					}
				}
				do(op)
				specs = append(specs, nodeimpl.Kvs(strings.Fields(op)))
				r.Count("tx." + specs[len(specs)-1]["kind"])
				if bump {
					tmp[from]++
				}
			}
			res := do("exec")
			r.Distinct(fmt.Sprintf("ntx=%d res=%s", ntx, strings.Split(strings.Split(res, " ")[0], "=")[len(strings.Split(strings.Split(res, " ")[0], "="))-1]))
			if res == "PANIC" {
				fail("transaction-bytes-panic-the-executor", "executing a block panics the executing routine: "+lastRes[0].panicked, "PANIC", "the transaction is reported invalid")
				dead = true
				break
			}
			rb := lastRes[0]
			for _, o := range lastRes {
				if o.unechoed > 0 {
					r.Count("verdict-reported-without-bytes")
				}
			}
			// ---- C05: replicas
			for k, rep := range w.reps[1:] {
				o := lastRes[k+1]
				if o.panicked != "" {
					fail("replica-panics", fmt.Sprintf("replica %s (same chain) panics: %s", rep.name, o.panicked), "PANIC", "")
					dead = true
					continue
				}
				if rep.name == "D" {
					if !bytes.Equal(o.appHash, rb.appHash) {
						fail("invalid-transaction-leaves-a-trace", fmt.Sprintf("block %d executed without the transactions reported invalid gives another application hash: an invalid transaction changed the state", w.height), fmt.Sprintf("%x", rb.appHash), fmt.Sprintf("%x", o.appHash))
					}
					continue
				}
				// A (never restarted) against B (restarted); C (one worker) against A (both continuous)
				ref, what, cls := rb, "the replica that was stopped and started again obtains other hashes / verdicts than a replica that ran continuously", "restarted-replica-diverges"
				if rep.name == "C" {
					ref, what, cls = lastRes[1], "a replica verifying signatures with one worker obtains other hashes / verdicts than one with eight", "worker-count-changes-result"
				}
				if !bytes.Equal(o.appHash, ref.appHash) || !bytes.Equal(o.rHash, ref.rHash) || strings.Join(o.verdicts, "") != strings.Join(ref.verdicts, "") {
					fail(cls, fmt.Sprintf("block %d: %s", w.height, what),
						fmt.Sprintf("app=%x receipts=%x verdicts=%s", ref.appHash, ref.rHash, strings.Join(ref.verdicts, "")),
						fmt.Sprintf("app=%x receipts=%x verdicts=%s", o.appHash, o.rHash, strings.Join(o.verdicts, "")))
				}
			}
			// ---- C09: a signed transaction takes effect at most once, at its sender's nonce, +1
			before := append([]uint64{}, nonces...)
			cur := append([]uint64{}, nonces...)
			for i, v := range rb.verdicts {
				sp := specs[i]
				if sp["kind"] == "garbage" || sp["kind"] == "empty" || sp["kind"] == "badsig" {
					if v == "V" {
						fail("unsigned-bytes-applied", "bytes that are not a validly signed transaction were applied", "V", "I")
					}
					continue
				}
				from := int(nodeimpl.Atoi(sp["from"])) % nKeys
				if v == "V" {
					key := fmt.Sprintf("%d/%s", from, sp["nonce"])
					applied[key]++
					if applied[key] > 1 {
						fail("transaction-applied-twice", fmt.Sprintf("a signed transaction of key %d with nonce %s took effect a second time", from, sp["nonce"]), "V", "I")
					}
					if uint64(nodeimpl.Atoi(sp["nonce"])) != cur[from] {
						fail("transaction-applied-at-wrong-nonce", fmt.Sprintf("a transaction with nonce %s was applied while its sender's nonce was %d", sp["nonce"], cur[from]), "V", "I")
					}
					cur[from]++
				}
			}
			for i, a := range w.addrs {
				nonces[i] = w.reps[0].nonce(a)
				if nonces[i] != cur[i] {
					fail("nonce-not-raised-by-exactly-one-per-applied-transaction", fmt.Sprintf("key %d: nonce %d -> %d over a block that applied %d of its transactions", i, before[i], nonces[i], cur[i]-before[i]), fmt.Sprint(nonces[i]), fmt.Sprint(cur[i]))
				}
			}
			_ = lastInvalid
			if (script == nil && R.Chance(35)) || (s == 0 && b == 1) {
				do("restart")
				r.Count("restart")
			}
			if (s == 1 || s == 2) && b == blocks-1 {
				if s == 1 {
					boundaryHash = append([]byte{}, rb.appHash...)
				} else if boundaryHash != nil && !bytes.Equal(boundaryHash, rb.appHash) {
					fail("state-depends-on-where-blocks-are-cut", "the same transactions (a contract destroys itself; later a failing frame touches its address) give another application hash when the two fall into one block than when they fall into consecutive blocks: a failed transaction left a trace / a destroyed contract came back",
						fmt.Sprintf("%x", rb.appHash), fmt.Sprintf("%x", boundaryHash))
				}
				r.Count("boundary-world")
			}
		}
	}
	_ = sort.Strings
}
