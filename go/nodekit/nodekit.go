// Package nodekit builds a real pbft.ConsensusState (through the `verif` stepping shim) on
// in-memory stores with deterministic validator keys, for the node-level harnesses.
package nodekit

import (
	"bytes"
	"fmt"
	"io/ioutil"
	"os"
	"path/filepath"
	"sort"
	"sync/atomic"
	"time"

	"github.com/spf13/viper"

	bc "github.com/dappledger/AnnChain/gemmill/blockchain"
	"github.com/dappledger/AnnChain/gemmill/consensus/pbft"
	crypto "github.com/dappledger/AnnChain/gemmill/go-crypto"
	wire "github.com/dappledger/AnnChain/gemmill/go-wire"
	clist "github.com/dappledger/AnnChain/gemmill/modules/go-clist"
	dbm "github.com/dappledger/AnnChain/gemmill/modules/go-db"
	"github.com/dappledger/AnnChain/gemmill/modules/go-events"
	sm "github.com/dappledger/AnnChain/gemmill/state"
	"github.com/dappledger/AnnChain/gemmill/types"
)

const ChainID = "verif-chain"

type pool struct{}

func (pool) Lock()   {}
func (pool) Unlock() {}

// Reap hands every own block a transaction of its own: two blocks a node creates are never the same
// block, whatever the clock does (MakeBlock stamps time.Now(); on a coarse or slow clock a validator that
// is killed and re-creates its proposal at once would otherwise build the IDENTICAL block, whose sign bytes
// the signer rightly signs again - a coincidence of the clock that no model of names can follow).
func (pool) Reap(int) []types.Tx {
	n := atomic.AddUint64(&reapCounter, 1)
	return []types.Tx{types.Tx(fmt.Sprintf("own-block-tx-%d", n))}
}

var reapCounter uint64

func (pool) ReceiveTx(types.Tx) error                  { return nil }
func (pool) Update(int64, []types.Tx)                  {}
func (pool) Size() int                                 { return 0 }
func (pool) TxsFrontWait() *clist.CElement             { return nil }
func (pool) Flush()                                    {}
func (pool) RegisterFilter(types.IFilter)              {}
func (pool) GetPendingMaxNonce([]byte) (uint64, error) { return 0, nil }

// PowerChange: the application changes the voting power of validator Idx at the end of a block.
type PowerChange struct {
	Idx   int
	Power int64
}

type exec struct{ c *Chain }

func (exec) BeginBlock(*types.Block, events.Fireable, *types.PartSetHeader) error { return nil }
func (exec) ExecBlock(*types.Block, events.Fireable, *types.ExecuteResult) error  { return nil }
func (e exec) EndBlock(b *types.Block, _ events.Fireable, _ *types.PartSetHeader, _ []*types.ValidatorAttr, next *types.ValidatorSet) error {
	if ch, ok := e.c.Changes[b.Height]; ok {
		_, v := next.GetByAddress(e.c.Addr(ch.Idx))
		v.VotingPower = ch.Power
		next.Update(v)
	}
	return nil
}

// Chain: validators (sorted by address), their keys, and one node.
type Chain struct {
	Dir     string
	Keys    []crypto.PrivKeyEd25519 // in address order
	Privs   []*types.PrivValidator  // in address order (file-backed for `Me`)
	Powers  []int64
	Changes map[int64]PowerChange // validator power updates applied by EndBlock of that height
	Me      int
	CS      *pbft.ConsensusState
	Ticker  *pbft.VerifTicker
	Store   *bc.BlockStore
	StateDB dbm.DB
	Gen     *types.GenesisDoc
	conf    *viper.Viper
	evsw    types.EventSwitch
}

// NewChain: n validators with the given powers (in ADDRESS order), node = validator `me`.
func NewChain(powers []int64, me int, skipTimeoutCommit bool) *Chain {
	dir, err := ioutil.TempDir("", "verif-node-")
	if err != nil {
		panic(err)
	}
	c := &Chain{Dir: dir, Me: me, Powers: powers}
	type kv struct {
		k crypto.PrivKeyEd25519
	}
	var ks []kv
	for i := range powers {
		var seed [32]byte
		copy(seed[:], fmt.Sprintf("verif-node-validator-%d", i))
		ks = append(ks, kv{crypto.GenPrivKeyEd25519FromSecret(seed[:])})
	}
	sort.Slice(ks, func(i, j int) bool {
		return bytes.Compare(ks[i].k.PubKey().Address(), ks[j].k.PubKey().Address()) < 0
	})
	gen := &types.GenesisDoc{ChainID: ChainID, GenesisTime: time.Unix(1500000000, 0)}
	for i, e := range ks {
		c.Keys = append(c.Keys, e.k)
		pv, err := types.GenPrivValidator(crypto.CryptoTypeZhongAn, e.k)
		if err != nil {
			panic(err)
		}
		pv.SetFile(filepath.Join(dir, fmt.Sprintf("priv_validator_%d.json", i)))
		c.Privs = append(c.Privs, pv)
		gen.Validators = append(gen.Validators, types.GenesisValidator{PubKey: e.k.PubKey(), Amount: powers[i], IsCA: true})
	}
	c.Gen = gen
	c.StateDB = dbm.NewMemDB()
	c.Store = bc.NewBlockStore(dbm.NewMemDB(), dbm.NewMemDB())
	conf := viper.New()
	conf.Set("chain_id", ChainID)
	conf.Set("cs_wal_dir", filepath.Join(dir, "wal"))
	conf.Set("cs_wal_light", false)
	conf.Set("block_size", 100)
	conf.Set("block_part_size", 65536)
	conf.Set("timeout_propose", 3000)
	conf.Set("timeout_prevote", 1000)
	conf.Set("timeout_precommit", 1000)
	conf.Set("timeout_commit", 1000)
	conf.Set("skip_timeout_commit", skipTimeoutCommit)
	c.conf = conf
	state := sm.MakeGenesisState(c.StateDB, gen)
	c.start(state)
	return c
}

func (c *Chain) start(state *sm.State) {
	state.SetBlockExecutable(exec{c})
	cs := pbft.NewConsensusState(c.conf, state, c.Store, pool{})
	if cs == nil {
		panic("NewConsensusState failed")
	}
	state.SetBlockVerifier(cs)
	c.Ticker = cs.VerifUseTicker()
	evsw := types.NewEventSwitch()
	evsw.Start()
	types.AddListenerForEvent(evsw, "verif", types.EventStringHookNewRound(), func(ed types.TMEventData) {
		ed.(types.EventDataHookNewRound).ResCh <- types.NewRoundResult{}
	})
	types.AddListenerForEvent(evsw, "verif", types.EventStringHookExecute(), func(ed types.TMEventData) {
		ed.(types.EventDataHookExecute).ResCh <- types.ExecuteResult{}
	})
	types.AddListenerForEvent(evsw, "verif", types.EventStringHookCommit(), func(ed types.TMEventData) {
		d := ed.(types.EventDataHookCommit)
		d.ResCh <- types.CommitResult{AppHash: []byte(fmt.Sprintf("app-%d", d.Height)), ReceiptsHash: nil}
	})
	cs.SetEventSwitch(evsw)
	c.evsw = evsw
	if c.Me >= 0 {
		cs.SetPrivValidator(c.Privs[c.Me])
	}
	c.CS = cs
}

// Restart: drop the ConsensusState (crash) and build a new one from the persisted state, block
// store, WAL directory and signer file — what a process restart does.
func (c *Chain) Restart() {
	c.CS.VerifStopWAL()
	state := sm.LoadState(c.StateDB)
	if state == nil {
		state = sm.MakeGenesisState(c.StateDB, c.Gen)
	}
	if c.Me >= 0 {
		pv, err := types.LoadPrivValidator(filepath.Join(c.Dir, fmt.Sprintf("priv_validator_%d.json", c.Me)))
		if err == nil {
			c.Privs[c.Me] = pv
		}
	}
	c.start(state)
}

func (c *Chain) Close() {
	if c.CS != nil {
		c.CS.VerifStopWAL()
	}
	if os.Getenv("VERIF_KEEP") != "" {
		fmt.Println("kept:", c.Dir)
		return
	}
	os.RemoveAll(c.Dir)
}

// EventSwitch is the node's event switch (the application hooks listen on it).
func (c *Chain) EventSwitch() types.EventSwitch { return c.evsw }

// NewPool is the no-op transaction pool the nodes are built with.
func NewPool() types.TxPool { return pool{} }

// Addr of validator i (address order).
func (c *Chain) Addr(i int) []byte { return c.Keys[i].PubKey().Address() }

// MakeBlock builds a block for the node's CURRENT height proposed by validator `proposer`.
// tag makes the block unique; valid=false corrupts the app hash.
func (c *Chain) MakeBlock(tag string, proposer int, valid bool) (*types.Block, *types.PartSet) {
	s := c.CS.VerifState()
	h := s.LastBlockHeight + 1
	commit := &types.Commit{}
	if h > 1 {
		commit = c.Store.LoadSeenCommit(h - 1)
	}
	app := s.AppHash
	if !valid {
		app = []byte("wrong-app-hash")
	}
	b := &types.Block{
		Header: &types.Header{
			ChainID:         s.ChainID,
			Height:          h,
			Time:            time.Unix(1500000100, 0),
			NumTxs:          1,
			LastBlockID:     s.LastBlockID,
			ValidatorsHash:  s.Validators.Hash(),
			AppHash:         app,
			ReceiptsHash:    s.ReceiptsHash,
			ProposerAddress: c.Addr(proposer),
		},
		LastCommit: commit,
		Data:       &types.Data{Txs: []types.Tx{types.Tx(tag)}},
	}
	b.FillHeader()
	return b, b.MakePartSet(65536)
}

// SignVote builds a vote by validator idx signed with signer's key (raw key: peers may send anything).
func (c *Chain) SignVote(idx int, addr []byte, h, r int64, t byte, id types.BlockID, signer int, tamper bool) *types.Vote {
	v := &types.Vote{ValidatorAddress: addr, ValidatorIndex: idx, Height: h, Round: r, Type: t, BlockID: id}
	sig := c.Keys[signer%len(c.Keys)].Sign(types.SignBytes(ChainID, v)).(crypto.SignatureEd25519)
	if tamper {
		sig[7] ^= 0x20
	}
	v.Signature = sig
	return v
}

// SignProposal signed by validator `signer`.
func (c *Chain) SignProposal(h, r int64, parts types.PartSetHeader, polRound int64, polID types.BlockID, signer int, tamper bool) *types.Proposal {
	p := types.NewProposal(h, r, parts, polRound, polID)
	sig := c.Keys[signer%len(c.Keys)].Sign(types.SignBytes(ChainID, p)).(crypto.SignatureEd25519)
	if tamper {
		sig[7] ^= 0x20
	}
	p.Signature = sig
	return p
}

// BlockFromParts reassembles a block from its parts.
func BlockFromParts(parts []*types.Part, header types.PartSetHeader) *types.Block {
	ps := types.NewPartSetFromHeader(header)
	for _, p := range parts {
		ps.AddPart(p, false)
	}
	if !ps.IsComplete() {
		return nil
	}
	var n int
	var err error
	b := wire.ReadBinary(&types.Block{}, ps.GetReader(), types.MaxBlockSize, &n, &err).(*types.Block)
	if err != nil {
		return nil
	}
	return b
}
