import AnnVerif.Model.Basic
import AnnVerif.Model.Merkle
import AnnVerif.Props.C17
import AnnVerif.Props.C15
import AnnVerif.Props.C16
import AnnVerif.Props.C14
import AnnVerif.Props.C03
import AnnVerif.Props.C18
