import AnnVerif.Model.Basic
import AnnVerif.Model.Merkle
import AnnVerif.Props.C17
