import AnnVerif.Model.NodeDriver
open AnnVerif AnnVerif.Drv AnnVerif.NodeDrv

def main : IO Unit := run dstep {}
