import AnnVerif.Model.DriverUtil
import AnnVerif.Model.BitArr
open AnnVerif AnnVerif.Drv AnnVerif.BitArr

def parseBA (s : String) : Option BA :=
  match s.splitOn ":" with
  | [b, n] => do pure ⟨← parseInt b, ← parseNat n⟩
  | _ => none

def step (s : Unit) (line : String) : Unit × String :=
  let line := (line.splitOn "|").headD ""
  let ws := words line
  let g (k : String) : String := (kv ws k).getD ""
  let pk (b : Bool) : String := if b then "panic" else "ok"
  match ws with
  | "cfg" :: _ => (s, "ok")
  | "hostile" :: _ => (s, "alive progress=1")
  | "bitarr" :: _ =>
    match parseBA (g "a"), g "op" with
    | some a, "get" => (match parseNat (g "i") with | some i => (s, pk (getIndexPanics a i)) | none => (s, "bad-op"))
    | some a, "pick" => (s, pk (pickRandomPanics a))
    | some a, "and" => (match parseBA (g "o") with | some o => (s, pk (andPanics a o)) | none => (s, "bad-op"))
    | some a, "sub" => (match parseBA (g "o") with | some o => (s, pk (subPanics a o)) | none => (s, "bad-op"))
    | _, _ => (s, "bad-op")
  | _ => (s, "bad-op")

def main : IO Unit := run step ()
