import AnnVerif.Model.DriverUtil
import AnnVerif.Model.Pool
open AnnVerif AnnVerif.Drv AnnVerif.Pool

structure D where
  cfg : Cfg := {}
  p : Pool := {}
  txs : List Tx := []     -- every transaction ever built (id -> sender, nonce)

def showQ (m : AccMap) : String :=
  ",".intercalate ((accounts.map fun a => (m a).map fun t => s!"{a}:{t.nonce}/{t.id}").flatten)

def snap (p : Pool) : String :=
  let ids := p.all.toArray.qsort (· < ·) |>.toList
  s!"P={showQ p.pending} W={showQ p.waiting} all={",".intercalate (ids.map toString)} ext={",".intercalate (p.ext.map toString)}"

def showRes : SubmitRes → String
  | .ok => "ok" | .exist => "exist" | .stale => "stale" | .full => "full" | .nonceTaken => "nonceTaken"

def parsePairs (s : String) : List (Nat × Nat) :=
  (s.splitOn ",").filterMap fun e =>
    match e.splitOn ":" with
    | [a, n] => do pure (← a.toNat?, ← n.toNat?)
    | _ => none

def step (d : D) (line : String) : D × String :=
  let ws := words line
  let g (k : String) : String := (kv ws k).getD ""
  match ws with
  | "cfg" :: _ =>
    ({ d with cfg := ⟨g "replaceForgets" != "0", g "promoteForgets" != "0", g "commitRemoves" != "0", g "pendingNonceCheck" != "0", g "demotesGaps" != "0"⟩ }, "ok")
  | "new" :: _ =>
    let l := (g "limit").toNat?.getD 1 * 10
    let p : Pool := { pendingLimit := l, waitingLimit := l }
    ({ d with p := p, txs := [] }, "ok " ++ snap p)
  | "submit" :: _ =>
    match (g "id").toNat?, (g "from").toNat?, (g "nonce").toNat? with
    | some id, some a, some n =>
      let t : Tx := ⟨id, a % 5, n⟩
      let (p', r) := submit d.cfg d.p t
      ({ d with p := p', txs := t :: d.txs }, showRes r ++ " " ++ snap p')
    | _, _, _ => (d, "bad-op")
  | "admin" :: _ =>
    match (g "id").toNat? with
    | some id => let (p', r) := submitAdmin d.p id; ({ d with p := p' }, showRes r ++ " " ++ snap p')
    | none => (d, "bad-op")
  | ["reap"] =>
    let (ext, txs) := reapAll d.p
    (d, s!"reap ext={",".intercalate (ext.map toString)} txs={",".intercalate (txs.map fun t => s!"{t.sender}:{t.nonce}/{t.id}")}")
  | "commit" :: _ =>
    let ids := ((g "ids").splitOn ",").filterMap String.toNat?
    let p' := commit d.cfg d.p ids (parsePairs (g "nonces"))
    ({ d with p := p' }, "ok " ++ snap p')
  | ["quiet"] => (d, "ok")
  | ["snap"] => (d, "ok " ++ snap d.p)
  | ["flush"] => let p' := flush d.p; ({ d with p := p' }, "ok " ++ snap p')
  | _ => (d, "bad-op")

def main : IO Unit := run step {}
