import AnnVerif.Model.DriverUtil
import AnnVerif.Model.Ticker
open AnnVerif AnnVerif.Drv AnnVerif.Ticker

structure D where
  cfg : Cfg := {}
  s : St := {}

def step (d : D) (line : String) : D × String :=
  match words line with
  | "cfg" :: rest => ({ d with cfg := ⟨kv rest "sameHeightOnly" != some "0"⟩ }, "ok")
  | ["new"] => ({ d with s := {} }, "ok")
  | ["sched", h, r, s, dur] =>
    match parseInt h, parseInt r, parseNat s with
    | some h, some r, some st =>
      let (s', f) := schedule d.cfg d.s ⟨h, r, st⟩ (dur == "short")
      ({ d with s := s' }, match f with
        | some t => s!"fired={t.height}/{t.round}/{t.step}"
        | none => "none")
    | _, _, _ => (d, "bad-op")
  | _ => (d, "bad-op")

def main : IO Unit := run step {}
