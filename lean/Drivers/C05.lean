import AnnVerif.Model.DriverUtil
import AnnVerif.Model.App
open AnnVerif AnnVerif.Drv AnnVerif.App

def tH : Bytes → Bytes := fun b => 0x68 :: b
def tN : Bytes → Bytes → Bytes := fun l r => tH (wireByteSlice l ++ wireByteSlice r)

structure D where
  cfg : Cfg := {}
  app : App := {}
  pending : List Tx := []
  dead : Bool := false

def parseTx (ws : List String) : Option Tx :=
  let g (k : String) : String := (kv ws k).getD ""
  match g "kind" with
  | "empty" => some .empty
  | "garbage" => some .garbage
  | "badsig" => some .badSig
  | k =>
    match (g "from").toNat?, (g "nonce").toNat?, (g "value").toNat?, (g "gas").toNat?, (g "price").toNat?,
          (g "zeros").toNat?, (g "nonzeros").toNat? with
    | some f, some n, some v, some gas, some p, some z, some nz =>
      let kind : Option Kind :=
        if k == "create" then some .create
        else if k == "kv" then
          (match Hex.decode (g "key"), Hex.decode (g "val") with
           | some key, some val => some (.kv key val (g "rlpok" != "0"))
           | _, _ => none)
        else if k == "call" then
          -- only value sent to another key account moves a modelled balance
          let to := g "to"
          some (.call (if to.startsWith "k" then ((to.drop 1).toNat?.getD 0) % 4 else 1000) (g "adminbad" == "1"))
        else none
      kind.map fun kd => .signed (f % 4) n kd v gas p z nz
    | _, _, _, _, _, _, _ => none

def showVerdict : Outcome → String
  | .applied => "V" | .kvApplied _ => "V" | .invalid => "I" | .panic => "P"

def step (d : D) (line : String) : D × String :=
  let ws := words line
  match ws with
  | "cfg" :: rest =>
    ({ d with cfg := ⟨kv rest "resetKvs" != some "0", kv rest "kvNonceCheck" != some "0", kv rest "nilTxGuard" != some "0",
                          kv rest "adminInputGuard" != some "0"⟩ }, "ok")
  | ["new"] => ({ d with app := {}, pending := [], dead := false }, "ok")
  | "tx" :: rest =>
    match parseTx rest with
    | some t => ({ d with pending := d.pending ++ [t] }, "ok")
    | none => (d, "bad-op")
  | ["restart"] => ({ d with app := restart d.app }, "ok")
  | "exec" :: rest =>
    let oracle := ((kv rest "receipts").getD "").splitOn "," |>.filterMap (fun s => if s.isEmpty then none else Hex.decode s)
    let (app', out) := block tN d.cfg d.app d.pending oracle
    if out.verdicts.any (· == .panic) then ({ d with pending := [], dead := true }, "PANIC")
    else
      let ns := (List.range 4).map fun i => s!"{i}:{(getAcc app'.accounts i).nonce}"
      let rh := match out.rhash with | some h => Hex.encode h | none => ""
      ({ d with app := app', pending := [] },
        s!"verdicts={String.join (out.verdicts.map showVerdict)} nonces={",".intercalate ns} rhash={rh}")
  | _ => (d, "bad-op")

def main : IO Unit := run step {}
