import AnnVerif.Model.DriverUtil
import AnnVerif.Model.ValSet
open AnnVerif AnnVerif.Drv AnnVerif.ValSet

structure St where
  cfg : Cfg := repaired
  keepsProposer : Bool := true
  regs : List (String × ValSet) := []

def getReg (s : St) (r : String) : ValSet :=
  match s.regs.find? (·.1 == r) with
  | some (_, v) => v
  | none => ⟨[], none, 0⟩

def setReg (s : St) (r : String) (v : ValSet) : St :=
  { s with regs := (r, v) :: s.regs.filter (·.1 != r) }

def dump (vs : ValSet) : String :=
  ",".intercalate (vs.vals.map fun v => s!"{Hex.encode v.addr}:{v.power}:{v.accum}")

def parseVal (w : String) : Option Val :=
  match w.splitOn ":" with
  | [a, p, c] => do pure ⟨← Hex.decode a, ← parseInt p, ← parseInt c⟩
  | [a, p] => do pure ⟨← Hex.decode a, ← parseInt p, 0⟩
  | _ => none

def step (s : St) (line : String) : St × String :=
  match words line with
  | "cfg" :: rest => ({ s with cfg := ⟨kv rest "iterated" != some "0"⟩, keepsProposer := (kv rest "stateKeepsProposer" != some "0") }, "ok")
  | "new" :: r :: vals =>
    match vals.mapM parseVal with
    | some vals => let vs := newValSet s.cfg vals; (setReg s r vs, dump vs)
    | none => (s, "bad-op")
  | ["incr", r, k] =>
    match parseNat k with
    | some k => let vs := incrementAccum s.cfg (getReg s r) k; (setReg s r vs, dump vs)
    | none => (s, "bad-op")
  | ["copy", r, r2] => (setReg s r2 (getReg s r), "ok")
  | ["dump", r] => (s, dump (getReg s r))
  | ["proposer", r] =>
    let (vs, p) := proposer (getReg s r)
    (setReg s r vs, match p with | some a => Hex.encode a | none => "nil")
  | ["total", r] =>
    let (vs, t) := totalVotingPower (getReg s r)
    (setReg s r vs, toString t)
  | ["reload", r] => let vs := reloadState s.keepsProposer (getReg s r); (setReg s r vs, dump vs)
  | ["wirereload", r] => let vs := reload (getReg s r); (setReg s r vs, dump vs)
  | ["add", r, v] =>
    match parseVal v with
    | some v => let (vs, ok) := add (getReg s r) v; (setReg s r vs, showBool ok ++ " " ++ dump vs)
    | none => (s, "bad-op")
  | ["update", r, v] =>
    match parseVal v with
    | some v => let (vs, ok) := update (getReg s r) v; (setReg s r vs, showBool ok ++ " " ++ dump vs)
    | none => (s, "bad-op")
  | ["remove", r, a] =>
    match Hex.decode a with
    | some a => let (vs, ok) := remove (getReg s r) a; (setReg s r vs, showBool ok ++ " " ++ dump vs)
    | none => (s, "bad-op")
  | _ => (s, "bad-op")

def main : IO Unit := run step {}
