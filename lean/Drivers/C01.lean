import AnnVerif.Model.NodeDriver
open AnnVerif AnnVerif.Drv AnnVerif.NodeDrv

structure Net where
  nodes : List (Nat × DSt) := []
  hdr : String := ""

def getN (s : Net) (i : Nat) : Option DSt := (s.nodes.find? (·.1 == i)).map (·.2)
def setN (s : Net) (i : Nat) (d : DSt) : Net :=
  { s with nodes := s.nodes.map (fun x => if x.1 == i then (i, d) else x) }

def nstep (s : Net) (line : String) : Net × String :=
  let ws := words line
  let g (k : String) : String := (kv ws k).getD ""
  match ws with
  | "cfg" :: _ => (s, "ok")
  | "net" :: _ =>
    let n := (g "n").toNat?.getD 0
    let byz := (g "byz").splitOn "," |>.filterMap String.toNat?
    let nodes := (List.range n).filter (fun i => !byz.contains i) |>.map fun i =>
      let (d, _) := dstep {} s!"init n={n} me={i} powers={g "powers"} addrs={g "addrs"} skip={g "skip"} prefix=n{i}o"
      (i, d)
    ({ nodes := nodes }, "ok")
  | "node" :: i :: rest =>
    match i.toNat? with
    | some i =>
      match getN s i with
      | some d => let (d', out) := dstep d (" ".intercalate rest); (setN s i d', out)
      | none => (s, "bad-node")
    | none => (s, "bad-op")
  | "mk" :: nm :: _ =>
    -- a block made by some validator for height h: every model learns its validity
    let s' := { s with nodes := s.nodes.map fun (i, d) => (i, (dstep d s!"mkblock {nm} h={g "h"} valid={g "valid"}").1) }
    (s', "ok")
  | "own" :: nm :: _ =>
    let ex := (g "except").toNat?.getD 1000
    let s' := { s with nodes := s.nodes.map fun (i, d) =>
      if i == ex then (i, d) else (i, (dstep d s!"mkblock {nm} h={g "h"} valid=1").1) }
    (s', "ok")
  | "go" :: _ => (s, "ok")
  | _ => (s, "bad-op")

def main : IO Unit := run nstep {}
