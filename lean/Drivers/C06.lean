import AnnVerif.Model.DriverUtil
import AnnVerif.Model.Crash
open AnnVerif AnnVerif.Drv AnnVerif.Crash

structure DSt where
  wins : List (Int × List W) := []

/-- label classes -> write classes; the first `ethdb.batch` of a commit flushes the state trie, the
    second the receipts -/
def classify : Nat → List String → List W
  | _, [] => []
  | nBatch, l :: t =>
    let w : W :=
      if l == "godb.set:H" then .bmeta
      else if l == "godb.set:P" then .part
      else if l == "godb.set:C" then .lastCommit
      else if l == "godb.set:SC" || l == "godb.setsync:SC" then .seenCommit
      else if l == "godb.setsync:blockStore" || l == "godb.set:blockStore" then .descriptor
      else if l == "godb.setsync:" then .flush
      else if l == "godb.setsync:stateIntermediateKey" then .interm
      else if l == "godb.setsync:lastblock" || l == "godb.set:lastblock" then .marker
      else if l == "godb.setsync:stateKey" then .stateKey
      else if l == "ethdb.batch:ethdb.batch" then (if nBatch == 0 then .trie else if nBatch == 1 then .receipts else .other)
      else .other
    w :: classify (if l == "ethdb.batch:ethdb.batch" then nBatch + 1 else nBatch) t

/-- K2 on the recorded order: the ordering facts hold at every crash point of every window -/
def allOrdered (wins : List (Int × List W)) : Bool :=
  wins.all fun (_, w) => (List.range (w.length + 2)).all fun j => orderedB (crashDisk w j)

def off (b : Bool) : String := if b then "0" else "-1"

def alookup {α : Type} (l : List (Int × α)) (k : Int) : Option α := (l.find? (·.1 == k)).map (·.2)

def step (s : DSt) (line : String) : DSt × String :=
  let line := (line.splitOn "|").headD ""
  let ws := words line
  let g (k : String) : String := (kv ws k).getD ""
  match ws with
  | "cfg" :: _ => (s, "ok")
  | "plan" :: rest =>
    let wins := rest.filterMap fun w =>
      match w.splitOn "=" with
      | [h, ls] => (parseInt h).map fun h => (h, classify 0 (if ls.isEmpty then [] else ls.splitOn ","))
      | _ => none
    ({ s with wins := wins }, "ok ordered=" ++ showBool (allOrdered wins))
  | "crash" :: _ =>
    match parseInt (g "h"), parseNat (g "j"), parseNat (g "j2") with
    | some h, some j, some j2 =>
      match alookup s.wins h with
      | none => (s, "bad-op")
      | some w =>
        -- `prefix=`: what the dying process had actually written of this commit (its transactions need
        -- not be the reference run's: one application batch more or less)
        let d := if g "prefix" == "" then crashDisk w j
                 else
                   let done := classify 0 (if g "prefix" == "-" then [] else (g "prefix").splitOn ",")
                   crashDisk done (done.length + 1)
        let pre := "pre=" ++ off d.store ++ "," ++ off d.state ++ "," ++ off d.app
        -- a second crash during recovery: the harness reports what was durable then
        let d2 : Disk :=
          if j2 == 0 || g "seen" == "" then d
          else match (g "seen").splitOn "," with
            | [a, b, c] =>
              let st := a == "0"; let sa := b == "0"; let ap := c == "0"
              { bmeta := st, parts := st, lastCommit := st, seenCommit := st, store := st, interm := st,
                trie := ap, app := ap, receipts := sa, state := sa }
            | _ => d
        (s, pre ++ " restart=" ++ (if (startup (h == 1) d2).starts then "ok" else "fail"))
    | _, _, _ => (s, "bad-op")
  | _ => (s, "bad-op")

def main : IO Unit := run step {}
