import AnnVerif.Model.DriverUtil
import AnnVerif.Model.Crash
open AnnVerif AnnVerif.Drv AnnVerif.Crash

structure DSt where
  wins : List (Int × List W) := []

/-- label classes -> write classes; an `ethdb.batch` before the application marker flushes the trie,
    after it the receipts -/
def classify : Bool → List String → List W
  | _, [] => []
  | seenMarker, l :: t =>
    let w : W :=
      if l == "godb.set:H" then .bmeta
      else if l == "godb.set:P" then .part
      else if l == "godb.set:C" then .lastCommit
      else if l == "godb.set:SC" || l == "godb.setsync:SC" then .seenCommit
      else if l == "godb.setsync:blockStore" || l == "godb.set:blockStore" then .descriptor
      else if l == "godb.setsync:" then .flush
      else if l == "godb.setsync:stateIntermediateKey" then .interm
      else if l == "godb.setsync:lastblock" || l == "godb.set:lastblock" then .marker
      else if l == "godb.setsync:stateKey" then .stateKey
      else if l == "ethdb.batch:ethdb.batch" then (if seenMarker then .receipts else .trie)
      else .other
    w :: classify (seenMarker || w == .marker) t

def off (b : Bool) : String := if b then "0" else "-1"

def alookup {α : Type} (l : List (Int × α)) (k : Int) : Option α := (l.find? (·.1 == k)).map (·.2)

def step (s : DSt) (line : String) : DSt × String :=
  let line := (line.splitOn "|").headD ""
  let ws := words line
  let g (k : String) : String := (kv ws k).getD ""
  match ws with
  | "cfg" :: _ => (s, "ok")
  | "plan" :: rest =>
    let wins := rest.filterMap fun w =>
      match w.splitOn "=" with
      | [h, ls] => (parseInt h).map fun h => (h, classify false (if ls.isEmpty then [] else ls.splitOn ","))
      | _ => none
    ({ s with wins := wins }, "ok")
  | "crash" :: _ =>
    match parseInt (g "h"), parseNat (g "j"), parseNat (g "j2") with
    | some h, some j, some j2 =>
      match alookup s.wins h with
      | none => (s, "bad-op")
      | some w =>
        let d := crashDisk w j
        let pre := "pre=" ++ off d.store ++ "," ++ off d.state ++ "," ++ off d.app
        -- a second crash during recovery: the harness reports what was durable then
        let d2 : Disk :=
          if j2 == 0 || g "seen" == "" then d
          else match (g "seen").splitOn "," with
            | [a, b, c] =>
              let st := a == "0"; let sa := b == "0"; let ap := c == "0"
              { bmeta := st, parts := st, lastCommit := st, seenCommit := st, store := st, interm := st,
                trie := ap, app := ap, receipts := sa, state := sa }
            | _ => d
        (s, pre ++ " restart=" ++ (if (startup (h == 1) d2).starts then "ok" else "fail"))
    | _, _, _ => (s, "bad-op")
  | _ => (s, "bad-op")

def main : IO Unit := run step {}
