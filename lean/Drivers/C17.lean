import AnnVerif.Model.DriverUtil
import AnnVerif.Model.Merkle
open AnnVerif AnnVerif.Drv AnnVerif.Merkle

/-- the transparent hash the harness injects as `hash.DoHash` -/
def tH : Bytes → Bytes := fun b => 0x68 :: b
def tN : Bytes → Bytes → Bytes := fun l r => tH (wireByteSlice l ++ wireByteSlice r)

structure St where
  cfg : Cfg := repaired
  sender : PartSet := ⟨0, [], [], 0⟩
  recv : PartSet := ⟨0, [], [], 0⟩

def showOpt : Option Bytes → String
  | some b => "ok " ++ Hex.encode b
  | none => "nil"

def bits (ps : PartSet) : String :=
  String.ofList (ps.parts.map fun o => if o.isSome then '1' else '0')

def showAdd : AddOut → String
  | .added => "added" | .dup => "dup" | .errIndex => "errIndex" | .errProof => "errProof"
  | .panic => "panic"

def step (s : St) (line : String) : St × String :=
  match words line with
  | "cfg" :: rest =>
    ({ s with cfg := ⟨kv rest "checkNeg" != some "0"⟩ }, "ok")
  | "root" :: hs =>
    match hexList hs with
    | some l => (s, showOpt (root tN l))
    | none => (s, "bad-op")
  | "proof" :: i :: hs =>
    match parseNat i, hexList hs with
    | some i, some l => (s, " ".intercalate ("ok" :: (aunts tN l i).map Hex.encode))
    | _, _ => (s, "bad-op")
  | "verify" :: idx :: total :: leaf :: rt :: as =>
    match parseInt idx, parseInt total, Hex.decode leaf, Hex.decode rt, hexList as with
    | some idx, some total, some leaf, some rt, some as =>
      match verify tN s.cfg idx total leaf as rt with
      | .ok b => (s, "ok " ++ showBool b)
      | .err e => (s, "err " ++ e)
      | .panic _ => (s, "panic")
    | _, _, _, _, _ => (s, "bad-op")
  | ["psdata", sz, data] =>
    match parseNat sz, Hex.decode data with
    | some sz, some d =>
      if sz == 0 then (s, "bad-op") else
      let ps := fromData tH tN d sz
      ({ s with sender := ps }, s!"total={ps.total} hash={Hex.encode ps.hash}")
    | _, _ => (s, "bad-op")
  | ["part", i] =>
    match parseNat i with
    | some i =>
      match s.sender.parts[i]? with
      | some (some p) =>
        (s, " ".intercalate (["ok", toString p.index, Hex.encode p.bytes] ++ p.aunts.map Hex.encode))
      | _ => (s, "none")
    | none => (s, "bad-op")
  | ["pshdr", total, h] =>
    match parseNat total, Hex.decode h with
    | some t, some h => ({ s with recv := fromHeader t h }, "ok")
    | _, _ => (s, "bad-op")
  | "add" :: v :: idx :: bytes :: as =>
    match parseInt idx, Hex.decode bytes, hexList as with
    | some idx, some b, some as =>
      let (ps, o) := addPart tH tN s.cfg s.recv ⟨idx, b, as⟩ (v == "1")
      if o == .panic then (s, "panic") else
      ({ s with recv := ps }, s!"{showAdd o} count={ps.count} bits={bits ps}")
    | _, _, _ => (s, "bad-op")
  | ["read"] =>
    if isComplete s.recv then (s, "ok " ++ Hex.encode (assemble s.recv)) else (s, "incomplete")
  | _ => (s, "bad-op")

def main : IO Unit := run step {}
