import AnnVerif.Model.DriverUtil
import AnnVerif.Model.Admission
open AnnVerif AnnVerif.Drv AnnVerif.Admission

structure D where
  cfg : Cfg := {}
  node : Node := ⟨0, [], false, false, [], []⟩

def parseNats (s : String) : List Nat := (s.splitOn ",").filterMap String.toNat?

def parseVals (s : String) : List Validator :=
  (s.splitOn ",").filterMap fun e =>
    match e.splitOn ":" with
    | [k, ca] => (k.toNat?).map fun k => ⟨k % 8, ca == "1"⟩
    | _ => none

def showV : Verdict → String
  | .admitted => "admitted" | .onRefuseList => "onRefuseList" | .noAuthority => "noAuthority"
  | .identityMismatch => "identityMismatch" | .isSelf => "isSelf"

def step (d : D) (line : String) : D × String :=
  let ws := words line
  let g (k : String) : String := (kv ws k).getD ""
  match ws with
  | "cfg" :: _ => ({ d with cfg := ⟨g "currentValidators" != "0"⟩ }, "ok")
  | "node" :: _ =>
    ({ d with node := ⟨(g "self").toNat?.getD 0 % 8, (parseNats (g "refuse")).map (· % 8), g "authca" == "1", g "nvauth" == "1",
        parseVals (g "startvals"), parseVals (g "nowvals")⟩ }, "ok")
  | "peer" :: _ =>
    match (g "conn").toNat?, (g "announced").toNat? with
    | some c, some a => (d, showV (admission d.cfg d.node ⟨c % 8, a % 8, parseNats (g "signedby")⟩))
    | _, _ => (d, "bad-op")
  | _ => (d, "bad-op")

def main : IO Unit := run step {}
