import AnnVerif.Model.DriverUtil
import AnnVerif.Model.VoteSet
open AnnVerif AnnVerif.Drv AnnVerif.VoteSet

structure St where
  cfg : Cfg := repaired
  vs : VoteSet := new 1 0 1 []
  sigoks : List (Nat × Nat × Bool) := []   -- (position, sig id) ↦ verifies under validator at position

def showBid (b : BlockID) : String := s!"{Hex.encode b.hash}/{b.total}/{Hex.encode b.phash}"

def bitsOf (l : List (Option Vote)) : String :=
  String.ofList (l.map fun o => if o.isSome then '1' else '0')

def digest (vs : VoteSet) : String :=
  let m := match vs.maj23 with | some b => showBid b | none => "-"
  s!"maj={m} sum={vs.sum} any={showBool (hasTwoThirdsAny vs)} all={showBool (hasAll vs)} bits={bitsOf vs.votes}"

def showOut : Out → String
  | .added => "added" | .dup => "dup" | .errStep => "errStep" | .errIndex => "errIndex"
  | .errAddr => "errAddr" | .errSig => "errSig" | .conflict true => "conflict1"
  | .conflict false => "conflict0" | .panic => "panic"

def showV : VErr → String
  | .ok => "ok" | .size => "size" | .height => "height" | .pheight => "height" | .pround => "pround"
  | .ptype => "ptype" | .sig => "sig" | .slot => "slot" | .power => "power" | .panic => "panic"

def parseVal (w : String) : Option Validator :=
  match w.splitOn ":" with
  | [a, p] => do pure ⟨← Hex.decode a, ← parseInt p⟩
  | _ => none

def parseBid (h t p : String) : Option BlockID := do
  pure ⟨← Hex.decode h, ← parseInt t, ← Hex.decode p⟩

/-- slot of an explicit commit: `-` or `idx,addr,h,r,t,bh,bt,bp,signspec,sig,sigok` -/
def parseSlot (w : String) : Option (Option (Vote × Bool)) :=
  if w == "-" then some none else
  match w.splitOn "," with
  | [i, a, h, r, t, bh, bt, bp, _spec, sg, ok] => do
    let v : Vote := ⟨← parseInt i, ← Hex.decode a, ← parseInt h, ← parseInt r, ← parseNat t,
      ← parseBid bh bt bp, ← parseNat sg⟩
    pure (some (v, ok == "1"))
  | _ => none

def step (s : St) (line : String) : St × String :=
  match words line with
  | "cfg" :: rest =>
    ({ s with cfg := ⟨kv rest "keyLenPrefixed" != some "0", kv rest "idxCheck" != some "0",
      kv rest "nilCommit" != some "0", kv rest "slotCheck" != some "0"⟩ }, "ok")
  | "new" :: h :: r :: t :: vals =>
    match parseInt h, parseInt r, parseNat t, vals.mapM parseVal with
    | some h, some r, some t, some vals => ({ s with vs := new h r t vals, sigoks := [] }, "ok")
    | _, _, _, _ => (s, "bad-op")
  | ["vote", i, a, h, r, t, bh, bt, bp, _spec, sg, ok] =>
    match parseInt i, Hex.decode a, parseInt h, parseInt r, parseNat t, parseBid bh bt bp, parseNat sg with
    | some i, some a, some h, some r, some t, some b, some sg =>
      let v : Vote := ⟨i, a, h, r, t, b, sg⟩
      let (vs, o) := addVote s.cfg s.vs v (ok == "1")
      if o == .panic then (s, "panic") else
      ({ s with vs := vs, sigoks := (if i ≥ 0 then [(i.toNat, sg, ok == "1")] else []) ++ s.sigoks }, showOut o ++ " " ++ digest vs)
    | _, _, _, _, _, _, _ => (s, "bad-op")
  | ["peer", p, bh, bt, bp] =>
    match parseBid bh bt bp with
    | some b => let vs := setPeerMaj23 s.cfg s.vs p b; ({ s with vs := vs }, "ok " ++ digest vs)
    | none => (s, "bad-op")
  | ["commit"] =>
    match makeCommit s.vs with
    | none => (s, "nomaj")
    | some c =>
      let sigok := fun (i : Nat) (v : Vote) =>
        s.sigoks.any (fun e => e.1 == i && e.2.1 == v.sig && e.2.2)
      (s, showV (verifyCommit s.cfg sigok s.vs.vals c.bid s.vs.height c))
  | "verifyc" :: bh :: bt :: bp :: h :: slots =>
    match parseBid bh bt bp, parseInt h, slots.mapM parseSlot with
    | some b, some h, some sl =>
      let pre := sl.map (fun o => o.map (·.1))
      let sigok := fun (i : Nat) (_ : Vote) => match sl[i]? with | some (some (_, ok)) => ok | _ => false
      (s, showV (verifyCommit s.cfg sigok s.vs.vals b h ⟨b, pre⟩))
    | _, _, _ => (s, "bad-op")
  | _ => (s, "bad-op")

def main : IO Unit := run step {}
