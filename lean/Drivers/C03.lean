import AnnVerif.Model.DriverUtil
import AnnVerif.Model.Signer
open AnnVerif AnnVerif.Drv AnnVerif.Signer

structure DSt where
  cfg : Cfg := repaired
  st : St := init

def wm (m : Rec) : String := s!"{m.h}/{m.r}/{m.s}"
def showSt (s : St) : String := s!"mem={wm s.mem} disk={wm s.disk}"

def parseWrite : String → Write
  | "fail" => .fail | "crashBefore" => .crashBefore | "crashAfter" => .crashAfter | _ => .ok

def dstep (d : DSt) (line : String) : DSt × String :=
  match words line with
  | "cfg" :: rest => ({ d with cfg := ⟨kv rest "checkSaveErr" != some "0"⟩ }, "ok")
  | ["new"] => ({ d with st := init }, "ok " ++ showSt init)
  | ["restart"] => let s := restart d.st; ({ d with st := s }, "ok " ++ showSt s)
  | ["sign", h, r, s, b, w] =>
    match parseInt h, parseInt r, parseInt s, Hex.decode b with
    | some h, some r, some s, some b =>
      let (st', o) := sign d.cfg d.st h r s b (parseWrite w)
      let tag := match o with | .released .. => "released" | .error => "error" | .died => "died"
      ({ d with st := st' }, tag ++ " " ++ showSt st')
    | _, _, _, _ => (d, "bad-op")
  | _ => (d, "bad-op")

def main : IO Unit := run dstep {}
