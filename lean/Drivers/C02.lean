import AnnVerif.Model.DriverUtil
import AnnVerif.Model.Block
open AnnVerif AnnVerif.Drv AnnVerif.VoteSet AnnVerif.Block

structure St where
  cfg : Block.Cfg := Block.repaired
  st : State := ⟨"", 0, ⟨[], 0, []⟩, [], [], [], [], []⟩

def parseVal (w : String) : Option Validator :=
  match w.splitOn ":" with
  | [a, p] => do pure ⟨← Hex.decode a, ← parseInt p⟩
  | _ => none

def parseVals (s : String) : Option (List Validator) :=
  if s.isEmpty then some [] else (s.splitOn ",").mapM parseVal

def parseBid (s : String) : Option BlockID :=
  match s.splitOn "," with
  | [h, t, p] => do pure ⟨← Hex.decode h, ← parseInt t, ← Hex.decode p⟩
  | _ => none

/-- slot: `-` or `idx,addr,h,r,t,bh,bt,bp,spec,sig,sigok` -/
def parseSlot (w : String) : Option (Option (Vote × Bool)) :=
  if w == "-" then some none else
  match w.splitOn "," with
  | [i, a, h, r, t, bh, bt, bp, _spec, sg, ok] => do
    let v : Vote := ⟨← parseInt i, ← Hex.decode a, ← parseInt h, ← parseInt r, ← parseNat t,
      ⟨← Hex.decode bh, ← parseInt bt, ← Hex.decode bp⟩, ← parseNat sg⟩
    pure (some (v, ok == "1"))
  | _ => none

def showB : BErr → String
  | .ok => "ok" | .chainID => "chainID" | .height => "height" | .numTxs => "numTxs"
  | .lastBlockID => "lastBlockID" | .dataHash => "dataHash" | .appHash => "appHash"
  | .receiptsHash => "receiptsHash" | .lastCommitHash => "lastCommitHash"
  | .commitNilBlock => "commitNilBlock" | .commitEmpty => "commitEmpty" | .commitType => "commitType"
  | .commitHeight => "commitHeight" | .commitRound => "commitRound" | .proposer => "proposer"
  | .valHash => "valHash" | .firstBlockCommit => "firstBlockCommit" | .commitSize => "commitSize"
  | .panic => "panic"
  | .verify e => "verify." ++ (match e with
      | .ok => "ok" | .size => "size" | .height => "height" | .pheight => "height" | .pround => "pround"
      | .ptype => "ptype" | .sig => "sig" | .slot => "slot" | .power => "power" | .panic => "panic")

def step (s : St) (line : String) : St × String :=
  let line := (line.splitOn "|").headD ""
  let ws := words line
  let g (k : String) : String := (kv ws k).getD ""
  match ws with
  | "cfg" :: _ =>
    ({ s with cfg := ⟨g "checkValHash" != "0", ⟨true, true, g "nilCommit" != "0", g "slotCheck" != "0"⟩⟩ }, "ok")
  | "state" :: _ =>
    match parseInt (g "lbh"), parseBid (g "lbid"), Hex.decode (g "app"), Hex.decode (g "rec"), Hex.decode (g "vh"),
          parseVals (g "vals"), parseVals (g "lastvals") with
    | some lbh, some lbid, some app, some rec, some vh, some vals, some lvals =>
      ({ s with st := ⟨g "chain", lbh, lbid, app, rec, vals, lvals, vh⟩ }, "ok")
    | _, _, _, _, _, _, _ => (s, "bad-op")
  | "validate" :: _ =>
    let slotWords := (ws.dropWhile (· != "slots")).drop 1
    match parseInt (g "h"), parseInt (g "numtxs"), parseInt (g "ntx"), parseBid (g "lbid"), parseBid (g "cbid"),
          slotWords.mapM parseSlot with
    | some h, some numtxs, some ntx, some lbid, some cbid, some sl =>
      match Hex.decode (g "dh"), Hex.decode (g "dd"), Hex.decode (g "app"), Hex.decode (g "rec"), Hex.decode (g "lch"),
            Hex.decode (g "lcd"), Hex.decode (g "vh"), Hex.decode (g "prop") with
      | some dh, some dd, some app, some rec, some lch, some lcd, some vh, some prop =>
        let hdr : Header := ⟨g "chain", h, numtxs, lbid, dh, lch, vh, app, rec, prop⟩
        let b : Block := ⟨hdr, ntx, dd, lcd, ⟨cbid, sl.map (fun o => o.map (·.1))⟩⟩
        let sigok := fun (i : Nat) (_ : Vote) => match sl[i]? with | some (some (_, ok)) => ok | _ => false
        (s, showB (validateBlock s.cfg sigok s.st b))
      | _, _, _, _, _, _, _, _ => (s, "bad-op")
    | _, _, _, _, _, _ => (s, "bad-op")
  | _ => (s, "bad-op")

def main : IO Unit := run step {}
