import AnnVerif.Model.DriverUtil
import AnnVerif.Model.Transport
open AnnVerif AnnVerif.Drv AnnVerif.Transport

structure D where
  cfg : Cfg := {}
  s : Sender := {}
  r : Receiver := {}
  wire : List Sealed := []
  off : Nat := 0

/-- the fixed pseudo-random stream of the harness -/
def streamByte (i : Nat) : UInt8 := ((i.toUInt32 * 2654435761) >>> 13).toUInt8
def stream (off n : Nat) : Bytes := (List.range n).map fun i => streamByte (off + i)

def setAt {α} (l : List α) (i : Nat) (x : α) : List α := l.take i ++ [x] ++ l.drop (i + 1)

def step (d : D) (line : String) : D × String :=
  match words line with
  | "cfg" :: rest => ({ d with cfg := ⟨kv rest "readReportsBuffered" != some "0"⟩ }, "ok")
  | ["new"] => ({ d with s := {}, r := {}, wire := [], off := 0 }, "ok")
  | "mconn" :: _ => (d, "ok")
  | ["write", n] =>
    match n.toNat? with
    | some n =>
      let (s', fs) := write d.s (stream d.off n)
      ({ d with s := s', wire := d.wire ++ fs, off := d.off + n }, s!"frames={fs.length}")
    | none => (d, "bad-op")
  | ["read", k] =>
    match k.toNat? with
    | some k =>
      let (r', w', res) := scRead d.cfg d.r d.wire k
      ({ d with r := r', wire := w' }, match res with
        | .data n out => s!"data n={n} {Hex.encode out}"
        | .decryptError => "error"
        | .eof => "eof")
    | none => (d, "bad-op")
  | ["mitm", "replay", i, j] =>
    match i.toNat?, j.toNat? with
    | some i, some j =>
      (match d.wire[i]?, d.wire[j]? with
       | some f, some _ => ({ d with wire := setAt d.wire j f }, "ok")
       | _, _ => (d, "no-such-frame"))
    | _, _ => (d, "bad-op")
  | ["mitm", kind, i] =>
    match i.toNat? with
    | some i =>
      match d.wire[i]? with
      | none => (d, "no-such-frame")
      | some f =>
        match kind with
        | "flip" => ({ d with wire := setAt d.wire i { f with intact := false } }, "ok")
        | "drop" => ({ d with wire := d.wire.take i ++ d.wire.drop (i + 1) }, "ok")
        | "dup" => ({ d with wire := d.wire.take (i + 1) ++ [f] ++ d.wire.drop (i + 1) }, "ok")
        | "swap" =>
          (match d.wire[i + 1]? with
           | none => (d, "no-such-frame")
           | some g => ({ d with wire := d.wire.take i ++ [g, f] ++ d.wire.drop (i + 2) }, "ok"))
        | "trunc" => ({ d with wire := d.wire.take i ++ [{ f with truncated := true }] }, "ok")
        | _ => (d, "bad-op")
    | none => (d, "bad-op")
  | _ => (d, "bad-op")

def main : IO Unit := run step {}
