import AnnVerif.Model.DriverUtil
import AnnVerif.Model.Trie
import AnnVerif.Model.TrieProof
import AnnVerif.Model.Keccak
import AnnVerif.Model.StateJournal
open AnnVerif AnnVerif.Drv

structure D where
  t : Trie.Node := .empty
  reopened : Bool := false   -- the trie was reopened from the node database: reads go through it
  db : StateJournal.DB := {}
  persisted : StateJournal.Accounts := fun _ => none
  dead : Bool := false

def hexOpt (o : Option Bytes) : String := match o with | some v => Hex.encode v | none => "-"

def showAcct (a : Nat) (x : StateJournal.Acct) : String :=
  let st := ((List.range 8).map fun k => (k, x.storage k)).filter (·.2 != 0)
  s!"{a}:n={x.nonce},b={x.balance},c={Hex.encode x.code},s={x.suicided},st=" ++ "/".intercalate (st.map fun (k, v) => s!"{k}={v}")

def dump (db : StateJournal.DB) : String :=
  " ".intercalate ((List.range 8).filterMap fun a => (db.accts a).map (showAcct a))

def step (d : D) (line : String) : D × String :=
  match words line with
  | ["cfg"] => (d, "ok")
  | ["new"] => ({ d with t := .empty, reopened := false }, Hex.encode (Trie.rootHash Keccak.keccak256 .empty))
  | ["put", k, v] =>
    match Hex.decode k, Hex.decode (if v == "-" then "" else v) with
    | some k, some v =>
      let t' := Trie.update d.t k v
      ({ d with t := t', reopened := false }, Hex.encode (Trie.rootHash Keccak.keccak256 t'))
    | _, _ => (d, "bad-op")
  | ["get", k] =>
    match Hex.decode k with
    | some k =>
      if d.reopened then
        -- read from what the commit wrote (Lemmas/TrieReopen.lean): fetch by hash, decode, walk
        let hk := Trie.keybytesToHex k
        match d.t with
        | .empty => (d, "-")
        | _ =>
          (d, match Trie.verify Keccak.keccak256 (Trie.commitNodes Keccak.keccak256 d.t) (hk.length + 1)
                (Trie.rootHash Keccak.keccak256 d.t) hk with
            | some o => hexOpt o
            | none => "missing-node")
      else (d, hexOpt (Trie.lookup d.t k))
    | none => (d, "bad-op")
  | ["commit"] => (d, Hex.encode (Trie.rootHash Keccak.keccak256 d.t))
  | ["reopen"] => ({ d with reopened := true }, Hex.encode (Trie.rootHash Keccak.keccak256 d.t))
  | ["prove", k] =>
    match Hex.decode k with
    | some k =>
      -- the model's prover and verifier (Model/TrieProof.lean), with Keccak-256
      let hk := Trie.keybytesToHex k
      let proof := Trie.prove Keccak.keccak256 d.t hk
      let nodes := (proof.map fun e => Hex.encode (Keccak.keccak256 e)).toArray.qsort (· < ·) |>.toList
      let ns := " nodes=" ++ ",".intercalate nodes
      (d, match Trie.verify Keccak.keccak256 proof (hk.length + 1) (Trie.rootHash Keccak.keccak256 d.t) hk with
        | none => "proof=bad" ++ ns    -- also the empty trie: VerifyProof has no node to start from
        | some none => "proof=ok val=-" ++ ns
        | some (some v) => "proof=ok val=" ++ Hex.encode v ++ ns)
    | none => (d, "bad-op")
  -- the journalled state database
  | ["sdb", "new"] => ({ d with db := {}, persisted := fun _ => none, dead := false }, "ok")
  | ["sdb", "nonce", a, n] => (match a.toNat?, n.toNat? with
      | some a, some n => ({ d with db := StateJournal.setNonce d.db a n }, "ok") | _, _ => (d, "bad-op"))
  | ["sdb", "balance", a, n] => (match a.toNat?, n.toNat? with
      | some a, some n => ({ d with db := StateJournal.setBalance d.db a n }, "ok") | _, _ => (d, "bad-op"))
  | ["sdb", "code", a, c] => (match a.toNat?, Hex.decode (if c == "-" then "" else c) with
      | some a, some c => ({ d with db := StateJournal.setCode d.db a c }, "ok") | _, _ => (d, "bad-op"))
  | ["sdb", "state", a, k, v] => (match a.toNat?, k.toNat?, v.toNat? with
      | some a, some k, some v => ({ d with db := StateJournal.setState d.db a k v }, "ok") | _, _, _ => (d, "bad-op"))
  | ["sdb", "create", a] => (match a.toNat? with
      | some a => ({ d with db := StateJournal.createAccount d.db a }, "ok") | none => (d, "bad-op"))
  | ["sdb", "suicide", a] => (match a.toNat? with
      | some a => ({ d with db := StateJournal.suicide d.db a }, "ok") | none => (d, "bad-op"))
  | ["sdb", "snapshot"] => let (db', id) := StateJournal.snapshot d.db; ({ d with db := db' }, s!"snap={id}")
  | ["sdb", "revert", id] => (match id.toNat? with
      | some id => (match StateJournal.revert d.db id with
          | some db' => ({ d with db := db' }, "ok")
          | none => (d, "PANIC"))
      | none => (d, "bad-op"))
  | ["sdb", "dump"] => (d, "dump " ++ dump d.db)
  | ["sdb", "root"] => ({ d with db := StateJournal.finalise d.db }, "ok")
  | ["sdb", "peek", _] => (d, "ok")      -- reads load the object, they change nothing
  | ["sdb", "root1"] => ({ d with db := StateJournal.finaliseDel d.db }, "ok")
  | ["sdb", "commit1"] =>
    let db' := StateJournal.commitDel d.db d.persisted
    ({ d with db := db', persisted := db'.accts }, "ok")
  | ["sdb", "commit"] =>
    let db' := StateJournal.commit d.db d.persisted
    ({ d with db := db', persisted := db'.accts }, "ok")
  | _ => (d, "bad-op")

def main : IO Unit := run step {}
