import AnnVerif.Model.DriverUtil
import AnnVerif.Model.Sync
import AnnVerif.Model.Handoff
open AnnVerif AnnVerif.Drv AnnVerif.VoteSet AnnVerif.Block AnnVerif.Sync

structure DSt where
  cfg : Sync.Cfg := Sync.repaired
  st : Sync.St := ⟨⟨"", 0, ⟨[], 0, []⟩, [], [], [], [], []⟩, ⟨1, fun _ => none⟩, []⟩
  changes : List (Int × Nat × Int) := []
  vhs : List (Int × Bytes) := []
  src : List (Int × BlockID) := []
  sigs : List (Nat × Vote × Bool) := []
  peeked : Option (Option Served × Option Served) := none
  dead : Bool := true
  handoff : Handoff.Cfg := Handoff.repaired

def parseVal (w : String) : Option Validator :=
  match w.splitOn ":" with
  | [a, p] => do pure ⟨← Hex.decode a, ← parseInt p⟩
  | _ => none

def parseVals (s : String) : Option (List Validator) :=
  if s.isEmpty then some [] else (s.splitOn ",").mapM parseVal

def parseBid (s : String) : Option BlockID :=
  match s.splitOn "," with
  | [h, t, p] => do pure ⟨← Hex.decode h, ← parseInt t, ← Hex.decode p⟩
  | _ => none

def semis (s : String) : List String := if s.isEmpty then [] else s.splitOn ";"

/-- slot: `-` or `idx,addr,h,r,t,bh,bt,bp,sigid,okSlot,okIdx` -/
def parseSlot (w : String) : Option (Option (Vote × Bool × Bool)) :=
  if w == "-" then some none else
  match w.splitOn "," with
  | [i, a, h, r, t, bh, bt, bp, sg, ok1, ok2] => do
    let v : Vote := ⟨← parseInt i, ← Hex.decode a, ← parseInt h, ← parseInt r, ← parseNat t,
      ⟨← Hex.decode bh, ← parseInt bt, ← Hex.decode bp⟩, ← parseNat sg⟩
    pure (some (v, ok1 == "1", ok2 == "1"))
  | _ => none

def showV : VErr → String
  | .ok => "ok" | .size => "size" | .height => "height" | .pheight => "height" | .pround => "pround"
  | .ptype => "ptype" | .sig => "sig" | .slot => "slot" | .power => "power" | .panic => "panic"

def hex8 (b : Bytes) : String := Hex.encode (b.take 4)

def lookupSig (t : List (Nat × Vote × Bool)) (i : Nat) (v : Vote) : Bool :=
  match t.find? (fun e => e.1 == i && e.2.1 == v) with
  | some e => e.2.2
  | none => false

def alookup {α : Type} (l : List (Int × α)) (k : Int) : Option α :=
  (l.find? (·.1 == k)).map (·.2)

def step (s : DSt) (line : String) : DSt × String :=
  let line := (line.splitOn "|").headD ""
  let ws := words line
  let g (k : String) : String := (kv ws k).getD ""
  let ch : Changes := fun h => alookup s.changes h
  let vhOf : Int → Bytes := fun h => (alookup s.vhs h).getD []
  let sigok := lookupSig s.sigs
  match ws with
  | "cfg" :: _ =>
    ({ s with cfg := ⟨⟨g "checkValHash" != "0", ⟨true, true, g "nilCommit" != "0", g "slotCheck" != "0"⟩⟩,
                      g "redoTolerant" != "0", g "dropsIncomplete" != "0"⟩,
              handoff := ⟨g "handoffNonBlocking" != "0"⟩ }, "ok")
  | "chain" :: "nodrain=1" :: _ => ({ s with dead := true }, "ok")
  | "handoff" :: _ =>
    -- the response arrives, its goroutine takes the pool lock, the reactor's next tick wants it too
    match Handoff.runActs s.handoff Handoff.early [.vArrive, .vLock, .sTick] with
    | some st =>
      (match Handoff.runActs s.handoff st [.vHandoff, .sLock] with
       | some _ => (s, "returned sync=returned")
       | none => (s, "blocked sync=blocked"))
    | none => (s, "bad-op")
  | "realsync" :: _ => (s, "caught=1 keeps=1 same=1")
  | "live-sync" :: _ => (s, "caught=1 forged=0")
  | "live-end" :: _ => (s, "ok")
  | "receive-panic" :: _ => (s, "no-panic")
  | "chain" :: "live=1" :: _ => ({ s with dead := true }, "ok")
  | "chain" :: _ =>
    let chs := (semis (g "changes")).mapM fun w =>
      match w.splitOn ":" with
      | [h, p, pw] => do pure ((← parseInt h), (← parseNat p), (← parseInt pw))
      | _ => none
    let vhs := (semis (g "vhs")).mapM fun w =>
      match w.splitOn ":" with
      | [h, x] => do pure ((← parseInt h), (← Hex.decode x))
      | _ => none
    let src := (semis (g "src")).mapM fun w =>
      match w.splitOn ":" with
      | [h, x] => do pure ((← parseInt h), (← parseBid x))
      | _ => none
    match parseVals (g "vals"), chs, vhs, src with
    | some vals, some chs, some vhs, some src =>
      let cs : Block.State := ⟨g "chain", 0, ⟨[], 0, []⟩, [], [], vals, [], (alookup vhs 1).getD []⟩
      ({ s with st := ⟨cs, ⟨1, fun _ => none⟩, []⟩, changes := chs, vhs := vhs, src := src, sigs := [],
                peeked := none, dead := false }, "ok")
    | _, _, _, _ => (s, "bad-op")
  | "serve" :: _ =>
    if s.dead then (s, "bad-op") else
    let slotWords := (ws.dropWhile (· != "slots")).drop 1
    match parseBid (g "id"), parseInt (g "h"), parseInt (g "numtxs"), parseInt (g "ntx"), parseBid (g "lbid"),
          parseBid (g "cbid"), slotWords.mapM parseSlot with
    | some id, some h, some numtxs, some ntx, some lbid, some cbid, some sl =>
      match Hex.decode (g "dh"), Hex.decode (g "dd"), Hex.decode (g "app"), Hex.decode (g "rec"), Hex.decode (g "lch"),
            Hex.decode (g "lcd"), Hex.decode (g "vh"), Hex.decode (g "prop") with
      | some dh, some dd, some app, some rec, some lch, some lcd, some vh, some prop =>
        let hdr : Header := ⟨g "bchain", h, numtxs, lbid, dh, lch, vh, app, rec, prop⟩
        let b : Block := ⟨hdr, ntx, dd, lcd, ⟨cbid, sl.map (fun o => o.map (·.1))⟩⟩
        let sv : Served := ⟨g "peer", id, b, g "hc" == "1", g "hd" == "1"⟩
        -- the signature oracle: under the key of the slot, and under the key of the index the vote names
        let add := (sl.zipIdx.filterMap fun (o, j) => o.map fun (v, ok1, ok2) =>
          [(j, v, ok1), (v.idx.toNat, v, ok2)]).flatten
        let add := add.filter fun e => (s.sigs.find? (fun x => x.1 == e.1 && x.2.1 == e.2.1)).isNone
        let (p, ok) := serve s.cfg s.st.pool (if g "assigned" == "-" then "" else g "assigned") sv
        ({ s with st := { s.st with pool := p }, sigs := s.sigs ++ add }, if ok then "ok" else "ignored")
      | _, _, _, _, _, _, _, _ => (s, "bad-op")
    | _, _, _, _, _, _, _ => (s, "bad-op")
  | "remove" :: _ =>
    if s.dead then (s, "bad-op") else
    ({ s with st := { s.st with pool := removePeer s.st.pool (g "peer") } }, "ok")
  | "peek" :: _ =>
    if s.dead then (s, "bad-op") else
    ({ s with peeked := some (peek s.st.pool) }, "h=" ++ toString s.st.pool.height)
  | "complete" :: _ =>
    if s.dead then (s, "bad-op") else
    match s.peeked with
    | some (some first, some second) =>
      let (st', o) := complete s.cfg ch vhOf sigok s.st first second
      let out := match o with
        | .wait => "wait"
        | .redo e => "redo:" ++ showV e
        | .applied => "applied:" ++ toString first.blk.hdr.height ++ ":" ++
            (if alookup s.src first.blk.hdr.height == some first.id then "src" else "other")
        | .execFail _ => "execfail"
        | .panic => "panic"
      let dead := match o with | .execFail _ => true | .panic => true | _ => false
      ({ s with st := st', peeked := none, dead := dead }, out)
    | some _ => ({ s with peeked := none }, "wait")
    | none => (s, "bad-op")
  | "finish" :: _ =>
    if s.dead then (s, "bad-op") else
    if canLeave s.cfg sigok s.st then
      let same := s.st.applied.zipIdx.all fun ((f, _), i) => alookup s.src ((i : Int) + 1) == some f.id
      (s, "ok h=" ++ toString s.st.cs.lastBlockHeight ++ " same=" ++ showBool same)
    else ({ s with dead := true }, "panic")
  | "continue" :: _ =>
    if s.dead then (s, "bad-op") else (s, "ok h=" ++ g "h" ++ " same=1")
  | _ => (s, "bad-op")

def main : IO Unit := run step {}
