import AnnVerif.Model.DriverUtil
import AnnVerif.Model.Word
open AnnVerif AnnVerif.Drv AnnVerif.Word

def natOfHex (s : String) : Option Nat :=
  s.toList.foldlM (fun acc c =>
    if c.isDigit then some (acc * 16 + (c.toNat - '0'.toNat))
    else if 'a' ≤ c ∧ c ≤ 'f' then some (acc * 16 + (c.toNat - 'a'.toNat + 10))
    else if 'A' ≤ c ∧ c ≤ 'F' then some (acc * 16 + (c.toNat - 'A'.toNat + 10))
    else none) 0

def hexDigit (n : Nat) : Char := if n < 10 then Char.ofNat (48 + n) else Char.ofNat (87 + n)

/-- 64 hex digits -/
def hex256 (v : Nat) : String :=
  String.ofList ((List.range 64).map fun i => hexDigit (v / 16 ^ (63 - i) % 16))

def parseTok (w : String) : Option Tok :=
  if w.startsWith "p:" then (natOfHex (w.drop 2).toString).map Tok.push
  else if w.startsWith "DUP" then ((w.drop 3).toString.toNat?).map Tok.dup
  else if w.startsWith "SWAP" then ((w.drop 4).toString.toNat?).map Tok.swap
  else match w with
  | "ADD" => some (.bin add) | "MUL" => some (.bin mul) | "SUB" => some (.bin sub) | "DIV" => some (.bin div)
  | "SDIV" => some (.bin sdiv) | "MOD" => some (.bin mod) | "SMOD" => some (.bin smod) | "EXP" => some (.bin exp)
  | "SIGNEXTEND" => some (.bin signextend) | "LT" => some (.bin lt) | "GT" => some (.bin gt)
  | "SLT" => some (.bin slt) | "SGT" => some (.bin sgt) | "EQ" => some (.bin eq) | "AND" => some (.bin and_)
  | "OR" => some (.bin or_) | "XOR" => some (.bin xor_) | "BYTE" => some (.bin byte) | "SHL" => some (.bin shl)
  | "SHR" => some (.bin shr) | "SAR" => some (.bin sar) | "ADDMOD" => some (.tern addmod)
  | "MULMOD" => some (.tern mulmod) | "ISZERO" => some (.un iszero) | "NOT" => some (.un not_) | "POP" => some .pop
  | _ => none

def step (s : Unit) (line : String) : Unit × String :=
  let line := (line.splitOn "|").headD ""
  match words line with
  | "cfg" :: _ => (s, "ok")
  | "scenario" :: _ => (s, "same")
  | "precompile" :: _ => (s, "same")
  | ["arith", prog] =>
    match (prog.splitOn ",").mapM parseTok with
    | some toks =>
      (match runToks toks [] with
       | some (v :: _) => (s, hex256 v)
       | _ => (s, "error"))
    | none => (s, "bad-op")
  | _ => (s, "bad-op")

def main : IO Unit := run step ()
