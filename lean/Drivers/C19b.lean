import AnnVerif.Model.DriverUtil
import AnnVerif.Model.Fifo
open AnnVerif AnnVerif.Drv AnnVerif.Fifo

structure D where
  cfg : Cfg := {}
  m : Mem := {}

def showTxs (m : Mem) : String := "txs=" ++ ",".intercalate (m.txs.map toString)
def parseIds (s : String) : List Nat := (s.splitOn ",").filterMap String.toNat?

def step (d : D) (line : String) : D × String :=
  match words line with
  | "cfg" :: rest => ({ d with cfg := ⟨kv rest "cacheKeepsCommitted" != some "0"⟩ }, "ok")
  | ["new"] => ({ d with m := {} }, "ok " ++ showTxs {})
  | ["quiet"] => (d, "ok")
  | ["recv", t] =>
    match t.toNat? with
    | some t => let (m', ok) := receive d.m t; ({ d with m := m' }, (if ok then "ok " else "dup ") ++ showTxs m')
    | none => (d, "bad-op")
  | ["reap", k] =>
    let mx : Option Nat := if k.startsWith "-" then none else k.toNat?
    (d, "reap=" ++ ",".intercalate ((reap d.m mx).map toString))
  | "update" :: rest =>
    let m' := update d.cfg d.m (parseIds (rest.headD ""))
    ({ d with m := m' }, "ok " ++ showTxs m')
  | ["flush"] => ({ d with m := {} }, "ok " ++ showTxs {})
  | _ => (d, "bad-op")

def main : IO Unit := run step {}
