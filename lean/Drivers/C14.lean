import AnnVerif.Model.DriverUtil
import AnnVerif.Model.Admin
open AnnVerif AnnVerif.Drv AnnVerif.ValSet AnnVerif.Admin

structure St where
  cfg : Admin.Cfg := Admin.repaired
  cur : ValSet := ⟨[], none, 0⟩
  queued : List Change := []

def dump (vs : ValSet) : String :=
  ",".intercalate (vs.vals.map fun v => s!"{Hex.encode v.addr}:{v.power}:{v.accum}")

def parseEntry (w0 : String) : Option SigEntry :=
  let w := match w0.splitOn "/" with | [_, b] => b | _ => w0
  match w.splitOn ":" with
  | [a, ok] => do pure ⟨← Hex.decode a, ok == "1"⟩
  | _ => none

def parseVal (w : String) : Option Val :=
  match w.splitOn ":" with
  | [a, p] => do pure ⟨← Hex.decode a, ← parseInt p, 0⟩
  | [a, p, c] => do pure ⟨← Hex.decode a, ← parseInt p, ← parseInt c⟩
  | _ => none

def parseCmd : String → Cmd
  | "add" => .add | "update" => .update | "remove" => .remove | _ => .other

def showRes : Res → String
  | .accepted c => "ok changed=" ++ showBool c
  | .errMajor => "err-major" | .errType => "err-type" | .errParse => "err-parse"
  | .errFrom => "err-from" | .errNonce => "err-nonce" | .errSelf => "err-self"
  | .errNotAdded => "err-notadded" | .errCmd => "err-cmd"

def step (s : St) (line : String) : St × String :=
  match words line with
  | "cfg" :: rest => ({ s with cfg := ⟨kv rest "dedupSigners" != some "0"⟩ }, "ok")
  | "vals" :: vals =>
    match vals.mapM parseVal with
    | some vals => ({ s with cur := newValSet ValSet.repaired vals, queued := [] }, "ok")
    | none => (s, "bad-op")
  | "major" :: es =>
    match es.mapM parseEntry with
    | some es => (s, showBool (checkMajor23 s.cfg s.cur.vals es))
    | none => (s, "bad-op")
  | "exec" :: fr :: an :: cto :: po :: aa :: anonce :: cmd :: tgt :: pw :: self :: es =>
    match Hex.decode fr, parseNat an, Hex.decode aa, parseNat anonce, Hex.decode tgt, parseInt pw,
          es.mapM parseEntry with
    | some fr, some an, some aa, some anonce, some tgt, some pw, some es =>
      let r : Request := ⟨cto == "1", po == "1", aa, anonce, parseCmd cmd, tgt, pw, self == "1", es⟩
      let (res, ch) := execTx s.cfg s.cur.vals fr an r
      let q := match ch with | some c => s.queued ++ [c] | none => s.queued
      ({ s with queued := q }, s!"{showRes res} queued={q.length}")
    | _, _, _, _, _, _, _ => (s, "bad-op")
  | ["endblock"] =>
    match applyChanges s.cur s.queued with
    | some next =>
      if next.vals.isEmpty then ({ s with queued := [] }, "panic") else   -- Peek() on an empty heap
      let next := incrementAccum ValSet.repaired next 1
      ({ s with cur := next, queued := [] }, "ok " ++ dump next)
    | none => ({ s with queued := [] }, "err")
  | _ => (s, "bad-op")

def main : IO Unit := run step {}
