import AnnVerif.Model.DriverUtil
import AnnVerif.Model.WirePrim
import AnnVerif.Model.Rlp
import AnnVerif.Model.SignBytes
open AnnVerif AnnVerif.Drv AnnVerif.WirePrim AnnVerif.Rlp

structure St where
  cfg : Cfg := repaired

partial def showItem : Item → String
  | .str b => Hex.encode b
  | .list l => "( " ++ String.join (l.map (fun x => showItem x ++ " ")) ++ ")"

/-- parse `( a ( - ) bb )` token lists -/
partial def parseItems : List String → Option (List Item × List String)
  | [] => some ([], [])
  | ")" :: rest => some ([], ")" :: rest)
  | "(" :: rest => do
    let (inner, rest1) ← parseItems rest
    match rest1 with
    | ")" :: rest2 =>
      let (more, rest3) ← parseItems rest2
      pure (Item.list inner :: more, rest3)
    | _ => none
  | w :: rest => do
    let b ← Hex.decode w
    let (more, rest') ← parseItems rest
    pure (Item.str b :: more, rest')

def showErr : RErr → String
  | .eof => "err-eof" | .overflow => "err-overflow" | .negZero => "err-negzero"
  | .invalidLength => "err-len" | .readOverflow => "err-readoverflow" | .subMs => "err-subms"

def showRlpErr : Rlp.Err → String
  | .eof => "err-eof" | .canon => "err-canon" | .elemTooLarge => "err-elem" | .trailing => "err-trailing"

def step (s : St) (line : String) : St × String :=
  match words line with
  | "cfg" :: rest => ({ s with cfg := ⟨kv rest "timeErr" != some "0"⟩ }, "ok")
  | ["wvarint", i] =>
    match parseInt i with | some i => (s, Hex.encode (writeVarint i)) | none => (s, "bad-op")
  | ["rvarint", h] =>
    match Hex.decode h with
    | some b => (match readVarint b with
      | .ok v rest => (s, s!"ok {v} {b.length - rest.length}")
      | .err e => (s, showErr e) | .panic => (s, "panic"))
    | none => (s, "bad-op")
  | ["rbytes", lmt, n0, h] =>
    match parseNat lmt, parseNat n0, Hex.decode h with
    | some lmt, some n0, some b => (match (readByteSlice lmt n0 b).1 with
      | .ok v rest => (s, s!"ok {Hex.encode v} {b.length - rest.length}")
      | .err e => (s, showErr e) | .panic => (s, "panic"))
    | _, _, _ => (s, "bad-op")
  | ["wtime", t] =>
    match parseInt t with | some t => (s, Hex.encode (writeTime t)) | none => (s, "bad-op")
  | ["rtime", h] =>
    match Hex.decode h with
    | some b => (match readTime s.cfg b with
      | .ok v _ => (s, s!"ok {v}") | .err e => (s, showErr e) | .panic => (s, "panic"))
    | none => (s, "bad-op")
  | "rlpenc" :: toks =>
    match parseItems toks with
    | some ([x], []) => (s, Hex.encode (encode x))
    | _ => (s, "bad-op")
  | ["rlpdec", h] =>
    match Hex.decode h with
    | some b => (match decode b with
      | .ok x => (s, "ok " ++ showItem x) | .error e => (s, showRlpErr e))
    | none => (s, "bad-op")
  | ["sbvote", h, r, t, hash, total, phash] =>
    let dec (x : String) : Option Bytes := if x == "-" then some [] else Hex.decode x
    match parseInt h, parseInt r, parseNat t, dec hash, parseInt total, dec phash with
    | some h, some r, some t, some hash, some total, some phash =>
      (s, String.ofList (AnnVerif.SignBytes.voteJson "c18".toList h r t ⟨hash, total, phash⟩))
    | _, _, _, _, _, _ => (s, "bad-op")
  | "go" :: _ => (s, "ok")   -- Go-side-only oracle op (struct-level codecs): nothing for the model
  | _ => (s, "bad-op")

def main : IO Unit := run step {}
