/-
  Tie: `ValidatorSet.Update` RESETS the cached total voting power to the "not computed" value 0 (it is
  recomputed from the validators on the next read) - it does not adjust it. The model's sets carry no
  such cache: the total is always the sum of the powers (C15, C16, C14).
-/
import AnnVerif.Gen.Facts
namespace AnnVerif.Ties
open AnnVerif

theorem valset_update_resets_the_cached_total : Gen.e_valset_update_total = 0 := rfl

end AnnVerif.Ties
