/-
  Tie between the threshold of CheckMajor23 as REGENERATED from /repo and the model of C14.
-/
import AnnVerif.Gen.Facts
import AnnVerif.Model.Admin
namespace AnnVerif.Ties
open AnnVerif

/-- `CheckMajor23`'s comparison is the model's -/
theorem checkMajor23 (cfg : Admin.Cfg) (vals : List ValSet.Val) (sinfos : List Admin.SigEntry)
    (ht : 0 ≤ ValSet.sumPower vals) :
    Gen.e_checkMajor23 (Admin.major23Loop cfg vals sinfos [] 0) (ValSet.sumPower vals) =
      Admin.checkMajor23 cfg vals sinfos := by
  unfold Gen.e_checkMajor23 Admin.checkMajor23
  rw [Int.tdiv_eq_ediv_of_nonneg (by omega)]

end AnnVerif.Ties

namespace AnnVerif.Ties
open AnnVerif

/-- the replay check of `ProcessAdminOP` (`vAttr.Nonce+1 != nonce`) is the model's -/
theorem admin_nonce_iff (appNonce attrNonce : Nat) :
    Gen.e_admin_nonce appNonce attrNonce = decide (attrNonce + 1 ≠ appNonce) := by
  unfold Gen.e_admin_nonce
  by_cases h : attrNonce + 1 = appNonce
  · have : (attrNonce : Int) + 1 = appNonce := by omega
    simp [h, this]
  · have : ¬ (attrNonce : Int) + 1 = appNonce := by omega
    simp [h, this]

/-- whenever the code's nonce check fires on a request that passed the checks before it, the model
    function refuses the request with the nonce error and queues nothing -/
theorem admin_nonce_refuses (cfg : Admin.Cfg) (vals : List ValSet.Val) (from_ : Bytes) (appNonce : Nat) (r : Admin.Request)
    (h1 : Admin.checkMajor23 cfg vals r.sinfos = true) (h2 : r.cmdTypeOk = true) (h3 : r.parseOk = true)
    (h4 : Gen.e_admin_from (from_ == r.attrAddr) = false)
    (h5 : Gen.e_admin_nonce appNonce r.attrNonce = true) :
    Admin.execTx cfg vals from_ appNonce r = (.errNonce, none) := by
  rw [admin_nonce_iff] at h5
  have h5' := of_decide_eq_true h5
  unfold Gen.e_admin_from at h4
  have h4' : from_ = r.attrAddr := by simpa using h4
  unfold Admin.execTx
  simp [h1, h2, h3, h4', h5']

/-- ... and when it does not fire (and the sender matches) the model goes on to the command -/
theorem admin_update_same_power (p q : Int) : Gen.e_admin_samePower q p = decide (p = q) := by
  unfold Gen.e_admin_samePower
  by_cases h : p = q <;> simp [h]

end AnnVerif.Ties
