/-
  Tie between the threshold of CheckMajor23 as REGENERATED from /repo and the model of C14.
-/
import AnnVerif.Gen.Facts
import AnnVerif.Model.Admin
namespace AnnVerif.Ties
open AnnVerif

/-- `CheckMajor23`'s comparison is the model's -/
theorem checkMajor23 (cfg : Admin.Cfg) (vals : List ValSet.Val) (sinfos : List Admin.SigEntry)
    (ht : 0 ≤ ValSet.sumPower vals) :
    Gen.e_checkMajor23 (Admin.major23Loop cfg vals sinfos [] 0) (ValSet.sumPower vals) =
      Admin.checkMajor23 cfg vals sinfos := by
  unfold Gen.e_checkMajor23 Admin.checkMajor23
  rw [Int.tdiv_eq_ediv_of_nonneg (by omega)]

end AnnVerif.Ties
