/-
  Ties between what /verif/go/cmd/extract REGENERATES from /repo (AnnVerif/Gen/Facts.lean) and the
  model of C20; re-checked by `lake build` on every run of `./check C20`.
-/
import AnnVerif.Gen.Facts
import AnnVerif.Model.Transport
import AnnVerif.Model.Admission
set_option linter.unusedSimpArgs false
namespace AnnVerif.Ties
open AnnVerif

/-! ### C20: frame and packet sizes -/

theorem transport_sizes : Gen.c_dataMaxSize = (Transport.dataMaxSize : Int) ∧
    Gen.c_maxMsgPacketPayloadSize = (Transport.maxPayload : Int) ∧ Gen.c_dataLenSize = 2 ∧
    Gen.c_totalFrameSize = 1026 := by decide

end AnnVerif.Ties

namespace AnnVerif.Ties
open AnnVerif

/-- `nextMsgPacket`: the code's "last packet" test and the length it cuts off are `packetize`'s -/
theorem packetize_is_nextMsgPacket (ch fuel : Nat) (m : Bytes) :
    Transport.packetize ch (fuel + 1) m =
      if Gen.e_packet_isLast m.length then [⟨ch, true, m.take (Gen.e_packet_take m.length).toNat⟩]
      else ⟨ch, false, m.take (Gen.e_packet_take m.length).toNat⟩ ::
        Transport.packetize ch fuel (m.drop (Gen.e_packet_take m.length).toNat) := by
  rw [Transport.packetize]
  unfold Gen.e_packet_isLast Gen.e_packet_take Gen.c_maxMsgPacketPayloadSize Transport.maxPayload
  by_cases h : m.length ≤ 1024
  · have e : (min (1024 : Int) (m.length : Int)).toNat = m.length := by omega
    have h' : (m.length : Int) ≤ 1024 := by omega
    simp [h, h', e]
  · have e : (min (1024 : Int) (m.length : Int)).toNat = 1024 := by omega
    have h' : ¬ (m.length : Int) ≤ 1024 := by omega
    simp [h, h', e]

/-- `recvMsgPacket`: capacity test and end-of-message flag -/
theorem recvPacket_is_recvMsgPacket (capacity : Nat) (recving : Bytes) (p : Transport.Packet) :
    Transport.recvPacket capacity recving p =
      if Gen.e_packet_tooLong capacity recving.length p.bytes.length then (recving, .tooLong)
      else if Gen.e_packet_eof (if p.eof then 1 else 0) then ([], .complete (recving ++ p.bytes))
      else (recving ++ p.bytes, .more) := by
  unfold Transport.recvPacket Gen.e_packet_tooLong Gen.e_packet_eof
  by_cases h : capacity < recving.length + p.bytes.length
  · have h' : (capacity : Int) < (recving.length : Int) + (p.bytes.length : Int) := by omega
    simp [h, h']
  · have h' : ¬ (capacity : Int) < (recving.length : Int) + (p.bytes.length : Int) := by omega
    cases he : p.eof <;> simp [h, h', he]

/-- `SecretConnection.Write`: a chunk is the whole rest unless more than `dataMaxSize` bytes remain -/
theorem chunks_is_write (fuel : Nat) (d : Bytes) (hd : d ≠ []) :
    Transport.chunks (fuel + 1) d =
      if Gen.e_frame_split d.length then d.take Transport.dataMaxSize :: Transport.chunks fuel (d.drop Transport.dataMaxSize)
      else d :: Transport.chunks fuel [] := by
  rw [Transport.chunks]
  unfold Gen.e_frame_split Gen.c_dataMaxSize Transport.dataMaxSize
  have hne : d.isEmpty = false := by cases d <;> simp_all
  by_cases h : 1024 < d.length
  · have h' : (1024 : Int) < (d.length : Int) := by omega
    simp [hne, h']
  · have h' : ¬ (1024 : Int) < (d.length : Int) := by omega
    have e1 : d.take 1024 = d := List.take_of_length_le (by omega)
    have e2 : d.drop 1024 = [] := List.drop_of_length_le (by omega)
    simp [hne, h', e1, e2]

end AnnVerif.Ties

namespace AnnVerif.Ties
open AnnVerif

/-- the exemption of `authByCA` (a current validator, unless configuration asks every node for a
    certificate) is the first disjunct of the admission model's `caAccepts` -/
theorem admit_exempt_is_model (n : Admission.Node) (p : Admission.Peer) :
    Gen.e_admit_exempt n.nonValidatorNodeAuth (n.validatorsNow.any (·.key == p.announced)) = true →
      Admission.caAccepts {} n p = true := by
  intro h
  unfold Gen.e_admit_exempt at h
  unfold Admission.caAccepts
  simp only [Bool.and_eq_true, Bool.not_eq_true'] at h
  simp [h.1, h.2]

end AnnVerif.Ties
