/-
  Ties between what /verif/go/cmd/extract REGENERATES from /repo (AnnVerif/Gen/Facts.lean) and the
  model of C20; re-checked by `lake build` on every run of `./check C20`.
-/
import AnnVerif.Gen.Facts
import AnnVerif.Model.Transport
set_option linter.unusedSimpArgs false
namespace AnnVerif.Ties
open AnnVerif

/-! ### C20: frame and packet sizes -/

theorem transport_sizes : Gen.c_dataMaxSize = (Transport.dataMaxSize : Int) ∧
    Gen.c_maxMsgPacketPayloadSize = (Transport.maxPayload : Int) ∧ Gen.c_dataLenSize = 2 ∧
    Gen.c_totalFrameSize = 1026 := by decide

end AnnVerif.Ties
