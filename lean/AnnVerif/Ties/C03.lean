/-
  Ties between what /verif/go/cmd/extract REGENERATES from /repo (AnnVerif/Gen/Facts.lean) and the
  model of C03; re-checked by `lake build` on every run of `./check C03`.
-/
import AnnVerif.Gen.Facts
import AnnVerif.Model.Signer
set_option linter.unusedSimpArgs false
namespace AnnVerif.Ties
open AnnVerif

/-! ### C03: the comparison chain of `signBytesHRS` is `Signer.verdict` -/

def verdictLabel : Signer.Verdict → String
  | .fresh => "reach"                                      -- falls through to `privVal.Sign`
  | .cached => "return privVal.LastSignature, nil"
  | .regression => "regression"

def isRegression (s : String) : Bool :=
  s == "return nil, errors.New('Height regression')" || s == "return nil, errors.New('Round regression')" ||
  s == "return nil, errors.New('Step regression')"

def normLabel (s : String) : String := if isRegression s then "regression" else s

/-- for every signer record, request and byte comparison outcome: the code's if-tree (with
    `LastSignature` present whenever `LastSignBytes` is - the record invariant the model builds in)
    gives the verdict of the model -/
theorem signBytesHRS_is_verdict (m : Signer.Rec) (h r s : Int) (b : Bytes) :
    normLabel (Gen.t_signBytesHRS (m.bytes == some b) h m.h m.r m.bytes.isSome m.bytes.isSome m.s r s) =
      verdictLabel (Signer.verdict m h r s b) := by
  unfold Gen.t_signBytesHRS Signer.verdict
  by_cases h1 : m.h > h
  · simp [h1, normLabel, isRegression, verdictLabel]
  · by_cases h2 : m.h = h
    · by_cases h3 : m.r > r
      · simp [h1, h2, h3, normLabel, isRegression, verdictLabel]
      · by_cases h4 : m.r = r
        · by_cases h5 : m.s > s
          · simp [h1, h2, h3, h4, h5, normLabel, isRegression, verdictLabel]
          · by_cases h6 : m.s = s
            · cases hb : m.bytes with
              | none => simp [h1, h2, h3, h4, h5, h6, normLabel, isRegression, verdictLabel]
              | some lb =>
                by_cases h7 : lb = b
                · subst h7; simp [h1, h2, h3, h4, h5, h6, normLabel, isRegression, verdictLabel]
                · have : (some lb == some b) = false := by simpa using h7
                  simp [h1, h2, h3, h4, h5, h6, h7, this, normLabel, isRegression, verdictLabel]
            · simp [h1, h2, h3, h4, h5, h6, normLabel, isRegression, verdictLabel]
        · simp [h1, h2, h3, h4, normLabel, isRegression, verdictLabel]
    · simp [h1, h2, normLabel, isRegression, verdictLabel]

theorem signer_steps : Gen.c_stepNone = 0 ∧ Gen.c_stepPropose = 1 ∧ Gen.c_stepPrevote = 2 ∧ Gen.c_stepPrecommit = 3 :=
  ⟨rfl, rfl, rfl, rfl⟩

/-- `PrivValidator.save` reaches the durable write on every call with a file path - no other branch
    returns before it (the signer model's `save` is the write, whatever was written before) -/
theorem privval_save_always_writes (b : Bool) :
    Gen.t_privval_save (eq_privVal_filePath_ := b) = "reach" ↔ b = false := by
  unfold Gen.t_privval_save
  cases b <;> simp

end AnnVerif.Ties
