/-
  Tie between the reactor's test of received bit arrays (`wellFormedBitArray`, the repair 5698c94)
  as REGENERATED from /repo and the bit-array model's `BA.wf` (Model/BitArr.lean), for which the
  no-panic theorems X9 are proved.
-/
import AnnVerif.Gen.Facts
import AnnVerif.Model.BitArr
namespace AnnVerif.Ties
open AnnVerif AnnVerif.BitArr

/-- a non-nil array passes the reactor's test exactly when it is well formed in the model's sense -/
theorem bitarray_wf_is_model (a : BA) : Gen.e_bitarray_wf a.bits true a.elems = decide a.wf := by
  unfold Gen.e_bitarray_wf BA.wf
  by_cases h : 0 < a.bits
  · have e : Int.tdiv (a.bits + 63) 64 = (a.bits + 63) / 64 := Int.tdiv_eq_ediv_of_nonneg (by omega)
    rw [e]
    by_cases h2 : (a.elems : Int) = (a.bits + 63) / 64 <;> simp [h, h2]
  · simp [h]

/-- the nil array stands for the empty one and is accepted -/
theorem bitarray_nil_accepted (b e : Int) : Gen.e_bitarray_wf b false e = true := by
  unfold Gen.e_bitarray_wf; simp

end AnnVerif.Ties
