/-
  Tie between `Validator.CompareAccum` (gemmill/types/validator.go) as REGENERATED from /repo and the
  comparison the proposer model folds with (Model/ValSet.lean `foldCompare` / `bestByAccum`):
  higher accum wins, ties go to the lower address.
-/
import AnnVerif.Gen.Facts
import AnnVerif.Model.ValSet
set_option linter.unusedSimpArgs false
namespace AnnVerif.Ties
open AnnVerif AnnVerif.ValSet

/-- the model's choice between the current best `p` and the next validator `v` -/
def pick (p v : Val) : Val :=
  if p.accum > v.accum then p else if p.accum < v.accum then v else if bytesLt p.addr v.addr then p else v

/-- for two validators with different addresses (`cmp` = the sign `bytes.Compare` reports, negative
    exactly when the model's `bytesLt` holds) the code returns the validator the model picks -/
theorem compareAccum_is_pick (p v : Val) (cmp : Int) (hc : (cmp < 0) = (bytesLt p.addr v.addr = true)) (hne : cmp ≠ 0) :
    Gen.t_compareAccum cmp v.accum p.accum true = (if pick p v = p then "return v" else "return other") ∨
    (pick p v = p ∧ pick p v = v) := by
  unfold Gen.t_compareAccum pick
  by_cases h1 : p.accum > v.accum
  · left; simp [h1]
  · by_cases h2 : p.accum < v.accum
    · left
      have hpv : v ≠ p := by intro e; rw [e] at h2; omega
      simp [h1, h2, hpv]
    · by_cases h3 : cmp < 0
      · left
        have hb : bytesLt p.addr v.addr = true := by rw [← hc]; exact h3
        simp [h1, h2, h3, hb]
      · have hb : ¬ (bytesLt p.addr v.addr = true) := by rw [← hc]; exact h3
        have h4 : cmp > 0 := by omega
        by_cases hpv : v = p
        · right; simp [h1, h2, hb, hpv]
        · left; simp [h1, h2, h3, h4, hb, hpv]

/-- the first call (`proposer == nil`) returns the other validator, like `foldCompare none` -/
theorem compareAccum_nil (cmp a b : Int) : Gen.t_compareAccum cmp a b false = "return other" := by
  unfold Gen.t_compareAccum; simp

end AnnVerif.Ties
