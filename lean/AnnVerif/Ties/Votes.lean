/-
  Ties between the decision expressions REGENERATED from /repo (AnnVerif/Gen/Facts.lean, written by
  /verif/go/cmd/extract on every run) and the vote-accounting models: thresholds of
  gemmill/types/vote_set.go, validator_set.go (VerifyCommit) and plugin/admin_op.go (CheckMajor23).
  Each theorem holds for ALL values of the expression's variables (voting power totals are
  non-negative: Go's truncating division and the model's `/` agree there and only there).
-/
import AnnVerif.Gen.Facts
import AnnVerif.Model.VoteSet
namespace AnnVerif.Ties
open AnnVerif

theorem tdiv_nonneg_eq (a b : Int) (ha : 0 ≤ a) : Int.tdiv a b = a / b :=
  Int.tdiv_eq_ediv_of_nonneg ha

/-- `quorum := voteSet.valSet.TotalVotingPower()*2/3 + 1` is the model's `quorum` -/
theorem voteSet_quorum (t : Int) (ht : 0 ≤ t) : Gen.e_voteSet_quorum t = VoteSet.quorum t := by
  unfold Gen.e_voteSet_quorum VoteSet.quorum
  rw [tdiv_nonneg_eq _ _ (by omega)]

/-- the quorum-crossing test of `addVerifiedVote` is the one of `applyTally` -/
theorem voteSet_crossed (orig q now : Int) :
    Gen.e_voteSet_crossed orig q now = decide (orig < q ∧ q ≤ now) := by
  unfold Gen.e_voteSet_crossed
  by_cases h1 : orig < q <;> by_cases h2 : q ≤ now <;> simp [h1, h2]

theorem voteSet_twoThirdsAny (vs : VoteSet.VoteSet) (ht : 0 ≤ VoteSet.total vs.vals) :
    Gen.e_voteSet_twoThirdsAny vs.sum (VoteSet.total vs.vals) = VoteSet.hasTwoThirdsAny vs := by
  unfold Gen.e_voteSet_twoThirdsAny VoteSet.hasTwoThirdsAny
  rw [tdiv_nonneg_eq _ _ (by omega)]

theorem voteSet_hasAll (vs : VoteSet.VoteSet) :
    Gen.e_voteSet_hasAll vs.sum (VoteSet.total vs.vals) = VoteSet.hasAll vs := rfl

/-- `talliedVotingPower > valSet.TotalVotingPower()*2/3` -/
theorem verifyCommit_enough (tallied t : Int) (ht : 0 ≤ t) :
    Gen.e_verifyCommit_enough tallied t = decide (tallied > t * 2 / 3) := by
  unfold Gen.e_verifyCommit_enough
  rw [tdiv_nonneg_eq _ _ (by omega)]

/-- ... and it is the same threshold as the vote set's: more than two thirds = at least the quorum -/
theorem verifyCommit_enough_iff_quorum (tallied t : Int) (ht : 0 ≤ t) :
    Gen.e_verifyCommit_enough tallied t = decide (Gen.e_voteSet_quorum t ≤ tallied) := by
  rw [verifyCommit_enough _ _ ht, voteSet_quorum _ ht]
  unfold VoteSet.quorum
  by_cases h : tallied > t * 2 / 3
  · simp [h]; omega
  · simp [h]; omega

/-- the enum values the models use for vote types and signer steps -/
theorem vote_types : Gen.c_VoteTypePrevote = 1 ∧ Gen.c_VoteTypePrecommit = 2 := ⟨rfl, rfl⟩

end AnnVerif.Ties
