/-
  Tie between the admission tests of `ethTxPool.CheckAndAdd` (chain/app/evm/tx_pool.go) as
  REGENERATED from /repo and the pool model's `submit` (Model/Pool.lean): same tests, same order.
-/
import AnnVerif.Gen.Facts
import AnnVerif.Model.Pool
set_option linter.unusedSimpArgs false
namespace AnnVerif.Ties
open AnnVerif AnnVerif.Pool

/-- the code's tree on the model's reading of its variables -/
def checkAndAddTree (p : Pool) (t : Tx) (qn addErr : Bool) : String :=
  Gen.t_checkAndAdd (tp_addWaiting_tx_etypes_Sender_tp_app_Signer_tx_from_err_notNil := addErr)
    (tp_all_at_tx_Hash_exist := p.all.contains t.id)
    (tp_pending_at_etypes_Sender_tp_app_Signer_tx_from_q_Get_tx_Nonce_notNil := qHas (mGet p.pending t.sender) t.nonce)
    (tp_pending_at_etypes_Sender_tp_app_Signer_tx_from_q_notNil := qn)
    (tp_safeGetNonce_etypes_Sender_tp_app_Signer_tx_from_currentNonce := nonceOf p t.sender) (tx_Nonce := t.nonce)

/-- a transaction already in the lookup cache: both refuse it as known, the pool stays as it is -/
theorem checkAndAdd_exist (p : Pool) (t : Tx) (qn addErr : Bool) (h : p.all.contains t.id = true) :
    checkAndAddTree p t qn addErr = "return errTxExist" ∧ submit {} p t = (p, .exist) := by
  unfold checkAndAddTree Gen.t_checkAndAdd submit
  have hm : t.id ∈ p.all := by simpa using h
  simp [h, hm]

/-- a nonce below the account's: both refuse it as stale -/
theorem checkAndAdd_stale (p : Pool) (t : Tx) (qn addErr : Bool) (h : p.all.contains t.id = false)
    (h2 : nonceOf p t.sender > t.nonce) :
    checkAndAddTree p t qn addErr = "return fmt.Errorf('nonce(%d) different with getNonce(%d)', tx.Nonce(), currentNonce)" ∧
    submit {} p t = (p, .stale) := by
  unfold checkAndAddTree Gen.t_checkAndAdd submit
  have h2' : (nonceOf p t.sender : Int) > (t.nonce : Int) := by omega
  have hm : ¬ t.id ∈ p.all := by simpa using h
  simp [h, hm, h2, h2']

/-- a nonce that is already pending for the sender (repaired): both refuse it -/
theorem checkAndAdd_nonceTaken (p : Pool) (t : Tx) (addErr : Bool) (h : p.all.contains t.id = false)
    (h2 : ¬ nonceOf p t.sender > t.nonce) (h3 : qHas (mGet p.pending t.sender) t.nonce = true) :
    checkAndAddTree p t true addErr = "return errors.New('tx nonce already exist in cache')" ∧
    submit {} p t = (p, .nonceTaken) := by
  unfold checkAndAddTree Gen.t_checkAndAdd submit
  have h2' : ¬ (nonceOf p t.sender : Int) > (t.nonce : Int) := by omega
  have hm : ¬ t.id ∈ p.all := by simpa using h
  simp [h, hm, h2, h2', h3]

/-- otherwise both go on to `addWaiting` -/
theorem checkAndAdd_goes_on (p : Pool) (t : Tx) (qn : Bool) (h : p.all.contains t.id = false)
    (h2 : ¬ nonceOf p t.sender > t.nonce) (h3 : qHas (mGet p.pending t.sender) t.nonce = false) :
    checkAndAddTree p t qn false = "reach" := by
  unfold checkAndAddTree Gen.t_checkAndAdd
  have h2' : ¬ (nonceOf p t.sender : Int) > (t.nonce : Int) := by omega
  have hm : ¬ t.id ∈ p.all := by simpa using h
  cases qn <;> simp [h, hm, h2', h3]

end AnnVerif.Ties
