/-
  Tie between the EVM jump table as REGENERATED from /repo (eth/core/vm/jump_table.go: opcode ->
  execute function, stack items needed, stack items left) and the word/stack model of C10
  (Model/Word.lean): every instruction the model implements is in the table under the expected
  execute function, and the table's stack requirement is exactly when the model's step is defined.
-/
import AnnVerif.Gen.Facts
import AnnVerif.Model.Word
namespace AnnVerif.Ties
open AnnVerif AnnVerif.Word

/-- stack items an instruction of the model needs / leaves in their place -/
def need : Tok → Nat
  | .push _ => 0 | .bin _ => 2 | .tern _ => 3 | .un _ => 1 | .pop => 1 | .dup n => n | .swap n => n + 1
def leave : Tok → Nat
  | .push _ => 1 | .bin _ => 1 | .tern _ => 1 | .un _ => 1 | .pop => 0 | .dup n => n + 1 | .swap n => n + 1

/-- the model's step is defined exactly when the stack holds what the table asks for, and changes
    the stack height as the table says -/
theorem stepTok_arity (st : List Nat) (tok : Tok) (hd : ∀ n, tok = .dup n → 1 ≤ n) (hs : ∀ n, tok = .swap n → 1 ≤ n) :
    match stepTok st tok with
    | some st' => need tok ≤ st.length ∧ st'.length + need tok = st.length + leave tok
    | none => st.length < need tok := by
  cases tok with
  | push v => simp [stepTok, need, leave]
  | bin f => cases st with
    | nil => simp [stepTok, need]
    | cons a t => cases t with
      | nil => simp [stepTok, need]
      | cons b r => simp [stepTok, need, leave]
  | tern f => cases st with
    | nil => simp [stepTok, need]
    | cons a t => cases t with
      | nil => simp [stepTok, need]
      | cons b r => cases r with
        | nil => simp [stepTok, need]
        | cons c r' => simp [stepTok, need, leave]
  | un f => cases st with
    | nil => simp [stepTok, need]
    | cons a t => simp [stepTok, need, leave]
  | pop => cases st with
    | nil => simp [stepTok, need]
    | cons a t => simp [stepTok, need, leave]
  | dup n =>
    have h1 := hd n rfl
    cases hg : st[n - 1]? with
    | none =>
      have : st.length ≤ n - 1 := by simpa using hg
      simp [stepTok, hg, need]; omega
    | some v =>
      have hlt : n - 1 < st.length := by
        rcases Nat.lt_or_ge (n - 1) st.length with h | h
        · exact h
        · rw [List.getElem?_eq_none h] at hg; cases hg
      have hn : n ≠ 0 := by omega
      simp [stepTok, hg, hn, need, leave]; omega
  | swap n =>
    have h1 := hs n rfl
    cases st with
    | nil => simp [stepTok, need]
    | cons a t =>
      cases hg : (a :: t)[n]? with
      | none =>
        have : (a :: t).length ≤ n := by simpa using hg
        simp [stepTok, hg, need]; simp at this; omega
      | some v =>
        have hlt : n < (a :: t).length := by
          rcases Nat.lt_or_ge n (a :: t).length with h | h
          · exact h
          · rw [List.getElem?_eq_none h] at hg; cases hg
        have hn : n ≠ 0 := by omega
        simp [stepTok, hg, hn, need, leave]
        simp at hlt; omega

/-- the instructions of the model, with the execute function of the code they are compared with on
    every run (three-way, against go-ethereum v1.8.27) -/
def modelOps : List (String × String × Tok) :=
  [("ADD", "opAdd", .bin add), ("MUL", "opMul", .bin mul), ("SUB", "opSub", .bin sub), ("DIV", "opDiv", .bin div),
   ("SDIV", "opSdiv", .bin sdiv), ("MOD", "opMod", .bin mod), ("SMOD", "opSmod", .bin smod),
   ("ADDMOD", "opAddmod", .tern addmod), ("MULMOD", "opMulmod", .tern mulmod), ("EXP", "opExp", .bin exp),
   ("SIGNEXTEND", "opSignExtend", .bin signextend), ("LT", "opLt", .bin lt), ("GT", "opGt", .bin gt),
   ("SLT", "opSlt", .bin slt), ("SGT", "opSgt", .bin sgt), ("EQ", "opEq", .bin eq), ("ISZERO", "opIszero", .un iszero),
   ("AND", "opAnd", .bin and_), ("OR", "opOr", .bin or_), ("XOR", "opXor", .bin xor_), ("NOT", "opNot", .un not_),
   ("BYTE", "opByte", .bin byte), ("SHL", "opSHL", .bin shl), ("SHR", "opSHR", .bin shr), ("SAR", "opSAR", .bin sar),
   ("POP", "opPop", .pop), ("PUSH1", "makePush(1, 1)", .push 0), ("PUSH32", "makePush(32, 32)", .push 0),
   ("DUP1", "makeDup(1)", .dup 1), ("DUP2", "makeDup(2)", .dup 2), ("DUP8", "makeDup(8)", .dup 8), ("DUP16", "makeDup(16)", .dup 16),
   ("SWAP1", "makeSwap(1)", .swap 1), ("SWAP2", "makeSwap(2)", .swap 2), ("SWAP8", "makeSwap(8)", .swap 8),
   ("SWAP16", "makeSwap(16)", .swap 16)]

/-- every one of them is in the code's jump table, under that execute function, with the stack
    requirement and effect of the model's instruction -/
theorem jumpTable_has_model_ops :
    (modelOps.all fun e => Gen.jumpTable.contains (e.1, e.2.1, need e.2.2, leave e.2.2)) = true := by decide

/-- the table has an entry for each opcode once -/
theorem jumpTable_opcodes_distinct : (Gen.jumpTable.map (·.1)).Nodup := by decide +kernel

/-- CREATE / CREATE2 hand their creator return data exactly when the creation REVERTED - not when it
    failed in any other way (oversized code, unpaid deposit, ...) -/
theorem opCreate_returns_data_only_after_revert (b : Bool) :
    Gen.e_opCreate_returnsData (eq_suberr_errExecutionReverted := b) = b := rfl

theorem opCreate2_returns_data_only_after_revert (b : Bool) :
    Gen.t_opCreate2_returnsData
      (eq_interpreter_evm_Create2_contract_input_gas_endowment_salt_suberr_errExecutionReverted := b) = "return res, nil" ↔ b = true := by
  unfold Gen.t_opCreate2_returnsData
  cases b <;> simp

end AnnVerif.Ties
