/-
  Ties between the nonce tests of transaction admission as REGENERATED from /repo
  (eth/core/state_transition.go preCheck, chain/app/evm/evm.go executeKVTx) and the application
  model (Model/App.lean): a transaction goes on exactly when its nonce IS the sender's.
-/
import AnnVerif.Gen.Facts
namespace AnnVerif.Ties

/-- `preCheck` with nonce checking on lets a message through to `buyGas` exactly at the account's nonce -/
theorem preCheck_passes_iff (accNonce txNonce : Nat) :
    Gen.t_preCheck (st_msg_CheckNonce := true) (st_msg_Nonce := txNonce) (st_state_GetNonce_st_msg_From_nonce := accNonce)
      = "return st.buyGas()" ↔ txNonce = accNonce := by
  unfold Gen.t_preCheck
  by_cases h1 : (accNonce : Int) < txNonce <;> by_cases h2 : (accNonce : Int) > txNonce <;> simp [h1, h2] <;> omega

/-- `executeKVTx` (repaired) applies a decodable, validly signed key-value transaction exactly at the
    sender's nonce -/
theorem executeKVTx_applies_iff (accNonce txNonce : Nat) :
    Gen.t_executeKVTx (etypes_Sender_app_Signer_tx_err_notNil := false) (rlp_DecodeBytes_txData_kvData_err_notNil := false)
      (state_GetNonce_etypes_Sender_app_Signer_tx_from_nonce := accNonce) (tx_Nonce := txNonce) = "reach" ↔ txNonce = accNonce := by
  unfold Gen.t_executeKVTx
  by_cases h1 : (accNonce : Int) < txNonce <;> by_cases h2 : (accNonce : Int) > txNonce <;> simp [h1, h2] <;> omega

/-- ... and never when its bytes do not decode or its signature does not verify -/
theorem executeKVTx_refuses_undecodable (a b : Int) (sigErr : Bool) :
    Gen.t_executeKVTx (etypes_Sender_app_Signer_tx_err_notNil := sigErr) (rlp_DecodeBytes_txData_kvData_err_notNil := true)
      (state_GetNonce_etypes_Sender_app_Signer_tx_from_nonce := a) (tx_Nonce := b) = "return nil, err" := by
  unfold Gen.t_executeKVTx; simp

end AnnVerif.Ties
