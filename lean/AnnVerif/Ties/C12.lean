/-
  Ties between what /verif/go/cmd/extract REGENERATES from /repo (AnnVerif/Gen/Facts.lean) and the
  model of C12; re-checked by `lake build` on every run of `./check C12`.
-/
import AnnVerif.Gen.Facts
import AnnVerif.Model.Ticker
set_option linter.unusedSimpArgs false
namespace AnnVerif.Ties
open AnnVerif

/-! ### C12: the stale-request filter of `timeoutRoutine` is `Ticker.accept` -/

theorem ticker_filter_is_accept (ti nt : Ticker.TI) :
    (Gen.t_ticker_filter nt.height nt.round nt.step ti.height ti.round ti.step == "reach") =
      Ticker.accept {} ti nt := by
  unfold Gen.t_ticker_filter Ticker.accept
  by_cases h1 : nt.height < ti.height
  · simp [h1]
  · by_cases h2 : nt.height = ti.height
    · by_cases h3 : nt.round < ti.round
      · simp [h1, h2, h3]
      · by_cases h4 : nt.round = ti.round
        · by_cases h5 : ti.step > 0 <;> by_cases h6 : nt.step ≤ ti.step <;>
            simp [h1, h2, h3, h4, h5, h6] <;> omega
        · simp [h1, h2, h3, h4]
    · simp [h1, h2]

end AnnVerif.Ties
