/-
  Ties between the guard order of `Block.ValidateBasic` / `Block.ValidateCommit` (gemmill/types/block.go)
  as REGENERATED from /repo and the block-validation model (Model/Block.lean).
-/
import AnnVerif.Gen.Facts
import AnnVerif.Model.Block
set_option linter.unusedSimpArgs false
namespace AnnVerif.Ties
open AnnVerif AnnVerif.Block

def basicLabel : BErr → String
  | .ok => "return nil"
  | .chainID => "return errors.New(gcmn.Fmt('Wrong Block.Header.ChainID. Expected %v, got %v', chainID, b.ChainID))"
  | .height => "return errors.New(gcmn.Fmt('Wrong Block.Header.Height. Expected %v, got %v', lastBlockHeight+1, b.Height))"
  | .numTxs => "return errors.New(gcmn.Fmt('Wrong Block.Header.NumTxs. Expected %v, got %v', len(b.Data.Txs)+len(b.Data.ExTxs), b.NumTxs))"
  | .lastBlockID => "return errors.New(gcmn.Fmt('Wrong Block.Header.LastBlockID. Expected %v, got %v', lastBlockID, b.LastBlockID))"
  | .dataHash => "return errors.New(gcmn.Fmt('Wrong Block.Header.DataHash. Expected %X, got %X', b.DataHash, b.Data.Hash()))"
  | .appHash => "return errors.New(gcmn.Fmt('Wrong Block.Header.AppHash. Expected %X, got %X', appHash, b.AppHash))"
  | .receiptsHash => "return errors.New(gcmn.Fmt('Wrong Block.Header.ReceiptsHash. Expected %X, got %X', receiptsHash, b.ReceiptsHash))"
  | _ => "?"

/-- `ValidateBasic`: for every chain state and block, the code's if-tree - read on the model's fields,
    the transaction count split in any way over Txs and ExTxs - is the model's `validateBasic` -/
theorem validateBasic_is_model (st : State) (b : Block) (nTx nEx : Int) (hn : nTx + nEx = b.nTxs) :
    Gen.t_validateBasic b.hdr.height (b.hdr.lastBlockID == st.lastBlockID) b.hdr.numTxs (b.hdr.appHash == st.appHash)
      (b.hdr.dataHash == b.dataDigest) (b.hdr.receiptsHash == st.receiptsHash) (b.hdr.chainID == st.chainID)
      st.lastBlockHeight nEx nTx = basicLabel (validateBasic st b) := by
  unfold Gen.t_validateBasic validateBasic
  rw [hn]
  by_cases h1 : b.hdr.chainID = st.chainID <;> by_cases h2 : b.hdr.height = st.lastBlockHeight + 1 <;>
    by_cases h3 : b.hdr.numTxs = b.nTxs <;> by_cases h4 : b.hdr.lastBlockID = st.lastBlockID <;>
    by_cases h5 : b.hdr.dataHash = b.dataDigest <;> by_cases h6 : b.hdr.appHash = st.appHash <;>
    by_cases h7 : b.hdr.receiptsHash = st.receiptsHash <;> simp [h1, h2, h3, h4, h5, h6, h7, basicLabel]

/-- `ValidateCommit`: commit hash first, `Commit.ValidateBasic` only above height 1; the code accepts
    exactly when the model's `validateCommit` does -/
theorem validateCommit_accepts_iff (cfg : Cfg) (b : Block) :
    Gen.t_validateCommit b.hdr.height (commitValidateBasic cfg b.commit != .ok) (b.hdr.lastCommitHash == b.commitDigest) = "return nil"
      ↔ validateCommit cfg b = .ok := by
  unfold Gen.t_validateCommit validateCommit
  by_cases h1 : b.hdr.lastCommitHash = b.commitDigest <;> by_cases h2 : b.hdr.height = 1
  · simp [h1, h2]
  · by_cases h3 : commitValidateBasic cfg b.commit = .ok <;> simp [h1, h2, h3]
  · simp [h1, h2]
  · simp [h1, h2]

end AnnVerif.Ties
