/-
  Ties between what /verif/go/cmd/extract REGENERATES from /repo (AnnVerif/Gen/Facts.lean) and the
  model of C17; re-checked by `lake build` on every run of `./check C17`.
-/
import AnnVerif.Gen.Facts
import AnnVerif.Model.Merkle
set_option linter.unusedSimpArgs false
namespace AnnVerif.Ties
open AnnVerif

/-! ### C17: index guards, split points and the guard order of `AddPart` -/

theorem proof_badIndex (idx total : Int) :
    Gen.e_proof_badIndex idx total = ((Merkle.repaired.checkNeg && decide (idx < 0)) || decide (idx ≥ total)) := rfl

theorem proof_numLeft (total : Int) : Gen.e_proof_numLeft total = Int.tdiv (total + 1) 2 := rfl

theorem tree_split (hs : List Bytes) : Gen.e_tree_split hs.length = ((hs.length + 1) / 2 : Nat) := by
  unfold Gen.e_tree_split
  rw [Int.tdiv_eq_ediv_of_nonneg (by omega)]
  omega

theorem tree_shape (len : Int) : Gen.t_tree_shape len =
    if len = 0 then "return nil" else if len = 1 then "return hashes[0]"
    else "return SimpleHashFromTwoHashes(left, right)" := by
  unfold Gen.t_tree_shape
  by_cases h0 : len = 0 <;> by_cases h1 : len = 1 <;> simp [h0, h1]

def addOutLabel : Merkle.AddOut → String
  | .added => "reach"
  | .dup => "return false, nil"
  | .errIndex => "return false, ErrPartSetUnexpectedIndex"
  | .errProof => "return false, ErrPartSetInvalidProof"
  | .panic => "panic"

/-- the guard order of `PartSet.AddPart` is the model's `addDecide` (for a part set whose slice has
    `total` slots, with the proof verdict as computed by the model's `verify`, which for an index in
    range and total > 0 is a Boolean - Lemmas/Merkle.lean) -/
theorem addPart_is_addDecide (H : Bytes → Bytes) (N : Bytes → Bytes → Bytes) (ps : Merkle.PartSet) (p : Merkle.Part)
    (doVerify : Bool) (hlen : ps.parts.length = ps.total)
    (hv : ∃ b, Merkle.verify N Merkle.repaired p.index ps.total (H p.bytes) p.aunts ps.hash = .ok b) :
    Gen.t_addPart p.index
      (Merkle.verify N Merkle.repaired p.index ps.total (H p.bytes) p.aunts ps.hash == .ok true)
      ((ps.parts[p.index.toNat]?).join.isSome) ps.total doVerify =
      addOutLabel (Merkle.addDecide H N Merkle.repaired ps p doVerify) := by
  unfold Gen.t_addPart Merkle.addDecide
  by_cases h1 : p.index < 0
  · simp [h1, Merkle.repaired, addOutLabel]
  · by_cases h2 : p.index ≥ (ps.total : Int)
    · simp [h1, h2, Merkle.repaired, addOutLabel]
    · have hlt : p.index.toNat < ps.parts.length := by omega
      have hget : ps.parts[p.index.toNat]? = some (ps.parts[p.index.toNat]) := List.getElem?_eq_getElem hlt
      rw [hget]
      cases hslot : ps.parts[p.index.toNat] with
      | some q => simp [h1, h2, Merkle.repaired, addOutLabel]
      | none =>
        cases doVerify with
        | false => simp [h1, h2, Merkle.repaired, addOutLabel]
        | true =>
          obtain ⟨b, hver⟩ := hv
          have hr : Merkle.repaired = ({ checkNeg := true } : Merkle.Cfg) := rfl
          rw [hr] at hver
          cases b <;> simp [h1, h2, Merkle.repaired, addOutLabel, hver]

/-- `Block.MakePartSet` is `NewPartSetFromData` of the block's serialisation, made for this call (the
    model's part sets are functions of the data: C17's theorems speak of `data`, the block's bytes) -/
theorem makePartSet_is_the_part_set_of_the_serialisation (x : Int) :
    Gen.e_makePartSet (NewPartSetFromData_wire_BinaryBytes_b_partSize := x) = x := rfl

end AnnVerif.Ties
