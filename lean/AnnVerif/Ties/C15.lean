/-
  Tie between the guard order of `VoteSet.addVote` (gemmill/types/vote_set.go) as REGENERATED from
  /repo and the model's `VoteSet.addVote`.
-/
import AnnVerif.Gen.Facts
import AnnVerif.Model.VoteSet
set_option linter.unusedSimpArgs false
namespace AnnVerif.Ties
open AnnVerif AnnVerif.VoteSet

/-- the model's guard order (`VoteSet.addVote`, repaired), as a chain over the outcomes of its tests -/
def addVoteChain (idxNeg addrEmpty stepBad valNone addrNe exSome sigEq sigBad : Bool) : String :=
  if idxNeg then "return false, ErrVoteInvalidValidatorIndex"
  else if addrEmpty then "return false, ErrVoteInvalidValidatorAddress"
  else if stepBad then "return false, fmt.Errorf('%v,Expected %d/%d/%d, but got %d/%d/%d', ErrVoteUnexpectedStep, voteSet.height, voteSet.round, voteSet.type_, vote.Height, vote.Round, vote.Type)"
  else if valNone then "return false, ErrVoteInvalidValidatorIndex"
  else if addrNe then "return false, ErrVoteInvalidValidatorAddress"
  else if exSome then (if sigEq then "return false, nil" else "return false, ErrVoteInvalidSignature")
  else if sigBad then "return false, ErrVoteInvalidSignature"
  else "reach"

/-- the code's if-tree IS that chain, for all values of its variables -/
theorem addVote_tree_is_chain (addrEq : Bool) (lenAddr idx : Int) (sigok valSome sigEq exSome : Bool)
    (sh sr st vh vr vt : Int) :
    Gen.t_voteSet_addVote (bytes_Equal_valAddr_voteSet_valSet_GetByIndex_valIndex_lookupAddr := addrEq) (len_valAddr := lenAddr)
      (valIndex := idx) (voteSet_valSet_GetByIndex_valIndex_val_PubKey_VerifyBytes_SignBytes_voteSet_chainID_vote_vote_Signature := sigok)
      (voteSet_valSet_GetByIndex_valIndex_val_notNil := valSome)
      (voteSet_getVote_valIndex_vote_BlockID_Key_blockKey_existing_Signature_Equals_vote_Signature := sigEq)
      (voteSet_getVote_valIndex_vote_BlockID_Key_blockKey_ok := exSome) (voteSet_height := sh) (voteSet_round := sr)
      (voteSet_type_ := st) (vote_Height := vh) (vote_Round := vr) (vote_Type := vt) =
      addVoteChain (decide (idx < 0)) (lenAddr == 0) ((vh != sh) || (vr != sr) || (vt != st)) (!valSome) (!addrEq)
        exSome sigEq (!sigok) := by
  unfold Gen.t_voteSet_addVote addVoteChain
  by_cases h1 : idx < 0 <;> by_cases h2 : lenAddr = 0 <;> by_cases h3 : vh = sh <;> by_cases h4 : vr = sr <;>
    by_cases h5 : vt = st <;> cases addrEq <;> cases sigok <;> cases valSome <;> cases sigEq <;> cases exSome <;>
    simp [h1, h2, h3, h4, h5]

/-- a vote for another height, round or type than the set's: when the code's step test fires on a
    vote that passed the index and address tests, the model function refuses it with the step error
    and leaves the set as it was -/
theorem addVote_wrong_step_refused (vs : VoteSet) (v : Vote) (sigok : Bool) (h1 : ¬ v.idx < 0) (h2 : v.addr ≠ [])
    (h3 : ((v.height != vs.height) || (v.round != vs.round) || ((v.type : Int) != (vs.type : Int))) = true) :
    addVote repaired vs v sigok = (vs, .errStep) := by
  have h2' : v.addr.isEmpty = false := by cases hv : v.addr <;> simp_all
  have h3' : v.height ≠ vs.height ∨ v.round ≠ vs.round ∨ v.type ≠ vs.type := by
    simp only [Bool.or_eq_true, bne_iff_ne, ne_eq] at h3
    rcases h3 with (h3 | h3) | h3
    · exact Or.inl h3
    · exact Or.inr (Or.inl h3)
    · exact Or.inr (Or.inr (fun e => h3 (by rw [e])))
  unfold addVote
  simp [h1, h2', h3', repaired]

end AnnVerif.Ties
