/-
  Ties between the guards of gemmill/consensus/pbft/state.go as REGENERATED from /repo
  (AnnVerif/Gen/Facts.lean) and the round-state-machine model (Model/Node.lean).
  Two kinds of theorem, each for ALL node states and arguments:
   * `..._iff` : the code's guard, evaluated on the model's fields, is the model's guard;
   * `..._skips` : whenever the code's guard says "ignore", the model function returns the node
     unchanged (a tie to the model FUNCTION, not to a restatement of its condition).
  `RoundStepType` values are the model's `Step.toNat`.
-/
import AnnVerif.Gen.Facts
import AnnVerif.Model.Node
namespace AnnVerif.Ties
open AnnVerif AnnVerif.Node

/-- the enum the model uses for steps is the code's -/
theorem roundSteps :
    Gen.c_RoundStepNewHeight = (Step.newHeight.toNat : Int) ∧ Gen.c_RoundStepNewRound = (Step.newRound.toNat : Int) ∧
    Gen.c_RoundStepPropose = (Step.propose.toNat : Int) ∧ Gen.c_RoundStepPrevote = (Step.prevote.toNat : Int) ∧
    Gen.c_RoundStepPrevoteWait = (Step.prevoteWait.toNat : Int) ∧ Gen.c_RoundStepPrecommit = (Step.precommit.toNat : Int) ∧
    Gen.c_RoundStepPrecommitWait = (Step.precommitWait.toNat : Int) ∧ Gen.c_RoundStepCommit = (Step.commit.toNat : Int) := by
  decide

theorem step_le_iff (a b : Step) : a ≤ b ↔ (a.toNat : Int) ≤ (b.toNat : Int) := by
  show a.toNat ≤ b.toNat ↔ _
  omega

theorem step_lt_iff (a b : Step) : a < b ↔ (a.toNat : Int) < (b.toNat : Int) := by
  show a.toNat < b.toNat ↔ _
  omega

theorem step_eq_iff (a b : Step) : a = b ↔ (a.toNat : Int) = (b.toNat : Int) := by
  constructor
  · intro h; rw [h]
  · intro h; cases a <;> cases b <;> simp [Step.toNat] at h ⊢

/-! ### handleTimeout -/

theorem handleTimeout_stale_iff (n : Node) (h r : Int) (s : Step) :
    Gen.e_handleTimeout_stale n.height n.round n.step.toNat h r s.toNat =
      decide (h ≠ n.height ∨ r < n.round ∨ (r = n.round ∧ s < n.step)) := by
  unfold Gen.e_handleTimeout_stale
  simp only [step_lt_iff]
  by_cases h1 : h = n.height <;> by_cases h2 : r < n.round <;> by_cases h3 : r = n.round <;>
    by_cases h4 : (s.toNat : Int) < n.step.toNat <;> simp [h1, h2, h3, h4]

theorem handleTimeout_stale_skips (n : Node) (h r : Int) (s : Step)
    (g : Gen.e_handleTimeout_stale n.height n.round n.step.toNat h r s.toNat = true) :
    handleTimeout n h r s = n := by
  rw [handleTimeout_stale_iff] at g
  unfold handleTimeout
  rw [if_pos (of_decide_eq_true g)]

/-! ### the enter* functions: `cs.Height != height || round < cs.Round || (cs.Round == round && X <= cs.Step)` -/

theorem guard_iff (n : Node) (h r : Int) (k : Int) (st : Step) (hk : k = st.toNat) :
    (((n.height != h) || (decide (r < n.round))) || ((n.round == r) && (decide (k ≤ (n.step.toNat : Int))))) =
      decide (n.height ≠ h ∨ r < n.round ∨ (n.round = r ∧ st ≤ n.step)) := by
  subst hk
  simp only [step_le_iff]
  by_cases h1 : n.height = h <;> by_cases h2 : r < n.round <;> by_cases h3 : n.round = r <;>
    by_cases h4 : (st.toNat : Int) ≤ n.step.toNat <;> simp [h1, h2, h3, h4]

theorem enterPropose_skips (n : Node) (h r : Int)
    (g : Gen.e_enterPropose_guard n.height n.round n.step.toNat h r = true) : enterPropose n h r = n := by
  unfold Gen.e_enterPropose_guard at g
  rw [guard_iff n h r _ .propose (by decide)] at g
  unfold enterPropose
  rw [if_pos (of_decide_eq_true g)]

theorem enterPrevote_skips (n : Node) (h r : Int)
    (g : Gen.e_enterPrevote_guard n.height n.round n.step.toNat h r = true) : enterPrevote n h r = n := by
  unfold Gen.e_enterPrevote_guard at g
  rw [guard_iff n h r _ .prevote (by decide)] at g
  unfold enterPrevote
  rw [if_pos (of_decide_eq_true g)]

theorem enterPrevote_enters (n : Node) (h r : Int)
    (g : Gen.e_enterPrevote_guard n.height n.round n.step.toNat h r = false) :
    enterPrevote n h r = { doPrevote n with round := r, step := .prevote } := by
  unfold Gen.e_enterPrevote_guard at g
  rw [guard_iff n h r _ .prevote (by decide)] at g
  unfold enterPrevote
  rw [if_neg (of_decide_eq_false g)]

theorem enterPrevoteWait_skips (n : Node) (h r : Int)
    (g : Gen.e_enterPrevoteWait_guard n.height n.round n.step.toNat h r = true) : enterPrevoteWait n h r = n := by
  unfold Gen.e_enterPrevoteWait_guard at g
  rw [guard_iff n h r _ .prevoteWait (by decide)] at g
  unfold enterPrevoteWait
  rw [if_pos (of_decide_eq_true g)]

theorem enterPrecommit_skips (n : Node) (h r : Int)
    (g : Gen.e_enterPrecommit_guard n.height n.round n.step.toNat h r = true) : enterPrecommit n h r = n := by
  unfold Gen.e_enterPrecommit_guard at g
  rw [guard_iff n h r _ .precommit (by decide)] at g
  unfold enterPrecommit
  rw [if_pos (of_decide_eq_true g)]

theorem enterPrecommitWait_skips (n : Node) (h r : Int)
    (g : Gen.e_enterPrecommitWait_guard n.height n.round n.step.toNat h r = true) : enterPrecommitWait n h r = n := by
  unfold Gen.e_enterPrecommitWait_guard at g
  rw [guard_iff n h r _ .precommitWait (by decide)] at g
  unfold enterPrecommitWait
  rw [if_pos (of_decide_eq_true g)]

theorem enterNewRound_guard_iff (n : Node) (h r : Int) :
    Gen.e_enterNewRound_guard n.height n.round n.step.toNat h r =
      decide (n.height ≠ h ∨ r < n.round ∨ (n.round = r ∧ n.step ≠ .newHeight)) := by
  unfold Gen.e_enterNewRound_guard
  have : (n.step ≠ .newHeight) ↔ ((n.step.toNat : Int) ≠ Gen.c_RoundStepNewHeight) := by
    rw [Ne, step_eq_iff]; rfl
  by_cases h1 : n.height = h <;> by_cases h2 : r < n.round <;> by_cases h3 : n.round = r <;>
    by_cases h4 : (n.step.toNat : Int) = Gen.c_RoundStepNewHeight <;> simp [h1, h2, h3, h4, this]

theorem enterNewRound_skips (n : Node) (h r : Int)
    (g : Gen.e_enterNewRound_guard n.height n.round n.step.toNat h r = true) : enterNewRound n h r = n := by
  rw [enterNewRound_guard_iff] at g
  unfold enterNewRound
  rw [if_pos (of_decide_eq_true g)]

theorem enterCommit_skips (n : Node) (h cr : Int)
    (g : Gen.e_enterCommit_guard n.height n.step.toNat h = true) : enterCommit n h cr = n := by
  unfold Gen.e_enterCommit_guard at g
  have : n.height ≠ h ∨ Step.commit ≤ n.step := by
    rw [step_le_iff]
    simp only [Bool.or_eq_true, bne_iff_ne, ne_eq, decide_eq_true_eq] at g
    exact g
  unfold enterCommit
  rw [if_pos this]

theorem finalizeCommit_skips (n : Node) (h : Int)
    (g : Gen.e_finalizeCommit_guard n.height n.step.toNat h = true) : finalizeCommit n h = n := by
  unfold Gen.e_finalizeCommit_guard at g
  have : n.height ≠ h ∨ n.step ≠ .commit := by
    simp only [Bool.or_eq_true, bne_iff_ne, ne_eq] at g
    rcases g with g | g
    · exact Or.inl g
    · exact Or.inr (by rw [Ne, step_eq_iff]; exact g)
  unfold finalizeCommit
  rw [if_pos this]

/-! ### defaultSetProposal -/

theorem setProposal_skips (n : Node) (p : Proposal) (signer : Nat) (bad : Bool)
    (g : (Gen.e_setProposal_wrongHR n.height n.round p.height p.round ||
          Gen.e_setProposal_inCommit n.step.toNat ||
          Gen.e_setProposal_badPOL p.polRound p.round) = true) : setProposal n p signer bad = n := by
  unfold Gen.e_setProposal_wrongHR Gen.e_setProposal_inCommit Gen.e_setProposal_badPOL at g
  simp only [Bool.or_eq_true, Bool.and_eq_true, bne_iff_ne, ne_eq, decide_eq_true_eq] at g
  unfold setProposal
  by_cases hp : n.proposal.isSome
  · rw [if_pos hp]
  · rw [if_neg hp]
    by_cases h1 : p.height ≠ n.height ∨ p.round ≠ n.round
    · rw [if_pos h1]
    · rw [if_neg h1]
      by_cases h2 : Step.commit ≤ n.step
      · rw [if_pos h2]
      · rw [if_neg h2]
        rcases g with (g | g) | g
        · exact absurd g h1
        · exact absurd ((step_le_iff .commit n.step).mpr g) h2
        · rw [if_pos (by simpa using g)]

/-! ### addVote -/

/-- the unlock guard `(cs.LockedBlock != nil) && (cs.LockedRound < vote.Round) && (vote.Round <= cs.Round)` -/
theorem addVote_unlock_iff (n : Node) (vr : Int) :
    Gen.e_addVote_unlock n.lockedBlock.isSome n.lockedRound n.round vr =
      decide (n.lockedBlock.isSome ∧ n.lockedRound < vr ∧ vr ≤ n.round) := by
  unfold Gen.e_addVote_unlock
  by_cases h1 : n.lockedBlock.isSome <;> by_cases h2 : n.lockedRound < vr <;> by_cases h3 : vr ≤ n.round <;>
    simp [h1, h2, h3]

/-- a vote that is neither for the node's height nor a straggler precommit of the previous one
    leaves the model node unchanged, as decided by the code's own conditions -/
theorem addVote_foreign_height_skips (n : Node) (v : VoteSet.Vote) (ok : Bool) (peer : String)
    (g1 : Gen.e_addVote_lastHeight n.height v.height = false) (g2 : v.height ≠ n.height) :
    addVote n v ok peer = n := by
  unfold Gen.e_addVote_lastHeight at g1
  have h1 : ¬ (v.height + 1 = n.height) := by simpa using g1
  unfold addVote
  rw [if_neg h1, if_neg g2]

theorem addVote_straggler_skips (n : Node) (v : VoteSet.Vote) (ok : Bool) (peer : String)
    (g1 : Gen.e_addVote_lastHeight n.height v.height = true)
    (g2 : Gen.e_addVote_straggler n.step.toNat v.type = true) : addVote n v ok peer = n := by
  unfold Gen.e_addVote_lastHeight at g1
  unfold Gen.e_addVote_straggler at g2
  have h1 : v.height + 1 = n.height := by simpa using g1
  have h2 : (!(n.step = .newHeight ∧ v.type = 2)) = true := by
    simp only [Bool.not_eq_true', Bool.and_eq_false_iff, beq_eq_false_iff_ne, ne_eq] at g2
    simp only [Bool.not_eq_true', decide_eq_false_iff_not, not_and]
    intro hs ht
    rcases g2 with g2 | g2
    · exact g2 (by rw [hs]; rfl)
    · exact g2 (by rw [ht]; rfl)
  unfold addVote
  rw [if_pos h1, if_pos h2]

theorem addVote_any_iff (round vr : Int) (any : Bool) :
    Gen.e_addVote_prevoteAny round any vr = decide (round ≤ vr ∧ any) ∧
    Gen.e_addVote_precommitAny round any vr = decide (round ≤ vr ∧ any) := by
  unfold Gen.e_addVote_prevoteAny Gen.e_addVote_precommitAny
  by_cases h : round ≤ vr <;> cases any <;> simp [h]

theorem enterPrecommit_polRound_iff (pol r : Int) : Gen.e_enterPrecommit_polRound pol r = decide (pol < r) := rfl

/-- `defaultDoPrevote`: the vote for the locked block is signed exactly when a block is locked - no
    other condition stands in front of it (the model's `doPrevote`: `match n.lockedBlock with | some b => ...`) -/
theorem doPrevote_locked_votes_lock (l : Bool) :
    Gen.t_doPrevote_lock (cs_LockedBlock_notNil := l) = "reach" ↔ l = true := by
  unfold Gen.t_doPrevote_lock
  cases l <;> simp

/-- `defaultDoPrevote`: the proposal block is prevoted exactly when nothing is locked, a proposal
    block is there and it validates (the model's `doPrevote`, second half) -/
theorem doPrevote_block_iff (l p e : Bool) :
    Gen.t_doPrevote_block (cs_LockedBlock_notNil := l) (cs_ProposalBlock_notNil := p)
      (cs_state_ValidateBlock_cs_ProposalBlock_err_notNil := e) = "reach" ↔ (l = false ∧ p = true ∧ e = false) := by
  unfold Gen.t_doPrevote_block
  cases l <;> cases p <;> cases e <;> simp

end AnnVerif.Ties
