/-
  Tie: `BlockID.Equals` / `PartSetHeader.Equals` (gemmill/types) are EXACTLY the structural equality of
  the model's block ids - header hash AND part-set total AND part-set hash, nothing less and no case
  apart (C13, C15, C02: "votes for another id justify nothing" rests on it).
-/
import AnnVerif.Gen.Facts
import AnnVerif.Model.VoteSet
namespace AnnVerif.Ties
open AnnVerif

theorem partSetHeader_equals_iff (t1 t2 : Int) (h : Bool) :
    Gen.e_partSetHeader_equals (psh_Total := t1) (other_Total := t2) (bytes_Equal_psh_Hash_other_Hash := h) =
      (decide (t1 = t2) && h) := by
  unfold Gen.e_partSetHeader_equals
  by_cases e : t1 = t2 <;> simp [e]

theorem blockID_equals_is_model_equality (a b : VoteSet.BlockID) :
    Gen.e_blockID_equals (bytes_Equal_blockID_Hash_other_Hash := decide (a.hash = b.hash))
      (blockID_PartsHeader_Equals_other_PartsHeader :=
        Gen.e_partSetHeader_equals (psh_Total := a.total) (other_Total := b.total)
          (bytes_Equal_psh_Hash_other_Hash := decide (a.phash = b.phash))) = decide (a = b) := by
  unfold Gen.e_blockID_equals
  rw [partSetHeader_equals_iff]
  obtain ⟨h1, t1, p1⟩ := a
  obtain ⟨h2, t2, p2⟩ := b
  simp only [VoteSet.BlockID.mk.injEq]
  by_cases e1 : h1 = h2 <;> by_cases e2 : t1 = t2 <;> by_cases e3 : p1 = p2 <;> simp [e1, e2, e3]
/-- `addVerifiedVote`, at the moment a block first reaches +2/3: EVERY vote held for that block is
    copied into the primary array (the condition is "the slot holds a vote", nothing else) - so the
    commit made from the array carries the votes of the majority (C15 `commit_verifies`, C02) -/
theorem voteSet_copies_every_vote_of_the_majority (b : Bool) : Gen.e_voteSet_copy_cond (vote_notNil := b) = b := rfl

/-- ... and that conjunction is the WHOLE function: one return, no case apart (no early answer for ids
    without hash, for instance) -/
theorem blockID_equals_has_no_special_case :
    Gen.t_blockID_equals_shape =
      "return bytes.Equal(blockID.Hash, other.Hash) && blockID.PartsHeader.Equals(other.PartsHeader)" := rfl

end AnnVerif.Ties
