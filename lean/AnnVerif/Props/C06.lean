/-
  C06 — Crash-atomic commit: restart after any crash converges to the uncrashed result.

  Theorems about Model/Crash.lean (what each class of durable write makes durable; the node's
  start-up reconciliation: EVMApp.Start, the NewBlockchainReactor height adjustment, RecoverFromCrash,
  reconstructLastCommit):

  K1 ordered_startup          for EVERY disk image that respects the three ordering facts (the store
                              descriptor after everything of the block; the application marker after the
                              trie of its root and after the descriptor; the saved state after marker and
                              intermediate state) start-up succeeds - except in ONE window: descriptor
                              and marker durable, state not yet saved
  K2 asIs_ordered             the order in which the node issues the writes of a commit keeps the three
                              facts at EVERY crash point (any number of block parts, any number of
                              trailing WAL / signer writes)
  K3 asIs_startup_partial     hence start-up succeeds after a crash at every point of a commit outside
                              that window
  K4 asIs_window_fails        in the window it fails (counter-theorem; the engine reproduces it on the
                              real node: known finding, not repaired)
  K5 marker_before_trie_fails / descriptor_before_seen_unordered
                              reordered commits (the two seeded changes) break a fact at some crash point
-/
import AnnVerif.Model.Crash
namespace AnnVerif.C06
open AnnVerif.Crash

/-- the window: block stored, application committed, state not saved -/
def InWindow (d : Disk) : Prop := d.store = true ∧ d.app = true ∧ d.state = false

theorem orderedB_iff (d : Disk) : orderedB d = true ↔ Ordered d := by
  rcases d with ⟨m, p, lc, sc, st, i, t, a, r, s⟩
  cases st <;> cases a <;> cases s <;> cases t <;> cases m <;> cases p <;> cases sc <;> cases lc <;> cases i <;>
    simp [orderedB, Ordered]

/-- K1 -/
theorem ordered_startup (d : Disk) (h : Ordered d) :
    startup false d = .ok ∨ (InWindow d ∧ startup false d = .appAhead) := by
  rcases d with ⟨m, p, lc, sc, st, i, t, a, r, s⟩
  simp only [Ordered] at h
  cases st <;> cases a <;> cases s <;> cases t <;> cases m <;> cases p <;> cases sc <;> cases lc <;> cases i <;>
    simp_all [startup, InWindow]

theorem foldl_others (d : Disk) (k : Nat) : (List.replicate k W.other).foldl apply d = d := by
  induction k with
  | zero => rfl
  | succ k ih => simpa [List.replicate_succ, apply] using ih

/-- a property that holds at every crash point of `rest`, started with and without the parts saved,
    holds at every crash point of `parts ++ rest` -/
theorem parts_prefix (P : Disk → Prop) (rest : List W) :
    ∀ (n : Nat) (d : Disk),
    (∀ j, P ((rest.take j).foldl apply d)) →
    (∀ j, P ((rest.take j).foldl apply { d with parts := true })) →
    ∀ j, P (((partsThen n rest).take j).foldl apply d) := by
  intro n
  induction n with
  | zero => intro d h1 _ j; exact h1 j
  | succ n ih =>
    intro d h1 h2 j
    cases j with
    | zero => simpa using h1 0
    | succ j =>
      simp only [partsThen, List.take_succ_cons, List.foldl_cons]
      exact ih { d with parts := true } h2 h2 j

/-- crash points inside and after the fixed tail -/
theorem tail_prefix (P : Disk → Prop) (d : Disk) (k : Nat)
    (h : ∀ j, j ≤ afterParts.length → P ((afterParts.take j).foldl apply d)) :
    ∀ j, P (((afterParts ++ List.replicate k W.other).take j).foldl apply d) := by
  intro j
  rw [List.take_append, List.foldl_append]
  have : List.take (j - afterParts.length) (List.replicate k W.other) =
      List.replicate (min (j - afterParts.length) k) W.other := by simp [List.take_replicate]
  rw [this, foldl_others]
  by_cases hj : j ≤ afterParts.length
  · exact h j hj
  · have : afterParts.take j = afterParts.take afterParts.length := by
      rw [List.take_length]; exact List.take_of_length_le (by omega)
    rw [this]; exact h _ (Nat.le_refl _)

theorem all_le_ten (Q : Nat → Prop) (h0 : Q 0) (h1 : Q 1) (h2 : Q 2) (h3 : Q 3) (h4 : Q 4) (h5 : Q 5)
    (h6 : Q 6) (h7 : Q 7) (h8 : Q 8) (h9 : Q 9) (h10 : Q 10) : ∀ j, j ≤ 10 → Q j := by
  intro j hj
  match j, hj with
  | 0, _ => exact h0 | 1, _ => exact h1 | 2, _ => exact h2 | 3, _ => exact h3 | 4, _ => exact h4
  | 5, _ => exact h5 | 6, _ => exact h6 | 7, _ => exact h7 | 8, _ => exact h8 | 9, _ => exact h9
  | 10, _ => exact h10

/-- K2: the node's own order keeps the ordering facts at every crash point (a block has at least
    one part) -/
theorem asIs_ordered (nParts nOther j : Nat) : Ordered (crashDisk (commitWrites (nParts + 1) nOther) j) := by
  unfold crashDisk commitWrites
  cases hj : j - 1 with
  | zero => simp [Ordered]
  | succ i =>
    simp only [List.take_succ_cons, List.foldl_cons, partsThen]
    cases i with
    | zero => simp [Ordered, apply]
    | succ i =>
      simp only [List.take_succ_cons, List.foldl_cons]
      apply parts_prefix Ordered _ nParts
      · apply tail_prefix
        apply all_le_ten <;> simp [afterParts, apply, Ordered]
      · apply tail_prefix
        apply all_le_ten <;> simp [afterParts, apply, Ordered]

/-- K3 -/
theorem asIs_startup_partial (nParts nOther j : Nat) :
    startup false (crashDisk (commitWrites (nParts + 1) nOther) j) = .ok ∨
    (InWindow (crashDisk (commitWrites (nParts + 1) nOther) j) ∧
     startup false (crashDisk (commitWrites (nParts + 1) nOther) j) = .appAhead) :=
  ordered_startup _ (asIs_ordered nParts nOther j)

/-- K1', K3' for the first block: start-up always succeeds, but in the window block 1 is executed
    again on an application that has already committed it -/
theorem ordered_startup_first (d : Disk) (h : Ordered d) :
    startup true d = .ok ∨ (InWindow d ∧ startup true d = .okReexecuted) := by
  rcases d with ⟨m, p, lc, sc, st, i, t, a, r, s⟩
  simp only [Ordered] at h
  cases st <;> cases a <;> cases s <;> cases t <;> cases m <;> cases p <;> cases sc <;> cases lc <;> cases i <;>
    simp_all [startup, InWindow]

theorem asIs_startup_first_partial (nParts nOther j : Nat) :
    startup true (crashDisk (commitWrites (nParts + 1) nOther) j) = .ok ∨
    (InWindow (crashDisk (commitWrites (nParts + 1) nOther) j) ∧
     startup true (crashDisk (commitWrites (nParts + 1) nOther) j) = .okReexecuted) :=
  ordered_startup_first _ (asIs_ordered nParts nOther j)

/-- K4: the window is real - a crash before the receipts batch or before State.Save -/
theorem asIs_window_fails :
    startup false (crashDisk (commitWrites 1 3) 11) = .appAhead ∧
    startup false (crashDisk (commitWrites 1 3) 12) = .appAhead ∧
    startup false (crashDisk (commitWrites 1 3) 10) = .ok ∧
    startup false (crashDisk (commitWrites 1 3) 13) = .ok ∧
    startup true (crashDisk (commitWrites 1 3) 12) = .okReexecuted := by decide

/-- K5a (seed: marker written before the trie is flushed) -/
def markerFirst : List W :=
  [.bmeta, .part, .lastCommit, .seenCommit, .descriptor, .flush, .other, .interm, .marker, .trie, .receipts, .stateKey]

theorem marker_before_trie_fails :
    startup false (crashDisk markerFirst 10) = .appCannotOpen ∧ ¬ Ordered (crashDisk markerFirst 10) := by
  constructor
  · decide
  · simp [Ordered, crashDisk, markerFirst, apply]

/-- K5b (seed: descriptor written before the seen commit) -/
def descriptorFirst : List W :=
  [.bmeta, .part, .lastCommit, .descriptor, .seenCommit, .interm, .trie, .marker, .receipts, .stateKey]

theorem descriptor_before_seen_unordered : ¬ Ordered (crashDisk descriptorFirst 5) := by
  simp [Ordered, crashDisk, descriptorFirst, apply]

/-! ### non-vacuity -/
example : crashDisk (commitWrites 2 5) 40 = ⟨true, true, true, true, true, true, true, true, true, true⟩ := by decide
example : (crashDisk (commitWrites 2 5) 7).store = true ∧ (crashDisk (commitWrites 2 5) 7).app = false := by decide

end AnnVerif.C06
