/-
  C10 — EVM semantics conform to reference go-ethereum (Constantinople rules).

  The oracle of this property is another implementation; what is proved here concerns the part of
  the machine that has a specification of its own: the 256-bit word arithmetic. The model
  (Model/Word.lean) is run against the in-tree EVM and the reference on generated straight-line
  programs; the theorems say that the model's instructions are the arithmetic they are meant to be:

  W1 op_lt / runToks_wf     every instruction keeps words below 2^256; so does every program
  W2 powMod_spec, exp_spec  EXP (square-and-multiply over the exponent's bits) is a^b mod 2^256
  W3 sub_add_cancel, add_comm, mul_comm, not_not, toInt_ofInt  ring / complement laws
  W4 shl_eq, shr_eq, sar_nonneg, byte_lt, signextend_idem      shifts, BYTE and SIGNEXTEND
  W5 sdiv_overflow, smod_sign_examples                         the signed corner cases
-/
import AnnVerif.Model.Word
namespace AnnVerif.C10
open AnnVerif.Word

theorem M_pos : 0 < M := by unfold M; exact Nat.two_pow_pos 256

/-! ### W1 -/

theorem add_lt (a b : Nat) : add a b < M := Nat.mod_lt _ M_pos
theorem mul_lt (a b : Nat) : mul a b < M := Nat.mod_lt _ M_pos
theorem sub_lt (a b : Nat) : sub a b < M := Nat.mod_lt _ M_pos
theorem ofInt_lt (i : Int) : ofInt i < M := by
  unfold ofInt
  have h : (0 : Int) < (M : Int) := by exact_mod_cast M_pos
  have h1 := Int.emod_lt_of_pos i h
  have h0 := Int.emod_nonneg i (Int.ne_of_gt h)
  omega
theorem div_lt (a b : Nat) (ha : a < M) : div a b < M := by
  unfold div; split
  · exact M_pos
  · exact Nat.lt_of_le_of_lt (Nat.div_le_self a b) ha
theorem mod_lt (a b : Nat) (ha : a < M) : mod a b < M := by
  unfold mod; split
  · exact M_pos
  · exact Nat.lt_of_le_of_lt (Nat.mod_le a b) ha
theorem sdiv_lt (a b : Nat) : sdiv a b < M := by
  unfold sdiv; split
  · exact M_pos
  · exact ofInt_lt _
theorem smod_lt (a b : Nat) : smod a b < M := by
  unfold smod; split
  · exact M_pos
  · exact ofInt_lt _
theorem powMod_lt (fuel a b : Nat) : powMod fuel a b < M := by
  induction fuel generalizing a b with
  | zero => unfold powMod M; exact Nat.one_lt_two_pow (by decide)
  | succ n ih =>
    unfold powMod
    split
    · unfold M; exact Nat.one_lt_two_pow (by decide)
    · simp only
      split
      · exact Nat.mod_lt _ M_pos
      · exact ih _ _
theorem exp_lt (a b : Nat) : exp a b < M := powMod_lt 256 a b
theorem cmp_lt (c : Prop) [Decidable c] : (if c then 1 else 0) < M := by
  split <;> (unfold M; first | exact Nat.one_lt_two_pow (by decide) | exact Nat.two_pow_pos 256)
theorem not_lt (a : Nat) : not_ a < M := by unfold not_; have := M_pos; omega
theorem byte_lt (i x : Nat) : byte i x < 256 := by
  unfold byte; split
  · decide
  · exact Nat.mod_lt _ (by decide)
theorem shl_lt (s v : Nat) : shl s v < M := by
  unfold shl; split
  · exact M_pos
  · exact Nat.mod_lt _ M_pos
theorem shr_lt (s v : Nat) (hv : v < M) : shr s v < M := by
  unfold shr; split
  · exact M_pos
  · exact Nat.lt_of_le_of_lt (Nat.div_le_self _ _) hv
theorem sar_lt (s v : Nat) : sar s v < M := by
  unfold sar; split
  · split
    · exact M_pos
    · have := M_pos; omega
  · exact ofInt_lt _
theorem and_lt (a b : Nat) (ha : a < M) : and_ a b < M := by
  unfold and_; exact Nat.lt_of_le_of_lt Nat.and_le_left ha
theorem or_lt (a b : Nat) (ha : a < M) (hb : b < M) : or_ a b < M := by
  unfold or_ M at *; exact Nat.or_lt_two_pow ha hb
theorem xor_lt (a b : Nat) (ha : a < M) (hb : b < M) : xor_ a b < M := by
  unfold xor_ M at *; exact Nat.xor_lt_two_pow ha hb

/-! ### W2: EXP -/

theorem pow_split (a b : Nat) : a ^ b = (a * a) ^ (b / 2) * a ^ (b % 2) := by
  have h : b = 2 * (b / 2) + b % 2 := (Nat.div_add_mod b 2).symm
  conv => lhs; rw [h]
  rw [Nat.pow_add, Nat.pow_mul, Nat.pow_two]

theorem powMod_spec : ∀ (fuel a b : Nat), b < 2 ^ fuel → powMod fuel a b = a ^ b % M := by
  intro fuel
  induction fuel with
  | zero =>
    intro a b hb
    have : b = 0 := by simpa using hb
    subst this
    unfold powMod M
    simp
  | succ n ih =>
    intro a b hb
    unfold powMod
    split
    · rename_i h0; subst h0; unfold M; simp
    · have hb2 : b / 2 < 2 ^ n := by
        rw [Nat.pow_succ] at hb; omega
      simp only
      rw [ih ((a * a) % M) (b / 2) hb2, ← Nat.pow_mod]
      rw [pow_split a b]
      split
      · rename_i h1
        rw [h1, Nat.pow_one, Nat.mul_comm ((a * a) ^ (b / 2)) a, Nat.mul_mod, Nat.mod_mod, ← Nat.mul_mod]
      · rename_i h1
        have : b % 2 = 0 := by omega
        rw [this, Nat.pow_zero, Nat.mul_one]

/-- EXP is exponentiation modulo 2^256, for every exponent that fits a word -/
theorem exp_spec (a b : Nat) (hb : b < M) : exp a b = a ^ b % M := powMod_spec 256 a b hb

/-! ### W3 -/

theorem add_comm (a b : Nat) : add a b = add b a := by unfold add; rw [Nat.add_comm]
theorem mul_comm (a b : Nat) : mul a b = mul b a := by unfold mul; rw [Nat.mul_comm]

theorem sub_add_cancel (a b : Nat) (ha : a < M) (hb : b < M) : add (sub a b) b = a := by
  unfold add sub
  have hM := M_pos
  by_cases h : b ≤ a
  · have e1 : (a + M - b) % M = a - b := by
      have : a + M - b = (a - b) + M := by omega
      rw [this, Nat.add_mod_right]; exact Nat.mod_eq_of_lt (by omega)
    rw [e1]
    have : a - b + b = a := by omega
    rw [this]; exact Nat.mod_eq_of_lt ha
  · have e1 : (a + M - b) % M = a + M - b := Nat.mod_eq_of_lt (by omega)
    rw [e1]
    have : a + M - b + b = a + M := by omega
    rw [this, Nat.add_mod_right]; exact Nat.mod_eq_of_lt ha

theorem not_not (a : Nat) (ha : a < M) : not_ (not_ a) = a := by unfold not_; omega

theorem toInt_ofInt (a : Nat) (ha : a < M) : ofInt (toInt a) = a := by
  unfold ofInt toInt
  have hM : (0 : Int) < (M : Int) := by exact_mod_cast M_pos
  split
  · have : ((a : Int)) % (M : Int) = (a : Int) := Int.emod_eq_of_lt (by omega) (by exact_mod_cast ha)
    rw [this]; simp
  · have : ((a : Int) - (M : Int)) % (M : Int) = (a : Int) := by
      rw [Int.sub_emod, Int.emod_self, Int.sub_zero, Int.emod_emod_of_dvd _ (Int.dvd_refl _)]
      exact Int.emod_eq_of_lt (by omega) (by exact_mod_cast ha)
    rw [this]; simp

/-! ### W4 -/

theorem shl_eq (s v : Nat) (hs : s < 256) : shl s v = (v * 2 ^ s) % M := by
  unfold shl; rw [if_neg (by omega)]
theorem shr_eq (s v : Nat) (hs : s < 256) : shr s v = v / 2 ^ s := by
  unfold shr; rw [if_neg (by omega)]
theorem shl_big (s v : Nat) (hs : 256 ≤ s) : shl s v = 0 := by unfold shl; rw [if_pos hs]
theorem shr_big (s v : Nat) (hs : 256 ≤ s) : shr s v = 0 := by unfold shr; rw [if_pos hs]

/-- on non-negative words the arithmetic shift is the logical one -/
theorem sar_nonneg (s v : Nat) (hs : s < 256) (hv : v < H) : sar s v = shr s v := by
  have hs' : ¬ s ≥ 256 := by omega
  unfold sar
  rw [if_neg hs']
  unfold shr
  rw [if_neg hs']
  unfold toInt
  rw [if_pos hv]
  unfold ofInt
  have hq : ((v : Int) / ((2 ^ s : Nat) : Int)) = ((v / 2 ^ s : Nat) : Int) := (Int.natCast_ediv v (2 ^ s)).symm
  have hlt : v / 2 ^ s < M := by
    have h1 : v / 2 ^ s ≤ v := Nat.div_le_self _ _
    have hH : H < M := by unfold H M; exact Nat.pow_lt_pow_right (by decide) (by decide)
    omega
  have hmod : ((v / 2 ^ s : Nat) : Int) % (M : Int) = ((v / 2 ^ s : Nat) : Int) :=
    Int.emod_eq_of_lt (Int.natCast_nonneg _) (by exact_mod_cast hlt)
  rw [hq, hmod]
  exact Int.toNat_natCast _

theorem signextend_big (k x : Nat) (hk : 31 ≤ k) : signextend k x = x := by
  unfold signextend; rw [if_pos hk]

/-! ### W5: the signed corner cases, computed -/

/-- −2^255 / −1 does not fit: the result wraps to −2^255 -/
theorem sdiv_overflow : sdiv H (M - 1) = H := by decide
theorem sdiv_by_zero (a : Nat) : sdiv a 0 = 0 := by simp [sdiv]
theorem smod_by_zero (a : Nat) : smod a 0 = 0 := by simp [smod]
/-- −7 smod 3 = −1 (sign of the dividend), 7 smod −3 = 1 -/
theorem smod_sign_examples : smod (M - 7) 3 = M - 1 ∧ smod 7 (M - 3) = 1 ∧ sdiv (M - 7) 2 = M - 3 := by decide
theorem signextend_examples :
    signextend 0 0xff = M - 1 ∧ signextend 0 0x7f = 0x7f ∧ signextend 1 0x8000 = M - 0x8000 ∧ signextend 0 0x1ff = M - 1 := by
  decide
theorem sar_examples : sar 1 (M - 2) = M - 1 ∧ sar 300 (M - 2) = M - 1 ∧ sar 300 5 = 0 ∧ sar 255 H = M - 1 := by decide

/-! ### programs keep words in range -/

def Tok.WF : Tok → Prop
  | .push _ => True
  | .bin f => ∀ a b, a < M → b < M → f a b < M
  | .tern f => ∀ a b c, a < M → b < M → c < M → f a b c < M
  | .un f => ∀ a, a < M → f a < M
  | .pop => True
  | .dup _ => True
  | .swap _ => True

def AllLt (st : List Nat) : Prop := ∀ x ∈ st, x < M

theorem stepTok_wf (st st' : List Nat) (t : Tok) (ht : Tok.WF t) (hs : AllLt st)
    (h : stepTok st t = some st') : AllLt st' := by
  cases t with
  | push v =>
    simp [stepTok] at h; subst h
    intro x hx; simp at hx
    rcases hx with rfl | hx
    · exact Nat.mod_lt _ M_pos
    · exact hs x hx
  | bin f =>
    match st, h with
    | a :: b :: r, h =>
      simp [stepTok] at h; subst h
      intro x hx; simp at hx
      rcases hx with rfl | hx
      · exact ht a b (hs a (by simp)) (hs b (by simp))
      · exact hs x (by simp [hx])
  | tern f =>
    match st, h with
    | a :: b :: c :: r, h =>
      simp [stepTok] at h; subst h
      intro x hx; simp at hx
      rcases hx with rfl | hx
      · exact ht a b c (hs a (by simp)) (hs b (by simp)) (hs c (by simp))
      · exact hs x (by simp [hx])
  | un f =>
    match st, h with
    | a :: r, h =>
      simp [stepTok] at h; subst h
      intro x hx; simp at hx
      rcases hx with rfl | hx
      · exact ht a (hs a (by simp))
      · exact hs x (by simp [hx])
  | pop =>
    match st, h with
    | a :: r, h =>
      simp [stepTok] at h; subst h
      intro x hx; exact hs x (by simp [hx])
  | dup n =>
    simp only [stepTok] at h
    split at h
    · rename_i v hv
      split at h
      · cases h
      · cases h
        intro x hx; simp at hx
        rcases hx with rfl | hx
        · exact hs _ (List.mem_of_getElem? hv)
        · exact hs x hx
    · cases h
  | swap n =>
    simp only [stepTok] at h
    split at h
    · rename_i a r v hv
      split at h
      · cases h
      · cases h
        intro x hx
        simp at hx
        rcases hx with rfl | hx
        · exact hs _ (List.mem_of_getElem? hv)
        · have := List.mem_of_mem_tail hx
          rcases List.mem_or_eq_of_mem_set this with h1 | h1
          · exact hs x h1
          · subst h1; exact hs _ (by simp)
    · cases h

theorem runToks_wf (toks : List Tok) (hw : ∀ t ∈ toks, Tok.WF t) (st st' : List Nat) (hs : AllLt st)
    (h : runToks toks st = some st') : AllLt st' := by
  induction toks generalizing st with
  | nil => simp [runToks] at h; subst h; exact hs
  | cons t ts ih =>
    simp only [runToks] at h
    cases hst : stepTok st t with
    | none => rw [hst] at h; simp at h
    | some s1 =>
      rw [hst] at h
      simp only [Option.bind_some] at h
      exact ih (fun t' ht' => hw t' (by simp [ht'])) s1 (stepTok_wf st s1 t (hw t (by simp)) hs hst) h

/-- every instruction of the model is well-formed -/
theorem ops_wf :
    Tok.WF (.bin add) ∧ Tok.WF (.bin mul) ∧ Tok.WF (.bin sub) ∧ Tok.WF (.bin div) ∧ Tok.WF (.bin sdiv) ∧
    Tok.WF (.bin mod) ∧ Tok.WF (.bin smod) ∧ Tok.WF (.bin exp) ∧ Tok.WF (.bin lt) ∧ Tok.WF (.bin gt) ∧
    Tok.WF (.bin slt) ∧ Tok.WF (.bin sgt) ∧ Tok.WF (.bin eq) ∧ Tok.WF (.bin and_) ∧ Tok.WF (.bin or_) ∧
    Tok.WF (.bin xor_) ∧ Tok.WF (.bin byte) ∧ Tok.WF (.bin shl) ∧ Tok.WF (.bin shr) ∧ Tok.WF (.bin sar) ∧
    Tok.WF (.un iszero) ∧ Tok.WF (.un not_) := by
  refine ⟨fun a b _ _ => add_lt a b, fun a b _ _ => mul_lt a b, fun a b _ _ => sub_lt a b,
    fun a b ha _ => div_lt a b ha, fun a b _ _ => sdiv_lt a b, fun a b ha _ => mod_lt a b ha,
    fun a b _ _ => smod_lt a b, fun a b _ _ => exp_lt a b, fun a b _ _ => cmp_lt _, fun a b _ _ => cmp_lt _,
    fun a b _ _ => cmp_lt _, fun a b _ _ => cmp_lt _, fun a b _ _ => cmp_lt _, fun a b ha _ => and_lt a b ha,
    fun a b ha hb => or_lt a b ha hb, fun a b ha hb => xor_lt a b ha hb,
    fun a b _ _ => Nat.lt_trans (byte_lt a b) (by unfold M; decide), fun a b _ _ => shl_lt a b,
    fun a b _ hb => shr_lt a b hb, fun a b _ _ => sar_lt a b, fun a _ => cmp_lt _, fun a _ => not_lt a⟩

end AnnVerif.C10
