/-
  C09 — Transaction execution is total, atomic and replay-protected (the application wrapper).

  Model: Model/App.lean `applyTx` / `execTxs` (validity as decided by tryValidate, preCheck, buyGas,
  intrinsic gas, CanTransfer, executeKVTx). The EVM itself is opaque: a transaction that passes the
  checks is "applied" and its receipt is an oracle input; what the EVM does to contract storage is
  covered by C10/C11, that an invalid transaction leaves no trace in the REAL state is decided per
  run by replica D of the evmapp engine (the block without the invalid transactions gives the same
  application hash).
  PROVED (repaired code), for every account state and every transaction:
    A1  total: no transaction makes the executor panic (as found: empty bytes and malformed input
        to the governance precompile do — counter-theorems with code witnesses);
    A2  atomic: a transaction reported invalid leaves the accounts exactly as they were;
    A3  a signed transaction is applied only when its nonce equals its sender's current nonce, and
        applying it raises that nonce by exactly one and no other account's nonce;
    A4  replay protection: nonces never decrease, so in ANY sequence of transactions (over any
        number of blocks) a signed transaction (sender, nonce) takes effect at most once
        (as found: a key-value transaction is applied again — counter-theorem).
-/
import AnnVerif.Lemmas.App
namespace AnnVerif.C09
open AnnVerif AnnVerif.App

/-- A1 -/
theorem no_panic (as : Accounts) (t : Tx) : (applyTx repaired as t).2 ≠ .panic := by
  cases t with
  | empty => simp [applyTx, repaired]
  | garbage => simp [applyTx]
  | badSig => simp [applyTx]
  | signed s n k v g p z nz =>
    cases k with
    | kv key val ok =>
      simp only [applyTx]
      split
      · simp
      · split <;> simp
    | call to bad =>
      simp only [applyTx]
      split; · simp
      split; · simp
      split; · simp
      split; · simp
      split
      · rename_i h; simp [repaired] at h
      · simp
    | create =>
      simp only [applyTx]
      split; · simp
      split; · simp
      split; · simp
      split <;> simp

theorem asFound_empty_bytes_panic (as : Accounts) : (applyTx asFound as .empty).2 = .panic := by
  simp [applyTx, asFound]

theorem asFound_admin_input_panics :
    (applyTx asFound [] (.signed 0 0 (.call 1000 true) 0 300000 0 0 2)).2 = .panic := by decide

/-- A2 -/
theorem invalid_leaves_no_trace (cfg : Cfg) (as : Accounts) (t : Tx)
    (h : (applyTx cfg as t).2 = .invalid) : (applyTx cfg as t).1 = as := by
  cases t with
  | empty => simp only [applyTx] at h ⊢; split <;> rfl
  | garbage => rfl
  | badSig => rfl
  | signed s n k v g p z nz =>
    cases k with
    | kv key val ok =>
      simp only [applyTx] at h ⊢
      split; · rfl
      · rename_i h1
        split; · rfl
        · rename_i h2; simp [h1, h2] at h
    | call to bad =>
      simp only [applyTx] at h ⊢
      by_cases h1 : n ≠ (getAcc as s).nonce
      · rw [if_pos h1]
      · rw [if_neg h1] at h ⊢
        by_cases h2 : (getAcc as s).balance < g * p
        · rw [if_pos h2]
        · rw [if_neg h2] at h ⊢
          by_cases h3 : g < intrinsicGas z nz
          · rw [if_pos h3]
          · rw [if_neg h3] at h ⊢
            by_cases h4 : (getAcc as s).balance - g * p < v
            · rw [if_pos h4]
            · rw [if_neg h4] at h ⊢
              by_cases h5 : (bad = true ∧ (!cfg.adminInputGuard) = true)
              · rw [if_pos h5] at h; simp at h
              · rw [if_neg h5] at h; simp at h
    | create =>
      simp only [applyTx] at h ⊢
      split; · rfl
      rename_i h1; split; · rfl
      rename_i h2; split; · rfl
      rename_i h3; split; · rfl
      rename_i h4
      simp [h1, h2, h3, h4] at h

def Applied : Outcome → Prop
  | .applied => True
  | .kvApplied _ => True
  | _ => False

/-- A3 -/
theorem applied_at_current_nonce_plus_one (as : Accounts) (s n : Nat) (k : Kind) (v g p z nz : Nat)
    (h : Applied (applyTx repaired as (.signed s n k v g p z nz)).2) :
    n = nonceOf as s ∧
    nonceOf (applyTx repaired as (.signed s n k v g p z nz)).1 s = n + 1 ∧
    ∀ i, i ≠ s → nonceOf (applyTx repaired as (.signed s n k v g p z nz)).1 i = nonceOf as i := by
  cases k with
  | kv key val ok =>
    simp only [applyTx] at h ⊢
    split at h; · exact absurd h (by simp [Applied])
    rename_i h1
    split at h; · exact absurd h (by simp [Applied])
    rename_i h2
    have hn : n = (getAcc as s).nonce := by
      have : ¬ (repaired.kvNonceCheck = true ∧ n ≠ (getAcc as s).nonce) := h2
      simp [repaired] at this; exact this
    rw [if_neg h1, if_neg h2]
    refine ⟨hn, ?_, ?_⟩
    · rw [nonceOf_setAcc]; simp [hn]
    · intro i hi; rw [nonceOf_setAcc]; simp [hi]
  | call to bad =>
    simp only [applyTx] at h ⊢
    split at h; · exact absurd h (by simp [Applied])
    rename_i h1; split at h; · exact absurd h (by simp [Applied])
    rename_i h2; split at h; · exact absurd h (by simp [Applied])
    rename_i h3; split at h; · exact absurd h (by simp [Applied])
    rename_i h4; split at h; · exact absurd h (by simp [Applied])
    rename_i h5
    have hn : n = (getAcc as s).nonce := Classical.not_not.mp h1
    rw [if_neg h1, if_neg h2, if_neg h3, if_neg h4, if_neg h5]
    simp only
    refine ⟨hn, ?_, ?_⟩
    · rw [nonceOf_setAcc]
      by_cases hts : s = to
      · subst hts
        rw [if_pos rfl]
        show nonceOf (setAcc as ⟨s, (getAcc as s).nonce + 1, (getAcc as s).balance - v⟩) s = n + 1
        rw [nonceOf_setAcc]; simp [hn]
      · rw [if_neg hts, nonceOf_setAcc]; simp [hn]
    · intro i hi
      rw [nonceOf_setAcc]
      by_cases hit : i = to
      · subst hit
        rw [if_pos rfl]
        show nonceOf (setAcc as ⟨s, (getAcc as s).nonce + 1, (getAcc as s).balance - v⟩) i = nonceOf as i
        rw [nonceOf_setAcc]; simp [hi]
      · rw [if_neg hit, nonceOf_setAcc]; simp [hi]
  | create =>
    simp only [applyTx] at h ⊢
    split at h; · exact absurd h (by simp [Applied])
    rename_i h1; split at h; · exact absurd h (by simp [Applied])
    rename_i h2; split at h; · exact absurd h (by simp [Applied])
    rename_i h3; split at h; · exact absurd h (by simp [Applied])
    rename_i h4
    have hn : n = (getAcc as s).nonce := Classical.not_not.mp h1
    rw [if_neg h1, if_neg h2, if_neg h3, if_neg h4]
    refine ⟨hn, ?_, ?_⟩
    · rw [nonceOf_setAcc]; simp [hn]
    · intro i hi; rw [nonceOf_setAcc]; simp [hi]

/-! ### A4: replay protection over arbitrary sequences -/

def isApplied : Outcome → Bool
  | .applied => true
  | .kvApplied _ => true
  | _ => false

theorem isApplied_iff (o : Outcome) : isApplied o = true ↔ Applied o := by
  cases o <;> simp [isApplied, Applied]

/-- the transactions of any number of consecutive blocks, one after the other -/
def runTxs (cfg : Cfg) : Accounts → List Tx → Accounts
  | as, [] => as
  | as, t :: ts => runTxs cfg (applyTx cfg as t).1 ts

def isSN (s n : Nat) : Tx → Bool
  | .signed s' n' _ _ _ _ _ _ => s' == s && n' == n
  | _ => false

/-- how often a signed transaction of `s` with nonce `n` takes effect along the sequence -/
def timesApplied (cfg : Cfg) (s n : Nat) : Accounts → List Tx → Nat
  | _, [] => 0
  | as, t :: ts =>
    (if isSN s n t && isApplied (applyTx cfg as t).2 then 1 else 0) + timesApplied cfg s n (applyTx cfg as t).1 ts

/-- an outcome that is not "applied" leaves the accounts alone (repaired code never panics) -/
theorem not_applied_unchanged (as : Accounts) (t : Tx) (h : isApplied (applyTx repaired as t).2 = false) :
    (applyTx repaired as t).1 = as := by
  cases ho : (applyTx repaired as t).2 with
  | applied => rw [ho] at h; simp [isApplied] at h
  | kvApplied r => rw [ho] at h; simp [isApplied] at h
  | invalid => exact invalid_leaves_no_trace repaired as t ho
  | panic => exact absurd ho (no_panic as t)

/-- only signed transactions are ever applied -/
theorem applied_is_signed (as : Accounts) (t : Tx) (h : isApplied (applyTx repaired as t).2 = true) :
    ∃ s n k v g p z nz, t = .signed s n k v g p z nz := by
  cases t with
  | empty => simp [applyTx, repaired, isApplied] at h
  | garbage => simp [applyTx, isApplied] at h
  | badSig => simp [applyTx, isApplied] at h
  | signed s n k v g p z nz => exact ⟨s, n, k, v, g, p, z, nz, rfl⟩

/-- nonces never decrease -/
theorem nonce_monotone (as : Accounts) (t : Tx) (i : Nat) :
    nonceOf as i ≤ nonceOf (applyTx repaired as t).1 i := by
  cases ha : isApplied (applyTx repaired as t).2 with
  | false => rw [not_applied_unchanged as t ha]; exact Nat.le_refl _
  | true =>
    obtain ⟨s, n, k, v, g, p, z, nz, rfl⟩ := applied_is_signed as t ha
    obtain ⟨h1, h2, h3⟩ := applied_at_current_nonce_plus_one as s n k v g p z nz ((isApplied_iff _).mp ha)
    by_cases hi : i = s
    · subst hi; omega
    · rw [h3 i hi]; exact Nat.le_refl _

/-- once the sender's nonce is past `n`, a transaction (s, n) is never applied again -/
theorem past_nonce_never_applied (s n : Nat) : ∀ (ts : List Tx) (as : Accounts), n < nonceOf as s →
    timesApplied repaired s n as ts = 0 := by
  intro ts
  induction ts with
  | nil => intro as _; rfl
  | cons t rest ih =>
    intro as hgt
    unfold timesApplied
    have hmono := nonce_monotone as t s
    rw [ih _ (by omega)]
    by_cases hc : (isSN s n t && isApplied (applyTx repaired as t).2) = true
    · exfalso
      simp only [Bool.and_eq_true] at hc
      obtain ⟨hsn, ha⟩ := hc
      obtain ⟨s', n', k, v, g, p, z, nz, rfl⟩ := applied_is_signed as t ha
      simp [isSN] at hsn
      obtain ⟨e1, e2⟩ := hsn
      subst e1; subst e2
      have := (applied_at_current_nonce_plus_one as s' n' k v g p z nz ((isApplied_iff _).mp ha)).1
      omega
    · simp [hc]

/-- A4: in any sequence of transactions, over any number of blocks and from any state, a signed
    transaction (sender, nonce) takes effect at most once -/
theorem applied_at_most_once (s n : Nat) : ∀ (ts : List Tx) (as : Accounts),
    timesApplied repaired s n as ts ≤ 1 := by
  intro ts
  induction ts with
  | nil => intro as; simp [timesApplied]
  | cons t rest ih =>
    intro as
    unfold timesApplied
    by_cases hc : (isSN s n t && isApplied (applyTx repaired as t).2) = true
    · simp only [Bool.and_eq_true] at hc
      obtain ⟨hsn, ha⟩ := hc
      obtain ⟨s', n', k, v, g, p, z, nz, rfl⟩ := applied_is_signed as t ha
      simp [isSN] at hsn
      obtain ⟨e1, e2⟩ := hsn
      subst e1; subst e2
      have h2 := (applied_at_current_nonce_plus_one as s' n' k v g p z nz ((isApplied_iff _).mp ha)).2.1
      rw [past_nonce_never_applied s' n' rest _ (by omega)]
      simp [isSN, ha]
    · have := ih (applyTx repaired as t).1
      simp [hc]; exact this

/-- as found: the same key-value transaction, included twice, takes effect twice -/
theorem asFound_kv_replayed :
    timesApplied asFound 0 0 [] [.signed 0 0 (.kv [1] [2] true) 0 0 0 0 0, .signed 0 0 (.kv [1] [2] true) 0 0 0 0 0] = 2 := by
  decide

/-- non-vacuity: a block in which a call, a key-value transaction and a creation are applied and a
    replayed one is rejected -/
example : (execTxs repaired [] [.signed 0 0 (.call 1) 0 21000 0 0 0, .signed 0 1 (.kv [1] [2] true) 0 0 0 0 0,
      .signed 0 1 (.kv [1] [2] true) 0 0 0 0 0, .signed 1 0 .create 0 30000 0 0 0] [[7], [8]] [] [] []).2.2.2.map isApplied
    = [true, true, false, true] := by decide

end AnnVerif.C09
