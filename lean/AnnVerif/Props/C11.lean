/-
  C11 — State trie and state DB: root is a function of content; commit/revert exact.  (PARTIAL)

  Models: Model/Trie.lean (insert/delete/get/hash as in eth/trie), Model/StateJournal.lean (the
  journalled state database). PROVED:
    J1  every mutation of the state database is exactly undone by the journal entries it appends;
    J2  for EVERY sequence of mutations after a snapshot (nonce, balance, code, storage, account
        creation over an existing or a missing account, suicide), `RevertToSnapshot` restores
        exactly the accounts and the journal of the moment the snapshot was taken;
    J3  nested snapshots: reverting to an inner snapshot leaves the outer one valid, and reverting
        to the outer one afterwards restores its state — for every pair of mutation sequences;
    E1  `keybytesToHex` is injective (two byte keys never share a trie path);
    E2  hex-prefix (compact) encoding decodes back to the key for EVERY key a short node can carry
        (odd/even length, with/without terminator), hence is injective on them;
    M1  every update (write; delete = write of the empty value) keeps the trie invariant `TrieInv`
        (node shapes as trie.go maintains them: short nodes have non-empty keys and end in a value
        or a branch, values sit only where a key ends, every branch has at least two children);
    M2/M3  after an update the key reads as written (nothing, if deleted), every other key as before;
    M4  REFINEMENT: for every sequence of writes and deletes from the empty trie, `lookup` equals the
        lookup of the simple map the sequence describes;
    M5  HISTORY INDEPENDENCE: two sequences - any lengths, any order, any overwritten or deleted
        intermediate values - that describe the same map build the SAME trie, node for node
        (canonical form: a trie that satisfies the invariant is determined by its content);
    M6  hence the same root hash, for every hash function;
    M7  MERKLE PROOFS: `VerifyProof` (model: walk over DECODED RLP items, hash lookups in the proof
        set) run on what `Prove` returns for a key yields exactly the stored value or its absence,
        for every trie the application can build and every 32-byte hash function - or exhibits a
        hash collision.
    M8  the size hypothesis of M7 holds for every trie built from keys <= 2^30 bytes, values <= 2^32 bytes;
    M9  THE ROOT COMMITS TO THE CONTENT: equal root hashes => the same map for every key, unless the
        hash function collides (node encodings are injective: RLP, hex-prefix, embedded vs hashed
        references); with M6: equal roots <=> equal content up to collisions;
    M10 COMMIT AND REOPEN: the node set a commit writes, read from the root hash by fetch-decode-walk,
        returns for every key exactly what the in-memory trie holds (up to collisions);
    J4-J6  the per-block commit with deleteEmptyObjects.
  NOT proved (decided per run by the engine, three ways: in-tree code = Lean model = go-ethereum
  v1.8.27): equality with the reference implementation's root, the trie database's caching and
  garbage collection, the secure trie's key hashing, the account/storage layering of the state root. The hash itself
  (Keccak-256) is computed by the driver and is a parameter of every theorem (M6, M7 hold for any
  hash function; M7 up to collisions). The theorems are about Model/Trie.lean and
  Model/TrieProof.lean - the definitions the compiled driver runs against the Go code on every op.
-/
import AnnVerif.Model.StateJournal
import AnnVerif.Model.Trie
import AnnVerif.Lemmas.TrieCanon
import AnnVerif.Lemmas.TrieCompact
import AnnVerif.Lemmas.TrieProof
import AnnVerif.Lemmas.TrieSmall
import AnnVerif.Lemmas.TrieBound
import AnnVerif.Lemmas.TrieCommit
import AnnVerif.Lemmas.TrieReopen
namespace AnnVerif.C11
open AnnVerif AnnVerif.StateJournal

/-! ### the journal -/

theorem put_same (as : Accounts) (a : Nat) (x : Acct) : find (put as a x) a = some x := by
  simp [find, put]

theorem put_put (as : Accounts) (a : Nat) (x y : Acct) : put (put as a x) a y = put as a y := by
  funext b; simp only [put]; split <;> rfl

theorem put_find (as : Accounts) (a : Nat) (x : Acct) (h : find as a = some x) : put as a x = as := by
  funext b; simp only [put]; split
  · rename_i e; subst e; exact h.symm
  · rfl

theorem remove_put (as : Accounts) (a : Nat) (x : Acct) (h : find as a = none) : remove (put as a x) a = as := by
  funext b; simp only [remove, put]; split
  · rename_i e; subst e; exact h.symm
  · rfl

inductive Op where
  | nonce (a n : Nat) | balance (a n : Nat) | code (a : Nat) (c : Bytes) | state (a k v : Nat)
  | create (a : Nat) | suicide (a : Nat)

def apply (d : DB) : Op → DB
  | .nonce a n => setNonce d a n
  | .balance a n => setBalance d a n
  | .code a c => setCode d a c
  | .state a k v => setState d a k v
  | .create a => createAccount d a
  | .suicide a => suicide d a

/-- undo a list of entries, newest first -/
def undoAll (as : Accounts) (es : List Entry) : Accounts := es.reverse.foldl undo as

theorem undoAll_append (as : Accounts) (e1 e2 : List Entry) :
    undoAll as (e1 ++ e2) = undoAll (undoAll as e2) e1 := by
  simp [undoAll, List.reverse_append, List.foldl_append]

theorem sput_undo (st : Nat → Nat) (k v : Nat) : sput (sput st k v) k (sget st k) = st := by
  funext j; simp only [sput, sget]; split
  · rename_i e; rw [e]
  · rfl

/-- J1: what one mutation appends to the journal undoes it exactly -/
structure StepOK (d d' : DB) : Prop where
  ext : ∃ es, d'.journal = d.journal ++ es ∧ undoAll d'.accts es = d.accts
  snaps : d'.snaps = d.snaps
  nextId : d'.nextId = d.nextId

theorem touch_ok (d : DB) (a : Nat) :
    ∃ es, (touch d a).1.journal = d.journal ++ es ∧ undoAll (touch d a).1.accts es = d.accts ∧
      find (touch d a).1.accts a = some (touch d a).2 ∧ (touch d a).1.snaps = d.snaps ∧
      (touch d a).1.nextId = d.nextId := by
  unfold touch
  cases h : find d.accts a with
  | some x => exact ⟨[], by simp, by simp [undoAll], h, rfl, rfl⟩
  | none =>
    refine ⟨[.created a], rfl, ?_, put_same _ _ _, rfl, rfl⟩
    simp [undoAll, undo, remove_put _ _ _ h]

/-- a field update on the touched account, journalled with the previous value -/
theorem field_ok (d : DB) (a : Nat) (x' : Acct) (e : Entry)
    (hundo : ∀ as, find as a = some x' → undo as e = put as a (touch d a).2) :
    StepOK d { (touch d a).1 with accts := put (touch d a).1.accts a x', journal := (touch d a).1.journal ++ [e] } := by
  obtain ⟨es, hj, hu, hf, hs, hn⟩ := touch_ok d a
  refine ⟨⟨es ++ [e], by simp [hj], ?_⟩, hs, hn⟩
  rw [undoAll_append]
  have h1 : undoAll (put (touch d a).1.accts a x') [e] = (touch d a).1.accts := by
    simp only [undoAll, List.reverse_cons, List.reverse_nil, List.nil_append, List.foldl]
    rw [hundo _ (put_same _ _ _), put_put, put_find _ _ _ hf]
  rw [h1, hu]

theorem apply_ok (d : DB) (op : Op) : StepOK d (apply d op) := by
  cases op with
  | nonce a n =>
    exact field_ok d a _ (.nonce a (touch d a).2.nonce) (by intro as h; simp only [undo, h])
  | balance a n =>
    exact field_ok d a _ (.balance a (touch d a).2.balance) (by intro as h; simp only [undo, h])
  | code a c =>
    exact field_ok d a _ (.code a (touch d a).2.code) (by intro as h; simp only [undo, h])
  | state a k v =>
    simp only [apply, setState]
    by_cases hsame : sget (touch d a).2.storage k = v
    · rw [if_pos hsame]
      obtain ⟨es, hj, hu, _, hs, hn⟩ := touch_ok d a
      exact ⟨⟨es, hj, hu⟩, hs, hn⟩
    · rw [if_neg hsame]
      exact field_ok d a _ (.storage a k (sget (touch d a).2.storage k))
        (by intro as h; simp only [undo, h, sput_undo])
  | create a =>
    simp only [apply, createAccount]
    cases h : find d.accts a with
    | none =>
      refine ⟨⟨[.created a], rfl, ?_⟩, rfl, rfl⟩
      simp [undoAll, undo, remove_put _ _ _ h]
    | some prev =>
      refine ⟨⟨[.reset a prev], rfl, ?_⟩, rfl, rfl⟩
      simp [undoAll, undo, put_put, put_find _ _ _ h]
  | suicide a =>
    simp only [apply, suicide]
    cases h : find d.accts a with
    | none => exact ⟨⟨[], by simp, by simp [undoAll]⟩, rfl, rfl⟩
    | some x =>
      refine ⟨⟨[.suicide a x.suicided x.balance], rfl, ?_⟩, rfl, rfl⟩
      simp [undoAll, undo, put_same, put_put, put_find _ _ _ h]

/-- over any sequence of mutations: the journal only grows, and undoing what was appended gives the
    accounts back -/
theorem run_ok : ∀ (ops : List Op) (d : DB), StepOK d (ops.foldl apply d) := by
  intro ops
  induction ops with
  | nil => intro d; exact ⟨⟨[], by simp, by simp [undoAll]⟩, rfl, rfl⟩
  | cons op r ih =>
    intro d
    simp only [List.foldl]
    obtain ⟨⟨e1, hj1, hu1⟩, hs1, hn1⟩ := apply_ok d op
    obtain ⟨⟨e2, hj2, hu2⟩, hs2, hn2⟩ := ih (apply d op)
    refine ⟨⟨e1 ++ e2, by rw [hj2, hj1, List.append_assoc], ?_⟩, hs2.trans hs1, hn2.trans hn1⟩
    rw [undoAll_append, hu2, hu1]

/-- the general form: a snapshot taken at journal length |j|, anything journalled since, any
    later snapshots — reverting to it restores accounts, journal and the earlier snapshots -/
theorem revert_restores (d2 : DB) (as0 : Accounts) (j es : List Entry) (snaps0 later : List (Nat × Nat)) (id : Nat)
    (hj : d2.journal = j ++ es) (hu : undoAll d2.accts es = as0)
    (hs : d2.snaps = snaps0 ++ [(id, j.length)] ++ later)
    (hbefore : ∀ s ∈ snaps0, s.1 < id) (hafter : ∀ s ∈ later, id < s.1) :
    ∃ d', revert d2 id = some d' ∧ d'.accts = as0 ∧ d'.journal = j ∧ d'.snaps = snaps0 := by
  unfold revert
  have hfind : d2.snaps.find? (fun s => s.1 == id) = some (id, j.length) := by
    rw [hs, List.append_assoc, List.find?_append]
    have : snaps0.find? (fun s => s.1 == id) = none := by
      rw [List.find?_eq_none]; intro s hs' he
      have := hbefore s hs'; simp at he; omega
    rw [this]; simp
  rw [hfind]
  refine ⟨_, rfl, ?_, ?_, ?_⟩
  · show ((d2.journal.drop j.length).reverse).foldl undo d2.accts = as0
    rw [hj, List.drop_left]; exact hu
  · show d2.journal.take j.length = j
    rw [hj, List.take_left]
  · show d2.snaps.filter (fun s => decide (s.1 < id)) = snaps0
    rw [hs, List.filter_append, List.filter_append]
    have h1 : snaps0.filter (fun s => decide (s.1 < id)) = snaps0 := by
      rw [List.filter_eq_self]; intro s hs'; simpa using hbefore s hs'
    have h2 : later.filter (fun s => decide (s.1 < id)) = [] := by
      rw [List.filter_eq_nil_iff]; intro s hs'; have := hafter s hs'; simp; omega
    simp [h1, h2]

/-- snapshot ids handed out so far are below the next id -/
def SnapsOK (d : DB) : Prop := ∀ s ∈ d.snaps, s.1 < d.nextId

/-- J2 -/
theorem revert_to_snapshot_is_exact (d : DB) (hd : SnapsOK d) (ops : List Op) :
    ∃ d', revert (ops.foldl apply (snapshot d).1) (snapshot d).2 = some d' ∧
      d'.accts = d.accts ∧ d'.journal = d.journal ∧ d'.snaps = d.snaps := by
  obtain ⟨⟨es, hj, hu⟩, hs, _⟩ := run_ok ops (snapshot d).1
  exact revert_restores _ d.accts d.journal es d.snaps [] d.nextId hj hu (by rw [hs]; simp [snapshot]) hd (by simp)

/-- J3: an inner snapshot taken and reverted in between does not disturb the outer one -/
theorem nested_snapshots (d : DB) (hd : SnapsOK d) (ops1 ops2 ops3 : List Op) :
    let outer := snapshot d
    let mid := ops1.foldl apply outer.1
    let inner := snapshot mid
    let deep := ops2.foldl apply inner.1
    ∃ back, revert deep inner.2 = some back ∧ back.accts = mid.accts ∧ back.journal = mid.journal ∧
      ∃ d', revert (ops3.foldl apply back) outer.2 = some d' ∧ d'.accts = d.accts ∧ d'.journal = d.journal ∧
        d'.snaps = d.snaps := by
  intro outer mid inner deep
  obtain ⟨⟨e1, hj1, hu1⟩, hs1, hn1⟩ := run_ok ops1 outer.1
  obtain ⟨⟨e2, hj2, hu2⟩, hs2, _⟩ := run_ok ops2 inner.1
  have hmidSnaps : mid.snaps = d.snaps ++ [(d.nextId, d.journal.length)] := by
    show (ops1.foldl apply outer.1).snaps = _; rw [hs1]; rfl
  have hmidNext : mid.nextId = d.nextId + 1 := by
    show (ops1.foldl apply outer.1).nextId = _; rw [hn1]; rfl
  have hbefore : ∀ s ∈ mid.snaps, s.1 < mid.nextId := by
    intro s hs; rw [hmidSnaps] at hs; rw [hmidNext]
    rcases List.mem_append.mp hs with h | h
    · have := hd s h; omega
    · simp at h; subst h; simp
  obtain ⟨back, hb, hba, hbj, hbs⟩ := revert_restores deep mid.accts mid.journal e2 mid.snaps [] mid.nextId hj2 hu2
    (by rw [hs2]; simp [inner, snapshot]) hbefore (by simp)
  refine ⟨back, hb, hba, hbj, ?_⟩
  obtain ⟨⟨e3, hj3, hu3⟩, hs3, _⟩ := run_ok ops3 back
  have hj3' : (ops3.foldl apply back).journal = d.journal ++ (e1 ++ e3) := by
    rw [hj3, hbj]; show (ops1.foldl apply outer.1).journal ++ e3 = _; rw [hj1]; simp [outer, snapshot]
  have hu3' : undoAll (ops3.foldl apply back).accts (e1 ++ e3) = d.accts := by
    rw [undoAll_append, hu3, hba]; exact hu1
  exact revert_restores _ d.accts d.journal (e1 ++ e3) d.snaps [] d.nextId hj3' hu3'
    (by rw [hs3, hbs, hmidSnaps]; simp) hd (by simp)

/-! ### key encodings -/

open AnnVerif.Trie in
/-- E1 -/
theorem keybytesToHex_injective (a b : Bytes) (h : Trie.keybytesToHex a = Trie.keybytesToHex b) : a = b := by
  unfold Trie.keybytesToHex at h
  have h' := List.append_cancel_right h
  clear h
  induction a generalizing b with
  | nil =>
    cases b with
    | nil => rfl
    | cons y r => simp at h'
  | cons x t ih =>
    cases b with
    | nil => simp at h'
    | cons y r =>
      simp only [List.map_cons, List.flatten_cons, List.cons_append, List.nil_append, List.cons.injEq] at h'
      obtain ⟨h1, h2, h3⟩ := h'
      have hxy : x = y := by
        have e : x.toNat = y.toNat := by
          have d1 := Nat.div_add_mod x.toNat 16
          have d2 := Nat.div_add_mod y.toNat 16
          omega
        exact UInt8.toNat_inj.mp e
      rw [hxy, ih r h3]

/-! ### E2: hex-prefix encoding (proofs in Lemmas/TrieCompact.lean) -/

/-- E2 for keys without terminator and of even length (the extension-node case) -/
theorem compact_roundtrip_even (hex : List Nat) (n : Nat) (hl : hex.length = 2 * n) (hlt : ∀ x ∈ hex, x < 16) :
    Trie.compactToHex (Trie.hexToCompact hex) = hex := Trie.compact_roundtrip_even hex n hl hlt

/-- E2, complete: hex-prefix encoding decodes back to the key for EVERY key a well-formed trie can
    hold in a short node - odd or even length, with or without the terminator -/
theorem compact_roundtrip (k : Trie.Key) (h : Trie.TermKey k ∨ Trie.ExtKey k) :
    Trie.compactToHex (Trie.hexToCompact k) = k := Trie.compact_roundtrip k h

/-- hence two different keys of a well-formed trie never share a compact encoding -/
theorem hexToCompact_injective (a b : Trie.Key) (ha : Trie.TermKey a ∨ Trie.ExtKey a) (hb : Trie.TermKey b ∨ Trie.ExtKey b)
    (h : Trie.hexToCompact a = Trie.hexToCompact b) : a = b := Trie.hexToCompact_injective a b ha hb h

example : Trie.compactToHex (Trie.hexToCompact [1, 2, 3, 16]) = [1, 2, 3, 16] ∧
          Trie.compactToHex (Trie.hexToCompact [1, 2, 16]) = [1, 2, 16] ∧
          Trie.compactToHex (Trie.hexToCompact [7]) = [7] := by decide

/-! ### J4-J6: what the application's per-block commit (deleteEmptyObjects = true) may and may not remove -/

/-- J4: an account nothing has written to since it was persisted - however often it was READ - is
    exactly what it was after `Commit(true)` and reopening: reads never change the committed state -/
theorem untouched_account_survives_commit (d : StateJournal.DB) (persisted : StateJournal.Accounts) (a : Nat)
    (h1 : d.objDirty.contains a = false) (h2 : StateJournal.journalDirty d a = false) :
    (StateJournal.commitDel d persisted).accts a = persisted a := by
  unfold StateJournal.commitDel
  have hm : ¬ a ∈ d.objDirty := by simpa using h1
  simp [hm, h2]

/-- J5: a touched account is removed by `Commit(true)` exactly when it is suicided or empty; otherwise
    it is written as the live state shows it -/
theorem touched_account_commit (d : StateJournal.DB) (persisted : StateJournal.Accounts) (a : Nat)
    (x : StateJournal.Acct) (hd : d.objDirty.contains a = true ∨ StateJournal.journalDirty d a = true)
    (hx : d.accts a = some x) :
    (StateJournal.commitDel d persisted).accts a = if x.suicided || x.isEmpty then none else some x := by
  unfold StateJournal.commitDel
  rcases hd with hd | hd
  · have hm : a ∈ d.objDirty := by simpa using hd
    simp [hm, hx]
  · simp [hd, hx]

/-- J6: the commit leaves no journal, snapshot or dirty mark behind -/
theorem commit_is_clean (d : StateJournal.DB) (persisted : StateJournal.Accounts) :
    (StateJournal.commitDel d persisted).journal = [] ∧ (StateJournal.commitDel d persisted).snaps = [] ∧
    (StateJournal.commitDel d persisted).objDirty = [] := ⟨rfl, rfl, rfl⟩

/-! ### M1-M4: the trie is a finite map -/

open AnnVerif.Trie in
/-- the invariant of every trie the application builds: keys are laid out nibble by nibble, short
    nodes carry non-empty keys and end in a value or a branch, branches have at least two children -/
def TrieInv (t : Trie.Node) : Prop := WF t ∧ Br t

theorem termKey_keybytesToHex (b : Bytes) : Trie.TermKey (Trie.keybytesToHex b) := by
  refine ⟨(b.map fun x => [x.toNat / 16, x.toNat % 16]).flatten, rfl, ?_⟩
  intro x hx
  simp only [List.mem_flatten, List.mem_map] at hx
  obtain ⟨l, ⟨y, _, rfl⟩, hx⟩ := hx
  simp at hx
  have := y.toNat_lt
  rcases hx with rfl | rfl <;> omega

theorem lookup_eq_getN {t : Trie.Node} (h : TrieInv t) (key : Bytes) :
    Trie.lookup t key = Trie.getN t (Trie.keybytesToHex key) := by
  unfold Trie.lookup
  exact Trie.get_eq_getN (Or.inl h.1) (by omega)

/-- M1: an update (a write, or a delete when the value is empty) keeps the invariant -/
theorem update_keeps_invariant (t : Trie.Node) (key value : Bytes) (h : TrieInv t) :
    TrieInv (Trie.update t key value) := by
  unfold Trie.update
  have hk := termKey_keybytesToHex key
  split
  · obtain ⟨d1, d2, _, _⟩ := Trie.delete_ok _ t _ h.1 h.2 hk (by omega : _ < (Trie.keybytesToHex key).length + 2)
    exact ⟨d1, d2⟩
  · exact ⟨Trie.insert_wf _ t _ value h.1 hk (by omega), Trie.insert_br _ t _ value h.1 h.2 hk (by omega)⟩

/-- M2: after an update the key reads as the value written (nothing, if it was deleted) -/
theorem lookup_update_same (t : Trie.Node) (key value : Bytes) (h : TrieInv t) :
    Trie.lookup (Trie.update t key value) key = if value.isEmpty then none else some value := by
  rw [lookup_eq_getN (update_keeps_invariant t key value h)]
  unfold Trie.update
  have hk := termKey_keybytesToHex key
  split
  · exact (Trie.delete_ok _ t _ h.1 h.2 hk (by omega : _ < (Trie.keybytesToHex key).length + 2)).2.2.1
  · exact Trie.getN_insert_same _ t _ value h.1 hk (by omega)

/-- M3: every other key reads as before -/
theorem lookup_update_other (t : Trie.Node) (key value q : Bytes) (h : TrieInv t) (hq : q ≠ key) :
    Trie.lookup (Trie.update t key value) q = Trie.lookup t q := by
  rw [lookup_eq_getN (update_keeps_invariant t key value h), lookup_eq_getN h]
  have hk := termKey_keybytesToHex key
  have hk' := termKey_keybytesToHex q
  have hne : Trie.keybytesToHex q ≠ Trie.keybytesToHex key := fun e => hq (keybytesToHex_injective _ _ e)
  unfold Trie.update
  split
  · exact (Trie.delete_ok _ t _ h.1 h.2 hk (by omega : _ < (Trie.keybytesToHex key).length + 2)).2.2.2 _ hk' hne
  · exact Trie.getN_insert_other _ t _ value _ h.1 hk hk' hne (by omega)

/-- the map an update sequence describes -/
def mapUpdate (m : Bytes → Option Bytes) (w : Bytes × Bytes) : Bytes → Option Bytes :=
  fun q => if q = w.1 then (if w.2.isEmpty then none else some w.2) else m q

/-- M4 (refinement): for EVERY sequence of writes and deletes, starting from the empty trie, the trie
    holds the invariant and reads, for every key, exactly what the simple map reads -/
theorem trie_refines_map (ws : List (Bytes × Bytes)) :
    TrieInv (ws.foldl (fun t w => Trie.update t w.1 w.2) .empty) ∧
    ∀ q, Trie.lookup (ws.foldl (fun t w => Trie.update t w.1 w.2) .empty) q =
      ws.foldl mapUpdate (fun _ => none) q := by
  suffices H : ∀ (ws : List (Bytes × Bytes)) (t : Trie.Node) (m : Bytes → Option Bytes), TrieInv t →
      (∀ q, Trie.lookup t q = m q) →
      TrieInv (ws.foldl (fun t w => Trie.update t w.1 w.2) t) ∧
      ∀ q, Trie.lookup (ws.foldl (fun t w => Trie.update t w.1 w.2) t) q = ws.foldl mapUpdate m q by
    refine H ws .empty _ ⟨by simp [Trie.WF], by simp [Trie.Br]⟩ ?_
    intro q; rw [lookup_eq_getN ⟨by simp [Trie.WF], by simp [Trie.Br]⟩]; exact Trie.getN_empty _
  intro ws
  induction ws with
  | nil => intro t m ht hm; exact ⟨ht, hm⟩
  | cons w ws ih =>
    intro t m ht hm
    simp only [List.foldl_cons]
    apply ih _ _ (update_keeps_invariant t w.1 w.2 ht)
    intro q
    unfold mapUpdate
    by_cases hq : q = w.1
    · subst hq; rw [lookup_update_same _ _ _ ht, if_pos rfl]
    · rw [lookup_update_other _ _ _ _ ht hq, if_neg hq]; exact hm q

/-- the trie an update sequence builds -/
def build (ws : List (Bytes × Bytes)) : Trie.Node := ws.foldl (fun t w => Trie.update t w.1 w.2) .empty

theorem update_other_hex (t : Trie.Node) (key value : Bytes) (k : Trie.Key) (h : TrieInv t)
    (hk : Trie.TermKey k) (hne : k ≠ Trie.keybytesToHex key) :
    Trie.getN (Trie.update t key value) k = Trie.getN t k := by
  have hkey := termKey_keybytesToHex key
  unfold Trie.update
  split
  · exact (Trie.delete_ok _ t _ h.1 h.2 hkey (by omega : _ < (Trie.keybytesToHex key).length + 2)).2.2.2 _ hk hne
  · exact Trie.getN_insert_other _ t _ value _ h.1 hkey hk hne (by omega)

/-- a path that is not the path of a byte key holds nothing -/
theorem build_only_byte_keys (ws : List (Bytes × Bytes)) (k : Trie.Key) (hk : Trie.TermKey k)
    (hni : ∀ q, k ≠ Trie.keybytesToHex q) : Trie.getN (build ws) k = none := by
  suffices H : ∀ (ws : List (Bytes × Bytes)) (t : Trie.Node), TrieInv t → Trie.getN t k = none →
      Trie.getN (ws.foldl (fun t w => Trie.update t w.1 w.2) t) k = none from
    H ws .empty ⟨by simp [Trie.WF], by simp [Trie.Br]⟩ (Trie.getN_empty _)
  intro ws
  induction ws with
  | nil => intro t _ h; exact h
  | cons w ws ih =>
    intro t ht h
    simp only [List.foldl_cons]
    exact ih _ (update_keeps_invariant t w.1 w.2 ht) (by rw [update_other_hex t w.1 w.2 k ht hk (hni w.1)]; exact h)

/-- M5 (history independence): two sequences of writes and deletes - of any lengths, in any order,
    with any overwritten or deleted intermediate values - that describe the same map build the SAME
    trie, node for node -/
theorem trie_is_a_function_of_its_content (ws1 ws2 : List (Bytes × Bytes))
    (h : ∀ q, ws1.foldl mapUpdate (fun _ => none) q = ws2.foldl mapUpdate (fun _ => none) q) :
    build ws1 = build ws2 := by
  obtain ⟨i1, g1⟩ := trie_refines_map ws1
  obtain ⟨i2, g2⟩ := trie_refines_map ws2
  refine Trie.canon i1.1 i1.2 i2.1 i2.2 ?_
  intro k hk
  by_cases hex : ∃ q, k = Trie.keybytesToHex q
  · obtain ⟨q, rfl⟩ := hex
    have e1 := lookup_eq_getN i1 q
    have e2 := lookup_eq_getN i2 q
    show Trie.getN (build ws1) _ = Trie.getN (build ws2) _
    unfold build
    rw [← e1, ← e2, g1 q, g2 q, h q]
  · have hni : ∀ q, k ≠ Trie.keybytesToHex q := fun q e => hex ⟨q, e⟩
    show Trie.getN (build ws1) k = Trie.getN (build ws2) k
    rw [build_only_byte_keys ws1 k hk hni, build_only_byte_keys ws2 k hk hni]

/-- M6: hence the same root hash, whatever the hash function -/
theorem root_is_a_function_of_the_content (H : Bytes → Bytes) (ws1 ws2 : List (Bytes × Bytes))
    (h : ∀ q, ws1.foldl mapUpdate (fun _ => none) q = ws2.foldl mapUpdate (fun _ => none) q) :
    Trie.rootHash H (build ws1) = Trie.rootHash H (build ws2) := by
  rw [trie_is_a_function_of_its_content ws1 ws2 h]

/-- not vacuous: two different histories of the same content (other order, an overwrite, a key that
    is written and deleted again) -/
example :
    let ws1 : List (Bytes × Bytes) := [([0x12, 0x34], [1]), ([0x12, 0x35], [2]), ([0x77], [3])]
    let ws2 : List (Bytes × Bytes) := [([0x77], [9]), ([0x55], [5]), ([0x12, 0x35], [2]), ([0x77], [3]), ([0x55], []), ([0x12, 0x34], [1])]
    build ws1 = build ws2 ∧ (build ws1).isEmpty = false := by
  exact ⟨by rfl, by rfl⟩

/-! ### M7: Merkle proofs -/

theorem map_never_reads_empty (ws : List (Bytes × Bytes)) (m : Bytes → Option Bytes) (q : Bytes)
    (h : m q ≠ some []) : ws.foldl mapUpdate m q ≠ some [] := by
  induction ws generalizing m with
  | nil => exact h
  | cons w ws ih =>
    simp only [List.foldl_cons]
    apply ih
    unfold mapUpdate
    split
    · split
      · simp
      · rename_i hv
        intro he
        have : w.2 = [] := by injection he
        rw [this] at hv; simp at hv
    · exact h

/-- M7: for EVERY trie the application can build, every key (present or absent) and every hash
    function with 32-byte output: `VerifyProof` run against the root hash on the proof `Prove`
    returns for the key yields exactly what the trie holds for it - the value, or its absence -
    unless the hash function collides (two different inputs, one output).
    `SmallT`: every node's encoding fits 64-bit sizes (the RLP decoder's domain). -/
theorem merkle_proof_verifies (H : Bytes → Bytes) (Hlen : ∀ x, (H x).length = 32) (ws : List (Bytes × Bytes))
    (q : Bytes) (hne : (build ws).isEmpty = false) (hs : Trie.SmallT H (build ws)) :
    Trie.verify H (Trie.prove H (build ws) (Trie.keybytesToHex q)) ((Trie.keybytesToHex q).length + 1)
      (Trie.rootHash H (build ws)) (Trie.keybytesToHex q) = some (Trie.lookup (build ws) q) ∨ Trie.Coll H := by
  obtain ⟨inv, g⟩ := trie_refines_map ws
  have hl : Trie.lookup (build ws) q = Trie.getN (build ws) (Trie.keybytesToHex q) := lookup_eq_getN inv q
  have hnv : Trie.getN (build ws) (Trie.keybytesToHex q) ≠ some [] := by
    rw [← hl]; unfold build; rw [g q]
    exact map_never_reads_empty ws _ q (by simp)
  rw [hl]
  exact Trie.verify_prove H Hlen (build ws) _ inv.1 hne (termKey_keybytesToHex q) hs hnv

theorem keybytesToHex_length (q : Bytes) : (Trie.keybytesToHex q).length = 2 * q.length + 1 := by
  unfold Trie.keybytesToHex
  simp only [List.length_append, List.length_cons, List.length_nil]
  congr 1
  induction q with
  | nil => rfl
  | cons x t ih => simp only [List.map_cons, List.flatten_cons, List.length_append, List.length_cons, List.length_nil, ih]; omega

theorem map_some_mem (ws : List (Bytes × Bytes)) (m : Bytes → Option Bytes) (q v : Bytes)
    (h : ws.foldl mapUpdate m q = some v) : m q = some v ∨ ∃ w ∈ ws, w.1 = q ∧ w.2 = v := by
  induction ws generalizing m with
  | nil => exact Or.inl h
  | cons w ws ih =>
    simp only [List.foldl_cons] at h
    rcases ih _ h with h' | ⟨w', hw', e1, e2⟩
    · unfold mapUpdate at h'
      by_cases hq : q = w.1
      · rw [if_pos hq] at h'
        by_cases he : w.2.isEmpty
        · rw [if_pos he] at h'; cases h'
        · rw [if_neg he] at h'
          injection h' with h'
          exact Or.inr ⟨w, by simp, hq.symm, h'⟩
      · rw [if_neg hq] at h'; exact Or.inl h'
    · exact Or.inr ⟨w', by simp [hw'], e1, e2⟩

/-- M8: `SmallT`, the size hypothesis of M7, holds for every trie built from keys of at most 2^30
    bytes and values of at most 2^32 bytes - whatever was written, overwritten and deleted -/
theorem built_tries_are_small (H : Bytes → Bytes) (Hlen : ∀ x, (H x).length = 32) (ws : List (Bytes × Bytes))
    (hk : ∀ w ∈ ws, w.1.length ≤ 2 ^ 30) (hv : ∀ w ∈ ws, w.2.length ≤ 2 ^ 32) :
    Trie.SmallT H (build ws) := by
  obtain ⟨inv, g⟩ := trie_refines_map ws
  apply Trie.bnd_small H Hlen (K := 2 ^ 32) (V := 2 ^ 32) (Nat.le_refl _) (Nat.le_refl _)
  apply Trie.cb_bnd inv.1 inv.2
  intro r v hr hg
  rw [List.nil_append] at hr ⊢
  by_cases hex : ∃ q, r = Trie.keybytesToHex q
  · obtain ⟨q, rfl⟩ := hex
    have hl : ws.foldl mapUpdate (fun _ => none) q = some v := by
      rw [← g q, lookup_eq_getN inv q]; exact hg
    rcases map_some_mem ws _ q v hl with h0 | ⟨w, hw, e1, e2⟩
    · cases h0
    · have h1 := hk w hw
      have h2 := hv w hw
      rw [e1] at h1; rw [e2] at h2
      rw [keybytesToHex_length]
      exact ⟨by omega, h2⟩
  · have hni : ∀ q, r ≠ Trie.keybytesToHex q := fun q e => hex ⟨q, e⟩
    have hnone := build_only_byte_keys ws r hr hni
    unfold build at hnone
    rw [hnone] at hg; cases hg

/-- M7 with the size hypothesis discharged: for keys of at most 2^30 bytes and values of at most
    2^32 bytes the proof `Prove` returns verifies to exactly what the trie holds, or the hash collides -/
theorem merkle_proof_verifies_bounded (H : Bytes → Bytes) (Hlen : ∀ x, (H x).length = 32) (ws : List (Bytes × Bytes))
    (hk : ∀ w ∈ ws, w.1.length ≤ 2 ^ 30) (hv : ∀ w ∈ ws, w.2.length ≤ 2 ^ 32)
    (q : Bytes) (hne : (build ws).isEmpty = false) :
    Trie.verify H (Trie.prove H (build ws) (Trie.keybytesToHex q)) ((Trie.keybytesToHex q).length + 1)
      (Trie.rootHash H (build ws)) (Trie.keybytesToHex q) = some (Trie.lookup (build ws) q) ∨ Trie.Coll H :=
  merkle_proof_verifies H Hlen ws q hne (built_tries_are_small H Hlen ws hk hv)

theorem built_tries_have_no_empty_value (ws : List (Bytes × Bytes)) : Trie.NVs (build ws) := by
  obtain ⟨inv, g⟩ := trie_refines_map ws
  apply Trie.nvs_of_content inv.1
  intro r v hr hg
  rw [List.nil_append] at hr
  by_cases hex : ∃ q, r = Trie.keybytesToHex q
  · obtain ⟨q, rfl⟩ := hex
    have hl : ws.foldl mapUpdate (fun _ => none) q = some v := by
      rw [← g q, lookup_eq_getN inv q]; exact hg
    intro hv; subst hv
    exact map_never_reads_empty ws _ q (by simp) hl
  · have hni : ∀ q, r ≠ Trie.keybytesToHex q := fun q e => hex ⟨q, e⟩
    have hnone := build_only_byte_keys ws r hr hni
    unfold build at hnone
    rw [hnone] at hg; cases hg

/-- M9: THE ROOT COMMITS TO THE CONTENT. Two update sequences (keys <= 2^30 bytes, values <= 2^32
    bytes) whose tries have the same root hash describe the same map - for every key - unless the
    hash function collides. With M6: equal roots <=> equal content, up to collisions -/
theorem equal_roots_equal_content (H : Bytes → Bytes) (Hlen : ∀ x, (H x).length = 32) (ws1 ws2 : List (Bytes × Bytes))
    (hk1 : ∀ w ∈ ws1, w.1.length ≤ 2 ^ 30) (hv1 : ∀ w ∈ ws1, w.2.length ≤ 2 ^ 32)
    (hk2 : ∀ w ∈ ws2, w.1.length ≤ 2 ^ 30) (hv2 : ∀ w ∈ ws2, w.2.length ≤ 2 ^ 32)
    (he : Trie.rootHash H (build ws1) = Trie.rootHash H (build ws2)) :
    (∀ q, ws1.foldl mapUpdate (fun _ => none) q = ws2.foldl mapUpdate (fun _ => none) q) ∨ Trie.Coll H := by
  obtain ⟨i1, g1⟩ := trie_refines_map ws1
  obtain ⟨i2, g2⟩ := trie_refines_map ws2
  rcases Trie.root_commits H Hlen (build ws1) (build ws2) i1.1 i2.1
      (built_tries_have_no_empty_value ws1) (built_tries_have_no_empty_value ws2)
      (built_tries_are_small H Hlen ws1 hk1 hv1) (built_tries_are_small H Hlen ws2 hk2 hv2) he with h | h
  · left
    intro q
    rw [← g1 q, ← g2 q]
    show Trie.lookup (build ws1) q = Trie.lookup (build ws2) q
    rw [h]
  · exact Or.inr h

/-- M10: COMMIT AND REOPEN. The node database a commit writes (the root node and every node stored
    by hash) read from the root hash - fetch by hash, decode, walk through embedded nodes, fetch the
    next hash - returns for EVERY key exactly what the in-memory trie holds, or the hash collides -/
theorem reopen_reproduces_the_content (H : Bytes → Bytes) (Hlen : ∀ x, (H x).length = 32) (ws : List (Bytes × Bytes))
    (hk : ∀ w ∈ ws, w.1.length ≤ 2 ^ 30) (hv : ∀ w ∈ ws, w.2.length ≤ 2 ^ 32)
    (q : Bytes) (hne : (build ws).isEmpty = false) :
    Trie.verify H (Trie.commitNodes H (build ws)) ((Trie.keybytesToHex q).length + 1)
      (Trie.rootHash H (build ws)) (Trie.keybytesToHex q) = some (Trie.lookup (build ws) q) ∨ Trie.Coll H := by
  obtain ⟨inv, g⟩ := trie_refines_map ws
  have hl : Trie.lookup (build ws) q = Trie.getN (build ws) (Trie.keybytesToHex q) := lookup_eq_getN inv q
  have hnv : Trie.getN (build ws) (Trie.keybytesToHex q) ≠ some [] := by
    rw [← hl]; unfold build; rw [g q]
    exact map_never_reads_empty ws _ q (by simp)
  rw [hl]
  exact Trie.reopen_reads_content H Hlen (build ws) _ inv.1 hne (termKey_keybytesToHex q)
    (built_tries_are_small H Hlen ws hk hv) hnv

/-- not vacuous: a trie with nodes stored by hash (values of 40 and 33 bytes) meets the hypotheses,
    its proofs have several elements, and they verify for a present and for an absent key (a toy
    32-byte "hash" keeps the evaluation small; the theorem is for every hash function) -/
example :
    let toyH : Bytes → Bytes := fun b => (b ++ List.replicate 32 0).take 32
    let ws : List (Bytes × Bytes) := [([0x12, 0x34], List.replicate 40 7), ([0x12, 0x35], [2]), ([0x77], List.replicate 33 9)]
    (build ws).isEmpty = false ∧ Trie.SmallT toyH (build ws) ∧
    (Trie.prove toyH (build ws) (Trie.keybytesToHex [0x12, 0x34])).length = 4 ∧
    Trie.verify toyH (Trie.prove toyH (build ws) (Trie.keybytesToHex [0x12, 0x34])) 6 (Trie.rootHash toyH (build ws))
      (Trie.keybytesToHex [0x12, 0x34]) = some (some (List.replicate 40 7)) ∧
    Trie.verify toyH (Trie.prove toyH (build ws) (Trie.keybytesToHex [0x12, 0x36])) 6 (Trie.rootHash toyH (build ws))
      (Trie.keybytesToHex [0x12, 0x36]) = some none := by
  refine ⟨by rfl, Trie.smallTB_sound _ _ (by decide), by decide, by decide, by decide⟩

/-- not vacuous: three writes (two sharing a nibble prefix), one overwrite and one delete -/
example :
    let t := [([0x12, 0x34], [1]), ([0x12, 0x35], [2]), ([0x77], [3]), ([0x12, 0x34], [4]), ([0x77], [])].foldl
      (fun t (w : Bytes × Bytes) => Trie.update t w.1 w.2) Trie.Node.empty
    Trie.lookup t [0x12, 0x34] = some [4] ∧ Trie.lookup t [0x12, 0x35] = some [2] ∧ Trie.lookup t [0x77] = none := by
  decide

end AnnVerif.C11
