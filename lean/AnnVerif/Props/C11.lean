/-
  C11 — State trie and state DB: root is a function of content; commit/revert exact.  (PARTIAL)

  Models: Model/Trie.lean (insert/delete/get/hash as in eth/trie), Model/StateJournal.lean (the
  journalled state database). PROVED:
    J1  every mutation of the state database is exactly undone by the journal entries it appends;
    J2  for EVERY sequence of mutations after a snapshot (nonce, balance, code, storage, account
        creation over an existing or a missing account, suicide), `RevertToSnapshot` restores
        exactly the accounts and the journal of the moment the snapshot was taken;
    J3  nested snapshots: reverting to an inner snapshot leaves the outer one valid, and reverting
        to the outer one afterwards restores its state — for every pair of mutation sequences;
    E1  `keybytesToHex` is injective (two byte keys never share a trie path);
    E2  hex-prefix (compact) encoding decodes back to the key for every even-length key without
        terminator (the extension-node case; the odd and the terminated cases are checked on
        examples only).
  NOT proved (decided per run by the engine, three ways: in-tree code = Lean model = go-ethereum
  v1.8.27): that the root is a function of the content alone (history independence), get/insert/
  delete agreement with a map, commit/reopen, Merkle proofs. The hash itself (Keccak-256) is
  computed by the driver and is not the subject of any theorem.
-/
import AnnVerif.Model.StateJournal
import AnnVerif.Model.Trie
namespace AnnVerif.C11
open AnnVerif AnnVerif.StateJournal

/-! ### the journal -/

theorem put_same (as : Accounts) (a : Nat) (x : Acct) : find (put as a x) a = some x := by
  simp [find, put]

theorem put_put (as : Accounts) (a : Nat) (x y : Acct) : put (put as a x) a y = put as a y := by
  funext b; simp only [put]; split <;> rfl

theorem put_find (as : Accounts) (a : Nat) (x : Acct) (h : find as a = some x) : put as a x = as := by
  funext b; simp only [put]; split
  · rename_i e; subst e; exact h.symm
  · rfl

theorem remove_put (as : Accounts) (a : Nat) (x : Acct) (h : find as a = none) : remove (put as a x) a = as := by
  funext b; simp only [remove, put]; split
  · rename_i e; subst e; exact h.symm
  · rfl

inductive Op where
  | nonce (a n : Nat) | balance (a n : Nat) | code (a : Nat) (c : Bytes) | state (a k v : Nat)
  | create (a : Nat) | suicide (a : Nat)

def apply (d : DB) : Op → DB
  | .nonce a n => setNonce d a n
  | .balance a n => setBalance d a n
  | .code a c => setCode d a c
  | .state a k v => setState d a k v
  | .create a => createAccount d a
  | .suicide a => suicide d a

/-- undo a list of entries, newest first -/
def undoAll (as : Accounts) (es : List Entry) : Accounts := es.reverse.foldl undo as

theorem undoAll_append (as : Accounts) (e1 e2 : List Entry) :
    undoAll as (e1 ++ e2) = undoAll (undoAll as e2) e1 := by
  simp [undoAll, List.reverse_append, List.foldl_append]

theorem sput_undo (st : Nat → Nat) (k v : Nat) : sput (sput st k v) k (sget st k) = st := by
  funext j; simp only [sput, sget]; split
  · rename_i e; rw [e]
  · rfl

/-- J1: what one mutation appends to the journal undoes it exactly -/
structure StepOK (d d' : DB) : Prop where
  ext : ∃ es, d'.journal = d.journal ++ es ∧ undoAll d'.accts es = d.accts
  snaps : d'.snaps = d.snaps
  nextId : d'.nextId = d.nextId

theorem touch_ok (d : DB) (a : Nat) :
    ∃ es, (touch d a).1.journal = d.journal ++ es ∧ undoAll (touch d a).1.accts es = d.accts ∧
      find (touch d a).1.accts a = some (touch d a).2 ∧ (touch d a).1.snaps = d.snaps ∧
      (touch d a).1.nextId = d.nextId := by
  unfold touch
  cases h : find d.accts a with
  | some x => exact ⟨[], by simp, by simp [undoAll], h, rfl, rfl⟩
  | none =>
    refine ⟨[.created a], rfl, ?_, put_same _ _ _, rfl, rfl⟩
    simp [undoAll, undo, remove_put _ _ _ h]

/-- a field update on the touched account, journalled with the previous value -/
theorem field_ok (d : DB) (a : Nat) (x' : Acct) (e : Entry)
    (hundo : ∀ as, find as a = some x' → undo as e = put as a (touch d a).2) :
    StepOK d { (touch d a).1 with accts := put (touch d a).1.accts a x', journal := (touch d a).1.journal ++ [e] } := by
  obtain ⟨es, hj, hu, hf, hs, hn⟩ := touch_ok d a
  refine ⟨⟨es ++ [e], by simp [hj], ?_⟩, hs, hn⟩
  rw [undoAll_append]
  have h1 : undoAll (put (touch d a).1.accts a x') [e] = (touch d a).1.accts := by
    simp only [undoAll, List.reverse_cons, List.reverse_nil, List.nil_append, List.foldl]
    rw [hundo _ (put_same _ _ _), put_put, put_find _ _ _ hf]
  rw [h1, hu]

theorem apply_ok (d : DB) (op : Op) : StepOK d (apply d op) := by
  cases op with
  | nonce a n =>
    exact field_ok d a _ (.nonce a (touch d a).2.nonce) (by intro as h; simp only [undo, h])
  | balance a n =>
    exact field_ok d a _ (.balance a (touch d a).2.balance) (by intro as h; simp only [undo, h])
  | code a c =>
    exact field_ok d a _ (.code a (touch d a).2.code) (by intro as h; simp only [undo, h])
  | state a k v =>
    simp only [apply, setState]
    by_cases hsame : sget (touch d a).2.storage k = v
    · rw [if_pos hsame]
      obtain ⟨es, hj, hu, _, hs, hn⟩ := touch_ok d a
      exact ⟨⟨es, hj, hu⟩, hs, hn⟩
    · rw [if_neg hsame]
      exact field_ok d a _ (.storage a k (sget (touch d a).2.storage k))
        (by intro as h; simp only [undo, h, sput_undo])
  | create a =>
    simp only [apply, createAccount]
    cases h : find d.accts a with
    | none =>
      refine ⟨⟨[.created a], rfl, ?_⟩, rfl, rfl⟩
      simp [undoAll, undo, remove_put _ _ _ h]
    | some prev =>
      refine ⟨⟨[.reset a prev], rfl, ?_⟩, rfl, rfl⟩
      simp [undoAll, undo, put_put, put_find _ _ _ h]
  | suicide a =>
    simp only [apply, suicide]
    cases h : find d.accts a with
    | none => exact ⟨⟨[], by simp, by simp [undoAll]⟩, rfl, rfl⟩
    | some x =>
      refine ⟨⟨[.suicide a x.suicided x.balance], rfl, ?_⟩, rfl, rfl⟩
      simp [undoAll, undo, put_same, put_put, put_find _ _ _ h]

/-- over any sequence of mutations: the journal only grows, and undoing what was appended gives the
    accounts back -/
theorem run_ok : ∀ (ops : List Op) (d : DB), StepOK d (ops.foldl apply d) := by
  intro ops
  induction ops with
  | nil => intro d; exact ⟨⟨[], by simp, by simp [undoAll]⟩, rfl, rfl⟩
  | cons op r ih =>
    intro d
    simp only [List.foldl]
    obtain ⟨⟨e1, hj1, hu1⟩, hs1, hn1⟩ := apply_ok d op
    obtain ⟨⟨e2, hj2, hu2⟩, hs2, hn2⟩ := ih (apply d op)
    refine ⟨⟨e1 ++ e2, by rw [hj2, hj1, List.append_assoc], ?_⟩, hs2.trans hs1, hn2.trans hn1⟩
    rw [undoAll_append, hu2, hu1]

/-- the general form: a snapshot taken at journal length |j|, anything journalled since, any
    later snapshots — reverting to it restores accounts, journal and the earlier snapshots -/
theorem revert_restores (d2 : DB) (as0 : Accounts) (j es : List Entry) (snaps0 later : List (Nat × Nat)) (id : Nat)
    (hj : d2.journal = j ++ es) (hu : undoAll d2.accts es = as0)
    (hs : d2.snaps = snaps0 ++ [(id, j.length)] ++ later)
    (hbefore : ∀ s ∈ snaps0, s.1 < id) (hafter : ∀ s ∈ later, id < s.1) :
    ∃ d', revert d2 id = some d' ∧ d'.accts = as0 ∧ d'.journal = j ∧ d'.snaps = snaps0 := by
  unfold revert
  have hfind : d2.snaps.find? (fun s => s.1 == id) = some (id, j.length) := by
    rw [hs, List.append_assoc, List.find?_append]
    have : snaps0.find? (fun s => s.1 == id) = none := by
      rw [List.find?_eq_none]; intro s hs' he
      have := hbefore s hs'; simp at he; omega
    rw [this]; simp
  rw [hfind]
  refine ⟨_, rfl, ?_, ?_, ?_⟩
  · show ((d2.journal.drop j.length).reverse).foldl undo d2.accts = as0
    rw [hj, List.drop_left]; exact hu
  · show d2.journal.take j.length = j
    rw [hj, List.take_left]
  · show d2.snaps.filter (fun s => decide (s.1 < id)) = snaps0
    rw [hs, List.filter_append, List.filter_append]
    have h1 : snaps0.filter (fun s => decide (s.1 < id)) = snaps0 := by
      rw [List.filter_eq_self]; intro s hs'; simpa using hbefore s hs'
    have h2 : later.filter (fun s => decide (s.1 < id)) = [] := by
      rw [List.filter_eq_nil_iff]; intro s hs'; have := hafter s hs'; simp; omega
    simp [h1, h2]

/-- snapshot ids handed out so far are below the next id -/
def SnapsOK (d : DB) : Prop := ∀ s ∈ d.snaps, s.1 < d.nextId

/-- J2 -/
theorem revert_to_snapshot_is_exact (d : DB) (hd : SnapsOK d) (ops : List Op) :
    ∃ d', revert (ops.foldl apply (snapshot d).1) (snapshot d).2 = some d' ∧
      d'.accts = d.accts ∧ d'.journal = d.journal ∧ d'.snaps = d.snaps := by
  obtain ⟨⟨es, hj, hu⟩, hs, _⟩ := run_ok ops (snapshot d).1
  exact revert_restores _ d.accts d.journal es d.snaps [] d.nextId hj hu (by rw [hs]; simp [snapshot]) hd (by simp)

/-- J3: an inner snapshot taken and reverted in between does not disturb the outer one -/
theorem nested_snapshots (d : DB) (hd : SnapsOK d) (ops1 ops2 ops3 : List Op) :
    let outer := snapshot d
    let mid := ops1.foldl apply outer.1
    let inner := snapshot mid
    let deep := ops2.foldl apply inner.1
    ∃ back, revert deep inner.2 = some back ∧ back.accts = mid.accts ∧ back.journal = mid.journal ∧
      ∃ d', revert (ops3.foldl apply back) outer.2 = some d' ∧ d'.accts = d.accts ∧ d'.journal = d.journal ∧
        d'.snaps = d.snaps := by
  intro outer mid inner deep
  obtain ⟨⟨e1, hj1, hu1⟩, hs1, hn1⟩ := run_ok ops1 outer.1
  obtain ⟨⟨e2, hj2, hu2⟩, hs2, _⟩ := run_ok ops2 inner.1
  have hmidSnaps : mid.snaps = d.snaps ++ [(d.nextId, d.journal.length)] := by
    show (ops1.foldl apply outer.1).snaps = _; rw [hs1]; rfl
  have hmidNext : mid.nextId = d.nextId + 1 := by
    show (ops1.foldl apply outer.1).nextId = _; rw [hn1]; rfl
  have hbefore : ∀ s ∈ mid.snaps, s.1 < mid.nextId := by
    intro s hs; rw [hmidSnaps] at hs; rw [hmidNext]
    rcases List.mem_append.mp hs with h | h
    · have := hd s h; omega
    · simp at h; subst h; simp
  obtain ⟨back, hb, hba, hbj, hbs⟩ := revert_restores deep mid.accts mid.journal e2 mid.snaps [] mid.nextId hj2 hu2
    (by rw [hs2]; simp [inner, snapshot]) hbefore (by simp)
  refine ⟨back, hb, hba, hbj, ?_⟩
  obtain ⟨⟨e3, hj3, hu3⟩, hs3, _⟩ := run_ok ops3 back
  have hj3' : (ops3.foldl apply back).journal = d.journal ++ (e1 ++ e3) := by
    rw [hj3, hbj]; show (ops1.foldl apply outer.1).journal ++ e3 = _; rw [hj1]; simp [outer, snapshot]
  have hu3' : undoAll (ops3.foldl apply back).accts (e1 ++ e3) = d.accts := by
    rw [undoAll_append, hu3, hba]; exact hu1
  exact revert_restores _ d.accts d.journal (e1 ++ e3) d.snaps [] d.nextId hj3' hu3'
    (by rw [hs3, hbs, hmidSnaps]; simp) hd (by simp)

/-! ### key encodings -/

open AnnVerif.Trie in
/-- E1 -/
theorem keybytesToHex_injective (a b : Bytes) (h : Trie.keybytesToHex a = Trie.keybytesToHex b) : a = b := by
  unfold Trie.keybytesToHex at h
  have h' := List.append_cancel_right h
  clear h
  induction a generalizing b with
  | nil =>
    cases b with
    | nil => rfl
    | cons y r => simp at h'
  | cons x t ih =>
    cases b with
    | nil => simp at h'
    | cons y r =>
      simp only [List.map_cons, List.flatten_cons, List.cons_append, List.nil_append, List.cons.injEq] at h'
      obtain ⟨h1, h2, h3⟩ := h'
      have hxy : x = y := by
        have e : x.toNat = y.toNat := by
          have d1 := Nat.div_add_mod x.toNat 16
          have d2 := Nat.div_add_mod y.toNat 16
          omega
        exact UInt8.toNat_inj.mp e
      rw [hxy, ih r h3]

/-! ### E2: hex-prefix encoding -/

def unpackBytes (bs : Bytes) : List Nat := (bs.map fun b => [b.toNat / 16, b.toNat % 16]).flatten

theorem unpack_pack : ∀ (n : Nat) (hex : List Nat), hex.length = 2 * n → (∀ x ∈ hex, x < 16) →
    unpackBytes (Trie.hexToCompact.pack hex) = hex := by
  intro n
  induction n with
  | zero => intro hex hl _; have : hex = [] := List.eq_nil_of_length_eq_zero (by omega); subst this; rfl
  | succ n ih =>
    intro hex hl hlt
    match hex, hl with
    | a :: b :: r, hl =>
      have ha : a < 16 := hlt a (by simp)
      have hb : b < 16 := hlt b (by simp)
      have hr := ih r (by simp at hl; omega) (fun x hx => hlt x (by simp [hx]))
      simp only [Trie.hexToCompact.pack, unpackBytes, List.map_cons, List.flatten_cons]
      have hv : (UInt8.ofNat (a * 16 + b)).toNat = a * 16 + b := by
        rw [UInt8.toNat_ofNat']; omega
      rw [hv]
      have h1 : (a * 16 + b) / 16 = a := by omega
      have h2 : (a * 16 + b) % 16 = b := by omega
      rw [h1, h2]
      show a :: b :: unpackBytes (Trie.hexToCompact.pack r) = a :: b :: r
      rw [hr]

/-- E2 for keys without terminator and of even length (the extension-node case) -/
theorem compact_roundtrip_even (hex : List Nat) (n : Nat) (hl : hex.length = 2 * n) (hlt : ∀ x ∈ hex, x < 16) :
    Trie.compactToHex (Trie.hexToCompact hex) = hex := by
  have hnt : Trie.hasTerm hex = false := by
    unfold Trie.hasTerm
    cases hg : hex.getLast? with
    | none => rfl
    | some x =>
      have := hlt x (List.mem_of_getLast? hg)
      simp; omega
  unfold Trie.hexToCompact
  simp only [hnt, Bool.false_eq_true, if_false]
  have hev : ¬ hex.length % 2 = 1 := by omega
  rw [if_neg hev]
  unfold Trie.compactToHex
  simp only
  have hz : (UInt8.ofNat (2 * 0 * 16)).toNat = 0 := by decide
  rw [hz]
  simp only [Nat.zero_div, Nat.zero_mod, Nat.zero_ne_one, if_false, ge_iff_le, Nat.not_succ_le_zero]
  exact unpack_pack n hex hl hlt

example : Trie.compactToHex (Trie.hexToCompact [1, 2, 3, 16]) = [1, 2, 3, 16] ∧
          Trie.compactToHex (Trie.hexToCompact [1, 2, 16]) = [1, 2, 16] ∧
          Trie.compactToHex (Trie.hexToCompact [7]) = [7] := by decide

/-! ### J4-J6: what the application's per-block commit (deleteEmptyObjects = true) may and may not remove -/

/-- J4: an account nothing has written to since it was persisted - however often it was READ - is
    exactly what it was after `Commit(true)` and reopening: reads never change the committed state -/
theorem untouched_account_survives_commit (d : StateJournal.DB) (persisted : StateJournal.Accounts) (a : Nat)
    (h1 : d.objDirty.contains a = false) (h2 : StateJournal.journalDirty d a = false) :
    (StateJournal.commitDel d persisted).accts a = persisted a := by
  unfold StateJournal.commitDel
  have hm : ¬ a ∈ d.objDirty := by simpa using h1
  simp [hm, h2]

/-- J5: a touched account is removed by `Commit(true)` exactly when it is suicided or empty; otherwise
    it is written as the live state shows it -/
theorem touched_account_commit (d : StateJournal.DB) (persisted : StateJournal.Accounts) (a : Nat)
    (x : StateJournal.Acct) (hd : d.objDirty.contains a = true ∨ StateJournal.journalDirty d a = true)
    (hx : d.accts a = some x) :
    (StateJournal.commitDel d persisted).accts a = if x.suicided || x.isEmpty then none else some x := by
  unfold StateJournal.commitDel
  rcases hd with hd | hd
  · have hm : a ∈ d.objDirty := by simpa using hd
    simp [hm, hx]
  · simp [hd, hx]

/-- J6: the commit leaves no journal, snapshot or dirty mark behind -/
theorem commit_is_clean (d : StateJournal.DB) (persisted : StateJournal.Accounts) :
    (StateJournal.commitDel d persisted).journal = [] ∧ (StateJournal.commitDel d persisted).snaps = [] ∧
    (StateJournal.commitDel d persisted).objDirty = [] := ⟨rfl, rfl, rfl⟩

end AnnVerif.C11
