/-
  C05 — Replicated execution is deterministic: hashes depend only on the chain (the wrapper).

  Model: Model/App.lean. The model is a FUNCTION of the replica's persisted state, the block and
  the receipts the EVM returns (oracle), so the worker count of the signature verifier and the
  schedule do not occur in it at all; that the real parallel verifier yields what the sequential
  function yields is decided per run by replica C (one worker) against replica A (eight).
  PROVED (repaired code), for every hash function, every chain and every oracle:
    D1  at every block boundary the per-block accumulators (receipts, key-value records) are
        empty, so stopping the process and starting it again at a block boundary changes nothing;
    D2  hence for EVERY chain and EVERY placement of restarts between blocks the sequence of
        (verdicts, receipts hash) per block and the final accounts equal those of the run without
        restarts — the hashes are a function of genesis and blocks alone;
    D3  the receipts hash of a block is the Merkle root over exactly this block's receipts and
        key-value records;
    as found (key-value records never cleared): a replica restarted between two blocks computes
        another receipts hash than one that kept running — counter-theorem, replayed on the code.
-/
import AnnVerif.Lemmas.App
namespace AnnVerif.C05
open AnnVerif AnnVerif.App

section
variable (N : Bytes → Bytes → Bytes)

/-- a chain with process lifetimes: blocks (transactions + the receipts the EVM returns for the
    applied ones) and restarts between them -/
inductive Ev where
  | blk (txs : List Tx) (oracle : List Bytes)
  | restart

def run (cfg : Cfg) : App → List Ev → App × List BlockOut
  | app, [] => (app, [])
  | app, .blk txs o :: rest =>
    let (app', out) := block N cfg app txs o
    let (app'', outs) := run cfg app' rest
    (app'', out :: outs)
  | app, .restart :: rest => run cfg (restart app) rest

def isBlk : Ev → Bool
  | .blk _ _ => true
  | .restart => false

/-- at a block boundary nothing of the last block is left in the process -/
def Clean (app : App) : Prop := app.receipts = [] ∧ app.kvs = []

/-- D1 -/
theorem block_leaves_clean (app : App) (txs : List Tx) (o : List Bytes) :
    Clean (block N repaired app txs o).1 := by
  unfold block Clean
  simp [repaired]

theorem restart_of_clean (app : App) (h : Clean app) : restart app = app := by
  obtain ⟨h1, h2⟩ := h
  cases app
  simp_all [restart]

/-- D2 -/
theorem restarts_do_not_matter : ∀ (evs : List Ev) (app : App), Clean app →
    run N repaired app evs = run N repaired app (evs.filter isBlk) := by
  intro evs
  induction evs with
  | nil => intro app _; rfl
  | cons e rest ih =>
    intro app hc
    cases e with
    | restart =>
      simp only [run, List.filter, isBlk]
      rw [restart_of_clean app hc]
      exact ih app hc
    | blk txs o =>
      simp only [run, List.filter, isBlk]
      rw [ih _ (block_leaves_clean N app txs o)]

/-- D3: what the receipts hash of a block covers, from a clean boundary -/
theorem receipts_hash_covers_this_block (app : App) (hc : Clean app) (txs : List Tx) (o : List Bytes) :
    (block N repaired app txs o).2.rhash =
      Merkle.root N ((execTxs repaired app.accounts txs o [] [] []).2.1 ++ (execTxs repaired app.accounts txs o [] [] []).2.2.1) := by
  obtain ⟨h1, h2⟩ := hc
  unfold block
  simp [h1, h2]

end

/-! ### as found -/

/-- two blocks with one key-value transaction each -/
def b1 : Ev := .blk [.signed 0 0 (.kv [1] [1] true) 0 0 0 0 0] []
def b2 : Ev := .blk [.signed 0 1 (.kv [2] [2] true) 0 0 0 0 0] []

def cat : Bytes → Bytes → Bytes := fun l r => l ++ r

/-- as found the replica that kept running hashes the key-value record of block 1 again into the
    receipts hash of block 2; the restarted one does not -/
theorem asFound_restart_changes_receipts_hash :
    ((run cat asFound {} [b1, b2]).2.map (·.records)) ≠ ((run cat asFound {} [b1, .restart, b2]).2.map (·.records)) ∧
    ((run cat repaired {} [b1, b2]).2.map (·.records)) = ((run cat repaired {} [b1, .restart, b2]).2.map (·.records)) := by
  decide

example : Clean ({} : App) := ⟨rfl, rfl⟩

end AnnVerif.C05
