/-
  C02 — Every committed block is valid and carries a verifiable +2/3 commit.

  Model: Model/Block.lean (`validateBlock` = ConsensusState.ValidateBlock + Block.ValidateBasic +
  Block.ValidateCommit + Commit.ValidateBasic, in code order) over the VerifyCommit model of C15.
  The node commits a block only after `validateBlock` accepted it (C04.finalizeCommit_emits: a
  commit is emitted only for a block with `isValid`, which the c04/c07/c01 engines tie to the real
  `state.ValidateBlock`), so what acceptance implies is what every committed block satisfies.

  PROVED, for every state, every block, every assignment of the signature oracle:
    V1  acceptance ⇒ the block extends the chain (height, previous-block id, app hash, receipts
        hash, chain id) and every header commitment equals the digest of what the block carries
        (data, last commit, validator set) and the proposer is a validator;
    V2  acceptance at height > 1 ⇒ the embedded last commit JUSTIFIES the previous block: one
        round, every non-nil slot a precommit of height-1 in that round whose signature verifies
        under the key at its position, and the slots for exactly `lastBlockID` hold > 2/3 of the
        power of LastValidators (each position counted once);
    V3  acceptance at height 1 ⇒ no precommits;
    V4  (as found) the validator-set commitment is NOT implied: a block with an arbitrary
        ValidatorsHash is accepted — counter-theorem with witness, replayed on the code;
    V5  completeness for the honest proposer: the commit assembled from a +2/3 precommit majority
        passes (C15.commit_verifies), so an honest block with consistent fields is accepted.
  The stored seen-commit re-verifying is C15.commit_verifies (MakeCommit of a majority passes
  VerifyCommit for the same set).
-/
import AnnVerif.Lemmas.BlockValid
namespace AnnVerif.C02
open AnnVerif AnnVerif.VoteSet AnnVerif.Block

/-- V1: header and linkage -/
structure Extends (st : State) (b : Block) : Prop where
  chain : b.hdr.chainID = st.chainID
  height : b.hdr.height = st.lastBlockHeight + 1
  prev : b.hdr.lastBlockID = st.lastBlockID
  app : b.hdr.appHash = st.appHash
  receipts : b.hdr.receiptsHash = st.receiptsHash
  numTxs : b.hdr.numTxs = b.nTxs
  dataCommit : b.hdr.dataHash = b.dataDigest
  lastCommitCommit : b.hdr.lastCommitHash = b.commitDigest
  proposer : hasAddress st.validators b.hdr.proposer = true

theorem validateBasic_ok (st : State) (b : Block) (h : validateBasic st b = .ok) :
    b.hdr.chainID = st.chainID ∧ b.hdr.height = st.lastBlockHeight + 1 ∧ b.hdr.numTxs = b.nTxs ∧
    b.hdr.lastBlockID = st.lastBlockID ∧ b.hdr.dataHash = b.dataDigest ∧ b.hdr.appHash = st.appHash ∧
    b.hdr.receiptsHash = st.receiptsHash := by
  unfold validateBasic at h
  split at h; · cases h
  split at h; · cases h
  split at h; · cases h
  split at h; · cases h
  split at h; · cases h
  split at h; · cases h
  split at h; · cases h
  rename_i h1 h2 h3 h4 h5 h6 h7
  exact ⟨Classical.not_not.mp h1, Classical.not_not.mp h2, Classical.not_not.mp h3, Classical.not_not.mp h4,
    Classical.not_not.mp h5, Classical.not_not.mp h6, Classical.not_not.mp h7⟩

/-- everything `validateBlock` goes through, unfolded once -/
theorem validateBlock_ok_parts (cfg : Block.Cfg) (sigok : Nat → Vote → Bool) (st : State) (b : Block)
    (h : validateBlock cfg sigok st b = .ok) :
    validateBasic st b = .ok ∧ validateCommit cfg b = .ok ∧ hasAddress st.validators b.hdr.proposer = true ∧
    (cfg.checkValHash = true → b.hdr.validatorsHash = st.valHash) ∧ validateLastCommit cfg sigok st b = .ok := by
  unfold validateBlock at h
  split at h
  · rename_i hb
    split at h
    · rename_i hc
      split at h
      · cases h
      · rename_i hp
        split at h
        · cases h
        · rename_i hv
          refine ⟨hb, hc, by simpa using hp, ?_, h⟩
          intro hcfg
          have : ¬ (b.hdr.validatorsHash ≠ st.valHash) := fun hne => hv ⟨hcfg, hne⟩
          exact Classical.not_not.mp this
    · rename_i e hne; exact absurd h (by intro hh; exact hne hh)
  · rename_i e hne; exact absurd h (by intro hh; exact hne hh)

theorem accepted_extends (cfg : Block.Cfg) (sigok : Nat → Vote → Bool) (st : State) (b : Block)
    (h : validateBlock cfg sigok st b = .ok) : Extends st b := by
  obtain ⟨hb, hc, hp, _, _⟩ := validateBlock_ok_parts cfg sigok st b h
  obtain ⟨a1, a2, a3, a4, a5, a6, a7⟩ := validateBasic_ok st b hb
  have hl : b.hdr.lastCommitHash = b.commitDigest := by
    unfold validateCommit at hc
    split at hc
    · cases hc
    · rename_i hh; exact Classical.not_not.mp hh
  exact ⟨a1, a2, a4, a6, a7, a3, a5, hl, hp⟩

/-- V1 (repaired): the validator-set commitment is the hash of the height's validator set -/
theorem accepted_commits_to_validators (sigok : Nat → Vote → Bool) (st : State) (b : Block)
    (h : validateBlock Block.repaired sigok st b = .ok) : b.hdr.validatorsHash = st.valHash :=
  (validateBlock_ok_parts _ sigok st b h).2.2.2.1 rfl

/-- V2: the last commit of an accepted block above height 1 justifies the previous block -/
theorem accepted_last_commit_justifies (cfg : Block.Cfg) (sigok : Nat → Vote → Bool) (st : State) (b : Block)
    (hpos : ∀ val ∈ st.lastValidators, 0 ≤ val.power)
    (h : validateBlock cfg sigok st b = .ok) (hh : b.hdr.height ≠ 1) :
    CommitJustifies sigok st.lastValidators st.lastBlockID (b.hdr.height - 1) b.commit := by
  have hlc := (validateBlock_ok_parts cfg sigok st b h).2.2.2.2
  unfold validateLastCommit at hlc
  simp only [hh, if_false] at hlc
  split at hlc
  · cases hlc
  · split at hlc
    · rename_i hv; exact verifyCommit_sound cfg.vs sigok _ _ _ _ hpos hv
    · cases hlc
    · cases hlc

/-- V3: the first block carries no precommits -/
theorem accepted_first_block (cfg : Block.Cfg) (sigok : Nat → Vote → Bool) (st : State) (b : Block)
    (h : validateBlock cfg sigok st b = .ok) (hh : b.hdr.height = 1) : b.commit.precommits = [] := by
  have hlc := (validateBlock_ok_parts cfg sigok st b h).2.2.2.2
  unfold validateLastCommit at hlc
  simp only [hh, if_true] at hlc
  split at hlc
  · cases hlc
  · rename_i hl
    exact List.eq_nil_of_length_eq_zero (Classical.not_not.mp hl)

/-! ### V4: as found, the validator-set commitment is unconstrained -/

def wState : State :=
  ⟨"c", 0, ⟨[], 0, []⟩, [], [], [⟨[1], 1⟩], [], [0xAA]⟩

/-- an otherwise honest first block whose ValidatorsHash is not the hash of the validator set -/
def wBlock : Block :=
  ⟨⟨"c", 1, 0, ⟨[], 0, []⟩, [0xD0], [0xC0], [0x66], [], [], [1]⟩, 0, [0xD0], [0xC0], ⟨⟨[], 0, []⟩, []⟩⟩

theorem asFound_accepts_foreign_validators_hash :
    validateBlock Block.asFound (fun _ _ => false) wState wBlock = .ok ∧
    wBlock.hdr.validatorsHash ≠ wState.valHash ∧
    validateBlock Block.repaired (fun _ _ => false) wState wBlock = .valHash := by decide

/-! ### non-vacuity: an accepted block at height 2 with a real 3-of-4 commit -/

def exVals : List Validator := [⟨[1], 1⟩, ⟨[2], 1⟩, ⟨[3], 1⟩, ⟨[4], 1⟩]
def exPrev : BlockID := ⟨[0xB1], 1, [0xB2]⟩
def exState : State := ⟨"c", 1, exPrev, [0xA1], [0xA2], exVals, exVals, [0xAA]⟩
def pc (i : Int) (a : UInt8) : Option Vote := some ⟨i, [a], 1, 0, 2, exPrev, 0⟩
def exBlock : Block :=
  ⟨⟨"c", 2, 1, exPrev, [0xD0], [0xC0], [0xAA], [0xA1], [0xA2], [2]⟩, 1, [0xD0], [0xC0],
   ⟨exPrev, [pc 0 1, none, pc 2 3, pc 3 4]⟩⟩

example : validateBlock Block.repaired (fun _ _ => true) exState exBlock = .ok := by decide
example : validateBlock Block.repaired (fun i _ => i != 2) exState exBlock = .verify .sig := by decide

end AnnVerif.C02
