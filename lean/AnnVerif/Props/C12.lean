/-
  C12 — Liveness: with +2/3 honest and fair delivery every height terminates.  (PARTIAL)

  What is PROVED (timeout ticker, Model/Ticker.lean): the ticker takes a new request exactly when it
  is later than the pending one in the (height, round, step) order — so
    K1  the timeout of a later height is always armed, whatever round the previous height ended in
        (the next height always starts: scheduleRound0 asks for (h+1, 0, NewHeight));
    K2  within a height the timeout of a later round, and within a round of a later step, is armed;
    K3  a request that is not later is ignored and leaves the pending timeout as it is (a stale
        request cannot cancel the timeout the node is waiting for);
    K4  the flattened filter (round compared across heights) drops the NewHeight timeout after a
        height that ended in a round > 0 — counter-theorem, the shape of a realistic regression.
  and (Props/C08): rejected input leaves the node unchanged, so hostile traffic cannot undo progress.
  and (local progress, P1-P6): a node that has what a commit needs commits; +2/3 precommits for a
  valid block are never ignored - entering Commit finalizes at once or waits for exactly that block
  with an incomplete part set, and the arrival of the parts finalizes (P4, P5), in every reachable
  state (P6: two run invariants through every handler).
  What is DECIDED PER RUN, not proved: termination of every height on the real nodes — the c12
  `live` engine runs adversarial prefixes (reordering, loss, duplication, Byzantine validators < 1/3
  that equivocate, crashes with WAL replay) followed by a fair suffix (everything delivered, every
  timeout fired, Byzantine silent) and requires every honest node to get past the highest height of
  the prefix; the `ticker` engine ties the ticker model to the production ticker goroutine.
  NOT exhibited by any model here: goroutine interleavings / lock order of the real receive,
  timeout and gossip routines, and blocking event-switch hooks.
-/
import AnnVerif.Model.Ticker
import AnnVerif.Lemmas.NodeProgress2
namespace AnnVerif.C12
open AnnVerif.Ticker

def later (a b : TI) : Prop :=
  a.height < b.height ∨ (a.height = b.height ∧ (a.round < b.round ∨ (a.round = b.round ∧ a.step < b.step)))

/-- the filter is the lexicographic order on (height, round, step) (once a timeout was armed) -/
theorem accept_iff_later (ti nt : TI) (h0 : ti.step > 0) : accept {} ti nt = true ↔ later ti nt := by
  unfold accept later
  simp only [Bool.not_true, Bool.false_eq_true, or_false]
  constructor
  · intro h
    by_cases c1 : nt.height < ti.height
    · simp [c1] at h
    · simp only [c1, if_false] at h
      by_cases c2 : nt.height = ti.height
      · simp only [c2, if_true] at h
        by_cases c3 : nt.round < ti.round
        · simp [c3] at h
        · simp only [c3, if_false] at h
          by_cases c4 : nt.round = ti.round
          · simp only [c4, and_self, if_true] at h
            right; refine ⟨c2.symm, Or.inr ⟨c4.symm, ?_⟩⟩
            simp at h
            omega
          · right; exact ⟨c2.symm, Or.inl (by omega)⟩
      · left; omega
  · intro h
    rcases h with h | ⟨h1, h | ⟨h2, h3⟩⟩
    · have c1 : ¬ nt.height < ti.height := by omega
      have c2 : ¬ nt.height = ti.height := by omega
      simp [c1, c2]
    · have c1 : ¬ nt.height < ti.height := by omega
      have c3 : ¬ nt.round < ti.round := by omega
      have c4 : ¬ nt.round = ti.round := by omega
      simp [c1, h1.symm, c3, c4]
    · have c1 : ¬ nt.height < ti.height := by omega
      have c3 : ¬ nt.round < ti.round := by omega
      simp [c1, h1.symm, c3, h2.symm]
      omega

/-- K1 -/
theorem later_height_always_armed (ti nt : TI) (h : ti.height < nt.height) : accept {} ti nt = true := by
  unfold accept
  have c1 : ¬ nt.height < ti.height := by omega
  have c2 : ¬ nt.height = ti.height := by omega
  simp [c1, c2]

/-- K2 -/
theorem later_round_or_step_armed (ti nt : TI) (hh : nt.height = ti.height)
    (h : ti.round < nt.round ∨ (ti.round = nt.round ∧ ti.step < nt.step)) : accept {} ti nt = true := by
  unfold accept
  rcases h with h | ⟨h1, h2⟩
  · have c3 : ¬ nt.round < ti.round := by omega
    have c4 : ¬ nt.round = ti.round := by omega
    simp [hh, c3, c4]
  · have c3 : ¬ nt.round < ti.round := by omega
    simp [hh, c3, h1.symm]
    omega

/-- K3: an ignored request changes nothing and nothing fires -/
theorem ignored_request_keeps_pending (s : St) (nt : TI) (short : Bool) (h : accept {} s.ti nt = false) :
    schedule {} s nt short = (s, none) := by
  unfold schedule
  simp [h]

/-- an accepted request with an elapsed duration fires exactly that timeout -/
theorem accepted_short_fires (s : St) (nt : TI) (h : accept {} s.ti nt = true) :
    (schedule {} s nt true).2 = some nt := by
  unfold schedule
  simp [h]

/-- K4: height 1 was decided in round 1; the flattened filter drops the NewHeight timeout of
    height 2 (round 0), so the node would never start height 2 -/
theorem flattened_filter_drops_next_height :
    accept ⟨false⟩ ⟨1, 1, 7⟩ ⟨2, 0, 1⟩ = false ∧ accept {} ⟨1, 1, 7⟩ ⟨2, 0, 1⟩ = true := by decide

example : later ⟨1, 1, 7⟩ ⟨2, 0, 1⟩ := Or.inl (by decide)

/-! ### P1-P3: a node that has what a commit needs does commit (local progress)

    No timeout is pending in the Commit step, so these transitions are what termination rests on
    once +2/3 precommits for a block exist: for EVERY node state that satisfies the hypotheses. -/

/-- P1: +2/3 precommits of some round for a block the node holds complete and valid: entering Commit
    finalizes at once - from any earlier step, ANY current round (also a later one than the commit's),
    unlocked or locked on that block -/
theorem commit_when_block_is_there (n : Node.Node) (cr : Int) (bid : VoteSet.BlockID)
    (hs : ¬ Node.Step.commit ≤ n.step) (hm : Node.maj23 (Node.precommits n cr) = some bid) (hne : bid.hash.isEmpty = false)
    (hb : n.proposalBlock = some bid.hash) (hp : n.proposalParts = some bid.hash) (hc : n.partsComplete = true)
    (hv : Node.isValid n bid.hash = true) (hl : n.lockedBlock = none ∨ n.lockedBlock = some bid.hash) :
    Node.Emit.commit n.height bid.hash ∈ (Node.enterCommit n n.height cr).out ∧
    (Node.enterCommit n n.height cr).height = n.height + 1 :=
  Node.enterCommit_commits n cr bid hs hm hne hb hp hc hv hl

/-- P2: a node that entered Commit without the block (it never saw the proposal): when the parts
    arrive - from anybody, with or without a proposal - it finalizes -/
theorem commit_when_parts_arrive (n : Node.Node) (bid : VoteSet.BlockID) (own : Bool)
    (hs : n.step = .commit) (hm : Node.maj23 (Node.precommits n n.commitRound) = some bid) (hne : bid.hash.isEmpty = false)
    (hp : n.proposalParts = some bid.hash) (hc : n.partsComplete = false) (hv : Node.isValid n bid.hash = true) :
    Node.Emit.commit n.height bid.hash ∈ (Node.addParts n n.height bid.hash own).out ∧
    (Node.addParts n n.height bid.hash own).height = n.height + 1 :=
  Node.parts_in_commit_step_commit n bid own hs hm hne hp hc hv

/-- P3: finalizing moves to the next height in step NewHeight, whose timeout the ticker always arms (K1) -/
theorem finalize_opens_next_height (n : Node.Node) (bid : VoteSet.BlockID)
    (hs : n.step = .commit) (hm : Node.maj23 (Node.precommits n n.commitRound) = some bid)
    (hb : n.proposalBlock = some bid.hash) (hp : n.proposalParts = some bid.hash) (hc : n.partsComplete = true)
    (hv : Node.isValid n bid.hash = true) :
    (Node.finalizeCommit n n.height).height = n.height + 1 ∧ (Node.finalizeCommit n n.height).step = .newHeight :=
  (Node.finalizeCommit_commits n bid hs hm hb hp hc hv).2

/-- P4: +2/3 precommits for a valid block are NEVER IGNORED. In every state with the two run
    invariants (`Good`, `Cpl` - they hold in every state a node reaches, P6), entering Commit on them
    from any earlier step, any round, any lock, with or without the proposal, either finalizes at
    once or leaves the node in the Commit step waiting for exactly that block with an incomplete
    part set - the hypotheses of P2 -/
theorem two_thirds_precommits_are_never_ignored (n : Node.Node) (cr : Int) (bid : VoteSet.BlockID)
    (hg : Node.Good n) (hcp : Node.Cpl n)
    (hs : ¬ Node.Step.commit ≤ n.step) (hm : Node.maj23 (Node.precommits n cr) = some bid) (hne : bid.hash.isEmpty = false)
    (hv : Node.isValid n bid.hash = true) :
    (Node.Emit.commit n.height bid.hash ∈ (Node.enterCommit n n.height cr).out ∧ (Node.enterCommit n n.height cr).height = n.height + 1) ∨
    ((Node.enterCommit n n.height cr).height = n.height ∧ (Node.enterCommit n n.height cr).step = .commit ∧
      Node.maj23 (Node.precommits (Node.enterCommit n n.height cr) (Node.enterCommit n n.height cr).commitRound) = some bid ∧
      (Node.enterCommit n n.height cr).proposalParts = some bid.hash ∧ (Node.enterCommit n n.height cr).partsComplete = false ∧
      Node.isValid (Node.enterCommit n n.height cr) bid.hash = true) :=
  Node.enterCommit_never_ignores n cr bid hg hcp hs hm hne hv

/-- P5: hence the height is committed at once or as soon as the block's parts are delivered, by
    anybody - no timeout and no further vote is needed -/
theorem commit_now_or_when_the_parts_arrive (n : Node.Node) (cr : Int) (bid : VoteSet.BlockID) (own : Bool)
    (hg : Node.Good n) (hcp : Node.Cpl n)
    (hs : ¬ Node.Step.commit ≤ n.step) (hm : Node.maj23 (Node.precommits n cr) = some bid) (hne : bid.hash.isEmpty = false)
    (hv : Node.isValid n bid.hash = true) :
    (Node.enterCommit n n.height cr).height = n.height + 1 ∨
    (Node.addParts (Node.enterCommit n n.height cr) n.height bid.hash own).height = n.height + 1 :=
  Node.commit_now_or_with_parts n cr bid own hg hcp hs hm hne hv

/-- P6: the two invariants hold in EVERY state a (repaired) node reaches from its start, whatever
    messages, own-queue entries, timeouts and +2/3 claims it is given, in any order -/
theorem invariants_hold_in_every_reachable_state (height : Int) (vals : ValSet.ValSet) (me : Option Nat) (skip : Bool)
    (ins : List Node.In) :
    Node.Good (ins.foldl Node.stepIn (Node.init Node.repaired height vals me skip)) ∧
    Node.Cpl (ins.foldl Node.stepIn (Node.init Node.repaired height vals me skip)) :=
  Node.reachable_good_cpl height vals me skip ins

end AnnVerif.C12
