/-
  C15 — Vote accounting: a 2/3 majority is reported exactly when it exists.

  Property theorems only. The model is Model/VoteSet.lean (VoteSet.addVote / SetPeerMaj23 /
  MakeCommit, ValidatorSet.VerifyCommit, BlockID.Key); the invariant and its preservation are in
  Lemmas/VoteSetInv.lean, commit verification in Lemmas/VoteCommit.lean, injectivity of the key
  in Lemmas/VoteKey.lean.  Signatures are an oracle bit carried by each offered vote; every
  theorem holds for every assignment of that bit.

  Arithmetic is over unbounded `Int`: the Go code computes in int64, so the theorems describe the
  code for validator sets with 3·total < 2^63 (the code's own documented assumption; the
  correspondence harness goes up to total ≈ 2^61).
-/
import AnnVerif.Lemmas.VoteCommit
namespace AnnVerif.C15
open AnnVerif AnnVerif.VoteSet

/-- what can be offered to a vote set -/
inductive Op where
  | vote (v : Vote) (sigok : Bool)
  | peer (p : String) (b : BlockID)

def stepOp (cfg : Cfg) (vs : VoteSet) : Op → VoteSet
  | .vote v ok => (addVote cfg vs v ok).1
  | .peer p b => setPeerMaj23 cfg vs p b

def run (cfg : Cfg) (vs : VoteSet) (ops : List Op) : VoteSet := ops.foldl (stepOp cfg) vs

def histOf : List Op → Hist
  | [] => []
  | .vote v ok :: t => (v, ok) :: histOf t
  | .peer _ _ :: t => histOf t

theorem histOf_append (a b : List Op) : histOf (a ++ b) = histOf a ++ histOf b := by
  induction a with
  | nil => rfl
  | cons x t ih => cases x <;> simp [histOf, ih]

theorem run_inv (cfg : Cfg) (ops : List Op) : ∀ (hist : Hist) (vs : VoteSet),
    (∀ val ∈ vs.vals, 0 ≤ val.power) → Inv cfg hist vs →
    Inv cfg (hist ++ histOf ops) (run cfg vs ops) ∧ SameParams vs (run cfg vs ops) := by
  induction ops with
  | nil => intro hist vs _ h; exact ⟨by simpa [histOf, run] using h, SameParams.refl _⟩
  | cons x t ih =>
    intro hist vs hpos hinv
    cases x with
    | vote v ok =>
      obtain ⟨h1, h2⟩ := addVote_inv (cfg := cfg) v ok hpos hinv
      obtain ⟨h3, h4⟩ := ih _ _ (by rw [← h2.2.2.2]; exact hpos) h1
      exact ⟨by simpa [histOf, run, stepOp, List.append_assoc] using h3, h2.trans h4⟩
    | peer p b =>
      obtain ⟨h1, h2⟩ := setPeerMaj23_inv (cfg := cfg) p b hpos hinv
      obtain ⟨h3, h4⟩ := ih _ _ (by rw [← h2.2.2.2]; exact hpos) h1
      exact ⟨by simpa [histOf, run, stepOp] using h3, h2.trans h4⟩

/-- every vote set reachable by ANY stream of votes and peer claims satisfies the invariant -/
theorem reachable_inv (cfg : Cfg) (height round : Int) (type : Nat) (vals : List Validator)
    (hpos : ∀ val ∈ vals, 0 ≤ val.power) (ops : List Op) :
    Inv cfg (histOf ops) (run cfg (new height round type vals) ops) ∧
    SameParams (new height round type vals) (run cfg (new height round type vals) ops) := by
  have := run_inv cfg ops [] (new height round type vals) hpos (inv_new cfg height round type vals hpos)
  simpa using this

/-- an offered vote that is valid for position `i` of this vote set and is for block `b` -/
def ValidFor (hist : Hist) (vs : VoteSet) (b : BlockID) (i : Nat) (v : Vote) : Prop :=
  (v, true) ∈ hist ∧ v.idx = (i : Int) ∧ v.bid = b ∧ v.height = vs.height ∧ v.round = vs.round ∧
  v.type = vs.type ∧ ∃ val, vs.vals[i]? = some val ∧ val.addr = v.addr

/-- C15.1 each validator's power counts at most once: the running sum is the power of the
    occupied POSITIONS (one slot per validator), and never exceeds the total. -/
theorem counted_once (cfg : Cfg) (height round : Int) (type : Nat) (vals : List Validator)
    (hpos : ∀ val ∈ vals, 0 ≤ val.power) (ops : List Op) :
    let vs := run cfg (new height round type vals) ops
    vs.sum = tally (powers vals) vs.votes ∧ vs.sum ≤ total vals ∧
    ∀ k bv, lookup vs.byBlock k = some bv → bv.sum = tally (powers vals) bv.votes ∧ bv.sum ≤ total vals := by
  intro vs
  obtain ⟨hinv, hsp⟩ := reachable_inv cfg height round type vals hpos ops
  have hv : vs.vals = vals := hsp.2.2.2.symm
  have hpp : ∀ p ∈ powers vals, 0 ≤ p := by
    intro p hp; simp [powers] at hp; obtain ⟨val, hval, rfl⟩ := hp; exact hpos val hval
  have h1 : vs.sum = tally (powers vals) vs.votes := by rw [← hv]; exact hinv.sum
  refine ⟨h1, ?_, ?_⟩
  · rw [h1]; exact tally_le_sum _ _ hpp
  · intro k bv hk
    have h2 : bv.sum = tally (powers vals) bv.votes := by rw [← hv]; exact hinv.entrySum k bv hk
    exact ⟨h2, by rw [h2]; exact tally_le_sum _ _ hpp⟩

/-- C15.2 SOUNDNESS (repaired key): if a two-thirds majority is reported for block `b`, then there
    is a set of DISTINCT validator positions (one slot each), every one of which offered a validly
    signed vote for exactly `b` in this height/round/type with matching index and address, whose
    voting power is strictly more than two thirds of the total. -/
theorem majority_sound (height round : Int) (type : Nat) (vals : List Validator)
    (hpos : ∀ val ∈ vals, 0 ≤ val.power) (ops : List Op)
    (hsmall : ∀ x ∈ histOf ops, x.1.bid.Small) (b : BlockID)
    (hmaj : (run repaired (new height round type vals) ops).maj23 = some b) (hb : b.Small) :
    ∃ slots : List (Option Vote), slots.length = vals.length ∧
      (∀ (i : Nat) (v : Vote), slots[i]? = some (some v) →
        ValidFor (histOf ops) (run repaired (new height round type vals) ops) b i v) ∧
      3 * tally (powers vals) slots > 2 * total vals := by
  obtain ⟨hinv, hsp⟩ := reachable_inv repaired height round type vals hpos ops
  have hv : (run repaired (new height round type vals) ops).vals = vals := hsp.2.2.2.symm
  obtain ⟨bv, hl, hq, _⟩ := hinv.majSound b hmaj
  refine ⟨bv.votes, by rw [hinv.entryLen _ _ hl, hv], ?_, ?_⟩
  · intro i v hiv
    obtain ⟨g, hk, _⟩ := hinv.entrySlot _ _ hl i v hiv
    have : v.bid = b := key_injective _ _ (hsmall _ g.offered) hb hk
    exact ⟨g.offered, g.idx, this, g.h, g.r, g.t, g.addr⟩
  · have := hinv.entrySum _ _ hl
    rw [hv] at this hq
    have hg := quorum_gt (total vals)
    omega

/-- C15.2' AS FOUND soundness is FALSE: `Key()` merges the tallies of two different blocks, so a
    majority is reported for a block that only 1 of 3 validators voted for
    (witness: 3 equal validators; votes for {nil,1,[00]}, {[01 01],1,nil}, {[01 01],1,nil}). -/
def wVals : List Validator := [⟨[1], 1⟩, ⟨[2], 1⟩, ⟨[3], 1⟩]
def wB1 : BlockID := ⟨[], 1, [0]⟩
def wB2 : BlockID := ⟨[1, 1], 1, []⟩
def wOps : List Op :=
  [.vote ⟨0, [1], 1, 0, 1, wB1, 1⟩ true, .vote ⟨1, [2], 1, 0, 1, wB2, 2⟩ true,
   .vote ⟨2, [3], 1, 0, 1, wB1, 3⟩ true]

theorem asFound_majority_without_two_thirds :
    (run asFound (new 1 0 1 wVals) wOps).maj23 = some wB1 ∧
    (run repaired (new 1 0 1 wVals) wOps).maj23 = none := by
  refine ⟨by decide, by decide⟩

/-- C15.3 STABILITY: a reported majority never changes or disappears, whatever is offered next. -/
theorem majority_stable (cfg : Cfg) (vs : VoteSet) (b : BlockID) (h : vs.maj23 = some b) (op : Op) :
    (stepOp cfg vs op).maj23 = some b := by
  cases op with
  | vote v ok =>
    rcases addVote_maj23 cfg vs v ok with h' | ⟨h', _⟩
    · simp [stepOp, h', h]
    · rw [h] at h'; simp at h'
  | peer p b' => simp [stepOp, setPeerMaj23_maj23, h]

theorem majority_stable_run (cfg : Cfg) (vs : VoteSet) (b : BlockID) (h : vs.maj23 = some b)
    (ops : List Op) : (run cfg vs ops).maj23 = some b := by
  induction ops generalizing vs with
  | nil => exact h
  | cons x t ih => exact ih _ (majority_stable cfg vs b h x)

/-- C15.4 EXACTNESS at the level of the accepted tallies: a majority is reported if and only if
    some block's accepted tally has reached the quorum `total*2/3 + 1`. -/
theorem majority_iff_tally (cfg : Cfg) (height round : Int) (type : Nat) (vals : List Validator)
    (hpos : ∀ val ∈ vals, 0 ≤ val.power) (ops : List Op) :
    let vs := run cfg (new height round type vals) ops
    vs.maj23.isSome ↔ ∃ k bv, lookup vs.byBlock k = some bv ∧ quorum (total vals) ≤ bv.sum := by
  intro vs
  obtain ⟨hinv, hsp⟩ := reachable_inv cfg height round type vals hpos ops
  have hv : vs.vals = vals := hsp.2.2.2.symm
  constructor
  · intro h
    cases hm : vs.maj23 with
    | none => rw [hm] at h; simp at h
    | some b =>
      obtain ⟨bv, hl, hq, _⟩ := hinv.majSound b hm
      exact ⟨_, bv, hl, by rw [← hv]; exact hq⟩
  · intro ⟨k, bv, hl, hq⟩
    cases hm : vs.maj23 with
    | some b => rfl
    | none =>
      have := hinv.majNone hm k bv hl
      rw [hv] at this; omega

/-- C15.4b a validator's FIRST validly signed vote is always accepted and counted (so for streams
    in which nobody equivocates the accepted tallies are exactly the offered valid votes). -/
theorem first_valid_vote_added (cfg : Cfg) (hist : Hist) (vs : VoteSet) (hinv : Inv cfg hist vs)
    (v : Vote) (i : Nat) (val : Validator)
    (hidx : v.idx = (i : Int)) (hval : vs.vals[i]? = some val) (haddr : val.addr = v.addr)
    (hne : v.addr ≠ []) (hh : v.height = vs.height) (hr : v.round = vs.round) (ht : v.type = vs.type)
    (hfirst : vs.votes[i]? = some none) :
    (addVote cfg vs v true).2 = .added := by
  have hgv : getVote cfg vs i (v.bid.key cfg) = none := by
    unfold getVote
    rw [hfirst]; simp only [Option.join]
    cases hl : lookup vs.byBlock (v.bid.key cfg) with
    | none => rfl
    | some bv =>
      cases hx : bv.votes[i]? with
      | none => simp [Option.bind, hx]
      | some o =>
        cases o with
        | none => simp [Option.bind, hx]
        | some w =>
          have := (hinv.entrySlot _ _ hl i w hx).2.2
          unfold occ at this; rw [hfirst] at this; simp at this
  rw [addVote_eq_addVerified cfg vs v i val hidx hval haddr hne hh hr ht hgv]
  unfold addVerified
  rw [primary_first cfg vs v i _ _ hfirst]
  simp only [Option.isSome_none]
  obtain ⟨bv, hbv⟩ := selectEntry_nonconflicting
    { vs with votes := vs.votes.set i (some v), sum := vs.sum + val.power } (v.bid.key cfg)
  rw [hbv]; simp

/-- C15.5 conflicting votes are reported as such: a validly signed vote for a block different
    from the one the validator's primary vote is for (and not already recorded) yields
    `ErrVoteConflictingVotes`. -/
theorem conflict_reported (cfg : Cfg) (vs : VoteSet) (v e : Vote) (i : Nat) (val : Validator)
    (hidx : v.idx = (i : Int)) (hval : vs.vals[i]? = some val) (haddr : val.addr = v.addr)
    (hne : v.addr ≠ []) (hh : v.height = vs.height) (hr : v.round = vs.round) (ht : v.type = vs.type)
    (hprev : vs.votes[i]? = some (some e)) (hdiff : e.bid ≠ v.bid)
    (hnew : getVote cfg vs i (v.bid.key cfg) = none) :
    ∃ added, (addVote cfg vs v true).2 = .conflict added := by
  rw [addVote_eq_addVerified cfg vs v i val hidx hval haddr hne hh hr ht hnew]
  unfold addVerified
  obtain ⟨vs1, hp⟩ := primary_conflict cfg vs v e i (v.bid.key cfg) val.power hprev hdiff
  rw [hp]
  simp only [Option.isSome_some]
  cases selectEntry vs1 (v.bid.key cfg) true with
  | none => exact ⟨false, rfl⟩
  | some bv => exact ⟨true, by simp⟩

theorem run_majority_offered (cfg : Cfg) (ops : List Op) : ∀ (hist : Hist) (vs : VoteSet),
    (∀ b, vs.maj23 = some b → ∃ v, (v, true) ∈ hist ∧ v.bid = b) →
    ∀ b, (run cfg vs ops).maj23 = some b → ∃ v, (v, true) ∈ hist ++ histOf ops ∧ v.bid = b := by
  induction ops with
  | nil => intro hist vs h b hb; simpa [histOf, run] using h b (by simpa [run] using hb)
  | cons x t ih =>
    intro hist vs h b hb
    cases x with
    | vote v ok =>
      have := ih (hist ++ [(v, ok)]) (addVote cfg vs v ok).1 (by
        intro b' hb'
        rcases addVote_maj23 cfg vs v ok with h' | ⟨_, h', hok⟩
        · obtain ⟨w, hw, hwb⟩ := h b' (by rw [← h']; exact hb')
          exact ⟨w, List.mem_append_left _ hw, hwb⟩
        · rw [h'] at hb'; simp at hb'; subst hok
          exact ⟨v, by simp, hb'⟩) b (by simpa [run, stepOp] using hb)
      simpa [histOf, List.append_assoc] using this
    | peer p b' =>
      have := ih hist (setPeerMaj23 cfg vs p b') (by
        intro b'' hb''; rw [setPeerMaj23_maj23] at hb''; exact h b'' hb'') b
        (by simpa [run, stepOp] using hb)
      simpa [histOf] using this

/-- a reported majority is always the block of a vote that was offered with a verifying signature -/
theorem majority_offered (cfg : Cfg) (height round : Int) (type : Nat) (vals : List Validator)
    (ops : List Op) (b : BlockID)
    (hmaj : (run cfg (new height round type vals) ops).maj23 = some b) :
    ∃ v, (v, true) ∈ histOf ops ∧ v.bid = b := by
  have := run_majority_offered cfg ops [] (new height round type vals)
    (by intro b h; simp [new] at h) b hmaj
  simpa using this

/-- C15.6 the commit assembled from a reported majority passes commit verification for the same
    validator set (repaired key; `sigokPos i v` = the signature of `v` verifies under the key at
    position `i`, assumed consistent with the oracle bit the votes were offered with). -/
theorem commit_verifies (height round : Int) (vals : List Validator)
    (hpos : ∀ val ∈ vals, 0 ≤ val.power) (ops : List Op)
    (hsmall : ∀ x ∈ histOf ops, x.1.bid.Small)
    (sigokPos : Nat → Vote → Bool)
    (hsig : ∀ x ∈ histOf ops, x.2 = true → sigokPos x.1.idx.toNat x.1 = true)
    (b : BlockID) (hmaj : (run repaired (new height round 2 vals) ops).maj23 = some b) :
    ∃ c, makeCommit (run repaired (new height round 2 vals) ops) = some c ∧
      verifyCommit repaired sigokPos vals b height c = .ok := by
  obtain ⟨hinv, hsp⟩ := reachable_inv repaired height round 2 vals hpos ops
  obtain ⟨vb, hvb, hvbb⟩ := majority_offered repaired height round 2 vals ops b hmaj
  have hb_small : b.Small := hvbb ▸ hsmall _ hvb
  generalize run repaired (new height round 2 vals) ops = vs at *
  have hv : vs.vals = vals := hsp.2.2.2.symm
  have hh : vs.height = height := hsp.1.symm
  have hr : vs.round = round := hsp.2.1.symm
  have ht : vs.type = 2 := hsp.2.2.1.symm
  refine ⟨⟨b, vs.votes⟩, by simp [makeCommit, hmaj], ?_⟩
  obtain ⟨bv, hl, hq, hall⟩ := hinv.majSound b hmaj
  have hpp : ∀ p ∈ powers vals, 0 ≤ p := by
    intro p hp; simp [powers] at hp; obtain ⟨val, hval, rfl⟩ := hp; exact hpos val hval
  have hbsum := hinv.entrySum _ _ hl
  have hqpos := quorum_pos vs.vals (by rw [hv]; exact hpos)
  rw [hv] at hbsum hq hqpos
  have hlen : vals.length = vs.votes.length := by rw [hinv.len, hv]
  have hbvlen : vs.votes.length = bv.votes.length := by rw [hinv.len, hinv.entryLen _ _ hl]
  -- every primary slot passes the per-precommit checks of VerifyCommit
  have hslots : ∀ (j : Nat) (v : Vote), vs.votes[j]? = some (some v) →
      v.height = height ∧ v.round = round ∧ v.type = 2 ∧ sigokPos (0 + j) v = true ∧
      (repaired.slotCheck = true → SlotOk vals 0 j v) := by
    intro j v hjv
    have g := hinv.slot j v hjv
    refine ⟨by rw [g.h, hh], by rw [g.r, hr], by rw [g.t, ht], ?_, ?_⟩
    · have := hsig _ g.offered rfl
      have e : v.idx.toNat = j := by have := g.idx; omega
      simpa [e] using this
    · intro _
      refine ⟨by simpa using g.idx, ?_⟩
      obtain ⟨val, hval, ha⟩ := g.addr
      exact ⟨val, by rw [← hv]; exact hval, ha⟩
  -- the majority block's votes sit in the primary slots, for exactly `b`
  have hforb : ∀ (j : Nat) (w : Vote), bv.votes[j]? = some (some w) →
      ∃ v', vs.votes[j]? = some (some v') ∧ v'.bid = b := by
    intro j w hw
    obtain ⟨v', hv', hk⟩ := hall j w hw
    exact ⟨v', hv', key_injective _ _ (hsmall _ (hinv.slot j v' hv').offered) hb_small hk⟩
  have hge := tallyB_ge b (powers vals) hpp vs.votes bv.votes hbvlen hforb
  have hocc : tally (powers vals) bv.votes ≤ tally (powers vals) vs.votes :=
    tally_mono _ _ _ hpp hbvlen.symm (fun j hj => by
      cases hx : bv.votes[j]? with
      | none => rw [hx] at hj; simp at hj
      | some o =>
        cases o with
        | none => rw [hx] at hj; simp at hj
        | some w => obtain ⟨v', hv', _⟩ := hall j w hx; rw [hv']; rfl)
  have hgt := quorum_gt (total vals)
  unfold verifyCommit
  simp only [hlen, ne_eq, not_true_eq_false, if_false]
  cases hvotes : vs.votes with
  | nil =>
    rw [hvotes] at hocc
    have : tally (powers vals) ([] : List (Option Vote)) = 0 := by cases powers vals <;> rfl
    omega
  | cons x xs =>
    cases hfp : firstPrecommit (x :: xs) with
    | none =>
      have := firstPrecommit_none_tally (powers vals) _ hfp
      rw [hvotes] at hocc; omega
    | some f =>
      simp only
      obtain ⟨j, hj⟩ := firstPrecommit_some _ _ hfp
      rw [← hvotes] at hj
      obtain ⟨hfh, hfr, _, _, _⟩ := hslots j f hj
      simp only [hfh, ne_eq, not_true_eq_false, if_false, hfr]
      rw [← hvotes, tallyCommit_ok repaired.slotCheck sigokPos b height round vs.votes vals 0 0 hlen hslots]
      simp only [Int.zero_add]
      have : tallyB b (powers vals) vs.votes > total vals * 2 / 3 := by omega
      simp [this]

/-! ### non-vacuity -/

/-- four equal validators, three valid precommits for one block: a majority is reported, the
    invariant's hypotheses are inhabited by a non-trivial state, and the commit verifies. -/
def exVals : List Validator := [⟨[1], 1⟩, ⟨[2], 1⟩, ⟨[3], 1⟩, ⟨[4], 1⟩]
def exB : BlockID := ⟨[0xaa], 1, [0xbb]⟩
def exOps : List Op :=
  [.vote ⟨0, [1], 5, 0, 2, exB, 1⟩ true, .vote ⟨1, [2], 5, 0, 2, exB, 2⟩ true,
   .vote ⟨1, [2], 5, 0, 2, ⟨[0xcc], 1, []⟩, 9⟩ true,   -- an equivocation: reported, not counted
   .vote ⟨3, [4], 5, 0, 2, exB, 3⟩ false,                -- a bad signature: rejected
   .vote ⟨2, [3], 5, 0, 2, exB, 4⟩ true]

example : (run repaired (new 5 0 2 exVals) exOps).maj23 = some exB := by decide
example : (run repaired (new 5 0 2 exVals) (exOps.take 4)).maj23 = none := by decide
example : (addVote repaired (run repaired (new 5 0 2 exVals) (exOps.take 2))
    ⟨1, [2], 5, 0, 2, ⟨[0xcc], 1, []⟩, 9⟩ true).2 = .conflict false := by decide
example : (makeCommit (run repaired (new 5 0 2 exVals) exOps)).map
    (verifyCommit repaired (fun _ v => v.sig != 3) exVals exB 5) = some .ok := by decide

end AnnVerif.C15
