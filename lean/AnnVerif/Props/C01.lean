/-
  C01 — Agreement: honest validators never commit different blocks at a height.

  LAYER 1 (proved here, Lemmas/Agreement.lean): the abstract agreement theorem. For ANY number of
  validators, ANY voting-power distribution, ANY Byzantine subset holding less than one third of
  the power and ANY vote history (every order, delay, duplication, loss, equivocation by the
  Byzantine validators is a history), if the HONEST validators obey
      A1  at most one prevote and one precommit per round            (C03),
      A2  precommit a block only in a round with a polka for it      (C04 L1 + C15 soundness),
      A3  after precommitting b, prevote something else only after a polka for something else
          in a round strictly in between                              (C04 L2),
  then two blocks can never both reach more than 2/3 of the precommits — in the same round or
  in different rounds. A commit needs such a quorum in one round (C04 L4), hence agreement.

  LAYER 2 (PARTIAL — not mechanised): that every history produced by the node model under any
  schedule, including crash/restart (C07), satisfies A1–A3. The transition-local facts are
  theorems (Props/C03, Props/C04); their lift to run-level invariants is the missing piece and is
  what the c01 "net" engine checks on the real nodes on every run: several real ConsensusStates
  under a seeded adversarial scheduler (reordering, duplication, loss with retransmission,
  arbitrary timeouts, Byzantine validators below 1/3 that equivocate, crash + WAL restart), each
  honest node compared step by step with its Lean model, with Go-side oracles for agreement and
  for chain linkage.
-/
import AnnVerif.Lemmas.Agreement
namespace AnnVerif.C01
open AnnVerif.Agreement AnnVerif.Fairness

/-- C01 (layer 1): agreement for one height, any validator set, any Byzantine set below 1/3. -/
theorem agreement_one_height {Block : Type} (N : Nat) (w : Nat → Int) (F : Nat → Prop)
    (H : History Block) (hw : ∀ j, j < N → 0 ≤ w j) (hF : 3 * pow N w F < S N w)
    (rules : HonestRules N w F H) (r r' : Nat) (b b' : Block)
    (hq : CommitQuorum N w H r b) (hq' : CommitQuorum N w H r' b') : b = b' :=
  agreement N w F H hw hF rules r r' b b' hq hq'

/-- quorum intersection on its own: any two > 2/3 sets share an honest validator -/
theorem two_quorums_share_an_honest_validator (N : Nat) (w : Nat → Int)
    (hw : ∀ j, j < N → 0 ≤ w j) (F P Q : Nat → Prop) (hF : 3 * pow N w F < S N w)
    (hP : 3 * pow N w P > 2 * S N w) (hQ : 3 * pow N w Q > 2 * S N w) :
    ∃ j, j < N ∧ P j ∧ Q j ∧ ¬ F j :=
  quorum_intersection N w hw F P Q hF hP hQ

/-- once a block has a commit quorum, no later round of that height can produce a polka for
    anything else (the invariant behind the proof; also what makes late joiners safe) -/
theorem commit_quorum_blocks_later_polkas {Block : Type} (N : Nat) (w : Nat → Int) (F : Nat → Prop)
    (H : History Block) (hw : ∀ j, j < N → 0 ≤ w j) (hF : 3 * pow N w F < S N w)
    (rules : HonestRules N w F H) (r : Nat) (b : Block) (hq : CommitQuorum N w H r b)
    (r' : Nat) (h : r < r') (y : Option Block) (hy : y ≠ some b) : ¬ Polka N w H r' y :=
  no_later_polka N w F H hw hF rules r b hq r' h y hy

/-! ### non-vacuity: four equal validators, validator 3 Byzantine and equivocating, the three
    honest ones prevote and precommit block 7 in round 0: the rules hold and there is a quorum. -/

def exH : History Nat where
  prevote j r x := r = 0 ∧ (x = some 7 ∨ (j = 3 ∧ x = some 8))
  precommit j r x := r = 0 ∧ (x = some 7 ∨ (j = 3 ∧ x = some 8))

example : 3 * pow 4 (fun _ => 1) (fun j => j = 3) < S 4 (fun _ => (1 : Int)) := by
  simp [pow, S]

example : CommitQuorum 4 (fun _ => 1) exH 0 7 := by
  simp [CommitQuorum, pow, S, exH]

end AnnVerif.C01
