/-
  C01 — Agreement: honest validators never commit different blocks at a height.

  LAYER 1 (proved here, Lemmas/Agreement.lean): the abstract agreement theorem. For ANY number of
  validators, ANY voting-power distribution, ANY Byzantine subset holding less than one third of
  the power and ANY vote history (every order, delay, duplication, loss, equivocation by the
  Byzantine validators is a history), if the HONEST validators obey
      A1  at most one prevote and one precommit per round            (C03),
      A2  precommit a block only in a round with a polka for it      (C04 L1 + C15 soundness),
      A3  after precommitting b, prevote something else only after a polka for something else
          in a round strictly in between                              (C04 L2),
  then two blocks can never both reach more than 2/3 of the precommits — in the same round or
  in different rounds. A commit needs such a quorum in one round (C04 L4), hence agreement.
  Two forms are proved. `agreement_one_height` is over an untimed history and needs the releasing
  polka of A3 in a round STRICTLY before the deviating prevote. The implementation (like
  Tendermint) also unlocks on +2/3 prevotes for something else in the round the node is in, before
  it has prevoted there; as a fact about a finished history that is circular (the prevotes of a
  round could release each other) and an untimed A3 with "≤" does not give agreement. What makes
  the rule sound is causality, so `agreement_one_height_timed` (Lemmas/AgreementT.lean) is over
  TIMED vote events: the polkas of A2 and A3 consist of prevotes cast strictly earlier, A3's polka
  is of a round in (r, r'], and the proof is by induction on time. That is the form the node model
  discharges: the justification is in the node's own vote sets when it signs (C04 L8, L9).

  LAYER 2 (proved for crash-free runs, Lemmas/NetAgreement.lean): AGREEMENT FOR A NETWORK OF NODE
  MODELS. The system is any number of honest nodes, each the complete round-state-machine model of
  C04 (`Node`, tied step by step to the real ConsensusState), under an adversarial scheduler: every
  global step hands one node one input - ANY message from any peer (proposals, parts, votes with
  any content and any signature bit: this is where Byzantine validators live), an own queued
  message, a timeout, a peer's majority claim - in any order, with any duplication, delay or loss.
  The one constraint on inputs is UNFORGEABILITY (`Auth`): a vote that verifies under the key of an
  honest validator has been signed by that validator's node. `agreement_network` then says: with
  less than a third of the power outside the honest nodes, two nodes never emit commits for
  different blocks at one height - over every schedule, every height, any validator count and
  power distribution. The proof discharges A1-A3 of the timed agreement theorem (with global step
  numbers as time) from the run invariants of ONE node (C04 L8, L10, L11; their frozen forms for
  heights the node has left, `Lemmas/NodePast.lean`; C15's vote-set invariant for every vote set a
  node holds, so that a reported +2/3 consists of offered, validly signed votes; commits are
  emitted with +2/3 precommits of one round in the vote sets frozen at that moment).
  NOT covered by the theorem: crash/restart of honest nodes (the ghost history does not survive
  `Wal.restart`; across restarts A1 is the signer's guarantee, C03, and what replay restores is
  C07 - both decided per run), chain linearity across heights (C02), and the tie of the model to
  the code, which is what the c01 "net" engine checks on every run: several real ConsensusStates
  under a seeded adversarial scheduler (reordering, duplication, loss with retransmission,
  arbitrary timeouts, Byzantine validators below 1/3 that equivocate, crash + WAL restart), each
  honest node compared step by step with its Lean model, with Go-side oracles for agreement and
  for chain linkage.
-/
import AnnVerif.Lemmas.Agreement
import AnnVerif.Lemmas.AgreementT
import AnnVerif.Lemmas.NetExample
namespace AnnVerif.C01
open AnnVerif.Agreement AnnVerif.Fairness

/-- C01 (layer 1): agreement for one height, any validator set, any Byzantine set below 1/3. -/
theorem agreement_one_height {Block : Type} (N : Nat) (w : Nat → Int) (F : Nat → Prop)
    (H : History Block) (hw : ∀ j, j < N → 0 ≤ w j) (hF : 3 * pow N w F < S N w)
    (rules : HonestRules N w F H) (r r' : Nat) (b b' : Block)
    (hq : CommitQuorum N w H r b) (hq' : CommitQuorum N w H r' b') : b = b' :=
  agreement N w F H hw hF rules r r' b b' hq hq'

/-- C01 (layer 1, timed): agreement when the unlocking polka may be of the prevote's own round but
    has to be complete before the prevote is cast. -/
theorem agreement_one_height_timed {Block : Type} (N : Nat) (w : Nat → Int) (F : Nat → Prop)
    (H : AgreementT.THistory Block) (hw : ∀ j, j < N → 0 ≤ w j) (hF : 3 * pow N w F < S N w)
    (rules : AgreementT.HonestRules N w F H) (r r' : Nat) (b b' : Block)
    (hq : AgreementT.CommitQuorum N w H r b) (hq' : AgreementT.CommitQuorum N w H r' b') : b = b' :=
  AgreementT.agreement N w F H hw hF rules r r' b b' hq hq'

/-- quorum intersection on its own: any two > 2/3 sets share an honest validator -/
theorem two_quorums_share_an_honest_validator (N : Nat) (w : Nat → Int)
    (hw : ∀ j, j < N → 0 ≤ w j) (F P Q : Nat → Prop) (hF : 3 * pow N w F < S N w)
    (hP : 3 * pow N w P > 2 * S N w) (hQ : 3 * pow N w Q > 2 * S N w) :
    ∃ j, j < N ∧ P j ∧ Q j ∧ ¬ F j :=
  quorum_intersection N w hw F P Q hF hP hQ

/-- once a block has a commit quorum, no later round of that height can produce a polka for
    anything else (the invariant behind the proof; also what makes late joiners safe) -/
theorem commit_quorum_blocks_later_polkas {Block : Type} (N : Nat) (w : Nat → Int) (F : Nat → Prop)
    (H : History Block) (hw : ∀ j, j < N → 0 ≤ w j) (hF : 3 * pow N w F < S N w)
    (rules : HonestRules N w F H) (r : Nat) (b : Block) (hq : CommitQuorum N w H r b)
    (r' : Nat) (h : r < r') (y : Option Block) (hy : y ≠ some b) : ¬ Polka N w H r' y :=
  no_later_polka N w F H hw hF rules r b hq r' h y hy

/-! ### non-vacuity: four equal validators, validator 3 Byzantine and equivocating, the three
    honest ones prevote and precommit block 7 in round 0: the rules hold and there is a quorum. -/

def exH : History Nat where
  prevote j r x := r = 0 ∧ (x = some 7 ∨ (j = 3 ∧ x = some 8))
  precommit j r x := r = 0 ∧ (x = some 7 ∨ (j = 3 ∧ x = some 8))

example : 3 * pow 4 (fun _ => 1) (fun j => j = 3) < S 4 (fun _ => (1 : Int)) := by
  simp [pow, S]

example : CommitQuorum 4 (fun _ => 1) exH 0 7 := by
  simp [CommitQuorum, pow, S, exH]

/-! the same history with times: prevotes at time 0, precommits at time 1 -/

def exT : AgreementT.THistory Nat where
  prevote j r x s := r = 0 ∧ s = 0 ∧ (x = some 7 ∨ (j = 3 ∧ x = some 8))
  precommit j r x s := r = 0 ∧ s = 1 ∧ (x = some 7 ∨ (j = 3 ∧ x = some 8))

example : AgreementT.HonestRules 4 (fun _ => 1) (fun j => j = 3) exT := by
  refine ⟨?_, ?_, ?_, ?_⟩
  · intro j r x y s s' hf h1 h2
    simp only [exT] at h1 h2
    rcases h1.2.2 with h1 | h1 <;> rcases h2.2.2 with h2 | h2
    · rw [h1, h2]
    · exact absurd h2.1 hf
    · exact absurd h1.1 hf
    · exact absurd h1.1 hf
  · intro j r x y s s' hf h1 h2
    simp only [exT] at h1 h2
    rcases h1.2.2 with h1 | h1 <;> rcases h2.2.2 with h2 | h2
    · rw [h1, h2]
    · exact absurd h2.1 hf
    · exact absurd h1.1 hf
    · exact absurd h1.1 hf
  · intro j r b t hf h
    simp only [exT] at h
    obtain ⟨hr, ht, hb⟩ := h
    subst hr; subst ht
    rcases hb with hb | hb
    · injection hb with hb; subst hb
      simp [AgreementT.PolkaBefore, pow, S, exT]
    · exact absurd hb.1 hf
  · intro j r b t r' x t' hf h hlt h' _
    simp only [exT] at h h'
    omega

example : AgreementT.CommitQuorum 4 (fun _ => 1) exT 0 7 := by
  simp [AgreementT.CommitQuorum, pow, S, exT]

/-! ### LAYER 2: the network of node models -/

/-- C01 (layer 2): in every valid run of a system of honest node models - any schedule, any
    messages from anybody, unforgeable signatures, validators outside the honest nodes holding less
    than a third of the power - no two nodes ever commit different blocks at one height. -/
theorem agreement_network {K : Nat} {V : List VoteSet.Validator} {me0 : Nat → Option Nat} {g0 : Net.G}
    {as : List Net.Act} (setting : Net.Setting K V me0 g0 as)
    (byz : 3 * pow V.length (Net.wOf V) (fun j => ¬ Net.Honest K me0 j) < S V.length (Net.wOf V))
    (height : Int) (s s' k k' : Nat) (hk : k < K) (hk' : k' < K) (b b' : Bytes) (hb : b ≠ []) (hb' : b' ≠ [])
    (hc : Node.Emit.commit height b ∈ ((Net.stateAt g0 as s).node k).out)
    (hc' : Node.Emit.commit height b' ∈ ((Net.stateAt g0 as s').node k').out) : b = b' :=
  Net.agreement_net setting byz s s' k k' hk hk' b b' hb hb' hc hc'

/-- the vote history of every height of every such run obeys the honest rules: A1 (one precommit
    per round), A2 (a precommit for a block comes with a polka), A3 (after precommitting b a
    prevote for something else in a later round is cast only when a polka for something else, of
    a round in between, is already complete) -/
theorem network_votes_obey_the_rules {K : Nat} {V : List VoteSet.Validator} {me0 : Nat → Option Nat} {g0 : Net.G}
    {as : List Net.Act} (setting : Net.Setting K V me0 g0 as) (height : Int) :
    Net.HonestRules V.length (Net.wOf V) (fun j => ¬ Net.Honest K me0 j) (Net.Hs K me0 g0 as height) :=
  Net.honest_rules setting

/-- no equivocation by honest nodes over a whole run of the network: at most one prevote and one
    precommit per height and round (crash-free runs; across restarts it is the signer's theorem, C03) -/
theorem network_no_equivocation {K : Nat} {V : List VoteSet.Validator} {me0 : Nat → Option Nat} {g0 : Net.G}
    {as : List Net.Act} (setting : Net.Setting K V me0 g0 as) (height : Int) (type j : Nat) (r : Int)
    (x y : Option Bytes) (s s' : Nat) (hon : Net.Honest K me0 j)
    (h1 : Net.voteAt K me0 g0 as height type j r x s) (h2 : Net.voteAt K me0 g0 as height type j r y s') : x = y :=
  Net.one_vote_per_round setting type j r x y s s' hon h1 h2

/-- freshly started nodes are a legitimate initial state -/
theorem started_nodes_satisfy_the_setting (V : List VoteSet.Validator) (pos : ∀ val ∈ V, 0 ≤ val.power)
    (cfg : Node.Cfg) (height : Int) (vals : ValSet.ValSet) (hV : Node.vsVals vals = V) (i : Nat) (skip : Bool)
    (tab : List (Node.Name × Int × Bool)) :
    Node.Full V (some i) (Node.start cfg height vals (some i) skip tab) [] :=
  Net.start_full V pos cfg height vals hV i skip tab

/-- non-vacuity: four equal validators, three honest nodes, a 33-step schedule with proposal, parts,
    prevotes and precommits exchanged between the nodes: the setting holds (the run is valid, every
    delivered vote was signed by its node) and all three nodes commit "b" at height 1 -/
example : Net.Setting 3 Net.V4 (fun k => some k) Net.g4 Net.sched4 ∧
    ∀ k, k < 3 → Node.Emit.commit 1 [0x62] ∈ ((Net.stateAt Net.g4 Net.sched4 Net.sched4.length).node k).out :=
  ⟨Net.setting4, by decide⟩

end AnnVerif.C01
