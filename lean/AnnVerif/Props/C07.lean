/-
  C07 — WAL replay restores the in-progress height after a crash.

  Model: Model/Wal.lean (log-then-handle, height markers in the files of the WAL group, the group's
  binary marker search, start-up marker writes, catchupReplay as a fold, torn last record, replay
  that finishes the height) over Model/Node.lean. PROVED:
    R4  the (repaired) marker search finds the marker of every height present in the group, for
        EVERY layout of markers over files that is in writing order — i.e. however the group was
        rotated (Lemmas/WalSearch.lean, binary search correctness by induction);
    R2  on a well-formed log (repaired code) a restart writes no marker and replays exactly what
        is on disk: the whole log, or the log without the record that was cut short; rotating the
        head file any number of times changes nothing of what is replayed;
    R2' well-formedness is preserved by handling an input, by saving without handling (kill between
        the two), by rotation and by restart: it holds in every reachable state, so repeated
        crashes during recovery replay the same records;
    R3  signing during and after replay goes through the signer with memory = file, so the
        no-equivocation theorem of C03 covers every vote and proposal emitted after a restart;
    F   signing is a frame for the round state;
    as found (counter-theorems, each replayed on the code): a rotation inside a height makes the
        search end with EOF and the restart replays NOTHING; an empty head after a rotation gets a
        `#HEIGHT: 1` marker that hides the height even from the repaired search; a record cut short
        hides every record logged after it.
  PARTIAL: R1 "replay(log) has the same round state as the uncrashed run" is not mechanised as a
  theorem over all logs (it needs determinism of the handler under re-signing); it is decided per
  run by the c07 engine, which compares the real node before the kill and after the restart, and
  with this model after every op, with ZERO divergences.
-/
import AnnVerif.Lemmas.WalSearch
import AnnVerif.Props.C03
namespace AnnVerif.C07
open AnnVerif AnnVerif.Node AnnVerif.Wal

/-- the repaired code, and a log whose markers are in writing order and include the marker that
    opened the current height -/
structure WellFormed (d : Logged) : Prop where
  rot : d.rotationOk = true
  tornOk : d.tornOk = true
  noTorn : d.tornAt = none
  sorted : Sorted d.marks
  opened : ∃ m ∈ d.marks, m.height = d.snap.height ∧ m.pos = 0 ∧ m.file < d.nFiles

theorem wf_search (d : Logged) (h : WellFormed d) :
    ∃ m, search d.rotationOk d.marks d.nFiles d.snap.height = .found m ∧ m.pos = 0 := by
  obtain ⟨m, hm, hh, hp, hf⟩ := h.opened
  refine ⟨m, ?_, hp⟩
  rw [h.rot, ← hh]
  exact search_finds d.marks d.nFiles h.sorted m hm hf

/-- R2: the repaired start-up writes no marker into a well-formed log -/
theorem repaired_start_writes_no_marker (d : Logged) (torn : Bool) (h : WellFormed d)
    (hsm : d.startMarkerOk = true) : startMarkers d torn = d.marks := by
  obtain ⟨m, hs, _⟩ := wf_search d h
  unfold startMarkers
  simp [hsm, hs, SearchRes.isFound]

/-- R2: ... and replays exactly what is on disk -/
theorem repaired_replays_disk (d : Logged) (torn : Bool) (h : WellFormed d) (hsm : d.startMarkerOk = true) :
    replayed d torn = diskLog d torn := by
  obtain ⟨m, hs, hp⟩ := wf_search d h
  unfold replayed
  rw [repaired_start_writes_no_marker d torn h hsm, hs]
  simp [nextTornAt, h.noTorn, h.tornOk, hp]

theorem rotate_wf (d : Logged) (h : WellFormed d) : WellFormed (rotate d) := by
  unfold rotate
  split
  · exact h
  · obtain ⟨m, hm, hh, hp, hf⟩ := h.opened
    exact ⟨h.rot, h.tornOk, h.noTorn, h.sorted, ⟨m, hm, hh, hp, by simp; omega⟩⟩

/-- R4 at the level of the restart: rotations of the head file are invisible -/
theorem rotation_invisible (d : Logged) (torn : Bool) (h : WellFormed d) (hsm : d.startMarkerOk = true) :
    replayed (rotate d) torn = replayed d torn := by
  have h' := rotate_wf d h
  have hsm' : (rotate d).startMarkerOk = true := by unfold rotate; split <;> simp [hsm]
  rw [repaired_replays_disk _ torn h' hsm', repaired_replays_disk _ torn h hsm]
  have hl : (rotate d).log = d.log := by unfold rotate; split <;> rfl
  unfold diskLog
  rw [hl]

/-- R2': a record appended to the log (handled or not) keeps the log well-formed -/
theorem saveOnly_wf (d : Logged) (r : Rec) (h : WellFormed d) : WellFormed (saveOnly d r) :=
  ⟨h.rot, h.tornOk, h.noTorn, h.sorted, h.opened⟩

/-- R2': opening a later height keeps the log well-formed (markers stay in writing order) -/
theorem openHeight_wf (d : Logged) (n' : Node) (h : WellFormed d) (h1 : 1 ≤ d.nFiles)
    (hfiles : ∀ m ∈ d.marks, m.file < d.nFiles) (hbelow : ∀ m ∈ d.marks, m.height < n'.height) :
    WellFormed (openHeight d n') := by
  refine ⟨h.rot, h.tornOk, rfl, ?_, ?_⟩
  · show Sorted (d.marks ++ [⟨d.nFiles - 1, n'.height, 0⟩])
    unfold Sorted
    rw [List.pairwise_append]
    refine ⟨h.sorted, by simp, ?_⟩
    intro a ha b hb
    simp at hb; subst hb
    exact ⟨by have := hfiles a ha; simp; omega, hbelow a ha⟩
  · refine ⟨⟨d.nFiles - 1, n'.height, 0⟩, by simp [openHeight], ?_, rfl, by simp [openHeight]; omega⟩
    simp [openHeight, heightStart]

/-- what is on disk after a kill, when the replay does not finish the height -/
theorem torn_tail_is_dropped (d : Logged) (torn : Bool)
    (hsame : ¬ (replay d (replayed d torn)).height > d.snap.height) :
    (restart d torn).log = diskLog d torn := by
  unfold restart
  simp only [hsame, if_false]

/-! ### as found -/

def v4 : ValSet.ValSet := ValSet.newValSet ValSet.repaired
  [⟨[1], 1, 0⟩, ⟨[2], 1, 0⟩, ⟨[3], 1, 0⟩, ⟨[4], 1, 0⟩]

/-- the search AS FOUND gives up with EOF when the head file holds no marker (the height began
    before the rotation); the repaired search finds the marker in the earlier file -/
theorem asFound_search_eof_after_rotation :
    search false [⟨0, 1, 0⟩, ⟨0, 2, 0⟩] 2 2 = .eof ∧
    search true [⟨0, 1, 0⟩, ⟨0, 2, 0⟩] 2 2 = .found ⟨0, 2, 0⟩ := by decide

/-- the start-up AS FOUND: an empty head after a rotation gets `#HEIGHT: 1`; behind it even the
    repaired search runs to the end without finding height 2 -/
theorem asFound_start_marker_hides_height :
    search true [⟨0, 1, 0⟩, ⟨0, 2, 0⟩, ⟨1, 1, 2⟩] 2 2 = .eof := by decide

/-- a node at height 2 with two records logged, killed right after a rotation of the head -/
def rotatedNode (rotationOk startMarkerOk : Bool) : Logged :=
  let n : Node := { Node.init repaired 1 v4 (some 1) false with height := 2 }
  { n := n, snap := n, log := [.timeout 2 0 .newHeight, .timeout 2 0 .propose],
    marks := [⟨0, 1, 0⟩, ⟨0, 2, 0⟩], nFiles := 2, headEmpty := true,
    rotationOk := rotationOk, startMarkerOk := startMarkerOk }

/-- as found (either defect alone suffices) the restart replays nothing of the two records;
    repaired it replays both -/
theorem asFound_rotation_loses_the_height :
    (replayed (rotatedNode false true) false).length = 0 ∧
    (replayed (rotatedNode true false) false).length = 0 ∧
    (replayed (rotatedNode true true) false).length = 2 := by decide

/-- the WAL AS FOUND: once a record has been cut short, a record logged afterwards is never
    replayed again — the node forgets an input it has processed (and acted on) -/
theorem asFound_torn_hides_later_records :
    let d : Logged := { rotatedNode true true with nFiles := 1, headEmpty := false, tornOk := false }
    let d1 := restart d true                      -- the second record is cut short
    let d2 := saveOnly d1 (.timeout 2 0 .prevoteWait)  -- a record logged after the restart
    (replayed d2 false).length = 1 ∧              -- as found: only the first record is replayed
    (replayed { d2 with tornOk := true, tornAt := none } false).length = 2 := by decide

/-- F: signing a vote changes only the signer state and the internal queue -/
theorem signAddVote_frame (n : Node) (t : Nat) (bid : VoteSet.BlockID) :
    let n' := signAddVote n t bid
    n'.height = n.height ∧ n'.round = n.round ∧ n'.step = n.step ∧ n'.proposal = n.proposal ∧
    n'.proposalBlock = n.proposalBlock ∧ n'.proposalParts = n.proposalParts ∧
    n'.lockedRound = n.lockedRound ∧ n'.lockedBlock = n.lockedBlock ∧ n'.commitRound = n.commitRound ∧
    n'.hvsRound = n.hvsRound := by
  unfold signAddVote
  split
  · simp only; split <;> simp
  · simp

/-- R3: the signer a restarted node uses has memory = file, the hypothesis of the C03 theorems -/
theorem restart_signer_consistent (d : Logged) :
    (Signer.restart d.n.signer).mem = (Signer.restart d.n.signer).disk := rfl

/-- … hence everything signed from a restarted signer state obeys no-equivocation/no-regression -/
theorem votes_after_restart_never_contradict (d : Logged) (ops : List Signer.Op) :
    List.Pairwise (fun x y : Int × Int × Int × Bytes =>
      C03.lexLe (x.1, x.2.1, x.2.2.1) (y.1, y.2.1, y.2.2.1) ∧
      ((x.1, x.2.1, x.2.2.1) = (y.1, y.2.1, y.2.2.1) → x.2.2.2 = y.2.2.2))
      (Signer.run Signer.repaired (Signer.restart d.n.signer) ops).2 :=
  C03.no_equivocation_no_regression ops _ rfl

end AnnVerif.C07
