/-
  C07 — WAL replay restores the in-progress height after a crash.

  Model: Model/Wal.lean over Model/Node.lean. What is PROVED here:
    R2  a log whose last record was cut short replays exactly like the log without that record
        (and a restart of an intact log replays all of it) — for every log;
    R2' restarting twice in a row (repeated crashes during recovery) gives the same records to
        replay: the log kept on disk is unchanged by a restart;
    R3  signing during and after replay goes through the signer with memory = file, so the
        no-equivocation theorem of C03 covers every vote and proposal emitted after a restart;
    F   frame facts: signing a vote touches nothing but the signer and the internal queue, so the
        round state (height, round, step, lock, proposal, vote sets) of a replay does not depend
        on which signatures the signer is still willing to hand out.
  PARTIAL: R1 "replay(log) has the same round state as the uncrashed run" is not mechanised as a
  theorem over all logs; it is what the c07 engine checks on the real node on every run (kill
  after any processed input, kill between WAL write and handling, cut inside the last record,
  repeated restarts, several heights), with ZERO divergences from this model.
-/
import AnnVerif.Model.Wal
import AnnVerif.Props.C03
namespace AnnVerif.C07
open AnnVerif AnnVerif.Node AnnVerif.Wal

/-- R2: what is on disk after a kill: the log, minus the record that was cut short -/
theorem torn_tail_is_dropped (d : Logged) :
    (restart d true).log = d.log.dropLast ∧ (restart d false).log = d.log := by
  simp [restart, diskLog]

/-- R2 (repaired WAL): every restart replays exactly what is on disk — the whole log, or the log
    without the record that was cut short; no earlier crash makes any record unreachable -/
theorem repaired_replays_all_intact_records (d : Logged) (torn : Bool)
    (hok : d.tornOk = true) (hnone : d.tornAt = none) :
    replayed d torn = diskLog d torn ∧ (restart d torn).tornAt = none := by
  simp [replayed, restart, nextTornAt, hok, hnone]

theorem restart_is_replay (d : Logged) (torn : Bool) :
    ∃ n, (restart d torn).n = emit n (.timeout n.height 0 .newHeight) ∧ n = replay d (replayed d torn) :=
  ⟨_, rfl, rfl⟩

/-- R2': snapshot, flags and the intact log survive a restart, so a second crash during or after
    recovery replays the same records -/
theorem restart_keeps_disk (d : Logged) (hok : d.tornOk = true) (hnone : d.tornAt = none) :
    (restart d false).snap = d.snap ∧ (restart d false).log = d.log ∧
    replayed (restart d false) false = replayed d false := by
  simp [restart, replayed, diskLog, nextTornAt, hok, hnone]

/-- the WAL AS FOUND: once a record has been cut short, a record logged afterwards is never
    replayed again — the node forgets an input it has processed (and acted on) -/
theorem asFound_torn_hides_later_records (d : Logged) (r : Rec)
    (hbad : d.tornOk = false) (hnone : d.tornAt = none) (hne : d.log ≠ [])
    (hsame : ¬ (applyRec (restart d true).n r).height > (restart d true).n.height) :
    replayed (handle (restart d true) r) false = d.log.dropLast := by
  have hlog : d.log.isEmpty = false := by cases h : d.log <;> simp_all
  have h1 : (restart d true).tornAt = some d.log.dropLast.length := by
    simp [restart, nextTornAt, diskLog, hbad, hnone, hlog]
  have h2 : (restart d true).log = d.log.dropLast := by simp [restart, diskLog]
  unfold handle
  simp only [hsame, if_false]
  simp [replayed, nextTornAt, diskLog, h1, h2]

/-- the same history on the repaired WAL replays the later record -/
theorem repaired_keeps_later_records (d : Logged) (r : Rec)
    (hok : d.tornOk = true) (hnone : d.tornAt = none)
    (hsame : ¬ (applyRec (restart d true).n r).height > (restart d true).n.height) :
    replayed (handle (restart d true) r) false = d.log.dropLast ++ [r] := by
  have h1 : (restart d true).tornAt = none := by simp [restart, nextTornAt, hok, hnone]
  have h2 : (restart d true).log = d.log.dropLast := by simp [restart, diskLog]
  unfold handle
  simp only [hsame, if_false]
  simp [replayed, nextTornAt, diskLog, h1, h2]

/-- F: signing a vote changes only the signer state and the internal queue -/
theorem signAddVote_frame (n : Node) (t : Nat) (bid : VoteSet.BlockID) :
    let n' := signAddVote n t bid
    n'.height = n.height ∧ n'.round = n.round ∧ n'.step = n.step ∧ n'.proposal = n.proposal ∧
    n'.proposalBlock = n.proposalBlock ∧ n'.proposalParts = n.proposalParts ∧
    n'.lockedRound = n.lockedRound ∧ n'.lockedBlock = n.lockedBlock ∧ n'.commitRound = n.commitRound ∧
    n'.hvsRound = n.hvsRound := by
  unfold signAddVote
  split
  · simp only; split <;> simp
  · simp

/-- R3: the signer a restarted node uses has memory = file, the hypothesis of the C03 theorems -/
theorem restart_signer_consistent (d : Logged) :
    (Signer.restart d.n.signer).mem = (Signer.restart d.n.signer).disk := rfl

/-- … hence everything signed from a restarted signer state obeys no-equivocation/no-regression -/
theorem votes_after_restart_never_contradict (d : Logged) (ops : List Signer.Op) :
    List.Pairwise (fun x y : Int × Int × Int × Bytes =>
      C03.lexLe (x.1, x.2.1, x.2.2.1) (y.1, y.2.1, y.2.2.1) ∧
      ((x.1, x.2.1, x.2.2.1) = (y.1, y.2.1, y.2.2.1) → x.2.2.2 = y.2.2.2))
      (Signer.run Signer.repaired (Signer.restart d.n.signer) ops).2 :=
  C03.no_equivocation_no_regression ops _ rfl

end AnnVerif.C07
