/-
  C17 — Block parts and Merkle proofs: only genuine parts accepted, exact reassembly.

  Property theorems only (helper lemmas live in Lemmas/Merkle.lean, Lemmas/PartSet.lean).
  Everything is for an ARBITRARY leaf hash `H` (hash.DoHash) and two-hash combiner `N`
  (SimpleHashFromTwoHashes); "soundness" concludes with an explicit collision instead of assuming
  there is none.  `cfg` is the variant: `repaired` = range guards reject negative indices,
  `asFound` = the tree before the `fix:` commit.
-/
import AnnVerif.Lemmas.PartSet
namespace AnnVerif.C17
open AnnVerif AnnVerif.Merkle

variable (H : Bytes → Bytes) (N : Bytes → Bytes → Bytes)

/-- C17.1 every generated inclusion proof verifies — any item count ≥ 1, any index. -/
theorem generated_proof_verifies (cfg : Cfg) (hs : List Bytes) (i : Nat) (hi : i < hs.length) :
    ∃ r, root N hs = some r ∧
      verify N cfg (i : Int) (hs.length : Int) hs[i] (aunts N hs i) r = .ok true := by
  obtain ⟨r, hr, hc⟩ := computeRev_complete N cfg hs.length hs rfl i hi
  refine ⟨r, hr, ?_⟩
  unfold verify compute; rw [hc]; simp

/-- C17.2 soundness with extraction: whatever leaf and aunts are offered, if they verify against
    the genuine root at the genuine total and an in-range index, the leaf is the genuine one — or
    the inputs exhibit a collision of the combiner. -/
theorem verify_sound (cfg : Cfg) (hs : List Bytes) (r : Bytes) (hr : root N hs = some r)
    (i : Nat) (hi : i < hs.length) (leaf : Bytes) (as : List Bytes)
    (hv : verify N cfg (i : Int) (hs.length : Int) leaf as r = .ok true) :
    leaf = hs[i] ∨ CollisionN N :=
  computeRev_sound N cfg hs.length hs rfl i hi leaf _ r hr (verify_ok_true N hv)

/-- C17.2b (repaired) no proof verifies for a negative index or an index ≥ total; verification
    is total (no panic) for every integer index and total. -/
theorem verify_out_of_range_repaired (idx total : Int) (leaf : Bytes) (as : List Bytes) (r : Bytes)
    (h : idx < 0 ∨ idx ≥ total) : verify N repaired idx total leaf as r = .ok false := by
  unfold verify compute
  rw [computeRev.eq_def]
  rcases h with h | h <;> simp [repaired, h]

theorem verify_total_repaired (idx total : Int) (leaf : Bytes) (as : List Bytes) (r : Bytes) :
    ∃ b, verify N repaired idx total leaf as r = .ok b := by
  unfold verify compute
  obtain ⟨o, ho⟩ := computeRev_repaired_total N leaf as.reverse idx total
  rw [ho]; cases o <;> simp

/-- C17.2c AS FOUND the statement "no proof verifies for a different index" is FALSE: index −1 is
    accepted with the proof of index 0 (witness: any two leaves). -/
theorem asFound_negative_index_verifies (h0 h1 : Bytes) :
    root N [h0, h1] = some (N h0 h1) ∧
    verify N asFound (-1) 2 h0 (aunts N [h0, h1] 0) (N h0 h1) = .ok true := by
  refine ⟨by simp [root, combine], ?_⟩
  simp [verify, compute, aunts, root, computeRev, asFound, liftL, Int.tdiv]

/-- C17.2d KNOWN FINDING, inherent to the tree format (both variants): "no proof verifies for a
    different total" is FALSE — the proof of leaf 0 of three leaves verifies for total 4. -/
theorem other_total_verifies (cfg : Cfg) (h0 h1 h2 : Bytes) :
    ∃ r, root N [h0, h1, h2] = some r ∧
      verify N cfg 0 4 h0 (aunts N [h0, h1, h2] 0) r = .ok true := by
  refine ⟨N (N h0 h1) h2, by simp [root, combine], ?_⟩
  simp [verify, compute, aunts, root, combine, computeRev, liftL, Int.tdiv]

/-- C17.3 a receiver that knows only the header: rejected parts leave the set unchanged … -/
theorem rejected_part_leaves_set_unchanged (cfg : Cfg) (ps : PartSet) (p : Part) (v : Bool)
    (h : (addPart H N cfg ps p v).2 ≠ .added) : (addPart H N cfg ps p v).1 = ps :=
  addPart_rejected_unchanged H N cfg ps p v h

/-- … a part is accepted ONLY IF it is genuine (index in range, slot empty, bytes hash to the
    genuine leaf, or a collision is exhibited) … -/
theorem accepted_only_if_genuine (cfg : Cfg) (hs : List Bytes) (r : Bytes) (hr : root N hs = some r)
    (ps : PartSet) (p : Part) (hinv : Inv H N hs r ps)
    (h : (addPart H N cfg ps p true).2 = .added) :
    ∃ i : Nat, p.index = (i : Int) ∧ ∃ hi : i < hs.length, ps.parts[i]? = some none ∧
      (H p.bytes = hs[i] ∨ CollisionN N) := by
  rw [addPart_snd] at h
  exact addDecide_added_genuine H N cfg hs r hr ps p hinv h

/-- … and IF it is the genuine part for an empty slot it is accepted. -/
theorem genuine_part_accepted (cfg : Cfg) (hs : List Bytes) (r : Bytes) (hr : root N hs = some r)
    (ps : PartSet) (hinv : Inv H N hs r ps) (i : Nat) (hi : i < hs.length)
    (hslot : ps.parts[i]? = some none) (bytes : Bytes) (hb : H bytes = hs[i]) :
    (addPart H N cfg ps ⟨(i : Int), bytes, aunts N hs i⟩ true).2 = .added := by
  rw [addPart_snd]
  exact addDecide_genuine_accepted H N cfg hs r hr ps hinv i hi hslot bytes hb

/-- every set reachable from the header satisfies the invariant used above (so the three
    theorems apply to every state a receiver can be in). -/
theorem reachable_inv (cfg : Cfg) (hs : List Bytes) (r : Bytes) (hr : root N hs = some r)
    (arrivals : List Part) :
    Inv H N hs r (addAll H N cfg (fromHeader hs.length r) arrivals) :=
  addAll_inv H N cfg hs r hr arrivals _ (inv_fromHeader H N hs r)

/-- C17.3b (repaired) no part — any integer index, any bytes, any proof — makes `AddPart` panic. -/
theorem addPart_never_panics_repaired (hs : List Bytes) (r : Bytes) (ps : PartSet) (p : Part)
    (v : Bool) (hinv : Inv H N hs r ps) : (addPart H N repaired ps p v).2 ≠ .panic := by
  rw [addPart_snd]; exact addDecide_no_panic H N hs r ps p v hinv

/-- C17.3c AS FOUND a part with index −1 panics (`ps.parts[-1]`). -/
theorem asFound_negative_index_panics (ps : PartSet) (b : Bytes) (as : List Bytes) (v : Bool) :
    (addPart H N asFound ps ⟨-1, b, as⟩ v).2 = .panic := by
  rw [addPart_snd]
  unfold addDecide
  have : ¬ ((-1 : Int) ≥ (ps.total : Int)) := by omega
  simp [asFound, this]

/-- C17.4 exact reassembly, for every data length, every part size > 0, every arrival sequence. -/
theorem exact_reassembly (cfg : Cfg) (data : Bytes) (sz : Nat) (hsz : 0 < sz) (r : Bytes)
    (hr : root N ((chunks sz data).map H) = some r) (arrivals : List Part)
    (hcomplete : isComplete (addAll H N cfg (fromHeader (chunks sz data).length r) arrivals) = true) :
    assemble (addAll H N cfg (fromHeader (chunks sz data).length r) arrivals) = data
      ∨ CollisionN N ∨ CollisionH H :=
  reassembly H N cfg data sz hsz r hr arrivals hcomplete

/-- C17.5 the sender's own set reads back as the data (split ∘ join = id). -/
theorem split_join (data : Bytes) (sz : Nat) (hsz : 0 < sz) : (chunks sz data).flatten = data :=
  chunks_flatten sz hsz data

/-! ### non-vacuity: the hypotheses above are met by concrete non-trivial states -/

/-- a toy transparent hash and combiner (what the correspondence harness injects as `DoHash`) -/
def tH : Bytes → Bytes := fun b => 0x68 :: b
def tN : Bytes → Bytes → Bytes := fun l r => tH (wireByteSlice l ++ wireByteSlice r)

example : (chunks 2 [1, 2, 3, 4, 5]) = [[1, 2], [3, 4], [5]] := by decide
example : root tN ((chunks 2 [1, 2, 3, 4, 5]).map tH) =
    some (tN (tN (tH [1, 2]) (tH [3, 4])) (tH [5])) := by
  simp [root, combine, chunks, chunksAux]

end AnnVerif.C17
