/-
  C16 — Proposer selection is deterministic and proportional to voting power.

  Model: Model/ValSet.lean (IncrementAccum with the literal container/heap for the as-found batched
  form and "first maximum" for the repaired iterated form, Proposer() with its nil-cache
  recomputation, Copy, wire reload, Add/Update/Remove, the totalVotingPower cache).
  Lemmas: Fairness.lean (abstract theorem for ANY tie-break), ValSetFair.lean (the list model
  refines it), ValSetMembers.lean (order on addresses, sortedness, cache).
-/
import AnnVerif.Lemmas.ValSetFair
import AnnVerif.Lemmas.ValSetMembers
namespace AnnVerif.C16
open AnnVerif AnnVerif.ValSet AnnVerif.Fairness

/-- C16.1 PATH INDEPENDENCE (repaired): going through `a` rounds and then `b` more selects the same
    proposers and leaves the same accums as skipping `a + b` rounds at once — for every validator
    set. So a replica that skipped rounds agrees with one that went through each of them. -/
theorem increment_path_independent (vs : ValSet) (a b : Nat) :
    incrementAccum repaired vs (a + b) =
      incrementAccum repaired (incrementAccum repaired vs a) b := by
  unfold incrementAccum
  simp only [repaired, if_true]
  by_cases ha : a = 0
  · subst ha; simp
  · by_cases hb : b = 0
    · subst hb; simp [ha]
    · have : a + b ≠ 0 := by omega
      simp only [ha, hb, this, if_false]
      exact iter_add incrOnce a b vs

/-- C16.1' AS FOUND path independence is FALSE: powers (1,3), two rounds at once vs one by one. -/
def w13 : ValSet := ⟨[⟨[1], 1, 0⟩, ⟨[2], 3, 0⟩], none, 0⟩

theorem asFound_batched_differs :
    incrementAccum asFound w13 2 ≠ incrementAccum asFound (incrementAccum asFound w13 1) 1 := by
  decide

/-- C16.1c the persistence AS FOUND (and still the bare wire round trip of a set): the cached
    proposer is not persisted, and `Proposer()` recomputes it from accums that have ALREADY been
    decremented — a restarted replica names a different round-0 proposer than one that kept
    running. Witness: four equal validators. -/
def w4 : ValSet := ⟨[⟨[1], 1, 0⟩, ⟨[2], 1, 0⟩, ⟨[3], 1, 0⟩, ⟨[4], 1, 0⟩], none, 0⟩

theorem reload_changes_proposer (cfg : Cfg) :
    (proposer (incrementAccum cfg w4 1)).2 = some [1] ∧
    (proposer (reload (incrementAccum cfg w4 1))).2 = some [2] := by
  cases cfg with
  | mk it => cases it <;> decide

/-- C16.1d the REPAIRED state persistence (the proposer's address is stored behind the state's
    wire bytes and restored on load): a restarted replica names the proposer the running one names,
    for EVERY set, and every later increment/selection is the same too (only the total-power cache,
    which is recomputed on demand, differs). -/
theorem state_reload_keeps_proposer (vs : ValSet) :
    (proposer (reloadState true vs)).2 = (proposer vs).2 ∧
    (reloadState true vs).vals = vs.vals ∧ (reloadState true vs).proposer = vs.proposer := by
  refine ⟨?_, rfl, rfl⟩
  unfold proposer reloadState
  simp only [if_true]
  split <;> (try rfl)
  split <;> rfl

theorem asFound_state_reload_changes_proposer (cfg : Cfg) :
    (proposer (reloadState false (incrementAccum cfg w4 1))).2 ≠ (proposer (incrementAccum cfg w4 1)).2 := by
  cases cfg with
  | mk it => cases it <;> decide

/-- C16.2 FAIRNESS (repaired, single increments): a validator set whose accums are all zero (the
    state `NewValidatorSet` starts from) selects validator `j` exactly `power j` times in
    `T = total voting power` consecutive rounds, and is then back at zero accums — so the sequence
    of proposers is periodic with period `T` and EVERY window of `T` consecutive selections on it
    contains each validator exactly `power` times. `chAt … n` is the position selected in round
    `n+1` and is what `Proposer()` returns after it (second conjunct). -/
theorem proportional_selection (vs0 : ValSet) (hne : vs0.vals ≠ [])
    (hw : ∀ v ∈ vs0.vals, 0 ≤ v.power) (hTpos : 0 < sumPower vs0.vals)
    (hc : vs0.total = 0 ∨ vs0.total = sumPower vs0.vals)
    (hz : vs0.vals.map (·.accum) = List.replicate vs0.vals.length 0) :
    let ws := vs0.vals.map (·.power)
    let T := sumPower vs0.vals
    (∀ j, j < vs0.vals.length → cnt (chAt ws T) T.toNat j = wf ws j) ∧
    (∀ n, (proposer (iter incrOnce (n + 1) vs0)).2 = (vs0.vals[chAt ws T n]?).map (·.addr)) ∧
    (iter incrOnce T.toNat vs0).vals.map (·.accum) = List.replicate vs0.vals.length 0 := by
  intro ws T
  have hws : ∀ p ∈ ws, 0 ≤ p := by
    intro p hp; simp [ws] at hp; obtain ⟨v, hv, rfl⟩ := hp; exact hw v hv
  obtain ⟨f1, f2⟩ := stepAcc_fair ws hws T rfl hTpos
  refine ⟨fun j hj => f1 j (by simpa [ws] using hj), ?_, ?_⟩
  · intro n
    obtain ⟨_, _, h3, _, h5⟩ := iter_incrOnce_refines vs0 T rfl hc hne hz (n + 1)
    have hp := h5 n rfl
    have hne' : (iter incrOnce (n + 1) vs0).vals ≠ [] := by
      intro h; rw [h] at h3; simp at h3; exact hne h3
    unfold proposer
    cases hv : (iter incrOnce (n + 1) vs0).vals with
    | nil => exact absurd hv hne'
    | cons x t =>
      simp only
      have hci : chAt ws T n < vs0.vals.length := by
        have := (chAt_valid ws T (by simpa [ws] using hne) n).1; simpa [ws] using this
      rw [hp, List.getElem?_eq_getElem hci]; rfl
  · obtain ⟨h1, _⟩ := iter_incrOnce_refines vs0 T rfl hc hne hz T.toNat
    rw [h1, f2]; simp [ws]

/-- the abstract statement behind it, for ANY tie-break among maxima (Lemmas/Fairness.lean) -/
theorem proportional_selection_any_tiebreak (N : Nat) (w : Nat → Int) (T : Int) (ch : Nat → Nat)
    (hw : ∀ j, j < N → 0 ≤ w j) (hT : T = S N w) (hTpos : 0 < T)
    (hvalid : ∀ n : Nat, (n : Int) < T → ValidAt N w T ch n) :
    (∀ j, j < N → cnt ch T.toNat j = w j) ∧ (∀ j, j < N → acc w T ch T.toNat j = 0) :=
  fair N w T ch hw hT hTpos hvalid

/-- C16.3 `Add`, `Update`, `Remove` keep the set strictly sorted by address — sorted AND
    duplicate-free — for every sequence of such operations. -/
inductive MOp where
  | add (v : Val) | update (v : Val) | remove (a : Bytes) | incr (k : Nat)

def mstep (cfg : Cfg) (vs : ValSet) : MOp → ValSet
  | .add v => (add vs v).1
  | .update v => (update vs v).1
  | .remove a => (remove vs a).1
  | .incr k => incrementAccum cfg vs k

theorem members_sorted (vs : ValSet) (hs : Sorted vs.vals) (ops : List MOp)
    (hnoincr : ∀ op ∈ ops, ∀ k, op ≠ .incr k) :
    Sorted (ops.foldl (mstep repaired) vs).vals := by
  induction ops generalizing vs with
  | nil => exact hs
  | cons op t ih =>
    simp only [List.foldl_cons]
    apply ih
    · cases op with
      | add v => exact add_sorted vs v hs
      | update v => exact update_sorted vs v hs
      | remove a => exact remove_sorted vs a hs
      | incr k => exact absurd rfl (hnoincr (.incr k) (by simp) k)
    · intro op' h; exact hnoincr op' (by simp [h])

/-- C16.4 the cached total is never stale: after any sequence of membership changes
    `TotalVotingPower()` returns the true sum of the current powers. -/
theorem total_never_stale (vs : ValSet) (hc : CacheOK vs) (ops : List MOp)
    (hnoincr : ∀ op ∈ ops, ∀ k, op ≠ .incr k) :
    (totalVotingPower (ops.foldl (mstep repaired) vs)).2 =
      sumPower (ops.foldl (mstep repaired) vs).vals := by
  suffices h : CacheOK (ops.foldl (mstep repaired) vs) from (totalVotingPower_correct _ h).1
  induction ops generalizing vs with
  | nil => exact hc
  | cons op t ih =>
    simp only [List.foldl_cons]
    apply ih
    · cases op with
      | add v => exact add_cacheOK vs v hc
      | update v => exact update_cacheOK vs v hc
      | remove a => exact remove_cacheOK vs a hc
      | incr k => exact absurd rfl (hnoincr (.incr k) (by simp) k)
    · intro op' h; exact hnoincr op' (by simp [h])

/-! ### non-vacuity -/

example : Sorted w4.vals := by simp [Sorted, w4, bytesLt]
example : (proposer (iter incrOnce 3 ⟨[⟨[1], 1, 0⟩, ⟨[2], 3, 0⟩], none, 0⟩)).2 = some [2] := by decide
example : ((List.range 4).map fun n =>
    (proposer (iter incrOnce (n + 1) ⟨[⟨[1], 1, 0⟩, ⟨[2], 3, 0⟩], none, 0⟩)).2) =
    [some [2], some [1], some [2], some [2]] := by decide

end AnnVerif.C16
