/-
  C20 — P2P transport is authenticated, ordered and intact; admission rules hold.  (PARTIAL)

  Model: Model/Transport.lean (SecretConnection Write/Read framing with SYMBOLIC authenticated
  encryption; MConnection packetisation and reassembly) and Model/Admission.lean (decision logic
  of Switch.AddPeerWithConnection, peerHandshake, authByCA). PROVED:
    S1  `Write` cuts the data into chunks of 1..1024 bytes whose concatenation is the data;
    S2  (repaired Read) for every receiver state, every buffer size and every wire of intact frames
        in nonce order: what a read delivers, followed by what is still buffered and on the wire,
        is exactly what was buffered and on the wire before — so over any sequence of reads of any
        sizes no byte is lost, duplicated or reordered; the reported count is the delivered count;
    S3  a frame that was modified in any way, or that is not the next one (replayed, reordered,
        a frame dropped before it), makes the read fail and delivers nothing;
    S4  as found a read served from the internal buffer reported 0 bytes: the caller lost them
        (counter-theorem, replayed on the code);
    M1  the packets of a message, received in order by a channel with sufficient capacity,
        reassemble to exactly the message, and only the last packet completes it; a message beyond
        the capacity is refused;
    A1-A3 the admission decision stated outright (see Model/Admission.lean).
  NOT proved (assumed, named): that NaCl secretbox/box and Ed25519 behave like the symbolic
  primitives; the key exchange itself; concurrency of MConnection's send/receive routines (the
  engine runs the real routines and checks per-channel order and content).
-/
import AnnVerif.Model.Transport
import AnnVerif.Model.Admission
namespace AnnVerif.C20
open AnnVerif AnnVerif.Transport

/-! ### S1 -/

theorem chunks_flatten : ∀ (fuel : Nat) (d : Bytes), d.length < fuel → (chunks fuel d).flatten = d := by
  intro fuel
  induction fuel with
  | zero => intro d h; omega
  | succ f ih =>
    intro d h
    unfold chunks
    by_cases he : d.isEmpty = true
    · rw [if_pos he]; simp at he; simp [he]
    · rw [if_neg he]
      have hne : d ≠ [] := by simpa using he
      have hpos : 0 < d.length := List.length_pos_iff.mpr hne
      have hd : (d.drop dataMaxSize).length < f := by
        simp only [List.length_drop, dataMaxSize]; omega
      simp only [List.flatten_cons, ih _ hd]
      exact List.take_append_drop _ _

theorem chunks_sizes : ∀ (fuel : Nat) (d : Bytes), ∀ c ∈ chunks fuel d, 0 < c.length ∧ c.length ≤ dataMaxSize := by
  intro fuel
  induction fuel with
  | zero => intro d c hc; simp [chunks] at hc
  | succ f ih =>
    intro d c hc
    unfold chunks at hc
    by_cases he : d.isEmpty = true
    · rw [if_pos he] at hc; simp at hc
    · rw [if_neg he] at hc
      have hne : d ≠ [] := by simpa using he
      have hpos : 0 < d.length := List.length_pos_iff.mpr hne
      rcases List.mem_cons.mp hc with rfl | hc'
      · simp only [List.length_take, dataMaxSize]; omega
      · exact ih _ c hc'

/-! ### S2 / S3 -/

/-- the frames on the wire are intact and are the next ones the receiver expects, in order -/
def WireOK : Nat → List Sealed → Prop
  | _, [] => True
  | n, f :: rest => f.intact = true ∧ f.truncated = false ∧ f.nonce = n ∧ WireOK (n + 1) rest

def flat (wire : List Sealed) : Bytes := (wire.map (·.chunk)).flatten

/-- S2: one read, repaired -/
theorem read_conserves_stream (r : Receiver) (wire : List Sealed) (k : Nat) (hw : WireOK r.nonce wire)
    (r' : Receiver) (wire' : List Sealed) (n : Nat) (out : Bytes)
    (h : scRead {} r wire k = (r', wire', .data n out)) :
    n = out.length ∧ out ++ r'.buf ++ flat wire' = r.buf ++ flat wire ∧ WireOK r'.nonce wire' := by
  unfold scRead at h
  by_cases hb : (!r.buf.isEmpty) = true
  · rw [if_pos hb] at h
    simp only [Prod.mk.injEq, ReadRes.data.injEq] at h
    obtain ⟨rfl, rfl, hn, rfl⟩ := h
    refine ⟨by simpa using hn.symm, ?_, hw⟩
    simp only [List.take_append_drop]
  · rw [if_neg hb] at h
    cases wire with
    | nil => simp at h
    | cons f rest =>
      simp only at h
      obtain ⟨hi, htr, hnn, hrest⟩ := hw
      rw [htr] at h
      simp only [Bool.false_eq_true, if_false] at h
      have hgood : ¬ ((!f.intact) = true ∨ f.nonce ≠ r.nonce) := by simp [hi, hnn]
      rw [if_neg hgood] at h
      simp only [Prod.mk.injEq, ReadRes.data.injEq] at h
      obtain ⟨rfl, rfl, hn, rfl⟩ := h
      have hbe : r.buf = [] := by
        cases hbuf : r.buf with
        | nil => rfl
        | cons x t => rw [hbuf] at hb; simp at hb
      refine ⟨hn.symm, ?_, hrest⟩
      simp only [flat, List.map_cons, List.flatten_cons, hbe, List.nil_append]
      rw [List.take_append_drop]

/-- a sequence of reads with the given buffer sizes; stops at the first failure -/
def readMany (cfg : Cfg) : Receiver → List Sealed → List Nat → Receiver × List Sealed × Bytes × Bool
  | r, w, [] => (r, w, [], true)
  | r, w, k :: ks =>
    match scRead cfg r w k with
    | (r', w', .data n out) =>
      let (r'', w'', more, ok) := readMany cfg r' w' ks
      (r'', w'', out.take n ++ more, ok)
    | (r', w', _) => (r', w', [], false)

/-- S2 over any sequence of reads of any sizes: everything received so far, plus what is buffered
    and still on the wire, is the original stream -/
theorem stream_intact : ∀ (ks : List Nat) (r : Receiver) (wire : List Sealed), WireOK r.nonce wire →
    let res := readMany {} r wire ks
    res.2.2.1 ++ res.1.buf ++ flat res.2.1 = r.buf ++ flat wire ∨ res.2.2.2 = false := by
  intro ks
  induction ks with
  | nil => intro r wire _; left; simp [readMany]
  | cons k rest ih =>
    intro r wire hw
    simp only [readMany]
    cases hr : scRead {} r wire k with
    | mk r' p =>
      cases p with
      | mk w' res =>
        cases res with
        | data n out =>
          simp only
          obtain ⟨hn, hcons, hw'⟩ := read_conserves_stream r wire k hw r' w' n out hr
          rcases ih r' w' hw' with h | h
          · left
            subst hn
            simp only [List.take_length]
            rw [List.append_assoc, List.append_assoc, ← List.append_assoc _ _ (flat _)] at *
            rw [← hcons]
            simp only [List.append_assoc] at h ⊢
            rw [h]
          · right; exact h
        | decryptError => right; rfl
        | eof => right; rfl

/-- with intact frames in order, a read never fails to decrypt -/
theorem intact_wire_never_fails (r : Receiver) (wire : List Sealed) (k : Nat) (hw : WireOK r.nonce wire) :
    (scRead {} r wire k).2.2 ≠ .decryptError := by
  unfold scRead
  split
  · simp
  · cases wire with
    | nil => simp
    | cons f rest =>
      obtain ⟨hi, htr, hnn, _⟩ := hw
      simp [hi, hnn, htr]

/-- S3: a modified frame, or one that is not the next in sequence, fails and delivers nothing -/
theorem tampering_detected (cfg : Cfg) (r : Receiver) (f : Sealed) (rest : List Sealed) (k : Nat)
    (hb : r.buf = []) (htr : f.truncated = false) (hbad : f.intact = false ∨ f.nonce ≠ r.nonce) :
    scRead cfg r (f :: rest) k = (r, rest, .decryptError) := by
  unfold scRead
  simp only [hb, htr, List.isEmpty_nil, Bool.not_true, Bool.false_eq_true, if_false]
  have : ((!f.intact) = true ∨ f.nonce ≠ r.nonce) := by
    rcases hbad with h | h
    · left; simp [h]
    · right; exact h
  rw [if_pos this]

/-- S4: as found, bytes handed out of the internal buffer are not reported to the caller -/
theorem asFound_buffered_bytes_lost :
    (readMany ⟨false⟩ {} [⟨0, [1, 2, 3], true, false⟩] [2, 2]).2.2.1 = [1, 2] ∧
    (readMany {} {} [⟨0, [1, 2, 3], true, false⟩] [2, 2]).2.2.1 = [1, 2, 3] := by decide

/-! ### M1 -/

/-- what a channel yields while it receives a list of packets: the final buffer and every completed message -/
def recvAll (capacity : Nat) : Bytes → List Packet → Bytes × List Bytes × Bool
  | rc, [] => (rc, [], true)
  | rc, p :: ps =>
    match recvPacket capacity rc p with
    | (rc', .more) => recvAll capacity rc' ps
    | (rc', .complete m) => let (b, ms, ok) := recvAll capacity rc' ps; (b, m :: ms, ok)
    | (rc', .tooLong) => (rc', [], false)

theorem packetize_reassembles (ch cap : Nat) : ∀ (fuel : Nat) (m rc : Bytes), m.length < fuel →
    rc.length + m.length ≤ cap →
    recvAll cap rc (packetize ch fuel m) = ([], [rc ++ m], true) := by
  intro fuel
  induction fuel with
  | zero => intro m rc h; omega
  | succ f ih =>
    intro m rc h hc
    unfold packetize
    by_cases hs : m.length ≤ maxPayload
    · rw [if_pos hs]
      simp only [recvAll, recvPacket]
      have : ¬ cap < rc.length + m.length := by omega
      simp [this, recvAll]
    · rw [if_neg hs]
      have hlen : (m.take maxPayload).length = maxPayload := by simp only [List.length_take]; omega
      simp only [recvAll, recvPacket, hlen]
      have : ¬ cap < rc.length + maxPayload := by omega
      simp only [this, if_false, Bool.false_eq_true]
      have hd : (m.drop maxPayload).length < f := by simp only [List.length_drop, maxPayload] at *; omega
      have hc' : (rc ++ m.take maxPayload).length + (m.drop maxPayload).length ≤ cap := by
        simp only [List.length_append, List.length_drop, hlen]; omega
      rw [ih _ _ hd hc']
      simp only [List.append_assoc, List.take_append_drop]

/-- M1: the packets of a message reassemble to exactly the message -/
theorem message_arrives_complete (ch cap : Nat) (m : Bytes) (hc : m.length ≤ cap) :
    recvAll cap [] (packets ch m) = ([], [m], true) := by
  unfold packets
  have := packetize_reassembles ch cap (m.length + 1) m [] (by omega) (by simpa using hc)
  simpa using this

/-- a message beyond the receive capacity is refused, never delivered cut short -/
theorem over_capacity_refused (cap : Nat) (rc : Bytes) (p : Packet) (h : cap < rc.length + p.bytes.length) :
    recvPacket cap rc p = (rc, .tooLong) := by
  unfold recvPacket
  rw [if_pos h]

example : (recvAll 5000 [] (packets 3 (List.replicate 2500 7))).2.1 = [List.replicate 2500 7] := by
  have : (List.replicate 2500 (7 : UInt8)).length ≤ 5000 := by rw [List.length_replicate]; omega
  rw [message_arrives_complete 3 5000 _ this]

/-! ### A1-A3: admission -/

open AnnVerif.Admission in
/-- A1: whoever is admitted is not on the refuse list, is the key that signed the handshake
    challenge, is not the node itself, and — where authority admission is on — is either a current
    validator exempted by configuration or presents a certificate signed by a CURRENT authority -/
theorem admitted_means (n : Admission.Node) (p : Admission.Peer) (h : Admission.admission {} n p = .admitted) :
    p.connKey ∉ n.refuse ∧ p.announced = p.connKey ∧ p.announced ≠ n.self ∧
    (n.authByCA = true →
      ((∃ v ∈ n.validatorsNow, v.key = p.announced) ∧ n.nonValidatorNodeAuth = false) ∨
      (∃ v ∈ n.validatorsNow, v.isCA = true ∧ v.key ∈ p.signedBy)) := by
  unfold Admission.admission at h
  split at h; · cases h
  rename_i h1
  split at h; · cases h
  rename_i h2
  split at h; · cases h
  rename_i h3
  split at h; · cases h
  rename_i h4
  refine ⟨by simpa using h1, Classical.not_not.mp h3, h4, ?_⟩
  intro ha
  have hc : Admission.caAccepts {} n p = true := by
    cases hca : Admission.caAccepts {} n p with
    | true => rfl
    | false => exact absurd ⟨ha, by simp [hca]⟩ h2
  unfold Admission.caAccepts at hc
  simp only [if_true] at hc
  split at hc
  · rename_i hv
    left
    simp only [Bool.and_eq_true, List.any_eq_true, beq_iff_eq, Bool.not_eq_true'] at hv
    obtain ⟨⟨v, hv1, hv2⟩, hn⟩ := hv
    exact ⟨⟨v, hv1, hv2⟩, hn⟩
  · right
    simp only [List.any_eq_true, Bool.and_eq_true, List.contains_iff_mem] at hc
    obtain ⟨v, hv1, hv2, hv3⟩ := hc
    exact ⟨v, hv1, hv2, hv3⟩

/-- A2: a key on the refuse list is never admitted, whatever else it presents -/
theorem refused_key_never_admitted (cfg : Admission.Cfg) (n : Admission.Node) (p : Admission.Peer)
    (h : p.connKey ∈ n.refuse) : Admission.admission cfg n p = .onRefuseList := by
  unfold Admission.admission
  have : n.refuse.contains p.connKey = true := by simpa using h
  rw [if_pos this]

/-- A2': announcing another identity than the one that signed the challenge is never admitted -/
theorem impersonation_never_admitted (cfg : Admission.Cfg) (n : Admission.Node) (p : Admission.Peer)
    (h : p.announced ≠ p.connKey) : Admission.admission cfg n p ≠ .admitted := by
  unfold Admission.admission
  split; · simp
  split; · simp
  simp [h]

/-- A3: as found the authority check used the validator set the node STARTED with: the certificate
    of an authority that has since been removed still admits (key 9 signed by authority 1, which
    was a validator at start and no longer is) -/
theorem asFound_removed_authority_still_admits :
    let n : Admission.Node := ⟨0, [], true, true, [⟨1, true⟩, ⟨2, false⟩], [⟨2, false⟩, ⟨3, true⟩]⟩
    let p : Admission.Peer := ⟨9, 9, [1]⟩
    Admission.admission ⟨false⟩ n p = .admitted ∧ Admission.admission {} n p = .noAuthority := by decide

end AnnVerif.C20
