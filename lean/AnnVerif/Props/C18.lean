/-
  C18 — Codecs: round-trip, bounded robust decoding, injective sign-bytes.

  PROVED here (models: Model/WirePrim.lean, Model/Rlp.lean, Model/Basic.lean):
    * go-wire primitives every consensus value is built from: varint round trip, totality of the
      decoders (value or error, never a panic), bounded allocation of ReadByteSlice under a limit,
      the length prefix is a prefix code (injectivity), time round trip and (repaired) totality;
    * RLP: decode ∘ encode = id for every item tree (any depth, payloads < 2^64);
    * the canonical sign-bytes of a VOTE (Model/SignBytes.lean: go-wire's JSON of
      CanonicalJSONOnceVote with `omitempty` on the block id's hash and parts, hex byte strings,
      decimal integers - compared character for character with types.SignBytes on every run) are
      INJECTIVE for one chain id: equal text implies equal height, round, type and block id.
  NOT proved (stated so in MANIFEST/evidence; covered by the differential oracle of the c18 engine
  on the real reflect-based codec): struct-level binary/JSON round trips of the registered
  consensus types, sign-bytes of proposals and across chain ids (checked pairwise on single-field
  differences).
-/
import AnnVerif.Lemmas.WirePrim
import AnnVerif.Lemmas.Rlp
import AnnVerif.Lemmas.SignBytes
namespace AnnVerif.C18
open AnnVerif AnnVerif.WirePrim

/-- C18.1 varint round trip with arbitrary trailing bytes -/
theorem varint_roundtrip (i : Int) (h0 : 0 ≤ i) (h1 : i < 2 ^ 63) (rest : Bytes) :
    readVarint (writeVarint i ++ rest) = .ok i rest :=
  readVarint_writeVarint_nonneg i h0 h1 rest

/-- C18.2 decoding ARBITRARY bytes returns a value or an error, never a panic -/
theorem varint_decode_total (inp : Bytes) : readVarint inp ≠ .panic := readVarint_total inp
theorem byteslice_decode_total (lmt n0 : Nat) (inp : Bytes) : (readByteSlice lmt n0 inp).1 ≠ .panic :=
  readByteSlice_total lmt n0 inp

/-- C18.3 … and never allocates beyond the caller's limit, whatever length the input claims -/
theorem byteslice_alloc_bounded (lmt n0 : Nat) (hl : lmt ≠ 0) (inp : Bytes) :
    (readByteSlice lmt n0 inp).2 ≤ lmt := readByteSlice_alloc_le lmt n0 hl inp

/-- C18.4 the byte-slice encoding is a prefix code: two encoded slices followed by anything are
    equal only if the slices are equal (this is what makes concatenated fields unambiguous) -/
theorem byteslice_prefix_code (a c X Y : Bytes) (ha : a.length < 2 ^ 64) (hc : c.length < 2 ^ 64)
    (h : wireByteSlice a ++ X = wireByteSlice c ++ Y) : a = c ∧ X = Y :=
  wireByteSlice_append_inj a c X Y ha hc h

/-- C18.5 time: what WriteTime writes ReadTime accepts; (repaired) ReadTime never panics -/
theorem time_roundtrip (cfg : Cfg) (ms : Int) (h0 : 0 ≤ ms) (h1 : ms * 1000000 < 2 ^ 63) (rest : Bytes) :
    readTime cfg (writeTime (ms * 1000000) ++ rest) = .ok (ms * 1000000) rest :=
  readTime_writeTime cfg ms h0 h1 rest
theorem time_decode_total_repaired (inp : Bytes) : readTime repaired inp ≠ .panic :=
  readTime_total_repaired inp
/-- AS FOUND: a value that is not a whole number of milliseconds panics the decoder -/
theorem time_decode_panics_asFound : readTime asFound [0, 0, 0, 0, 0, 0, 0, 1] = .panic :=
  readTime_asFound_panics

/-- C18.6 RLP: decode (encode x) = x for every item tree -/
theorem rlp_roundtrip (x : Rlp.Item) (hs : Rlp.smallOne x) : Rlp.decode (Rlp.encode x) = .ok x :=
  Rlp.decode_encode x hs

/-! ### non-vacuity -/
example : readVarint (writeVarint 300 ++ [9]) = .ok 300 [9] := by decide
example : (readByteSlice 4 0 [1, 200, 1, 2]).1 = .err .readOverflow := by decide
example : Rlp.smallOne (.list [.str [1], .list [.str [], .str [0x80, 1]]]) := by
  simp [Rlp.smallOne, Rlp.smallItems, Rlp.encodeList, Rlp.encode, Rlp.encodeStr, Rlp.header]
example : Rlp.encode (.list [.str [1], .list [.str [], .str [0x80, 1]]]) =
    [0xc6, 0x01, 0xc4, 0x80, 0x82, 0x80, 0x01] := by decide

/-- C18.9 sign-bytes of votes are injective: two votes of one chain with the same sign-bytes agree in
    height, round, type and block id (hash, parts total, parts hash) - so a signature over the
    sign-bytes commits to all of them, whatever their values -/
theorem vote_sign_bytes_injective (chain : List Char) (h h' r r' : Int) (t t' : Nat) (b b' : VoteSet.BlockID)
    (e : SignBytes.voteJson chain h r t b = SignBytes.voteJson chain h' r' t' b') :
    h = h' ∧ r = r' ∧ t = t' ∧ b = b' :=
  SignBytes.voteJson_injective chain h h' r r' t t' b b' e

/-- the pieces: a hex string is read back up to the closing quote, a decimal up to the next
    character that cannot be part of one -/
theorem hex_text_injective (a b : Bytes) (e : SignBytes.hexOf a = SignBytes.hexOf b) : a = b := SignBytes.hexOf_inj a b e
theorem decimal_text_injective (i j : Int) (e : SignBytes.decOf i = SignBytes.decOf j) : i = j := SignBytes.decOf_inj i j e

/-- the nil block id and the three other shapes `omitempty` produces are told apart -/
example : SignBytes.bidJson ⟨[], 0, []⟩ = ['{', '}'] ∧
    SignBytes.bidJson ⟨[], 0, [9]⟩ ≠ SignBytes.bidJson ⟨[9], 0, []⟩ := by decide

end AnnVerif.C18
