/-
  C14 — Validator-set changes need +2/3 of DISTINCT validators and apply uniformly.

  Model: Model/Admin.lean (CheckMajor23, ExecTX/ProcessAdminOP, updateValidators, the account
  nonce discipline) on top of Model/ValSet.lean.  A signature entry carries the oracle bit "this
  signature verifies over exactly this request's message under the entry's key"; the theorems
  hold for every assignment.
-/
import AnnVerif.Lemmas.Admin
import AnnVerif.Lemmas.AdminLast
namespace AnnVerif.C14
open AnnVerif AnnVerif.ValSet AnnVerif.Admin
open Classical

/-- the voting power of the DISTINCT current validators (each validator at most once) with
    positive power for which the request carries a valid signature entry -/
noncomputable def distinctSignedPower (vals : List Val) (sinfos : List SigEntry) : Int :=
  specP vals (fun a => ∃ e ∈ sinfos, e.ok = true ∧ e.addr = a)

/-- C14.1 (repaired) `CheckMajor23` is EXACTLY "distinct valid signers hold more than 2/3":
    duplicates, foreign keys, zero-power validators and invalid signatures contribute nothing. -/
theorem checkMajor23_iff (vals : List Val) (hn : NodupAddr vals) (sinfos : List SigEntry) :
    checkMajor23 Admin.repaired vals sinfos = true ↔
      distinctSignedPower vals sinfos > sumPower vals * 2 / 3 := by
  unfold checkMajor23 distinctSignedPower
  rw [major23Loop_spec Admin.repaired rfl vals hn sinfos [] 0 (specP_nil vals).symm]
  have : specP vals (fun a => a ∈ ([] : List Bytes) ∨ ∃ e ∈ sinfos, e.ok = true ∧ e.addr = a) =
      specP vals (fun a => ∃ e ∈ sinfos, e.ok = true ∧ e.addr = a) :=
    specP_congr _ _ _ (fun v _ _ => by simp)
  rw [this]; simp

/-- … hence strictly more than two thirds of the total -/
theorem checkMajor23_sound (vals : List Val) (hn : NodupAddr vals) (sinfos : List SigEntry)
    (h : checkMajor23 Admin.repaired vals sinfos = true) :
    3 * distinctSignedPower vals sinfos > 2 * sumPower vals := by
  have := (checkMajor23_iff vals hn sinfos).mp h
  omega

/-- C14.2 the ORDER and MULTIPLICITY of the signature entries is irrelevant -/
theorem checkMajor23_order_irrelevant (vals : List Val) (hn : NodupAddr vals)
    (s1 s2 : List SigEntry) (hperm : ∀ e, e ∈ s1 ↔ e ∈ s2) :
    checkMajor23 Admin.repaired vals s1 = checkMajor23 Admin.repaired vals s2 := by
  have e : distinctSignedPower vals s1 = distinctSignedPower vals s2 :=
    specP_congr _ _ _ (fun v _ _ => by
      constructor
      · rintro ⟨x, hx, h⟩; exact ⟨x, (hperm x).mp hx, h⟩
      · rintro ⟨x, hx, h⟩; exact ⟨x, (hperm x).mpr hx, h⟩)
  have h1 := checkMajor23_iff vals hn s1
  have h2 := checkMajor23_iff vals hn s2
  rw [e] at h1
  rw [Bool.eq_iff_iff, h1, h2]

/-- C14.1' AS FOUND every repeated entry is counted again: one validator with 1/4 of the power,
    listed three times, passes the 2/3 check alone. -/
def w4 : List Val := [⟨[1], 1, 0⟩, ⟨[2], 1, 0⟩, ⟨[3], 1, 0⟩, ⟨[4], 1, 0⟩]

theorem asFound_duplicates_counted :
    checkMajor23 Admin.asFound w4 [⟨[1], true⟩, ⟨[1], true⟩, ⟨[1], true⟩] = true ∧
    checkMajor23 Admin.repaired w4 [⟨[1], true⟩, ⟨[1], true⟩, ⟨[1], true⟩] = false := by decide

/-- C14.3 an under-signed request, an unknown command type, a wrong sender or a wrong nonce
    changes nothing: a change is queued only by an ACCEPTED request. -/
theorem change_only_if_accepted (cfg : Admin.Cfg) (vals : List Val) (from_ : Bytes) (n : Nat)
    (r : Request) (h : (execTx cfg vals from_ n r).2 ≠ none) :
    (execTx cfg vals from_ n r).1 = .accepted true := by
  unfold execTx at *
  repeat' split
  all_goals simp_all

/-- a request is accepted only with +2/3, from its own sender, and only when its nonce is the
    account's nonce (`GetNonce()` is already the tx nonce + 1) -/
theorem accepted_requires (cfg : Admin.Cfg) (vals : List Val) (from_ : Bytes) (n : Nat) (r : Request)
    (c : Bool) (h : (execTx cfg vals from_ n r).1 = .accepted c) :
    checkMajor23 cfg vals r.sinfos = true ∧ from_ = r.attrAddr ∧ r.attrNonce + 1 = n := by
  unfold execTx at h
  split at h
  · simp at h
  · rename_i h1
    split at h
    · simp at h
    · split at h
      · simp at h
      · split at h
        · simp at h
        · rename_i h4
          split at h
          · simp at h
          · rename_i h5
            exact ⟨by simpa using h1, by simpa using h4, by simpa using h5⟩

/-- the (sender, nonce) pairs of the requests accepted while running a list of transactions -/
def acceptedKeys (cfg : Admin.Cfg) (vals : List Val) :
    List (Bytes × Nat) → List AdminTx → List (Bytes × Nat)
  | _, [] => []
  | m, tx :: t =>
    let (m', ok) := runTx cfg vals m tx
    (if ok then [(tx.req.attrAddr, tx.req.attrNonce)] else []) ++ acceptedKeys cfg vals m' t

theorem runTx_nonce_mono (cfg : Admin.Cfg) (vals : List Val) (m : List (Bytes × Nat)) (tx : AdminTx)
    (a : Bytes) : nonceOf m a ≤ nonceOf (runTx cfg vals m tx).1 a := by
  unfold runTx
  split
  · exact Nat.le_refl _
  · simp only
    by_cases h : a = tx.sender
    · subst h; rw [nonceOf_bump_self]; omega
    · rw [nonceOf_bump_ne _ _ _ h]; exact Nat.le_refl _

/-- an accepted request has exactly the account's current nonce, and the account nonce is then
    strictly above it -/
theorem runTx_accepted (cfg : Admin.Cfg) (vals : List Val) (m : List (Bytes × Nat)) (tx : AdminTx)
    (h : (runTx cfg vals m tx).2 = true) :
    tx.req.attrNonce = nonceOf m tx.req.attrAddr ∧
    nonceOf (runTx cfg vals m tx).1 tx.req.attrAddr = tx.req.attrNonce + 1 := by
  unfold runTx at h ⊢
  split at h
  · simp at h
  · rename_i hn
    rw [if_neg hn]
    simp only at h ⊢
    cases hacc : (execTx cfg vals tx.sender (nonceOf (bump m tx.sender) tx.sender) tx.req).1 with
    | accepted c =>
      obtain ⟨_, hfrom, hnon⟩ := accepted_requires cfg vals _ _ _ c hacc
      rw [nonceOf_bump_self] at hnon
      rw [← hfrom, nonceOf_bump_self]
      omega
    | _ => rw [hacc] at h; simp [Res.isAccepted] at h

/-- C14.4 REPLAY PROTECTION: over ANY sequence of admin transactions (any senders, nonces, orders,
    repetitions), every accepted (sender, nonce) pair lies below that sender's account nonce
    afterwards — so no signed request is ever accepted twice. -/
theorem accepted_below_nonce (cfg : Admin.Cfg) (vals : List Val) (txs : List AdminTx) :
    ∀ (m : List (Bytes × Nat)) (k : Bytes × Nat), k ∈ acceptedKeys cfg vals m txs →
      nonceOf m k.1 ≤ k.2 := by
  induction txs with
  | nil => intro m k hk; simp [acceptedKeys] at hk
  | cons tx t ih =>
    intro m k hk
    simp only [acceptedKeys] at hk
    rw [List.mem_append] at hk
    rcases hk with hk | hk
    · by_cases hok : (runTx cfg vals m tx).2 = true
      · simp [hok] at hk
        subst hk
        have := (runTx_accepted cfg vals m tx hok).1
        simp only; omega
      · simp [hok] at hk
    · have := ih _ k hk
      have := runTx_nonce_mono cfg vals m tx k.1
      omega

theorem no_request_accepted_twice (cfg : Admin.Cfg) (vals : List Val) (txs : List AdminTx) :
    ∀ (m : List (Bytes × Nat)), (acceptedKeys cfg vals m txs).Nodup := by
  induction txs with
  | nil => intro m; simp [acceptedKeys]
  | cons tx t ih =>
    intro m
    simp only [acceptedKeys]
    by_cases hok : (runTx cfg vals m tx).2 = true
    · simp only [hok, if_true, List.singleton_append, List.nodup_cons]
      refine ⟨?_, ih _⟩
      intro hmem
      have h1 := accepted_below_nonce cfg vals t _ _ hmem
      have h2 := (runTx_accepted cfg vals m tx hok).2
      simp only at h1
      omega
    · simp only [hok, Bool.false_eq_true, if_false, List.nil_append]
      exact ih _

/-- C14.5 applying accepted changes keeps the set strictly sorted by address (sorted and
    duplicate-free); the next set is a FUNCTION of (current set, ordered accepted changes), hence
    identical on every replica that executed the same block. -/
theorem applyChanges_sorted (cs : List Change) : ∀ (vs vs' : ValSet), Sorted vs.vals →
    applyChanges vs cs = some vs' → Sorted vs'.vals := by
  induction cs with
  | nil => intro vs vs' hs h; simp [applyChanges] at h; subst h; exact hs
  | cons c t ih =>
    intro vs vs' hs h
    simp only [applyChanges] at h
    cases hc : applyChange vs c with
    | none => rw [hc] at h; simp at h
    | some v1 =>
      rw [hc] at h
      exact ih v1 vs' (applyChange_sorted vs v1 c hs hc) (by simpa using h)

/-- C14.6 the ORDER of a block's accepted changes is part of the input: two accepted requests for
    the same node applied in the other order give another validator set (the later one wins), so a
    replica that applied a block's changes in any other order than the order of acceptance - e.g. in
    the iteration order of a map - would end up with another set. (With C14.5: the set is a function
    of the ORDERED changes, and of nothing less.) -/
theorem change_order_matters :
    (applyChanges ⟨w4, none, 0⟩ [⟨.update, [1], 5⟩, ⟨.update, [1], 7⟩]).map (fun vs => powerOf vs.vals [1]) = some (some 7) ∧
    (applyChanges ⟨w4, none, 0⟩ [⟨.update, [1], 7⟩, ⟨.update, [1], 5⟩]).map (fun vs => powerOf vs.vals [1]) = some (some 5) := by
  decide

/-- C14.7 THE LAST CHANGE WINS, for every block: whatever the block's earlier accepted changes did -
    to this node or to others -, if the last one is "update a to p" (a a member by then), the next
    validator set holds a with power p. A replica applying the changes in any order in which another
    change of a comes last ends with another power (C14.6) -/
theorem the_last_accepted_change_decides (vs vs' : ValSet.ValSet) (cs : List Change) (a : Bytes) (p : Int)
    (h : applyChanges vs (cs ++ [⟨.update, a, p⟩]) = some vs')
    (hm : ∀ mid, applyChanges vs cs = some mid → (powerOf mid.vals a).isSome) :
    powerOf vs'.vals a = some p :=
  Admin.last_update_wins vs vs' cs a p h hm

/-! ### non-vacuity -/
example : NodupAddr w4 := by simp [NodupAddr, w4]
example : checkMajor23 Admin.repaired w4 [⟨[1], true⟩, ⟨[9], true⟩, ⟨[2], false⟩, ⟨[3], true⟩, ⟨[4], true⟩] = true := by
  decide
example : (execTx Admin.repaired w4 [7] 5 ⟨true, true, [7], 4, .add, [9], 3, true,
    [⟨[1], true⟩, ⟨[3], true⟩, ⟨[4], true⟩]⟩) = (.accepted true, some ⟨.add, [9], 3⟩) := by decide

end AnnVerif.C14
