/-
  C03 — No equivocation: at most one signature per height/round/step, across restarts.

  Model: Model/Signer.lean (signBytesHRS + save + WriteFileAtomic + reload). A request sequence is
  any list of signing requests (any heights, rounds, steps, bytes — repeats and regressions
  included), each with any outcome of its durable write (ok / error / killed before the rename /
  killed after the rename), interleaved with kills-and-restarts between requests.
-/
import AnnVerif.Model.Signer
namespace AnnVerif.C03
open AnnVerif AnnVerif.Signer

/-- lexicographic order on (height, round, step) -/
def lexLe (a b : Int × Int × Int) : Prop :=
  a.1 < b.1 ∨ (a.1 = b.1 ∧ (a.2.1 < b.2.1 ∨ (a.2.1 = b.2.1 ∧ a.2.2 ≤ b.2.2)))

def hrs (m : Rec) : Int × Int × Int := (m.h, m.r, m.s)

/-- `verdict` is exactly the lexicographic comparison -/
theorem verdict_fresh {m : Rec} {h r s : Int} {b : Bytes} (hv : verdict m h r s b = .fresh) :
    lexLe (hrs m) (h, r, s) ∧ hrs m ≠ (h, r, s) := by
  unfold verdict at hv
  simp only [lexLe, hrs, ne_eq, Prod.mk.injEq]
  by_cases h1 : m.h > h
  · rw [if_pos h1] at hv; simp at hv
  · rw [if_neg h1] at hv
    by_cases h2 : m.h = h
    · rw [if_pos h2] at hv
      by_cases h3 : m.r > r
      · rw [if_pos h3] at hv; simp at hv
      · rw [if_neg h3] at hv
        by_cases h4 : m.r = r
        · rw [if_pos h4] at hv
          by_cases h5 : m.s > s
          · rw [if_pos h5] at hv; simp at hv
          · rw [if_neg h5] at hv
            by_cases h6 : m.s = s
            · rw [if_pos h6] at hv
              cases hb : m.bytes with
              | none => rw [hb] at hv; simp at hv
              | some lb => rw [hb] at hv; simp only at hv; split at hv <;> simp at hv
            · exact ⟨by omega, by omega⟩
        · exact ⟨by omega, by omega⟩
    · exact ⟨by omega, by omega⟩

theorem verdict_cached {m : Rec} {h r s : Int} {b : Bytes} (hv : verdict m h r s b = .cached) :
    hrs m = (h, r, s) ∧ m.bytes = some b := by
  unfold verdict at hv
  simp only [hrs, Prod.mk.injEq]
  by_cases h1 : m.h > h
  · rw [if_pos h1] at hv; simp at hv
  · rw [if_neg h1] at hv
    by_cases h2 : m.h = h
    · rw [if_pos h2] at hv
      by_cases h3 : m.r > r
      · rw [if_pos h3] at hv; simp at hv
      · rw [if_neg h3] at hv
        by_cases h4 : m.r = r
        · rw [if_pos h4] at hv
          by_cases h5 : m.s > s
          · rw [if_pos h5] at hv; simp at hv
          · rw [if_neg h5] at hv
            by_cases h6 : m.s = s
            · rw [if_pos h6] at hv
              cases hb : m.bytes with
              | none => rw [hb] at hv; simp at hv
              | some lb =>
                rw [hb] at hv; simp only at hv
                by_cases he : lb = b
                · exact ⟨⟨h2, h4, h6⟩, by rw [he]⟩
                · rw [if_neg he] at hv; simp at hv
            · rw [if_neg h6] at hv; simp at hv
        · rw [if_neg h4] at hv; simp at hv
    · rw [if_neg h2] at hv; simp at hv

/-- everything one signing request can do (repaired), given memory = file before it -/
theorem sign_spec (st : St) (hmd : st.mem = st.disk) (h r s : Int) (b : Bytes) (w : Write) :
    (sign repaired st h r s b w).1.mem = (sign repaired st h r s b w).1.disk ∧
    lexLe (hrs st.mem) (hrs (sign repaired st h r s b w).1.mem) ∧
    (hrs st.mem = hrs (sign repaired st h r s b w).1.mem →
      (sign repaired st h r s b w).1.mem = st.mem) ∧
    (∀ h' r' s' b', (sign repaired st h r s b w).2 = .released h' r' s' b' →
      (sign repaired st h r s b w).1.disk = ⟨h', r', s', some b'⟩ ∧
      h' = h ∧ r' = r ∧ s' = s ∧ b' = b) := by
  have hrefl : lexLe (hrs st.mem) (hrs st.mem) := by simp [lexLe]
  unfold sign
  cases hv : verdict st.mem h r s b with
  | regression => exact ⟨hmd, hrefl, fun _ => rfl, fun _ _ _ _ hh => by simp at hh⟩
  | cached =>
    obtain ⟨h1, h2⟩ := verdict_cached hv
    refine ⟨hmd, hrefl, fun _ => rfl, fun h' r' s' b' hh => ?_⟩
    simp at hh
    obtain ⟨e1, e2, e3, e4⟩ := hh
    subst e1; subst e2; subst e3; subst e4
    refine ⟨?_, rfl, rfl, rfl, rfl⟩
    simp only; rw [← hmd]
    cases hm : st.mem with
    | mk mh mr ms mb =>
      rw [hm] at h1 h2
      simp only [hrs, Prod.mk.injEq] at h1
      obtain ⟨e1, e2, e3⟩ := h1
      simp only at h2
      subst e1; subst e2; subst e3; subst h2; rfl
  | fresh =>
    obtain ⟨hle, hne⟩ := verdict_fresh hv
    cases w with
    | ok =>
      refine ⟨rfl, hle, fun e => absurd e hne, fun h' r' s' b' hh => ?_⟩
      simp at hh
      obtain ⟨e1, e2, e3, e4⟩ := hh
      subst e1; subst e2; subst e3; subst e4
      exact ⟨rfl, rfl, rfl, rfl, rfl⟩
    | fail =>
      simp only [repaired, if_true]
      exact ⟨hmd, hrefl, fun _ => trivial, fun _ _ _ _ hh => by simp at hh⟩
    | crashBefore =>
      simp only
      refine ⟨trivial, by rw [← hmd]; exact hrefl, fun _ => hmd.symm, fun _ _ _ _ hh => by simp at hh⟩
    | crashAfter =>
      exact ⟨rfl, hle, fun e => absurd e hne, fun _ _ _ _ hh => by simp at hh⟩

/-- (repaired) memory and file never diverge -/
theorem mem_eq_disk_step (st : St) (op : Op) (h : st.mem = st.disk) :
    (step repaired st op).1.mem = (step repaired st op).1.disk := by
  cases op with
  | restart => rfl
  | sign hh r s b w => exact (sign_spec st h hh r s b w).1

/-- (repaired) DURABLE BEFORE IT LEAVES: whenever a signature is released, the file already holds
    exactly that height/round/step and those bytes. -/
theorem durable_before_release (st : St) (hmd : st.mem = st.disk) (h r s : Int) (b : Bytes)
    (w : Write) (h' r' s' : Int) (b' : Bytes)
    (hrel : (sign repaired st h r s b w).2 = .released h' r' s' b') :
    (sign repaired st h r s b w).1.disk = ⟨h', r', s', some b'⟩ :=
  ((sign_spec st hmd h r s b w).2.2.2 h' r' s' b' hrel).1

theorem lexLe_trans {a b c : Int × Int × Int} (h1 : lexLe a b) (h2 : lexLe b c) : lexLe a c := by
  simp only [lexLe] at *; omega

theorem lexLe_antisymm {a b : Int × Int × Int} (h1 : lexLe a b) (h2 : lexLe b a) : a = b := by
  obtain ⟨a1, a2, a3⟩ := a
  obtain ⟨b1, b2, b3⟩ := b
  simp only [lexLe] at *
  simp only [Prod.mk.injEq]; omega

/-- how one step moves the watermark (repaired) -/
theorem step_moves (st : St) (hmd : st.mem = st.disk) (op : Op) :
    lexLe (hrs st.mem) (hrs (step repaired st op).1.mem) ∧
    (hrs st.mem = hrs (step repaired st op).1.mem → (step repaired st op).1.mem = st.mem) := by
  cases op with
  | restart => simp only [step, restart, ← hmd]; exact ⟨by simp [lexLe], fun _ => trivial⟩
  | sign hh r s b w =>
    have := sign_spec st hmd hh r s b w
    exact ⟨this.2.1, this.2.2.1⟩

/-- what this step released, if anything, is now exactly the watermark -/
theorem step_released (st : St) (hmd : st.mem = st.disk) (op : Op) (x : Int × Int × Int × Bytes)
    (hx : x ∈ (match (step repaired st op).2 with
               | some (.released h r s b) => [(h, r, s, b)] | _ => [])) :
    (step repaired st op).1.mem = ⟨x.1, x.2.1, x.2.2.1, some x.2.2.2⟩ := by
  cases op with
  | restart => simp [step] at hx
  | sign hh r s b w =>
    simp only [step] at hx ⊢
    cases ho : (sign repaired st hh r s b w).2 with
    | released h' r' s' b' =>
      rw [ho] at hx; simp at hx; subst hx
      rw [(sign_spec st hmd hh r s b w).1]
      exact durable_before_release st hmd hh r s b w h' r' s' b' ho
    | error => rw [ho] at hx; simp at hx
    | died => rw [ho] at hx; simp at hx

/-- (repaired) everything released from a state lies at or above that state's watermark, and a
    release AT the watermark carries the watermark's bytes -/
theorem future_releases (ops : List Op) : ∀ (st : St), st.mem = st.disk →
    ∀ x ∈ (run repaired st ops).2,
      lexLe (hrs st.mem) (x.1, x.2.1, x.2.2.1) ∧
      (hrs st.mem = (x.1, x.2.1, x.2.2.1) → st.mem.bytes = some x.2.2.2) := by
  induction ops with
  | nil => intro st _ x hx; simp [run] at hx
  | cons op t ih =>
    intro st hmd x hx
    simp only [run] at hx
    have hmd' := mem_eq_disk_step st op hmd
    obtain ⟨m1, m2⟩ := step_moves st hmd op
    rw [List.mem_append] at hx
    rcases hx with hx | hx
    · have hm := step_released st hmd op x hx
      have e : hrs (step repaired st op).1.mem = (x.1, x.2.1, x.2.2.1) := by rw [hm]; rfl
      refine ⟨e ▸ m1, fun e2 => ?_⟩
      have := m2 (e2.trans e.symm)
      rw [← this, hm]
    · obtain ⟨h1, h2⟩ := ih _ hmd' x hx
      refine ⟨lexLe_trans m1 h1, fun e => ?_⟩
      have e' : hrs st.mem = hrs (step repaired st op).1.mem :=
        lexLe_antisymm m1 (e ▸ h1)
      rw [← m2 e']
      exact h2 (e' ▸ e)

/-- C03 (repaired) NO EQUIVOCATION and NO REGRESSION, for every request sequence with every write
    outcome and every crash point: the released (height, round, step) never decrease, and two
    releases for the same height/round/step carry the same bytes (the identical signature). -/
theorem no_equivocation_no_regression (ops : List Op) : ∀ (st : St), st.mem = st.disk →
    List.Pairwise (fun x y : Int × Int × Int × Bytes =>
      lexLe (x.1, x.2.1, x.2.2.1) (y.1, y.2.1, y.2.2.1) ∧
      ((x.1, x.2.1, x.2.2.1) = (y.1, y.2.1, y.2.2.1) → x.2.2.2 = y.2.2.2))
      (run repaired st ops).2 := by
  induction ops with
  | nil => intro st _; simp [run]
  | cons op t ih =>
    intro st hmd
    simp only [run]
    have hmd' := mem_eq_disk_step st op hmd
    rw [List.pairwise_append]
    refine ⟨?_, ih _ hmd', ?_⟩
    · split <;> simp
    · intro x hx y hy
      have hfut := future_releases t _ hmd' y hy
      have hm := step_released st hmd op x hx
      rw [hm] at hfut
      simp only [hrs] at hfut
      exact ⟨hfut.1, fun e => by have := hfut.2 e; simpa using this⟩

/-- C03 AS FOUND the property is FALSE: the error of `save()` is dropped, so
    sign(1,0,prevote,A) with a failing write still releases A; after a kill and restart the
    signer knows nothing about it and signs B for the same height/round/step. -/
theorem asFound_equivocates :
    (run asFound init [.sign 1 0 2 [0xA] .fail, .restart, .sign 1 0 2 [0xB] .ok]).2 =
      [(1, 0, 2, [0xA]), (1, 0, 2, [0xB])] ∧
    (run repaired init [.sign 1 0 2 [0xA] .fail, .restart, .sign 1 0 2 [0xB] .ok]).2 =
      [(1, 0, 2, [0xB])] := by decide

/-! ### non-vacuity -/
example : init.mem = init.disk := rfl
example : (run repaired init [.sign 1 0 1 [1] .ok, .sign 1 0 2 [2] .crashAfter, .sign 1 0 2 [2] .ok,
    .sign 1 0 2 [3] .ok, .restart, .sign 1 0 1 [9] .ok, .sign 2 0 1 [4] .crashBefore,
    .sign 2 0 1 [5] .ok]).2 = [(1, 0, 1, [1]), (1, 0, 2, [2]), (2, 0, 1, [5])] := by decide

end AnnVerif.C03
