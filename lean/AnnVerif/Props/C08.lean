/-
  C08 — No peer input can crash or wedge an honest node (consensus message handlers).

  Model: Model/Node.lean (`handleMsg`, `handleTimeout`), Model/VoteSet.lean (`addVote`).
  PROVED, for every node state and every message field value (any Int for heights, rounds,
  indices; any bytes for addresses; any signature-oracle bit):
    X1  a vote rejected by a vote set (duplicate, wrong step, bad index, bad address, bad
        signature) leaves the vote set exactly as it was;
    X2  `setProposal` changes the state ONLY if the proposal is for the node's height and round,
        arrives before the commit step, has a well-formed POL round, is signed by the round's
        proposer, and no proposal is held yet; otherwise the node is exactly as it was;
    X3  block parts for another height, without a part-set header to fill, after completion, or
        with a proof for another block leave the node exactly as it was;
    X4  a vote for a height other than the node's height or the one before, a vote of the previous
        height that is not a precommit arriving in NewHeight, a vote with an invalid type, and a
        timeout for another height / an earlier round / an earlier step leave the node exactly as
        it was;
    X5  a vote that fails signature verification leaves the CORE of the node (height, round, step,
        lock, proposal, block, parts, commit round, queue, emitted timeouts/commits, signer, last
        commit) exactly as it was — for every state, every round number and every peer;
    X6  (repaired) a straggler precommit at height 1, where there is no last commit, is ignored;
        as found it reached AddVote on a nil VoteSet and panicked the consensus routine —
        counter-theorem with witness, replayed on the code.
    X10 over every RUN of the (repaired) state machine - any messages from any peers, the node's
        own queued messages, any timeouts, from a fresh node - an assembled `ProposalBlock` has its
        complete part set and `finalizeCommit` never hands `BlockStore.SaveBlock` an incomplete one
        (Lemmas/Assembled.lean: an inductive invariant through every handler); as found a late
        proposal emptied the part set of an assembled block and the commit panicked -
        counter-theorems (general and on a concrete 4-validator history), witness replayed on the code.
  The model's handlers are total functions; that the real handlers return (no panic) on every
  input of the hostile catalogue, in every step, and that the node still commits afterwards
  ("not wedged") is decided per run by the c08 engine, with zero divergences from the model.
  NOT covered here (named in the manifest): the reactors' byte decoders and PeerState bookkeeping
  (reactor.go), block-sync, mempool and PEX channels.
-/
import AnnVerif.Model.Node
import AnnVerif.Model.BitArr
import AnnVerif.Lemmas.Assembled
import AnnVerif.Lemmas.NodeStart
namespace AnnVerif.C08
open AnnVerif AnnVerif.Node

/-- the outputs of `VoteSet.addVote` that mean "did not pass validation" -/
def Rejected : VoteSet.Out → Prop
  | .dup | .errStep | .errIndex | .errAddr | .errSig => True
  | _ => False

theorem addVerified_not_rejected (cfg : VoteSet.Cfg) (vs : VoteSet.VoteSet) (v : VoteSet.Vote) (i : Nat)
    (key : Bytes) (power : Int) : ¬ Rejected (VoteSet.addVerified cfg vs v i key power).2 := by
  unfold VoteSet.addVerified
  split
  · simp [Rejected]
  · split
    · simp [Rejected]
    · split <;> simp [Rejected]

/-- X1 -/
theorem voteset_rejected_unchanged (cfg : VoteSet.Cfg) (vs : VoteSet.VoteSet) (v : VoteSet.Vote) (sigok : Bool)
    (h : Rejected (VoteSet.addVote cfg vs v sigok).2) : (VoteSet.addVote cfg vs v sigok).1 = vs := by
  unfold VoteSet.addVote at h ⊢
  dsimp only at h ⊢
  by_cases c0 : (!cfg.idxCheck) = true ∧ (v.idx < 0 ∨ v.addr.isEmpty = true)
  · rw [if_pos c0]
  · rw [if_neg c0] at h ⊢
    by_cases c1 : v.idx < 0
    · rw [if_pos c1]
    · rw [if_neg c1] at h ⊢
      by_cases c2 : v.addr.isEmpty = true
      · rw [if_pos c2]
      · rw [if_neg c2] at h ⊢
        by_cases c3 : v.height ≠ vs.height ∨ v.round ≠ vs.round ∨ v.type ≠ vs.type
        · rw [if_pos c3]
        · rw [if_neg c3] at h ⊢
          cases hv : vs.vals[v.idx.toNat]? with
          | none => simp only [hv]
          | some val =>
            simp only [hv] at h ⊢
            by_cases c4 : val.addr ≠ v.addr
            · rw [if_pos c4]
            · rw [if_neg c4] at h ⊢
              cases hg : VoteSet.getVote cfg vs v.idx.toNat (VoteSet.BlockID.key cfg v.bid) with
              | some e => simp only [hg]
              | none =>
                simp only [hg] at h ⊢
                by_cases c5 : (!sigok) = true
                · rw [if_pos c5]
                · rw [if_neg c5] at h ⊢
                  exact absurd h (addVerified_not_rejected _ _ _ _ _ _)

/-- a failing signature never gets a vote added, and never changes the set -/
theorem voteset_bad_signature (cfg : VoteSet.Cfg) (vs : VoteSet.VoteSet) (v : VoteSet.Vote) :
    (VoteSet.addVote cfg vs v false).1 = vs ∧ wasAdded (VoteSet.addVote cfg vs v false).2 = false := by
  unfold VoteSet.addVote
  dsimp only
  by_cases c0 : (!cfg.idxCheck) = true ∧ (v.idx < 0 ∨ v.addr.isEmpty = true)
  · rw [if_pos c0]; exact ⟨rfl, rfl⟩
  · rw [if_neg c0]
    by_cases c1 : v.idx < 0
    · rw [if_pos c1]; exact ⟨rfl, rfl⟩
    · rw [if_neg c1]
      by_cases c2 : v.addr.isEmpty = true
      · rw [if_pos c2]; exact ⟨rfl, rfl⟩
      · rw [if_neg c2]
        by_cases c3 : v.height ≠ vs.height ∨ v.round ≠ vs.round ∨ v.type ≠ vs.type
        · rw [if_pos c3]; exact ⟨rfl, rfl⟩
        · rw [if_neg c3]
          cases hv : vs.vals[v.idx.toNat]? with
          | none => dsimp only; refine ⟨rfl, ?_⟩; split <;> rfl
          | some val =>
            simp only
            by_cases c4 : val.addr ≠ v.addr
            · rw [if_pos c4]; exact ⟨rfl, rfl⟩
            · rw [if_neg c4]
              cases hg : VoteSet.getVote cfg vs v.idx.toNat (VoteSet.BlockID.key cfg v.bid) with
              | some e => dsimp only; refine ⟨rfl, ?_⟩; split <;> rfl
              | none => simp [wasAdded]

/-- X2: what it takes for a proposal to change anything -/
theorem setProposal_changes_only_if_valid (n : Node) (p : Proposal) (signer : Nat) (sigBad : Bool)
    (hne : setProposal n p signer sigBad ≠ n) :
    n.proposal = none ∧ p.height = n.height ∧ p.round = n.round ∧ n.step < Step.commit ∧
    (p.polRound = -1 ∨ (0 ≤ p.polRound ∧ p.polRound < p.round)) ∧ proposalSigOk n signer sigBad = true ∧
    (setProposal n p signer sigBad = { n with proposal := some p, proposalParts := some p.block, partsComplete := false } ∨
     (n.cfg.proposalKeepsParts = true ∧ n.proposalParts.isSome = true ∧
      setProposal n p signer sigBad = { n with proposal := some p })) := by
  unfold setProposal at hne ⊢
  by_cases h0 : n.proposal.isSome = true
  · simp [h0] at hne
  · simp only [h0, if_false] at hne ⊢
    by_cases h1 : p.height ≠ n.height ∨ p.round ≠ n.round
    · simp [h1] at hne
    · simp only [h1, if_false] at hne ⊢
      by_cases h2 : Step.commit ≤ n.step
      · simp [h2] at hne
      · simp only [h2, if_false] at hne ⊢
        by_cases h3 : p.polRound ≠ -1 ∧ (p.polRound < 0 ∨ p.round ≤ p.polRound)
        · simp [h3] at hne
        · simp only [h3, if_false] at hne ⊢
          by_cases h4 : (!proposalSigOk n signer sigBad) = true
          · simp [h4] at hne
          · simp only [h4, if_false]
            have e0 : n.proposal = none := by cases hp : n.proposal <;> simp_all
            have e1 : p.height = n.height ∧ p.round = n.round :=
              ⟨Classical.not_not.mp (fun hh => h1 (Or.inl hh)), Classical.not_not.mp (fun hh => h1 (Or.inr hh))⟩
            have e2 : n.step < Step.commit := Nat.lt_of_not_le h2
            have e3 : p.polRound = -1 ∨ (0 ≤ p.polRound ∧ p.polRound < p.round) := by
              by_cases hp : p.polRound = -1
              · exact Or.inl hp
              · exact Or.inr ⟨Int.not_lt.mp (fun hh => h3 ⟨hp, Or.inl hh⟩), Int.not_le.mp (fun hh => h3 ⟨hp, Or.inr hh⟩)⟩
            refine ⟨e0, e1.1, e1.2, e2, e3, by simpa using h4, ?_⟩
            by_cases h5 : n.cfg.proposalKeepsParts = true ∧ n.proposalParts.isSome = true
            · exact Or.inr ⟨h5.1, h5.2, by simp [h5]⟩
            · exact Or.inl (by simp [h5])

/-- the signature bit is true only for an untampered signature by the validator the node computed
    as proposer of the round -/
theorem proposalSigOk_means (n : Node) (signer : Nat) (sigBad : Bool) (h : proposalSigOk n signer sigBad = true) :
    sigBad = false ∧ ∃ v, n.vals.vals[signer]? = some v ∧ proposerAddr n = some v.addr := by
  unfold proposalSigOk at h
  simp only [Bool.and_eq_true, Bool.not_eq_true'] at h
  obtain ⟨hb, hm⟩ := h
  refine ⟨hb, ?_⟩
  cases hpa : proposerAddr n with
  | none => rw [hpa] at hm; simp at hm
  | some pa =>
    cases hv : n.vals.vals[signer]? with
    | none => rw [hpa, hv] at hm; simp at hm
    | some v =>
      rw [hpa, hv] at hm
      simp only [beq_iff_eq] at hm
      exact ⟨v, rfl, by rw [hm]⟩

/-- X3: when block parts are dropped without effect -/
theorem addParts_ignored (n : Node) (height : Int) (block : Name) (own : Bool)
    (h : n.height ≠ height ∨ n.proposalParts = none ∨ n.partsComplete = true ∨
         (n.proposalParts ≠ some block ∧ (n.cfg.verifyOwnParts = true ∨ own = false))) :
    addParts n height block own = n := by
  unfold addParts
  by_cases c1 : n.height ≠ height
  · rw [if_pos c1]
  · rw [if_neg c1]
    by_cases c2 : n.proposalParts.isNone = true
    · rw [if_pos c2]
    · rw [if_neg c2]
      by_cases c3 : n.partsComplete = true
      · rw [if_pos c3]
      · rw [if_neg c3]
        rcases h with h | h | h | ⟨h, hh⟩
        · exact absurd h c1
        · rw [h] at c2; simp at c2
        · exact absurd h c3
        · have : (n.proposalParts ≠ some block ∧ (n.cfg.verifyOwnParts = true ∨ (!own) = true)) := by
            refine ⟨h, ?_⟩
            rcases hh with hh | hh
            · exact Or.inl hh
            · exact Or.inr (by simp [hh])
          rw [if_pos this]

/-- X4: votes of foreign heights are ignored -/
theorem vote_foreign_height_ignored (n : Node) (v : VoteSet.Vote) (sigok : Bool) (peer : String)
    (h1 : v.height ≠ n.height) (h2 : v.height + 1 ≠ n.height) : addVote n v sigok peer = n := by
  unfold addVote
  simp [h1, h2]

theorem vote_previous_height_ignored (n : Node) (v : VoteSet.Vote) (sigok : Bool) (peer : String)
    (h : v.height + 1 = n.height) (hs : n.step ≠ .newHeight ∨ v.type ≠ 2) : addVote n v sigok peer = n := by
  unfold addVote
  simp only [h, if_true]
  have : (!decide (n.step = Step.newHeight ∧ v.type = 2)) = true := by
    rcases hs with hs | hs <;> simp [hs]
  rw [if_pos this]

theorem vote_invalid_type_ignored (n : Node) (v : VoteSet.Vote) (sigok : Bool) (peer : String)
    (h : v.height = n.height) (ht : v.type ≠ 1 ∧ v.type ≠ 2) : addVote n v sigok peer = n := by
  have hne : ¬ (v.height + 1 = n.height) := by omega
  unfold addVote
  simp only [hne, h, if_false, if_true]
  unfold hvsAddVote
  simp [ht, wasAdded]

theorem timeout_stale_ignored (n : Node) (h r : Int) (s : Step)
    (hst : h ≠ n.height ∨ r < n.round ∨ (r = n.round ∧ s < n.step)) : handleTimeout n h r s = n := by
  unfold handleTimeout
  simp [hst]

/-- the part of the node that decides what it does next and what it has emitted -/
structure Core where
  height : Int
  round : Int
  step : Step
  lockedRound : Int
  lockedBlock : Option Name
  proposal : Option Proposal
  proposalBlock : Option Name
  proposalParts : Option Name
  partsComplete : Bool
  commitRound : Int
  queue : List Msg
  out : List Emit
  signer : Signer.St
  lastCommit : Option VoteSet.VoteSet

def core (n : Node) : Core :=
  ⟨n.height, n.round, n.step, n.lockedRound, n.lockedBlock, n.proposal, n.proposalBlock, n.proposalParts,
   n.partsComplete, n.commitRound, n.queue, n.out, n.signer, n.lastCommit⟩

theorem hvsAddVote_bad_signature (n : Node) (v : VoteSet.Vote) (peer : String) :
    core (hvsAddVote n v false peer).1 = core n ∧ wasAdded (hvsAddVote n v false peer).2 = false := by
  unfold hvsAddVote
  split
  · exact ⟨rfl, rfl⟩
  · simp only
    split
    · -- the round exists
      simp only [Bool.not_true, Bool.false_eq_true, if_false]
      split
      · exact ⟨rfl, rfl⟩
      · rename_i rv _
        have hb := voteset_bad_signature VoteSet.repaired (if v.type = 1 then rv.prevotes else rv.precommits) v
        exact ⟨rfl, hb.2⟩
    · split
      · simp only [Bool.not_true, Bool.false_eq_true, if_false]
        split
        · exact ⟨rfl, rfl⟩
        · rename_i rv _
          have hb := voteset_bad_signature VoteSet.repaired (if v.type = 1 then rv.prevotes else rv.precommits) v
          exact ⟨rfl, hb.2⟩
      · exact ⟨rfl, rfl⟩

/-- X5: a vote whose signature does not verify leaves the core of the node as it was -/
theorem vote_bad_signature_core_unchanged (n : Node) (v : VoteSet.Vote) (peer : String)
    (hc : n.cfg.guardNilLastCommit = true) :
    core (addVote n v false peer) = core n := by
  unfold addVote
  by_cases h1 : v.height + 1 = n.height
  · simp only [h1, if_true]
    split
    · rfl
    · cases hl : n.lastCommit with
      | none => simp [hc]
      | some lc =>
        simp only
        have hb := voteset_bad_signature VoteSet.repaired lc v
        rw [show (VoteSet.addVote VoteSet.repaired lc v false) =
              ((VoteSet.addVote VoteSet.repaired lc v false).1, (VoteSet.addVote VoteSet.repaired lc v false).2) from rfl]
        simp only [hb.1, hb.2, Bool.false_eq_true, false_and, if_false]
        simp [core, hl]
  · simp only [h1, if_false]
    by_cases h2 : v.height = n.height
    · simp only [h2, if_true]
      have hb := hvsAddVote_bad_signature n v peer
      rw [show hvsAddVote n v false peer = ((hvsAddVote n v false peer).1, (hvsAddVote n v false peer).2) from rfl]
      simp only [hb.2, Bool.not_false, if_true]
      exact hb.1
    · simp [h2]

/-! ### X6: the nil last commit -/

def v4 : ValSet.ValSet := ValSet.newValSet ValSet.repaired
  [⟨[1], 1, 0⟩, ⟨[2], 1, 0⟩, ⟨[3], 1, 0⟩, ⟨[4], 1, 0⟩]

/-- a precommit for height 0 from validator 0 -/
def straggler0 : VoteSet.Vote := ⟨0, [1], 0, 0, 2, ⟨[], 0, []⟩, 0⟩

def hasPanic (n : Node) : Bool := n.out.any fun e => match e with | .panic _ => true | _ => false

theorem asFound_straggler_at_height_one_panics :
    hasPanic (handleMsg (Node.init asFound 1 v4 (some 1) false) (.vote straggler0 true) "p") = true := by decide

theorem repaired_straggler_at_height_one_ignored (n : Node) (v : VoteSet.Vote) (sigok : Bool) (peer : String)
    (hc : n.cfg.guardNilLastCommit = true) (hl : n.lastCommit = none) (h : v.height + 1 = n.height) :
    addVote n v sigok peer = n := by
  unfold addVote
  simp only [h, if_true]
  split
  · rfl
  · simp [hl, hc]

example : (Node.init repaired 1 v4 (some 1) false).cfg.guardNilLastCommit = true ∧
          (Node.init repaired 1 v4 (some 1) false).lastCommit = none := by decide

/-! ### X10: an assembled block keeps its parts (the late proposal) -/

/-- X10 (repaired), over every run: from a fresh node, after ANY sequence of peer messages (any
    peers, any fields), own queued messages and timeouts, an assembled `ProposalBlock` still has its
    complete part set, and `finalizeCommit` has never handed an incomplete part set to
    `BlockStore.SaveBlock` (which panics on one, on the consensus routine). -/
theorem run_never_saves_incomplete_part_set (height : Int) (vals : ValSet.ValSet) (me : Option Nat) (skip : Bool)
    (tab : List (Name × Int × Bool)) (ins : List In) :
    let n := ins.foldl stepIn (Node.start repaired height vals me skip tab)
    savePanic ∉ n.out ∧ ∀ b, n.proposalBlock = some b → n.partsComplete = true ∧ n.proposalParts = some b := by
  have g := run_good ins _ (start_good height vals me skip tab)
  exact ⟨g.nsp, g.asm⟩

/-- the invariant is inductive from ANY state that satisfies it, not only from a fresh node -/
theorem step_keeps_assembled (n : Node) (i : In) (g : Good n) : Good (stepIn n i) := good_stepIn n i g

/-- X10 (as found): a proposal that `defaultSetProposal` accepts while the block of that very part
    set is already assembled leaves the block in place and empties its part set. -/
theorem asFound_late_proposal_discards_parts (n : Node) (p : Proposal) (signer : Nat) (b : Name)
    (hc : n.cfg.proposalKeepsParts = false) (hb : n.proposalBlock = some b)
    (h0 : n.proposal = none) (h1 : p.height = n.height ∧ p.round = n.round) (h2 : n.step < Step.commit)
    (h3 : p.polRound = -1) (h4 : proposalSigOk n signer false = true) :
    (setProposal n p signer false).proposalBlock = some b ∧
    (setProposal n p signer false).partsComplete = false := by
  unfold setProposal
  have e2 : ¬ Step.commit ≤ n.step := Nat.not_le_of_lt h2
  simp [h0, h1.1, h1.2, e2, h3, h4, hc, hb]

/-- … and the commit of that block then reaches `SaveBlock` with the incomplete part set. -/
theorem incomplete_part_set_panics (n : Node) (h : Int) (bid : VoteSet.BlockID) (b : Name)
    (hh : n.height = h) (hs : n.step = .commit) (hm : maj23 (precommits n n.commitRound) = some bid)
    (hb : n.proposalBlock = some b) (hp : n.proposalParts = some (nameOf bid)) (he : b = nameOf bid)
    (hv : isValid n b = true) (hc : n.partsComplete = false) :
    savePanic ∈ (finalizeCommit n h).out := by
  unfold finalizeCommit
  subst he
  simp [hh, hs, hm, hb, hp, hc, hv, emit, savePanic]

/-- the whole history on a concrete node (an observer of 4 validators): +2/3 prevotes for block "b"
    before any proposal, its parts, the proposal (from the round's proposer, validator 0), then
    +2/3 precommits -/
def lateProposal (cfg : Cfg) : Node :=
  let n := Node.init cfg 1 v4 none false
  let n := { n with validTab := [([0x62], 1, true)] }
  let n := handleTimeout n 1 0 .newHeight
  let n := handleMsg n (.vote ⟨0, [1], 1, 0, 1, bidOf [0x62], 1⟩ true) "p0"
  let n := handleMsg n (.vote ⟨1, [2], 1, 0, 1, bidOf [0x62], 2⟩ true) "p1"
  let n := handleMsg n (.vote ⟨2, [3], 1, 0, 1, bidOf [0x62], 3⟩ true) "p2"
  let n := handleMsg n (.parts 1 0 [0x62]) "p0"
  let n := handleMsg n (.proposal ⟨1, 0, [0x62], -1, []⟩ 0 false) "p0"
  let n := handleMsg n (.vote ⟨0, [1], 1, 0, 2, bidOf [0x62], 4⟩ true) "p0"
  let n := handleMsg n (.vote ⟨1, [2], 1, 0, 2, bidOf [0x62], 5⟩ true) "p1"
  handleMsg n (.vote ⟨2, [3], 1, 0, 2, bidOf [0x62], 6⟩ true) "p2"

theorem asFound_late_proposal_panics : savePanic ∈ (lateProposal { repaired with proposalKeepsParts := false }).out := by
  decide

theorem repaired_late_proposal_commits :
    (lateProposal repaired).out.contains (.commit 1 [0x62]) = true ∧ hasPanic (lateProposal repaired) = false := by
  decide

/-! ### X9: bit arrays as a peer sends them (Model/BitArr.lean)

  The consensus reactor stores the bit arrays of CommitStep / ProposalPOL / VoteSetBits messages in
  the peer state and its gossip goroutines - which nothing recovers - apply GetIndex, Sub, and/Not
  and PickRandom to them. For arrays of the shape `NewBitArray` makes (what the repaired reactor
  accepts) none of these can panic; for arrays as the decoder can produce them, each can. -/
section BitArrays
open AnnVerif.BitArr

theorem getIndex_safe (a : BA) (h : a.wf) (i : Nat) : getIndexPanics a i = false := by
  obtain ⟨h1, h2⟩ := h
  unfold getIndexPanics
  by_cases hi : (i : Int) < a.bits
  · have : ¬ (a.elems ≤ i / 64) := by omega
    simp [hi, this]
  · simp [hi]

theorem pickRandom_safe (a : BA) (h : a.wf) : pickRandomPanics a = false := by
  obtain ⟨h1, _⟩ := h
  unfold pickRandomPanics
  have : ¬ (Int.tmod a.bits 64 < 0) := by
    have := Int.tmod_nonneg 64 (Int.le_of_lt h1)
    omega
  simp [this]

theorem and_safe (a o : BA) (ha : a.wf) (ho : o.wf) : andPanics a o = false := by
  obtain ⟨a1, a2⟩ := ha
  obtain ⟨o1, o2⟩ := ho
  unfold andPanics
  have hmin : 0 < min a.bits o.bits := by omega
  have hdiv : Int.tdiv (min a.bits o.bits + 63) 64 = (min a.bits o.bits + 63) / 64 :=
    Int.tdiv_eq_ediv_of_nonneg (by omega)
  simp only [hdiv]
  have h1 : ¬ ((min a.bits o.bits + 63) / 64 < 0) := by omega
  have h2 : ¬ ((o.elems : Int) < (min a.bits o.bits + 63) / 64) := by omega
  simp [h1, h2]

theorem sub_safe (a o : BA) (ha : a.wf) (ho : o.wf) : subPanics a o = false := by
  unfold subPanics
  split
  · rename_i hgt
    obtain ⟨a1, a2⟩ := ha
    obtain ⟨o1, o2⟩ := ho
    have h1 : ¬ (o.elems ≥ a.elems + 2) := by omega
    have h2 : ¬ ((o.bits - 1) / 64 ≥ ((min a.elems o.elems : Nat) : Int)) := by
      have : (min a.elems o.elems : Nat) = o.elems := by
        apply Nat.min_eq_right; omega
      rw [this]; omega
    simp [h1, h2]
  · exact and_safe a o ha ho

/-- as received (as found nothing checked them): each operation of the gossip routines can panic -/
theorem malformed_bitarrays_panic :
    pickRandomPanics ⟨-45, 1⟩ = true ∧ andPanics ⟨1, 1⟩ ⟨5, 0⟩ = true ∧
    subPanics ⟨1000, 16⟩ ⟨500, 1⟩ = true ∧ getIndexPanics ⟨100000, 1⟩ 64 = true := by decide

example : (⟨130, 3⟩ : BA).wf ∧ ¬ (⟨-45, 1⟩ : BA).wf ∧ ¬ (⟨5, 0⟩ : BA).wf := by decide

end BitArrays

end AnnVerif.C08
