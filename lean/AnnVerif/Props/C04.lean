/-
  C04 — Locking discipline: votes follow the proof-of-lock rules.

  Model: Model/Node.lean. The theorems below are TRANSITION-LOCAL: each one characterises, for
  EVERY node state and every argument, what one of the transition functions of state.go can emit
  or change. Together they are the decision logic of the locking rules stated outright:

    L1  a non-nil precommit is queued only by `enterPrecommit`, only for the block that has +2/3
        prevotes in the node's own prevote set of that round (with C15.majority_sound: it received
        validly signed prevotes of distinct validators holding > 2/3);
    L2  while a block is locked, `doPrevote` prevotes exactly that block; the lock is released only
        by `unlock`, which is reached only (a) in `enterPrecommit` on a +2/3 prevote majority for
        nil or for another block in that round, (b) in `addVote` on a +2/3 prevote majority for
        another block in a round in (lockedRound, round], (c) by the commit of the height;
    L3  when it is proposer and locked, `decideProposal` proposes the locked block;
    L4  `finalizeCommit` emits a commit only for the block with +2/3 precommits in ONE round
        (commitRound), and only if the block is valid;
    L5  a non-nil prevote is for the locked block or for a block that passed validation.

  Over every RUN from a fresh node `Node.start` - any validity oracle (which blocks ValidateBlock
  accepts is an input of the model), the NewHeight timeout a started node has scheduled - under
  any sequence of peer messages from any peers, own queued messages, peer +2/3 claims and timeouts (
  Lemmas/NodeMono.lean, Lemmas/Assembled.lean - inductive invariants through every handler):
    L6  the node never goes back: (height, round, step) only grows lexicographically; every own
        vote is signed for the height and round the node is in (`signAddVote`), so the votes of a
        run are in non-decreasing (height, round) order - a lock taken in round r is never followed
        by a vote of an earlier round;
    L7  a commit is emitted only with the block's complete part set (C08.X10);
    L8  L1 lifted to the history (Lemmas/NodeJust.lean): `signed` is the list of all votes the node
        has ever signed (a ghost field, appended by `signAddVote`, read by nothing); every precommit
        for a block in it, signed at the node's current height, names a block for which the node's
        prevote set of that round reports +2/3, in every state of every run from a fresh node, for every vote set content peers can produce - for every run whose timeouts are
        ones the node scheduled (`Scheduled`: the ticker relays nothing else). That such a run
        never fires a timeout for a round the node has not entered is itself proved
        (Lemmas/NodeSched.lean: every scheduled timeout is for a round the node has entered).

    L9  proof of lock, over every run (Lemmas/NodeLock.lean): whenever the node holds a lock, its
        prevote set of `lockedRound` reports +2/3 for the locked block - a lock is taken or renewed
        only on that majority, and with L2 (`doPrevote` prevotes the locked block) every prevote
        cast under a lock is for a block that had a polka in the lock's round.
    L10 the locking rule over the node's history (Lemmas/NodeA3.lean), the statement of C04's first
        sentence: if the node has signed a precommit for block b in round r and LATER signs a
        prevote for something else in a round r' > r of that height, then its own prevote sets
        report +2/3 for something other than b in a round r'' with r < r'' ≤ r' - in every state
        of every run from a fresh node whose timeouts are scheduled ones. (`signed` is in signing
        order, so "later" is a position in it; the polka is in the node's vote sets from the
        moment of signing on.)  This is assumption A3 of the timed agreement theorem (C01).
    L11 no equivocation in a run (same invariant): no two votes of the signing history share
        height, round and type - the node signs a prevote only before it stands in Prevote of that
        round and a precommit only before Precommit, and never for a round it has left. (Across
        crashes this is the signer's job: C03.)  This is assumption A1.
  PARTIAL (named): L3 (the proposer proposes its locked block) is transition-local only; runs that
  contain a crash and a WAL replay are covered by C07's replay theorems plus the c07 engine, not by
  these run invariants (the ghost history does not survive `Wal.restart`).
-/
import AnnVerif.Model.Node
import AnnVerif.Lemmas.NodeMono
import AnnVerif.Lemmas.NodeJust
import AnnVerif.Lemmas.NodeSched
import AnnVerif.Lemmas.NodeLock
import AnnVerif.Lemmas.NodeA3
import AnnVerif.Lemmas.NodeStart
namespace AnnVerif.C04
open AnnVerif AnnVerif.Node

/-- what `signAddVote` can do to the queue: nothing, or append exactly one own vote of the given
    type and block for the CURRENT height and round -/
theorem signAddVote_queue (n : Node) (t : Nat) (bid : VoteSet.BlockID) :
    (signAddVote n t bid).queue = n.queue ∨
    ∃ i a, (signAddVote n t bid).queue = n.queue ++ [.vote ⟨i, a, n.height, n.round, t, bid, 0⟩ true] := by
  unfold signAddVote
  split
  · simp only
    split
    · exact Or.inr ⟨_, _, rfl⟩
    · exact Or.inl rfl
  · exact Or.inl rfl

theorem signAddVote_lock (n : Node) (t : Nat) (bid : VoteSet.BlockID) :
    (signAddVote n t bid).lockedBlock = n.lockedBlock ∧ (signAddVote n t bid).lockedRound = n.lockedRound := by
  unfold signAddVote
  split
  · simp only; split <;> exact ⟨rfl, rfl⟩
  · exact ⟨rfl, rfl⟩

/-- the messages a transition appended to the internal queue -/
def Appended (n n' : Node) (extra : List Msg) : Prop := n'.queue = n.queue ++ extra

/-- L1: everything `enterPrecommit` queues is a precommit that is either nil or for the block that
    holds the +2/3 prevote majority of round `r` in the node's own vote set. -/
theorem enterPrecommit_emits (n : Node) (h r : Int) :
    ∃ extra, Appended n (enterPrecommit n h r) extra ∧
      ∀ m ∈ extra, ∃ v, m = .vote v true ∧ v.type = 2 ∧ v.height = n.height ∧
        (v.bid = bidOf [] ∨ maj23 (prevotes n r) = some v.bid) := by
  unfold enterPrecommit
  have key : ∀ (n0 : Node) (bid : VoteSet.BlockID), n0.queue = n.queue → n0.height = n.height →
      (bid = bidOf [] ∨ maj23 (prevotes n r) = some bid) →
      ∃ extra, Appended n ({ signAddVote n0 2 bid with round := r, step := Step.precommit }) extra ∧
        ∀ m ∈ extra, ∃ v, m = .vote v true ∧ v.type = 2 ∧ v.height = n.height ∧
          (v.bid = bidOf [] ∨ maj23 (prevotes n r) = some v.bid) := by
    intro n0 bid hq hh hb
    rcases signAddVote_queue n0 2 bid with e | ⟨i, a, e⟩
    · exact ⟨[], by simp [Appended, e, hq], by simp⟩
    · refine ⟨[.vote ⟨i, a, n0.height, n0.round, 2, bid, 0⟩ true], by simp [Appended, e, hq], ?_⟩
      intro m hm
      simp at hm; subst hm
      exact ⟨_, rfl, rfl, hh, hb⟩
  split
  · exact ⟨[], by simp [Appended], by simp⟩
  · simp only
    split
    · exact key n _ rfl rfl (Or.inl rfl)
    · rename_i blockID hmaj
      split
      · exact ⟨[], by simp [Appended, emit], by simp⟩
      · split
        · split
          · exact key _ _ rfl rfl (Or.inl rfl)
          · exact key _ _ rfl rfl (Or.inl rfl)
        · split
          · exact key _ _ rfl rfl (Or.inr hmaj)
          · split
            · split
              · exact ⟨[], by simp [Appended, emit], by simp⟩
              · exact key _ _ rfl rfl (Or.inr hmaj)
            · split
              · exact key _ _ (by simp [unlock]) (by simp [unlock]) (Or.inl rfl)
              · exact key _ _ (by simp [unlock]) (by simp [unlock]) (Or.inl rfl)

/-- L2 / L5: what `doPrevote` queues: the locked block if there is a lock; otherwise nil or a block
    that passed validation. -/
theorem doPrevote_emits (n : Node) :
    ∃ extra, Appended n (doPrevote n) extra ∧
      ∀ m ∈ extra, ∃ v, m = .vote v true ∧ v.type = 1 ∧
        (match n.lockedBlock with
         | some b => v.bid = bidOf b
         | none => v.bid = bidOf [] ∨ ∃ b, n.proposalBlock = some b ∧ isValid n b = true ∧ v.bid = bidOf b) := by
  have key : ∀ (bid : VoteSet.BlockID) (P : VoteSet.BlockID → Prop), P bid →
      ∃ extra, Appended n (signAddVote n 1 bid) extra ∧
        ∀ m ∈ extra, ∃ v, m = .vote v true ∧ v.type = 1 ∧ P v.bid := by
    intro bid P hp
    rcases signAddVote_queue n 1 bid with e | ⟨i, a, e⟩
    · exact ⟨[], by simp [Appended, e], by simp⟩
    · refine ⟨[.vote ⟨i, a, n.height, n.round, 1, bid, 0⟩ true], by simp [Appended, e], ?_⟩
      intro m hm; simp at hm; subst hm; exact ⟨_, rfl, rfl, hp⟩
  unfold doPrevote
  cases hl : n.lockedBlock with
  | some b => simp only; exact key (bidOf b) (fun x => x = bidOf b) rfl
  | none =>
    simp only
    cases hp : n.proposalBlock with
    | none =>
      simp only
      exact key (bidOf []) (fun x => x = bidOf [] ∨ ∃ b, (none : Option Name) = some b ∧ isValid n b = true ∧ x = bidOf b) (Or.inl rfl)
    | some b =>
      simp only
      by_cases hv : isValid n b = true
      · simp only [hv, if_true]
        exact key (bidOf b) (fun x => x = bidOf [] ∨ ∃ b', some b = some b' ∧ isValid n b' = true ∧ x = bidOf b')
          (Or.inr ⟨b, rfl, hv, rfl⟩)
      · simp only [hv, Bool.false_eq_true, if_false]
        exact key (bidOf []) (fun x => x = bidOf [] ∨ ∃ b', some b = some b' ∧ isValid n b' = true ∧ x = bidOf b')
          (Or.inl rfl)

/-- L2: `enterPrecommit` keeps the lock unless the round's +2/3 prevote majority is for nil or for
    a block other than the locked one. -/
theorem enterPrecommit_keeps_lock (n : Node) (h r : Int) (b : Name) (hl : n.lockedBlock = some b)
    (hkeep : ∀ bid, maj23 (prevotes n r) = some bid → hashesTo (some b) bid.hash = true) :
    (enterPrecommit n h r).lockedBlock = some b := by
  unfold enterPrecommit
  split
  · exact hl
  · simp only
    split
    · simp [(signAddVote_lock n 2 _).1, hl]
    · rename_i blockID hmaj
      have hk := hkeep blockID hmaj
      have hne : blockID.hash.isEmpty = false := by
        unfold hashesTo at hk; simp at hk; simpa using hk.1
      split
      · simp [emit, hl]
      · simp only [hne, Bool.false_eq_true, if_false]
        rw [hl]
        simp only [hk, if_true]
        simp [(signAddVote_lock _ 2 _).1, hl]

/-- L3: a locked proposer proposes its locked block. -/
theorem decideProposal_proposes_locked (n : Node) (h r : Int) (b : Name) (hl : n.lockedBlock = some b) :
    ∀ m ∈ (decideProposal n h r).queue, m ∉ n.queue →
      (∃ p s bad, m = .proposal p s bad ∧ p.block = b) ∨ (∃ hh rr, m = .parts hh rr b) := by
  unfold decideProposal
  rw [hl]
  simp only
  split
  · split
    · intro m hm hnot
      simp only [List.mem_append, List.mem_cons, List.mem_nil_iff, or_false] at hm
      rcases hm with hm | hm | hm
      · exact absurd hm hnot
      · exact Or.inl ⟨_, _, _, hm, rfl⟩
      · exact Or.inr ⟨_, _, hm⟩
    · intro m hm hnot; exact absurd hm hnot
  · intro m hm hnot; exact absurd hm hnot

/-- L4: a commit is emitted only for the block holding the +2/3 precommit majority of ONE round
    (the commit round), and only if that block is valid. -/
theorem finalizeCommit_emits (n : Node) (h : Int) (b : Name)
    (hc : Emit.commit h b ∈ (finalizeCommit n h).out) (hnew : Emit.commit h b ∉ n.out) :
    ∃ bid, maj23 (precommits n n.commitRound) = some bid ∧ nameOf bid = b ∧ isValid n b = true ∧
      n.proposalBlock = some b ∧ n.partsComplete = true := by
  unfold finalizeCommit at hc
  split at hc
  · exact absurd hc hnew
  · split at hc
    · rename_i bid pb hm hp
      split at hc
      · simp [emit] at hc; exact absurd hc hnew
      · split at hc
        · simp [emit] at hc; exact absurd hc hnew
        · split at hc
          · simp [emit] at hc; exact absurd hc hnew
          · split at hc
            · simp [emit] at hc; exact absurd hc hnew
            · rename_i h1 h2 h3 h4
              simp [emit] at hc
              rcases hc with hc | hc
              · exact absurd hc hnew
              · subst hc
                refine ⟨bid, hm, ?_, by simpa using h3, hp, by simpa using h4⟩
                exact (Classical.not_not.mp h2).symm
    · simp [emit] at hc; exact absurd hc hnew

/-! ### non-vacuity: a concrete round in which the rules fire -/

def v4 : ValSet.ValSet := ValSet.newValSet ValSet.repaired
  [⟨[1], 1, 0⟩, ⟨[2], 1, 0⟩, ⟨[3], 1, 0⟩, ⟨[4], 1, 0⟩]

/-- node 1 of 4 (not the proposer of round 0) receives a proposal for block "b", the parts, two
    more prevotes for it (with its own: a polka), and then precommits it and holds the lock -/
def demo : Node :=
  let n := Node.init repaired 1 v4 (some 1) false
  let n := { n with validTab := [([0x62], 1, true)] }
  let n := handleTimeout n 1 0 .newHeight
  let n := handleMsg n (.proposal ⟨1, 0, [0x62], -1, []⟩ 0 false) "p"
  let n := handleMsg n (.parts 1 0 [0x62]) "p"
  let drain (n : Node) : Node := match n.queue with
    | m :: rest => handleMsg { n with queue := rest } m ""
    | [] => n
  let n := drain n
  let n := handleMsg n (.vote ⟨0, [1], 1, 0, 1, bidOf [0x62], 1⟩ true) "p0"
  let n := handleMsg n (.vote ⟨2, [3], 1, 0, 1, bidOf [0x62], 2⟩ true) "p2"
  drain n

example : demo.lockedBlock = some [0x62] ∧ demo.lockedRound = 0 ∧ demo.step = .precommit := by decide

/-! ### L6/L7: over every run -/

/-- L6: after ANY sequence of inputs the node stands at a (height, round, step) at least as far as
    where it started - nothing a peer sends and no timeout takes it back. -/
theorem run_never_goes_back (n : Node) (ins : List In) : Le n (ins.foldl stepIn n) := le_run ins n

/-- one input: spelled out -/
theorem step_never_goes_back (n : Node) (i : In) :
    n.height < (stepIn n i).height ∨
    (n.height = (stepIn n i).height ∧
      (n.round < (stepIn n i).round ∨
       (n.round = (stepIn n i).round ∧ n.step.toNat ≤ (stepIn n i).step.toNat))) := le_stepIn n i

/-- own votes carry the node's current height and round -/
theorem own_vote_is_for_current_round (n : Node) (t : Nat) (bid : VoteSet.BlockID) :
    ∀ m ∈ (signAddVote n t bid).queue, m ∈ n.queue ∨
      ∃ i a, m = .vote ⟨i, a, n.height, n.round, t, bid, 0⟩ true := by
  intro m hm
  unfold signAddVote at hm
  split at hm
  · dsimp only at hm
    split at hm
    · simp only [List.mem_append, List.mem_singleton] at hm
      rcases hm with hm | hm
      · exact Or.inl hm
      · exact Or.inr ⟨_, _, hm⟩
    · exact Or.inl hm
  · exact Or.inl hm

/-- L7: in a run from a fresh (repaired) node a commit is only ever emitted by `finalizeCommit`
    holding the complete part set of the block: the save panic is never emitted. -/
theorem run_commits_complete_blocks (height : Int) (vals : ValSet.ValSet) (me : Option Nat) (skip : Bool)
    (tab : List (Name × Int × Bool)) (ins : List In) : savePanic ∉ (ins.foldl stepIn (Node.start repaired height vals me skip tab)).out :=
  (run_good ins _ (start_good height vals me skip tab)).nsp

example : Le (Node.init repaired 1 v4 (some 1) false) demo ∧ demo.step = .precommit := by
  refine ⟨?_, by decide⟩
  unfold Le; decide

/-! ### L8: no precommit without a polka, over every run -/

/-- in every state of every run (timeouts only for rounds the node has entered) every own
    precommit for a block that waits in the node's queue, signed at the node's height, names the
    block that has +2/3 prevotes in the node's prevote set of the vote's round -/
theorem run_no_precommit_without_polka (cfg : Cfg) (height : Int) (vals : ValSet.ValSet) (me : Option Nat)
    (skip : Bool) (tab : List (Name × Int × Bool)) (ins : List In) (hok : RunOK (Node.start cfg height vals me skip tab) ins)
    (v : VoteSet.Vote)
    (hq : v ∈ (ins.foldl stepIn (Node.start cfg height vals me skip tab)).signed)
    (ht : v.type = 2) (hh : v.height = (ins.foldl stepIn (Node.start cfg height vals me skip tab)).height)
    (hb : v.bid.hash.isEmpty = false) :
    maj23 (prevotes (ins.foldl stepIn (Node.start cfg height vals me skip tab)) v.round) = some v.bid :=
  (run_qj ins _ (start_qj cfg height vals me skip tab) hok _ hq).2 ht hh hb

/-- L8 for the runs that happen: every timeout that fires is one the node scheduled -/
theorem run_no_precommit_without_polka_scheduled (cfg : Cfg) (height : Int) (vals : ValSet.ValSet) (me : Option Nat)
    (skip : Bool) (tab : List (Name × Int × Bool)) (ins : List In) (hs : Scheduled (Node.start cfg height vals me skip tab) ins)
    (v : VoteSet.Vote)
    (hq : v ∈ (ins.foldl stepIn (Node.start cfg height vals me skip tab)).signed)
    (ht : v.type = 2) (hh : v.height = (ins.foldl stepIn (Node.start cfg height vals me skip tab)).height)
    (hb : v.bid.hash.isEmpty = false) :
    maj23 (prevotes (ins.foldl stepIn (Node.start cfg height vals me skip tab)) v.round) = some v.bid :=
  run_no_precommit_without_polka cfg height vals me skip tab ins
    (runOK_of_scheduled ins _ (start_sched cfg height vals me skip tab) hs) v hq ht hh hb

/-- every timeout a node has scheduled, in any run, is for a round it has entered -/
theorem scheduled_timeouts_not_ahead (cfg : Cfg) (height : Int) (vals : ValSet.ValSet) (me : Option Nat)
    (skip : Bool) (tab : List (Name × Int × Bool)) (ins : List In) (h r : Int) (s : Step)
    (he : Emit.timeout h r s ∈ (ins.foldl stepIn (Node.start cfg height vals me skip tab)).out) :
    NotAhead (ins.foldl stepIn (Node.start cfg height vals me skip tab)) h r :=
  sched_run ins _ (start_sched cfg height vals me skip tab) _ he

/-- the invariant is inductive from any state that satisfies it -/
theorem step_keeps_precommits_justified (n : Node) (i : In) (q : QJ n) (hw : WellTimed n i) : QJ (stepIn n i) :=
  qj_stepIn n i q hw

/-- non-vacuity: `demo` has signed a prevote and a precommit for "b", and the polka is in its
    prevote set of round 0 -/
example : demo.signed.map (fun v => (v.type, v.round, v.bid.hash)) = [(1, 0, [0x62]), (2, 0, [0x62])] ∧
    maj23 (prevotes demo 0) = some (bidOf [0x62]) := by decide

/-! ### L9: proof of lock, over every run -/

theorem run_lock_backed_by_polka (cfg : Cfg) (height : Int) (vals : ValSet.ValSet) (me : Option Nat) (skip : Bool)
    (tab : List (Name × Int × Bool)) (ins : List In) (b : Name)
    (hl : (ins.foldl stepIn (Node.start cfg height vals me skip tab)).lockedBlock = some b) :
    ∃ bid, maj23 (prevotes (ins.foldl stepIn (Node.start cfg height vals me skip tab))
        (ins.foldl stepIn (Node.start cfg height vals me skip tab)).lockedRound) = some bid ∧ bid.hash = b :=
  lj_run ins _ (start_lj cfg height vals me skip tab) b hl

/-- inductive from any state that satisfies it -/
theorem step_keeps_lock_backed (n : Node) (i : In) (l : LJ n) : LJ (stepIn n i) := lj_stepIn n i l

example : LJ demo ∧ demo.lockedBlock = some [0x62] := by
  refine ⟨?_, by decide⟩
  intro b hb
  exact ⟨bidOf [0x62], by decide, by have : demo.lockedBlock = some [0x62] := by decide
                                     rw [this] at hb; cases hb; rfl⟩

/-! ### L10: the locking rule over the node's history -/

theorem run_lock_rule (cfg : Cfg) (height : Int) (vals : ValSet.ValSet) (me : Option Nat) (skip : Bool)
    (tab : List (Name × Int × Bool)) (ins : List In) (hs : Scheduled (Node.start cfg height vals me skip tab) ins) :
    A3Inv (ins.foldl stepIn (Node.start cfg height vals me skip tab)) :=
  a3_run ins _ (start_a3 cfg height vals me skip tab)
    (runOK_of_scheduled ins _ (start_sched cfg height vals me skip tab) hs)

/-- what `A3Inv` says about two votes of the history, spelled out -/
theorem lock_rule_spelled_out (n : Node) (inv : A3Inv n) (i j : Nat) (hij : i < j) (hj : j < n.signed.length)
    (h1 : (n.signed[i]'(by omega)).type = 2) (h2 : (n.signed[i]'(by omega)).bid.hash.isEmpty = false)
    (h3 : (n.signed[i]'(by omega)).height = n.height)
    (h4 : (n.signed[j]).type = 1) (h5 : (n.signed[j]).height = n.height)
    (h6 : (n.signed[i]'(by omega)).round < (n.signed[j]).round)
    (h7 : (n.signed[j]).bid.hash ≠ (n.signed[i]'(by omega)).bid.hash) :
    ∃ r'' bid'', (n.signed[i]'(by omega)).round < r'' ∧ r'' ≤ (n.signed[j]).round ∧
      maj23 (prevotes n r'') = some bid'' ∧ bid''.hash ≠ (n.signed[i]'(by omega)).bid.hash :=
  inv.g3 i j hij hj ⟨h1, h2, h3⟩ h4 h5 h6 h7

/-- L11: no two signed votes share height, round and type -/
theorem run_signs_once_per_round (cfg : Cfg) (height : Int) (vals : ValSet.ValSet) (me : Option Nat) (skip : Bool)
    (tab : List (Name × Int × Bool)) (ins : List In) (hs : Scheduled (Node.start cfg height vals me skip tab) ins)
    (i j : Nat) (hij : i < j) (hj : j < (ins.foldl stepIn (Node.start cfg height vals me skip tab)).signed.length) :
    ¬ (((ins.foldl stepIn (Node.start cfg height vals me skip tab)).signed[i]'(by omega)).height =
          ((ins.foldl stepIn (Node.start cfg height vals me skip tab)).signed[j]).height ∧
       ((ins.foldl stepIn (Node.start cfg height vals me skip tab)).signed[i]'(by omega)).round =
          ((ins.foldl stepIn (Node.start cfg height vals me skip tab)).signed[j]).round ∧
       ((ins.foldl stepIn (Node.start cfg height vals me skip tab)).signed[i]'(by omega)).type =
          ((ins.foldl stepIn (Node.start cfg height vals me skip tab)).signed[j]).type) :=
  (run_lock_rule cfg height vals me skip tab ins hs).uniq i j hij hj

/-- inductive from any state that satisfies the invariant -/
theorem step_keeps_lock_rule (n : Node) (inp : In) (i : A3Inv n) (hw : WellTimed n inp) : A3Inv (stepIn n inp) :=
  a3_stepIn n inp i hw

end AnnVerif.C04
