/-
  C19 — Transaction pool: per-account nonce order, no duplicates, no loss, bounded.

  Model: Model/Pool.lean (tx_pool.go CheckAndAdd / addWaiting / promoteExecutables /
  demoteUnexecutables / Update + updateToState / Reap / Flush, tx_sort.go Add / Forward / ReadyN /
  TryReplace). PROVED for EVERY sequence of submissions (any account, any nonce: gaps, repeats, stale),
  admin requests, commits of ANY transaction ids with ANY resulting account nonces, and flushes:
    Q1  in every reachable state each account's pending and waiting queue is strictly ascending in
        the nonce: the pool never holds — so never offers — two transactions with the same account
        and nonce, and what it offers per account is in nonce order;
    Q2  the pending and the waiting queue never exceed their limits;
    Q3  an exact duplicate, a stale nonce and a nonce that is already pending are refused, and a
        refused submission leaves the pool exactly as it was;
    Q4  after a commit none of the transactions the block contained is queued (hence none is
        offered again), whatever the block did to the nonces — as found an included-but-invalid
        transaction stayed pending (counter-theorem, replayed on the code).
    Q5  in every reachable state what is offered per account is CONSECUTIVE from the account's
        current nonce (Lemmas/PoolConsec.lean: `PCons` through every operation; the commit
        re-establishes it from scratch, whatever the block contained and whatever nonces it left
        behind) — as found `demoteUnexecutables` looked for a gap in front of a pending queue only:
        a block with a later transaction of an account but not the ones before it left a hole, and
        the pool offered nonces 1, 3 (counter-theorem, replayed on the code).
  PARTIAL (decided per run by the engine, not proved): that the lookup cache equals the queues (as
  found it leaked: counter-theorem); that nothing accepted vanishes below capacity.
  NOT covered: the time-based eviction loop, the broadcast queue, the gemmill FIFO mempool
  (gemmill/mempool), concurrent submitters against the commit path (the pool is one mutex).
-/
import AnnVerif.Lemmas.PoolMem
import AnnVerif.Lemmas.PoolConsec
import AnnVerif.Model.Fifo
namespace AnnVerif.C19
open AnnVerif AnnVerif.Pool

inductive Op where
  | submit (t : Tx)
  | admin (id : Nat)
  | commit (included : List Nat) (nonces : List (Nat × Nat))
  | flush

def stepOp (p : Pool) : Op → Pool
  | .submit t => (submit {} p t).1
  | .admin id => (submitAdmin p id).1
  | .commit inc ns => commit {} p inc ns
  | .flush => flush p

def run (p : Pool) (ops : List Op) : Pool := ops.foldl stepOp p

def wellFormedOp : Op → Prop
  | .submit t => t.sender ∈ accounts
  | _ => True

theorem inv_empty (pl wl : Nat) : Inv { pendingLimit := pl, waitingLimit := wl } := by
  refine ⟨fun _ => by simp [Sorted], fun _ => by simp [Sorted], ?_, ?_, ?_, ?_, fun _ _ => ⟨rfl, rfl⟩⟩
  · intro a t ht; simp at ht
  · intro a t ht; simp at ht
  · simp [mCount, accounts]
  · simp [mCount, accounts]

theorem step_inv (p : Pool) (op : Op) (h : Inv p) (hw : wellFormedOp op) :
    Inv (stepOp p op) ∧ (stepOp p op).pendingLimit = p.pendingLimit ∧ (stepOp p op).waitingLimit = p.waitingLimit := by
  cases op with
  | submit t => obtain ⟨h1, f⟩ := submit_inv {} rfl p t h hw; exact ⟨h1, f.pl, f.wl⟩
  | admin id =>
    refine ⟨submitAdmin_inv p id h, ?_, ?_⟩ <;> (simp only [stepOp, submitAdmin]; split <;> rfl)
  | commit inc ns => obtain ⟨h1, f1, f2, _⟩ := commit_inv {} rfl p inc ns h; exact ⟨h1, f1, f2⟩
  | flush => exact ⟨flush_inv p, rfl, rfl⟩

/-- the invariant holds in every reachable state, under the configured limits -/
theorem reachable_inv (pl wl : Nat) : ∀ (ops : List Op), (∀ op ∈ ops, wellFormedOp op) →
    Inv (run { pendingLimit := pl, waitingLimit := wl } ops) ∧
    (run { pendingLimit := pl, waitingLimit := wl } ops).pendingLimit = pl ∧
    (run { pendingLimit := pl, waitingLimit := wl } ops).waitingLimit = wl := by
  intro ops
  unfold run
  generalize hp : ({ pendingLimit := pl, waitingLimit := wl } : Pool) = p0
  have h0 : Inv p0 ∧ p0.pendingLimit = pl ∧ p0.waitingLimit = wl := by
    subst hp; exact ⟨inv_empty pl wl, rfl, rfl⟩
  clear hp
  induction ops generalizing p0 with
  | nil => intro _; exact h0
  | cons op r ih =>
    intro hw
    simp only [List.foldl]
    obtain ⟨h1, l1, l2⟩ := step_inv p0 op h0.1 (hw op (by simp))
    exact ih _ ⟨h1, l1.trans h0.2.1, l2.trans h0.2.2⟩ (fun o ho => hw o (by simp [ho]))

/-- Q1: what is offered for one account is strictly ascending in the nonce -/
theorem offered_nonces_strictly_ascending (pl wl : Nat) (ops : List Op) (hw : ∀ op ∈ ops, wellFormedOp op) (a : Nat) :
    ((run { pendingLimit := pl, waitingLimit := wl } ops).pending a).Pairwise (fun x y => x.nonce < y.nonce) :=
  (reachable_inv pl wl ops hw).1.pS a

theorem never_two_for_one_account_and_nonce (pl wl : Nat) (ops : List Op) (hw : ∀ op ∈ ops, wellFormedOp op) (a : Nat) :
    ((run { pendingLimit := pl, waitingLimit := wl } ops).pending a).Pairwise (fun x y => x.nonce ≠ y.nonce) :=
  sorted_distinct _ ((reachable_inv pl wl ops hw).1.pS a)

/-- everything queued for an account was sent by that account -/
theorem queued_under_its_sender (pl wl : Nat) (ops : List Op) (hw : ∀ op ∈ ops, wellFormedOp op) (a : Nat) (t : Tx)
    (h : t ∈ (run { pendingLimit := pl, waitingLimit := wl } ops).pending a) : t.sender = a :=
  (reachable_inv pl wl ops hw).1.pO a t h

/-- Q2: the queues stay within the configured limits -/
theorem stays_within_bounds (pl wl : Nat) (ops : List Op) (hw : ∀ op ∈ ops, wellFormedOp op) :
    mCount (run { pendingLimit := pl, waitingLimit := wl } ops).pending ≤ pl ∧
    mCount (run { pendingLimit := pl, waitingLimit := wl } ops).waiting ≤ wl := by
  obtain ⟨h, l1, l2⟩ := reachable_inv pl wl ops hw
  have h1 := h.pB
  have h2 := h.wB
  rw [l1] at h1; rw [l2] at h2
  exact ⟨h1, h2⟩

/-- Q5: what is offered for one account is consecutive from the account's current nonce -/
theorem reachable_pcons (pl wl : Nat) : ∀ (ops : List Op), (∀ op ∈ ops, wellFormedOp op) →
    PCons (run { pendingLimit := pl, waitingLimit := wl } ops) := by
  intro ops
  unfold run
  generalize hp : ({ pendingLimit := pl, waitingLimit := wl } : Pool) = p0
  have h0 : Inv p0 ∧ PCons p0 := by
    subst hp; exact ⟨inv_empty pl wl, fun a => by simp [Consec]⟩
  clear hp
  induction ops generalizing p0 with
  | nil => intro _; exact h0.2
  | cons op r ih =>
    intro hw
    simp only [List.foldl]
    obtain ⟨h1, _, _⟩ := step_inv p0 op h0.1 (hw op (by simp))
    refine ih _ ⟨h1, ?_⟩ (fun o ho => hw o (by simp [ho]))
    cases op with
    | submit t => exact submit_pcons {} p0 t h0.2
    | admin id => exact submitAdmin_pcons p0 id h0.2
    | commit inc ns => exact commit_pcons {} rfl p0 inc ns (fun a ha => (h0.1.supp a ha).1)
    | flush => exact flush_pcons p0

theorem offered_nonces_consecutive (pl wl : Nat) (ops : List Op) (hw : ∀ op ∈ ops, wellFormedOp op) (a : Nat) :
    Consec ((run { pendingLimit := pl, waitingLimit := wl } ops).pending a)
      (nonceOf (run { pendingLimit := pl, waitingLimit := wl } ops) a) :=
  reachable_pcons pl wl ops hw a

/-- `Consec` spelled out: the i-th transaction offered for the account carries nonce + i -/
theorem consec_get : ∀ (q : Queue) (n : Nat), Consec q n → ∀ (i : Nat) (h : i < q.length), (q[i]'h).nonce = n + i := by
  intro q
  induction q with
  | nil => intro n _ i h; simp at h
  | cons t r ih =>
    intro n hc i h
    obtain ⟨h1, h2⟩ := hc
    cases i with
    | zero => simpa using h1
    | succ j =>
      have := ih (n + 1) h2 j (by simpa using h)
      simp only [List.getElem_cons_succ]
      omega

/-- Q3: refused submissions, and they leave the pool as it was -/
theorem exact_duplicate_refused (cfg : Cfg) (p : Pool) (t : Tx) (h : t.id ∈ p.all) :
    submit cfg p t = (p, .exist) := by
  unfold submit
  have : p.all.contains t.id = true := by simpa using h
  rw [if_pos this]

theorem stale_nonce_refused (cfg : Cfg) (p : Pool) (t : Tx) (h1 : t.id ∉ p.all) (h2 : t.nonce < nonceOf p t.sender) :
    submit cfg p t = (p, .stale) := by
  unfold submit
  have : ¬ p.all.contains t.id = true := by simpa using h1
  rw [if_neg this, if_pos h2]

theorem pending_nonce_refused (p : Pool) (t : Tx) (h1 : t.id ∉ p.all) (h2 : ¬ t.nonce < nonceOf p t.sender)
    (h3 : qHas (p.pending t.sender) t.nonce = true) : submit {} p t = (p, .nonceTaken) := by
  unfold submit
  have : ¬ p.all.contains t.id = true := by simpa using h1
  rw [if_neg this, if_neg h2]
  have : (({} : Cfg).pendingNonceCheck = true ∧ qHas (mGet p.pending t.sender) t.nonce = true) := ⟨rfl, h3⟩
  rw [if_pos this]

/-- Q4: a transaction a committed block contained is not offered again -/
theorem committed_never_offered_again (p : Pool) (included : List Nat) (nonces : List (Nat × Nat)) (t : Tx)
    (h : t ∈ (reapAll (commit {} p included nonces)).2) : t.id ∉ included := by
  unfold reapAll at h
  simp only [List.mem_flatten, List.mem_map] at h
  obtain ⟨q, ⟨a, _, rfl⟩, ht⟩ := h
  exact commit_removes {} rfl p included nonces a t (Or.inl ht)

/-! ### as found -/

/-- account 0 submits a transaction with its current nonce; a block includes it and judges it
    invalid (the application nonce stays 0): as found it is offered again, block after block -/
def wOps (cfg : Cfg) : Pool :=
  let p := (submit cfg {} ⟨1, 0, 0⟩).1
  let p := commit cfg p [1] [(0, 0)]
  commit cfg p [1] [(0, 0)]

theorem asFound_included_but_invalid_offered_again :
    ((reapAll (wOps ⟨true, true, false, true, true⟩)).2.map (·.id)) = [1] ∧
    ((reapAll (wOps {})).2.map (·.id)) = [] := by decide

/-- account 0 has nonces 0..3 pending (1, 2, 3 waited for 0); a block contains the transactions with nonce 0 and 2 only
    (the second one is invalid in it: the application nonce goes to 1). As found the pool then offers
    nonces 1 and 3; repaired it offers 1 and keeps 3 waiting -/
def gOps (cfg : Cfg) : Pool :=
  let p := (submit cfg {} ⟨2, 0, 1⟩).1
  let p := (submit cfg p ⟨3, 0, 2⟩).1
  let p := (submit cfg p ⟨4, 0, 3⟩).1
  let p := (submit cfg p ⟨1, 0, 0⟩).1
  commit cfg p [1, 3] [(0, 1)]

theorem asFound_offers_across_a_gap :
    ((reapAll (gOps { demotesGaps := false })).2.map (·.nonce)) = [1, 3] ∧
    ((reapAll (gOps {})).2.map (·.nonce)) = [1] ∧ ((gOps {}).waiting 0).map (·.nonce) = [3] := by decide

/-- as found a second transaction for a pending nonce is accepted, dropped at once, and its hash
    stays in the lookup cache -/
theorem asFound_same_nonce_accepted_and_leaked :
    let p := (submit ⟨true, false, true, false, true⟩ {} ⟨1, 0, 0⟩).1
    let r := submit ⟨true, false, true, false, true⟩ p ⟨2, 0, 0⟩
    r.2 = .ok ∧ r.1.all = [1, 2] ∧ (r.1.pending 0).map (·.id) = [1] ∧ (r.1.waiting 0).map (·.id) = [] := by decide

/-- non-vacuity: gapped submissions wait, the gap closes, everything is promoted in order -/
example : ((reapAll (run { pendingLimit := 10, waitingLimit := 10 }
    [.submit ⟨1, 0, 2⟩, .submit ⟨2, 0, 1⟩, .submit ⟨3, 0, 0⟩, .commit [] [(0, 0)]])).2.map (·.nonce)) = [0, 1, 2] := by decide

/-! ### the FIFO mempool (gemmill/mempool) -/


inductive FOp where
  | recv (t : Nat)
  | update (block : List Nat)

def fstep (m : Fifo.Mem) : FOp → Fifo.Mem
  | .recv t => (Fifo.receive m t).1
  | .update b => Fifo.update {} m b

/-- the transactions contained in the blocks committed along a sequence -/
def committedIn : List FOp → List Nat
  | [] => []
  | .recv _ :: r => committedIn r
  | .update b :: r => b ++ committedIn r

/-- what holds in every state: no transaction twice in the list, the list is within the cache -/
structure FInv (m : Fifo.Mem) : Prop where
  nodup : m.txs.Nodup
  cached : ∀ t ∈ m.txs, t ∈ m.cache

theorem fstep_inv (m : Fifo.Mem) (op : FOp) (h : FInv m) : FInv (fstep m op) := by
  cases op with
  | recv t =>
    simp only [fstep, Fifo.receive]
    split
    · exact h
    · rename_i hc
      have hnc : t ∉ m.cache := by simpa using hc
      refine ⟨?_, ?_⟩
      · rw [List.nodup_append]
        refine ⟨h.nodup, by simp, ?_⟩
        intro a ha b hb
        simp at hb; subst hb
        intro e; subst e
        exact hnc (h.cached _ ha)
      · intro x hx
        simp only [List.mem_append, List.mem_singleton] at hx ⊢
        rcases hx with hx | hx
        · exact Or.inl (h.cached x hx)
        · exact Or.inr hx
  | update b =>
    simp only [fstep, Fifo.update]
    refine ⟨h.nodup.filter _, ?_⟩
    intro x hx
    have := (List.mem_filter.mp hx).1
    simp only [if_true, List.mem_append]
    exact Or.inl (h.cached x this)

/-- G: everything committed so far is in the cache and not in the list -/
def Gone (c : List Nat) (m : Fifo.Mem) : Prop := ∀ t ∈ c, t ∈ m.cache ∧ t ∉ m.txs

theorem fstep_gone (m : Fifo.Mem) (op : FOp) (c : List Nat) (hg : Gone c m) :
    Gone (c ++ committedIn [op]) (fstep m op) := by
  cases op with
  | recv t =>
    simp only [committedIn, List.append_nil, fstep, Fifo.receive]
    split
    · exact hg
    · rename_i hc
      have hnc : t ∉ m.cache := by simpa using hc
      intro x hx
      obtain ⟨h1, h2⟩ := hg x hx
      refine ⟨by simp [h1], ?_⟩
      simp only [List.mem_append, List.mem_singleton, not_or]
      exact ⟨h2, fun e => hnc (e ▸ h1)⟩
  | update b =>
    simp only [committedIn, List.append_nil, fstep, Fifo.update, if_true]
    intro x hx
    rcases List.mem_append.mp hx with hx | hx
    · obtain ⟨h1, h2⟩ := hg x hx
      exact ⟨by simp [h1], fun hm => h2 (List.mem_filter.mp hm).1⟩
    · refine ⟨?_, ?_⟩
      · by_cases hc : x ∈ m.cache
        · simp [hc]
        · simp only [List.mem_append, List.mem_filter]
          right
          exact ⟨by simpa using hx, by simpa using hc⟩
      · intro hm
        have := (List.mem_filter.mp hm).2
        simp at this
        exact this hx

theorem committedIn_append (a b : List FOp) : committedIn (a ++ b) = committedIn a ++ committedIn b := by
  induction a with
  | nil => rfl
  | cons x r ih => cases x <;> simp [committedIn, ih]

/-- Q5: along ANY sequence of receptions and commits (no flush), the mempool never holds a
    transaction twice, and never holds — so never offers — a transaction that a committed block
    contained, whether the node had seen it before or not, however often it is received again -/
theorem fifo_never_offers_committed_or_duplicate (ops : List FOp) :
    (ops.foldl fstep {}).txs.Nodup ∧ ∀ t ∈ committedIn ops, t ∉ (ops.foldl fstep {}).txs := by
  have key : ∀ (ops : List FOp) (m : Fifo.Mem) (c : List Nat), FInv m → Gone c m →
      FInv (ops.foldl fstep m) ∧ Gone (c ++ committedIn ops) (ops.foldl fstep m) := by
    intro ops
    induction ops with
    | nil => intro m c h g; simpa [committedIn] using ⟨h, g⟩
    | cons op r ih =>
      intro m c h g
      simp only [List.foldl]
      have := ih (fstep m op) (c ++ committedIn [op]) (fstep_inv m op h) (fstep_gone m op c g)
      have e : c ++ committedIn [op] ++ committedIn r = c ++ committedIn (op :: r) := by
        rw [List.append_assoc, ← committedIn_append]; rfl
      rw [e] at this
      exact this
  obtain ⟨h1, h2⟩ := key ops {} [] ⟨by simp, by simp⟩ (by intro t ht; simp at ht)
  exact ⟨h1.nodup, fun t ht => (h2 t (by simpa using ht)).2⟩

/-- as found a committed transaction that is received again is back in the mempool -/
theorem asFound_committed_accepted_again :
    ((Fifo.receive (Fifo.update ⟨false⟩ (Fifo.receive {} 7).1 [7]) 7).1.txs) = [7] ∧
    ((Fifo.receive (Fifo.update {} (Fifo.receive {} 7).1 [7]) 7).1.txs) = [] := by decide


/-! ### capacity: a refusal for lack of room happens only at the limit -/

/-- Q1: `addWaiting` answers "queue is full" only when the waiting queues - counted over EVERY
    account, as the pool's size is defined - hold at least `waitingLimit` transactions -/
theorem full_only_at_the_limit (cfg : Pool.Cfg) (p : Pool.Pool) (t : Pool.Tx)
    (h : (Pool.addWaiting cfg p t).2 = .full) : p.waitingLimit ≤ Pool.mCount p.waiting := by
  unfold Pool.addWaiting at h
  by_cases hc : Pool.mCount p.waiting ≥ p.waitingLimit
  · exact hc
  · simp only [hc, if_false] at h
    split at h <;> simp at h

/-- Q2: hence a submission is refused as full only by a pool at its limit ("never drops an
    executable transaction while below its capacity", the refusal side) -/
theorem submit_refuses_as_full_only_at_the_limit (cfg : Pool.Cfg) (p : Pool.Pool) (t : Pool.Tx)
    (h : (Pool.submit cfg p t).2 = .full) : p.waitingLimit ≤ Pool.mCount p.waiting := by
  unfold Pool.submit at h
  split at h
  · simp at h
  · split at h
    · simp at h
    · split at h
      · simp at h
      · rcases hr : Pool.addWaiting cfg p t with ⟨p1, r⟩
        rw [hr] at h
        cases r <;> simp at h
        exact full_only_at_the_limit cfg p t (by rw [hr])

example : (Pool.addWaiting {} { waitingLimit := 1, waiting := fun a => if a = 0 then [⟨1, 0, 5⟩] else [] } ⟨2, 1, 7⟩).2 = .full := by
  decide

end AnnVerif.C19
