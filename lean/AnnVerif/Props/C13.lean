/-
  C13 — Fast sync applies only blocks justified by +2/3 commits; ends in the same state.

  Theorems about Model/Sync.lean (pool, SYNC_LOOP iteration, verifier, executer, leaving fast sync):

  S1  complete_applied            an iteration that stores and executes a block has verified, for the
                                  PEEKED block's id and height, a commit with > 2/3 of the power of the
                                  validator set in force in the syncing state, and the block passed the
                                  whole of ValidateBlock against that state; exactly that block is
                                  appended, the state advances by the application's rule
  S2  complete_not_applied        any other outcome leaves chain state and applied list untouched
  S3  complete_ignores_pool       (repaired) what is verified, applied and reported does not depend on
                                  what peers did to the pool between PeekTwoBlocks and the verdict
  S4  run_inv                     for EVERY sequence of serve / remove / iteration steps, with arbitrary
                                  blocks handed to the iteration: the k-th applied block has height k+1,
                                  links to its predecessor, and was justified under the validator set in
                                  force at its height, the sets evolving by the application's changes
  S5  applied_is_source           if two justified ids at one height are always equal (the conclusion of
                                  C01.agreement for < 1/3 Byzantine power), everything applied is the
                                  source chain's block: forged, altered, out-of-order blocks are never
                                  applied, whatever was served in whatever order
  S6  serve_wrong_peer / serve_occupied / serve_incomplete / removePeer_clears / pop_height
                                  the pool's bookkeeping
  S7  verify_ok_slots, verified_commit_rebuilds, applied_can_leave
                                  (repaired) a verified commit names in every slot the validator of
                                  that slot; `reconstructLastCommit` adds every one of its precommits
                                  and finds the +2/3 majority (loop invariant in Lemmas/Reconstruct.lean);
                                  so a node that applied a block by fast sync can leave fast sync
  counter-theorems                as found: a commit that verifies but cannot be rebuilt (the node
                                  panics when it leaves fast sync, and at every later start); RedoRequest
                                  panics when the block has gone; a response without LastCommit panics
                                  the verifier.
-/
import AnnVerif.Model.Sync
import AnnVerif.Model.Handoff
import AnnVerif.Lemmas.BlockValid
import AnnVerif.Lemmas.Reconstruct
import AnnVerif.Props.C02
namespace AnnVerif.C13
open AnnVerif AnnVerif.VoteSet AnnVerif.Block AnnVerif.Sync

/-! ### S1, S2: one iteration -/

theorem complete_applied (cfg : Sync.Cfg) (ch : Changes) (vh : Int → Bytes) (sigok : Nat → Vote → Bool)
    (s s' : St) (first second : Served)
    (hpos : ∀ val ∈ s.cs.validators, 0 ≤ val.power)
    (h : complete cfg ch vh sigok s first second = (s', .applied)) :
    CommitJustifies sigok s.cs.validators first.id first.blk.hdr.height second.blk.commit ∧
    validateBlock cfg.blk sigok s.cs first.blk = .ok ∧
    s'.applied = s.applied ++ [(first, second)] ∧
    s'.cs = advanceState ch vh s.cs first ∧
    s'.pool = pop s.pool ∧
    verifyCommit cfg.blk.vs sigok s.cs.validators first.id first.blk.hdr.height second.blk.commit = .ok := by
  unfold complete at h
  split at h
  · cases h
  · split at h
    · rename_i hv
      split at h
      · cases h
      · split at h
        · rename_i hb
          cases h
          exact ⟨verifyCommit_sound _ sigok _ _ _ _ hpos hv, hb, rfl, rfl, rfl, hv⟩
        · cases h
    · cases h
    · split at h
      · split at h <;> cases h
      · cases h

theorem complete_not_applied (cfg : Sync.Cfg) (ch : Changes) (vh : Int → Bytes) (sigok : Nat → Vote → Bool)
    (s : St) (first second : Served)
    (h : (complete cfg ch vh sigok s first second).2 ≠ .applied) :
    (complete cfg ch vh sigok s first second).1.cs = s.cs ∧
    (complete cfg ch vh sigok s first second).1.applied = s.applied := by
  unfold complete at h ⊢
  split
  · exact ⟨rfl, rfl⟩
  · split
    · split
      · exact ⟨rfl, rfl⟩
      · split
        · rename_i hb
          exfalso; apply h
          simp [*]
        · exact ⟨rfl, rfl⟩
    · exact ⟨rfl, rfl⟩
    · split
      · split <;> exact ⟨rfl, rfl⟩
      · exact ⟨rfl, rfl⟩

theorem trySync_applied (cfg : Sync.Cfg) (ch : Changes) (vh : Int → Bytes) (sigok : Nat → Vote → Bool)
    (s s' : St) (hpos : ∀ val ∈ s.cs.validators, 0 ≤ val.power)
    (h : trySync cfg ch vh sigok s = (s', .applied)) :
    ∃ first second, s.pool.block s.pool.height = some first ∧ s.pool.block (s.pool.height + 1) = some second ∧
      CommitJustifies sigok s.cs.validators first.id first.blk.hdr.height second.blk.commit ∧
      s'.applied = s.applied ++ [(first, second)] := by
  unfold trySync peek at h
  split at h
  · rename_i first second hp
    simp only [Prod.mk.injEq] at hp
    obtain ⟨a, _, c, _, _, _⟩ := complete_applied cfg ch vh sigok s s' first second hpos h
    exact ⟨first, second, hp.1, hp.2, a, c⟩
  · cases h

/-! ### S3: time of check = time of use -/

/-- repaired: the pool as it is after the peek influences neither the verdict nor what is applied -/
theorem complete_ignores_pool (cfg : Sync.Cfg) (hr : cfg.redoTolerant = true) (ch : Changes) (vh : Int → Bytes)
    (sigok : Nat → Vote → Bool) (s1 s2 : St) (first second : Served)
    (hcs : s1.cs = s2.cs) (happ : s1.applied = s2.applied) :
    (complete cfg ch vh sigok s1 first second).2 = (complete cfg ch vh sigok s2 first second).2 ∧
    (complete cfg ch vh sigok s1 first second).1.cs = (complete cfg ch vh sigok s2 first second).1.cs ∧
    (complete cfg ch vh sigok s1 first second).1.applied = (complete cfg ch vh sigok s2 first second).1.applied := by
  obtain ⟨cs1, p1, a1⟩ := s1
  obtain ⟨cs2, p2, a2⟩ := s2
  simp only at hcs happ
  subst hcs happ
  unfold complete
  simp only [hr, if_true]
  split
  · exact ⟨rfl, rfl, rfl⟩
  · split
    · split
      · exact ⟨rfl, rfl, rfl⟩
      · split <;> exact ⟨rfl, rfl, rfl⟩
    · exact ⟨rfl, rfl, rfl⟩
    · cases p1.block first.blk.hdr.height <;> cases p2.block first.blk.hdr.height <;> exact ⟨rfl, rfl, rfl⟩

/-! ### S4: every run -/

/-- validators in force at height k+1, from the genesis set and the application's changes -/
def valsAt (ch : Changes) (g : List Validator) : Nat → List Validator
  | 0 => g
  | k + 1 => nextVals ch (valsAt ch g k) ((k : Int) + 1)

/-- what the environment and the reactor can do; an iteration may be handed ANY two blocks (the
    ones it peeked at some earlier time) -/
inductive Op where
  | serve (assigned : String) (b : Served)
  | remove (peer : String)
  | iterate (first second : Served)

def stepOp (cfg : Sync.Cfg) (ch : Changes) (vh : Int → Bytes) (sigok : Nat → Vote → Bool) (s : St) : Op → St
  | .serve a b => { s with pool := (serve cfg s.pool a b).1 }
  | .remove p => { s with pool := removePeer s.pool p }
  | .iterate f sec => (complete cfg ch vh sigok s f sec).1

def run (cfg : Sync.Cfg) (ch : Changes) (vh : Int → Bytes) (sigok : Nat → Vote → Bool) (s : St) (ops : List Op) : St :=
  ops.foldl (stepOp cfg ch vh sigok) s

def prevId (genesisPrev : BlockID) (applied : List (Served × Served)) (k : Nat) : BlockID :=
  match k with
  | 0 => genesisPrev
  | j + 1 => match applied[j]? with
    | some (f, _) => f.id
    | none => genesisPrev

structure ChainInv (sigok : Nat → Vote → Bool) (ch : Changes) (g : List Validator) (gp : BlockID) (s : St) : Prop where
  height : s.cs.lastBlockHeight = (s.applied.length : Int)
  vals : s.cs.validators = valsAt ch g s.applied.length
  last : s.cs.lastBlockID = prevId gp s.applied s.applied.length
  each : ∀ (k : Nat) (f sec : Served), s.applied[k]? = some (f, sec) →
    f.blk.hdr.height = (k : Int) + 1 ∧
    f.blk.hdr.lastBlockID = prevId gp s.applied k ∧
    CommitJustifies sigok (valsAt ch g k) f.id ((k : Int) + 1) sec.blk.commit

theorem setPower_nonneg (vals : List Validator) (pos : Nat) (pw : Int) (hpw : 0 ≤ pw)
    (h : ∀ v ∈ vals, 0 ≤ v.power) : ∀ v ∈ setPower vals pos pw, 0 ≤ v.power := by
  unfold setPower
  split
  · intro v hv
    rcases List.mem_or_eq_of_mem_set hv with hm | he
    · exact h v hm
    · subst he; exact hpw
  · exact h

theorem valsAt_nonneg (ch : Changes) (g : List Validator) (hg : ∀ v ∈ g, 0 ≤ v.power)
    (hch : ∀ h pos pw, ch h = some (pos, pw) → 0 ≤ pw) : ∀ k, ∀ v ∈ valsAt ch g k, 0 ≤ v.power := by
  intro k
  induction k with
  | zero => exact hg
  | succ k ih =>
    unfold valsAt nextVals
    cases hc : ch ((k : Int) + 1) with
    | none => exact ih
    | some pp => exact setPower_nonneg _ _ _ (hch _ pp.1 pp.2 hc) ih

theorem prevId_append (gp : BlockID) (l : List (Served × Served)) (x : Served × Served) (k : Nat)
    (hk : k ≤ l.length) : prevId gp (l ++ [x]) k = prevId gp l k := by
  cases k with
  | zero => rfl
  | succ j =>
    have : j < l.length := by omega
    simp only [prevId, List.getElem?_append_left this]

theorem iterate_inv (cfg : Sync.Cfg) (ch : Changes) (vh : Int → Bytes) (sigok : Nat → Vote → Bool)
    (g : List Validator) (gp : BlockID) (hg : ∀ v ∈ g, 0 ≤ v.power)
    (hch : ∀ h pos pw, ch h = some (pos, pw) → 0 ≤ pw)
    (s : St) (first second : Served) (inv : ChainInv sigok ch g gp s) :
    ChainInv sigok ch g gp (complete cfg ch vh sigok s first second).1 := by
  by_cases hap : (complete cfg ch vh sigok s first second).2 = .applied
  · have heq : complete cfg ch vh sigok s first second =
        ((complete cfg ch vh sigok s first second).1, .applied) := by rw [← hap]
    have hpos : ∀ val ∈ s.cs.validators, 0 ≤ val.power := by
      rw [inv.vals]; exact valsAt_nonneg ch g hg hch _
    obtain ⟨hj, hvb, happ, hcs, _, _⟩ := complete_applied cfg ch vh sigok s _ first second hpos heq
    have hext := C02.accepted_extends cfg.blk sigok s.cs first.blk hvb
    have hh : first.blk.hdr.height = (s.applied.length : Int) + 1 := by rw [hext.height, inv.height]
    generalize (complete cfg ch vh sigok s first second).1 = s' at *
    refine ⟨?_, ?_, ?_, ?_⟩
    · rw [hcs, happ]; simp [advanceState, hh]
    · rw [hcs, happ]
      simp only [advanceState, List.length_append, List.length_cons, List.length_nil]
      show nextVals ch s.cs.validators first.blk.hdr.height = valsAt ch g (s.applied.length + 1)
      rw [hh, inv.vals]; rfl
    · rw [hcs, happ]
      simp only [advanceState, List.length_append, List.length_cons, List.length_nil]
      show first.id = prevId gp (s.applied ++ [(first, second)]) (s.applied.length + 1)
      unfold prevId
      simp
    · intro k f sec hk
      rw [happ] at hk ⊢
      by_cases hlt : k < s.applied.length
      · rw [List.getElem?_append_left hlt] at hk
        obtain ⟨a, b, c⟩ := inv.each k f sec hk
        exact ⟨a, by rw [prevId_append gp _ _ k (by omega)]; exact b, c⟩
      · have hge : s.applied.length ≤ k := by omega
        rw [List.getElem?_append_right hge] at hk
        have hk0 : k - s.applied.length = 0 := by
          cases hz : k - s.applied.length with
          | zero => rfl
          | succ m => rw [hz] at hk; simp at hk
        have hke : k = s.applied.length := by omega
        rw [hk0] at hk
        simp at hk
        obtain ⟨rfl, rfl⟩ := hk
        subst hke
        refine ⟨hh, ?_, ?_⟩
        · rw [prevId_append gp _ _ _ (by omega), hext.prev, inv.last]
        · rw [← hh, ← inv.vals]; exact hj
  · obtain ⟨h1, h2⟩ := complete_not_applied cfg ch vh sigok s first second hap
    generalize (complete cfg ch vh sigok s first second).1 = s' at *
    exact ⟨by rw [h1, h2]; exact inv.height, by rw [h1, h2]; exact inv.vals,
      by rw [h1, h2]; exact inv.last, by rw [h2]; exact inv.each⟩

/-- S4: the invariant holds after every sequence of steps -/
theorem run_inv (cfg : Sync.Cfg) (ch : Changes) (vh : Int → Bytes) (sigok : Nat → Vote → Bool)
    (g : List Validator) (gp : BlockID) (hg : ∀ v ∈ g, 0 ≤ v.power)
    (hch : ∀ h pos pw, ch h = some (pos, pw) → 0 ≤ pw)
    (ops : List Op) (s : St) (inv : ChainInv sigok ch g gp s) :
    ChainInv sigok ch g gp (run cfg ch vh sigok s ops) := by
  induction ops generalizing s with
  | nil => exact inv
  | cons op rest ih =>
    apply ih
    cases op with
    | serve a b => exact ⟨inv.height, inv.vals, inv.last, inv.each⟩
    | remove p => exact ⟨inv.height, inv.vals, inv.last, inv.each⟩
    | iterate f sec => exact iterate_inv cfg ch vh sigok g gp hg hch s f sec inv

/-- the state a node starts fast sync in -/
def initial (chain : String) (g : List Validator) (gp : BlockID) (vh1 : Bytes) : St :=
  ⟨⟨chain, 0, gp, [], [], g, [], vh1⟩, ⟨1, fun _ => none⟩, []⟩

theorem initial_inv (sigok : Nat → Vote → Bool) (ch : Changes) (chain : String) (g : List Validator) (gp : BlockID)
    (vh1 : Bytes) : ChainInv sigok ch g gp (initial chain g gp vh1) :=
  ⟨rfl, rfl, rfl, by intro k f sec h; simp [initial] at h⟩

/-! ### S5: nothing but the committed chain -/

/-- at most one id per height can be justified (C01.agreement: with less than 1/3 Byzantine power two
    commit quorums of one height are for the same block) -/
def UniqueJustified (sigok : Nat → Vote → Bool) (ch : Changes) (g : List Validator) : Prop :=
  ∀ (k : Nat) (b1 b2 : BlockID) (c1 c2 : Commit),
    CommitJustifies sigok (valsAt ch g k) b1 ((k : Int) + 1) c1 →
    CommitJustifies sigok (valsAt ch g k) b2 ((k : Int) + 1) c2 → b1 = b2

theorem applied_is_source (cfg : Sync.Cfg) (ch : Changes) (vh : Int → Bytes) (sigok : Nat → Vote → Bool)
    (chain : String) (g : List Validator) (gp : BlockID) (vh1 : Bytes) (hg : ∀ v ∈ g, 0 ≤ v.power)
    (hch : ∀ h pos pw, ch h = some (pos, pw) → 0 ≤ pw)
    (huniq : UniqueJustified sigok ch g)
    (srcId : Nat → BlockID) (srcCommit : Nat → Commit) (n : Nat)
    (hsrc : ∀ k, k < n → CommitJustifies sigok (valsAt ch g k) (srcId k) ((k : Int) + 1) (srcCommit k))
    (ops : List Op) (k : Nat) (f sec : Served) (hk : k < n)
    (h : (run cfg ch vh sigok (initial chain g gp vh1) ops).applied[k]? = some (f, sec)) :
    f.id = srcId k ∧ f.blk.hdr.height = (k : Int) + 1 := by
  have inv := run_inv cfg ch vh sigok g gp hg hch ops _ (initial_inv sigok ch chain g gp vh1)
  obtain ⟨a, _, c⟩ := inv.each k f sec h
  exact ⟨huniq k _ _ _ _ c (hsrc k hk), a⟩

/-! ### S6: the pool -/

theorem serve_wrong_peer (cfg : Sync.Cfg) (p : Pool) (assigned : String) (b : Served) (h : assigned ≠ b.peer) :
    (serve cfg p assigned b).2 = false ∧ (serve cfg p assigned b).1.block = p.block := by
  unfold serve
  simp only
  split
  · exact ⟨rfl, rfl⟩
  · split
    · exact ⟨rfl, rfl⟩
    · rw [if_pos (Or.inr h)]; exact ⟨rfl, rfl⟩

theorem serve_occupied (cfg : Sync.Cfg) (p : Pool) (assigned : String) (b : Served)
    (h : (p.block b.blk.hdr.height).isSome = true) :
    (serve cfg p assigned b).2 = false ∧ (serve cfg p assigned b).1.block = p.block := by
  unfold serve
  simp only
  split
  · exact ⟨rfl, rfl⟩
  · split
    · exact ⟨rfl, rfl⟩
    · rw [if_pos (Or.inl h)]; exact ⟨rfl, rfl⟩

theorem serve_incomplete (p : Pool) (assigned : String) (b : Served) (h : b.complete = false) :
    (serve Sync.repaired p assigned b).2 = false ∧ (serve Sync.repaired p assigned b).1.block = p.block := by
  unfold serve
  simp only
  rw [if_pos ⟨rfl, by simp [h]⟩]
  exact ⟨rfl, rfl⟩

/-- an accepted block sits at its own height, and only there -/
theorem serve_accepted (cfg : Sync.Cfg) (p : Pool) (assigned : String) (b : Served)
    (h : (serve cfg p assigned b).2 = true) :
    (serve cfg p assigned b).1.block b.blk.hdr.height = some b ∧
    ∀ k, k ≠ b.blk.hdr.height → (serve cfg p assigned b).1.block k = p.block k := by
  unfold serve at h ⊢
  simp only at h ⊢
  split
  · rename_i c; rw [if_pos c] at h; cases h
  · rename_i c
    rw [if_neg c] at h
    split
    · rename_i c2; rw [if_pos c2] at h; cases h
    · rename_i c2
      rw [if_neg c2] at h
      split
      · rename_i c3; rw [if_pos c3] at h; cases h
      · refine ⟨by simp, ?_⟩
        intro k hk; simp [hk]

theorem removePeer_clears (p : Pool) (peer : String) (k : Int) (b : Served)
    (h : (removePeer p peer).block k = some b) : b.peer ≠ peer ∧ p.block k = some b := by
  unfold removePeer at h
  simp only at h
  cases hb : p.block k with
  | none => rw [hb] at h; cases h
  | some x =>
    rw [hb] at h
    simp only at h
    split at h
    · cases h
    · rename_i hne; cases h; exact ⟨hne, rfl⟩

theorem pop_height (p : Pool) : (pop p).height = p.height + 1 ∧ (pop p).block p.height = none := by
  simp [pop]

/-! ### S8: votes for something else justify nothing -/

theorem tallyB_zero (b : BlockID) : ∀ (ps : List Int) (ss : List (Option Vote)),
    (∀ v, some v ∈ ss → v.bid ≠ b) → tallyB b ps ss = 0
  | [], _, _ => by cases ‹List (Option Vote)› <;> simp [tallyB]
  | _ :: _, [], _ => by simp [tallyB]
  | p :: ps, none :: ss, h => by
    simp only [tallyB]
    exact tallyB_zero b ps ss (fun v hv => h v (by simp [hv]))
  | p :: ps, some v :: ss, h => by
    have hv : ¬ b = v.bid := fun e => h v (by simp) e.symm
    simp only [tallyB, hv, if_false, Int.zero_add]
    exact tallyB_zero b ps ss (fun w hw => h w (by simp [hw]))

/-- S8: precommits for nil - or for any other id: another hash, OR the same hash with another part-set
    header, OR no hash at all - justify no block: if no precommit of the commit names exactly `b`
    (header hash AND part-set header), `VerifyCommit` for `b` fails, whatever the signatures -/
theorem precommits_for_something_else_justify_nothing (cfg : VoteSet.Cfg) (sigok : Nat → Vote → Bool)
    (vals : List Validator) (hpos : ∀ val ∈ vals, 0 ≤ val.power) (b : BlockID) (height : Int) (c : Commit)
    (hother : ∀ v, some v ∈ c.precommits → v.bid ≠ b) :
    verifyCommit cfg sigok vals b height c ≠ .ok := by
  intro h
  obtain ⟨_, R, _, ht⟩ := verifyCommit_sound cfg sigok vals b height c hpos h
  rw [tallyB_zero b _ _ hother] at ht
  have : 0 ≤ total vals := by
    unfold total
    have : ∀ (l : List Validator), (∀ v ∈ l, 0 ≤ v.power) → 0 ≤ (l.map (·.power)).sum := by
      intro l; induction l with
      | nil => simp
      | cons a t ih => intro hh; simp; have := hh a (by simp); have := ih (fun v hv => hh v (by simp [hv])); omega
    exact this vals hpos
  omega

/-! ### S7: leaving fast sync -/

/-- repaired: every precommit of a verified commit names the validator of its slot -/
theorem verify_ok_slots (sigok : Nat → Vote → Bool) (vals : List Validator) (b : BlockID) (height : Int)
    (c : Commit) (h : verifyCommit VoteSet.repaired sigok vals b height c = .ok) :
    ∀ (j : Nat) (v : Vote), c.precommits[j]? = some (some v) →
      v.idx = (j : Int) ∧ ∃ val, vals[j]? = some val ∧ val.addr = v.addr := by
  intro j v hj
  have := verifyCommit_slots VoteSet.repaired rfl sigok vals b height c h j v hj
  simpa [SlotOk] using this

/-- S7 in full (repaired): a commit that `VerifyCommit` accepts is one `reconstructLastCommit` can
    rebuild - every precommit is added, and the rebuilt vote set reports a +2/3 majority. The node
    that stored it as its seen-commit can leave fast sync and can start again. -/
theorem verified_commit_rebuilds (sigok : Nat → Vote → Bool) (vals : List Validator)
    (hpos : ∀ val ∈ vals, 0 ≤ val.power) (haddr : ∀ val ∈ vals, val.addr ≠ [])
    (b : BlockID) (height : Int) (c : Commit)
    (h : verifyCommit VoteSet.repaired sigok vals b height c = .ok) :
    reconstruct VoteSet.repaired sigok vals height c = true := by
  obtain ⟨hlen, R, hcj, htally⟩ := verifyCommit_sound VoteSet.repaired sigok vals b height c hpos h
  have hso := verifyCommit_slots VoteSet.repaired rfl sigok vals b height c h
  have htot := total_nonneg vals hpos
  have hs : SlotsVerified sigok vals height R c.precommits := by
    intro j v hj
    obtain ⟨a1, a2, a3, a4⟩ := hcj j v hj
    obtain ⟨b1, b2⟩ := hso j v hj
    exact ⟨a1, a2, a3, a4, by simpa using b1, b2⟩
  have hpos_t : 0 < tallyB b (powers vals) c.precommits := by omega
  -- the round `reconstructLastCommit` takes from the commit is the commit's round
  have hround : commitRound c.precommits = R := by
    unfold commitRound
    cases hf : firstPrecommit c.precommits with
    | none => have := firstPrecommit_none_tallyB b (powers vals) _ hf; omega
    | some f =>
      obtain ⟨j, hj⟩ := firstPrecommit_some _ _ hf
      exact (hcj j f hj).2.1
  rw [reconstruct_eq, hround]
  have r0 : RInv vals c.precommits 0 (VoteSet.new height R 2 vals) := by
    refine ⟨by simp [VoteSet.new], rfl, ?_, ?_, ?_, ?_⟩
    · intro k bv hl; simp [VoteSet.new, lookup] at hl
    · intro i _ hn; simp [VoteSet.new, List.getElem?_replicate, hn]
    · intro k bv hl; simp [VoteSet.new, lookup] at hl
    · intro i v hi; omega
  obtain ⟨vs', hist', hloop, hr, hinv, hsp⟩ := loop_ok sigok vals hpos haddr height R c.precommits hlen hs
    c.precommits 0 _ [] (by simp) r0 (inv_new VoteSet.repaired height R 2 vals hpos) (SameParams.refl _)
  rw [hloop]
  simp only
  cases hm : vs'.maj23 with
  | some _ => rfl
  | none =>
    exfalso
    obtain ⟨j, v, hj, hvb⟩ := tallyB_pos_exists b _ _ hpos_t
    have hjl : j < c.precommits.length := by
      have := List.getElem?_eq_some_iff.mp hj; exact this.1
    obtain ⟨bv, hl, _⟩ := hr.complete j v hjl hj
    have hsum := hinv.entrySum _ _ hl
    have hnone := hinv.majNone hm _ _ hl
    have hvals : vs'.vals = vals := hr.valsEq
    rw [hvals] at hsum hnone
    have hle : tallyB b (powers vals) c.precommits ≤ tally (powers vals) bv.votes := by
      apply tallyB_le_tally b (powers vals)
      · intro p hp; simp [powers] at hp; obtain ⟨val, hv, rfl⟩ := hp; exact hpos val hv
      · rw [hlen, hr.entryLen _ _ hl]
      · intro j' v' hj' hb'
        have hjl' : j' < c.precommits.length := (List.getElem?_eq_some_iff.mp hj').1
        obtain ⟨bv', hl', hv'⟩ := hr.complete j' v' hjl' hj'
        rw [hb', ← hvb] at hl'
        rw [hl] at hl'; cases hl'
        exact ⟨v', hv'⟩
    unfold quorum at hnone
    omega


/-- S7'': (repaired) a node that has just applied a block by fast sync can leave fast sync - the
    seen-commit it stored is one `reconstructLastCommit` rebuilds -/
theorem applied_can_leave (ch : Changes) (vh : Int → Bytes) (sigok : Nat → Vote → Bool)
    (s s' : St) (first second : Served)
    (hpos : ∀ val ∈ s.cs.validators, 0 ≤ val.power) (haddr : ∀ val ∈ s.cs.validators, val.addr ≠ [])
    (h : complete Sync.repaired ch vh sigok s first second = (s', .applied)) :
    canLeave Sync.repaired sigok s' = true := by
  obtain ⟨_, _, happ, hcs, _, hv⟩ := complete_applied Sync.repaired ch vh sigok s s' first second hpos h
  unfold canLeave
  rw [happ, List.getLast?_append]
  simp only [List.getLast?_singleton, Option.some_or]
  rw [hcs]
  exact verified_commit_rebuilds sigok s.cs.validators hpos haddr first.id first.blk.hdr.height second.blk.commit hv

/-! ### counter-theorems: the three defects as found -/

def wVals : List Validator := [⟨[1], 1⟩, ⟨[2], 1⟩, ⟨[3], 1⟩, ⟨[4], 1⟩]
def wB : BlockID := ⟨[0xB1], 1, [0xB2]⟩
/-- the genuine precommits of validators 0, 1, 2 for `wB`; the second one has its address field
    altered (the signature, which does not cover it, still verifies under the key of slot 1) -/
def wCommit : Commit :=
  ⟨wB, [some ⟨0, [1], 5, 0, 2, wB, 11⟩, some ⟨1, [9], 5, 0, 2, wB, 12⟩, some ⟨2, [3], 5, 0, 2, wB, 13⟩, none]⟩
def wSig : Nat → Vote → Bool := fun i v => v.idx == (i : Int)

theorem asFound_verified_commit_cannot_be_rebuilt :
    verifyCommit { VoteSet.repaired with slotCheck := false } wSig wVals wB 5 wCommit = .ok ∧
    reconstruct VoteSet.repaired wSig wVals 5 wCommit = false ∧
    verifyCommit VoteSet.repaired wSig wVals wB 5 wCommit = .slot := by decide

def wHdr (h : Int) : Header := ⟨"c", h, 0, ⟨[], 0, []⟩, [], [], [], [], [], [1]⟩
def wBad : Served := ⟨"p0", ⟨[0xEE], 1, [0xEF]⟩, ⟨wHdr 1, 0, [], [], ⟨⟨[], 0, []⟩, []⟩⟩, true, true⟩
def wSecond : Served := ⟨"p1", ⟨[0xE1], 1, [0xE2]⟩, ⟨wHdr 2, 0, [], [], wCommit⟩, true, true⟩
def wNoCommit : Served := ⟨"p1", ⟨[0xE1], 1, [0xE2]⟩, ⟨wHdr 2, 0, [], [], ⟨⟨[], 0, []⟩, []⟩⟩, false, true⟩
def wSt : St := C13.initial "c" wVals ⟨[], 0, []⟩ []

/-- as found: the block that failed verification has gone from the pool -> PanicSanity; repaired:
    the iteration just ends -/
theorem asFound_redo_panics_when_block_gone :
    (complete Sync.asFound (fun _ => none) (fun _ => []) wSig wSt wBad wSecond).2 = .panic ∧
    (complete Sync.repaired (fun _ => none) (fun _ => []) wSig wSt wBad wSecond).2 = .redo .height := by
  decide

/-- as found: a response without LastCommit is accepted by the pool and panics the verifier;
    repaired: it is dropped on receipt -/
theorem asFound_missing_commit_reaches_verifier :
    (serve Sync.asFound wSt.pool "p1" wNoCommit).2 = true ∧
    (complete Sync.asFound (fun _ => none) (fun _ => []) wSig wSt wBad wNoCommit).2 = .panic ∧
    (serve Sync.repaired wSt.pool "p1" wNoCommit).2 = false := by decide

/-! ### H: the hand-over of a block response (Model/Handoff.lean)

  H1 asFound_early_response_deadlocks   as found a response that precedes its request wedges the node
  H2 wf_step / wf_early                 "the lock is held by whoever is in its critical section" is invariant
  H3 repaired_never_stuck               repaired: in no well-formed state are all three goroutines blocked
  H4 repaired_handoff_returns           repaired: the receiving goroutine always hands over and releases the lock
  H5 repaired_syncer_progress           repaired: the reactor gets the pool lock within three steps, always
-/
section Handoff
open AnnVerif.Handoff

/-- as found: a response that precedes its request wedges the node: the receiving goroutine waits for
    the requester with the pool lock held, the requester waits for room in the request channel, the
    reactor - the only one that makes room - waits for the pool lock -/
theorem asFound_early_response_deadlocks :
    ∃ st, runActs Handoff.asFound early [.vArrive, .vLock, .sTick] = some st ∧
      stuck Handoff.asFound st = true ∧ st.lock = .v ∧ st.s = .wantLock ∧ st.r = .sending := by
  refine ⟨⟨.sending, true, false, false, .inAddBlock, .wantLock, .v⟩, by decide, by decide, rfl, rfl, rfl⟩

theorem wf_early : Handoff.WF early := by simp [Handoff.WF, early]

/-- the same schedule, repaired: nobody is stuck -/
example : (runActs Handoff.repaired early [.vArrive, .vLock, .sTick, .vHandoff, .sLock]).map
    (fun st => (st.s, st.blockSet)) = some (.looking, true) := by decide

theorem wf_step (cfg : Handoff.Cfg) (st st' : Handoff.St) (a : Handoff.Act) (h : Handoff.WF st) (hs : step cfg st a = some st') : Handoff.WF st' := by
  rcases st with ⟨r, f, sg, b, v, s, l⟩
  rcases cfg with ⟨nb⟩
  cases a <;> cases v <;> cases s <;> cases l <;> simp [Handoff.WF] at h <;> cases r <;> cases nb <;> cases b <;> cases f <;> cases sg <;>
    simp [step] at hs <;> (subst hs; simp [Handoff.WF])

theorem repaired_never_stuck (st : Handoff.St) (h : Handoff.WF st) : stuck Handoff.repaired st = false := by
  rcases st with ⟨r, f, sg, b, v, s, l⟩
  cases v <;> cases s <;> cases l <;> simp [Handoff.WF] at h <;> cases r <;> cases f <;> cases sg <;> cases b <;> decide

theorem repaired_handoff_returns (st : Handoff.St) (h : st.v = .inAddBlock) :
    ∃ st', step Handoff.repaired st .vHandoff = some st' ∧ st'.lock = .free ∧ st'.blockSet = true ∧ st'.v = .done := by
  rcases st with ⟨r, f, sg, b, v, s, l⟩
  simp only at h; subst h
  cases b <;> simp [step, Handoff.repaired]

/-- repaired: from every well-formed state the reactor gets the pool lock within three steps -/
theorem repaired_syncer_progress (st : Handoff.St) (h : Handoff.WF st) :
    ∃ acts : List Handoff.Act, acts.length ≤ 3 ∧ ∃ st', runActs Handoff.repaired st acts = some st' ∧ st'.s = .looking := by
  rcases st with ⟨r, f, sg, b, v, s, l⟩
  cases s
  · -- draining
    cases l
    · exact ⟨[.sTick, .sLock], by simp, by simp [runActs, step]⟩
    · have hv : v = .inAddBlock := by simpa [Handoff.WF] using h.1
      subst hv
      cases b <;> exact ⟨[.sTick, .vHandoff, .sLock], by simp, by simp [runActs, step, Handoff.repaired]⟩
    · simp [Handoff.WF] at h
  · cases l
    · exact ⟨[.sLock], by simp, by simp [runActs, step]⟩
    · have hv : v = .inAddBlock := by simpa [Handoff.WF] using h.1
      subst hv
      cases b <;> exact ⟨[.vHandoff, .sLock], by simp, by simp [runActs, step, Handoff.repaired]⟩
    · simp [Handoff.WF] at h
  · exact ⟨[], by simp, by simp [runActs]⟩

end Handoff

/-! ### non-vacuity: a real iteration that applies -/

def exVals : List Validator := [⟨[1], 1⟩, ⟨[2], 1⟩, ⟨[3], 1⟩, ⟨[4], 1⟩]
def exId1 : BlockID := ⟨[0xA1], 1, [0xA2]⟩
def exFirst : Served :=
  ⟨"p0", exId1, ⟨⟨"c", 1, 0, ⟨[], 0, []⟩, [0xD0], [0xC0], [0xAA], [], [], [2]⟩, 0, [0xD0], [0xC0], ⟨⟨[], 0, []⟩, []⟩⟩, true, true⟩
def exSecond : Served :=
  ⟨"p1", ⟨[0xA3], 1, [0xA4]⟩, ⟨wHdr 2, 0, [], [],
    ⟨exId1, [some ⟨0, [1], 1, 0, 2, exId1, 1⟩, none, some ⟨2, [3], 1, 0, 2, exId1, 3⟩, some ⟨3, [4], 1, 0, 2, exId1, 4⟩]⟩⟩, true, true⟩
def exSt : St := C13.initial "c" exVals ⟨[], 0, []⟩ [0xAA]

example : (complete Sync.repaired (fun _ => none) (fun _ => []) (fun _ _ => true) exSt exFirst exSecond).2 = .applied := by
  decide
example : (complete Sync.repaired (fun _ => none) (fun _ => []) (fun i _ => i != 3) exSt exFirst exSecond).2 = .redo .sig := by
  decide
example : reconstruct VoteSet.repaired (fun _ _ => true) exVals 1 exSecond.blk.commit = true := by decide

end AnnVerif.C13
