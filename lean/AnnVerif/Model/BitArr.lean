/-
  Model of the memory safety of gemmill/modules/go-common/bit_array.go on bit arrays AS RECEIVED
  from a peer: the reflective decoder fills `Bits` and `Elems` independently, so a received array
  need not be one `NewBitArray` could have made. The model says, for the operations the consensus
  gossip routines apply to such arrays (GetIndex, Not/and, Sub, PickRandom), when the Go code
  panics (index out of range, negative `make`, `rand.Intn` of a non-positive number).
-/
import AnnVerif.Model.Basic
namespace AnnVerif.BitArr

structure BA where
  bits : Int
  elems : Nat          -- len(Elems); the words themselves do not matter for safety
  deriving Repr, DecidableEq

/-- what `NewBitArray` makes, and what the (repaired) reactor accepts from a peer -/
def BA.wf (a : BA) : Prop := 0 < a.bits ∧ (a.elems : Int) = (a.bits + 63) / 64

instance (a : BA) : Decidable a.wf := by unfold BA.wf; exact inferInstance

/-- `GetIndex(i)` for i ≥ 0: `if i >= bits { return false }; return Elems[i/64] & ... ` -/
def getIndexPanics (a : BA) (i : Nat) : Bool := (i : Int) < a.bits && a.elems ≤ i / 64

/-- `PickRandom` when every word but the last is zero (so the last word is always looked at):
    `elemBits := Bits % 64` (Go's truncated remainder); `rand.Intn(elemBits)` after 0 is replaced by 64 -/
def pickRandomPanics (a : BA) : Bool :=
  a.elems != 0 && decide (Int.tmod a.bits 64 < 0)

/-- `bA.and(o)` : `c := bA.copyBits(min(bA.Bits, o.Bits))` (a `make` of (bits+63)/64 words), then
    `c.Elems[i] &= o.Elems[i]` for every word of c -/
def andPanics (a o : BA) : Bool :=
  let bits := min a.bits o.bits
  let words := Int.tdiv (bits + 63) 64
  decide (words < 0) || decide ((o.elems : Int) < words)

/-- `bA.Sub(o)`, o non-nil, every word of both arrays all ones (so no `&&` is cut short).
    bA.Bits > o.Bits: `c := bA.copy()`; `c.Elems[i]` for i < len(o.Elems)-1; then for the bits idx of
    o's last word below o.Bits: `c.getIndex(idx) && !o.GetIndex(idx)` -/
def subPanics (a o : BA) : Bool :=
  if a.bits > o.bits then
    decide (o.elems ≥ a.elems + 2) ||
    (o.elems != 0 && decide (64 * ((o.elems : Int) - 1) < o.bits) &&
      decide ((o.bits - 1) / 64 ≥ (min a.elems o.elems : Nat)))
  else andPanics a o     -- o.Not() keeps o's shape

end AnnVerif.BitArr
