import AnnVerif.Model.DriverUtil
import AnnVerif.Model.Wal
namespace AnnVerif.NodeDrv
open AnnVerif AnnVerif.Drv AnnVerif.Node AnnVerif.Wal

structure DSt where
  cfg : Cfg := Node.repaired
  addrs : List Bytes := []
  l : Logged := { n := Node.init Node.repaired 1 ⟨[], none, 0⟩ none false,
                  snap := Node.init Node.repaired 1 ⟨[], none, 0⟩ none false, log := [] }

def DSt.n (d : DSt) : Node := d.l.n
def DSt.setN (d : DSt) (n : Node) : DSt := { d with l := { d.l with n := n } }

def showName (b : Name) : String := if b.isEmpty then "-" else String.fromUTF8! (ByteArray.mk b.toArray)
def parseName (s : String) : Name := if s == "-" then [] else s.toUTF8.toList

def showStep : Step → String
  | .newHeight => "NewHeight" | .newRound => "NewRound" | .propose => "Propose" | .prevote => "Prevote"
  | .prevoteWait => "PrevoteWait" | .precommit => "Precommit" | .precommitWait => "PrecommitWait"
  | .commit => "Commit"

def parseStep : String → Step
  | "NewHeight" => .newHeight | "NewRound" => .newRound | "Propose" => .propose | "Prevote" => .prevote
  | "PrevoteWait" => .prevoteWait | "Precommit" => .precommit | "PrecommitWait" => .precommitWait
  | _ => .commit

def showOpt (o : Option Name) : String := match o with | some b => showName b | none => "-"

def showEmit : Emit → String
  | .timeout h r s => s!"T({h},{r},{showStep s})"
  | .panic _ => "PANIC"
  | .commit h b => s!"COMMIT({h},{showName b})"

def digest (n : Node) : String :=
  let prop := match n.proposal with | some p => showName p.block | none => "-"
  s!"h={n.height} r={n.round} s={showStep n.step} lr={n.lockedRound} lb={showOpt n.lockedBlock} " ++
  s!"prop={prop} pb={showOpt n.proposalBlock} pp={showOpt n.proposalParts} cr={n.commitRound} q={n.queue.length} | " ++
  " ".intercalate (n.out.map showEmit)

def showMsg : Msg → String
  | .proposal p _ _ => s!"P({p.round},{showName p.block},{p.polRound},{showName p.polBlock})"
  | .parts _ _ b => s!"B({showName b})"
  | .vote v _ => s!"V({v.type},{v.height},{v.round},{showName (nameOf v.bid)})"

/-- handle one record: WAL first (the log), then the handler; a new height starts a new log -/
def handle (d : DSt) (r : Rec) : DSt := { d with l := Wal.handle d.l r }

def showVoteSet (vs : VoteSet.VoteSet) : String :=
  if vs.votes.all Option.isNone then "" else
  let xs := vs.votes.map fun o => match o with | some v => showName (nameOf v.bid) | none => "_"
  let m := match vs.maj23 with | some b => showName (nameOf b) | none => "none"
  ",".intercalate xs ++ "/" ++ m

/-- the votes op: every round (ascending, within the window the harness looks at) holding a vote -/
def showVotes (n : Node) : String :=
  let rs := (List.range (n.round + 13).toNat).filterMap fun k =>
    match getRound n (Int.ofNat k) with
    | none => none
    | some rv =>
      let pv := showVoteSet rv.prevotes
      let pc := showVoteSet rv.precommits
      if pv.isEmpty ∧ pc.isEmpty then none else some s!"r{k}:pv={pv};pc={pc}"
  s!"h={n.height} votes " ++ " ".intercalate rs

/-- a step that panics leaves the real node in an undefined state: report PANIC only -/
def finish (d : DSt) (pre : String := "") : DSt × String :=
  let n := d.n
  if n.out.any (fun e => match e with | .panic _ => true | _ => false) then
    (d.setN { n with out := [] }, "PANIC")
  else (d.setN { n with out := [] }, pre ++ digest n)

def restartNode (d : DSt) (torn : Bool) : DSt := { d with l := Wal.restart d.l torn }

partial def drainAll (d : DSt) (acc : List String) (fuel : Nat) : DSt × List String :=
  match fuel, d.n.queue with
  | 0, _ => (d, acc)
  | _, [] => (d, acc)
  | f + 1, m :: rest =>
    let d := handle (d.setN { d.n with queue := rest }) (.msg m "")
    drainAll d (acc ++ [showMsg m]) f

def dstep (d : DSt) (line : String) : DSt × String :=
  let ws := words line
  let g (k : String) : String := (kv ws k).getD ""
  match ws with
  | "cfg" :: _ =>
    ({ d with cfg := ⟨g "verifyOwnParts" != "0", g "guardNilLastCommit" != "0", g "proposalKeepsParts" != "0"⟩,
              l := { d.l with tornOk := (g "walTornOk" != "0"), keepsProposer := (g "stateKeepsProposer" != "0"),
                              rotationOk := (g "walRotationOk" != "0"),
                              startMarkerOk := (g "walStartMarkerOk" != "0") } }, "ok")
  | "init" :: _ =>
    let powers := (g "powers").splitOn "," |>.filterMap String.toInt?
    let addrs := (g "addrs").splitOn "," |>.filterMap Hex.decode
    let vals : List ValSet.Val := (addrs.zip powers).map fun (a, p) => ⟨a, p, 0⟩
    let vs := ValSet.newValSet ValSet.repaired vals
    let n0 := Node.init d.cfg 1 vs (g "me").toNat? ((g "skip") == "1")
    let n := if (g "prefix").isEmpty then n0 else { n0 with ownPrefix := (g "prefix").toUTF8.toList }
    finish { d with addrs := addrs, l := { d.l with n := n, snap := n, log := [], tornAt := none, marks := [⟨0, 1, 0⟩], nFiles := 1, headEmpty := false } }
  | "mkblock" :: nm :: _ =>
    let bh := (g "h").toInt?.getD d.n.height
    let n := { d.n with validTab := d.n.validTab ++ [(parseName nm, bh, g "valid" != "0")] }
    (d.setN n, "ok")
  | "proposal" :: nm :: _ =>
    match (g "h").toInt?, (g "r").toInt?, (g "pol").toInt?, (g "signer").toNat? with
    | some h, some r, some pol, some sg =>
      let p : Proposal := ⟨h, r, parseName nm, pol, parseName (g "polblock")⟩
      if g "presave" == "1" then ({ d with l := Wal.saveOnly d.l (.msg (.proposal p sg (g "bad" == "1")) "peer") }, "ok") else
      finish (handle d (.msg (.proposal p sg (g "bad" == "1")) "peer"))
    | _, _, _, _ => (d, "bad-op")
  | "parts" :: nm :: _ =>
    match (g "h").toInt?, (g "r").toInt? with
    | some h, some r =>
      if g "presave" == "1" then ({ d with l := Wal.saveOnly d.l (.msg (.parts h r (parseName nm)) "peer") }, "ok") else
      finish (handle d (.msg (.parts h r (parseName nm)) "peer"))
    | _, _ => (d, "bad-op")
  | "vote" :: _ =>
    match (g "t").toNat?, (g "h").toInt?, (g "r").toInt?, (g "idx").toInt?, Hex.decode (g "addr") with
    | some t, some h, some r, some idx, some addr =>
      let v : VoteSet.Vote := ⟨idx, addr, h, r, t, bidOf (parseName (g "block")), (g "sig").toNat?.getD 0⟩
      if g "presave" == "1" then ({ d with l := Wal.saveOnly d.l (.msg (.vote v (g "ok" == "1")) (g "peer")) }, "ok") else
      finish (handle d (.msg (.vote v (g "ok" == "1")) (g "peer")))
    | _, _, _, _, _ => (d, "bad-op")
  | "maj23" :: _ =>
    match (g "t").toNat?, (g "h").toInt?, (g "r").toInt? with
    | some t, some h, some r =>
      finish (d.setN (Node.setPeerMaj23 d.n h r t (g "peer") (bidOf (parseName (g "block")))))
    | _, _, _ => (d, "bad-op")
  | ["timeout", h, r, s] =>
    match h.toInt?, r.toInt? with
    | some h, some r => finish (handle d (.timeout h r (parseStep s)))
    | _, _ => (d, "bad-op")
  | ["drain"] =>
    let (d, msgs) := drainAll d [] 200
    finish d (" ".intercalate msgs ++ " || ")
  | ["rotate"] => ({ d with l := Wal.rotate d.l }, "ok")
  | ["votes"] => (d, showVotes d.n)
  | ["digest"] => finish d
  | ["proposer"] => (d, "proposer=" ++ (match proposerAddr d.n with | some a => Hex.encode a | none => "-"))
  | "restart" :: _ => finish (restartNode d (g "torn" == "1"))
  | _ => (d, "bad-op")


end AnnVerif.NodeDrv
