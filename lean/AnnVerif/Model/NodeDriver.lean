import AnnVerif.Model.DriverUtil
import AnnVerif.Model.Node
namespace AnnVerif.NodeDrv
open AnnVerif AnnVerif.Drv AnnVerif.Node

structure DSt where
  cfg : Cfg := Node.repaired
  n : Node := Node.init Node.repaired 1 ⟨[], none, 0⟩ none false
  addrs : List Bytes := []

def showName (b : Name) : String := if b.isEmpty then "-" else String.fromUTF8! (ByteArray.mk b.toArray)
def parseName (s : String) : Name := if s == "-" then [] else s.toUTF8.toList

def showStep : Step → String
  | .newHeight => "NewHeight" | .newRound => "NewRound" | .propose => "Propose" | .prevote => "Prevote"
  | .prevoteWait => "PrevoteWait" | .precommit => "Precommit" | .precommitWait => "PrecommitWait"
  | .commit => "Commit"

def parseStep : String → Step
  | "NewHeight" => .newHeight | "NewRound" => .newRound | "Propose" => .propose | "Prevote" => .prevote
  | "PrevoteWait" => .prevoteWait | "Precommit" => .precommit | "PrecommitWait" => .precommitWait
  | _ => .commit

def showOpt (o : Option Name) : String := match o with | some b => showName b | none => "-"

def showEmit : Emit → String
  | .timeout h r s => s!"T({h},{r},{showStep s})"
  | .panic _ => "PANIC"
  | .commit h b => s!"COMMIT({h},{showName b})"

def digest (n : Node) : String :=
  let prop := match n.proposal with | some p => showName p.block | none => "-"
  s!"h={n.height} r={n.round} s={showStep n.step} lr={n.lockedRound} lb={showOpt n.lockedBlock} " ++
  s!"prop={prop} pb={showOpt n.proposalBlock} pp={showOpt n.proposalParts} cr={n.commitRound} q={n.queue.length} | " ++
  " ".intercalate (n.out.map showEmit)

def showMsg : Msg → String
  | .proposal p _ _ => s!"P({p.round},{showName p.block},{p.polRound},{showName p.polBlock})"
  | .parts _ _ b => s!"B({showName b})"
  | .vote v _ => s!"V({v.type},{v.height},{v.round},{showName (nameOf v.bid)})"

/-- a step that panics leaves the real node in an undefined state: report PANIC only -/
def finish (d : DSt) (n : Node) (pre : String := "") : DSt × String :=
  if n.out.any (fun e => match e with | .panic _ => true | _ => false) then
    ({ d with n := { n with out := [] } }, "PANIC")
  else ({ d with n := { n with out := [] } }, pre ++ digest n)

partial def drainAll (n : Node) (acc : List String) (fuel : Nat) : Node × List String :=
  match fuel, n.queue with
  | 0, _ => (n, acc)
  | _, [] => (n, acc)
  | f + 1, m :: rest =>
    let n := handleMsg { n with queue := rest } m ""
    drainAll n (acc ++ [showMsg m]) f

def dstep (d : DSt) (line : String) : DSt × String :=
  let ws := words line
  let g (k : String) : String := (kv ws k).getD ""
  match ws with
  | "cfg" :: _ => ({ d with cfg := ⟨g "verifyOwnParts" != "0"⟩ }, "ok")
  | "init" :: _ =>
    let powers := (g "powers").splitOn "," |>.filterMap String.toInt?
    let addrs := (g "addrs").splitOn "," |>.filterMap Hex.decode
    let vals : List ValSet.Val := (addrs.zip powers).map fun (a, p) => ⟨a, p, 0⟩
    let vs := ValSet.newValSet ValSet.repaired vals
    let n0 := Node.init d.cfg 1 vs (g "me").toNat? ((g "skip") == "1")
    let n := if (g "prefix").isEmpty then n0 else { n0 with ownPrefix := (g "prefix").toUTF8.toList }
    finish { d with addrs := addrs } n
  | "mkblock" :: nm :: _ =>
    let bh := (g "h").toInt?.getD d.n.height
    let n := { d.n with validTab := d.n.validTab ++ [(parseName nm, bh, g "valid" != "0")] }
    ({ d with n := n }, "ok")
  | "proposal" :: nm :: _ =>
    match (g "h").toInt?, (g "r").toInt?, (g "pol").toInt?, (g "signer").toNat? with
    | some h, some r, some pol, some sg =>
      let p : Proposal := ⟨h, r, parseName nm, pol, parseName (g "polblock")⟩
      finish d (handleMsg d.n (.proposal p sg (g "bad" == "1")) "peer")
    | _, _, _, _ => (d, "bad-op")
  | "parts" :: nm :: _ =>
    match (g "h").toInt?, (g "r").toInt? with
    | some h, some r => finish d (handleMsg d.n (.parts h r (parseName nm)) "peer")
    | _, _ => (d, "bad-op")
  | "vote" :: _ =>
    match (g "t").toNat?, (g "h").toInt?, (g "r").toInt?, (g "idx").toInt?, Hex.decode (g "addr") with
    | some t, some h, some r, some idx, some addr =>
      let v : VoteSet.Vote := ⟨idx, addr, h, r, t, bidOf (parseName (g "block")), (g "sig").toNat?.getD 0⟩
      finish d (handleMsg d.n (.vote v (g "ok" == "1")) (g "peer"))
    | _, _, _, _, _ => (d, "bad-op")
  | ["timeout", h, r, s] =>
    match h.toInt?, r.toInt? with
    | some h, some r => finish d (handleTimeout d.n h r (parseStep s))
    | _, _ => (d, "bad-op")
  | ["drain"] =>
    let (n, msgs) := drainAll d.n [] 200
    finish d n (" ".intercalate msgs ++ " || ")
  | _ => (d, "bad-op")


end AnnVerif.NodeDrv
