/-
  Shared basics for all models: byte strings, hex, the go-wire length prefix.
  Core Lean only (the drivers are compiled to native executables).
-/
namespace AnnVerif

abbrev Bytes := List UInt8

/-- Outcome of a Go call as the models see it: a value, a returned error class, or a panic. -/
inductive Res (α : Type) where
  | ok (a : α)
  | err (e : String)
  | panic (site : String)
  deriving Repr, DecidableEq

namespace Hex

def digit (n : Nat) : Char :=
  if n < 10 then Char.ofNat (48 + n) else Char.ofNat (87 + n)

def ofByte (b : UInt8) : String :=
  String.ofList [digit (b.toNat / 16), digit (b.toNat % 16)]

def encode (bs : Bytes) : String :=
  if bs.isEmpty then "-" else String.join (bs.map ofByte)

def val (c : Char) : Option Nat :=
  if '0' ≤ c ∧ c ≤ '9' then some (c.toNat - 48)
  else if 'a' ≤ c ∧ c ≤ 'f' then some (c.toNat - 87)
  else if 'A' ≤ c ∧ c ≤ 'F' then some (c.toNat - 55)
  else none

def decodeChars : List Char → Option Bytes
  | [] => some []
  | [_] => none
  | a :: b :: rest => do
    let x ← val a
    let y ← val b
    let r ← decodeChars rest
    pure (UInt8.ofNat (x * 16 + y) :: r)

/-- "-" is the empty string (so fields never vanish from a space-separated line). -/
def decode (s : String) : Option Bytes :=
  if s == "-" then some [] else decodeChars s.toList

end Hex

/-- big-endian bytes of `n`, exactly `k` of them (high bytes dropped if `n` is too big). -/
def beBytes : Nat → Nat → Bytes
  | 0, _ => []
  | k + 1, n => UInt8.ofNat (n / 256 ^ k % 256) :: beBytes k n

/-- `uvarintSize` of go-wire/int.go for values below 2^64. -/
def uvarintSize (n : Nat) : Nat :=
  if n = 0 then 0 else if n < 2 ^ 8 then 1 else if n < 2 ^ 16 then 2 else if n < 2 ^ 24 then 3
  else if n < 2 ^ 32 then 4 else if n < 2 ^ 40 then 5 else if n < 2 ^ 48 then 6
  else if n < 2 ^ 56 then 7 else 8

/-- `WriteVarint` for a non-negative int. -/
def wireVarintNat (n : Nat) : Bytes :=
  UInt8.ofNat (uvarintSize n) :: beBytes (uvarintSize n) n

/-- `WriteByteSlice`: varint length, then the bytes. -/
def wireByteSlice (b : Bytes) : Bytes := wireVarintNat b.length ++ b

end AnnVerif
