/-
  Model of the canonical sign-bytes of a vote (gemmill/types/signable.go SignBytes,
  canonical_json.go, vote.go WriteSignBytes): go-wire's JSON of
  `CanonicalJSONOnceVote{chain_id, vote{block_id{hash,parts{hash,total}}, height, round, type}}` with
  `omitempty` on the block id's hash and parts. Byte slices are upper-case hex strings, integers are
  decimal. The chain id enters as its JSON-escaped text (the same for every message of a chain).
-/
import AnnVerif.Model.VoteSet
namespace AnnVerif.SignBytes
open AnnVerif.VoteSet

def hexDigit (n : Nat) : Char := if n < 10 then Char.ofNat (48 + n) else Char.ofNat (55 + n)

def hexOf : Bytes → List Char
  | [] => []
  | b :: t => hexDigit (b.toNat / 16) :: hexDigit (b.toNat % 16) :: hexOf t

def natDigits (n : Nat) : List Char :=
  if n < 10 then [Char.ofNat (48 + n)] else natDigits (n / 10) ++ [Char.ofNat (48 + n % 10)]
termination_by n
decreasing_by omega

def decOf (i : Int) : List Char := if i < 0 then '-' :: natDigits i.natAbs else natDigits i.toNat

-- the fixed pieces of text
def tHashOpen : List Char := ['{', '"', 'h', 'a', 's', 'h', '"', ':', '"']            -- {"hash":"
def tPartsOpen : List Char := ['{', '"', 'p', 'a', 'r', 't', 's', '"', ':']           -- {"parts":
def tThenParts : List Char := ['"', ',', '"', 'p', 'a', 'r', 't', 's', '"', ':']      -- ","parts":
def tTotal : List Char := ['"', ',', '"', 't', 'o', 't', 'a', 'l', '"', ':']          -- ","total":
def tHeight : List Char := [',', '"', 'h', 'e', 'i', 'g', 'h', 't', '"', ':']         -- ,"height":
def tRound : List Char := [',', '"', 'r', 'o', 'u', 'n', 'd', '"', ':']               -- ,"round":
def tType : List Char := [',', '"', 't', 'y', 'p', 'e', '"', ':']                     -- ,"type":

/-- `{"hash":"HEX","total":N}` -/
def partsJson (total : Int) (h : Bytes) : List Char := tHashOpen ++ hexOf h ++ tTotal ++ decOf total ++ ['}']

/-- the block id with `omitempty` on both fields -/
def bidJson (b : BlockID) : List Char :=
  let po := b.phash.isEmpty && b.total == 0
  if b.hash.isEmpty then
    (if po then ['{', '}'] else tPartsOpen ++ partsJson b.total b.phash ++ ['}'])
  else
    (if po then tHashOpen ++ hexOf b.hash ++ ['"', '}']
     else tHashOpen ++ hexOf b.hash ++ tThenParts ++ partsJson b.total b.phash ++ ['}'])

def chainOpen : List Char := ['{', '"', 'c', 'h', 'a', 'i', 'n', '_', 'i', 'd', '"', ':', '"']
def voteOpen : List Char := ['"', ',', '"', 'v', 'o', 't', 'e', '"', ':', '{', '"', 'b', 'l', 'o', 'c', 'k', '_', 'i', 'd', '"', ':']

/-- sign-bytes of a vote (`chainEsc` = the JSON-escaped chain id) -/
def voteJson (chainEsc : List Char) (height round : Int) (type : Nat) (bid : BlockID) : List Char :=
  chainOpen ++ chainEsc ++ voteOpen ++ bidJson bid ++ tHeight ++ decOf height ++ tRound ++ decOf round ++
    tType ++ decOf type ++ ['}', '}']

end AnnVerif.SignBytes
