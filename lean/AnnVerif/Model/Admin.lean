/-
  Model of gemmill/plugin/admin_op.go: CheckMajor23, ProcessAdminOP, EndBlock/updateValidators,
  and the account-nonce discipline around it (eth/core/state_transition.go increments the sender's
  nonce before the call that reaches the admin precompile, so `app.GetNonce()` is the tx nonce + 1).

  A signature entry is (address derived from its public key, oracle bit "the signature verifies
  over exactly this request's message under that key"). Theorems quantify over the oracle.
-/
import AnnVerif.Model.ValSet
namespace AnnVerif.Admin
open AnnVerif.ValSet

/-- `dedupSigners` = CheckMajor23 counts each signer address once (repaired) -/
structure Cfg where
  dedupSigners : Bool
  deriving Repr, DecidableEq

def repaired : Cfg := ⟨true⟩
def asFound : Cfg := ⟨false⟩

structure SigEntry where
  addr : Bytes
  ok : Bool
  deriving Repr, DecidableEq

def powerOf (vals : List Val) (a : Bytes) : Option Int :=
  (vals.find? (fun v => v.addr = a)).map (·.power)

/-- the loop of `CheckMajor23`: returns the accumulated power -/
def major23Loop (cfg : Cfg) (vals : List Val) : List SigEntry → List Bytes → Int → Int
  | [], _, acc => acc
  | e :: t, seen, acc =>
    match powerOf vals e.addr with
    | some p =>
      if p > 0 then
        if cfg.dedupSigners && seen.contains e.addr then major23Loop cfg vals t seen acc
        else if e.ok then major23Loop cfg vals t (e.addr :: seen) (acc + p)
        else major23Loop cfg vals t seen acc
      else major23Loop cfg vals t seen acc
    | none => major23Loop cfg vals t seen acc

/-- `CheckMajor23`: `major23 > TotalVotingPower()*2/3` -/
def checkMajor23 (cfg : Cfg) (vals : List Val) (sinfos : List SigEntry) : Bool :=
  major23Loop cfg vals sinfos [] 0 > sumPower vals * 2 / 3

/-! ### ProcessAdminOP -/

inductive Cmd where
  | add | update | remove | other
  deriving Repr, DecidableEq

structure Request where
  cmdTypeOk : Bool          -- cmd.CmdType == "changeValidator"
  parseOk : Bool            -- cmd.Msg unmarshals into a ValidatorAttr
  attrAddr : Bytes          -- ValidatorAttr.Addr   (the submitting account)
  attrNonce : Nat           -- ValidatorAttr.Nonce
  cmd : Cmd
  target : Bytes            -- address of ValidatorAttr.PubKey
  power : Int
  selfOk : Bool             -- SelfSign verifies under the target key (add only)
  sinfos : List SigEntry
  deriving Repr, DecidableEq

structure Change where
  cmd : Cmd
  target : Bytes
  power : Int
  deriving Repr, DecidableEq

inductive Res where
  | accepted (changed : Bool)   -- nil error; `changed` = a change was queued
  | errMajor | errType | errParse | errFrom | errNonce | errSelf | errNotAdded | errCmd
  deriving Repr, DecidableEq

/-- `ExecTX` = CheckMajor23 then ProcessAdminOP. `from`/`appNonce` are what the AdminApp reports. -/
def execTx (cfg : Cfg) (vals : List Val) (from_ : Bytes) (appNonce : Nat) (r : Request) :
    Res × Option Change :=
  if !checkMajor23 cfg vals r.sinfos then (.errMajor, none)
  else if !r.cmdTypeOk then (.errType, none)
  else if !r.parseOk then (.errParse, none)
  else if from_ ≠ r.attrAddr then (.errFrom, none)
  else if r.attrNonce + 1 ≠ appNonce then (.errNonce, none)
  else
    match r.cmd with
    | .add =>
      if !r.selfOk then (.errSelf, none)
      else if (powerOf vals r.target).isSome then (.accepted false, none)
      else (.accepted true, some ⟨.add, r.target, r.power⟩)
    | .update =>
      match powerOf vals r.target with
      | none => (.errNotAdded, none)
      | some p => if p = r.power then (.accepted false, none)
                  else (.accepted true, some ⟨.update, r.target, r.power⟩)
    | .remove =>
      if (powerOf vals r.target).isNone then (.accepted false, none)
      else (.accepted true, some ⟨.remove, r.target, r.power⟩)
    | .other => (.errCmd, none)

/-- `updateValidators` over the NEXT validator set; `none` = an error (set left half-updated in Go,
    the caller aborts the block) -/
def applyChange (vs : ValSet) (c : Change) : Option ValSet :=
  match c.cmd with
  | .add | .update =>
    match powerOf vs.vals c.target with
    | none => let r := add vs ⟨c.target, c.power, 0⟩; if r.2 then some r.1 else none
    | some p =>
      if p ≠ c.power then
        match vs.vals.find? (fun v => v.addr = c.target) with
        | some v => let r := update vs { v with power := c.power }; if r.2 then some r.1 else none
        | none => none
      else some vs
  | .remove => let r := remove vs c.target; if r.2 then some r.1 else none
  | .other => some vs

def applyChanges (vs : ValSet) : List Change → Option ValSet
  | [] => some vs
  | c :: t => (applyChange vs c).bind (fun vs' => applyChanges vs' t)

/-! ### account nonces (the replay argument) -/

/-- one admin transaction as the chain sees it: it is executed only if `txNonce` equals the
    sender's account nonce (C09); execution first bumps the account nonce, then the precompile
    runs `ExecTX` with `GetNonce() = txNonce + 1`. -/
structure AdminTx where
  sender : Bytes
  txNonce : Nat
  req : Request
  deriving Repr, DecidableEq

def nonceOf (m : List (Bytes × Nat)) (a : Bytes) : Nat :=
  match m.find? (·.1 = a) with
  | some (_, n) => n
  | none => 0

def bump (m : List (Bytes × Nat)) (a : Bytes) : List (Bytes × Nat) :=
  (a, nonceOf m a + 1) :: m.filter (·.1 ≠ a)

def Res.isAccepted : Res → Bool
  | .accepted _ => true
  | _ => false

/-- returns the new nonce map and whether the request was ACCEPTED (queued or no-op) -/
def runTx (cfg : Cfg) (vals : List Val) (m : List (Bytes × Nat)) (tx : AdminTx) :
    List (Bytes × Nat) × Bool :=
  if tx.txNonce ≠ nonceOf m tx.sender then (m, false)     -- tx invalid: nothing happens
  else
    (bump m tx.sender,
      (execTx cfg vals tx.sender (nonceOf (bump m tx.sender) tx.sender) tx.req).1.isAccepted)

end AnnVerif.Admin
