/-
  Model of the application wrapper around the EVM (chain/app/evm/evm.go OnExecute / genExecFun /
  executeKVTx / OnCommit / SaveReceipts, verifycpuparallel.go, and the validity part of
  eth/core/state_transition.go preCheck + buyGas + intrinsic gas).

  What is NOT computed: the EVM and the state trie. A transaction that passes the checks is applied;
  its receipt (opaque bytes) is an oracle input supplied by the harness from the real execution, and
  the application hash is never predicted (it is compared between real replicas by the harness).
  What IS computed: which transactions are valid, the nonce and balance bookkeeping of plain
  senders, the per-block accumulators (receipts, key-value records), their lifetime (commit,
  restart) and the receipts hash as the simple Merkle root over this block's records.
-/
import AnnVerif.Model.Merkle
import AnnVerif.Model.Rlp
namespace AnnVerif.App

/-- variants -/
structure Cfg where
  /-- `OnCommit` clears the key-value records of the block (repaired); as found only the receipts -/
  resetKvs : Bool := true
  /-- `executeKVTx` applies a key-value transaction only at the sender's current nonce (repaired) -/
  kvNonceCheck : Bool := true
  /-- empty transaction bytes are reported invalid (repaired); as found `tx.Data()` on a nil
      transaction panics the executing routine -/
  nilTxGuard : Bool := true
  /-- the governance precompile fails a call with malformed input (repaired); as found its slicing
      runs out of range and panics the node executing the block -/
  adminInputGuard : Bool := true
  deriving Repr, DecidableEq

def repaired : Cfg := {}
def asFound : Cfg := ⟨false, false, false, false⟩

inductive Kind where
  | call (to : Nat) (adminBad : Bool := false)  -- message call / value transfer to account `to`;
                                          -- `adminBad`: the governance precompile with malformed input
  | create                                -- contract creation
  | kv (key value : Bytes) (rlpOk : Bool) -- key-value transaction (payload decodes or not)
  deriving Repr, DecidableEq

/-- a transaction as the wrapper sees it -/
inductive Tx where
  | empty                                  -- zero-length bytes
  | garbage                                -- bytes that do not decode as a transaction
  | badSig                                 -- decodes, but the sender cannot be recovered
  | signed (sender nonce : Nat) (kind : Kind) (value gas price : Nat) (zeros nonzeros : Nat)
  deriving Repr, DecidableEq

structure Account where
  id : Nat
  nonce : Nat
  balance : Nat
  deriving Repr, DecidableEq

abbrev Accounts := List Account

def getAcc (as : Accounts) (i : Nat) : Account :=
  match as.find? (·.id = i) with
  | some a => a
  | none => ⟨i, 0, 0⟩

def setAcc (as : Accounts) (a : Account) : Accounts :=
  if as.any (·.id = a.id) then as.map (fun x => if x.id = a.id then a else x) else as ++ [a]

/-- `IntrinsicGas` before Homestead (AnnChain heights are far below the Mainnet fork blocks the
    chain config names): 21000 + 4 per zero byte + 68 per non-zero byte -/
def intrinsicGas (zeros nonzeros : Nat) : Nat := 21000 + 4 * zeros + 68 * nonzeros

inductive Outcome where
  | applied          -- executed; yields a receipt
  | kvApplied (record : Bytes)
  | invalid
  | panic
  deriving Repr, DecidableEq

/-- one transaction against the state: validity as decided by `tryValidate`, `preCheck`, `buyGas`,
    the intrinsic-gas charge and `CanTransfer`; the bookkeeping of a valid one -/
def applyTx (cfg : Cfg) (as : Accounts) : Tx → Accounts × Outcome
  | .empty => if cfg.nilTxGuard then (as, .invalid) else (as, .panic)
  | .garbage => (as, .invalid)
  | .badSig => (as, .invalid)
  | .signed sender nonce kind value gas price zeros nonzeros =>
    let a := getAcc as sender
    match kind with
    | .kv key val rlpOk =>
      if !rlpOk then (as, .invalid)
      else if cfg.kvNonceCheck ∧ nonce ≠ a.nonce then (as, .invalid)
      else (setAcc as ⟨sender, a.nonce + 1, a.balance⟩, .kvApplied (Rlp.encode (.list [.str key, .str val])))
    | .call to adminBad =>
      if nonce ≠ a.nonce then (as, .invalid)
      else if a.balance < gas * price then (as, .invalid)
      else if gas < intrinsicGas zeros nonzeros then (as, .invalid)
      else if a.balance - gas * price < value then (as, .invalid)   -- `CanTransfer` after buying gas
      else if adminBad ∧ !cfg.adminInputGuard then (as, .panic)
      else
        -- gas price is 0 in every schedule of the harness: no refund arithmetic
        let as1 := setAcc as ⟨sender, a.nonce + 1, a.balance - value⟩
        let b := getAcc as1 to
        (setAcc as1 ⟨to, b.nonce, b.balance + value⟩, .applied)
    | .create =>
      if nonce ≠ a.nonce then (as, .invalid)
      else if a.balance < gas * price then (as, .invalid)
      else if gas < intrinsicGas zeros nonzeros then (as, .invalid)
      else if a.balance - gas * price < value then (as, .invalid)
      else (setAcc as ⟨sender, a.nonce + 1, a.balance - value⟩, .applied)

/-- the replica: what is on disk and what lives in the process -/
structure App where
  accounts : Accounts := []
  height : Nat := 0
  receipts : List Bytes := []     -- app.receipts
  kvs : List Bytes := []          -- app.kvs (their RLP records)
  deriving Repr, DecidableEq

structure BlockOut where
  verdicts : List Outcome
  records : List Bytes      -- what the receipts hash is computed over
  rhash : Option Bytes
  deriving Repr, DecidableEq

/-- `OnExecute`: the transactions in block order; `oracle` = the receipt bytes of the applied
    non-kv transactions, in order -/
def execTxs (cfg : Cfg) : Accounts → List Tx → List Bytes → List Bytes → List Bytes → List Outcome →
    Accounts × List Bytes × List Bytes × List Outcome
  | as, [], _, rs, ks, vs => (as, rs, ks, vs)
  | as, t :: ts, oracle, rs, ks, vs =>
    match applyTx cfg as t with
    | (as', .applied) =>
      (match oracle with
       | r :: rest => execTxs cfg as' ts rest (rs ++ [r]) ks (vs ++ [.applied])
       | [] => execTxs cfg as' ts [] (rs ++ [[]]) ks (vs ++ [.applied]))
    | (as', .kvApplied rec) => execTxs cfg as' ts oracle rs (ks ++ [rec]) (vs ++ [.kvApplied rec])
    | (_, .panic) => (as, rs, ks, vs ++ [.panic])          -- the executing routine dies here
    | (as', o) => execTxs cfg as' ts oracle rs ks (vs ++ [o])

section
variable (N : Bytes → Bytes → Bytes)

/-- `OnExecute` followed by `OnCommit` (`SaveReceipts`: Merkle root over the accumulated receipts
    and key-value records; then the accumulators are cleared) -/
def block (cfg : Cfg) (app : App) (txs : List Tx) (oracle : List Bytes) : App × BlockOut :=
  let (as, rs, ks, vs) := execTxs cfg app.accounts txs oracle app.receipts app.kvs []
  let rhash := Merkle.root N (rs ++ ks)
  ({ accounts := as, height := app.height + 1, receipts := [],
     kvs := if cfg.resetKvs then [] else ks }, ⟨vs, rs ++ ks, rhash⟩)

end

/-- the process stops and starts again: what is on disk stays, the accumulators are gone -/
def restart (app : App) : App := { app with receipts := [], kvs := [] }

end AnnVerif.App
