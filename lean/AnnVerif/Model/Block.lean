/-
  Model of block validation: pbft/state.go `ConsensusState.ValidateBlock`, types/block.go
  `Block.ValidateBasic`, `Block.ValidateCommit`, `Commit.ValidateBasic`, and
  `ValidatorSet.VerifyCommit` (Model/VoteSet.lean).

  Hashing is NOT computed: the block carries, next to each header commitment, the digest of what
  it actually contains (`dataDigest = Data.Hash()`, `commitDigest = LastCommit.Hash()`), and the
  state carries `valHash = Validators.Hash()`; the harness evaluates them with the real code.
  Signature verification is the oracle bit of VoteSet (`sigok i v`: the signature of `v` verifies
  under the key of the validator at POSITION `i` of LastValidators).
-/
import AnnVerif.Model.VoteSet
namespace AnnVerif.Block
open AnnVerif.VoteSet

/-- `checkValHash` = ValidateBlock compares Header.ValidatorsHash with the hash of the state's
    validator set (repaired); as found the field is never compared with anything. -/
structure Cfg where
  checkValHash : Bool
  vs : VoteSet.Cfg
  deriving Repr, DecidableEq

def repaired : Cfg := ⟨true, VoteSet.repaired⟩
def asFound : Cfg := ⟨false, VoteSet.repaired⟩

structure Header where
  chainID : String
  height : Int
  numTxs : Int
  lastBlockID : BlockID
  dataHash : Bytes
  lastCommitHash : Bytes
  validatorsHash : Bytes
  appHash : Bytes
  receiptsHash : Bytes
  proposer : Bytes
  deriving Repr, DecidableEq

structure Block where
  hdr : Header
  nTxs : Int              -- len(Data.Txs) + len(Data.ExTxs)
  dataDigest : Bytes      -- Data.Hash()
  commitDigest : Bytes    -- LastCommit.Hash()
  commit : Commit         -- LastCommit (its BlockID field and the precommit slots)
  deriving Repr, DecidableEq

/-- the part of the chain state validation reads (state as of height-1) -/
structure State where
  chainID : String
  lastBlockHeight : Int
  lastBlockID : BlockID
  appHash : Bytes
  receiptsHash : Bytes
  validators : List Validator
  lastValidators : List Validator
  valHash : Bytes          -- Validators.Hash()
  deriving Repr, DecidableEq

inductive BErr where
  | ok | chainID | height | numTxs | lastBlockID | dataHash | appHash | receiptsHash
  | lastCommitHash | commitNilBlock | commitEmpty | commitType | commitHeight | commitRound
  | proposer | valHash | firstBlockCommit | commitSize | verify (e : VErr) | panic
  deriving Repr, DecidableEq

def BlockID.isZero (b : BlockID) : Bool := b.hash.isEmpty && b.total == 0

/-- the loop of `Commit.ValidateBasic` over the non-nil precommits -/
def commitLoop (height round : Int) : List (Option Vote) → BErr
  | [] => .ok
  | none :: t => commitLoop height round t
  | some p :: t =>
    if p.type ≠ 2 then .commitType
    else if p.height ≠ height then .commitHeight
    else if p.round ≠ round then .commitRound
    else commitLoop height round t

/-- `Commit.ValidateBasic()`; `Height()`/`Round()` are those of the first non-nil precommit, 0 when
    there is none (as found: nil dereference → panic) -/
def commitValidateBasic (cfg : Cfg) (c : Commit) : BErr :=
  if BlockID.isZero c.bid then .commitNilBlock
  else if c.precommits.isEmpty then .commitEmpty
  else match firstPrecommit c.precommits with
    | none => if cfg.vs.nilCommit then commitLoop 0 0 c.precommits else .panic
    | some f => commitLoop f.height f.round c.precommits

/-- `Block.ValidateBasic` -/
def validateBasic (st : State) (b : Block) : BErr :=
  if b.hdr.chainID ≠ st.chainID then .chainID
  else if b.hdr.height ≠ st.lastBlockHeight + 1 then .height
  else if b.hdr.numTxs ≠ b.nTxs then .numTxs
  else if b.hdr.lastBlockID ≠ st.lastBlockID then .lastBlockID
  else if b.hdr.dataHash ≠ b.dataDigest then .dataHash
  else if b.hdr.appHash ≠ st.appHash then .appHash
  else if b.hdr.receiptsHash ≠ st.receiptsHash then .receiptsHash
  else .ok

/-- `Block.ValidateCommit` -/
def validateCommit (cfg : Cfg) (b : Block) : BErr :=
  if b.hdr.lastCommitHash ≠ b.commitDigest then .lastCommitHash
  else if b.hdr.height ≠ 1 then commitValidateBasic cfg b.commit
  else .ok

def hasAddress (vals : List Validator) (a : Bytes) : Bool := vals.any (·.addr == a)

/-- the LastCommit part of `ConsensusState.ValidateBlock` -/
def validateLastCommit (cfg : Cfg) (sigok : Nat → Vote → Bool) (st : State) (b : Block) : BErr :=
  if b.hdr.height = 1 then
    (if b.commit.precommits.length ≠ 0 then .firstBlockCommit else .ok)
  else if b.commit.precommits.length ≠ st.lastValidators.length then .commitSize
  else match verifyCommit cfg.vs sigok st.lastValidators st.lastBlockID (b.hdr.height - 1) b.commit with
    | .ok => .ok
    | .panic => .panic
    | e => .verify e

/-- `ConsensusState.ValidateBlock`, checks in code order -/
def validateBlock (cfg : Cfg) (sigok : Nat → Vote → Bool) (st : State) (b : Block) : BErr :=
  match validateBasic st b with
  | .ok =>
    match validateCommit cfg b with
    | .ok =>
      if !hasAddress st.validators b.hdr.proposer then .proposer
      else if cfg.checkValHash ∧ b.hdr.validatorsHash ≠ st.valHash then .valHash
      else validateLastCommit cfg sigok st b
    | e => e
  | e => e

end AnnVerif.Block
