/-
  Model of gemmill/types/validator_set.go (ValidatorSet: IncrementAccum, Proposer, Copy, Add, Update,
  Remove, TotalVotingPower cache, Hash) with the exact container/heap behaviour of
  gemmill/modules/go-common/heap.go for the as-found batched increment.
-/
import AnnVerif.Model.Basic
namespace AnnVerif.ValSet

/-- `iterated` = `IncrementAccum(k)` performs k single increments (repaired);
    as found it adds `k*power` first and then pops the heap k times. -/
structure Cfg where
  iterated : Bool
  deriving Repr, DecidableEq

def repaired : Cfg := ⟨true⟩
def asFound : Cfg := ⟨false⟩

structure Val where
  addr : Bytes
  power : Int
  accum : Int
  deriving Repr, DecidableEq

/-- `proposer` is the cached pointer (we keep the address); `total` is the cached
    `totalVotingPower` (0 = not computed, exactly as in the Go struct). -/
structure ValSet where
  vals : List Val
  proposer : Option Bytes
  total : Int
  deriving Repr, DecidableEq

def sumPower (vals : List Val) : Int := (vals.map (·.power)).sum

/-- `TotalVotingPower()`: fills the cache when it is 0 -/
def totalVotingPower (vs : ValSet) : ValSet × Int :=
  if vs.total = 0 then
    let t := sumPower vs.vals
    ({ vs with total := t }, t)
  else (vs, vs.total)

/-! ### bytes.Compare on addresses -/

def bytesLt : Bytes → Bytes → Bool
  | [], [] => false
  | [], _ :: _ => true
  | _ :: _, [] => false
  | a :: as, b :: bs => if a < b then true else if b < a then false else bytesLt as bs

/-! ### the repaired increment: first maximum wins (= the top of a heap built by pushes only) -/

/-- (index, value) of the FIRST maximal element -/
def amax : List Int → Nat × Int
  | [] => (0, 0)
  | [x] => (0, x)
  | x :: y :: t =>
    let rm := amax (y :: t)
    if x ≥ rm.2 then (0, x) else (rm.1 + 1, rm.2)

def argmaxFirst (xs : List Int) : Nat := (amax xs).1

/-- one round: add the power, pick the first maximum, subtract the total -/
def incrOnce (vs : ValSet) : ValSet :=
  let (vs, t) := totalVotingPower vs
  let vals := vs.vals.map fun v => { v with accum := v.accum + v.power }
  match vals with
  | [] => { vs with vals := vals }    -- (Go: Peek() on an empty heap is nil → nil dereference)
  | _ =>
    let i := argmaxFirst (vals.map (·.accum))
    let vals' := vals.modify i (fun v => { v with accum := v.accum - t })
    { vs with vals := vals', proposer := (vals[i]?).map (·.addr) }

def iter (f : α → α) : Nat → α → α
  | 0, a => a
  | n + 1, a => iter f n (f a)

/-! ### the as-found batched increment with the literal container/heap -/

abbrev HItem := Int × Nat    -- (priority = accum, index of the validator)

/-- `Less(i,j)` of the priority queue: accumComparable.Less = `>` (a max-heap) -/
def hless (h : Array HItem) (i j : Nat) : Bool := (h[i]!).1 > (h[j]!).1

def hswap (h : Array HItem) (i j : Nat) : Array HItem :=
  let a := h[i]!; let b := h[j]!
  (h.set! i b).set! j a

/-- `heap.up` -/
def hup (h : Array HItem) : Nat → Nat → Array HItem
  | 0, _ => h
  | fuel + 1, j =>
    let i := (j - 1) / 2
    if j = 0 ∨ i = j ∨ !hless h j i then h
    else hup (hswap h i j) fuel i

/-- `heap.down i0 n`; returns the heap and whether the element moved -/
def hdown (h : Array HItem) (n : Nat) : Nat → Nat → Array HItem × Nat
  | 0, i => (h, i)
  | fuel + 1, i =>
    let j1 := 2 * i + 1
    if j1 ≥ n then (h, i)
    else
      let j := if j1 + 1 < n ∧ hless h (j1 + 1) j1 then j1 + 1 else j1
      if !hless h j i then (h, i)
      else hdown (hswap h i j) n fuel j

def hpush (h : Array HItem) (x : HItem) : Array HItem :=
  let h' := h.push x
  hup h' h'.size (h'.size - 1)

/-- `heap.Fix(0)` after changing the priority of the root -/
def hfix0 (h : Array HItem) : Array HItem :=
  let (h', i) := hdown h h.size h.size 0
  if i > 0 then h' else h'   -- `up(0)` is a no-op at the root

/-- as-found `IncrementAccum(times)` for `times ≥ 1` -/
def incrBatched (vs : ValSet) (times : Nat) : ValSet :=
  let (vs, t) := totalVotingPower vs
  let vals := vs.vals.map fun v => { v with accum := v.accum + v.power * times }
  let heap0 : Array HItem := (vals.zipIdx.foldl (fun h (v, i) => hpush h (v.accum, i)) #[])
  if vals.isEmpty then { vs with vals := vals } else
  let rec loop : Nat → Array HItem → List Val → Option Bytes → (List Val × Option Bytes)
    | 0, _, vals, p => (vals, p)
    | k + 1, h, vals, p =>
      let top := h[0]!
      let i := top.2
      let vals' := vals.modify i (fun v => { v with accum := v.accum - t })
      let newAcc := top.1 - t
      let h' := hfix0 (h.set! 0 (newAcc, i))
      let p' := if k = 0 then (vals[i]?).map (·.addr) else p
      loop k h' vals' p'
  let (vals', p) := loop times heap0 vals vs.proposer
  { vs with vals := vals', proposer := p }

/-- `IncrementAccum(times)`; `times ≤ 0` adds `times*power` (nothing for 0) and selects nobody -/
def incrementAccum (cfg : Cfg) (vs : ValSet) (times : Nat) : ValSet :=
  if times = 0 then vs
  else if cfg.iterated then iter incrOnce times vs
  else incrBatched vs times

/-! ### Proposer(), Copy, wire reload -/

/-- `CompareAccum` fold: higher accum wins, ties go to the lower address -/
def bestByAccum : List Val → Option Val
  | [] => none
  | v :: t =>
    match bestByAccum t with
    | none => some v
    | some w => if v.accum > w.accum then some v else if v.accum < w.accum then some w
                else if bytesLt v.addr w.addr then some v else some w

/-- the loop in `Proposer()` folds from the left with `proposer.CompareAccum(val)` -/
def foldCompare : Option Val → List Val → Option Val
  | p, [] => p
  | none, v :: t => foldCompare (some v) t
  | some p, v :: t =>
    let w := if p.accum > v.accum then p else if p.accum < v.accum then v
             else if bytesLt p.addr v.addr then p else v
    foldCompare (some w) t

/-- `Proposer()`: the cached one, or (cache nil) recomputed from the CURRENT accums -/
def proposer (vs : ValSet) : ValSet × Option Bytes :=
  match vs.vals with
  | [] => (vs, none)
  | _ =>
    match vs.proposer with
    | some p => (vs, some p)
    | none =>
      let p := (foldCompare none vs.vals).map (·.addr)
      ({ vs with proposer := p }, p)

/-- persistence round trip (`proposer` and `totalVotingPower` are unexported: lost) -/
def reload (vs : ValSet) : ValSet := { vs with proposer := none, total := 0 }

/-- persistence round trip of the chain STATE (state.go Save / LoadState): repaired, the proposer's
    address is stored behind the wire bytes and put back into the cache on load; as found it is
    the bare set round trip `reload` -/
def reloadState (keepsProposer : Bool) (vs : ValSet) : ValSet :=
  if keepsProposer then { vs with total := 0 } else reload vs

/-! ### membership changes -/

/-- `sort.Search` position: first index whose address is ≥ `a` -/
def searchIdx (vals : List Val) (a : Bytes) : Nat :=
  (vals.takeWhile (fun v => bytesLt v.addr a)).length

def add (vs : ValSet) (v : Val) : ValSet × Bool :=
  let idx := searchIdx vs.vals v.addr
  match vs.vals[idx]? with
  | none => ({ vals := vs.vals ++ [v], proposer := none, total := 0 }, true)
  | some w =>
    if w.addr = v.addr then (vs, false)
    else ({ vals := vs.vals.take idx ++ [v] ++ vs.vals.drop idx, proposer := none, total := 0 }, true)

def update (vs : ValSet) (v : Val) : ValSet × Bool :=
  let idx := searchIdx vs.vals v.addr
  match vs.vals[idx]? with
  | some w => if w.addr = v.addr then
      ({ vals := vs.vals.set idx v, proposer := none, total := 0 }, true) else (vs, false)
  | none => (vs, false)

def remove (vs : ValSet) (a : Bytes) : ValSet × Bool :=
  let idx := searchIdx vs.vals a
  match vs.vals[idx]? with
  | some w => if w.addr = a then
      ({ vals := vs.vals.eraseIdx idx, proposer := none, total := 0 }, true) else (vs, false)
  | none => (vs, false)

/-- insertion sort by address (what `sort.Sort(ValidatorsByAddress)` yields for distinct addresses) -/
def insertSorted (v : Val) : List Val → List Val
  | [] => [v]
  | w :: t => if bytesLt v.addr w.addr then v :: w :: t else w :: insertSorted v t

def sortByAddr (vals : List Val) : List Val := vals.foldr insertSorted []

/-- `NewValidatorSet(vals)`: copy, sort by address, one increment -/
def newValSet (cfg : Cfg) (vals : List Val) : ValSet :=
  incrementAccum cfg { vals := sortByAddr vals, proposer := none, total := 0 } 1

end AnnVerif.ValSet
