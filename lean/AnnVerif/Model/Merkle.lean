/-
  Model of gemmill/modules/go-merkle/simple_tree.go and gemmill/types/part_set.go.

  `N l r` is `SimpleHashFromTwoHashes l r = DoHash (wireByteSlice l ++ wireByteSlice r)`;
  `H` is `hash.DoHash`. Both are parameters: theorems hold for every hash function.
-/
import AnnVerif.Model.Basic
namespace AnnVerif.Merkle

/-- configuration / variant: `checkNeg` = the range guards reject negative indices
    (`index < 0 ||` in `computeHashFromAunts` and `PartSet.AddPart`). -/
structure Cfg where
  checkNeg : Bool
  deriving Repr, DecidableEq

def repaired : Cfg := ⟨true⟩
def asFound : Cfg := ⟨false⟩

section
variable (N : Bytes → Bytes → Bytes)

def combine : Option Bytes → Option Bytes → Option Bytes
  | some l, some r => some (N l r)
  | _, _ => none

/-- `SimpleHashFromHashes` (nil for the empty list is `none`). -/
def root : List Bytes → Option Bytes
  | [] => none
  | [h] => some h
  | a :: b :: t =>
    let hs := a :: b :: t
    let k := (hs.length + 1) / 2
    combine N (root (hs.take k)) (root (hs.drop k))
termination_by hs => hs.length
decreasing_by all_goals (simp only [List.length_take, List.length_drop, List.length_cons]; omega)

/-- aunts of leaf `i` in the order `FlattenAunts` returns them: sibling of the leaf first,
    child of the root last. -/
def aunts : List Bytes → Nat → List Bytes
  | [], _ => []
  | [_], _ => []
  | a :: b :: t, i =>
    let hs := a :: b :: t
    let k := (hs.length + 1) / 2
    if i < k then
      aunts (hs.take k) i ++ (root N (hs.drop k)).toList
    else
      aunts (hs.drop k) (i - k) ++ (root N (hs.take k)).toList
termination_by hs => hs.length
decreasing_by all_goals (simp only [List.length_take, List.length_drop, List.length_cons]; omega)

def liftL (a : Bytes) : Res (Option Bytes) → Res (Option Bytes)
  | .ok (some l) => .ok (some (N l a))
  | r => r

def liftR (a : Bytes) : Res (Option Bytes) → Res (Option Bytes)
  | .ok (some r) => .ok (some (N a r))
  | r => r

/-- `computeHashFromAunts index total leaf innerHashes`, with the aunts given in REVERSE order
    (Go consumes `innerHashes` from the end). `none` = Go `nil`. Structural on the aunt list. -/
def computeRev (cfg : Cfg) (idx total : Int) (leaf : Bytes) (rev : List Bytes) :
    Res (Option Bytes) :=
    if (cfg.checkNeg && idx < 0) || idx ≥ total then .ok none
    else if total = 0 then .panic "computeHashFromAunts:total=0"
    else if total = 1 then (if rev.isEmpty then .ok (some leaf) else .ok none)
    else match rev with
      | [] => .ok none
      | a :: rest =>
        let numLeft := Int.tdiv (total + 1) 2
        if idx < numLeft then
          liftL N a (computeRev cfg idx numLeft leaf rest)
        else
          liftR N a (computeRev cfg (idx - numLeft) (total - numLeft) leaf rest)

def compute (cfg : Cfg) (idx total : Int) (leaf : Bytes) (aunts : List Bytes) :
    Res (Option Bytes) :=
  computeRev N cfg idx total leaf aunts.reverse

/-- `SimpleProof.Verify`. -/
def verify (cfg : Cfg) (idx total : Int) (leaf : Bytes) (aunts : List Bytes) (rootHash : Bytes) :
    Res Bool :=
  match compute N cfg idx total leaf aunts with
  | .ok (some h) => .ok (h == rootHash)
  | .ok none => .ok false
  | .err e => .err e
  | .panic s => .panic s

end

/-! ### PartSet -/

structure Part where
  index : Int
  bytes : Bytes
  aunts : List Bytes
  deriving Repr, DecidableEq

structure PartSet where
  total : Nat
  hash : Bytes
  parts : List (Option Part)   -- length = total
  count : Nat
  deriving Repr, DecidableEq

section
variable (H : Bytes → Bytes) (N : Bytes → Bytes → Bytes)

/-- split `data` into chunks of `sz > 0` bytes (`NewPartSetFromData`). Fuel = data length. -/
def chunksAux (sz : Nat) : Nat → Bytes → List Bytes
  | _, [] => []
  | 0, _ => []
  | fuel + 1, d => d.take sz :: chunksAux sz fuel (d.drop sz)

def chunks (sz : Nat) (d : Bytes) : List Bytes := chunksAux sz d.length d

/-- `NewPartSetFromData` (for `partSize > 0`; empty data gives total 0 and a nil root which the
    model writes as the empty hash). -/
def fromData (data : Bytes) (sz : Nat) : PartSet :=
  let cs := chunks sz data
  let hs := cs.map H
  let ps := (List.range cs.length).zipWith
    (fun i c => some (Part.mk (Int.ofNat i) c (aunts N hs i))) cs
  { total := cs.length, hash := (root N hs).getD [], parts := ps, count := cs.length }

def fromHeader (total : Nat) (hash : Bytes) : PartSet :=
  { total := total, hash := hash, parts := List.replicate total none, count := 0 }

inductive AddOut where
  | added | dup | errIndex | errProof | panic
  deriving Repr, DecidableEq

/-- the verdict of `PartSet.AddPart part verify`, guard order as in the code. As found
    (`checkNeg = false`) a negative index reaches `ps.parts[part.Index]` and panics. -/
def addDecide (cfg : Cfg) (ps : PartSet) (p : Part) (doVerify : Bool) : AddOut :=
  if (cfg.checkNeg && p.index < 0) || p.index ≥ (ps.total : Int) then .errIndex
  else if p.index < 0 then .panic
  else
    match ps.parts[p.index.toNat]? with
    | none => .panic  -- unreachable when parts.length = total
    | some (some _) => .dup
    | some none =>
      if doVerify then
        match verify N cfg p.index ps.total (H p.bytes) p.aunts ps.hash with
        | .ok true => .added
        | .ok false => .errProof
        | _ => .panic
      else .added

/-- `PartSet.AddPart`: only the `added` verdict changes the set. -/
def addPart (cfg : Cfg) (ps : PartSet) (p : Part) (doVerify : Bool) : PartSet × AddOut :=
  match addDecide H N cfg ps p doVerify with
  | .added =>
    ({ ps with parts := ps.parts.set p.index.toNat (some p), count := ps.count + 1 }, .added)
  | o => (ps, o)

def isComplete (ps : PartSet) : Bool := ps.count == ps.total

def partBytes : Option Part → Bytes
  | some p => p.bytes
  | none => []

/-- what `GetReader` yields when read to the end: concatenation of the parts' bytes. -/
def assemble (ps : PartSet) : Bytes := (ps.parts.map partBytes).flatten

end
end AnnVerif.Merkle
