/-
  Model of fast sync: gemmill/blockchain/pool.go (the requesters' blocks, AddBlock, RemovePeer,
  PeekTwoBlocks, PopRequest, RedoRequest), the SYNC_LOOP of gemmill/blockchain/reactor.go
  poolRoutine, and the two closures gemmill/angine.go installs in the reactor: the verifier
  (`stateM.Validators.VerifyCommit`, the LIVE validator set of the syncing state) and the executer
  (SaveBlock, ApplyBlock -> ExecBlock -> ValidateBlock, Save), followed by what the node does with
  the result when it leaves fast sync (`reconstructLastCommit` of the stored seen-commit).

  Not computed: hashes (a served block carries the BlockID the real code computes for it) and
  signatures (`sigok i v` = the signature of `v` verifies under the key of the validator at position
  `i`; one global oracle, votes are distinguished by their signature id). The application is the
  harness's: the app hash after block h is "app-h", the validator powers change as `changes` says.
-/
import AnnVerif.Model.Block
namespace AnnVerif.Sync
open AnnVerif.VoteSet AnnVerif.Block

structure Cfg where
  blk : Block.Cfg
  /-- `RedoRequest` returns when the block it should invalidate has already gone (repaired); as
      found it is a PanicSanity in the sync goroutine -/
  redoTolerant : Bool
  /-- a block response without header, data or last commit is dropped on receipt (repaired); as
      found it reaches the pool and the verifier dereferences the missing commit -/
  dropsIncomplete : Bool
  deriving Repr, DecidableEq

def repaired : Cfg := ⟨Block.repaired, true, true⟩
def asFound : Cfg := ⟨Block.repaired, false, false⟩

/-- a block as some peer served it -/
structure Served where
  peer : String
  id : BlockID            -- BlockID{first.Hash(), first.MakePartSet(..).Header()}, computed by the real code
  blk : Block
  hasCommit : Bool        -- LastCommit != nil
  hasData : Bool          -- Data != nil
  deriving Repr, DecidableEq

def Served.complete (b : Served) : Bool := b.hasCommit && b.hasData

/-- the request pool: next height to hand out, and the block (with the peer that served it) each
    requester holds -/
structure Pool where
  height : Int
  block : Int → Option Served

/-- `AddBlock(peer, block)` -> requester(block.Height).setBlock: accepted only from the peer the
    requester is assigned to (`assigned`, observed) and only when it holds no block yet -/
def serve (cfg : Cfg) (p : Pool) (assigned : String) (b : Served) : Pool × Bool :=
  let h := b.blk.hdr.height
  if cfg.dropsIncomplete ∧ !b.complete then (p, false)
  else if h < p.height then (p, false)
  else if (p.block h).isSome ∨ assigned ≠ b.peer then (p, false)
  else ({ p with block := fun k => if k = h then some b else p.block k }, true)

/-- `RemovePeer`: every requester assigned to the peer forgets its block and asks again -/
def removePeer (p : Pool) (peer : String) : Pool :=
  { p with block := fun k => match p.block k with
      | some b => if b.peer = peer then none else some b
      | none => none }

/-- `PeekTwoBlocks` -/
def peek (p : Pool) : Option Served × Option Served := (p.block p.height, p.block (p.height + 1))

/-- `PopRequest`: the requester at pool.height goes, whatever it holds -/
def pop (p : Pool) : Pool :=
  { height := p.height + 1, block := fun k => if k = p.height then none else p.block k }

/-- what the application does to the validator set at the end of block `h` -/
abbrev Changes := Int → Option (Nat × Int)

def setPower (vals : List Validator) (pos : Nat) (pw : Int) : List Validator :=
  match vals[pos]? with
  | some v => vals.set pos ⟨v.addr, pw⟩
  | none => vals

def nextVals (ch : Changes) (vals : List Validator) (h : Int) : List Validator :=
  match ch h with
  | some (pos, pw) => setPower vals pos pw
  | none => vals

def appOf (h : Int) : Bytes := ("app-" ++ toString h).toUTF8.toList

structure St where
  cs : Block.State               -- chain state of the syncing node
  pool : Pool
  applied : List (Served × Served)   -- (block, the following block whose LastCommit justified it)

/-- the executer's effect on the chain state: SetBlockAndValidators + the app's commit result -/
def advanceState (ch : Changes) (valHashOf : Int → Bytes) (cs : Block.State) (first : Served) : Block.State :=
  let h := first.blk.hdr.height
  { chainID := cs.chainID, lastBlockHeight := h, lastBlockID := first.id,
    appHash := appOf h, receiptsHash := [],
    validators := nextVals ch cs.validators h, lastValidators := cs.validators,
    valHash := valHashOf (h + 1) }

inductive Outcome where
  | wait                     -- not both blocks there
  | redo (e : VErr)          -- verification failed: the request is made again
  | applied                  -- stored and executed
  | execFail (e : BErr)      -- the executer refused a verified block: PanicQ, the process dies
  | panic                    -- an unrecovered panic in the sync goroutine
  deriving Repr, DecidableEq

/-- the rest of one SYNC_LOOP iteration after `PeekTwoBlocks` returned `first`, `second`; `s.pool`
    is the pool as it is NOW (peers may have been removed and blocks served since the peek) -/
def complete (cfg : Cfg) (ch : Changes) (valHashOf : Int → Bytes) (sigok : Nat → Vote → Bool)
    (s : St) (first second : Served) : St × Outcome :=
  if !second.hasCommit then (s, .panic)
  else
    match verifyCommit cfg.blk.vs sigok s.cs.validators first.id first.blk.hdr.height second.blk.commit with
    | .ok =>
      let s1 := { s with pool := pop s.pool }
      if !first.complete then (s1, .panic)        -- ExecBlock dereferences the missing part
      else match validateBlock cfg.blk sigok s.cs first.blk with
        | .ok => ({ s1 with cs := advanceState ch valHashOf s.cs first,
                            applied := s.applied ++ [(first, second)] }, .applied)
        | e => (s1, .execFail e)
    | .panic => (s, .panic)
    | e =>
      match s.pool.block first.blk.hdr.height with
      | none => if cfg.redoTolerant then (s, .redo e) else (s, .panic)
      | some cur => ({ s with pool := removePeer s.pool cur.peer }, .redo e)

/-- one whole iteration with nothing happening in between -/
def trySync (cfg : Cfg) (ch : Changes) (valHashOf : Int → Bytes) (sigok : Nat → Vote → Bool)
    (s : St) : St × Outcome :=
  match peek s.pool with
  | (some first, some second) => complete cfg ch valHashOf sigok s first second
  | _ => (s, .wait)

/-! ### leaving fast sync: `reconstructLastCommit` -/

def reconstructLoop (cfg : VoteSet.Cfg) (sigok : Nat → Vote → Bool) :
    List (Option Vote) → VoteSet → Option VoteSet
  | [], vs => some vs
  | none :: t, vs => reconstructLoop cfg sigok t vs
  | some v :: t, vs =>
    match addVote cfg vs v (sigok v.idx.toNat v) with
    | (vs', .added) => reconstructLoop cfg sigok t vs'
    | _ => none                      -- PanicCrisis("Failed to reconstruct LastCommit")

/-- true = the node can start consensus on top of the stored seen-commit; false = it panics, now and
    at every later start -/
def reconstruct (cfg : VoteSet.Cfg) (sigok : Nat → Vote → Bool) (lastVals : List Validator)
    (height : Int) (c : Commit) : Bool :=
  let round := match firstPrecommit c.precommits with
    | some f => f.round
    | none => 0
  match reconstructLoop cfg sigok c.precommits (VoteSet.new height round 2 lastVals) with
  | some vs => vs.maj23.isSome
  | none => false

/-- the check at the end of fast sync, on the state the model has reached -/
def canLeave (cfg : Cfg) (sigok : Nat → Vote → Bool) (s : St) : Bool :=
  match s.applied.getLast? with
  | none => true
  | some (_, second) =>
    reconstruct cfg.blk.vs sigok s.cs.lastValidators s.cs.lastBlockHeight second.blk.commit

end AnnVerif.Sync
