/-
  Model of peer admission: gemmill/p2p/switch.go AddPeerWithConnection (the checks, in code order),
  peer.go peerHandshake (AuthByCA on the announced node info) and gemmill/angine.go authByCA.

  Keys are opaque ids. `connKey` is the key that signed the handshake challenge (what the secret
  connection authenticated), `announced` the key in the peer's NodeInfo, `signedBy` the keys under
  which the certificate the peer presents verifies (an oracle: normally the one authority that
  signed it; empty for a missing, malformed or forged certificate).
-/
import AnnVerif.Model.Basic
namespace AnnVerif.Admission

structure Cfg where
  /-- the authority check reads the validator set in force when the peer connects (repaired); as
      found it keeps the set the node started with -/
  currentValidators : Bool := true
  deriving Repr, DecidableEq

structure Validator where
  key : Nat
  isCA : Bool
  deriving Repr, DecidableEq

structure Node where
  self : Nat
  refuse : List Nat
  authByCA : Bool                  -- conf auth_by_ca
  nonValidatorNodeAuth : Bool      -- conf non_validator_node_auth
  validatorsAtStart : List Validator
  validatorsNow : List Validator
  deriving Repr, DecidableEq

structure Peer where
  connKey : Nat
  announced : Nat
  signedBy : List Nat
  deriving Repr, DecidableEq

inductive Verdict where
  | admitted | onRefuseList | noAuthority | identityMismatch | isSelf
  deriving Repr, DecidableEq

/-- `authByCA` -/
def caAccepts (cfg : Cfg) (n : Node) (p : Peer) : Bool :=
  let vals := if cfg.currentValidators then n.validatorsNow else n.validatorsAtStart
  if vals.any (·.key == p.announced) && !n.nonValidatorNodeAuth then true
  else vals.any (fun v => v.isCA && p.signedBy.contains v.key)

/-- the checks of `AddPeerWithConnection`, in code order -/
def admission (cfg : Cfg) (n : Node) (p : Peer) : Verdict :=
  if n.refuse.contains p.connKey then .onRefuseList
  else if n.authByCA ∧ !caAccepts cfg n p then .noAuthority
  else if p.announced ≠ p.connKey then .identityMismatch
  else if p.announced = n.self then .isSelf
  else .admitted

end AnnVerif.Admission
